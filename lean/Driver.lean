import Driver.Main
