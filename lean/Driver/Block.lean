import Driver.Proto
/-
  Driver/Block.lean — block-level mode objects (cbc, pcbc, ige, cfb-mode, cfb8, ofb as block mode)
  and the buffered CFB types, at the two layers: `impl` (the mirror of the code) and `spec`
  (the textbook recurrences).
-/
namespace Driver
open Impl

/-- what a block-mode object offers; `σ` is its chaining state. -/
structure BlockMode (σ : Type) where
  mbs     : Nat
  init    : Bytes → σ
  block   : σ → Bytes → Bytes × σ
  blocks  : σ → List Bytes → List Bytes × σ
  ivState : σ → Bytes
  oneshot : Option (σ → Bytes → Bytes)
  /-- implementation layer only: the checked memory-level mirror of the one-shot call (`none` = panic) -/
  oneshotMem : Option (σ → IOBuf → Option IOBuf) := none
  padEnc  : σ → Bytes → Bytes
  padDec  : σ → Bytes → Option Bytes
  debug   : String

def mkImpl {σ : Type} (mbs : Nat) (init : Bytes → σ) (block : σ → Bytes → Bytes × σ)
    (blocks : σ → List Bytes → List Bytes × σ) (ivState : σ → Bytes) (async : Bool) (dbg : String)
    (mem : Option (σ → IOBuf → Option IOBuf) := none) : BlockMode σ :=
  { mbs := mbs, init := init, block := block, blocks := blocks, ivState := ivState
    oneshot := if async then some (Glue.asyncInOut mbs blocks block) else none
    oneshotMem := mem
    padEnc := Glue.paddedEnc mbs blocks block
    padDec := Glue.paddedDec mbs blocks
    debug := dbg }

structure AnyBlockMode where
  σ : Type
  M : BlockMode σ

def implBlockMode (C : Cipher) (w : Nat) (mode : String) : Option AnyBlockMode :=
  match mode with
  | "cbc-enc" => some ⟨_, mkImpl C.bs (Cbc.init C) (Cbc.encBlock C) (Cbc.encBlocks C w) (Cbc.ivState C) false "cbc::Encryptor<Toy> { ... }"⟩
  | "cbc-dec" => some ⟨_, mkImpl C.bs (Cbc.init C) (Cbc.decBlock C) (Cbc.decBlocks C w) (Cbc.ivState C) false "cbc::Decryptor<Toy> { ... }"⟩
  | "pcbc-enc" => some ⟨_, mkImpl C.bs (Pcbc.init C) (Pcbc.encBlock C) (Pcbc.encBlocks C w) (Pcbc.ivState C) false "pcbc::Encryptor<Toy> { ... }"⟩
  | "pcbc-dec" => some ⟨_, mkImpl C.bs (Pcbc.init C) (Pcbc.decBlock C) (Pcbc.decBlocks C w) (Pcbc.ivState C) false "pcbc::Decryptor<Toy> { ... }"⟩
  | "ige-enc" => some ⟨_, mkImpl C.bs (Ige.init C) (Ige.encBlock C) (Ige.encBlocks C w) (Ige.ivState C) false "ige::Encryptor<Toy> { ... }"⟩
  | "ige-dec" => some ⟨_, mkImpl C.bs (Ige.init C) (Ige.decBlock C) (Ige.decBlocks C w) (Ige.ivState C) false "ige::Decryptor<Toy> { ... }"⟩
  | "cfb-enc" => some ⟨_, mkImpl C.bs (Cfb.init C) (Cfb.encBlock C) (Cfb.encBlocks C w) (Cfb.ivState C) true "cfb::Encryptor<Toy> { ... }"
      (some (MemAsync.asyncMem 1 C.bs (Cfb.encBlock C) (Glue.defaultPar (Cfb.encBlock C))))⟩
  | "cfb-dec" => some ⟨_, mkImpl C.bs (Cfb.init C) (Cfb.decBlock C) (Cfb.decBlocks C w) (Cfb.ivState C) true "cfb::Decryptor<Toy> { ... }"
      (some (MemAsync.asyncMem w C.bs (Cfb.decBlock C) (Cfb.decPar C)))⟩
  | "cfb8-enc" => some ⟨_, mkImpl 1 (Cfb8.init C) (Cfb8.encBlock C) (Cfb8.encBlocks C w) (Cfb8.ivState C) true "cfb8::Encryptor<Toy> { ... }"
      (some (MemAsync.asyncMem 1 1 (Cfb8.encBlock C) (Glue.defaultPar (Cfb8.encBlock C))))⟩
  | "cfb8-dec" => some ⟨_, mkImpl 1 (Cfb8.init C) (Cfb8.decBlock C) (Cfb8.decBlocks C w) (Cfb8.ivState C) true "cfb8::Decryptor<Toy> { ... }"
      (some (MemAsync.asyncMem 1 1 (Cfb8.decBlock C) (Glue.defaultPar (Cfb8.decBlock C))))⟩
  | "ofb-enc" => some ⟨_, mkImpl C.bs (Ofb.init C) (Ofb.encBlock C) (Ofb.encBlocks C w) (Ofb.ivState C) false "OfbCore<Toy> { ... }"⟩
  | "ofb-dec" => some ⟨_, mkImpl C.bs (Ofb.init C) (Ofb.decBlock C) (Ofb.decBlocks C w) (Ofb.ivState C) false "OfbCore<Toy> { ... }"⟩
  | _ => none

/-- spec-level object from a list recurrence `f : state → blocks → outputs × state`. -/
def mkSpec {σ : Type} (mbs : Nat) (init : Bytes → σ) (f : σ → List Bytes → List Bytes × σ)
    (ivState : σ → Bytes) (oneshot : Option (σ → Bytes → Bytes)) (dbg : String) : BlockMode σ :=
  { mbs := mbs, init := init
    block := fun s b => let r := f s [b]; (r.1.headD [], r.2)
    blocks := f, ivState := ivState, oneshot := oneshot
    padEnc := fun s m => (f s (chunks mbs (Spec.pkcs7Pad mbs m))).1.flatten
    padDec := fun s c =>
      if c.length % mbs ≠ 0 then none else Spec.pkcs7Unpad mbs (f s (chunks mbs c)).1.flatten
    debug := dbg }

def specBlockMode (C : Cipher) (mode : String) : Option AnyBlockMode :=
  let bytesRec (g : Bytes → Bytes → Bytes × Bytes) : Bytes → List Bytes → List Bytes × Bytes :=
    fun s bl => let r := g s bl.flatten; (r.1.map fun x => [x], r.2)
  match mode with
  | "cbc-enc" => some ⟨_, mkSpec C.bs id (Spec.cbcEnc C) id none "cbc::Encryptor<Toy> { ... }"⟩
  | "cbc-dec" => some ⟨_, mkSpec C.bs id (Spec.cbcDec C) id none "cbc::Decryptor<Toy> { ... }"⟩
  | "pcbc-enc" => some ⟨_, mkSpec C.bs id (Spec.pcbcEnc C) id none "pcbc::Encryptor<Toy> { ... }"⟩
  | "pcbc-dec" => some ⟨_, mkSpec C.bs id (Spec.pcbcDec C) id none "pcbc::Decryptor<Toy> { ... }"⟩
  | "ige-enc" => some ⟨_, mkSpec C.bs (Spec.igeIv C) (Spec.igeEnc C) Spec.igeIvJoin none "ige::Encryptor<Toy> { ... }"⟩
  | "ige-dec" => some ⟨_, mkSpec C.bs (Spec.igeIv C) (Spec.igeDec C) Spec.igeIvJoin none "ige::Decryptor<Toy> { ... }"⟩
  | "cfb-enc" => some ⟨_, mkSpec C.bs id (Spec.cfbEnc C) id (some (Spec.cfbEncBytes C)) "cfb::Encryptor<Toy> { ... }"⟩
  | "cfb-dec" => some ⟨_, mkSpec C.bs id (Spec.cfbDec C) id (some (Spec.cfbDecBytes C)) "cfb::Decryptor<Toy> { ... }"⟩
  | "cfb8-enc" => some ⟨_, mkSpec 1 id (bytesRec (Spec.cfb8Enc C)) id (some fun s m => (Spec.cfb8Enc C s m).1) "cfb8::Encryptor<Toy> { ... }"⟩
  | "cfb8-dec" => some ⟨_, mkSpec 1 id (bytesRec (Spec.cfb8Dec C)) id (some fun s m => (Spec.cfb8Dec C s m).1) "cfb8::Decryptor<Toy> { ... }"⟩
  | "ofb-enc" => some ⟨_, mkSpec C.bs id (Spec.ofb C) id none "OfbCore<Toy> { ... }"⟩
  | "ofb-dec" => some ⟨_, mkSpec C.bs id (Spec.ofb C) id none "OfbCore<Toy> { ... }"⟩
  | _ => none

/-- instance pool shared by every family: `clone` pushes a copy of the current instance, `use i` switches,
    `clonefrom i` overwrites the current instance.  The pool and its three operations are the library's
    `Impl.Pool` (Thm/C16 `pool_lineage` is about exactly these functions). -/
abbrev Pool := Impl.Pool

/-- generic pool ops; returns `none` if the op is not a pool op. -/
def poolStep {σ : Type} (p : Pool σ) (d : σ) (toks : List String) : Option (Pool σ × String) :=
  match toks with
  | ["clone"] => some (p.clone d, "ok")
  | ["use", i] =>
    match i.toNat? with
    | some k => if k < p.insts.length then some (p.use k, "ok") else some (p, bad)
    | none => some (p, bad)
  | ["clonefrom", i] =>
    -- `current.clone_from(&pool[i])`: the current instance is overwritten with a copy of instance `i`
    match i.toNat? with
    | some k => if k < p.insts.length then some (p.cloneFrom d k, "ok") else some (p, bad)
    | none => some (p, bad)
  | _ => none

def blockMachine {σ : Type} (M : BlockMode σ) (iv : Bytes) (ivLen keyLen : Nat) : Machine (Pool σ) where
  init := { insts := [M.init iv], cur := 0 }
  step := fun p toks =>
    let d := M.init iv
    match poolStep p d toks with
    | some r => r
    | none =>
      let s := p.get d
      match toks with
      | ["block", x] =>
        match fromHex x with
        | some b => let r := M.block s b; (p.set r.2, "out " ++ toHex r.1)
        | none => (p, bad)
      | ["blockb", x, g] =>
        match fromHex x, fromHex g with
        | some b, some _ => let r := M.block s b; (p.set r.2, "out " ++ toHex r.1)
        | _, _ => (p, bad)
      | ["blocks", x] =>
        match fromHex x with
        | some b =>
          if b.length % M.mbs ≠ 0 then (p, bad)
          else let r := M.blocks s (chunks M.mbs b); (p.set r.2, "out " ++ toHex r.1.flatten)
        | none => (p, bad)
      | ["blocksb", x, g] =>
        match fromHex x, fromHex g with
        | some b, some gb =>
          if b.length % M.mbs ≠ 0 ∨ gb.length % M.mbs ≠ 0 then (p, bad)
          else if b.length ≠ gb.length then (p, "err " ++ toHex gb)
          else let r := M.blocks s (chunks M.mbs b); (p.set r.2, "out " ++ toHex r.1.flatten)
        | _, _ => (p, bad)
      | ["padenc", x] =>
        match fromHex x with
        | some b => (p, "out " ++ toHex (M.padEnc s b))
        | none => (p, bad)
      | ["paddec", x] =>
        match fromHex x with
        | some b =>
          match M.padDec s b with
          | some o => (p, "out " ++ toHex o)
          | none => (p, "err")
        | none => (p, bad)
      | ["oneshot", x] =>
        match fromHex x, M.oneshot with
        | some b, some f =>
          match M.oneshotMem with
          | some fm =>                                   -- implementation layer: the memory-level mirror, in place
            (match fm s (IOBuf.inplace b) with
             | some io => (p, "out " ++ toHex io.out)
             | none => (p, "panic"))
          | none => (p, "out " ++ toHex (f s b))
        | _, _ => (p, bad)
      | ["oneshotb", x, g] =>
        match fromHex x, fromHex g, M.oneshot with
        | some b, some gb, some f =>
          if b.length ≠ gb.length then (p, "err " ++ toHex gb)
          else match M.oneshotMem with
            | some fm =>                                 -- … into the output buffer's actual previous contents
              (match fm s (IOBuf.b2b b gb) with
               | some io => (p, "out " ++ toHex io.out)
               | none => (p, "panic"))
            | none => (p, "out " ++ toHex (f s b))
        | _, _, _ => (p, bad)
      | ["ivstate"] => (p, "state " ++ toHex (M.ivState s))
      | ["reinit"] => (p.set (M.init (M.ivState s)), "ok")
      | ["viainner"] => ({ insts := p.insts ++ [M.init iv], cur := p.cur }, "ok")
      | ["newslice", kl, il] =>
        match kl.toNat?, il.toNat? with
        | some k, some i => (p, if k = keyLen ∧ i = ivLen then "ok" else "err")
        | _, _ => (p, bad)
      | ["debug"] => (p, "text " ++ M.debug)
      | _ => (p, bad)

/-! ### buffered CFB -/

/-- spec: the byte-at-a-time reference machine for full-block CFB.
    `ch` = previous ciphertext block (chaining value), `cur` = bytes of the current block so far
    (ciphertext bytes in both directions). -/
structure RS where
  ch  : Bytes
  cur : Bytes

def RS.stepEnc (C : Cipher) (s : RS) (p : UInt8) : UInt8 × RS :=
  let c := p ^^^ (C.enc s.ch).getD s.cur.length 0
  let cur' := s.cur ++ [c]
  if cur'.length = C.bs then (c, { ch := cur', cur := [] }) else (c, { s with cur := cur' })

def RS.stepDec (C : Cipher) (s : RS) (c : UInt8) : UInt8 × RS :=
  let p := c ^^^ (C.enc s.ch).getD s.cur.length 0
  let cur' := s.cur ++ [c]
  if cur'.length = C.bs then (p, { ch := cur', cur := [] }) else (p, { s with cur := cur' })

def RS.run (step : RS → UInt8 → UInt8 × RS) : RS → Bytes → Bytes × RS
  | s, [] => ([], s)
  | s, x :: xs =>
    let r := step s x
    let r2 := RS.run step r.2 xs
    (r.1 :: r2.1, r2.2)

def bufImplMachine (C : Cipher) (enc : Bool) (iv : Bytes) : Machine (Pool CfbBuf.St) where
  init := { insts := [CfbBuf.init C iv], cur := 0 }
  step := fun p toks =>
    let d := CfbBuf.init C iv
    match poolStep p d toks with
    | some r => r
    | none =>
      let s := p.get d
      match toks with
      | ["data", x] =>
        match fromHex x with
        | some b =>
          let r := if enc then CfbBuf.encrypt C s b else CfbBuf.decrypt C s b
          (p.set r.2, "out " ++ toHex r.1)
        | none => (p, bad)
      | ["getstate"] => (p, "bufstate " ++ toHex s.iv ++ " " ++ toString s.pos)
      | ["restate"] => (p.set (CfbBuf.fromState (CfbBuf.getState s).1 (CfbBuf.getState s).2), "ok")
      | ["debug"] => (p, "text " ++ (if enc then "cfb::BufEncryptor<Toy> { ... }" else "cfb::BufDecryptor<Toy> { ... }"))
      | _ => (p, bad)

def bufSpecMachine (C : Cipher) (enc : Bool) (iv : Bytes) : Machine (Pool RS) where
  init := { insts := [{ ch := iv, cur := [] }], cur := 0 }
  step := fun p toks =>
    let d : RS := { ch := iv, cur := [] }
    match poolStep p d toks with
    | some r => r
    | none =>
      let s := p.get d
      match toks with
      | ["data", x] =>
        match fromHex x with
        | some b =>
          let r := RS.run (if enc then RS.stepEnc C else RS.stepDec C) s b
          (p.set r.2, "out " ++ toHex r.1)
        | none => (p, bad)
      | ["getstate"] => (p, "bufstate ?")
      | ["restate"] => (p, "ok")
      | ["debug"] => (p, "text " ++ (if enc then "cfb::BufEncryptor<Toy> { ... }" else "cfb::BufDecryptor<Toy> { ... }"))
      | _ => (p, bad)

end Driver
