import Driver.Block
import BlockModes.Impl.MemWrapper
/-
  Driver/Stream.lean — byte-level stream ciphers (`Ctr{32,64,128}{BE,LE}`, `Ofb`, `BeltCtr`) and the
  block-level cores (`CtrCore`, `BeltCtrCore`, `OfbCore`), impl and spec layers.
-/
namespace Driver
open Impl Glue

def fmtList (b : Bytes) : String := "[" ++ ", ".intercalate (b.map fun x => toString x.toNat) ++ "]"

/-- everything the driver needs about one core type, for both layers. -/
structure CoreDesc (σ : Type) where
  K        : Core σ
  init     : σ
  ivState  : σ → Bytes
  reinit   : Bytes → σ
  dbg      : String
  /-- spec: keystream block `i` -/
  ks       : Nat → Bytes
  /-- keystream blocks `a, a+1, …, a+n-1` (the same values as `ks`, computed in one pass; for the driver's speed only) -/
  ksRange  : Nat → Nat → List Bytes
  /-- spec: number of keystream blocks available (`none` = unbounded) -/
  limit    : Option Nat
  /-- spec: exported state after `blk` blocks -/
  specState : Nat → Bytes

structure AnyCoreDesc where
  σ : Type
  D : CoreDesc σ

/-- `E^k(x)` -/
def iterEnc (C : Cipher) : Nat → Bytes → Bytes
  | 0, x => x
  | k + 1, x => iterEnc C k (C.enc x)

/-- OFB keystream blocks `a … a+n-1` = `E^{a+1}(iv), E^{a+2}(iv), …` in one pass -/
def ofbRange (C : Cipher) (iv : Bytes) (a n : Nat) : List Bytes :=
  let rec go : Nat → Bytes → List Bytes
    | 0, _ => []
    | k + 1, x => let y := C.enc x; y :: go k y
  go n (iterEnc C a iv)

def coreDesc (C : Cipher) (mode : String) (iv : Bytes) : Option AnyCoreDesc :=
  match flavorOf mode with
  | some f => some ⟨_, {
      K := Ctr.core C f, init := Ctr.init C f iv, ivState := Ctr.ivState f, reinit := Ctr.init C f
      dbg := "Ctr" ++ toString f.w ++ (if f.be then "BE" else "LE") ++ "<Toy> { ... }"
      ks := Spec.ctrKs C f iv, ksRange := fun a n => (List.range n).map fun j => Spec.ctrKs C f iv (a + j)
      limit := some (Spec.ksLimitBlocks f.w)
      specState := fun blk => Spec.ctrBlock f iv blk }⟩
  | none =>
    match mode with
    | "belt" => some ⟨_, {
        K := Belt.core C, init := Belt.init C iv, ivState := Belt.ivState C, reinit := Belt.init C
        dbg := "BeltCtr<Toy> { ... }"
        ks := Spec.beltKs C iv, ksRange := fun a n => (List.range n).map fun j => Spec.beltKs C iv (a + j)
        limit := some (Spec.ksLimitBlocks 128)
        specState := fun blk => C.dec (toLE 16 ((Spec.beltS0 C iv + blk) % 2 ^ 128)) }⟩
    | "ofb" => some ⟨_, {
        K := OfbCore.core C, init := Ofb.init C iv, ivState := Ofb.ivState C, reinit := Ofb.init C
        dbg := "OfbCore<Toy> { ... }"
        ks := Spec.ofbKs C iv, ksRange := ofbRange C iv, limit := none
        specState := fun blk => if blk = 0 then iv else Spec.ofbKs C iv (blk - 1) }⟩
    | _ => none

/-! ### impl layer -/

def streamImplMachine {σ : Type} (D : CoreDesc σ) (w : Nat) : Machine (Pool (Wr σ)) where
  init := { insts := [Wr.fromCore D.K D.init], cur := 0 }
  step := fun p toks =>
    let d := Wr.fromCore D.K D.init
    match poolStep p d toks with
    | some r => r
    | none =>
      let s := p.get d
      -- the implementation layer runs the *checked memory-level* mirror of `try_apply_keystream_inout`
      -- (`Impl/MemWrapper.lean`): in place, or into the output buffer's actual previous contents
      let outcome (o : MemWr.Outcome σ) : Pool (Wr σ) × String :=
        match o with
        | .ok out s' => (p.set s', "out " ++ toHex out)
        | .err out _ => (p, "err " ++ toHex out)
        | .panic => (p, "panic")
      match toks with
      | ["apply", x] =>
        match fromHex x with
        | some b => outcome (MemWr.applyMem D.K w s (IOBuf.inplace b))
        | none => (p, bad)
      | ["applyb", x, g] =>
        match fromHex x, fromHex g with
        | some b, some gb => outcome (MemWr.applyB2b D.K w s b gb)
        | _, _ => (p, bad)
      | "seek" :: t :: n :: _hint =>
        match snMax t, n.toNat? with
        | some mx, some v =>
          if v > mx ∨ D.K.cw = 0 then (p, bad)
          else let r := s.seek D.K v; (p.set r.2, if r.1 then "ok" else "err")
        | _, _ => (p, bad)
      | ["pos", t] =>
        match snMax t with
        | some mx =>
          if D.K.cw = 0 then (p, bad) else
          match s.currentPos D.K mx with
          | some v => (p, "pos " ++ toString v)
          | none => (p, "err")
        | none => (p, bad)
      | ["rem"] =>
        match D.K.remaining s.core with
        | some v => (p, "rem " ++ toString v)
        | none => (p, "rem none")
      | ["aliasks", n] =>
        -- a fresh object through the crate's public alias for this type: the first `n` keystream bytes
        match n.toNat? with
        | some k =>
          (match MemWr.applyMem D.K w (Wr.fromCore D.K D.init) (IOBuf.inplace (zeros k)) with
           | .ok out _ => (p, "out " ++ toHex out)
           | .err _ _ => (p, "err")
           | .panic => (p, "panic"))
        | none => (p, bad)
      | ["corestate"] => (p, "state " ++ toHex (D.ivState s.core))
      | ["fromcore", n] =>
        match n.toNat? with
        | some v =>
          if D.K.cw = 0 ∨ v ≥ 2 ^ D.K.cw then (p, bad)
          else (p.set (Wr.fromCore D.K (D.K.setPos D.init v)), "ok")
        | none => (p, bad)
      | ["debug"] =>
        (p, "text StreamCipherCoreWrapper { core: " ++ D.dbg ++ ", buffer_data: " ++ fmtList s.debugBufferData ++ " }")
      | _ => (p, bad)

def coreImplMachine {σ : Type} (D : CoreDesc σ) (w : Nat) : Machine (Pool σ) where
  init := { insts := [D.init], cur := 0 }
  step := fun p toks =>
    let d := D.init
    match poolStep p d toks with
    | some r => r
    | none =>
      let s := p.get d
      match toks with
      | ["ksblock"] => let r := D.K.genBlock s; (p.set r.2, "out " ++ toHex r.1)
      | ["ksblocks", n] =>
        match n.toNat? with
        | some k => let r := genBlocks D.K w k s; (p.set r.2, "out " ++ toHex r.1.flatten)
        | none => (p, bad)
      | ["applyblocks", x] =>
        match fromHex x with
        | some b =>
          if b.length % D.K.bs ≠ 0 then (p, bad)
          else let r := applyBlocks D.K w s (chunks D.K.bs b); (p.set r.2, "out " ++ toHex r.1.flatten)
        | none => (p, bad)
      | ["applyblocksb", x, g] =>
        match fromHex x, fromHex g with
        | some b, some gb =>
          if b.length % D.K.bs ≠ 0 ∨ b.length ≠ gb.length then (p, bad)
          else let r := applyBlocks D.K w s (chunks D.K.bs b); (p.set r.2, "out " ++ toHex r.1.flatten)
        | _, _ => (p, bad)
      | ["partial", x] =>
        -- consumes the core; the object continues as a fresh core created from the state exported before the call
        match fromHex x with
        | some b =>
          let p' := p.set (D.reinit (D.ivState s))
          -- the checked memory-level mirror, in place
          (match MemWr.partialMem D.K w s (IOBuf.inplace b) with
           | .ok o => (p', "out " ++ toHex o)
           | .err _ => (p', "err")
           | .panic => (p', "panic"))
        | none => (p, bad)
      | ["partialb", x, g] =>
        match fromHex x, fromHex g with
        | some b, some gb =>
          if b.length ≠ gb.length then (p, bad)
          else
            let p' := p.set (D.reinit (D.ivState s))
            -- … and into the output buffer's actual previous contents
            (match MemWr.partialMem D.K w s (IOBuf.b2b b gb) with
             | .ok o => (p', "out " ++ toHex o)
             | .err o => (p', if o == gb then "err" else "errmod " ++ toHex o)
             | .panic => (p', "panic"))
        | _, _ => (p, bad)
      | ["setpos", n] =>
        match n.toNat? with
        | some v => if D.K.cw = 0 ∨ v ≥ 2 ^ D.K.cw then (p, bad) else (p.set (D.K.setPos s v), "ok")
        | none => (p, bad)
      | ["getpos"] => if D.K.cw = 0 then (p, bad) else (p, "pos " ++ toString (D.K.getPos s))
      | ["rem"] =>
        match D.K.remaining s with
        | some v => (p, "rem " ++ toString v)
        | none => (p, "rem none")
      | ["ivstate"] => (p, "state " ++ toHex (D.ivState s))
      | ["reinit"] => (p.set (D.reinit (D.ivState s)), "ok")
      | ["debug"] => (p, "text " ++ D.dbg)
      | _ => (p, bad)

/-! ### spec layer: the state is the abstract byte position `q` (stream) / block index (core).
    Where the properties leave the behaviour open the spec prints alternatives `a|b` or `?`. -/

def ksByteOf {σ : Type} (D : CoreDesc σ) (p : Nat) : UInt8 := Spec.ksByte D.K.bs D.ks p

/-- the keystream blocks a request `[q, q+len)` touches, from one pass (`ksRange`) -/
def ksTable {σ : Type} (D : CoreDesc σ) (q len : Nat) : Array Bytes :=
  let bs := D.K.bs
  (D.ksRange (q / bs) ((q % bs + len + bs - 1) / bs)).toArray

/-- the keystream byte function read from such a table (equal to `ksByteOf D` on `[q, q+len)`; the spec functions are
    applied to it unchanged). The table is built by the caller, once per request. -/
def ksByteTab (bs first : Nat) (table : Array Bytes) (p : Nat) : UInt8 :=
  (table.getD (p / bs - first) []).getD (p % bs) 0

def streamSpecMachine {σ : Type} (D : CoreDesc σ) : Machine (Pool Nat) where
  init := { insts := [0], cur := 0 }
  step := fun p toks =>
    match poolStep p 0 toks with
    | some r => r
    | none =>
      let q := p.get 0
      let bs := D.K.bs
      let doApply (b : Bytes) (onErr : Bytes) : Pool Nat × String :=
        let tab := ksTable D q b.length
        match Spec.streamApply bs (ksByteTab bs (q / bs) tab) D.limit q b with
        | some r => (p.set r.1, "out " ++ toHex r.2)
        | none => (p, "err " ++ toHex onErr)
      match toks with
      | ["apply", x] =>
        match fromHex x with
        | some b => doApply b b
        | none => (p, bad)
      | ["applyb", x, g] =>
        match fromHex x, fromHex g with
        | some b, some gb => if b.length ≠ gb.length then (p, "err " ++ toHex gb) else doApply b gb
        | _, _ => (p, bad)
      | "seek" :: t :: n :: hint =>
        match snMax t, n.toNat?, D.limit with
        | some mx, some v, some lim =>
          if v > mx ∨ D.K.cw = 0 then (p, bad)
          else if v ≤ lim * bs then (p.set v, "ok")
          else if v / bs ≥ 2 ^ D.K.cw then (p, "err")           -- not representable in the counter type
          else
            -- beyond the keystream end: C10 does not say whether the seek succeeds; if it did (the harness
            -- passes what it observed) the position is `v`, from which no byte may be produced (C11)
            (if hint == ["hint=ok"] then p.set v else p, "?")
        | _, _, _ => (p, bad)
      | ["pos", t] =>
        match snMax t with
        | some mx =>
          if D.K.cw = 0 then (p, bad)
          else if q > mx then (p, "err")
          else if (q + bs - 1) / bs * bs > mx then (p, "pos " ++ toString q ++ "|err")
          else (p, "pos " ++ toString q)
        | none => (p, bad)
      | ["rem"] =>
        match D.limit with
        | some lim => (p, "rem " ++ toString (lim - (q + bs - 1) / bs) ++ "|none")
        | none => (p, "rem none")
      | ["aliasks", n] =>
        -- the documented keystream from offset 0 (a fresh object of the public alias type)
        match n.toNat? with
        | some k =>
          let tab := ksTable D 0 k
          (p, "out " ++ toHex (Spec.ksBytes (ksByteTab bs 0 tab) 0 k))
        | none => (p, bad)
      | ["corestate"] =>
        if q % bs = 0 then (p, "state " ++ toHex (D.specState (q / bs))) else (p, "?")
      | ["fromcore", n] =>
        match n.toNat? with
        | some v => if D.K.cw = 0 ∨ v ≥ 2 ^ D.K.cw then (p, bad) else (p.set (v * bs), "ok")
        | none => (p, bad)
      | ["debug"] => (p, "?")
      | _ => (p, bad)

def coreSpecMachine {σ : Type} (D : CoreDesc σ) : Machine (Pool (Nat × Nat)) where
  init := { insts := [(0, 0)], cur := 0 }
  step := fun p toks =>
    match poolStep p (0, 0) toks with
    | some r => r
    | none =>
      -- (base, rel): absolute block index = base + rel; `reinit` starts a new instance at rel = 0
      let st := p.get (0, 0)
      let blk := st.1 + st.2
      let bs := D.K.bs
      -- the core's block counter is a `cw`-bit integer and wraps (the core itself has no exhaustion check)
      let adv (k : Nat) : Pool (Nat × Nat) := p.set (st.1, if D.K.cw = 0 then st.2 + k else (st.2 + k) % 2 ^ D.K.cw)
      let ksN (n : Nat) : Bytes := (D.ksRange blk n).flatten
      match toks with
      | ["ksblock"] => (adv 1, "out " ++ toHex (D.ks blk))
      | ["ksblocks", n] =>
        match n.toNat? with
        | some k => (adv k, "out " ++ toHex (ksN k))
        | none => (p, bad)
      | ["applyblocks", x] =>
        match fromHex x with
        | some b =>
          if b.length % bs ≠ 0 then (p, bad)
          else (adv (b.length / bs), "out " ++ toHex (xorB b (ksN (b.length / bs))))
        | none => (p, bad)
      | ["applyblocksb", x, g] =>
        match fromHex x, fromHex g with
        | some b, some gb =>
          if b.length % bs ≠ 0 ∨ b.length ≠ gb.length then (p, bad)
          else (adv (b.length / bs), "out " ++ toHex (xorB b (ksN (b.length / bs))))
        | _, _ => (p, bad)
      | ["partial", x] =>
        -- definition: data ⊕ keystream from the current block on; whether the core-level call reports exhaustion is left
        -- open (the byte-level wrapper owns that contract): `out …|err` while the request fits, anything but a panic beyond
        match fromHex x with
        | some b =>
          let nb := (b.length + bs - 1) / bs
          let p' := p.set (blk, 0)
          let fits : Bool := match D.limit with | some lim => decide (st.2 + nb ≤ lim) | none => true
          if fits then (p', "out " ++ toHex (xorB b (ksN nb)) ++ "|err") else (p', "?")
        | none => (p, bad)
      | ["partialb", x, g] =>
        match fromHex x, fromHex g with
        | some b, some gb =>
          if b.length ≠ gb.length then (p, bad)
          else
            let nb := (b.length + bs - 1) / bs
            let p' := p.set (blk, 0)
            let fits : Bool := match D.limit with | some lim => decide (st.2 + nb ≤ lim) | none => true
            if fits then (p', "out " ++ toHex (xorB b (ksN nb)) ++ "|err") else (p', "?")
        | _, _ => (p, bad)
      | ["setpos", n] =>
        match n.toNat? with
        | some v => if D.K.cw = 0 ∨ v ≥ 2 ^ D.K.cw then (p, bad) else (p.set (st.1, v), "ok")
        | none => (p, bad)
      | ["getpos"] => if D.K.cw = 0 then (p, bad) else (p, "pos " ++ toString st.2)
      | ["rem"] =>
        match D.limit with
        | some lim => (p, "rem " ++ toString (lim - st.2) ++ "|none")
        | none => (p, "rem none")
      | ["ivstate"] => (p, "state " ++ toHex (D.specState blk))
      | ["reinit"] => (p.set (blk, 0), "ok")
      | ["debug"] => (p, "text " ++ D.dbg)
      | _ => (p, bad)

end Driver
