import BlockModes
/-
  Driver/Proto.lean — line protocol helpers (hex, tokens) shared by the model driver.
  One operation per line in, exactly one observation line out.
-/
namespace Driver

def hexDigit (n : Nat) : Char := if n < 10 then Char.ofNat (48 + n) else Char.ofNat (87 + n)

def toHex (b : Bytes) : String :=
  if b.isEmpty then "-" else String.ofList (b.flatMap fun x => [hexDigit (x.toNat / 16), hexDigit (x.toNat % 16)])

def hexVal (c : Char) : Option Nat :=
  if '0' ≤ c ∧ c ≤ '9' then some (c.toNat - 48)
  else if 'a' ≤ c ∧ c ≤ 'f' then some (c.toNat - 87) else none

def fromHexAux : List Char → Option Bytes
  | [] => some []
  | a :: b :: r => do
    let x ← hexVal a
    let y ← hexVal b
    let rest ← fromHexAux r
    pure (UInt8.ofNat (x * 16 + y) :: rest)
  | _ => none

def fromHex (s : String) : Option Bytes := if s == "-" then some [] else fromHexAux s.toList

/-- `k=v` lookup among tokens -/
def kv (toks : List String) (k : String) : Option String :=
  toks.findSome? fun t => match t.splitOn "=" with
    | [a, b] => if a == k then some b else none
    | _ => none

def tokens (line : String) : List String :=
  (line.trimAscii.toString.splitOn " ").filter (· ≠ "")

/-- a state machine for one case: `step` consumes the tokens of one op line. -/
structure Machine (σ : Type) where
  init : σ
  step : σ → List String → σ × String

structure AnyMachine where
  σ : Type
  m : Machine σ

def snMax (t : String) : Option Nat :=
  match t with
  | "i32" => some (2 ^ 31 - 1)
  | "u32" => some (2 ^ 32 - 1)
  | "u64" => some (2 ^ 64 - 1)
  | "u128" => some (2 ^ 128 - 1)
  | "usize" => some (2 ^ 64 - 1)
  | _ => none

def flavorOf (mode : String) : Option Spec.Flavor :=
  match mode with
  | "ctr32be" => some ⟨32, true⟩
  | "ctr32le" => some ⟨32, false⟩
  | "ctr64be" => some ⟨64, true⟩
  | "ctr64le" => some ⟨64, false⟩
  | "ctr128be" => some ⟨128, true⟩
  | "ctr128le" => some ⟨128, false⟩
  | _ => none

def bad : String := "bad-op"

/-- a block cipher given as a finite table of (direction, input, output) entries — the blocks a *real* cipher was
    asked to process while the implementation ran the case (harness `Logged<C>`, thorough tier).  A query the
    implementation never made is answered from the opposite direction's entries if possible (the cipher is a
    permutation) and otherwise with a marker value, so that the disagreement shows up in the output. -/
structure TabEntry where
  enc : Bool
  inp : Bytes
  out : Bytes

def parseTab (t : String) : Option (List TabEntry) :=
  if t == "-" then some [] else
  (t.splitOn ",").mapM fun e =>
    match e.splitOn ":" with
    | [d, i, o] => do
      let ib ← fromHex i
      let ob ← fromHex o
      if d == "E" then pure { enc := true, inp := ib, out := ob }
      else if d == "D" then pure { enc := false, inp := ib, out := ob } else none
    | _ => none

def tabLookup (tab : List TabEntry) (enc : Bool) (x : Bytes) : Bytes :=
  match tab.find? (fun e => e.enc == enc && e.inp == x) with
  | some e => e.out
  | none =>
    match tab.find? (fun e => e.enc != enc && e.out == x) with
    | some e => e.inp
    | none => x.map (· ^^^ 0x5a) ++ [0xee]          -- marker: wrong length on purpose

def tabCipher (bs : Nat) (tab : List TabEntry) : Cipher :=
  { bs := bs, enc := tabLookup tab true, dec := tabLookup tab false }

end Driver
