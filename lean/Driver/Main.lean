import Driver.Cts
/-
  Driver/Main.lean — `driver impl|spec < ops > observations`.
  Reads the operation file written by the Rust harness, replays every case on the Lean model
  (`impl` = mirror of the code, `spec` = textbook definition) and prints one observation line per
  input line, in the same canonical form as the harness.
-/
open Driver

structure CaseHdr where
  family : String
  mode : String
  bs : Nat
  w : Nat
  key : Bytes
  iv : Bytes

def parseHdr (toks : List String) : Option CaseHdr := do
  -- case <id> <family> <mode> bs=.. w=.. key=.. iv=..
  let family ← toks[2]?
  let mode ← toks[3]?
  let bs ← (← kv toks "bs").toNat?
  let w ← (← kv toks "w").toNat?
  let key ← fromHex (← kv toks "key")
  let iv ← fromHex (← kv toks "iv")
  pure { family, mode, bs, w, key, iv }

def buildMachine (layer : String) (toks : List String) : Option AnyMachine :=
  match parseHdr toks with
  | none => none
  | some h =>
    -- `tab=…` (thorough tier, real ciphers): the logged blocks are the cipher; the pseudo-width ≥ 101 only names it
    let C := match (kv toks "tab").bind parseTab with
      | some tab => tabCipher h.bs tab
      | none => Toy.cipher h.key h.bs
    let isSpec := layer == "spec"
    let bs := h.bs
    let w := if 101 ≤ h.w ∧ h.w ≤ 109 then 1 else h.w
    let mode := h.mode
    let iv := h.iv
    match h.family with
    | "block" =>
      let ivLen := if mode.startsWith "ige" then 2 * bs else bs
      match (if isSpec then specBlockMode C mode else implBlockMode C w mode) with
      | some ⟨_, M⟩ => some ⟨_, blockMachine M iv ivLen 16⟩
      | none => none
    | "buf" =>
      let enc := mode == "cfbbuf-enc"
      if isSpec then some ⟨_, bufSpecMachine C enc iv⟩ else some ⟨_, bufImplMachine C enc iv⟩
    | "stream" =>
      match coreDesc C mode iv with
      | some ⟨_, D⟩ => if isSpec then some ⟨_, streamSpecMachine D⟩ else some ⟨_, streamImplMachine D w⟩
      | none => none
    | "core" =>
      match coreDesc C mode iv with
      | some ⟨_, D⟩ => if isSpec then some ⟨_, coreSpecMachine D⟩ else some ⟨_, coreImplMachine D w⟩
      | none => none
    | "cts" =>
      let ivLen := if mode.startsWith "ecb" then 0 else bs
      match (if isSpec then none else ctsMemOps mode) with
      | some ops => some ⟨_, ctsMemMachine C w iv ops 16 ivLen⟩
      | none =>
        match (if isSpec then ctsSpec C mode iv else ctsImpl C w mode iv) with
        | some fs => some ⟨_, ctsMachine bs fs 16 ivLen⟩
        | none => none
    | "toy" => some ⟨_, toyMachine C⟩
    | _ => none

/-- operations that reach the same backend entry points by another public route have, by the batching theorems
    (C07: any mixture of single-block / parallel / tail entry points = one block at a time), the value of the
    plain many-block operation: caller-written closures for `*_with_backend` / `process_with_backend`, and the
    single-block `apply_keystream_block_inout`. -/
def normOp (toks : List String) : List String :=
  match toks with
  | ["backend", _, x] => ["blocks", x]
  | ["applyblock", x] => ["applyblocks", x]
  | ["applyblockb", x, g] => ["applyblocksb", x, g]
  | ["ksdirect", _, n] => ["ksblocks", n]
  -- the `*_inout` entry points of `BlockModeEncrypt/Decrypt` and `AsyncStreamCipher` are what the slice methods call
  -- (cipher crate, provided methods): same functions
  | ["blockio", x] => ["block", x]
  | ["blockiob", x, g] => ["blockb", x, g]
  | ["blocksio", x] => ["blocks", x]
  | ["blocksiob", x, g] => ["blocksb", x, g]
  | ["oneshotio", x] => ["oneshot", x]
  | ["oneshotiob", x, g] => ["oneshotb", x, g]
  -- `*_padded` (in place on a slice) and `*_padded_b2b` are `*_padded_inout`, like `*_padded_vec`
  | ["padencs", x] => ["padenc", x]
  | ["padencb", x] => ["padenc", x]
  | ["paddecs", x] => ["paddec", x]
  | ["paddecb", x] => ["paddec", x]
  | ["enccf", _, _, x] => ["enc", x]       -- an object overwritten by `clone_from` is a copy of the source
  | ["deccf", _, _, x] => ["dec", x]
  | ["encio", x] => ["enc", x]             -- `encrypt_inout` called directly = `encrypt`
  | ["decio", x] => ["dec", x]
  | ["enciob", x, g] => ["encb", x, g]     -- `InOutBuf::new(in, out)` + `encrypt_inout` = `encrypt_b2b`
  | ["deciob", x, g] => ["decb", x, g]
  | t => t

partial def runCase {σ : Type} (m : Machine σ) (h out : IO.FS.Stream) (s : σ) : IO Bool := do
  let line ← h.getLine
  if line.isEmpty then return false
  let toks := tokens line
  match toks with
  | ["end"] => out.putStrLn "end"; return true
  | ["dcalls"] =>
    -- number of block-cipher *decryption* calls: the data paths of CFB, CFB-8, OFB, CTR, BelT-CTR are
    -- defined from `Cipher.enc` alone, so the model's count is the constant 0
    out.putStrLn "dcalls 0"
    runCase m h out s
  | _ =>
    let r := m.step s (normOp toks)
    out.putStrLn r.2
    runCase m h out r.1

partial def skipCase (h out : IO.FS.Stream) : IO Bool := do
  let line ← h.getLine
  if line.isEmpty then return false
  match tokens line with
  | ["end"] => out.putStrLn "end"; return true
  | _ => out.putStrLn bad; skipCase h out

partial def mainLoop (layer : String) (h out : IO.FS.Stream) : IO Unit := do
  let line ← h.getLine
  if line.isEmpty then return ()
  let toks := tokens line
  match toks with
  | [] => mainLoop layer h out
  | "case" :: id :: _ =>
    match buildMachine layer toks with
    | some ⟨_, m⟩ =>
      out.putStrLn ("case " ++ id)
      if ← runCase m h out m.init then mainLoop layer h out
    | none =>
      out.putStrLn ("case " ++ id ++ " " ++ bad)
      if ← skipCase h out then mainLoop layer h out
  | _ => out.putStrLn bad; mainLoop layer h out

def main (args : List String) : IO Unit := do
  let layer := args.headD "impl"
  let stdin ← IO.getStdin
  let stdout ← IO.getStdout
  mainLoop layer stdin stdout
