import Driver.Stream
/-
  Driver/Cts.lean — the six ciphertext-stealing types (one-shot, consuming) and the toy cipher lines.
-/
namespace Driver
open Impl

def ctsImpl (C : Cipher) (w : Nat) (mode : String) (iv : Bytes) : Option ((Bytes → Bytes) × (Bytes → Bytes)) :=
  match mode with
  | "cbccs1" => some (Cts.cbcCs1Enc C w iv, Cts.cbcCs1Dec C w iv)
  | "cbccs2" => some (Cts.cbcCs2Enc C w iv, Cts.cbcCs2Dec C w iv)
  | "cbccs3" => some (Cts.cbcCs3Enc false C w iv, Cts.cbcCs3Dec false C w iv)
  | "cbccs3-legacy" => some (Cts.cbcCs3Enc true C w iv, Cts.cbcCs3Dec true C w iv)
  | "ecbcs1" => some (Cts.ecbCs1Enc C w, Cts.ecbCs1Dec C w)
  | "ecbcs2" => some (Cts.ecbCs2Enc C w, Cts.ecbCs2Dec C w)
  | "ecbcs3" => some (Cts.ecbCs3Enc false C w, Cts.ecbCs3Dec false C w)
  | "ecbcs3-legacy" => some (Cts.ecbCs3Enc true C w, Cts.ecbCs3Dec true C w)
  | _ => none

def ctsSpec (C : Cipher) (mode : String) (iv : Bytes) : Option ((Bytes → Bytes) × (Bytes → Bytes)) :=
  match mode with
  | "cbccs1" => some (Spec.cbcCsEnc .cs1 C iv, Spec.cbcCsDec .cs1 C iv)
  | "cbccs2" => some (Spec.cbcCsEnc .cs2 C iv, Spec.cbcCsDec .cs2 C iv)
  | "cbccs3" => some (Spec.cbcCsEnc .cs3 C iv, Spec.cbcCsDec .cs3 C iv)
  | "cbccs3-legacy" => some (Spec.cbcCsEnc .cs3 C iv, Spec.cbcCsDec .cs3 C iv)
  | "ecbcs1" => some (Spec.ecbCsEnc .cs1 C, Spec.ecbCsDec .cs1 C)
  | "ecbcs2" => some (Spec.ecbCsEnc .cs2 C, Spec.ecbCsDec .cs2 C)
  | "ecbcs3" => some (Spec.ecbCsEnc .cs3 C, Spec.ecbCsDec .cs3 C)
  | "ecbcs3-legacy" => some (Spec.ecbCsEnc .cs3 C, Spec.ecbCsDec .cs3 C)
  | _ => none

/-- the objects are consumed by every call, so the machine is stateless. -/
def ctsMachine (bs : Nat) (fs : (Bytes → Bytes) × (Bytes → Bytes)) (keyLen ivLen : Nat) : Machine Unit where
  init := ()
  step := fun _ toks =>
    let run (f : Bytes → Bytes) (b : Bytes) (onErr : Bytes) : String :=
      match Cts.gated bs f b with
      | some o => "out " ++ toHex o
      | none => "err " ++ toHex onErr
    match toks with
    | ["enc", x] => match fromHex x with
      | some b => ((), run fs.1 b b)
      | none => ((), bad)
    | ["dec", x] => match fromHex x with
      | some b => ((), run fs.2 b b)
      | none => ((), bad)
    | ["encb", x, g] => match fromHex x, fromHex g with
      | some b, some gb => ((), if b.length ≠ gb.length then "err " ++ toHex gb else run fs.1 b gb)
      | _, _ => ((), bad)
    | ["decb", x, g] => match fromHex x, fromHex g with
      | some b, some gb => ((), if b.length ≠ gb.length then "err " ++ toHex gb else run fs.2 b gb)
      | _, _ => ((), bad)
    | ["newslice", kl, il] =>
      match kl.toNat?, il.toNat? with
      | some k, some i => ((), if k = keyLen ∧ i = ivLen then "ok" else "err")
      | _, _ => ((), bad)
    | ["clone"] => ((), "ok")
    | ["use", _] => ((), "ok")
    | ["clonefrom", _] => ((), "ok")
    | _ => ((), bad)

/-- the implementation layer for the current code: the *checked memory-level* mirror (`Impl/MemCts.lean`) — in place
    on the buffer, or buffer-to-buffer into the output buffer's actual previous contents. -/
def ctsMemOps (mode : String) : Option (MemCts.Op × MemCts.Op) :=
  match mode with
  | "cbccs1" => some (.cbc1e, .cbc1d)
  | "cbccs2" => some (.cbc2e, .cbc2d)
  | "cbccs3" => some (.cbc3e, .cbc3d)
  | "ecbcs1" => some (.ecb1e, .ecb1d)
  | "ecbcs2" => some (.ecb2e, .ecb2d)
  | "ecbcs3" => some (.ecb3e, .ecb3d)
  | _ => none

def outcomeStr : MemCts.Outcome → String
  | .ok o => "out " ++ toHex o
  | .err o => "err " ++ toHex o
  | .panic => "panic"

def ctsMemMachine (C : Cipher) (w : Nat) (iv : Bytes) (ops : MemCts.Op × MemCts.Op) (keyLen ivLen : Nat) : Machine Unit where
  init := ()
  step := fun _ toks =>
    match toks with
    | ["enc", x] => match fromHex x with
      | some b => ((), outcomeStr (MemCts.inplaceCall C.bs (ops.1.mem C w iv) b))
      | none => ((), bad)
    | ["dec", x] => match fromHex x with
      | some b => ((), outcomeStr (MemCts.inplaceCall C.bs (ops.2.mem C w iv) b))
      | none => ((), bad)
    | ["encb", x, g] => match fromHex x, fromHex g with
      | some b, some gb => ((), outcomeStr (MemCts.b2bCall C.bs (ops.1.mem C w iv) b gb))
      | _, _ => ((), bad)
    | ["decb", x, g] => match fromHex x, fromHex g with
      | some b, some gb => ((), outcomeStr (MemCts.b2bCall C.bs (ops.2.mem C w iv) b gb))
      | _, _ => ((), bad)
    | ["newslice", kl, il] =>
      match kl.toNat?, il.toNat? with
      | some k, some i => ((), if k = keyLen ∧ i = ivLen then "ok" else "err")
      | _, _ => ((), bad)
    | ["clone"] => ((), "ok")
    | ["use", _] => ((), "ok")
    | ["clonefrom", _] => ((), "ok")
    | _ => ((), bad)

/-- raw block encryption / decryption with the case's cipher (the toy cipher, or the table of a logged real cipher) -/
def toyMachine (C : Cipher) : Machine Unit where
  init := ()
  step := fun _ toks =>
    match toks with
    | ["E", x] => match fromHex x with
      | some b => ((), "out " ++ toHex (C.enc b))
      | none => ((), bad)
    | ["D", x] => match fromHex x with
      | some b => ((), "out " ++ toHex (C.dec b))
      | none => ((), bad)
    | _ => ((), bad)

end Driver
