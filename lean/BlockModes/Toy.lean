import BlockModes.Basic
/-
  Toy.lean — the harness-owned block cipher `Toy<BS, W>` (harness/src/toy.rs), defined identically
  here, and the proof that it is a permutation for every key and every block size
  (`Toy.valid`).  This discharges non-vacuity of every theorem's `Cipher.Valid` hypothesis and
  puts the toy cipher itself under the correspondence check (`E x` / `D x` protocol lines).
-/
namespace Toy

def fwdSumAux : UInt8 → Bytes → Bytes
  | _, [] => []
  | acc, x :: xs => let y := x + acc; y :: fwdSumAux y xs
def fwdDiffAux : UInt8 → Bytes → Bytes
  | _, [] => []
  | prev, y :: ys => (y - prev) :: fwdDiffAux y ys

def bwdSum (l : Bytes) : Bytes := (fwdSumAux 0 l.reverse).reverse
def bwdDiff (l : Bytes) : Bytes := (fwdDiffAux 0 l.reverse).reverse

def addKey (key : Bytes) (r : Nat) (l : Bytes) : Bytes :=
  l.mapIdx fun i x => (x + key.getD ((i + r) % 16) 0 + UInt8.ofNat r) * 5 + 17
def subKey (key : Bytes) (r : Nat) (l : Bytes) : Bytes :=
  l.mapIdx fun i y => (y - 17) * 205 - UInt8.ofNat r - key.getD ((i + r) % 16) 0

def round (key : Bytes) (r : Nat) (l : Bytes) : Bytes := bwdSum (fwdSumAux 0 (addKey key r l))
def unround (key : Bytes) (r : Nat) (l : Bytes) : Bytes := subKey key r (fwdDiffAux 0 (bwdDiff l))
def enc (key l : Bytes) : Bytes := round key 2 (round key 1 (round key 0 l))
def dec (key l : Bytes) : Bytes := unround key 0 (unround key 1 (unround key 2 l))

def cipher (key : Bytes) (bs : Nat) : Cipher := { bs := bs, enc := enc key, dec := dec key }

/-! ### inverse lemmas -/

theorem affine_inv (x k r : UInt8) : ((x + k + r) * 5 + 17 - 17) * 205 - r - k = x := by
  have h : ∀ y : UInt8, (y * 5 + 17 - 17) * 205 = y := by
    intro y
    rw [UInt8.add_sub_cancel, UInt8.mul_assoc]
    have h2 : (5 : UInt8) * 205 = 1 := by decide
    rw [h2, UInt8.mul_one]
  rw [h, UInt8.add_sub_cancel, UInt8.add_sub_cancel]

theorem affine_inv' (y k r : UInt8) : ((y - 17) * 205 - r - k + k + r) * 5 + 17 = y := by
  have e1 : (y - 17) * 205 - r - k + k + r = (y - 17) * 205 := by
    rw [UInt8.sub_add_cancel, UInt8.sub_add_cancel]
  rw [e1, UInt8.mul_assoc]
  have h2 : (205 : UInt8) * 5 = 1 := by decide
  rw [h2, UInt8.mul_one, UInt8.sub_add_cancel]

theorem fwd_inv (a : UInt8) (l : Bytes) : fwdDiffAux a (fwdSumAux a l) = l := by
  induction l generalizing a with
  | nil => rfl
  | cons x xs ih => simp [fwdSumAux, fwdDiffAux, ih, UInt8.add_sub_cancel]

theorem fwd_inv' (a : UInt8) (l : Bytes) : fwdSumAux a (fwdDiffAux a l) = l := by
  induction l generalizing a with
  | nil => rfl
  | cons x xs ih => simp [fwdSumAux, fwdDiffAux, ih, UInt8.sub_add_cancel]

theorem fwdSum_length (a : UInt8) (l : Bytes) : (fwdSumAux a l).length = l.length := by
  induction l generalizing a with
  | nil => rfl
  | cons x xs ih => simp [fwdSumAux, ih]

theorem fwdDiff_length (a : UInt8) (l : Bytes) : (fwdDiffAux a l).length = l.length := by
  induction l generalizing a with
  | nil => rfl
  | cons x xs ih => simp [fwdDiffAux, ih]

theorem bwd_inv (l : Bytes) : bwdDiff (bwdSum l) = l := by simp [bwdSum, bwdDiff, fwd_inv]
theorem bwd_inv' (l : Bytes) : bwdSum (bwdDiff l) = l := by simp [bwdSum, bwdDiff, fwd_inv']

theorem key_inv (key : Bytes) (r : Nat) (l : Bytes) : subKey key r (addKey key r l) = l := by
  simp only [subKey, addKey, List.mapIdx_mapIdx]
  apply List.ext_getElem
  · simp
  · intro i h1 h2
    simp only [List.getElem_mapIdx, Function.comp]
    exact affine_inv l[i] (key.getD ((i + r) % 16) 0) (UInt8.ofNat r)

theorem key_inv' (key : Bytes) (r : Nat) (l : Bytes) : addKey key r (subKey key r l) = l := by
  simp only [subKey, addKey, List.mapIdx_mapIdx]
  apply List.ext_getElem
  · simp
  · intro i h1 h2
    simp only [List.getElem_mapIdx, Function.comp]
    exact affine_inv' l[i] (key.getD ((i + r) % 16) 0) (UInt8.ofNat r)

theorem unround_round (key : Bytes) (r : Nat) (l : Bytes) : unround key r (round key r l) = l := by
  simp [unround, round, bwd_inv, fwd_inv, key_inv]
theorem round_unround (key : Bytes) (r : Nat) (l : Bytes) : round key r (unround key r l) = l := by
  simp [unround, round, bwd_inv', fwd_inv', key_inv']

theorem round_length (key : Bytes) (r : Nat) (l : Bytes) : (round key r l).length = l.length := by
  simp [round, bwdSum, addKey, fwdSum_length]
theorem unround_length (key : Bytes) (r : Nat) (l : Bytes) : (unround key r l).length = l.length := by
  simp [unround, bwdDiff, subKey, fwdDiff_length]

theorem dec_enc (key l : Bytes) : dec key (enc key l) = l := by
  simp [dec, enc, unround_round]
theorem enc_dec (key l : Bytes) : enc key (dec key l) = l := by
  simp [dec, enc, round_unround]
theorem enc_length (key l : Bytes) : (enc key l).length = l.length := by
  simp [enc, round_length]
theorem dec_length (key l : Bytes) : (dec key l).length = l.length := by
  simp [dec, unround_length]

@[simp] theorem cipher_enc (key : Bytes) (bs : Nat) : (cipher key bs).enc = enc key := rfl
@[simp] theorem cipher_dec (key : Bytes) (bs : Nat) : (cipher key bs).dec = dec key := rfl
@[simp] theorem cipher_bs (key : Bytes) (bs : Nat) : (cipher key bs).bs = bs := rfl

/-- The toy cipher satisfies the cipher assumptions for every key and every block size ≥ 1. -/
theorem valid (key : Bytes) (bs : Nat) (h : 0 < bs) : (cipher key bs).Valid := by
  constructor
  · exact h
  · intro x hx; rw [cipher_enc, cipher_bs, enc_length]; rwa [cipher_bs] at hx
  · intro x hx; rw [cipher_dec, cipher_bs, dec_length]; rwa [cipher_bs] at hx
  · intro x _; rw [cipher_enc, cipher_dec]; exact dec_enc key x
  · intro x _; rw [cipher_enc, cipher_dec]; exact enc_dec key x

end Toy
