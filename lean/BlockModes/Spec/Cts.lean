import BlockModes.Spec.Block
/-
  Spec/Cts.lean — ciphertext stealing, written from NIST SP 800-38A Addendum (C05):
  CBC-CS1/2/3 = CBC of the zero-padded message with the penultimate ciphertext block truncated to
  `d` bytes, three orderings; a one-block message is plain CBC.  ECB variants: the final block is
  completed by the stolen tail of the penultimate ciphertext block; same three orderings.
-/
namespace Spec

inductive CsVariant | cs1 | cs2 | cs3
deriving DecidableEq, Repr

/-- number of blocks `n = ⌈L / bs⌉` and byte length `d` of the final block (`1 ≤ d ≤ bs`). -/
def ctsN (bs L : Nat) : Nat := (L + bs - 1) / bs
def ctsD (bs L : Nat) : Nat := L - (ctsN bs L - 1) * bs

/-- the three orderings of `(C*_{n-1}, C_n)` after the unchanged head `C_1 … C_{n-2}`. -/
def arrange (v : CsVariant) (bs d : Nat) (head cpen cn : Bytes) : Bytes :=
  match v with
  | .cs1 => head ++ cpen ++ cn
  | .cs3 => head ++ cn ++ cpen
  | .cs2 => if d = bs then head ++ cpen ++ cn else head ++ cn ++ cpen

/-- inverse of `arrange` on the last `bs + d` bytes: returns `(C*_{n-1}, C_n)`. -/
def unarrange (v : CsVariant) (bs d : Nat) (rest : Bytes) : Bytes × Bytes :=
  match v with
  | .cs1 => (rest.take d, rest.drop d)
  | .cs3 => (rest.drop bs, rest.take bs)
  | .cs2 => if d = bs then (rest.take d, rest.drop d) else (rest.drop bs, rest.take bs)

def cbcCsEnc (v : CsVariant) (C : Cipher) (iv m : Bytes) : Bytes :=
  let n := ctsN C.bs m.length
  let d := ctsD C.bs m.length
  let padded := m ++ zeros (C.bs - d)
  let cs := (cbcEnc C iv (chunks C.bs padded)).1
  if n ≤ 1 then cs.flatten
  else arrange v C.bs d (cs.take (n - 2)).flatten ((cs.getD (n - 2) []).take d) (cs.getD (n - 1) [])

def cbcCsDec (v : CsVariant) (C : Cipher) (iv c : Bytes) : Bytes :=
  let n := ctsN C.bs c.length
  let d := ctsD C.bs c.length
  if n ≤ 1 then (cbcDec C iv [c]).1.flatten
  else
    let head := c.take ((n - 2) * C.bs)
    let r := unarrange v C.bs d (c.drop ((n - 2) * C.bs))
    let x := C.dec r.2
    let cpenFull := r.1 ++ x.drop d
    let pn := xorB (x.take d) r.1
    (cbcDec C iv (chunks C.bs head ++ [cpenFull])).1.flatten ++ pn

def ecbCsEnc (v : CsVariant) (C : Cipher) (m : Bytes) : Bytes :=
  let n := ctsN C.bs m.length
  let d := ctsD C.bs m.length
  if n ≤ 1 then C.enc m
  else
    let cs := (chunks C.bs (m.take ((n - 1) * C.bs))).map C.enc
    let pn := m.drop ((n - 1) * C.bs)
    let cpenFull := cs.getD (n - 2) []
    let cn := C.enc (pn ++ cpenFull.drop d)
    arrange v C.bs d (cs.take (n - 2)).flatten (cpenFull.take d) cn

def ecbCsDec (v : CsVariant) (C : Cipher) (c : Bytes) : Bytes :=
  let n := ctsN C.bs c.length
  let d := ctsD C.bs c.length
  if n ≤ 1 then C.dec c
  else
    let head := c.take ((n - 2) * C.bs)
    let r := unarrange v C.bs d (c.drop ((n - 2) * C.bs))
    let x := C.dec r.2
    let cpenFull := r.1 ++ x.drop d
    ((chunks C.bs head).map C.dec).flatten ++ C.dec cpenFull ++ x.take d

end Spec
