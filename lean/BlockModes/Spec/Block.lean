import BlockModes.Basic
/-
  Spec/Block.lean — the textbook definition of the block-chaining modes (C02, C03), written from
  the recurrences in the property statements, as structural recursion over the block list.
  Every function returns the output blocks and the final public chaining value.
-/
namespace Spec

/-- CBC: `C_i = E(P_i ⊕ C_{i-1})`, `C_0 = IV`. -/
def cbcEnc (C : Cipher) : Bytes → List Bytes → List Bytes × Bytes
  | iv, [] => ([], iv)
  | iv, p :: ps =>
    let c := C.enc (xorB p iv)
    let r := cbcEnc C c ps
    (c :: r.1, r.2)

/-- CBC decryption: `P_i = D(C_i) ⊕ C_{i-1}` (defined on arbitrary ciphertext). -/
def cbcDec (C : Cipher) : Bytes → List Bytes → List Bytes × Bytes
  | iv, [] => ([], iv)
  | iv, c :: cs =>
    let p := xorB (C.dec c) iv
    let r := cbcDec C c cs
    (p :: r.1, r.2)

/-- PCBC: `C_i = E(P_i ⊕ S_{i-1})`, `S_0 = IV`, `S_i = P_i ⊕ C_i`. -/
def pcbcEnc (C : Cipher) : Bytes → List Bytes → List Bytes × Bytes
  | s, [] => ([], s)
  | s, p :: ps =>
    let c := C.enc (xorB p s)
    let r := pcbcEnc C (xorB p c) ps
    (c :: r.1, r.2)

def pcbcDec (C : Cipher) : Bytes → List Bytes → List Bytes × Bytes
  | s, [] => ([], s)
  | s, c :: cs =>
    let p := xorB (C.dec c) s
    let r := pcbcDec C (xorB p c) cs
    (p :: r.1, r.2)

/-- IGE: `C_i = E(P_i ⊕ C_{i-1}) ⊕ P_{i-1}`; chaining state is the pair `(C_{i-1}, P_{i-1})`,
    the double-length IV is `C_0 ‖ P_0`. -/
def igeEnc (C : Cipher) : Bytes × Bytes → List Bytes → List Bytes × (Bytes × Bytes)
  | s, [] => ([], s)
  | (cp, pp), p :: ps =>
    let c := xorB (C.enc (xorB p cp)) pp
    let r := igeEnc C (c, p) ps
    (c :: r.1, r.2)

/-- IGE decryption: `P_i = D(C_i ⊕ P_{i-1}) ⊕ C_{i-1}`. -/
def igeDec (C : Cipher) : Bytes × Bytes → List Bytes → List Bytes × (Bytes × Bytes)
  | s, [] => ([], s)
  | (cp, pp), c :: cs =>
    let p := xorB (C.dec (xorB c pp)) cp
    let r := igeDec C (c, p) cs
    (p :: r.1, r.2)

/-- split the double-length IGE IV into `(C_0, P_0)`. -/
def igeIv (C : Cipher) (iv : Bytes) : Bytes × Bytes := (iv.take C.bs, iv.drop C.bs)
def igeIvJoin (s : Bytes × Bytes) : Bytes := s.1 ++ s.2

/-- full-block CFB: `C_i = P_i ⊕ E(C_{i-1})`, `C_0 = IV`; chaining value = last ciphertext block. -/
def cfbEnc (C : Cipher) : Bytes → List Bytes → List Bytes × Bytes
  | ch, [] => ([], ch)
  | ch, p :: ps =>
    let c := xorB p (C.enc ch)
    let r := cfbEnc C c ps
    (c :: r.1, r.2)

/-- CFB decryption: the same function with the ciphertext fed back; uses only `enc`. -/
def cfbDec (C : Cipher) : Bytes → List Bytes → List Bytes × Bytes
  | ch, [] => ([], ch)
  | ch, c :: cs =>
    let p := xorB c (C.enc ch)
    let r := cfbDec C c cs
    (p :: r.1, r.2)

/-- one-shot CFB on a byte string: full blocks, then the trailing partial block XORed with the
    leading bytes of the next keystream block. -/
def cfbEncBytes (C : Cipher) (iv m : Bytes) : Bytes :=
  let r := cfbEnc C iv (chunks C.bs m)
  r.1.flatten ++ xorB (chunksTail C.bs m) (C.enc r.2)
def cfbDecBytes (C : Cipher) (iv m : Bytes) : Bytes :=
  let r := cfbDec C iv (chunks C.bs m)
  r.1.flatten ++ xorB (chunksTail C.bs m) (C.enc r.2)

/-- CFB-8: `c_j = p_j ⊕ first_byte(E(S_j))`, `S_{j+1} = S_j[1..] ‖ c_j`. -/
def cfb8Enc (C : Cipher) : Bytes → Bytes → Bytes × Bytes
  | s, [] => ([], s)
  | s, p :: ps =>
    let c := p ^^^ (C.enc s).headD 0
    let r := cfb8Enc C (s.drop 1 ++ [c]) ps
    (c :: r.1, r.2)

def cfb8Dec (C : Cipher) : Bytes → Bytes → Bytes × Bytes
  | s, [] => ([], s)
  | s, c :: cs =>
    let p := c ^^^ (C.enc s).headD 0
    let r := cfb8Dec C (s.drop 1 ++ [c]) cs
    (p :: r.1, r.2)

/-- OFB: `O_i = E(O_{i-1})`, `O_0 = IV`; output = input ⊕ O_i; chaining value = last keystream block. -/
def ofb (C : Cipher) : Bytes → List Bytes → List Bytes × Bytes
  | o, [] => ([], o)
  | o, x :: xs =>
    let o' := C.enc o
    let r := ofb C o' xs
    (xorB x o' :: r.1, r.2)

/-- `i`-th OFB keystream block, `i ≥ 0` (block 0 is `E(IV)`). -/
def ofbKs (C : Cipher) (iv : Bytes) : Nat → Bytes
  | 0 => C.enc iv
  | i + 1 => C.enc (ofbKs C iv i)

/-- PKCS#7. -/
def pkcs7Pad (bs : Nat) (m : Bytes) : Bytes :=
  let n := bs - m.length % bs
  m ++ List.replicate n (UInt8.ofNat n)

def pkcs7Unpad (bs : Nat) (m : Bytes) : Option Bytes :=
  if m.length = 0 ∨ m.length % bs ≠ 0 then none
  else
    let n := (m.getLastD 0).toNat
    if n = 0 ∨ n > bs then none
    else if (m.drop (m.length - n)).all (· == UInt8.ofNat n) then some (m.take (m.length - n))
    else none

end Spec
