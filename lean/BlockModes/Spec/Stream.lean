import BlockModes.Basic
/-
  Spec/Stream.lean — CTR counter-block layout (C04), BelT-CTR (C06), keystreams as byte
  functions, and the position/exhaustion contract of the byte-level stream ciphers (C08, C10, C11).
-/
namespace Spec

/-- a CTR flavour: counter width in bits and endianness. -/
structure Flavor where
  w  : Nat
  be : Bool
deriving DecidableEq, Repr

/-- counter field size in bytes. -/
def Flavor.cs (f : Flavor) : Nat := f.w / 8

/-- the counter field of an IV: last `w/8` bytes big-endian (BE) / first `w/8` bytes little-endian (LE). -/
def ctrField (f : Flavor) (iv : Bytes) : Nat :=
  if f.be then fromBE (iv.drop (iv.length - f.cs)) else fromLE (iv.take f.cs)

/-- counter block `i`: the IV with its counter field replaced by `(field + i) mod 2^w`; every other
    byte is passed through. -/
def ctrBlock (f : Flavor) (iv : Bytes) (i : Nat) : Bytes :=
  let v := (ctrField f iv + i) % 2 ^ f.w
  if f.be then iv.take (iv.length - f.cs) ++ toBE f.cs v else toLE f.cs v ++ iv.drop f.cs

/-- CTR keystream block `i`. -/
def ctrKs (C : Cipher) (f : Flavor) (iv : Bytes) (i : Nat) : Bytes := C.enc (ctrBlock f iv i)

/-- BelT-CTR: `s_0 = E(IV)` little-endian; keystream block `i` (0-based) is `E(s_0 + i + 1 mod 2^128)`. -/
def beltS0 (C : Cipher) (iv : Bytes) : Nat := fromLE (C.enc iv)
def beltKs (C : Cipher) (iv : Bytes) (i : Nat) : Bytes :=
  C.enc (toLE 16 ((beltS0 C iv + i + 1) % 2 ^ 128))

/-- a block keystream seen as a byte function. -/
def ksByte (bs : Nat) (ks : Nat → Bytes) (p : Nat) : UInt8 := (ks (p / bs)).getD (p % bs) 0

/-- keystream bytes `q, q+1, …, q+n-1`. -/
def ksBytes (kb : Nat → UInt8) (q n : Nat) : Bytes := (List.range n).map fun i => kb (q + i)

/-- number of keystream blocks one (key, IV) provides: `2^w - 1`. -/
def ksLimitBlocks (w : Nat) : Nat := 2 ^ w - 1

/-- the byte-stream contract: a request of `n` bytes at position `q` succeeds iff it ends at or
    before the limit; on success the output is data ⊕ keystream[q, q+n). -/
def streamApply (bs : Nat) (kb : Nat → UInt8) (limit : Option Nat) (q : Nat) (data : Bytes) :
    Option (Nat × Bytes) :=
  match limit with
  | some lim => if q + data.length ≤ lim * bs then some (q + data.length, xorB data (ksBytes kb q data.length)) else none
  | none => some (q + data.length, xorB data (ksBytes kb q data.length))

end Spec
