import BlockModes.Basic
/-
  Spec/CfbBytes.lean — full-block CFB as a byte-at-a-time reference machine: one input byte in, one
  output byte out, the block boundary crossed inside the step.  `ch` is the public chaining value
  (previous ciphertext block, initially the IV), `cur` the ciphertext bytes of the current block so far.
  On this machine "any cutting of the stream gives the same bytes" is `RS.run_append`.
-/
namespace Spec

structure RS where
  ch  : Bytes
  cur : Bytes
deriving DecidableEq, Repr

/-- `dec = false`: encrypt (the ciphertext byte is the output); `dec = true`: decrypt (it is the input). -/
def RS.step (dec : Bool) (C : Cipher) (s : RS) (x : UInt8) : UInt8 × RS :=
  let o := x ^^^ (C.enc s.ch).getD s.cur.length 0
  let fed := if dec then x else o
  let cur' := s.cur ++ [fed]
  if cur'.length = C.bs then (o, { ch := cur', cur := [] }) else (o, { s with cur := cur' })

def RS.run (dec : Bool) (C : Cipher) : RS → Bytes → Bytes × RS
  | s, [] => ([], s)
  | s, x :: xs =>
    let r := RS.step dec C s x
    let r2 := RS.run dec C r.2 xs
    (r.1 :: r2.1, r2.2)

def RS.init (iv : Bytes) : RS := { ch := iv, cur := [] }

end Spec
