import BlockModes.Basic
/-
  Glue/IO.lean — the in/out memory model (`inout::InOut` / `InOutBuf`): an input view and an output
  view that are *either the same memory or disjoint*.  `alias = true` is the in-place form (reads see
  earlier writes), `alias = false` the buffer-to-buffer form (the output starts with arbitrary contents).
-/

/-- one block: `InOut<'_, '_, Block>` -/
structure IOB where
  inp   : Bytes
  out   : Bytes
  alias : Bool
deriving DecidableEq, Repr

namespace IOB
/-- `get_in()` / `clone_in()` -/
def getIn (io : IOB) : Bytes := if io.alias then io.out else io.inp
/-- `*get_out() = v` -/
def setOut (io : IOB) (v : Bytes) : IOB := { io with out := v }
/-- `xor_in2out(x)`: out = in ^ x -/
def xorIn2Out (io : IOB) (x : Bytes) : IOB := io.setOut (xorB io.getIn x)
/-- in-place call on `b` -/
def inplace (b : Bytes) : IOB := { inp := [], out := b, alias := true }
/-- buffer-to-buffer call: input `b`, output buffer pre-filled with `g` -/
def b2b (b g : Bytes) : IOB := { inp := b, out := g, alias := false }

@[simp] theorem getIn_inplace (b : Bytes) : (inplace b).getIn = b := rfl
@[simp] theorem getIn_b2b (b g : Bytes) : (b2b b g).getIn = b := rfl
@[simp] theorem setOut_out (io : IOB) (v : Bytes) : (io.setOut v).out = v := rfl
end IOB

/-- a flat byte buffer: `InOutBuf<'_, '_, u8>` -/
structure IOBuf where
  inp   : Bytes
  out   : Bytes
  alias : Bool
deriving DecidableEq, Repr

namespace IOBuf
def getIn (io : IOBuf) (off len : Nat) : Bytes := rng (if io.alias then io.out else io.inp) off len
def getOut (io : IOBuf) (off len : Nat) : Bytes := rng io.out off len
def setOut (io : IOBuf) (off : Nat) (v : Bytes) : IOBuf := { io with out := setRng io.out off v }
def len (io : IOBuf) : Nat := io.out.length
def inplace (b : Bytes) : IOBuf := { inp := [], out := b, alias := true }
def b2b (b g : Bytes) : IOBuf := { inp := b, out := g, alias := false }
end IOBuf
