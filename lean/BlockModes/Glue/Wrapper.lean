import BlockModes.Basic
/-
  Glue/Wrapper.lean — mirror of `cipher::stream` (cipher 0.5.0-pre.8): the `StreamCipherCore` default
  methods (`core_api.rs`: WriteBlocksCtx, ApplyBlocksCtx) and `StreamCipherCoreWrapper`
  (`wrapper.rs`: one-block keystream buffer whose first byte holds the position, `check_remaining`,
  `try_apply_keystream_inout`, `try_seek`, `try_current_pos`) and `SeekNum` (`stream.rs`).
  This is dependency code: modelled by hand, validated by the correspondence check, not verified.
-/
namespace Glue

/-- what a `StreamCipherCore (+ StreamCipherSeekCore)` in /repo provides. -/
structure Core (σ : Type) where
  bs        : Nat
  /-- the backend's `ParBlocksSize` given the cipher's width -/
  parW      : Nat → Nat
  /-- counter type width in bits (`StreamCipherSeekCore::Counter`), 0 if not seekable -/
  cw        : Nat
  /-- `remaining_blocks()` -/
  remaining : σ → Option Nat
  /-- `gen_ks_block` -/
  genBlock  : σ → Bytes × σ
  /-- `gen_par_ks_blocks` for a chunk of `n = ParBlocksSize` blocks -/
  genPar    : Nat → σ → List Bytes × σ
  getPos    : σ → Nat
  setPos    : σ → Nat → σ

variable {σ : Type}

/-- `for block in blocks { gen_ks_block(block) }` -/
def genSeq (K : Core σ) : Nat → σ → List Bytes × σ
  | 0, s => ([], s)
  | n + 1, s =>
    let r := K.genBlock s
    let r2 := genSeq K n r.2
    (r.1 :: r2.1, r2.2)

/-- chunks of `pw` through `gen_par_ks_blocks`, the tail (`< pw`) through `gen_tail_blocks`. -/
def genChunks (K : Core σ) (pw : Nat) : Nat → Nat → σ → List Bytes × σ
  | 0, n, s => genSeq K n s
  | fuel + 1, n, s =>
    if n < pw then genSeq K n s
    else
      let r := K.genPar pw s
      let r2 := genChunks K pw fuel (n - pw) r.2
      (r.1 ++ r2.1, r2.2)

/-- keystream blocks produced by `write_keystream_blocks` / `apply_keystream_blocks*` for `n` blocks. -/
def genBlocks (K : Core σ) (w : Nat) (n : Nat) (s : σ) : List Bytes × σ :=
  let pw := K.parW w
  if pw > 1 then genChunks K pw n n s else genSeq K n s

/-- `apply_keystream_blocks_inout`: out[i] = in[i] ^ ks[i] -/
def applyBlocks (K : Core σ) (w : Nat) (s : σ) (blocks : List Bytes) : List Bytes × σ :=
  let r := genBlocks K w blocks.length s
  (List.zipWith xorB blocks r.1, r.2)

/-- the check at the top of `StreamCipherCore::try_apply_keystream_partial`: the number of blocks compared with
    `remaining_blocks()` is computed with `%` (sic, cipher 0.5.0-pre.8 `core_api.rs`). `true` = proceed. -/
def partialCheck (K : Core σ) (s : σ) (n : Nat) : Bool :=
  match K.remaining s with
  | none => true
  | some rem =>
    let blocks := if n % K.bs = 0 then n % K.bs else n % K.bs + 1
    !(blocks > rem)

/-- the body after the check: whole blocks through `apply_keystream_blocks_inout` when the buffer is longer than one
    block, the rest (a buffer of exactly one block takes this path too) through a zero-padded block copy. -/
def applyPartialUnchecked (K : Core σ) (w : Nat) (s : σ) (data : Bytes) : Bytes :=
  let bs := K.bs
  let blocks := if data.length > bs then chunks bs data else []
  let tail := if data.length > bs then chunksTail bs data else data
  let r := applyBlocks K w s blocks
  if tail.length = 0 then r.1.flatten
  else
    let padded := tail ++ zeros (bs - tail.length)
    let r2 := applyBlocks K w r.2 [padded]
    r.1.flatten ++ r2.1.flatten.take tail.length

/-- `StreamCipherCore::try_apply_keystream_partial` (provided method, consumes the core; `none` = Err, nothing written). -/
def applyPartial (K : Core σ) (w : Nat) (s : σ) (data : Bytes) : Option Bytes :=
  if partialCheck K s data.length then some (applyPartialUnchecked K w s data) else none

/-! ### StreamCipherCoreWrapper -/

structure Wr (σ : Type) where
  core   : σ
  buffer : Bytes

/-- `from_core` / `KeyIvInit::new`: buffer = default; buffer[0] = bs -/
def Wr.fromCore (K : Core σ) (core : σ) : Wr σ :=
  { core := core, buffer := (zeros K.bs).set 0 (UInt8.ofNat K.bs) }

/-- `get_pos`: buffer[0] -/
def Wr.pos (s : Wr σ) : Nat := (s.buffer.headD 0).toNat
/-- `set_pos_unchecked` -/
def Wr.setPos (s : Wr σ) (p : Nat) : Wr σ := { s with buffer := s.buffer.set 0 (UInt8.ofNat p) }

/-- `check_remaining(data_len)`: true = Ok -/
def Wr.checkRemaining (K : Core σ) (s : Wr σ) (dataLen : Nat) : Bool :=
  match K.remaining s.core with
  | none => true
  | some remBlocks =>
    let bufRem := K.bs - s.pos
    if dataLen ≤ bufRem then true                 -- checked_sub: None or Some(0)
    else
      let res := dataLen - bufRem
      let blocks := (res + K.bs - 1) / K.bs       -- div_ceil
      !(blocks > remBlocks)

/-- the body of `try_apply_keystream_inout` after `check_remaining` has passed.
    (`if rem != 0 { … split_at(rem) … }`: with `rem = 0` the split is `([], data)`, so the split is
    written unconditionally.) -/
def Wr.applyUnchecked (K : Core σ) (w : Nat) (s : Wr σ) (data : Bytes) : Bytes × Wr σ :=
  let bs := K.bs
  let pos := s.pos
  let rem := bs - pos
  let dataLen := data.length
  if rem ≠ 0 ∧ dataLen ≤ rem then
    (xorB data (rng s.buffer pos dataLen), s.setPos (pos + dataLen))
  else
    let left := data.take rem
    let data1 := data.drop rem
    let outL := xorB left (s.buffer.drop pos)
    let blocks := chunks bs data1
    let tail := chunksTail bs data1
    let r := applyBlocks K w s.core blocks
    if tail.length = 0 then
      (outL ++ r.1.flatten, ({ s with core := r.2 } : Wr σ).setPos bs)
    else
      let g := K.genBlock r.2                              -- write_keystream_block(&mut self.buffer)
      let outT := xorB tail (g.1.take tail.length)
      (outL ++ r.1.flatten ++ outT, ({ core := g.2, buffer := g.1 } : Wr σ).setPos tail.length)

/-- `try_apply_keystream_inout`: `none` = Err (nothing modified). -/
def Wr.apply (K : Core σ) (w : Nat) (s : Wr σ) (data : Bytes) : Option (Bytes × Wr σ) :=
  if s.checkRemaining K data.length then some (s.applyUnchecked K w data) else none

/-- `try_seek::<SN>(p)`; `p` is a non-negative value of the seek-number type; `false` = Err. -/
def Wr.seek (K : Core σ) (s : Wr σ) (p : Nat) : Bool × Wr σ :=
  let bytePos := p % K.bs
  let blockPos := p / K.bs
  if blockPos ≥ 2 ^ K.cw then (false, s)                     -- T::try_from(self / bs) fails
  else
    let core := K.setPos s.core blockPos
    if bytePos ≠ 0 then
      let g := K.genBlock core
      (true, ({ core := g.2, buffer := g.1 } : Wr σ).setPos bytePos)
    else
      (true, ({ s with core := core } : Wr σ).setPos K.bs)

/-- `try_current_pos::<SN>()` where `snMax` is `SN::MAX`; `none` = OverflowError. -/
def Wr.currentPos (K : Core σ) (s : Wr σ) (snMax : Nat) : Option Nat :=
  let pos := s.pos
  let rem := K.bs - pos
  let block := K.getPos s.core
  if block > snMax then none                                  -- block.try_into()
  else if block * K.bs > snMax then none                      -- checked_mul
  else if block * K.bs < rem then none                        -- checked_sub
  else some (block * K.bs - rem)

/-- what the wrapper's `Debug` prints besides the core: `&self.buffer[pos..]` -/
def Wr.debugBufferData (s : Wr σ) : Bytes := s.buffer.drop s.pos

end Glue
