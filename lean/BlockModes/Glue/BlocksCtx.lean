import BlockModes.Basic
/-
  Glue/BlocksCtx.lean — mirror of `cipher::block::ctx::BlocksCtx::call` (cipher 0.5.0-pre.8):
  if the backend's `ParBlocksSize > 1` the block slice is cut into chunks of that size, each chunk
  goes through `*_par_blocks`, and the remainder (`< w` blocks) through `*_tail_blocks`, whose default
  body calls `*_block` for each; otherwise every block goes through `*_block`.
  A backend step is `σ → Bytes → Bytes × σ` (output block, new state).
-/
namespace Glue

variable {σ : Type}

/-- `for block in blocks { backend.encrypt_block(block) }` -/
def foldBlocks (step : σ → Bytes → Bytes × σ) : σ → List Bytes → List Bytes × σ
  | s, [] => ([], s)
  | s, b :: bs =>
    let r := step s b
    let r2 := foldBlocks step r.2 bs
    (r.1 :: r2.1, r2.2)

/-- chunks of `w` through `par`, then the tail through `step`. The fuel is the list length. -/
def parLoop (w : Nat) (step : σ → Bytes → Bytes × σ) (par : σ → List Bytes → List Bytes × σ) :
    Nat → σ → List Bytes → List Bytes × σ
  | 0, s, l => foldBlocks step s l
  | fuel + 1, s, l =>
    if l.length < w then foldBlocks step s l
    else
      let r := par s (l.take w)
      let r2 := parLoop w step par fuel r.2 (l.drop w)
      (r.1 ++ r2.1, r2.2)

def blocksCtx (w : Nat) (step : σ → Bytes → Bytes × σ) (par : σ → List Bytes → List Bytes × σ)
    (s : σ) (blocks : List Bytes) : List Bytes × σ :=
  if w > 1 then parLoop w step par blocks.length s blocks else foldBlocks step s blocks

/-- the default `*_par_blocks` body: `for i in 0..W { self.*_block(blocks.get(i)) }` -/
def defaultPar (step : σ → Bytes → Bytes × σ) (s : σ) (chunk : List Bytes) : List Bytes × σ :=
  foldBlocks step s chunk

end Glue
