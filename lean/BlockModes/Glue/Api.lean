import BlockModes.Basic
/-
  Glue/Api.lean — the fallible entry points: what is checked before any byte is touched.
  `Res.err buf` carries the caller's output buffer *as it is after the call* (so "unchanged" is a
  statement about it).
-/
namespace Api

inductive Res
  | ok (out : Bytes)
  | err (buf : Bytes)
deriving DecidableEq, Repr

/-- `InOutBuf::new(in, out)` → `NotEqualError` when the lengths differ; then the operation. Used by
    `*_blocks_b2b`, `AsyncStreamCipher::*_b2b`, `StreamCipher::apply_keystream_b2b`, `cts::*_b2b`. -/
def b2b (inp out : Bytes) (f : Bytes → Option Bytes) : Res :=
  if inp.length ≠ out.length then .err out
  else match f inp with
    | some o => .ok o
    | none => .err out

/-- in-place fallible call -/
def inplace (buf : Bytes) (f : Bytes → Option Bytes) : Res :=
  match f buf with
  | some o => .ok o
  | none => .err buf

/-- `KeyIvInit::new_from_slices` / `KeyInit::new_from_slice`: `InvalidLength` unless both lengths are exact. -/
def sliceInit (keyLen ivLen k i : Nat) : Bool := k == keyLen && i == ivLen

end Api
