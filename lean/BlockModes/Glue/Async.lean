import BlockModes.Spec.Block
/-
  Glue/Async.lean — mirror of `cipher::AsyncStreamCipher::{encrypt,decrypt}_inout` (one-shot, consumes
  the object) and of `Block{Mode}{En,De}crypt::{encrypt,decrypt}_padded*` with PKCS#7.
  `mbs` is the *mode's* block size (the cipher's for CFB, 1 for CFB-8).
-/
namespace Glue

variable {σ : Type}

/-- `let (blocks, tail) = data.into_chunks(); self.X_blocks_inout(blocks);
     if n != 0 { block = 0; block[..n] = tail; self.X_block(&mut block); tail.out = block[..n] }` -/
def asyncInOut (mbs : Nat) (blocksFn : σ → List Bytes → List Bytes × σ) (blockFn : σ → Bytes → Bytes × σ)
    (s : σ) (data : Bytes) : Bytes :=
  let blocks := chunks mbs data
  let tail := chunksTail mbs data
  let r := blocksFn s blocks
  let n := tail.length
  if n ≠ 0 then
    let block := tail ++ zeros (mbs - n)
    let r2 := blockFn r.2 block
    r.1.flatten ++ r2.1.take n
  else r.1.flatten

/-- `encrypt_padded_*::<Pkcs7>`: full blocks of the message through one `encrypt_blocks_inout` call, then the
    padded tail block through one `encrypt_block_inout` call. -/
def paddedEnc (mbs : Nat) (blocksFn : σ → List Bytes → List Bytes × σ) (blockFn : σ → Bytes → Bytes × σ)
    (s : σ) (msg : Bytes) : Bytes :=
  let blocks := chunks mbs msg
  let tail := chunksTail mbs msg
  let r := blocksFn s blocks
  let padN := mbs - tail.length
  let tailBlock := tail ++ List.replicate padN (UInt8.ofNat padN)
  let r2 := blockFn r.2 tailBlock
  r.1.flatten ++ r2.1

/-- `decrypt_padded_*::<Pkcs7>`: error if the length is not a multiple of the block size; otherwise one
    `decrypt_blocks_inout` call and `Pkcs7::unpad_blocks`. -/
def paddedDec (mbs : Nat) (blocksFn : σ → List Bytes → List Bytes × σ) (s : σ) (ct : Bytes) : Option Bytes :=
  if (chunksTail mbs ct).length ≠ 0 then none
  else
    let r := blocksFn s (chunks mbs ct)
    Spec.pkcs7Unpad mbs r.1.flatten

end Glue
