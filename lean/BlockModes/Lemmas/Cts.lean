import BlockModes.Spec.Cts
import BlockModes.Impl.Cts
import BlockModes.Lemmas.Chunks
import BlockModes.Lemmas.SpecBlock
import BlockModes.Lemmas.BlocksCtx
import BlockModes.Thm.C02
/-
  Lemmas/Cts.lean — arithmetic of the NIST block count / final-block length, the blocks of the
  zero-padded message, and small list facts used by the ciphertext-stealing refinement (C05).
-/
namespace Spec

/-- exact multiple: `n = k`, `d = bs`. -/
theorem cts_aligned (bs k : Nat) (hbs : 0 < bs) (hk : 0 < k) : ctsN bs (k * bs) = k ∧ ctsD bs (k * bs) = bs := by
  have hn : ctsN bs (k * bs) = k := by
    unfold ctsN
    have : k * bs + bs - 1 = (bs - 1) + k * bs := by omega
    rw [this, Nat.add_mul_div_right _ _ hbs, Nat.div_eq_of_lt (by omega)]; simp
  refine ⟨hn, ?_⟩
  unfold ctsD
  rw [hn]
  obtain ⟨j, rfl⟩ : ∃ j, k = j + 1 := ⟨k - 1, by omega⟩
  rw [Nat.add_sub_cancel, Nat.add_mul, Nat.one_mul]; omega

/-- partial final block of `d` bytes after `k` whole blocks: `n = k + 1`, final length `d`. -/
theorem cts_partial (bs k d : Nat) (hbs : 0 < bs) (hd : 0 < d) (hdl : d < bs) :
    ctsN bs (k * bs + d) = k + 1 ∧ ctsD bs (k * bs + d) = d := by
  have hn : ctsN bs (k * bs + d) = k + 1 := by
    unfold ctsN
    have : k * bs + d + bs - 1 = (d - 1) + (k + 1) * bs := by rw [Nat.add_mul, Nat.one_mul]; omega
    rw [this, Nat.add_mul_div_right _ _ hbs, Nat.div_eq_of_lt (by omega)]; simp
  refine ⟨hn, ?_⟩
  unfold ctsD
  rw [hn, Nat.add_sub_cancel]; omega

/-- the message in terms of its whole blocks and its tail. -/
theorem msg_len (bs : Nat) (hbs : 0 < bs) (m : Bytes) :
    m.length = (chunks bs m).length * bs + (chunksTail bs m).length := by
  have h := congrArg List.length (chunks_flatten_tail bs hbs m)
  rw [List.length_append, flatten_length_of_allLen bs _ (chunks_allLen bs hbs m)] at h
  exact h.symm

/-- blocks of the zero-padded message when the tail is non-empty. -/
theorem chunks_padded (bs : Nat) (hbs : 0 < bs) (m : Bytes) (ht : 0 < (chunksTail bs m).length) :
    chunks bs (m ++ zeros (bs - (chunksTail bs m).length))
      = chunks bs m ++ [chunksTail bs m ++ zeros (bs - (chunksTail bs m).length)] := by
  have htl := chunksTail_lt bs hbs m
  have hall : ∀ b ∈ chunks bs m ++ [chunksTail bs m ++ zeros (bs - (chunksTail bs m).length)], b.length = bs := by
    intro b hb
    simp only [List.mem_append, List.mem_singleton] at hb
    rcases hb with hb | rfl
    · exact chunks_allLen bs hbs m b hb
    · simp [zeros]; omega
  have h := (chunks_of_blocks bs hbs _ [] hall (by simpa using hbs)).1
  rw [List.append_nil, List.flatten_append] at h
  simp only [List.flatten_cons, List.flatten_nil, List.append_nil] at h
  rw [← List.append_assoc, chunks_flatten_tail bs hbs m] at h
  exact h

theorem getD_append_left' {α : Type} (l₁ l₂ : List α) (i : Nat) (d : α) (h : i < l₁.length) :
    (l₁ ++ l₂).getD i d = l₁.getD i d := by
  simp [List.getD_eq_getElem?_getD, List.getElem?_append_left h]

theorem getD_append_right' {α : Type} (l₁ l₂ : List α) (i : Nat) (d : α) (h : l₁.length ≤ i) :
    (l₁ ++ l₂).getD i d = l₂.getD (i - l₁.length) d := by
  simp [List.getD_eq_getElem?_getD, List.getElem?_append_right h]

theorem getD_last {α : Type} (l : List α) (d : α) (h : 0 < l.length) : l.getD (l.length - 1) d = l.getLastD d := by
  induction l with
  | nil => simp at h
  | cons x xs ih =>
    cases xs with
    | nil => simp
    | cons y ys =>
      have := ih (by simp)
      simp only [List.length_cons, Nat.add_sub_cancel] at this ⊢
      simpa [List.getLastD, List.getD_eq_getElem?_getD] using this

theorem take_dropLast {α : Type} (l : List α) : l.take (l.length - 1) = l.dropLast := by
  rw [List.dropLast_eq_take]

theorem flatten_take_blocks (bs : Nat) (L : List Bytes) (hL : ∀ b ∈ L, b.length = bs) (j : Nat) :
    (L.take j).flatten = L.flatten.take (j * bs) := by
  induction L generalizing j with
  | nil => simp
  | cons x xs ih =>
    cases j with
    | zero => simp
    | succ j =>
      have hx : x.length = bs := hL x (by simp)
      have := ih (fun b hb => hL b (by simp [hb])) j
      simp only [List.take_succ_cons, List.flatten_cons, this]
      rw [Nat.add_mul, Nat.one_mul, Nat.add_comm, ← hx, List.take_length_add_append]

end Spec

namespace Spec

theorem split_last2 {α : Type} (l : List α) (d : α) (h : 2 ≤ l.length) :
    l = l.take (l.length - 2) ++ [l.getD (l.length - 2) d] ++ [l.getD (l.length - 1) d] := by
  apply List.ext_getElem
  · simp; omega
  · intro i h1 h2
    by_cases hi : i < l.length - 2
    · rw [List.getElem_append_left (by simp; omega), List.getElem_append_left (by simp; omega)]
      simp [List.getElem_take]
    · by_cases hi2 : i = l.length - 2
      · subst hi2
        rw [List.getElem_append_left (by simp), List.getElem_append_right (by simp)]
        simp [List.getD_eq_getElem?_getD, List.getElem?_eq_getElem h1]
      · have hi3 : i = l.length - 1 := by omega
        subst hi3
        rw [List.getElem_append_right (by simp; omega)]
        simp [List.getD_eq_getElem?_getD, List.getElem?_eq_getElem h1]

theorem dropLast_getLastD {α : Type} (l : List α) (d : α) (h : 2 ≤ l.length) :
    l.dropLast.getLastD d = l.getD (l.length - 2) d := by
  have h1 := getD_last l.dropLast d (by simp; omega)
  rw [← h1]
  simp only [List.length_dropLast]
  rw [List.dropLast_eq_take, List.getD_eq_getElem?_getD, List.getD_eq_getElem?_getD, List.getElem?_take]
  have : l.length - 1 - 1 = l.length - 2 := by omega
  rw [this, if_pos (by omega)]

theorem swapLast2_eq (l : List Bytes) (h : 2 ≤ l.length) :
    Impl.Cts.swapLast2 l = l.take (l.length - 2) ++ [l.getD (l.length - 1) []] ++ [l.getD (l.length - 2) []] := by
  unfold Impl.Cts.swapLast2
  rw [dropLast_getLastD l [] h, ← getD_last l [] (by omega)]

theorem flatten_take_last (bs : Nat) (L : List Bytes) (hL : ∀ b ∈ L, b.length = bs) (h : 1 ≤ L.length) (d : Nat) (hd : d ≤ bs) :
    L.flatten.take ((L.length - 1) * bs + d) = L.dropLast.flatten ++ (L.getLastD []).take d := by
  have hsplit : L = L.dropLast ++ [L.getLastD []] := by
    cases hl : L.reverse with
    | nil => simp at hl; subst hl; simp at h
    | cons x xs =>
      have : L = xs.reverse ++ [x] := by have := congrArg List.reverse hl; simpa using this
      subst this; simp
  have hdl : L.dropLast.flatten.length = (L.length - 1) * bs := by
    rw [flatten_length_of_allLen bs _ (fun b hb => hL b (List.dropLast_subset L hb))]
    simp
  have hf : L.flatten = L.dropLast.flatten ++ L.getLastD [] := by
    conv => lhs; rw [hsplit]
    simp
  rw [hf, ← hdl, List.take_length_add_append]

end Spec

namespace Thm.C05aux
open Impl Impl.Cts Glue Spec

/-- the CBC ciphertext blocks of whole blocks all have the block size. -/
theorem cbcEnc_blocks_len (C : Cipher) (hC : C.Valid) (iv : Bytes) (hiv : iv.length = C.bs) (m : Bytes) :
    (∀ b ∈ (Spec.cbcEnc C iv (chunks C.bs m)).1, b.length = C.bs) ∧ (Spec.cbcEnc C iv (chunks C.bs m)).2.length = C.bs :=
  cbcEnc_allLen C hC _ iv hiv (chunks_allLen C.bs hC.bs_pos m)

end Thm.C05aux

namespace Thm.C05aux
open Impl Impl.Cts Glue Spec

/-- the implementation's encrypt closure for each variant (current code, i.e. after the fix). -/
def implCbcEnc (v : CsVariant) (C : Cipher) (w : Nat) (iv m : Bytes) : Bytes :=
  match v with
  | .cs1 => cbcCs1Enc C w iv m
  | .cs2 => cbcCs2Enc C w iv m
  | .cs3 => cbcCs3Enc false C w iv m

def implCbcDec (v : CsVariant) (C : Cipher) (w : Nat) (iv m : Bytes) : Bytes :=
  match v with
  | .cs1 => cbcCs1Dec C w iv m
  | .cs2 => cbcCs2Dec C w iv m
  | .cs3 => cbcCs3Dec false C w iv m

/-- **CBC-CS1/2/3 encryption = the NIST formulation**, every block size, every width, every length ≥ one block. -/
theorem cbc_cs_enc_refines (v : CsVariant) (C : Cipher) (hC : C.Valid) (w : Nat) (iv m : Bytes)
    (hiv : iv.length = C.bs) (hm : C.bs ≤ m.length) :
    implCbcEnc v C w iv m = Spec.cbcCsEnc v C iv m := by
  have hbs := hC.bs_pos
  have hlen := msg_len C.bs hbs m
  have htl := chunksTail_lt C.bs hbs m
  have hcl := chunks_length C.bs hbs m
  obtain ⟨hall, hr2⟩ := cbcEnc_blocks_len C hC iv hiv m
  have hk : 1 ≤ (chunks C.bs m).length := by
    rw [hcl]; exact (Nat.one_le_div_iff hbs).mpr hm
  have hcsl : (Spec.cbcEnc C iv (chunks C.bs m)).1.length = (chunks C.bs m).length := cbcEnc_length C _ iv
  have hfold : Cts.cbcEnc C iv (chunks C.bs m) = Spec.cbcEnc C iv (chunks C.bs m) := C02.cbc_enc_fold C _ iv
  by_cases ht : (chunksTail C.bs m).length = 0
  · -- whole number of blocks
    have hml : m.length = (chunks C.bs m).length * C.bs := by rw [hlen, ht]; simp
    obtain ⟨hn, hd⟩ := cts_aligned C.bs (chunks C.bs m).length hbs hk
    rw [← hml] at hn hd
    have hpad : m ++ zeros (C.bs - C.bs) = m := by simp [zeros]
    unfold Spec.cbcCsEnc
    simp only [hn, hd, hpad]
    generalize hcs : (Spec.cbcEnc C iv (chunks C.bs m)).1 = cs at *
    generalize hkk : (chunks C.bs m).length = k at *
    by_cases hk1 : k ≤ 1
    · -- one block: plain CBC in all three variants
      have hk1' : k = 1 := by omega
      simp only [hk1, if_true]
      cases v <;> simp [implCbcEnc, cbcCs1Enc, cbcCs2Enc, cbcCs3Enc, ht, hfold, hcs, hkk, hk1']
    · have hk2 : 2 ≤ cs.length := by omega
      simp only [hk1, if_false]
      have hpen : (cs.getD (k - 2) []).take C.bs = cs.getD (k - 2) [] := by
        apply List.take_of_length_le
        have : cs.getD (k - 2) [] ∈ cs := by
          rw [List.getD_eq_getElem?_getD, List.getElem?_eq_getElem (by omega)]; simp
        rw [hall _ this]; exact Nat.le_refl _
      have hsp := split_last2 cs [] hk2
      rw [hcsl] at hsp
      have hflat : cs.flatten = (cs.take (k - 2)).flatten ++ cs.getD (k - 2) [] ++ cs.getD (k - 1) [] := by
        conv => lhs; rw [hsp]
        simp
      cases v
      · simp only [implCbcEnc, cbcCs1Enc, ht, if_true, hfold, hcs, arrange, hpen]; exact hflat
      · simp only [implCbcEnc, cbcCs2Enc, ht, if_true, hfold, hcs, arrange, hpen]; exact hflat
      · have hgt : k > 1 := by omega
        simp only [implCbcEnc, cbcCs3Enc, ht, hfold, hcs, hkk, arrange, hpen, hgt, if_true, Bool.false_eq_true, if_false]
        rw [swapLast2_eq cs hk2, hcsl]
        simp
  · -- partial final block
    have htp : 0 < (chunksTail C.bs m).length := by omega
    obtain ⟨hn, hd⟩ := cts_partial C.bs (chunks C.bs m).length (chunksTail C.bs m).length hbs htp htl
    rw [← hlen] at hn hd
    unfold Spec.cbcCsEnc
    simp only [hn, hd, chunks_padded C.bs hbs m htp, cbcEnc_append]
    generalize hcs : (Spec.cbcEnc C iv (chunks C.bs m)) = r at *
    generalize hkk : (chunks C.bs m).length = k at *
    have hn1 : ¬ (k + 1 ≤ 1) := by omega
    simp only [hn1, if_false, Spec.cbcEnc, Nat.add_sub_cancel]
    have e1 : (r.1 ++ [C.enc (xorB (chunksTail C.bs m ++ zeros (C.bs - (chunksTail C.bs m).length)) r.2)]).take (k + 1 - 2) = r.1.dropLast := by
      have : k + 1 - 2 = r.1.length - 1 := by omega
      rw [this, List.take_append_of_le_length (by omega), List.dropLast_eq_take]
    have e2 : (r.1 ++ [C.enc (xorB (chunksTail C.bs m ++ zeros (C.bs - (chunksTail C.bs m).length)) r.2)]).getD (k + 1 - 2) [] = r.1.getLastD [] := by
      have : k + 1 - 2 = r.1.length - 1 := by omega
      rw [this, getD_append_left' _ _ _ _ (by omega), getD_last _ _ (by omega)]
    have e3 : (r.1 ++ [C.enc (xorB (chunksTail C.bs m ++ zeros (C.bs - (chunksTail C.bs m).length)) r.2)]).getD k [] =
        C.enc (xorB (chunksTail C.bs m ++ zeros (C.bs - (chunksTail C.bs m).length)) r.2) := by
      rw [getD_append_right' _ _ _ _ (by omega)]
      have : k - r.1.length = 0 := by omega
      rw [this]; rfl
    rw [e1, e2, e3]
    have hne : ¬ (chunksTail C.bs m).length = C.bs := by omega
    cases v
    · -- CS1: the block written at `len - bs`
      simp only [implCbcEnc, cbcCs1Enc, ht, if_false, hfold, hcs, arrange, padTail]
      have hpos : m.length - C.bs = (r.1.length - 1) * C.bs + (chunksTail C.bs m).length := by
        rw [hlen, hcsl]
        obtain ⟨j, rfl⟩ : ∃ j, k = j + 1 := ⟨k - 1, by omega⟩
        rw [Nat.add_sub_cancel, Nat.add_mul, Nat.one_mul]; omega
      rw [hpos, flatten_take_last C.bs r.1 hall (by omega) _ (Nat.le_of_lt htl)]
    · simp only [implCbcEnc, cbcCs2Enc, ht, if_false, hfold, hcs, arrange, hne, cbcSteal, padTail]
    · have hf : ¬ ((chunksTail C.bs m).length = 0 ∧ k > 1) := by omega
      simp only [implCbcEnc, cbcCs3Enc, ht, hfold, hcs, hkk, arrange, cbcSteal, padTail, Bool.false_eq_true, if_false]

end Thm.C05aux

namespace Spec

theorem chunks_take_blocks (bs : Nat) (hbs : 0 < bs) (m : Bytes) (j : Nat) (hj : j ≤ (chunks bs m).length) :
    chunks bs (m.take (j * bs)) = (chunks bs m).take j := by
  have hall : ∀ b ∈ (chunks bs m).take j, b.length = bs := fun b hb =>
    chunks_allLen bs hbs m b (List.mem_of_mem_take hb)
  have h := (chunks_of_blocks bs hbs _ [] hall (by simpa using hbs)).1
  rw [List.append_nil, flatten_take_blocks bs _ (chunks_allLen bs hbs m), chunks_flatten_eq_take bs hbs m,
    List.take_take] at h
  have hle : j * bs ≤ m.length / bs * bs := by
    rw [← chunks_length bs hbs m]; exact Nat.mul_le_mul_right bs hj
  rw [Nat.min_eq_left hle] at h
  exact h

theorem chunksTail_eq_drop' (bs : Nat) (hbs : 0 < bs) (m : Bytes) :
    chunksTail bs m = m.drop ((chunks bs m).length * bs) := by
  rw [chunks_length bs hbs m]; exact chunksTail_eq_drop bs hbs m

theorem drop_blocks_last (bs : Nat) (hbs : 0 < bs) (m : Bytes) (h0 : (chunksTail bs m).length = 0)
    (hk : 1 ≤ (chunks bs m).length) :
    m.drop (((chunks bs m).length - 1) * bs) = (chunks bs m).getLastD [] := by
  have hm : m = (chunks bs m).flatten := by
    have := chunks_flatten_tail bs hbs m
    have ht : chunksTail bs m = [] := List.eq_nil_of_length_eq_zero h0
    rw [ht, List.append_nil] at this
    exact this.symm
  have hall := chunks_allLen bs hbs m
  generalize chunks bs m = L at *
  have hsplit : L = L.dropLast ++ [L.getLastD []] := by
    cases hl : L.reverse with
    | nil => simp at hl; subst hl; simp at hk
    | cons x xs =>
      have : L = xs.reverse ++ [x] := by have := congrArg List.reverse hl; simpa using this
      subst this; simp
  have hdl : L.dropLast.flatten.length = (L.length - 1) * bs := by
    rw [flatten_length_of_allLen bs _ (fun b hb => hall b (List.dropLast_subset L hb))]
    simp
  have hf : L.flatten = L.dropLast.flatten ++ L.getLastD [] := by
    conv => lhs; rw [hsplit]
    simp
  rw [hm, hf, ← hdl, List.drop_left]

end Spec

namespace Thm.C05aux
open Impl Impl.Cts Glue Spec

def implEcbEnc (v : CsVariant) (C : Cipher) (w : Nat) (m : Bytes) : Bytes :=
  match v with
  | .cs1 => ecbCs1Enc C w m
  | .cs2 => ecbCs2Enc C w m
  | .cs3 => ecbCs3Enc false C w m

def implEcbDec (v : CsVariant) (C : Cipher) (w : Nat) (m : Bytes) : Bytes :=
  match v with
  | .cs1 => ecbCs1Dec C w m
  | .cs2 => ecbCs2Dec C w m
  | .cs3 => ecbCs3Dec false C w m

theorem ecbEnc_map (C : Cipher) (w : Nat) (blocks : List Bytes) : Cts.ecbEnc C w blocks = blocks.map C.enc := by
  unfold Cts.ecbEnc
  rw [blocksCtx_eq_fold _ _ _ (fun s ch _ => by cases s; rw [foldBlocks_unit_map]), foldBlocks_unit_map]

theorem ecbDec_map (C : Cipher) (w : Nat) (blocks : List Bytes) : Cts.ecbDec C w blocks = blocks.map C.dec := by
  unfold Cts.ecbDec
  rw [blocksCtx_eq_fold _ _ _ (fun s ch _ => by cases s; rw [foldBlocks_unit_map]), foldBlocks_unit_map]

theorem map_getD (f : Bytes → Bytes) (l : List Bytes) (i : Nat) (h : i < l.length) :
    (l.map f).getD i [] = f (l.getD i []) := by
  simp [List.getD_eq_getElem?_getD, List.getElem?_eq_getElem h]

theorem map_getLastD (f : Bytes → Bytes) (l : List Bytes) (h : 0 < l.length) :
    (l.map f).getLastD [] = f (l.getLastD []) := by
  rw [← getD_last _ _ (by simpa using h), ← getD_last _ _ h, List.length_map, map_getD f l _ (by omega)]

theorem getD_mem {α : Type} (l : List α) (i : Nat) (d : α) (h : i < l.length) : l.getD i d ∈ l := by
  rw [List.getD_eq_getElem?_getD, List.getElem?_eq_getElem h]; exact List.getElem_mem h

/-- normal form of the NIST ECB formulation, whole number `k ≥ 2` of blocks. -/
theorem ecbSpec_aligned (v : CsVariant) (C : Cipher) (hC : C.Valid) (m : Bytes)
    (ht : (chunksTail C.bs m).length = 0) (hk2 : 2 ≤ (chunks C.bs m).length) :
    Spec.ecbCsEnc v C m =
      arrange v C.bs C.bs ((((chunks C.bs m).map C.enc).take ((chunks C.bs m).length - 2)).flatten)
        (((chunks C.bs m).map C.enc).getD ((chunks C.bs m).length - 2) [])
        (((chunks C.bs m).map C.enc).getD ((chunks C.bs m).length - 1) []) := by
  have hbs := hC.bs_pos
  have hlen := msg_len C.bs hbs m
  have hallB := chunks_allLen C.bs hbs m
  have hml : m.length = (chunks C.bs m).length * C.bs := by rw [hlen, ht]; simp
  obtain ⟨hn, hd⟩ := cts_aligned C.bs (chunks C.bs m).length hbs (by omega)
  rw [← hml] at hn hd
  unfold Spec.ecbCsEnc
  simp only [hn, hd]
  have hk1 : ¬ (chunks C.bs m).length ≤ 1 := by omega
  simp only [hk1, if_false]
  rw [chunks_take_blocks C.bs hbs m _ (by omega), drop_blocks_last C.bs hbs m ht (by omega)]
  generalize hkk : (chunks C.bs m).length = k at *
  generalize hL : chunks C.bs m = L at *
  have hOl : (L.map C.enc).length = k := by simp [hkk]
  have hallO : ∀ b ∈ L.map C.enc, b.length = C.bs := by
    intro b hb
    simp only [List.mem_map] at hb
    obtain ⟨x, hx, rfl⟩ := hb
    exact hC.enc_len x (hallB x hx)
  have hpenI : ((L.take (k - 1)).map C.enc).getD (k - 2) [] = (L.map C.enc).getD (k - 2) [] := by
    rw [List.map_take, List.getD_eq_getElem?_getD, List.getD_eq_getElem?_getD, List.getElem?_take, if_pos (by omega)]
  have hpenL : ((L.map C.enc).getD (k - 2) []).length = C.bs := hallO _ (getD_mem _ _ _ (by omega))
  have hheadI : (((L.take (k - 1)).map C.enc).take (k - 2)) = (L.map C.enc).take (k - 2) := by
    rw [List.map_take, List.take_take, Nat.min_eq_left (by omega)]
  have hcn : C.enc (L.getLastD [] ++ (((L.take (k - 1)).map C.enc).getD (k - 2) []).drop C.bs) = (L.map C.enc).getD (k - 1) [] := by
    rw [hpenI, List.drop_of_length_le (by rw [hpenL]; exact Nat.le_refl _), List.append_nil, ← map_getLastD C.enc L (by omega),
      ← getD_last _ _ (by omega), hOl]
  have htk : ((L.map C.enc).getD (k - 2) []).take C.bs = (L.map C.enc).getD (k - 2) [] :=
    List.take_of_length_le (by rw [hpenL]; exact Nat.le_refl _)
  rw [hcn, hpenI, hheadI, htk]

/-- normal form, partial final block. -/
theorem ecbSpec_partial (v : CsVariant) (C : Cipher) (hC : C.Valid) (m : Bytes)
    (htp : 0 < (chunksTail C.bs m).length) (hk : 1 ≤ (chunks C.bs m).length) :
    Spec.ecbCsEnc v C m =
      arrange v C.bs (chunksTail C.bs m).length ((chunks C.bs m).map C.enc).dropLast.flatten
        ((((chunks C.bs m).map C.enc).getLastD []).take (chunksTail C.bs m).length)
        (C.enc (chunksTail C.bs m ++ (((chunks C.bs m).map C.enc).getLastD []).drop (chunksTail C.bs m).length)) := by
  have hbs := hC.bs_pos
  have hlen := msg_len C.bs hbs m
  have htl := chunksTail_lt C.bs hbs m
  obtain ⟨hn, hd⟩ := cts_partial C.bs (chunks C.bs m).length (chunksTail C.bs m).length hbs htp htl
  rw [← hlen] at hn hd
  unfold Spec.ecbCsEnc
  simp only [hn, hd, Nat.add_sub_cancel]
  have hn1 : ¬ ((chunks C.bs m).length + 1 ≤ 1) := by omega
  simp only [hn1, if_false]
  rw [chunks_take_blocks C.bs hbs m _ (Nat.le_refl _), List.take_length, ← chunksTail_eq_drop' C.bs hbs m]
  generalize hkk : (chunks C.bs m).length = k at *
  generalize hL : chunks C.bs m = L at *
  have hOl : (L.map C.enc).length = k := by simp [hkk]
  have e1 : (L.map C.enc).take (k + 1 - 2) = (L.map C.enc).dropLast := by
    rw [List.dropLast_eq_take, hOl]; congr 1
  have e2 : (L.map C.enc).getD (k + 1 - 2) [] = (L.map C.enc).getLastD [] := by
    have : k + 1 - 2 = (L.map C.enc).length - 1 := by omega
    rw [this, getD_last _ _ (by omega)]
  rw [e1, e2]

/-- **ECB-CS1/2/3 encryption = the NIST formulation.** -/
theorem ecb_cs_enc_refines (v : CsVariant) (C : Cipher) (hC : C.Valid) (w : Nat) (m : Bytes) (hm : C.bs ≤ m.length) :
    implEcbEnc v C w m = Spec.ecbCsEnc v C m := by
  have hbs := hC.bs_pos
  have hlen := msg_len C.bs hbs m
  have htl := chunksTail_lt C.bs hbs m
  have hcl := chunks_length C.bs hbs m
  have hallB := chunks_allLen C.bs hbs m
  have hk : 1 ≤ (chunks C.bs m).length := by
    rw [hcl]; exact (Nat.one_le_div_iff hbs).mpr hm
  have hallO : ∀ b ∈ (chunks C.bs m).map C.enc, b.length = C.bs := by
    intro b hb
    simp only [List.mem_map] at hb
    obtain ⟨x, hx, rfl⟩ := hb
    exact hC.enc_len x (hallB x hx)
  have hOl : ((chunks C.bs m).map C.enc).length = (chunks C.bs m).length := by simp
  by_cases ht : (chunksTail C.bs m).length = 0
  · by_cases hk1 : (chunks C.bs m).length ≤ 1
    · -- a single block: raw block encryption in all three variants
      have hml : m.length = (chunks C.bs m).length * C.bs := by rw [hlen, ht]; simp
      have hk1' : (chunks C.bs m).length = 1 := by omega
      obtain ⟨hn, _⟩ := cts_aligned C.bs (chunks C.bs m).length hbs hk
      rw [← hml] at hn
      have hmflat : m = (chunks C.bs m).flatten := by
        have := chunks_flatten_tail C.bs hbs m
        rw [List.eq_nil_of_length_eq_zero ht, List.append_nil] at this
        exact this.symm
      obtain ⟨b, hb⟩ : ∃ b, chunks C.bs m = [b] := by
        cases hc : chunks C.bs m with
        | nil => rw [hc] at hk1'; simp at hk1'
        | cons x xs => cases xs with
          | nil => exact ⟨x, rfl⟩
          | cons y ys => rw [hc] at hk1'; simp at hk1'
      have hmb : m = b := by rw [hmflat, hb]; simp
      have hgoal : C.enc b = C.enc m := by rw [hmb]
      have hspec : Spec.ecbCsEnc v C m = C.enc m := by
        unfold Spec.ecbCsEnc; simp only [hn, hk1, if_true]
      rw [hspec]
      cases v <;> simp [implEcbEnc, ecbCs1Enc, ecbCs2Enc, ecbCs3Enc, ht, ecbEnc_map, hb, hgoal]
    · have hk2 : 2 ≤ (chunks C.bs m).length := by omega
      rw [ecbSpec_aligned v C hC m ht hk2]
      have hsp := split_last2 ((chunks C.bs m).map C.enc) [] (by omega)
      rw [hOl] at hsp
      have hflat : ((chunks C.bs m).map C.enc).flatten =
          (((chunks C.bs m).map C.enc).take ((chunks C.bs m).length - 2)).flatten ++
            ((chunks C.bs m).map C.enc).getD ((chunks C.bs m).length - 2) [] ++
            ((chunks C.bs m).map C.enc).getD ((chunks C.bs m).length - 1) [] := by
        conv => lhs; rw [hsp]
        simp
      cases v
      · simp only [implEcbEnc, ecbCs1Enc, ht, if_true, ecbEnc_map, arrange]; exact hflat
      · simp only [implEcbEnc, ecbCs2Enc, ht, if_true, ecbEnc_map, arrange]; exact hflat
      · have hgt : (chunks C.bs m).length > 1 := by omega
        simp only [implEcbEnc, ecbCs3Enc, ht, ecbEnc_map, arrange, hgt, if_true, Bool.false_eq_true, if_false]
        rw [swapLast2_eq _ (by omega), hOl]
        simp
  · have htp : 0 < (chunksTail C.bs m).length := by omega
    rw [ecbSpec_partial v C hC m htp hk]
    have hne : ¬ (chunksTail C.bs m).length = C.bs := by omega
    cases v
    · simp only [implEcbEnc, ecbCs1Enc, ht, if_false, ecbEnc_map, arrange]
      have hpos : m.length - C.bs = (((chunks C.bs m).map C.enc).length - 1) * C.bs + (chunksTail C.bs m).length := by
        rw [hlen, hOl]
        obtain ⟨j, hj⟩ : ∃ j, (chunks C.bs m).length = j + 1 := ⟨(chunks C.bs m).length - 1, by omega⟩
        rw [hj, Nat.add_sub_cancel, Nat.add_mul, Nat.one_mul]; omega
      rw [hpos, flatten_take_last C.bs _ hallO (by omega) _ (Nat.le_of_lt htl)]
    · simp only [implEcbEnc, ecbCs2Enc, ht, if_false, ecbEnc_map, arrange, hne, ecbSteal]
    · simp only [implEcbEnc, ecbCs3Enc, ht, ecbEnc_map, arrange, ecbSteal, Bool.false_eq_true, if_false]

end Thm.C05aux

namespace Thm.C05aux
open Impl Impl.Cts Glue Spec

theorem xorB_padTail (tail k : Bytes) (bs : Nat) (hk : k.length = bs) (ht : tail.length ≤ bs) :
    xorB (tail ++ zeros (bs - tail.length)) k = xorB tail (k.take tail.length) ++ k.drop tail.length := by
  have hks : k = k.take tail.length ++ k.drop tail.length := (List.take_append_drop _ _).symm
  conv => lhs; rw [hks]
  rw [xorB_append _ _ _ _ (by simp; omega), xorB_comm (zeros _), xorB_zeros_right _ _ (by simp; omega)]

/-- un-stealing, CS1 layout `[C*_{n-1} ‖ C_n]`. -/
theorem cs1_tail (C : Cipher) (hC : C.Valid) (ivp ck tail : Bytes) (hck : ck.length = C.bs)
    (ht0 : 0 < tail.length) (ht : tail.length < C.bs) :
    cbcCs1DecTail C ivp (ck.take tail.length ++ C.enc (xorB (tail ++ zeros (C.bs - tail.length)) ck))
      = xorB (C.dec ck) ivp ++ tail := by
  have hx : (xorB (tail ++ zeros (C.bs - tail.length)) ck).length = C.bs := by simp [hck, zeros]; omega
  have hcn : (C.enc (xorB (tail ++ zeros (C.bs - tail.length)) ck)).length = C.bs := hC.enc_len _ hx
  have hrl : (ck.take tail.length ++ C.enc (xorB (tail ++ zeros (C.bs - tail.length)) ck)).length = C.bs + tail.length := by
    simp [hcn, hck]; omega
  unfold cbcCs1DecTail
  simp only [hrl, Nat.add_sub_cancel_left]
  have hdrop : (ck.take tail.length ++ C.enc (xorB (tail ++ zeros (C.bs - tail.length)) ck)).drop tail.length
      = C.enc (xorB (tail ++ zeros (C.bs - tail.length)) ck) := by
    rw [List.drop_left' (by simp; omega)]
  have htake : ((ck.take tail.length ++ C.enc (xorB (tail ++ zeros (C.bs - tail.length)) ck)).take C.bs).take tail.length
      = ck.take tail.length := by
    rw [List.take_take, Nat.min_eq_left (Nat.le_of_lt ht), List.take_left' (by simp; omega)]
  rw [hdrop, htake, hC.dec_enc _ hx, xorB_padTail tail ck C.bs hck (Nat.le_of_lt ht)]
  have hxl : (xorB tail (ck.take tail.length)).length = tail.length := by simp; omega
  rw [List.drop_left' hxl, List.take_append_drop]
  have hsplit : ck = ck.take tail.length ++ ck.drop tail.length := (List.take_append_drop _ _).symm
  have e : xorB (xorB tail (ck.take tail.length) ++ ck.drop tail.length) ck
      = tail ++ zeros (C.bs - tail.length) := by
    conv => lhs; rhs; rw [hsplit]
    rw [xorB_append _ _ _ _ (by simp <;> omega), xorB_cancel_right _ _ (by simp; omega), xorB_self]
    simp [hck]
  rw [e, List.take_left' rfl]

/-- un-stealing, CS2/CS3 layout `[C_n ‖ C*_{n-1}]`, partial final block. -/
theorem cs2_tail (C : Cipher) (hC : C.Valid) (ivp ck tail : Bytes) (hck : ck.length = C.bs)
    (ht : tail.length < C.bs) :
    cbcCs2DecTail C ivp (C.enc (xorB (tail ++ zeros (C.bs - tail.length)) ck) ++ ck.take tail.length)
      = xorB (C.dec ck) ivp ++ tail := by
  have hx : (xorB (tail ++ zeros (C.bs - tail.length)) ck).length = C.bs := by simp [hck, zeros]; omega
  have hcn : (C.enc (xorB (tail ++ zeros (C.bs - tail.length)) ck)).length = C.bs := hC.enc_len _ hx
  have hrl : (C.enc (xorB (tail ++ zeros (C.bs - tail.length)) ck) ++ ck.take tail.length).length = C.bs + tail.length := by
    simp [hcn, hck]; omega
  unfold cbcCs2DecTail
  simp only [hrl, Nat.add_sub_cancel_left]
  rw [List.take_left' hcn, List.drop_left' hcn, hC.dec_enc _ hx, xorB_padTail tail ck C.bs hck (Nat.le_of_lt ht)]
  have hxl : (xorB tail (ck.take tail.length)).length = tail.length := by simp; omega
  have htt : (ck.take tail.length).take tail.length = ck.take tail.length := by
    rw [List.take_take, Nat.min_self]
  rw [htt, List.drop_left' hxl, List.take_append_drop]
  have hsplit : ck = ck.take tail.length ++ ck.drop tail.length := (List.take_append_drop _ _).symm
  have e : xorB (xorB tail (ck.take tail.length) ++ ck.drop tail.length) ck
      = tail ++ zeros (C.bs - tail.length) := by
    conv => lhs; rhs; rw [hsplit]
    rw [xorB_append _ _ _ _ (by simp <;> omega), xorB_cancel_right _ _ (by simp; omega), xorB_self]
    simp [hck]
  rw [e, List.take_left' rfl]

/-- un-exchanging, CS3 on whole blocks: `[C_n ‖ C_{n-1}]`. -/
theorem cs3_swap_tail (C : Cipher) (hC : C.Valid) (ivp cn ck : Bytes) (hcn : cn.length = C.bs) (hck : ck.length = C.bs) :
    cbcCs2DecTail C ivp (cn ++ ck) = xorB (C.dec ck) ivp ++ xorB (C.dec cn) ck := by
  unfold cbcCs2DecTail
  have hrl : (cn ++ ck).length - C.bs = C.bs := by simp [hcn, hck]
  have hdl : (C.dec cn).length = C.bs := hC.dec_len cn hcn
  simp only [hrl]
  rw [List.take_left' hcn, List.drop_left' hcn, List.take_of_length_le (Nat.le_of_eq hck),
    List.drop_of_length_le (Nat.le_of_eq hdl), List.append_nil, List.take_of_length_le (by simp [hdl, hck])]

end Thm.C05aux

namespace Thm.C05aux
open Impl Impl.Cts Glue Spec

/-! ### decryption: shape lemmas (what each decrypt closure does to a buffer of a given layout) -/

theorem cbcDec_eq (C : Cipher) (w : Nat) (iv : Bytes) (blocks : List Bytes) :
    Cts.cbcDec C w iv blocks = Spec.cbcDec C iv blocks := by
  have hpar : ∀ s ch, Cts.cbcDecPar C s ch = foldBlocks (Cts.cbcDecBlock C) s ch := fun s ch =>
    C02.cbc_decPar_eq_fold C ch s
  unfold Cts.cbcDec
  rw [blocksCtx_eq_fold w _ _ (fun s ch _ => hpar s ch)]
  exact C02.cbc_dec_fold C blocks iv

/-- a buffer made of `X` (whole blocks) followed by `Y` with `bs ≤ |Y| < 2·bs`: its chunks and tail. -/
theorem layout_chunks (bs : Nat) (hbs : 0 < bs) (X : List Bytes) (hX : ∀ b ∈ X, b.length = bs) (Y : Bytes)
    (hY1 : bs ≤ Y.length) (hY2 : Y.length < 2 * bs) :
    chunks bs (X.flatten ++ Y) = X ++ [Y.take bs] ∧ chunksTail bs (X.flatten ++ Y) = Y.drop bs := by
  have hall : ∀ b ∈ X ++ [Y.take bs], b.length = bs := by
    intro b hb
    simp only [List.mem_append, List.mem_singleton] at hb
    rcases hb with hb | rfl
    · exact hX b hb
    · simp; omega
  have h := chunks_of_blocks bs hbs (X ++ [Y.take bs]) (Y.drop bs) hall (by simp; omega)
  simp only [List.flatten_append, List.flatten_cons, List.flatten_nil, List.append_nil, List.append_assoc,
    List.take_append_drop] at h
  exact h

theorem layout_take_drop (bs : Nat) (X : List Bytes) (hX : ∀ b ∈ X, b.length = bs) (Y : Bytes) :
    (X.flatten ++ Y).take (X.length * bs) = X.flatten ∧ (X.flatten ++ Y).drop (X.length * bs) = Y := by
  have hl := flatten_length_of_allLen bs X hX
  exact ⟨List.take_left' hl, List.drop_left' hl⟩

/-- CS1 decrypt on `X ‖ C*_k ‖ C_n` (partial final block of `d` bytes). -/
theorem cs1_dec_shape (C : Cipher) (hC : C.Valid) (w : Nat) (iv : Bytes) (X : List Bytes) (hX : ∀ b ∈ X, b.length = C.bs)
    (ck tail : Bytes) (hck : ck.length = C.bs) (ht0 : 0 < tail.length) (ht : tail.length < C.bs) :
    cbcCs1Dec C w iv (X.flatten ++ (ck.take tail.length ++ C.enc (xorB (tail ++ zeros (C.bs - tail.length)) ck)))
      = (Spec.cbcDec C iv X).1.flatten ++ (xorB (C.dec ck) (Spec.cbcDec C iv X).2 ++ tail) := by
  have hbs := hC.bs_pos
  have hx : (xorB (tail ++ zeros (C.bs - tail.length)) ck).length = C.bs := by simp [hck, zeros]; omega
  have hcn : (C.enc (xorB (tail ++ zeros (C.bs - tail.length)) ck)).length = C.bs := hC.enc_len _ hx
  generalize hY : ck.take tail.length ++ C.enc (xorB (tail ++ zeros (C.bs - tail.length)) ck) = Y
  have hYl : Y.length = C.bs + tail.length := by rw [← hY]; simp [hcn, hck]; omega
  obtain ⟨hch, htl⟩ := layout_chunks C.bs hbs X hX Y (by omega) (by omega)
  obtain ⟨_, hdr⟩ := layout_take_drop C.bs X hX Y
  have hfl := flatten_length_of_allLen C.bs X hX
  unfold cbcCs1Dec
  simp only [hch, htl]
  have htl' : (Y.drop C.bs).length = tail.length := by simp [hYl]
  have hne : (Y.drop C.bs).length ≠ 0 := by omega
  simp only [hne, ne_eq, not_false_eq_true, if_true, if_false]
  have hlen1 : (X ++ [Y.take C.bs]).length - 1 = X.length := by simp
  rw [hlen1, List.take_left' rfl, cbcDec_eq]
  have hmid : (X.flatten ++ Y).length - (C.bs + (Y.drop C.bs).length) = X.length * C.bs := by
    rw [List.length_append, hfl, htl', hYl]; omega
  rw [hmid, hdr, ← hY, cs1_tail C hC _ ck tail hck ht0 ht]

/-- CS2 decrypt on `X ‖ C_n ‖ C*_k`. -/
theorem cs2_dec_shape (C : Cipher) (hC : C.Valid) (w : Nat) (iv : Bytes) (X : List Bytes) (hX : ∀ b ∈ X, b.length = C.bs)
    (ck tail : Bytes) (hck : ck.length = C.bs) (ht0 : 0 < tail.length) (ht : tail.length < C.bs) :
    cbcCs2Dec C w iv (X.flatten ++ (C.enc (xorB (tail ++ zeros (C.bs - tail.length)) ck) ++ ck.take tail.length))
      = (Spec.cbcDec C iv X).1.flatten ++ (xorB (C.dec ck) (Spec.cbcDec C iv X).2 ++ tail) := by
  have hbs := hC.bs_pos
  have hx : (xorB (tail ++ zeros (C.bs - tail.length)) ck).length = C.bs := by simp [hck, zeros]; omega
  have hcn : (C.enc (xorB (tail ++ zeros (C.bs - tail.length)) ck)).length = C.bs := hC.enc_len _ hx
  generalize hY : C.enc (xorB (tail ++ zeros (C.bs - tail.length)) ck) ++ ck.take tail.length = Y
  have hYl : Y.length = C.bs + tail.length := by rw [← hY]; simp [hcn, hck]; omega
  obtain ⟨hch, htl⟩ := layout_chunks C.bs hbs X hX Y (by omega) (by omega)
  obtain ⟨_, hdr⟩ := layout_take_drop C.bs X hX Y
  have hfl := flatten_length_of_allLen C.bs X hX
  unfold cbcCs2Dec
  simp only [hch, htl]
  have htl' : (Y.drop C.bs).length = tail.length := by simp [hYl]
  have hne : (Y.drop C.bs).length ≠ 0 := by omega
  simp only [hne, ne_eq, not_false_eq_true, if_true, if_false]
  have hlen1 : (X ++ [Y.take C.bs]).length - 1 = X.length := by simp
  rw [hlen1, List.take_left' rfl, cbcDec_eq]
  have hmid : (X.flatten ++ Y).length - (C.bs + (Y.drop C.bs).length) = X.length * C.bs := by
    rw [List.length_append, hfl, htl', hYl]; omega
  rw [hmid, hdr, ← hY, cs2_tail C hC _ ck tail hck ht]

/-- CS3 decrypt on `X ‖ Y` where `Y` is the last `bs + d` bytes (`0 < d ≤ bs`): processes `X` by CBC and `Y` by
    the un-stealing step. -/
theorem cs3_dec_shape (C : Cipher) (hC : C.Valid) (w : Nat) (iv : Bytes) (X : List Bytes) (hX : ∀ b ∈ X, b.length = C.bs)
    (Y : Bytes) (hY1 : C.bs < Y.length) (hY2 : Y.length ≤ 2 * C.bs) :
    cbcCs3Dec false C w iv (X.flatten ++ Y)
      = (Spec.cbcDec C iv X).1.flatten ++ cbcCs2DecTail C (Spec.cbcDec C iv X).2 Y := by
  have hbs := hC.bs_pos
  have hfl := flatten_length_of_allLen C.bs X hX
  obtain ⟨htk, hdr⟩ := layout_take_drop C.bs X hX Y
  unfold cbcCs3Dec
  have hlen : (X.flatten ++ Y).length = X.length * C.bs + Y.length := by rw [List.length_append, hfl]
  have hne : ¬ (X.flatten ++ Y).length = C.bs := by rw [hlen]; omega
  simp only [hne, Bool.not_false, true_and, if_false]
  have hbl : ((X.flatten ++ Y).length + C.bs - 1) / C.bs - 2 = X.length := by
    rw [hlen]
    -- Y.length = bs + d with 1 ≤ d ≤ bs
    obtain ⟨d, hd⟩ : ∃ d, Y.length = C.bs + d := ⟨Y.length - C.bs, by omega⟩
    have hd1 : 1 ≤ d := by omega
    have hd2 : d ≤ C.bs := by omega
    have e : X.length * C.bs + Y.length + C.bs - 1 = (d - 1) + (X.length + 2) * C.bs := by
      rw [hd, Nat.add_mul]; omega
    rw [e, Nat.add_mul_div_right _ _ hbs, Nat.div_eq_of_lt (by omega)]; simp
  rw [hbl, Nat.mul_comm C.bs X.length, htk, hdr, cbcDec_eq]
  have hcx := (chunks_of_blocks C.bs hbs X [] hX (by simpa using hbs)).1
  rw [List.append_nil] at hcx
  rw [hcx]

end Thm.C05aux

namespace Thm.C05aux
open Impl Impl.Cts Glue Spec

/-- CBC normal form, whole number `k ≥ 2` of blocks. -/
theorem cbcSpec_aligned (v : CsVariant) (C : Cipher) (hC : C.Valid) (iv m : Bytes) (hiv : iv.length = C.bs)
    (ht : (chunksTail C.bs m).length = 0) (hk2 : 2 ≤ (chunks C.bs m).length) :
    Spec.cbcCsEnc v C iv m =
      arrange v C.bs C.bs (((Spec.cbcEnc C iv (chunks C.bs m)).1.take ((chunks C.bs m).length - 2)).flatten)
        ((Spec.cbcEnc C iv (chunks C.bs m)).1.getD ((chunks C.bs m).length - 2) [])
        ((Spec.cbcEnc C iv (chunks C.bs m)).1.getD ((chunks C.bs m).length - 1) []) := by
  have hbs := hC.bs_pos
  have hlen := msg_len C.bs hbs m
  obtain ⟨hall, _⟩ := cbcEnc_blocks_len C hC iv hiv m
  have hcsl : (Spec.cbcEnc C iv (chunks C.bs m)).1.length = (chunks C.bs m).length := cbcEnc_length C _ iv
  have hml : m.length = (chunks C.bs m).length * C.bs := by rw [hlen, ht]; simp
  obtain ⟨hn, hd⟩ := cts_aligned C.bs (chunks C.bs m).length hbs (by omega)
  rw [← hml] at hn hd
  have hpad : m ++ zeros (C.bs - C.bs) = m := by simp [zeros]
  unfold Spec.cbcCsEnc
  simp only [hn, hd, hpad]
  have hk1 : ¬ (chunks C.bs m).length ≤ 1 := by omega
  simp only [hk1, if_false]
  have htk : ((Spec.cbcEnc C iv (chunks C.bs m)).1.getD ((chunks C.bs m).length - 2) []).take C.bs
      = (Spec.cbcEnc C iv (chunks C.bs m)).1.getD ((chunks C.bs m).length - 2) [] :=
    List.take_of_length_le (by rw [hall _ (getD_mem _ _ _ (by omega))]; exact Nat.le_refl _)
  rw [htk]

/-- CBC normal form, partial final block. -/
theorem cbcSpec_partial (v : CsVariant) (C : Cipher) (hC : C.Valid) (iv m : Bytes)
    (htp : 0 < (chunksTail C.bs m).length) (hk : 1 ≤ (chunks C.bs m).length) :
    Spec.cbcCsEnc v C iv m =
      arrange v C.bs (chunksTail C.bs m).length (Spec.cbcEnc C iv (chunks C.bs m)).1.dropLast.flatten
        (((Spec.cbcEnc C iv (chunks C.bs m)).1.getLastD []).take (chunksTail C.bs m).length)
        (C.enc (xorB (chunksTail C.bs m ++ zeros (C.bs - (chunksTail C.bs m).length)) (Spec.cbcEnc C iv (chunks C.bs m)).2)) := by
  have hbs := hC.bs_pos
  have hlen := msg_len C.bs hbs m
  have htl := chunksTail_lt C.bs hbs m
  have hcsl : (Spec.cbcEnc C iv (chunks C.bs m)).1.length = (chunks C.bs m).length := cbcEnc_length C _ iv
  obtain ⟨hn, hd⟩ := cts_partial C.bs (chunks C.bs m).length (chunksTail C.bs m).length hbs htp htl
  rw [← hlen] at hn hd
  unfold Spec.cbcCsEnc
  simp only [hn, hd, chunks_padded C.bs hbs m htp, cbcEnc_append]
  generalize hcs : (Spec.cbcEnc C iv (chunks C.bs m)) = r at *
  generalize hkk : (chunks C.bs m).length = k at *
  have hn1 : ¬ (k + 1 ≤ 1) := by omega
  simp only [hn1, if_false, Spec.cbcEnc, Nat.add_sub_cancel]
  have e1 : (r.1 ++ [C.enc (xorB (chunksTail C.bs m ++ zeros (C.bs - (chunksTail C.bs m).length)) r.2)]).take (k + 1 - 2) = r.1.dropLast := by
    have : k + 1 - 2 = r.1.length - 1 := by omega
    rw [this, List.take_append_of_le_length (by omega), List.dropLast_eq_take]
  have e2 : (r.1 ++ [C.enc (xorB (chunksTail C.bs m ++ zeros (C.bs - (chunksTail C.bs m).length)) r.2)]).getD (k + 1 - 2) [] = r.1.getLastD [] := by
    have : k + 1 - 2 = r.1.length - 1 := by omega
    rw [this, getD_append_left' _ _ _ _ (by omega), getD_last _ _ (by omega)]
  have e3 : (r.1 ++ [C.enc (xorB (chunksTail C.bs m ++ zeros (C.bs - (chunksTail C.bs m).length)) r.2)]).getD k [] =
      C.enc (xorB (chunksTail C.bs m ++ zeros (C.bs - (chunksTail C.bs m).length)) r.2) := by
    rw [getD_append_right' _ _ _ _ (by omega)]
    have : k - r.1.length = 0 := by omega
    rw [this]; rfl
  rw [e1, e2, e3]

/-- the chaining value after a non-empty CBC encryption is the last ciphertext block. -/
theorem cbcEnc_snd (C : Cipher) : ∀ (l : List Bytes) (iv : Bytes), 0 < l.length →
    (Spec.cbcEnc C iv l).2 = (Spec.cbcEnc C iv l).1.getLastD [] := by
  intro l
  induction l with
  | nil => intro iv h; simp at h
  | cons p ps ih =>
    intro iv _
    cases ps with
    | nil => simp [Spec.cbcEnc]
    | cons q qs =>
      have := ih (C.enc (xorB p iv)) (by simp)
      simp only [Spec.cbcEnc] at this ⊢
      rw [this]
      simp [List.getLastD]

theorem split_dropLast {α : Type} (l : List α) (d : α) (h : 0 < l.length) : l = l.dropLast ++ [l.getLastD d] := by
  cases hl : l.reverse with
  | nil => simp at hl; subst hl; simp at h
  | cons x xs =>
    have : l = xs.reverse ++ [x] := by have := congrArg List.reverse hl; simpa using this
    subst this; simp

/-- **CBC-CS1/2/3: decryption inverts encryption**, every block size, width, length ≥ one block. -/
theorem cbc_cs_dec_inverts (v : CsVariant) (C : Cipher) (hC : C.Valid) (w : Nat) (iv m : Bytes)
    (hiv : iv.length = C.bs) (hm : C.bs ≤ m.length) :
    implCbcDec v C w iv (Spec.cbcCsEnc v C iv m) = m := by
  have hbs := hC.bs_pos
  have hlen := msg_len C.bs hbs m
  have htl := chunksTail_lt C.bs hbs m
  have hcl := chunks_length C.bs hbs m
  have hallB := chunks_allLen C.bs hbs m
  obtain ⟨hall, hr2⟩ := cbcEnc_blocks_len C hC iv hiv m
  have hk : 1 ≤ (chunks C.bs m).length := by
    rw [hcl]; exact (Nat.one_le_div_iff hbs).mpr hm
  have hcsl : (Spec.cbcEnc C iv (chunks C.bs m)).1.length = (chunks C.bs m).length := cbcEnc_length C _ iv
  obtain ⟨hinv, _⟩ := cbcDec_cbcEnc C hC (chunks C.bs m) iv hiv hallB
  have hmsplit := chunks_flatten_tail C.bs hbs m
  by_cases ht : (chunksTail C.bs m).length = 0
  · have htnil : chunksTail C.bs m = [] := List.eq_nil_of_length_eq_zero ht
    have hmflat : (chunks C.bs m).flatten = m := by rw [htnil, List.append_nil] at hmsplit; exact hmsplit
    by_cases hk1 : (chunks C.bs m).length ≤ 1
    · -- one block
      have hml : m.length = (chunks C.bs m).length * C.bs := by rw [hlen, ht]; simp
      obtain ⟨hn, hd⟩ := cts_aligned C.bs (chunks C.bs m).length hbs hk
      rw [← hml] at hn hd
      have hspec : Spec.cbcCsEnc v C iv m = (Spec.cbcEnc C iv (chunks C.bs m)).1.flatten := by
        unfold Spec.cbcCsEnc
        have hpad : m ++ zeros (C.bs - C.bs) = m := by simp [zeros]
        simp only [hn, hd, hpad, hk1, if_true]
      rw [hspec]
      have hch := chunks_of_blocks C.bs hbs _ [] hall (by simpa using hbs)
      rw [List.append_nil] at hch
      have hfl : (Spec.cbcEnc C iv (chunks C.bs m)).1.flatten.length = C.bs := by
        rw [flatten_length_of_allLen C.bs _ hall, hcsl]; have : (chunks C.bs m).length = 1 := by omega
        rw [this]; simp
      cases v
      · simp only [implCbcDec, cbcCs1Dec, hch.1, hch.2, List.length_nil, ne_eq, not_true_eq_false, if_false, if_true, cbcDec_eq, hinv, hmflat]
      · simp only [implCbcDec, cbcCs2Dec, hch.1, hch.2, List.length_nil, ne_eq, not_true_eq_false, if_false, if_true, cbcDec_eq, hinv, hmflat]
      · simp only [implCbcDec, cbcCs3Dec, hfl, Bool.not_false, true_and, if_true, hch.1, cbcDec_eq, hinv, hmflat]
    · have hk2 : 2 ≤ (chunks C.bs m).length := by omega
      rw [cbcSpec_aligned v C hC iv m hiv ht hk2]
      generalize hcs : (Spec.cbcEnc C iv (chunks C.bs m)).1 = cs at *
      generalize hkk : (chunks C.bs m).length = k at *
      have hsp := split_last2 cs [] (by omega)
      rw [hcsl] at hsp
      have hflat : cs.flatten = (cs.take (k - 2)).flatten ++ cs.getD (k - 2) [] ++ cs.getD (k - 1) [] := by
        conv => lhs; rw [hsp]
        simp
      have hch := chunks_of_blocks C.bs hbs cs [] hall (by simpa using hbs)
      rw [List.append_nil] at hch
      have hcs12 : ∀ f : Cipher → Nat → Bytes → Bytes → Bytes,
          (f = cbcCs1Dec ∨ f = cbcCs2Dec) → f C w iv cs.flatten = m := by
        intro f hf
        rcases hf with rfl | rfl
        · simp only [cbcCs1Dec, hch.1, hch.2, List.length_nil, ne_eq, not_true_eq_false, if_false, if_true, cbcDec_eq, hinv, hmflat]
        · simp only [cbcCs2Dec, hch.1, hch.2, List.length_nil, ne_eq, not_true_eq_false, if_false, if_true, cbcDec_eq, hinv, hmflat]
      cases v
      · simp only [implCbcDec, arrange, ← hflat]; exact hcs12 _ (Or.inl rfl)
      · simp only [implCbcDec, arrange, if_true, ← hflat]; exact hcs12 _ (Or.inr rfl)
      · -- CS3: the last two blocks come exchanged
        simp only [implCbcDec, arrange]
        have hX : ∀ b ∈ cs.take (k - 2), b.length = C.bs := fun b hb => hall b (List.mem_of_mem_take hb)
        have hl1 : (cs.getD (k - 1) []).length = C.bs := hall _ (getD_mem _ _ _ (by omega))
        have hl2 : (cs.getD (k - 2) []).length = C.bs := hall _ (getD_mem _ _ _ (by omega))
        rw [List.append_assoc, cs3_dec_shape C hC w iv _ hX _ (by rw [List.length_append, hl1, hl2]; omega)
          (by rw [List.length_append, hl1, hl2]; omega), cs3_swap_tail C hC _ _ _ hl1 hl2]
        -- the three pieces are the CBC decryption of `cs`
        have hsp' : cs = cs.take (k - 2) ++ [cs.getD (k - 2) [], cs.getD (k - 1) []] := by
          conv => lhs; rw [hsp]
          simp
        have hdec : (Spec.cbcDec C iv cs).1 = chunks C.bs m := hinv
        rw [hsp', cbcDec_append] at hdec
        simp only [Spec.cbcDec] at hdec
        rw [← hmflat, ← hdec]
        simp
  · have htp : 0 < (chunksTail C.bs m).length := by omega
    rw [cbcSpec_partial v C hC iv m htp hk]
    rw [cbcEnc_snd C _ iv (by omega)]
    generalize hcs : (Spec.cbcEnc C iv (chunks C.bs m)).1 = cs at *
    have hX : ∀ b ∈ cs.dropLast, b.length = C.bs := fun b hb => hall b (List.dropLast_subset cs hb)
    have hckl : (cs.getLastD []).length = C.bs := by
      rw [← getD_last cs [] (by omega)]; exact hall _ (getD_mem _ _ _ (by omega))
    have hne : ¬ (chunksTail C.bs m).length = C.bs := by omega
    -- the CBC decryption of `cs = cs.dropLast ++ [C_k]`
    have hdec : (Spec.cbcDec C iv cs).1 = chunks C.bs m := hinv
    rw [split_dropLast cs [] (by omega), cbcDec_append] at hdec
    simp only [Spec.cbcDec] at hdec
    have hfinal : (Spec.cbcDec C iv cs.dropLast).1.flatten ++
        (xorB (C.dec (cs.getLastD [])) (Spec.cbcDec C iv cs.dropLast).2 ++ chunksTail C.bs m) = m := by
      rw [← List.append_assoc]
      have : (Spec.cbcDec C iv cs.dropLast).1.flatten ++ xorB (C.dec (cs.getLastD [])) (Spec.cbcDec C iv cs.dropLast).2
          = (chunks C.bs m).flatten := by rw [← hdec]; simp
      rw [this, hmsplit]
    have hlen3 : C.bs < (C.enc (xorB (chunksTail C.bs m ++ zeros (C.bs - (chunksTail C.bs m).length)) (cs.getLastD [])) ++
        (cs.getLastD []).take (chunksTail C.bs m).length).length ∧
        (C.enc (xorB (chunksTail C.bs m ++ zeros (C.bs - (chunksTail C.bs m).length)) (cs.getLastD [])) ++
        (cs.getLastD []).take (chunksTail C.bs m).length).length ≤ 2 * C.bs := by
      have hx : (xorB (chunksTail C.bs m ++ zeros (C.bs - (chunksTail C.bs m).length)) (cs.getLastD [])).length = C.bs := by
        rw [xorB_length, List.length_append, zeros_length, hckl]; omega
      rw [List.length_append, hC.enc_len _ hx, List.length_take, hckl]
      constructor <;> omega
    cases v
    · simp only [implCbcDec, arrange, List.append_assoc]
      rw [cs1_dec_shape C hC w iv _ hX _ _ hckl htp htl]; exact hfinal
    · simp only [implCbcDec, arrange, hne, if_false, List.append_assoc]
      rw [cs2_dec_shape C hC w iv _ hX _ _ hckl htp htl]; exact hfinal
    · simp only [implCbcDec, arrange, List.append_assoc]
      rw [cs3_dec_shape C hC w iv _ hX _ hlen3.1 hlen3.2, cs2_tail C hC _ _ _ hckl htl]; exact hfinal

end Thm.C05aux
