import BlockModes.Impl.MemCts
import BlockModes.Lemmas.Chunks
import BlockModes.Lemmas.BlocksCtx
/-
  Lemmas/MemLoop.lean — the memory-level block loops of `Impl/MemCts.lean` (`memLoop`, `memBlocks`):
  in both aliasing modes they never fail inside the buffer, write exactly the value-level outputs over the
  region they cover, and leave everything else (output bytes outside the region, the not-yet-read input) as it was.
-/
namespace Impl.MemCts
open Glue

/-! ### ranges -/

theorem setRng_length (l : Bytes) (off : Nat) (v : Bytes) (h : off + v.length ≤ l.length) :
    (setRng l off v).length = l.length := by simp [setRng]; omega

theorem drop_setRng_after (l : Bytes) (off : Nat) (v : Bytes) (o : Nat) (h : off + v.length ≤ l.length)
    (ho : off + v.length ≤ o) : (setRng l off v).drop o = l.drop o := by
  have h1 : (l.take off).length = off := by simp; omega
  obtain ⟨k, rfl⟩ : ∃ k, o = off + (v.length + k) := ⟨o - (off + v.length), by omega⟩
  simp only [setRng]
  rw [← List.drop_drop, List.drop_left' h1, ← List.drop_drop, List.drop_left' rfl, List.drop_drop]
  congr 1; omega

theorem take_setRng (l : Bytes) (off : Nat) (v : Bytes) (h : off ≤ l.length) :
    (setRng l off v).take (off + v.length) = l.take off ++ v := by
  have h1 : (l.take off).length = off := by simp; omega
  simp only [setRng]
  rw [← List.append_assoc, List.take_left' (by simp [h1])]

theorem take_setRng_before (l : Bytes) (off : Nat) (v : Bytes) (o : Nat) (h : off ≤ l.length) (ho : o ≤ off) :
    (setRng l off v).take o = l.take o := by
  simp only [setRng]
  rw [List.take_append_of_le_length (by simp; omega), List.take_take, Nat.min_eq_left ho]

theorem rng_length (l : Bytes) (off len : Nat) (h : off + len ≤ l.length) : (rng l off len).length = len := by
  simp [rng]; omega

theorem rng_add (l : Bytes) (off a b : Nat) : rng l off (a + b) = rng l off a ++ rng l (off + a) b := by
  simp only [rng]
  rw [List.take_add, List.drop_drop]

theorem rng_congr (l₁ l₂ : Bytes) (o off len : Nat) (h : l₁.drop o = l₂.drop o) (ho : o ≤ off) :
    rng l₁ off len = rng l₂ off len := by
  obtain ⟨k, rfl⟩ : ∃ k, off = o + k := ⟨off - o, by omega⟩
  simp only [rng]
  rw [← List.drop_drop, ← List.drop_drop, h]

theorem rng_zero_length (l : Bytes) : rng l 0 l.length = l := by simp [rng]

theorem rng_all (l : Bytes) (off : Nat) (len : Nat) (h : l.length ≤ off + len) : rng l off len = l.drop off := by
  simp only [rng]; exact List.take_of_length_le (by simp; omega)

/-! ### buffer primitives -/

/-- well-formed: `InOutBuf::new` guarantees equal lengths in the buffer-to-buffer form. -/
def WF (io : IOBuf) : Prop := io.alias = false → io.inp.length = io.out.length

theorem src_length (io : IOBuf) (h : WF io) : (src io).length = io.len := by
  unfold src IOBuf.len
  cases ha : io.alias with
  | true => simp
  | false => simp [h ha]

theorem getIn?_eq (io : IOBuf) (off len : Nat) (h : off + len ≤ io.len) :
    getIn? io off len = some (rng (src io) off len) := by
  simp [getIn?, h, IOBuf.getIn, src]

theorem getOut?_eq (io : IOBuf) (off len : Nat) (h : off + len ≤ io.len) :
    getOut? io off len = some (rng io.out off len) := by
  simp [getOut?, h, IOBuf.getOut]

theorem setOut?_eq (io : IOBuf) (off len : Nat) (v : Bytes) (h : off + len ≤ io.len) (hv : v.length = len) :
    setOut? io off len v = some (io.setOut off v) := by
  simp [setOut?, h, hv]

theorem setOut_len (io : IOBuf) (off : Nat) (v : Bytes) (h : off + v.length ≤ io.len) :
    (io.setOut off v).len = io.len := by
  simp only [IOBuf.len, IOBuf.setOut]; exact setRng_length _ _ _ h

theorem setOut_WF (io : IOBuf) (off : Nat) (v : Bytes) (h : off + v.length ≤ io.len) (hw : WF io) :
    WF (io.setOut off v) := by
  intro ha
  have := setOut_len io off v h
  simp only [IOBuf.len, IOBuf.setOut] at this
  simp only [IOBuf.setOut] at ha ⊢
  rw [this]; exact hw ha

/-- a write leaves the input view untouched from the end of the written range on. -/
theorem src_setOut_drop (io : IOBuf) (off : Nat) (v : Bytes) (o : Nat) (h : off + v.length ≤ io.len)
    (ho : off + v.length ≤ o) : (src (io.setOut off v)).drop o = (src io).drop o := by
  unfold src
  cases ha : io.alias with
  | true => simp only [IOBuf.setOut, ha, if_true]; exact drop_setRng_after _ _ _ _ h ho
  | false => simp [IOBuf.setOut, ha]

theorem sub?_eq (a b : Nat) (h : b ≤ a) : sub? a b = some (a - b) := by simp [sub?, h]

theorem slice?_eq (l : Bytes) (a b : Nat) (h1 : a ≤ b) (h2 : b ≤ l.length) :
    slice? l a b = some ((l.drop a).take (b - a)) := by simp [slice?, h1, h2]

theorem blockSet?_eq (dst : Bytes) (a b : Nat) (s : Bytes) (h1 : a ≤ b) (h2 : b ≤ dst.length) (h3 : s.length = b - a) :
    blockSet? dst a b s = some (setRng dst a s) := by simp [blockSet?, h1, h2, h3]

/-! ### the blocks a loop reads -/

/-- `n` consecutive units of `sz` bytes of `m` starting at byte `off` -/
def blocksAt (m : Bytes) (sz : Nat) : Nat → Nat → List Bytes
  | 0, _ => []
  | n + 1, off => rng m off sz :: blocksAt m sz n (off + sz)

theorem blocksAt_length (m : Bytes) (sz n off : Nat) : (blocksAt m sz n off).length = n := by
  induction n generalizing off with
  | zero => rfl
  | succ n ih => simp [blocksAt, ih]

theorem blocksAt_allLen (m : Bytes) (sz : Nat) : ∀ (n off : Nat), off + n * sz ≤ m.length →
    ∀ b ∈ blocksAt m sz n off, b.length = sz := by
  intro n
  induction n with
  | zero => intro off _ b hb; simp [blocksAt] at hb
  | succ n ih =>
    intro off h b hb
    rw [Nat.add_mul, Nat.one_mul] at h
    simp only [blocksAt, List.mem_cons] at hb
    rcases hb with rfl | hb
    · exact rng_length _ _ _ (by omega)
    · exact ih (off + sz) (by omega) b hb

theorem blocksAt_flatten (m : Bytes) (sz : Nat) : ∀ (n off : Nat),
    (blocksAt m sz n off).flatten = rng m off (n * sz) := by
  intro n
  induction n with
  | zero => intro off; simp [blocksAt, rng]
  | succ n ih =>
    intro off
    simp only [blocksAt, List.flatten_cons, ih]
    rw [Nat.add_mul, Nat.one_mul, Nat.add_comm (n * sz) sz, rng_add]

theorem blocksAt_congr (m₁ m₂ : Bytes) (sz o : Nat) (h : m₁.drop o = m₂.drop o) :
    ∀ (n off : Nat), o ≤ off → blocksAt m₁ sz n off = blocksAt m₂ sz n off := by
  intro n
  induction n with
  | zero => intro off _; rfl
  | succ n ih =>
    intro off ho
    simp only [blocksAt]
    rw [rng_congr m₁ m₂ o off sz h ho, ih (off + sz) (by omega)]

theorem blocksAt_add (m : Bytes) (sz : Nat) : ∀ (a b off : Nat),
    blocksAt m sz (a + b) off = blocksAt m sz a off ++ blocksAt m sz b (off + a * sz) := by
  intro a
  induction a with
  | zero => intro b off; simp [blocksAt]
  | succ a ih =>
    intro b off
    have e : off + sz + a * sz = off + (a + 1) * sz := by rw [Nat.add_mul, Nat.one_mul]; omega
    rw [show a + 1 + b = (a + b) + 1 by omega]
    simp only [blocksAt, List.cons_append, ih, e]

/-- the blocks of a whole buffer: `into_chunks().0` -/
theorem blocksAt_eq_chunks (m : Bytes) (bs : Nat) (hbs : 0 < bs) :
    blocksAt m bs (m.length / bs) 0 = chunks bs m := by
  have hk : 0 + (m.length / bs) * bs ≤ m.length := by
    have := Nat.div_mul_le_self m.length bs; omega
  have hall := blocksAt_allLen m bs _ 0 hk
  have hfl := blocksAt_flatten m bs (m.length / bs) 0
  have hm : m = (blocksAt m bs (m.length / bs) 0).flatten ++ m.drop (m.length / bs * bs) := by
    rw [hfl]; simp [rng]
  have htl : (m.drop (m.length / bs * bs)).length < bs := by
    simp only [List.length_drop]
    have := Nat.mod_lt m.length hbs
    have h2 := Nat.div_add_mod m.length bs
    have h3 : bs * (m.length / bs) = m.length / bs * bs := Nat.mul_comm _ _
    omega
  have := (chunks_of_blocks bs hbs _ _ hall htl).1
  rw [← hm] at this
  exact this.symm

/-- the blocks inside a range are the chunks of the range -/
theorem blocksAt_eq_chunks_rng (m : Bytes) (bs : Nat) (hbs : 0 < bs) (n off : Nat) (h : off + n * bs ≤ m.length) :
    chunks bs (rng m off (n * bs)) = blocksAt m bs n off := by
  have hall := blocksAt_allLen m bs n off h
  have hfl := blocksAt_flatten m bs n off
  have := (chunks_of_blocks bs hbs _ [] hall (by simpa using hbs)).1
  rw [List.append_nil, hfl] at this
  exact this

/-! ### `memLoop` -/

/-- a state invariant under which the step is length-preserving (e.g. "the chaining value has one block"). -/
def StepOk {σ : Type} (P : σ → Prop) (step : σ → Bytes → Bytes × σ) (sz : Nat) : Prop :=
  ∀ s b, P s → b.length = sz → (step s b).1.length = sz ∧ P (step s b).2

theorem foldBlocks_inv {σ : Type} (P : σ → Prop) (step : σ → Bytes → Bytes × σ) (sz : Nat)
    (hstep : StepOk P step sz) :
    ∀ (l : List Bytes) (s : σ), P s → (∀ b ∈ l, b.length = sz) →
      (∀ b ∈ (foldBlocks step s l).1, b.length = sz) ∧ P (foldBlocks step s l).2 := by
  intro l
  induction l with
  | nil => intro s hs _; exact ⟨by simp [foldBlocks], hs⟩
  | cons x xs ih =>
    intro s hs hl
    obtain ⟨h1, h2⟩ := hstep s x hs (hl x (by simp))
    obtain ⟨h3, h4⟩ := ih _ h2 (fun b hb => hl b (by simp [hb]))
    refine ⟨?_, h4⟩
    intro b hb
    simp only [foldBlocks, List.mem_cons] at hb
    rcases hb with rfl | hb
    · exact h1
    · exact h3 b hb

theorem foldBlocks_flatten_length {σ : Type} (P : σ → Prop) (step : σ → Bytes → Bytes × σ) (sz : Nat)
    (hstep : StepOk P step sz) (l : List Bytes) (s : σ) (hs : P s) (hl : ∀ b ∈ l, b.length = sz) :
    (foldBlocks step s l).1.flatten.length = l.length * sz := by
  rw [flatten_length_of_allLen sz _ (foldBlocks_inv P step sz hstep l s hs hl).1, foldBlocks_length]

theorem memLoop_spec {σ : Type} (P : σ → Prop) (step : σ → Bytes → Bytes × σ) (sz : Nat)
    (hstep : StepOk P step sz) :
    ∀ (n off : Nat) (s : σ) (io : IOBuf), P s → WF io → off + n * sz ≤ io.len →
      ∃ io', memLoop step sz n off s io = some (io', (foldBlocks step s (blocksAt (src io) sz n off)).2) ∧
        io'.out = io.out.take off ++ (foldBlocks step s (blocksAt (src io) sz n off)).1.flatten
                    ++ io.out.drop (off + n * sz) ∧
        io'.inp = io.inp ∧ io'.alias = io.alias := by
  intro n
  induction n with
  | zero =>
    intro off s io _ _ _
    exact ⟨io, rfl, by simp [blocksAt, foldBlocks], rfl, rfl⟩
  | succ n ih =>
    intro off s io hs hw hb
    rw [Nat.add_mul, Nat.one_mul] at hb
    have hsl := src_length io hw
    have hblk : (rng (src io) off sz).length = sz := rng_length _ _ _ (by omega)
    obtain ⟨hr1, hs1⟩ := hstep s _ hs hblk
    have hfit : off + (step s (rng (src io) off sz)).1.length ≤ io.len := by omega
    have hw1 := setOut_WF io off _ hfit hw
    have hl1 := setOut_len io off _ hfit
    obtain ⟨io', h1, h2, h3, h4⟩ := ih (off + sz) (step s (rng (src io) off sz)).2
      (io.setOut off (step s (rng (src io) off sz)).1) hs1 hw1 (by omega)
    have hsrc : blocksAt (src (io.setOut off (step s (rng (src io) off sz)).1)) sz n (off + sz)
        = blocksAt (src io) sz n (off + sz) :=
      blocksAt_congr _ _ sz (off + sz) (src_setOut_drop io off _ _ hfit (by omega)) n _ (Nat.le_refl _)
    rw [hsrc] at h1 h2
    refine ⟨io', ?_, ?_, by rw [h3]; rfl, by rw [h4]; rfl⟩
    · simp only [memLoop, getIn?_eq io off sz (by omega), setOut?_eq io off sz _ (by omega) hr1, blocksAt, foldBlocks]
      exact h1
    · rw [h2]
      simp only [blocksAt, foldBlocks, List.flatten_cons, IOBuf.setOut]
      have ht : (setRng io.out off (step s (rng (src io) off sz)).1).take (off + sz)
          = io.out.take off ++ (step s (rng (src io) off sz)).1 := by
        have := take_setRng io.out off (step s (rng (src io) off sz)).1 (by simp only [IOBuf.len] at hb; omega)
        rw [hr1] at this; exact this
      have hd : (setRng io.out off (step s (rng (src io) off sz)).1).drop (off + sz + n * sz)
          = io.out.drop (off + sz + n * sz) :=
        drop_setRng_after _ _ _ _ (by simp only [IOBuf.len] at hfit; exact hfit) (by omega)
      rw [ht, hd]
      have e : off + sz + n * sz = off + (n + 1) * sz := by rw [Nat.add_mul, Nat.one_mul]; omega
      rw [e]; simp only [List.append_assoc]

/-- after a loop the input view still shows the original bytes from the end of the covered region on. -/
theorem src_after (io io' : IOBuf) (off len : Nat) (R : Bytes) (hR : R.length = len) (hb : off + len ≤ io.len)
    (hout : io'.out = io.out.take off ++ R ++ io.out.drop (off + len))
    (hinp : io'.inp = io.inp) (hal : io'.alias = io.alias) (o : Nat) (ho : off + len ≤ o) :
    (src io').drop o = (src io).drop o := by
  unfold src
  rw [hal, hinp]
  cases io.alias with
  | false => rfl
  | true =>
    simp only [if_true, hout]
    have hl : (io.out.take off ++ R).length = off + len := by
      simp only [IOBuf.len] at hb; simp [hR]; omega
    obtain ⟨k, rfl⟩ : ∃ k, o = (off + len) + k := ⟨o - (off + len), by omega⟩
    rw [← List.drop_drop, List.drop_left' hl, List.drop_drop]

theorem len_after (io io' : IOBuf) (off len : Nat) (R : Bytes) (hR : R.length = len) (hb : off + len ≤ io.len)
    (hout : io'.out = io.out.take off ++ R ++ io.out.drop (off + len)) : io'.len = io.len := by
  simp only [IOBuf.len] at hb ⊢
  rw [hout]; simp [hR]; omega

theorem WF_after (io io' : IOBuf) (hl : io'.len = io.len) (hinp : io'.inp = io.inp) (hal : io'.alias = io.alias)
    (hw : WF io) : WF io' := by
  intro ha
  simp only [IOBuf.len] at hl
  rw [hinp, hl]; exact hw (by rw [← hal]; exact ha)

/-! ### `memBlocks`: chunks of `w` blocks through the parallel body, the rest block by block -/

/-- folding the flat parallel body over `n` chunks = folding the single-block step over `n·w` blocks. -/
theorem fold_parFlat {σ : Type} (w bs : Nat) (hbs : 0 < bs) (step : σ → Bytes → Bytes × σ)
    (par : σ → List Bytes → List Bytes × σ)
    (hpar : ∀ s chunk, chunk.length = w → par s chunk = foldBlocks step s chunk) (m : Bytes) :
    ∀ (n off : Nat) (s : σ), off + n * (w * bs) ≤ m.length →
      ((foldBlocks (parFlat bs par) s (blocksAt m (w * bs) n off)).1.flatten,
       (foldBlocks (parFlat bs par) s (blocksAt m (w * bs) n off)).2)
      = ((foldBlocks step s (blocksAt m bs (n * w) off)).1.flatten,
         (foldBlocks step s (blocksAt m bs (n * w) off)).2) := by
  intro n
  induction n with
  | zero => intro off s _; simp [blocksAt, foldBlocks]
  | succ n ih =>
    intro off s h
    rw [Nat.add_mul, Nat.one_mul] at h
    have hch : chunks bs (rng m off (w * bs)) = blocksAt m bs w off :=
      blocksAt_eq_chunks_rng m bs hbs w off (by omega)
    have hp : parFlat bs par s (rng m off (w * bs))
        = ((foldBlocks step s (blocksAt m bs w off)).1.flatten, (foldBlocks step s (blocksAt m bs w off)).2) := by
      simp only [parFlat, hch, hpar s _ (blocksAt_length m bs w off)]
    have hsplit : blocksAt m bs ((n + 1) * w) off = blocksAt m bs w off ++ blocksAt m bs (n * w) (off + w * bs) := by
      rw [show (n + 1) * w = w + n * w by rw [Nat.add_mul, Nat.one_mul]; omega, blocksAt_add]
    have := ih (off + w * bs) (foldBlocks step s (blocksAt m bs w off)).2 (by omega)
    simp only [Prod.mk.injEq] at this
    simp only [blocksAt, foldBlocks, hp, hsplit, foldBlocks_append, List.flatten_cons, List.flatten_append,
      this.1, this.2]

theorem memBlocks_spec {σ : Type} (P : σ → Prop) (w bs : Nat) (hbs : 0 < bs) (step : σ → Bytes → Bytes × σ)
    (par : σ → List Bytes → List Bytes × σ)
    (hstep : StepOk P step bs)
    (hpar : ∀ s chunk, chunk.length = w → par s chunk = foldBlocks step s chunk)
    (nb off : Nat) (s : σ) (io : IOBuf) (hs : P s) (hw : WF io) (hb : off + nb * bs ≤ io.len) :
    ∃ io', memBlocks w bs step par nb off s io = some (io', (foldBlocks step s (blocksAt (src io) bs nb off)).2) ∧
      io'.out = io.out.take off ++ (foldBlocks step s (blocksAt (src io) bs nb off)).1.flatten
                  ++ io.out.drop (off + nb * bs) ∧
      io'.inp = io.inp ∧ io'.alias = io.alias := by
  unfold memBlocks
  split
  · rename_i hw1
    -- nb = (nb / w) * w + nb % w
    have hdm : nb = nb / w * w + nb % w := by
      have := Nat.div_add_mod nb w; rw [Nat.mul_comm] at this; omega
    have hn1 : nb / w * (w * bs) = (nb / w * w) * bs := by rw [Nat.mul_assoc]
    have hle1 : (nb / w * w) * bs ≤ nb * bs := Nat.mul_le_mul_right _ (by omega)
    have hsum : nb / w * w * bs + nb % w * bs = nb * bs := by rw [← Nat.add_mul, ← hdm]
    have hsl := src_length io hw
    -- length preservation of the flat parallel body
    have hstepF : StepOk P (parFlat bs par) (w * bs) := by
      intro s b hs hbl
      have hrb : rng b 0 (w * bs) = b := by rw [← hbl]; exact rng_zero_length b
      have hch : chunks bs b = blocksAt b bs w 0 := by
        have := blocksAt_eq_chunks_rng b bs hbs w 0 (by omega)
        rw [hrb] at this; exact this
      simp only [parFlat, hch, hpar s _ (blocksAt_length b bs w 0)]
      have hal := blocksAt_allLen b bs w 0 (by omega)
      refine ⟨?_, (foldBlocks_inv P step bs hstep _ s hs hal).2⟩
      rw [foldBlocks_flatten_length P step bs hstep _ _ hs hal, blocksAt_length]
    obtain ⟨io1, h1, h2, h3, h4⟩ := memLoop_spec P (parFlat bs par) (w * bs) hstepF (nb / w) off s io hs hw (by omega)
    have hfp := fold_parFlat w bs hbs step par hpar (src io) (nb / w) off s (by omega)
    simp only [Prod.mk.injEq] at hfp
    rw [hfp.1] at h2
    rw [hfp.2] at h1
    have hall1 := blocksAt_allLen (src io) bs (nb / w * w) off (by omega)
    have hR1 := foldBlocks_flatten_length P step bs hstep _ s hs hall1
    have hs1 := (foldBlocks_inv P step bs hstep _ s hs hall1).2
    rw [blocksAt_length] at hR1
    have hl1 : io1.len = io.len := len_after io io1 off (nb / w * (w * bs)) _ (by rw [hR1, hn1]) (by omega) h2
    have hw1' : WF io1 := WF_after io io1 hl1 h3 h4 hw
    obtain ⟨io2, g1, g2, g3, g4⟩ := memLoop_spec P step bs hstep (nb % w) (off + nb / w * (w * bs))
      (foldBlocks step s (blocksAt (src io) bs (nb / w * w) off)).2 io1 hs1 hw1' (by rw [hl1, hn1]; omega)
    have hsrc1 : blocksAt (src io1) bs (nb % w) (off + nb / w * (w * bs))
        = blocksAt (src io) bs (nb % w) (off + nb / w * (w * bs)) :=
      blocksAt_congr _ _ bs _ (src_after io io1 off (nb / w * (w * bs)) _ (by rw [hR1, hn1]) (by omega) h2 h3 h4 _
        (Nat.le_refl _)) _ _ (Nat.le_refl _)
    rw [hsrc1] at g1 g2
    have hsplit : blocksAt (src io) bs nb off
        = blocksAt (src io) bs (nb / w * w) off ++ blocksAt (src io) bs (nb % w) (off + nb / w * (w * bs)) := by
      conv => lhs; rw [hdm]
      rw [blocksAt_add, hn1]
    refine ⟨io2, ?_, ?_, by rw [g3, h3], by rw [g4, h4]⟩
    · simp only [h1]
      rw [g1, hsplit, foldBlocks_append]
    · rw [g2, hsplit, foldBlocks_append, h2]
      simp only [List.flatten_append]
      have hlt : (io.out.take off ++ (foldBlocks step s (blocksAt (src io) bs (nb / w * w) off)).1.flatten).length
          = off + nb / w * (w * bs) := by
        simp only [IOBuf.len] at hb; simp [hR1, hn1]; omega
      rw [List.take_left' hlt]
      rw [← List.drop_drop, List.drop_left' hlt, List.drop_drop]
      have e2 : off + nb / w * (w * bs) + nb % w * bs = off + nb * bs := by
        rw [hn1]; omega
      rw [e2]; simp
  · exact memLoop_spec P step bs hstep nb off s io hs hw hb

end Impl.MemCts
