import BlockModes.Glue.Wrapper
import BlockModes.Impl.Ctr
import BlockModes.Impl.Belt
import BlockModes.Lemmas.Codec
/-
  Lemmas/Core.lean — keystream cores: the hand-written `gen_par_ks_blocks` bodies agree with repeated
  `gen_ks_block`, hence `write_keystream_blocks` / `apply_keystream_blocks` are independent of the
  backend's width and of how the blocks are split into calls.
-/
namespace Glue
variable {σ : Type}

theorem genSeq_add (K : Core σ) (a b : Nat) (s : σ) :
    genSeq K (a + b) s = ((genSeq K a s).1 ++ (genSeq K b (genSeq K a s).2).1, (genSeq K b (genSeq K a s).2).2) := by
  induction a generalizing s with
  | zero => simp [genSeq]
  | succ n ih =>
    have : n + 1 + b = (n + b) + 1 := by omega
    rw [this]
    simp only [genSeq, ih, List.cons_append]

theorem genSeq_length (K : Core σ) (n : Nat) (s : σ) : (genSeq K n s).1.length = n := by
  induction n generalizing s with
  | zero => rfl
  | succ n ih => simp [genSeq, ih]

theorem genChunks_eq_seq (K : Core σ) (pw : Nat) (hpw : 0 < pw)
    (hpar : ∀ s, K.genPar pw s = genSeq K pw s) :
    ∀ (fuel n : Nat) (s : σ), genChunks K pw fuel n s = genSeq K n s := by
  intro fuel
  induction fuel with
  | zero => intro n s; rfl
  | succ f ih =>
    intro n s
    unfold genChunks
    split
    · rfl
    · rename_i h
      have : n = pw + (n - pw) := by omega
      conv => rhs; rw [this, genSeq_add]
      simp only [hpar, ih]

/-- **keystream batching lemma**: whatever the backend width, `n` blocks are `n` single generations. -/
theorem genBlocks_eq_seq (K : Core σ) (w : Nat)
    (hpar : ∀ pw s, 1 < pw → K.genPar pw s = genSeq K pw s) (n : Nat) (s : σ) :
    genBlocks K w n s = genSeq K n s := by
  unfold genBlocks
  simp only
  split
  · rename_i h
    exact genChunks_eq_seq K _ (by omega) (fun s => hpar _ s h) n n s
  · rfl

end Glue

namespace Impl.Ctr
open Glue Spec

theorem genPar_eq_seq (C : Cipher) (f : Flavor) (n : Nat) (cn : St) :
    genParKsBlocks C f n cn = genSeq (core C f) n cn := by
  induction n generalizing cn with
  | zero => rfl
  | succ n ih =>
    have := ih (nextBlock f cn).2
    simp only [genParKsBlocks] at this
    simp only [genParKsBlocks, nextBlocks, List.map_cons, genSeq, core, genKsBlock]
    simp only [core] at this
    rw [← this]

end Impl.Ctr

namespace Impl.Belt
open Glue

theorem genPar_eq_seq (C : Cipher) (n : Nat) (st : St) :
    genParKsBlocks C n st = genSeq (core C) n st := by
  induction n generalizing st with
  | zero => cases st; rfl
  | succ n ih =>
    have := ih { st with s := (st.s + 1) % M }
    simp only [genParKsBlocks] at this
    simp only [genParKsBlocks, parCtrs, List.map_cons, genSeq, core, genKsBlock]
    simp only [core] at this
    rw [← this]

end Impl.Belt

namespace Impl.OfbCore
open Glue

theorem genPar_eq_seq (C : Cipher) (n : Nat) (iv : Bytes) :
    genSeqDefault C n iv = genSeq (core C) n iv := by
  induction n generalizing iv with
  | zero => rfl
  | succ n ih => simp only [genSeqDefault, genSeq, ih]; rfl

end Impl.OfbCore

