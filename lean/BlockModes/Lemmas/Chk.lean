import BlockModes.Impl.Chk
import BlockModes.Lemmas.CfbBuf
import BlockModes.Lemmas.MemLoop
/-
  Lemmas/Chk.lean — the checked mirrors of `Impl/Chk.lean` never fail on the states and inputs the public API can
  reach, and then agree with the unchecked mirrors that every other theorem is about.
-/
namespace Impl.Chk
open Impl.MemCts (sub? slice? sub?_eq slice?_eq)

/-! ### buffered CFB -/

/-- a reachable state of `BufEncryptor` / `BufDecryptor`: one block of state, cursor inside the block. -/
def BufInv (C : Cipher) (s : CfbBuf.St) : Prop := s.iv.length = C.bs ∧ s.pos < C.bs

theorem bufInv_of_rel (C : Cipher) (s : CfbBuf.St) (a : Spec.RS) (h : CfbBuf.Rel C s a) : BufInv C s := by
  refine ⟨?_, h.pos_lt⟩
  have := h.pos_lt
  rw [h.iv_eq, List.length_append, List.length_drop, h.ks_len, ← h.pos_eq]; omega

theorem bufProcess?_eq (dec : Bool) (C : Cipher) (s : CfbBuf.St) (hs : BufInv C s) (data : Bytes) :
    bufProcess? dec C s data = some (if dec then CfbBuf.decrypt C s data else CfbBuf.encrypt C s data) := by
  obtain ⟨hiv, hpos⟩ := hs
  unfold bufProcess?
  simp only [sub?_eq _ _ (Nat.le_of_lt hpos)]
  by_cases hn : data.length < C.bs - s.pos
  · simp only [hn, if_true]
    rw [slice?_eq _ _ _ (by omega) (by omega), Nat.add_sub_cancel_left]
    cases dec <;> simp [CfbBuf.encrypt, CfbBuf.decrypt, hn, rng]
  · have hb : C.bs ≠ 0 := by omega
    simp only [hn, if_false, splitAt?, show C.bs - s.pos ≤ data.length by omega, if_true]
    rw [slice?_eq _ _ _ (by omega) (Nat.le_refl _)]
    have htk : (s.iv.drop s.pos).take (s.iv.length - s.pos) = s.iv.drop s.pos :=
      List.take_of_length_le (by rw [List.length_drop]; exact Nat.le_refl _)
    simp only [htk, hb, if_false]
    cases dec <;> simp [CfbBuf.encrypt, CfbBuf.decrypt, hn]

/-- a cursor beyond the block (not a valid exported state) does panic: the model can express what C13 excludes. -/
theorem bufProcess?_bad_pos (dec : Bool) (C : Cipher) (s : CfbBuf.St) (h : C.bs < s.pos) (data : Bytes) :
    bufProcess? dec C s data = none := by
  unfold bufProcess?
  simp [sub?, show ¬ s.pos ≤ C.bs by omega]

/-! ### CFB-8 register shift -/

theorem shiftLoop?_eq : ∀ (k : Nat) (A : Bytes) (x : UInt8) (rest : Bytes), k ≤ rest.length →
    shiftLoop? k A.length (A ++ x :: rest) = some (A ++ rest.take k ++ (x :: rest).drop k) := by
  intro k
  induction k with
  | zero => intro A x rest _; simp [shiftLoop?]
  | succ k ih =>
    intro A x rest h
    match rest, h with
    | y :: rest', h =>
      have hk : k ≤ rest'.length := by simpa using h
      have hget : (A ++ x :: y :: rest')[A.length + 1]? = some y := by
        rw [List.getElem?_append_right (by omega)]; simp
      have hset : (A ++ x :: y :: rest').set A.length y = (A ++ [y]) ++ y :: rest' := by
        rw [List.set_append_right _ _ (Nat.le_refl _)]; simp
      have hlt : A.length < (A ++ x :: y :: rest').length := by simp
      simp only [shiftLoop?, hget, hlt, if_true, hset]
      have := ih (A ++ [y]) y rest' hk
      simp only [List.length_append, List.length_cons, List.length_nil, Nat.zero_add] at this
      rw [this]
      simp

/-- the index loop of `encrypt_block`/`decrypt_block` is the functional shift, for every register length ≥ 1. -/
theorem shift?_eq (iv : Bytes) (r : UInt8) (h : 1 ≤ iv.length) : shift? iv r = some (Impl.Cfb8.shift iv r) := by
  match iv, h with
  | x :: rest, _ =>
    unfold shift?
    simp only [List.length_cons, sub?_eq (rest.length + 1) 1 (by omega), Nat.add_sub_cancel]
    have := shiftLoop?_eq rest.length [] x rest (Nat.le_refl _)
    simp only [List.length_nil, List.nil_append, List.take_length] at this
    rw [this]
    have hd : ((x :: rest).drop rest.length).length = 1 := by simp
    obtain ⟨l, hl⟩ : ∃ l, (x :: rest).drop rest.length = [l] := by
      match hq : (x :: rest).drop rest.length with
      | [l] => exact ⟨l, rfl⟩
      | [] => rw [hq] at hd; simp at hd
      | _ :: _ :: _ => rw [hq] at hd; simp at hd
    simp only [hl, List.length_append, List.length_cons, List.length_nil, Nat.zero_add, Nat.lt_add_one, if_true,
      Impl.Cfb8.shift, List.drop_succ_cons, List.drop_zero]
    rw [List.set_append_right _ _ (Nat.le_refl _)]
    simp

theorem cfb8Enc?_eq (C : Cipher) (hC : C.Valid) (iv blk : Bytes) (hiv : iv.length = C.bs) (hb : blk.length = 1) :
    cfb8Enc? C iv blk = some (Impl.Cfb8.encBlock C iv blk) := by
  have hbs := hC.bs_pos
  have ht : (C.enc iv).length = C.bs := hC.enc_len iv hiv
  unfold cfb8Enc?
  simp only [slice?_eq (C.enc iv) 0 1 (Nat.zero_le _) (by omega), List.drop_zero, Nat.sub_zero]
  have hol : (xorB blk ((C.enc iv).take 1)).length = 1 := by simp [hb, ht]; omega
  obtain ⟨o, ho⟩ : ∃ o, xorB blk ((C.enc iv).take 1) = [o] := by
    match h : xorB blk ((C.enc iv).take 1) with
    | [o] => exact ⟨o, rfl⟩
    | [] => rw [h] at hol; simp at hol
    | _ :: _ :: _ => rw [h] at hol; simp at hol
  simp only [ho, List.getElem?_cons_zero, shift?_eq iv o (by omega), Option.map_some, Impl.Cfb8.encBlock, List.headD_cons]

theorem cfb8Dec?_eq (C : Cipher) (hC : C.Valid) (iv blk : Bytes) (hiv : iv.length = C.bs) (hb : blk.length = 1) :
    cfb8Dec? C iv blk = some (Impl.Cfb8.decBlock C iv blk) := by
  have hbs := hC.bs_pos
  have ht : (C.enc iv).length = C.bs := hC.enc_len iv hiv
  obtain ⟨b, rfl⟩ : ∃ b, blk = [b] := by
    match blk, hb with
    | [b], _ => exact ⟨b, rfl⟩
  unfold cfb8Dec?
  simp only [List.getElem?_cons_zero, slice?_eq (C.enc iv) 0 1 (Nat.zero_le _) (by omega), List.drop_zero, Nat.sub_zero,
    shift?_eq iv b (by omega), Option.map_some, Impl.Cfb8.decBlock, List.headD_cons]

/-! ### IGE IV split -/

theorem igeInit?_eq (C : Cipher) (iv : Bytes) (h : iv.length = 2 * C.bs) : igeInit? C iv = some (Impl.Ige.init C iv) := by
  unfold igeInit?
  rw [slice?_eq _ 0 C.bs (Nat.zero_le _) (by omega), slice?_eq _ C.bs iv.length (by omega) (Nat.le_refl _)]
  have h1 : ((iv.drop 0).take (C.bs - 0)).length = C.bs := by simp; omega
  have h2 : ((iv.drop C.bs).take (iv.length - C.bs)).length = C.bs := by simp; omega
  simp only [h1, h2, and_self, if_true, Impl.Ige.init]
  congr 1
  have : (iv.drop C.bs).take (iv.length - C.bs) = iv.drop C.bs := List.take_of_length_le (by simp)
  simp [this]

/-- and exactly then: an IV of any other length is not accepted by the split (the typed API cannot even express it;
    the slice constructors reject it with an error — `C13.slice_init_iff`). -/
theorem igeInit?_none (C : Cipher) (iv : Bytes) (h : iv.length ≠ 2 * C.bs) : igeInit? C iv = none := by
  unfold igeInit? slice?
  by_cases h1 : C.bs ≤ iv.length
  · simp only [Nat.zero_le, h1, and_self, if_true, Nat.le_refl, List.drop_zero, Nat.sub_zero]
    have : ¬ ((iv.take C.bs).length = C.bs ∧ ((iv.drop C.bs).take (iv.length - C.bs)).length = C.bs) := by
      simp; omega
    rw [if_neg this]
  · simp [h1]

/-! ### counters -/

theorem ctrRemaining?_eq (f : Spec.Flavor) (cn : Ctr.St) (h : cn.ctr < 2 ^ f.w) :
    ctrRemaining? f cn = some (Ctr.remaining f cn) := by
  simp [ctrRemaining?, sub?_eq _ _ (show cn.ctr ≤ 2 ^ f.w - 1 by omega), Ctr.remaining]

theorem beltRemaining?_eq (st : Belt.St) : beltRemaining? st = some (Belt.remaining st) := by
  have hM : 0 < Belt.M := by simp [Belt.M]
  have := Nat.mod_lt (st.s + Belt.M - st.sInit) hM
  simp [beltRemaining?, sub?_eq _ _ (show (st.s + Belt.M - st.sInit) % Belt.M ≤ Belt.M - 1 by omega), Belt.remaining]

theorem ctrChunk?_eq (block : Bytes) (cs i : Nat) (h : cs * i + cs ≤ block.length) :
    ctrChunk? block cs i = some (rng block (cs * i) cs) := by
  unfold ctrChunk?
  rw [slice?_eq _ _ _ (by omega) (Nat.le_refl _)]
  have : (block.drop (cs * i)).take (block.length - cs * i) = block.drop (cs * i) :=
    List.take_of_length_le (by simp)
  simp only [this]
  rw [slice?_eq _ 0 cs (Nat.zero_le _) (by simp; omega)]
  simp [rng]

/-! ### seeking and position reporting -/

theorem currentPos?_eq {σ : Type} (K : Glue.Core σ) (s : Glue.Wr σ) (snMax : Nat) (h : 1 ≤ s.pos) :
    currentPos? K s snMax = some (s.currentPos K snMax) := by
  simp [currentPos?, show s.pos ≠ 0 by omega]

theorem seek?_eq {σ : Type} (K : Glue.Core σ) (s : Glue.Wr σ) (p : Nat) (hbs : 0 < K.bs) :
    seek? K s p = some (s.seek K p) := by
  have := Nat.mod_lt p hbs
  simp [seek?, show K.bs ≠ 0 by omega, this]

end Impl.Chk
