import BlockModes.Lemmas.MemCts
/-
  Lemmas/MemCtsApi.lean — the twelve public CTS calls (`encrypt`, `decrypt`, `encrypt_b2b`, `decrypt_b2b` on the six
  types) at memory level: closure × (in place | buffer-to-buffer), with the `len < bs` gate and `InOutBuf::new`.
-/
namespace Impl.MemCts
open Glue Impl.Cts

/-- **every closure, any aliasing mode**: on a well-formed buffer of at least one block the closure does not
    panic and leaves the value-level result in the output view. -/
theorem op_ok (o : Op) (C : Cipher) (hC : C.Valid) (w : Nat) (iv : Bytes) (hiv : iv.length = C.bs)
    (io : IOBuf) (hw : WF io) (hge : C.bs ≤ io.len) :
    ∃ io', o.mem C w iv io = some io' ∧ io'.out = o.val C w iv (src io) := by
  have hbs := hC.bs_pos
  cases o
  · exact cbcCs1Enc_ok C hC w iv hiv io hw hge
  · exact cbcCs1Dec_ok C hC w iv hiv io hw hge
  · exact cbcCs2Enc_ok C hC w iv hiv io hw hge
  · exact cbcCs2Dec_ok C hC w iv hiv io hw hge
  · exact cbcCs3Enc_ok C hC w iv hiv io hw hge
  · exact cbcCs3Dec_ok C hC w iv hiv io hw hge
  · exact ecbCs1Enc_ok C hC w io hw hge
  · exact ecbCs1Dec_ok C hC w io hw hge
  · obtain ⟨io', h1, h2⟩ := ecbCs2_ok C.enc C.bs hbs hC.enc_len w io hw hge
    refine ⟨io', h1, ?_⟩
    rw [h2]; simp only [Op.val, Cts.ecbCs2Enc, Thm.C05aux.ecbEnc_map, Cts.ecbSteal]
  · obtain ⟨io', h1, h2⟩ := ecbCs2_ok C.dec C.bs hbs hC.dec_len w io hw hge
    refine ⟨io', h1, ?_⟩
    rw [h2]; simp only [Op.val, Cts.ecbCs2Dec, Thm.C05aux.ecbDec_map, Cts.ecbUnsteal]
  · obtain ⟨io', h1, h2⟩ := ecbCs3_ok C.enc C.bs hbs hC.enc_len w io hw hge
    refine ⟨io', h1, ?_⟩
    rw [h2]; simp only [Op.val, Cts.ecbCs3Enc, Thm.C05aux.ecbEnc_map, Cts.ecbSteal, Bool.false_eq_true, if_false]
  · obtain ⟨io', h1, h2⟩ := ecbCs3_ok C.dec C.bs hbs hC.dec_len w io hw hge
    refine ⟨io', h1, ?_⟩
    rw [h2]; simp only [Op.val, Cts.ecbCs3Dec, Thm.C05aux.ecbDec_map, Cts.ecbUnsteal, Bool.false_eq_true, if_false]

theorem WF_inplace (m : Bytes) : WF (IOBuf.inplace m) := by intro h; simp [IOBuf.inplace] at h
theorem WF_b2b (m g : Bytes) (h : m.length = g.length) : WF (IOBuf.b2b m g) := by intro _; exact h
@[simp] theorem src_inplace (m : Bytes) : src (IOBuf.inplace m) = m := rfl
@[simp] theorem src_b2b (m g : Bytes) : src (IOBuf.b2b m g) = m := rfl
@[simp] theorem len_inplace (m : Bytes) : (IOBuf.inplace m).len = m.length := rfl
@[simp] theorem len_b2b (m g : Bytes) : (IOBuf.b2b m g).len = g.length := rfl

/-- the in-place call: `Err` with the buffer untouched iff shorter than a block, else `Ok` with the value-level
    result; never a panic. -/
theorem inplaceCall_eq (o : Op) (C : Cipher) (hC : C.Valid) (w : Nat) (iv : Bytes) (hiv : iv.length = C.bs) (buf : Bytes) :
    inplaceCall C.bs (o.mem C w iv) buf =
      if buf.length < C.bs then .err buf else .ok (o.val C w iv buf) := by
  unfold inplaceCall gatedIO
  simp only [len_inplace]
  by_cases h : buf.length < C.bs
  · simp only [h, if_true]; rfl
  · obtain ⟨io', h1, h2⟩ := op_ok o C hC w iv hiv (IOBuf.inplace buf) (WF_inplace buf) (by simp; omega)
    simp only [h, if_false, h1, h2, src_inplace]

/-- the buffer-to-buffer call: `Err` with the output untouched iff (lengths differ or shorter than a block), else
    `Ok` with the value-level result, whatever the output buffer held; never a panic. -/
theorem b2bCall_eq (o : Op) (C : Cipher) (hC : C.Valid) (w : Nat) (iv : Bytes) (hiv : iv.length = C.bs) (inp out : Bytes) :
    b2bCall C.bs (o.mem C w iv) inp out =
      if inp.length ≠ out.length ∨ inp.length < C.bs then .err out else .ok (o.val C w iv inp) := by
  unfold b2bCall gatedIO
  by_cases h1 : inp.length = out.length
  · simp only [h1, ne_eq, not_true_eq_false, if_false, false_or, len_b2b]
    by_cases h : out.length < C.bs
    · simp only [h, if_true]; rfl
    · obtain ⟨io', g1, g2⟩ := op_ok o C hC w iv hiv (IOBuf.b2b inp out) (WF_b2b inp out h1) (by simp; omega)
      simp only [h, if_false, g1, g2, src_b2b]
  · simp [h1]

end Impl.MemCts
