import BlockModes.Spec.CfbBytes
import BlockModes.Impl.CfbBuf
import BlockModes.Lemmas.Xor
import BlockModes.Lemmas.Chunks
import BlockModes.Spec.Block
/-
  Lemmas/CfbBuf.lean — `BufEncryptor::encrypt` / `BufDecryptor::decrypt` (three phases, `(iv, pos)` state)
  refine the byte-at-a-time reference machine under the abstraction
  `iv = cur ++ E(ch).drop |cur|`, `pos = |cur| < bs`.
-/
namespace Spec

theorem RS.run_append (dec : Bool) (C : Cipher) (a b : Bytes) (s : RS) :
    RS.run dec C s (a ++ b) =
      ((RS.run dec C s a).1 ++ (RS.run dec C (RS.run dec C s a).2 b).1, (RS.run dec C (RS.run dec C s a).2 b).2) := by
  induction a generalizing s with
  | nil => simp [RS.run]
  | cons p ps ih => simp [RS.run, ih]

theorem RS.run_length (dec : Bool) (C : Cipher) (a : Bytes) (s : RS) : (RS.run dec C s a).1.length = a.length := by
  induction a generalizing s with
  | nil => rfl
  | cons p ps ih => simp [RS.run, ih]

/-- what is fed back into the register: the ciphertext (output when encrypting, input when decrypting). -/
def fedB (dec : Bool) (data out : Bytes) : Bytes := if dec then data else out

theorem fedB_length (dec : Bool) (data out : Bytes) (h : out.length = data.length) : (fedB dec data out).length = data.length := by
  unfold fedB; split <;> simp [h]

/-- fewer bytes than remain in the block: no boundary is crossed. -/
theorem RS.run_partial (dec : Bool) (C : Cipher) : ∀ (data : Bytes) (s : RS),
    s.cur.length + data.length < C.bs → (C.enc s.ch).length = C.bs →
    RS.run dec C s data =
      (xorB data ((C.enc s.ch).drop s.cur.length),
       { s with cur := s.cur ++ fedB dec data (xorB data ((C.enc s.ch).drop s.cur.length)) }) := by
  intro data
  induction data with
  | nil => intro s _ _; simp [RS.run, fedB]
  | cons p ps ih =>
    intro s h hk
    simp only [List.length_cons] at h
    have hlt : s.cur.length < (C.enc s.ch).length := by omega
    have hd : (C.enc s.ch).drop s.cur.length = (C.enc s.ch)[s.cur.length] :: (C.enc s.ch).drop (s.cur.length + 1) := by
      rw [List.drop_eq_getElem_cons hlt]
    have hg : (C.enc s.ch).getD s.cur.length 0 = (C.enc s.ch)[s.cur.length] := by
      simp [List.getD, List.getElem?_eq_getElem hlt]
    have hne : ∀ y : UInt8, ¬ (s.cur ++ [y]).length = C.bs := by intro y; simp; omega
    simp only [RS.run, RS.step, hg, hne, if_false]
    have := ih { s with cur := s.cur ++ [if dec then p else p ^^^ (C.enc s.ch)[s.cur.length]] } (by simp; omega) hk
    simp only [List.length_append, List.length_cons, List.length_nil] at this
    rw [this, hd, xorB_cons]
    cases dec <;> simp [fedB]

/-- exactly the bytes that remain in the block: the block completes and becomes the chaining value. -/
theorem RS.run_complete (dec : Bool) (C : Cipher) (data : Bytes) (s : RS)
    (h : s.cur.length + data.length = C.bs) (hd : 0 < data.length) (hk : (C.enc s.ch).length = C.bs) :
    RS.run dec C s data =
      (xorB data ((C.enc s.ch).drop s.cur.length),
       { ch := s.cur ++ fedB dec data (xorB data ((C.enc s.ch).drop s.cur.length)), cur := [] }) := by
  obtain ⟨init, last, rfl⟩ : ∃ init last, data = init ++ [last] := by
    cases hdl : data.reverse with
    | nil => simp at hdl; subst hdl; simp at hd
    | cons l r => exact ⟨r.reverse, l, by have := congrArg List.reverse hdl; simpa using this⟩
  simp only [List.length_append, List.length_cons, List.length_nil] at h
  rw [RS.run_append, RS.run_partial dec C init s (by omega) hk]
  simp only [RS.run, RS.step]
  have hil : (xorB init ((C.enc s.ch).drop s.cur.length)).length = init.length := by simp; omega
  have hfl : (fedB dec init (xorB init ((C.enc s.ch).drop s.cur.length))).length = init.length := fedB_length _ _ _ hil
  have hidx : (s.cur ++ fedB dec init (xorB init ((C.enc s.ch).drop s.cur.length))).length = s.cur.length + init.length := by
    simp [hfl]
  have hlt : s.cur.length + init.length < (C.enc s.ch).length := by omega
  have hg : (C.enc s.ch).getD (s.cur.length + init.length) 0 = (C.enc s.ch)[s.cur.length + init.length] := by
    simp [List.getD, List.getElem?_eq_getElem hlt]
  rw [hidx, hg]
  have hfin : ∀ y : UInt8, (s.cur ++ fedB dec init (xorB init ((C.enc s.ch).drop s.cur.length)) ++ [y]).length = C.bs := by
    intro y; simp [hfl]; omega
  simp only [hfin, if_true]
  have hsplit : (C.enc s.ch).drop s.cur.length
      = ((C.enc s.ch).drop s.cur.length).take init.length ++
        ((C.enc s.ch)[s.cur.length + init.length] :: (C.enc s.ch).drop (s.cur.length + init.length + 1)) := by
    rw [← List.drop_eq_getElem_cons hlt, ← List.drop_drop, List.take_append_drop]
  have hx : xorB (init ++ [last]) ((C.enc s.ch).drop s.cur.length)
      = xorB init ((C.enc s.ch).drop s.cur.length) ++ [last ^^^ (C.enc s.ch)[s.cur.length + init.length]] := by
    conv => lhs; rw [hsplit]
    rw [xorB_append _ _ _ _ (by simp; omega), xorB_cons]
    simp only [xorB_nil_left]
    congr 1
    exact xorB_take_right init _
  rw [hx]
  cases dec <;> simp [fedB]

end Spec

namespace Impl.CfbBuf
open Spec

/-- the two `encrypt`/`decrypt` bodies as one function of the direction. -/
def loop (dec : Bool) (C : Cipher) : Bytes → List Bytes → Bytes × Bytes
  | iv, [] => ([], iv)
  | iv, c :: cs =>
    let t := xorB c iv
    let r := loop dec C (C.enc (fedB dec c t)) cs
    (t ++ r.1, r.2)

def process (dec : Bool) (C : Cipher) (s : St) (data : Bytes) : Bytes × St :=
  let bs := C.bs
  let n := data.length
  if n < bs - s.pos then
    let t := xorB data (rng s.iv s.pos n)
    (t, { iv := setRng s.iv s.pos (fedB dec data t), pos := s.pos + n })
  else
    let left := data.take (bs - s.pos)
    let right := data.drop (bs - s.pos)
    let tl := xorB left (s.iv.drop s.pos)
    let iv1 := C.enc (s.iv.take s.pos ++ fedB dec left tl)
    let r := loop dec C iv1 (chunks bs right)
    let rem := chunksTail bs right
    let tr := xorB rem r.2
    (tl ++ (r.1 ++ tr), { iv := fedB dec rem tr ++ r.2.drop rem.length, pos := rem.length })

theorem encLoop_eq (C : Cipher) (cs : List Bytes) (iv : Bytes) : encLoop C iv cs = loop false C iv cs := by
  induction cs generalizing iv with
  | nil => rfl
  | cons c cs ih => simp [encLoop, loop, fedB, ih]

theorem decLoop_eq (C : Cipher) (cs : List Bytes) (iv : Bytes) : decLoop C iv cs = loop true C iv cs := by
  induction cs generalizing iv with
  | nil => rfl
  | cons c cs ih => simp [decLoop, loop, fedB, ih]

theorem encrypt_eq_process (C : Cipher) (s : St) (data : Bytes) : encrypt C s data = process false C s data := by
  simp [encrypt, process, fedB, encLoop_eq]

theorem decrypt_eq_process (C : Cipher) (s : St) (data : Bytes) : decrypt C s data = process true C s data := by
  simp [decrypt, process, fedB, decLoop_eq]

/-- abstraction relation between the implementation state and the reference machine. -/
structure Rel (C : Cipher) (s : St) (a : RS) : Prop where
  ks_len : (C.enc a.ch).length = C.bs
  pos_eq : s.pos = a.cur.length
  pos_lt : s.pos < C.bs
  iv_eq : s.iv = a.cur ++ (C.enc a.ch).drop a.cur.length

theorem loop_spec (dec : Bool) (C : Cipher) (hC : C.Valid) :
    ∀ (n : Nat) (m ch : Bytes), m.length = n → ch.length = C.bs →
    ∃ ch', ch'.length = C.bs ∧
      loop dec C (C.enc ch) (chunks C.bs m) = ((RS.run dec C { ch := ch, cur := [] } (m.take (n / C.bs * C.bs))).1, C.enc ch') ∧
      (RS.run dec C { ch := ch, cur := [] } (m.take (n / C.bs * C.bs))).2 = { ch := ch', cur := [] } := by
  have hbs := hC.bs_pos
  intro n
  induction n using Nat.strongRecOn with
  | _ n ih =>
    intro m ch hm hch
    have hk : (C.enc ch).length = C.bs := hC.enc_len ch hch
    by_cases hge : C.bs ≤ m.length
    · -- at least one whole block
      have hsplit : m = m.take C.bs ++ m.drop C.bs := (List.take_append_drop _ _).symm
      have hb : (m.take C.bs).length = C.bs := by simp; omega
      have hchunks : chunks C.bs m = m.take C.bs :: chunks C.bs (m.drop C.bs) := by
        have h1 := chunks_flatten_tail C.bs hbs (m.drop C.bs)
        have h2 := chunks_of_blocks C.bs hbs (m.take C.bs :: chunks C.bs (m.drop C.bs)) (chunksTail C.bs (m.drop C.bs))
          (by intro b hb'; simp only [List.mem_cons] at hb'; rcases hb' with rfl | hb'
              · exact hb
              · exact chunks_allLen C.bs hbs _ b hb')
          (chunksTail_lt C.bs hbs _)
        simp only [List.flatten_cons, List.append_assoc, h1, List.take_append_drop] at h2
        exact h2.1
      have hdiv : n / C.bs = (n - C.bs) / C.bs + 1 := by
        have : n = (n - C.bs) + C.bs := by omega
        conv => lhs; rw [this]
        rw [Nat.add_div_right _ hbs]
      have hlen : (m.drop C.bs).length = n - C.bs := by simp [hm]
      have hblock := RS.run_complete dec C (m.take C.bs) { ch := ch, cur := [] } (by simpa using hb) (by omega) hk
      simp only [List.length_nil, List.drop_zero, List.nil_append] at hblock
      have hfl : (fedB dec (m.take C.bs) (xorB (m.take C.bs) (C.enc ch))).length = C.bs := by
        rw [fedB_length _ _ _ (by simp [hb, hk])]; exact hb
      obtain ⟨ch', hk', h1, h2⟩ := ih (n - C.bs) (by omega) (m.drop C.bs) _ hlen hfl
      refine ⟨ch', hk', ?_, ?_⟩
      · rw [hchunks]
        simp only [loop, h1]
        rw [hdiv, Nat.add_mul, Nat.one_mul, Nat.add_comm _ C.bs, List.take_add, RS.run_append, hblock]
      · rw [hdiv, Nat.add_mul, Nat.one_mul, Nat.add_comm _ C.bs, List.take_add, RS.run_append, hblock]
        exact h2
    · have hlt : m.length < C.bs := by omega
      have h0 : n / C.bs = 0 := by apply Nat.div_eq_of_lt; omega
      have hch0 : chunks C.bs m = [] := by
        have := chunks_length C.bs hbs m
        rw [hm, h0] at this
        exact List.eq_nil_of_length_eq_zero this
      exact ⟨ch, hch, by simp [h0, hch0, loop, RS.run], by simp [h0, RS.run]⟩

/-- **one call of `encrypt` / `decrypt` on any data equals that many reference steps** and
    re-establishes the relation. -/
theorem process_refines (dec : Bool) (C : Cipher) (hC : C.Valid)
    (s : St) (a : RS) (data : Bytes) (hR : Rel C s a) (hch : a.ch.length = C.bs) :
    (process dec C s data).1 = (RS.run dec C a data).1 ∧
    Rel C (process dec C s data).2 (RS.run dec C a data).2 ∧ (RS.run dec C a data).2.ch.length = C.bs := by
  have hbs := hC.bs_pos
  obtain ⟨hk, hp, hlt, hiv⟩ := hR
  have hdrop : s.iv.drop s.pos = (C.enc a.ch).drop a.cur.length := by
    rw [hiv, hp, List.drop_left]
  have htake : s.iv.take s.pos = a.cur := by
    rw [hiv, hp, List.take_left]
  unfold process
  simp only
  split
  · -- stays inside the current block
    rename_i hn
    have hpart := RS.run_partial dec C data a (by omega) hk
    rw [hpart]
    have hx : xorB data (rng s.iv s.pos data.length) = xorB data ((C.enc a.ch).drop a.cur.length) := by
      simp only [rng]; rw [hdrop]; exact xorB_take_right data _
    have hxl : (xorB data ((C.enc a.ch).drop a.cur.length)).length = data.length := by simp; omega
    have hfl := fedB_length dec data _ hxl
    refine ⟨hx, ⟨hk, ?_, ?_, ?_⟩, hch⟩
    · simp [hp, hfl]
    · simp only; omega
    · simp only [setRng]
      rw [hx, htake, hfl, List.append_assoc]
      congr 2
      rw [hiv, hp, List.drop_append]
      simp only [List.drop_drop, Nat.add_sub_cancel_left]
      rw [List.drop_of_length_le (by omega), List.nil_append, List.length_append, hfl]
  · rename_i hn
    have hll : (data.take (C.bs - s.pos)).length = C.bs - s.pos := by simp; omega
    have hcomp := RS.run_complete dec C (data.take (C.bs - s.pos)) a (by rw [hll, ← hp]; omega) (by rw [hll]; omega) hk
    have hdata : data = data.take (C.bs - s.pos) ++ data.drop (C.bs - s.pos) := by simp
    generalize hRt : data.drop (C.bs - s.pos) = right at *
    have hxl : (xorB (data.take (C.bs - s.pos)) ((C.enc a.ch).drop a.cur.length)).length = C.bs - s.pos := by
      simp [hll, hk]; omega
    have hfl : (fedB dec (data.take (C.bs - s.pos)) (xorB (data.take (C.bs - s.pos)) ((C.enc a.ch).drop a.cur.length))).length
        = C.bs - s.pos := by rw [fedB_length _ _ _ (by rw [hxl, hll]), hll]
    have hnew : (a.cur ++ fedB dec (data.take (C.bs - s.pos)) (xorB (data.take (C.bs - s.pos)) ((C.enc a.ch).drop a.cur.length))).length = C.bs := by
      simp [hfl]; omega
    obtain ⟨ch', hk', hl1, hl2⟩ := loop_spec dec C hC right.length right _ rfl hnew
    have hke' : (C.enc ch').length = C.bs := hC.enc_len ch' hk'
    have hcf := chunks_flatten_eq_take C.bs hbs right
    have hct := chunksTail_eq_drop C.bs hbs right
    have hrsplit : right = right.take (right.length / C.bs * C.bs) ++ right.drop (right.length / C.bs * C.bs) := by simp
    have hdm := Nat.div_add_mod right.length C.bs
    have hml := Nat.mod_lt right.length hbs
    have hreml : (right.drop (right.length / C.bs * C.bs)).length = right.length % C.bs := by
      simp; rw [Nat.mul_comm]; omega
    have hpartial := RS.run_partial dec C (right.drop (right.length / C.bs * C.bs)) { ch := ch', cur := [] }
      (by simp only [List.length_nil]; rw [hreml]; omega) hke'
    simp only [List.length_nil, List.drop_zero, List.nil_append] at hpartial
    have hrun : RS.run dec C a data =
        (xorB (data.take (C.bs - s.pos)) ((C.enc a.ch).drop a.cur.length) ++
           ((RS.run dec C { ch := a.cur ++ fedB dec (data.take (C.bs - s.pos)) (xorB (data.take (C.bs - s.pos)) ((C.enc a.ch).drop a.cur.length)), cur := [] }
              (right.take (right.length / C.bs * C.bs))).1 ++ xorB (right.drop (right.length / C.bs * C.bs)) (C.enc ch')),
         { ch := ch', cur := fedB dec (right.drop (right.length / C.bs * C.bs)) (xorB (right.drop (right.length / C.bs * C.bs)) (C.enc ch')) }) := by
      conv => lhs; rw [hdata, RS.run_append, hcomp]
      simp only
      conv => lhs; rw [hrsplit, RS.run_append, hl2, hpartial]
    rw [hrun, hdrop, htake, hl1, hct]
    have hxr : (xorB (right.drop (right.length / C.bs * C.bs)) (C.enc ch')).length = (right.drop (right.length / C.bs * C.bs)).length := by
      rw [xorB_length, hke', hreml]; exact Nat.min_eq_left (Nat.le_of_lt hml)
    have hfr := fedB_length dec (right.drop (right.length / C.bs * C.bs)) _ hxr
    refine ⟨rfl, ⟨hke', ?_, ?_, ?_⟩, hk'⟩
    · simp only; rw [hfr]
    · simp only; rw [hreml]; exact hml
    · simp only; rw [hfr]

end Impl.CfbBuf

namespace Spec

/-- the reference machine on whole blocks is the block recurrence (encryption). -/
theorem RS.run_blocks_enc (C : Cipher) (hC : C.Valid) : ∀ (blocks : List Bytes) (ch : Bytes), ch.length = C.bs →
    (∀ b ∈ blocks, b.length = C.bs) →
    RS.run false C { ch := ch, cur := [] } blocks.flatten
      = ((cfbEnc C ch blocks).1.flatten, { ch := (cfbEnc C ch blocks).2, cur := [] }) := by
  intro blocks
  induction blocks with
  | nil => intro ch _ _; rfl
  | cons b bs ih =>
    intro ch hch hb
    have hb1 : b.length = C.bs := hb b (by simp)
    have hk : (C.enc ch).length = C.bs := hC.enc_len ch hch
    have hblock := RS.run_complete false C b { ch := ch, cur := [] } (by simpa using hb1) (by have := hC.bs_pos; omega) hk
    simp only [List.length_nil, List.drop_zero, List.nil_append, fedB] at hblock
    have hcl : (xorB b (C.enc ch)).length = C.bs := by simp [hb1, hk]
    simp only [List.flatten_cons, RS.run_append, hblock, cfbEnc]
    have := ih (xorB b (C.enc ch)) hcl (fun x hx => hb x (by simp [hx]))
    simp only [fedB, Bool.false_eq_true, if_false] at this ⊢
    rw [this]

theorem RS.run_blocks_dec (C : Cipher) (hC : C.Valid) : ∀ (blocks : List Bytes) (ch : Bytes), ch.length = C.bs →
    (∀ b ∈ blocks, b.length = C.bs) →
    RS.run true C { ch := ch, cur := [] } blocks.flatten
      = ((cfbDec C ch blocks).1.flatten, { ch := (cfbDec C ch blocks).2, cur := [] }) := by
  intro blocks
  induction blocks with
  | nil => intro ch _ _; rfl
  | cons b bs ih =>
    intro ch hch hb
    have hb1 : b.length = C.bs := hb b (by simp)
    have hk : (C.enc ch).length = C.bs := hC.enc_len ch hch
    have hblock := RS.run_complete true C b { ch := ch, cur := [] } (by simpa using hb1) (by have := hC.bs_pos; omega) hk
    simp only [List.length_nil, List.drop_zero, List.nil_append, fedB] at hblock
    simp only [List.flatten_cons, RS.run_append, hblock, cfbDec]
    have := ih b hb1 (fun x hx => hb x (by simp [hx]))
    simp only [fedB, if_true] at this ⊢
    rw [this]

end Spec
