import BlockModes.Basic
/-
  Lemmas/Chunks.lean — `into_chunks`: characterisation of `chunks` / `chunksTail`.
-/

theorem chunksAux_spec {α : Type} (n : Nat) (hn : 0 < n) :
    ∀ (fuel : Nat) (l : List α), l.length ≤ fuel →
      (chunksAux n fuel l).1.flatten ++ (chunksAux n fuel l).2 = l ∧
      (∀ b ∈ (chunksAux n fuel l).1, b.length = n) ∧
      (chunksAux n fuel l).2.length < n ∧
      (chunksAux n fuel l).1.length = l.length / n := by
  intro fuel
  induction fuel with
  | zero =>
    intro l hl
    have : l = [] := by cases l with
      | nil => rfl
      | cons a b => simp at hl
    subst this
    simp [chunksAux, hn]
  | succ f ih =>
    intro l hl
    unfold chunksAux
    split
    · rename_i h
      have hlt : l.length < n := by omega
      refine ⟨by simp, by simp, hlt, ?_⟩
      simp [Nat.div_eq_of_lt hlt]
    · rename_i h
      have hge : n ≤ l.length := by omega
      have hdl : (l.drop n).length ≤ f := by simp; omega
      obtain ⟨h1, h2, h3, h4⟩ := ih (l.drop n) hdl
      refine ⟨?_, ?_, h3, ?_⟩
      · simp only [List.flatten_cons, List.append_assoc, h1, List.take_append_drop]
      · intro b hb
        simp only [List.mem_cons] at hb
        rcases hb with rfl | hb
        · simp; omega
        · exact h2 b hb
      · simp only [List.length_cons, h4, List.length_drop]
        have : l.length = (l.length - n) + n := by omega
        conv => rhs; rw [this, Nat.add_div_right _ hn]

theorem chunks_flatten_tail {α : Type} (n : Nat) (hn : 0 < n) (l : List α) :
    (chunks n l).flatten ++ chunksTail n l = l := (chunksAux_spec n hn l.length l (Nat.le_refl _)).1

theorem chunks_allLen {α : Type} (n : Nat) (hn : 0 < n) (l : List α) :
    ∀ b ∈ chunks n l, b.length = n := (chunksAux_spec n hn l.length l (Nat.le_refl _)).2.1

theorem chunksTail_lt {α : Type} (n : Nat) (hn : 0 < n) (l : List α) :
    (chunksTail n l).length < n := (chunksAux_spec n hn l.length l (Nat.le_refl _)).2.2.1

theorem chunks_length {α : Type} (n : Nat) (hn : 0 < n) (l : List α) :
    (chunks n l).length = l.length / n := (chunksAux_spec n hn l.length l (Nat.le_refl _)).2.2.2

theorem flatten_length_of_allLen {α : Type} (n : Nat) (L : List (List α)) (h : ∀ b ∈ L, b.length = n) :
    L.flatten.length = L.length * n := by
  induction L with
  | nil => simp
  | cons x xs ih =>
    have hx : x.length = n := h x (by simp)
    have hxs : ∀ b ∈ xs, b.length = n := fun b hb => h b (by simp [hb])
    simp only [List.flatten_cons, List.length_append, List.length_cons, ih hxs, hx]
    rw [Nat.add_mul, Nat.one_mul, Nat.add_comm]

theorem chunks_flatten_length {α : Type} (n : Nat) (hn : 0 < n) (l : List α) :
    (chunks n l).flatten.length = l.length / n * n := by
  rw [flatten_length_of_allLen n _ (chunks_allLen n hn l), chunks_length n hn]

theorem chunksTail_length {α : Type} (n : Nat) (hn : 0 < n) (l : List α) :
    (chunksTail n l).length = l.length % n := by
  have h := congrArg List.length (chunks_flatten_tail n hn l)
  simp only [List.length_append, chunks_flatten_length n hn] at h
  have := Nat.div_add_mod l.length n
  have hc : n * (l.length / n) = l.length / n * n := Nat.mul_comm _ _
  omega

theorem chunks_flatten_eq_take {α : Type} (n : Nat) (hn : 0 < n) (l : List α) :
    (chunks n l).flatten = l.take (l.length / n * n) := by
  have h := chunks_flatten_tail n hn l
  have hl := chunks_flatten_length n hn l
  have := List.take_left' (l₂ := chunksTail n l) hl
  rw [h] at this
  exact this.symm

theorem chunksTail_eq_drop {α : Type} (n : Nat) (hn : 0 < n) (l : List α) :
    chunksTail n l = l.drop (l.length / n * n) := by
  have h := chunks_flatten_tail n hn l
  have hl := chunks_flatten_length n hn l
  have := List.drop_left' (l₂ := chunksTail n l) hl
  rw [h] at this
  exact this.symm

/-- blocks of equal size followed by a short tail are recovered exactly. -/
theorem chunksAux_of_blocks {α : Type} (n : Nat) (hn : 0 < n) :
    ∀ (L : List (List α)) (t : List α) (fuel : Nat), (∀ b ∈ L, b.length = n) → t.length < n →
      (L.flatten ++ t).length ≤ fuel → chunksAux n fuel (L.flatten ++ t) = (L, t) := by
  intro L
  induction L with
  | nil =>
    intro t fuel _ ht hf
    cases fuel with
    | zero => simp [chunksAux]
    | succ f => simp [chunksAux, ht]
  | cons x xs ih =>
    intro t fuel hL ht hf
    have hx : x.length = n := hL x (by simp)
    have hxs : ∀ b ∈ xs, b.length = n := fun b hb => hL b (by simp [hb])
    cases fuel with
    | zero => simp only [List.flatten_cons, List.length_append] at hf; omega
    | succ f =>
      have hlen : ¬ (n = 0 ∨ ((x :: xs).flatten ++ t).length < n) := by simp; omega
      have hf' : (xs.flatten ++ t).length ≤ f := by
        simp only [List.flatten_cons, List.length_append, List.length_cons] at hf ⊢; omega
      unfold chunksAux
      rw [if_neg hlen]
      simp only [List.flatten_cons, List.append_assoc]
      rw [List.take_left' hx, List.drop_left' hx, ih t f hxs ht hf']

theorem chunks_of_blocks {α : Type} (n : Nat) (hn : 0 < n) (L : List (List α)) (t : List α)
    (hL : ∀ b ∈ L, b.length = n) (ht : t.length < n) :
    chunks n (L.flatten ++ t) = L ∧ chunksTail n (L.flatten ++ t) = t := by
  have := chunksAux_of_blocks n hn L t (L.flatten ++ t).length hL ht (Nat.le_refl _)
  unfold chunks chunksTail intoChunks
  rw [this]
  exact ⟨rfl, rfl⟩
