import BlockModes.Impl.Ctr
import BlockModes.Lemmas.Codec
/-
  Lemmas/CtrLayout.lean — the word-array representation of `CtrNonce{32,64,128}` reproduces the
  documented counter-block layout: for an IV of `k ≥ 1` words, after any number of `next_block` calls
  the current block is the IV with only its counter field replaced by `(field + i) mod 2^w`.
-/
namespace Impl.Ctr
open Spec

/-- word `i` of the IV: `block[CS*i..][..CS]` -/
def word (cs : Nat) (iv : Bytes) (i : Nat) : Bytes := rng iv (cs * i) cs

theorem word_length (cs k : Nat) (iv : Bytes) (hiv : iv.length = k * cs) (i : Nat) (hi : i < k) :
    (word cs iv i).length = cs := by
  simp only [word, rng, List.length_take, List.length_drop, hiv]
  have h1 : cs * i + cs ≤ k * cs := by
    have : (i + 1) * cs ≤ k * cs := Nat.mul_le_mul_right cs hi
    rw [Nat.add_mul, Nat.one_mul, Nat.mul_comm i cs] at this
    exact this
  omega

/-- the first `j` words concatenated are the first `j*cs` bytes. -/
theorem words_flatten (cs : Nat) (iv : Bytes) (j : Nat) :
    ((List.range j).map (word cs iv)).flatten = iv.take (j * cs) := by
  induction j with
  | zero => simp
  | succ j ih =>
    rw [List.range_succ, List.map_append, List.flatten_append, ih]
    simp only [List.map_cons, List.map_nil, List.flatten_cons, List.flatten_nil, List.append_nil, word, rng]
    rw [Nat.add_mul, Nat.one_mul, List.take_add, Nat.mul_comm cs j]

theorem two_pow_w (f : Flavor) (hw : f.w = 8 * f.cs) : 2 ^ f.w = 256 ^ f.cs := by
  rw [hw, Nat.pow_mul]

/-- what `current_block` computes, word by word. -/
theorem currentBlock_eq (f : Flavor) (c : Nat) (ws : List Nat) :
    currentBlock f { ctr := c, nonce := ws } =
      ((List.range ws.length).map fun i =>
        if i = ctrIdx f ws.length then
          (if f.be then toBE f.cs ((c + ws.getD i 0) % 2 ^ f.w) else toLE f.cs ((c + ws.getD i 0) % 2 ^ f.w))
        else toLE f.cs (ws.getD i 0)).flatten := by
  unfold currentBlock
  simp only
  congr 1
  apply List.ext_getElem
  · simp
  · intro i h1 h2
    simp only [List.length_mapIdx] at h1
    simp [List.getElem_mapIdx, List.getD_eq_getElem?_getD, List.getElem?_eq_getElem h1]

theorem fromNonce_nonce (f : Flavor) (iv : Bytes) :
    (fromNonce f iv).nonce = (List.range (iv.length / f.cs)).map fun i =>
      if i = ctrIdx f (iv.length / f.cs) then
        (if f.be then fromBE (word f.cs iv i) else fromLE (word f.cs iv i))
      else fromLE (word f.cs iv i) := rfl

/-- **layout, big-endian flavours.** -/
theorem layout_be (f : Flavor) (hbe : f.be = true) (hw : f.w = 8 * f.cs) (hcs : 0 < f.cs)
    (k : Nat) (hk : 0 < k) (iv : Bytes) (hiv : iv.length = k * f.cs) (c : Nat) :
    currentBlock f { fromNonce f iv with ctr := c } = ctrBlock f iv c := by
  have hdiv : iv.length / f.cs = k := by rw [hiv, Nat.mul_div_cancel _ hcs]
  rw [currentBlock_eq]
  simp only [fromNonce_nonce, hdiv, List.length_map, List.length_range, ctrIdx, hbe, if_true]
  obtain ⟨j, rfl⟩ : ∃ j, k = j + 1 := ⟨k - 1, by omega⟩
  simp only [Nat.add_sub_cancel]
  rw [List.range_succ, List.map_append, List.flatten_append]
  -- the nonce words pass through
  have hpre : ((List.range j).map fun i =>
      if i = j then toBE f.cs ((c + ((List.range j ++ [j]).map fun i =>
          if i = j then fromBE (word f.cs iv i) else fromLE (word f.cs iv i)).getD i 0) % 2 ^ f.w)
      else toLE f.cs (((List.range j ++ [j]).map fun i =>
          if i = j then fromBE (word f.cs iv i) else fromLE (word f.cs iv i)).getD i 0))
      = (List.range j).map (word f.cs iv) := by
    apply List.map_congr_left
    intro i hi
    have hij : i < j := List.mem_range.mp hi
    have hne : i ≠ j := by omega
    simp only [hne, if_false]
    have hget : ((List.range j ++ [j]).map fun i =>
        if i = j then fromBE (word f.cs iv i) else fromLE (word f.cs iv i)).getD i 0 = fromLE (word f.cs iv i) := by
      rw [List.getD_eq_getElem?_getD, List.getElem?_map, List.getElem?_append_left (by simpa using hij),
        List.getElem?_range hij]
      simp [hne]
    rw [hget]
    have hl := word_length f.cs (j + 1) iv hiv i (by omega)
    have := toLE_fromLE (word f.cs iv i)
    rw [hl] at this
    exact this
  rw [hpre, words_flatten]
  -- the counter word
  have hget : ((List.range j ++ [j]).map fun i =>
      if i = j then fromBE (word f.cs iv i) else fromLE (word f.cs iv i)).getD j 0 = fromBE (word f.cs iv j) := by
    rw [List.getD_eq_getElem?_getD, List.getElem?_map, List.getElem?_append_right (by simp)]
    simp
  simp only [List.map_cons, List.map_nil, if_true, List.flatten_cons, List.flatten_nil, List.append_nil, hget]
  unfold ctrBlock ctrField
  simp only [hbe, if_true]
  have hlen : iv.length - f.cs = j * f.cs := by rw [hiv, Nat.add_mul, Nat.one_mul]; omega
  have hword : word f.cs iv j = iv.drop (j * f.cs) := by
    simp only [word, rng, Nat.mul_comm f.cs j]
    apply List.take_of_length_le
    simp [hiv, Nat.add_mul]
  rw [hlen, hword, Nat.add_comm c]

/-- **layout, little-endian flavours.** -/
theorem layout_le (f : Flavor) (hle : f.be = false) (hw : f.w = 8 * f.cs) (hcs : 0 < f.cs)
    (k : Nat) (hk : 0 < k) (iv : Bytes) (hiv : iv.length = k * f.cs) (c : Nat) :
    currentBlock f { fromNonce f iv with ctr := c } = ctrBlock f iv c := by
  have hdiv : iv.length / f.cs = k := by rw [hiv, Nat.mul_div_cancel _ hcs]
  rw [currentBlock_eq]
  simp only [fromNonce_nonce, hdiv, List.length_map, List.length_range, ctrIdx, hle, Bool.false_eq_true, if_false]
  -- every word is decoded little-endian here
  have hnonce : ((List.range k).map fun i => if i = 0 then fromLE (word f.cs iv i) else fromLE (word f.cs iv i))
      = (List.range k).map fun i => fromLE (word f.cs iv i) := by
    apply List.map_congr_left; intro i _; split <;> rfl
  rw [hnonce]
  have hgetD : ∀ i, i < k → ((List.range k).map fun i => fromLE (word f.cs iv i)).getD i 0 = fromLE (word f.cs iv i) := by
    intro i hi
    rw [List.getD_eq_getElem?_getD, List.getElem?_map, List.getElem?_range hi]; rfl
  obtain ⟨j, rfl⟩ : ∃ j, k = j + 1 := ⟨k - 1, by omega⟩
  generalize ((List.range (j + 1)).map fun i => fromLE (word f.cs iv i)) = N at hgetD ⊢
  rw [List.range_succ_eq_map, List.map_cons, List.flatten_cons]
  simp only [if_true, hgetD 0 (by omega), List.map_map]
  have htail : (List.map ((fun i =>
      if i = 0 then toLE f.cs ((c + N.getD i 0) % 2 ^ f.w)
      else toLE f.cs (N.getD i 0)) ∘ Nat.succ) (List.range j))
      = (List.range j).map (word f.cs (iv.drop f.cs)) := by
    apply List.map_congr_left
    intro i hi
    have hij : i < j := List.mem_range.mp hi
    simp only [Function.comp, Nat.succ_ne_zero, if_false]
    rw [hgetD (i + 1) (by omega)]
    have hl := word_length f.cs (j + 1) iv hiv (i + 1) (by omega)
    have := toLE_fromLE (word f.cs iv (i + 1))
    rw [hl] at this
    rw [this]
    simp only [word, rng, List.drop_drop]
    congr 2
    rw [Nat.mul_add, Nat.mul_one, Nat.add_comm]
  rw [htail, words_flatten]
  unfold ctrBlock ctrField
  simp only [hle, Bool.false_eq_true, if_false]
  have hw0 : word f.cs iv 0 = iv.take f.cs := by simp [word, rng]
  rw [hw0, Nat.add_comm c]
  congr 1
  apply List.take_of_length_le
  simp [hiv, Nat.add_mul]

theorem layout (f : Flavor) (hw : f.w = 8 * f.cs) (hcs : 0 < f.cs)
    (k : Nat) (hk : 0 < k) (iv : Bytes) (hiv : iv.length = k * f.cs) (c : Nat) :
    currentBlock f { fromNonce f iv with ctr := c } = ctrBlock f iv c := by
  cases hbe : f.be with
  | true => exact layout_be f hbe hw hcs k hk iv hiv c
  | false => exact layout_le f hbe hw hcs k hk iv hiv c

end Impl.Ctr
