import BlockModes.Lemmas.CtsEcb
/-
  Lemmas/CtsDec.lean — the six CTS *decrypt* closures equal the NIST un-stealing formulation `Spec.cbcCsDec` /
  `Spec.ecbCsDec` on **arbitrary** input of at least one block (not only on ciphertext an encryptor produced):
  decryption is computed from the ciphertext alone.
-/
namespace Thm.C05aux
open Impl Impl.Cts Glue Spec

/-- a buffer longer than one block is `j` whole blocks followed by `bs + d` bytes, `0 < d ≤ bs`;
    NIST block count `n = j + 2`, final length `d`. -/
theorem dec_split (bs : Nat) (hbs : 0 < bs) (c : Bytes) (h : bs < c.length) :
    ∃ (X : List Bytes) (Y : Bytes), c = X.flatten ++ Y ∧ (∀ b ∈ X, b.length = bs) ∧ bs < Y.length ∧ Y.length ≤ 2 * bs ∧
      ctsN bs c.length = X.length + 2 ∧ ctsD bs c.length = Y.length - bs := by
  have hlen := msg_len bs hbs c
  have htl := chunksTail_lt bs hbs c
  have hall := chunks_allLen bs hbs c
  have hsplit := chunks_flatten_tail bs hbs c
  have hk : 1 ≤ (chunks bs c).length := by
    rw [chunks_length bs hbs]; exact (Nat.one_le_div_iff hbs).mpr (by omega)
  by_cases ht : (chunksTail bs c).length = 0
  · -- aligned: k ≥ 2 blocks; X = first k-2, Y = last two
    have hk2 : 2 ≤ (chunks bs c).length := by
      apply Classical.byContradiction; intro hc
      have : (chunks bs c).length = 1 := by omega
      rw [this, ht] at hlen; omega
    have htnil : chunksTail bs c = [] := List.eq_nil_of_length_eq_zero ht
    rw [htnil, List.append_nil] at hsplit
    generalize hL : chunks bs c = L at *
    have hsp := split_last2 L [] hk2
    have hl1 : (L.getD (L.length - 1) []).length = bs := hall _ (getD_mem _ _ _ (by omega))
    have hl2 : (L.getD (L.length - 2) []).length = bs := hall _ (getD_mem _ _ _ (by omega))
    refine ⟨L.take (L.length - 2), L.getD (L.length - 2) [] ++ L.getD (L.length - 1) [], ?_, ?_, ?_, ?_, ?_, ?_⟩
    · rw [← hsplit]; conv => lhs; rw [hsp]
      simp
    · intro b hb; exact hall b (List.mem_of_mem_take hb)
    · rw [List.length_append, hl1, hl2]; omega
    · rw [List.length_append, hl1, hl2]; omega
    · have hml : c.length = L.length * bs := by rw [hlen, ht]; simp
      rw [hml, (cts_aligned bs L.length hbs (by omega)).1, List.length_take]; omega
    · have hml : c.length = L.length * bs := by rw [hlen, ht]; simp
      rw [hml, (cts_aligned bs L.length hbs (by omega)).2, List.length_append, hl1, hl2]; omega
  · -- partial: X = first k-1 blocks, Y = last block ++ tail
    have htp : 0 < (chunksTail bs c).length := by omega
    generalize hL : chunks bs c = L at *
    generalize hT : chunksTail bs c = T at *
    have hlast : (L.getLastD []).length = bs := by
      rw [← getD_last L [] (by omega)]; exact hall _ (getD_mem _ _ _ (by omega))
    refine ⟨L.dropLast, L.getLastD [] ++ T, ?_, ?_, ?_, ?_, ?_, ?_⟩
    · rw [← hsplit]; conv => lhs; rw [split_dropLast L [] (by omega)]
      simp
    · intro b hb; exact hall b (List.dropLast_subset L hb)
    · rw [List.length_append, hlast]; omega
    · rw [List.length_append, hlast]; omega
    · rw [hlen, (cts_partial bs L.length T.length hbs htp htl).1, List.length_dropLast]; omega
    · rw [hlen, (cts_partial bs L.length T.length hbs htp htl).2, List.length_append, hlast]; omega

/-- `Spec.cbcCsDec` on `X ‖ Y`. -/
theorem cbcSpecDec_shape (v : CsVariant) (C : Cipher) (iv : Bytes) (X : List Bytes) (hX : ∀ b ∈ X, b.length = C.bs)
    (Y : Bytes) (hn : ctsN C.bs (X.flatten ++ Y).length = X.length + 2) (hbs : 0 < C.bs) :
    Spec.cbcCsDec v C iv (X.flatten ++ Y) =
      (let d := ctsD C.bs (X.flatten ++ Y).length
       let r := unarrange v C.bs d Y
       let x := C.dec r.2
       (Spec.cbcDec C iv (X ++ [r.1 ++ x.drop d])).1.flatten ++ xorB (x.take d) r.1) := by
  obtain ⟨htk, hdr⟩ := layout_take_drop C.bs X hX Y
  unfold Spec.cbcCsDec
  simp only [hn]
  have h1 : ¬ X.length + 2 ≤ 1 := by omega
  simp only [h1, if_false, Nat.add_sub_cancel, htk, hdr]
  have hcx := (chunks_of_blocks C.bs hbs X [] hX (by simpa using hbs)).1
  rw [List.append_nil] at hcx
  rw [hcx]

/-- the un-stealing step of CS1 in the NIST formulation. -/
theorem cs1_tail_spec (C : Cipher) (hC : C.Valid) (ivp Y : Bytes) (hY1 : C.bs < Y.length) (hY2 : Y.length < 2 * C.bs) :
    cbcCs1DecTail C ivp Y =
      (let d := Y.length - C.bs
       let x := C.dec (Y.drop d)
       xorB (C.dec (Y.take d ++ x.drop d)) ivp ++ xorB (x.take d) (Y.take d)) := by
  have hdl : (Y.drop (Y.length - C.bs)).length = C.bs := by rw [List.length_drop]; omega
  have hxl : (C.dec (Y.drop (Y.length - C.bs))).length = C.bs := hC.dec_len _ hdl
  unfold cbcCs1DecTail
  simp only
  rw [List.take_take, Nat.min_eq_left (by omega)]
  congr 1
  rw [xorB_take, List.take_left' (by rw [List.length_take]; omega)]

/-- the un-stealing step of CS2/CS3 in the NIST formulation. -/
theorem cs2_tail_spec (C : Cipher) (hC : C.Valid) (ivp Y : Bytes) (hY1 : C.bs < Y.length) (hY2 : Y.length ≤ 2 * C.bs) :
    cbcCs2DecTail C ivp Y =
      (let d := Y.length - C.bs
       let x := C.dec (Y.take C.bs)
       xorB (C.dec (Y.drop C.bs ++ x.drop d)) ivp ++ xorB (x.take d) (Y.drop C.bs)) := by
  have htl : (Y.take C.bs).length = C.bs := by rw [List.length_take]; omega
  have hxl : (C.dec (Y.take C.bs)).length = C.bs := hC.dec_len _ htl
  have hdl : (Y.drop C.bs).length = Y.length - C.bs := by rw [List.length_drop]
  unfold cbcCs2DecTail
  simp only
  have e : (Y.drop C.bs).take (Y.length - C.bs) = Y.drop C.bs := List.take_of_length_le (by rw [hdl]; exact Nat.le_refl _)
  rw [e]
  congr 1
  rw [xorB_take, List.take_left' hdl]

/-- CS1 / CS2 decrypt on `X ‖ Y` with a partial final block. -/
theorem cs12_dec_gen (C : Cipher) (hC : C.Valid) (w : Nat) (iv : Bytes) (X : List Bytes) (hX : ∀ b ∈ X, b.length = C.bs)
    (Y : Bytes) (hY1 : C.bs < Y.length) (hY2 : Y.length < 2 * C.bs) :
    cbcCs1Dec C w iv (X.flatten ++ Y) = (Spec.cbcDec C iv X).1.flatten ++ cbcCs1DecTail C (Spec.cbcDec C iv X).2 Y ∧
    cbcCs2Dec C w iv (X.flatten ++ Y) = (Spec.cbcDec C iv X).1.flatten ++ cbcCs2DecTail C (Spec.cbcDec C iv X).2 Y := by
  have hbs := hC.bs_pos
  obtain ⟨hch, htl⟩ := layout_chunks C.bs hbs X hX Y (by omega) (by omega)
  obtain ⟨_, hdr⟩ := layout_take_drop C.bs X hX Y
  have hfl := flatten_length_of_allLen C.bs X hX
  have htl' : (Y.drop C.bs).length = Y.length - C.bs := by simp
  have hne : (Y.drop C.bs).length ≠ 0 := by omega
  have hlen1 : (X ++ [Y.take C.bs]).length - 1 = X.length := by simp
  have hmid : (X.flatten ++ Y).length - (C.bs + (Y.drop C.bs).length) = X.length * C.bs := by
    rw [List.length_append, hfl, htl']; omega
  constructor
  · unfold cbcCs1Dec
    simp only [hch, htl, hne, ne_eq, not_false_eq_true, if_true, if_false]
    rw [hlen1, List.take_left' rfl, cbcDec_eq, hmid, hdr]
  · unfold cbcCs2Dec
    simp only [hch, htl, hne, ne_eq, not_false_eq_true, if_true, if_false]
    rw [hlen1, List.take_left' rfl, cbcDec_eq, hmid, hdr]

/-- CS1 / CS2 decrypt on a whole number of blocks: plain CBC decryption. -/
theorem cs12_dec_aligned (C : Cipher) (hC : C.Valid) (w : Nat) (iv : Bytes) (L : List Bytes) (hL : ∀ b ∈ L, b.length = C.bs) :
    cbcCs1Dec C w iv L.flatten = (Spec.cbcDec C iv L).1.flatten ∧ cbcCs2Dec C w iv L.flatten = (Spec.cbcDec C iv L).1.flatten := by
  have h := chunks_of_blocks C.bs hC.bs_pos L [] hL (by simpa using hC.bs_pos)
  rw [List.append_nil] at h
  exact ⟨by simp [cbcCs1Dec, h.1, h.2, cbcDec_eq], by simp [cbcCs2Dec, h.1, h.2, cbcDec_eq]⟩

/-- **CBC-CS1/2/3 decryption = the NIST un-stealing formulation on arbitrary input** of at least one block. -/
theorem cbc_cs_dec_refines (v : CsVariant) (C : Cipher) (hC : C.Valid) (w : Nat) (iv c : Bytes)
    (hiv : iv.length = C.bs) (hc : C.bs ≤ c.length) :
    implCbcDec v C w iv c = Spec.cbcCsDec v C iv c := by
  have hbs := hC.bs_pos
  by_cases h1 : c.length = C.bs
  · -- a single block
    have hn : ctsN C.bs c.length = 1 := by
      have := (cts_aligned C.bs 1 hbs (by omega)).1
      rw [Nat.one_mul] at this; rw [h1]; exact this
    have hch := chunks_of_blocks C.bs hbs [c] [] (by simpa using h1) (by simpa using hbs)
    simp only [List.flatten_cons, List.flatten_nil, List.append_nil] at hch
    have hspec : Spec.cbcCsDec v C iv c = (Spec.cbcDec C iv [c]).1.flatten := by
      unfold Spec.cbcCsDec; simp only [hn, Nat.le_refl, if_true]
    rw [hspec]
    cases v
    · simp [implCbcDec, cbcCs1Dec, hch.1, hch.2, cbcDec_eq]
    · simp [implCbcDec, cbcCs2Dec, hch.1, hch.2, cbcDec_eq]
    · simp [implCbcDec, cbcCs3Dec, h1, hch.1, cbcDec_eq]
  · obtain ⟨X, Y, rfl, hX, hY1, hY2, hn, hd⟩ := dec_split C.bs hbs c (by omega)
    rw [cbcSpecDec_shape v C iv X hX Y hn hbs, hd]
    have hYd : (Y.drop (Y.length - C.bs)).length = C.bs := by rw [List.length_drop]; omega
    have hYt : (Y.take C.bs).length = C.bs := by rw [List.length_take]; omega
    have happ : ∀ (z : Bytes), (Spec.cbcDec C iv (X ++ [z])).1.flatten
        = (Spec.cbcDec C iv X).1.flatten ++ xorB (C.dec z) (Spec.cbcDec C iv X).2 := by
      intro z; rw [cbcDec_append]; simp [Spec.cbcDec]
    by_cases hal : Y.length = 2 * C.bs
    · -- whole blocks: d = bs
      have hd' : Y.length - C.bs = C.bs := by omega
      have hYd2 : (Y.drop C.bs).length = C.bs := by rw [List.length_drop]; omega
      have hYsplit : Y = Y.take C.bs ++ Y.drop C.bs := (List.take_append_drop _ _).symm
      have hL : ∀ b ∈ X ++ [Y.take C.bs, Y.drop C.bs], b.length = C.bs := by
        intro b hb
        simp only [List.mem_append, List.mem_cons, List.not_mem_nil, or_false] at hb
        rcases hb with hb | rfl | rfl
        · exact hX b hb
        · exact hYt
        · exact hYd2
      have hflat : X.flatten ++ Y = (X ++ [Y.take C.bs, Y.drop C.bs]).flatten := by
        conv => lhs; rw [hYsplit]
        simp
      have hfull : (Spec.cbcDec C iv (X ++ [Y.take C.bs, Y.drop C.bs])).1.flatten
          = (Spec.cbcDec C iv X).1.flatten ++ xorB (C.dec (Y.take C.bs)) (Spec.cbcDec C iv X).2
            ++ xorB (C.dec (Y.drop C.bs)) (Y.take C.bs) := by
        rw [cbcDec_append]; simp [Spec.cbcDec]
      have hx1 : ∀ z : Bytes, z.length = C.bs → (C.dec z).drop C.bs = [] ∧ (C.dec z).take C.bs = C.dec z := by
        intro z hz
        have := hC.dec_len z hz
        exact ⟨List.drop_of_length_le (by omega), List.take_of_length_le (by omega)⟩
      cases v
      · -- CS1: (C*_{n-1}, C_n) = (Y.take bs, Y.drop bs)
        simp only [implCbcDec, unarrange, hd']
        rw [hflat, (cs12_dec_aligned C hC w iv _ hL).1, hfull, happ, (hx1 _ hYd2).1, (hx1 _ hYd2).2, List.append_nil]
      · simp only [implCbcDec, unarrange, hd', if_true]
        rw [hflat, (cs12_dec_aligned C hC w iv _ hL).2, hfull, happ, (hx1 _ hYd2).1, (hx1 _ hYd2).2, List.append_nil]
      · -- CS3: exchanged
        simp only [implCbcDec, unarrange, hd']
        rw [cs3_dec_shape C hC w iv X hX Y hY1 hY2, cs2_tail_spec C hC _ Y hY1 hY2, happ, hd', List.append_assoc]
    · have hY2' : Y.length < 2 * C.bs := by omega
      have hdne : ¬ Y.length - C.bs = C.bs := by omega
      cases v
      · simp only [implCbcDec, unarrange]
        rw [(cs12_dec_gen C hC w iv X hX Y hY1 hY2').1, cs1_tail_spec C hC _ Y hY1 hY2', happ, List.append_assoc]
      · simp only [implCbcDec, unarrange, hdne, if_false]
        rw [(cs12_dec_gen C hC w iv X hX Y hY1 hY2').2, cs2_tail_spec C hC _ Y hY1 hY2, happ, List.append_assoc]
      · simp only [implCbcDec, unarrange]
        rw [cs3_dec_shape C hC w iv X hX Y hY1 hY2, cs2_tail_spec C hC _ Y hY1 hY2, happ, List.append_assoc]

end Thm.C05aux

namespace Thm.C05aux
open Impl Impl.Cts Glue Spec

theorem ecbSpecDec_shape (v : CsVariant) (C : Cipher) (X : List Bytes) (hX : ∀ b ∈ X, b.length = C.bs)
    (Y : Bytes) (hn : ctsN C.bs (X.flatten ++ Y).length = X.length + 2) (hbs : 0 < C.bs) :
    Spec.ecbCsDec v C (X.flatten ++ Y) =
      (let d := ctsD C.bs (X.flatten ++ Y).length
       let r := unarrange v C.bs d Y
       let x := C.dec r.2
       (X.map C.dec).flatten ++ C.dec (r.1 ++ x.drop d) ++ x.take d) := by
  obtain ⟨htk, hdr⟩ := layout_take_drop C.bs X hX Y
  unfold Spec.ecbCsDec
  simp only [hn]
  have h1 : ¬ X.length + 2 ≤ 1 := by omega
  simp only [h1, if_false, Nat.add_sub_cancel, htk, hdr]
  have hcx := (chunks_of_blocks C.bs hbs X [] hX (by simpa using hbs)).1
  rw [List.append_nil] at hcx
  rw [hcx]

/-- **ECB-CS1/2/3 decryption = the NIST un-stealing formulation on arbitrary input** of at least one block. -/
theorem ecb_cs_dec_refines (v : CsVariant) (C : Cipher) (hC : C.Valid) (w : Nat) (c : Bytes) (hc : C.bs ≤ c.length) :
    implEcbDec v C w c = Spec.ecbCsDec v C c := by
  have hbs := hC.bs_pos
  by_cases h1 : c.length = C.bs
  · have hn : ctsN C.bs c.length = 1 := by
      have := (cts_aligned C.bs 1 hbs (by omega)).1
      rw [Nat.one_mul] at this; rw [h1]; exact this
    have hch := chunks_of_blocks C.bs hbs [c] [] (by simpa using h1) (by simpa using hbs)
    simp only [List.flatten_cons, List.flatten_nil, List.append_nil] at hch
    have hspec : Spec.ecbCsDec v C c = C.dec c := by
      unfold Spec.ecbCsDec; simp only [hn, Nat.le_refl, if_true]
    rw [hspec]
    cases v <;> simp [implEcbDec, ecbCs1Dec, ecbCs2Dec, ecbCs3Dec, hch.1, hch.2, ecbDec_map]
  · obtain ⟨X, Y, rfl, hX, hY1, hY2, hn, hd⟩ := dec_split C.bs hbs c (by omega)
    rw [ecbSpecDec_shape v C X hX Y hn hbs, hd]
    have hYt : (Y.take C.bs).length = C.bs := by rw [List.length_take]; omega
    have hfl := flatten_length_of_allLen C.bs X hX
    obtain ⟨_, hdr⟩ := layout_take_drop C.bs X hX Y
    by_cases hal : Y.length = 2 * C.bs
    · have hd' : Y.length - C.bs = C.bs := by omega
      have hYd2 : (Y.drop C.bs).length = C.bs := by rw [List.length_drop]; omega
      have hYsplit : Y = Y.take C.bs ++ Y.drop C.bs := (List.take_append_drop _ _).symm
      have hL : ∀ b ∈ X ++ [Y.take C.bs, Y.drop C.bs], b.length = C.bs := by
        intro b hb
        simp only [List.mem_append, List.mem_cons, List.not_mem_nil, or_false] at hb
        rcases hb with hb | rfl | rfl
        · exact hX b hb
        · exact hYt
        · exact hYd2
      have hflat : X.flatten ++ Y = (X ++ [Y.take C.bs, Y.drop C.bs]).flatten := by
        conv => lhs; rw [hYsplit]
        simp
      have h := chunks_of_blocks C.bs hbs _ [] hL (by simpa using hbs)
      rw [List.append_nil] at h
      have hx1 : ∀ z : Bytes, z.length = C.bs → (C.dec z).drop C.bs = [] ∧ (C.dec z).take C.bs = C.dec z := by
        intro z hz
        have := hC.dec_len z hz
        exact ⟨List.drop_of_length_le (by omega), List.take_of_length_le (by omega)⟩
      have hr12 : (X.map C.dec).flatten ++ C.dec (Y.take C.bs) ++ C.dec (Y.drop C.bs)
          = ((X ++ [Y.take C.bs, Y.drop C.bs]).map C.dec).flatten := by simp
      have hr3 : (X.map C.dec).flatten ++ C.dec (Y.drop C.bs) ++ C.dec (Y.take C.bs)
          = (swapLast2 ((X ++ [Y.take C.bs, Y.drop C.bs]).map C.dec)).flatten := by
        simp only [List.map_append, List.map_cons, List.map_nil, swapLast2_concat2]; simp
      have hlen2 : (X ++ [Y.take C.bs, Y.drop C.bs]).length > 1 := by simp
      cases v
      · simp only [implEcbDec, unarrange, hd', (hx1 _ hYd2).1, (hx1 _ hYd2).2, List.append_nil]
        rw [hr12, hflat]
        simp only [ecbCs1Dec, h.1, h.2, List.length_nil, ne_eq, not_true_eq_false, if_false, if_true, ecbDec_map]
      · simp only [implEcbDec, unarrange, hd', if_true, (hx1 _ hYd2).1, (hx1 _ hYd2).2, List.append_nil]
        rw [hr12, hflat]
        simp only [ecbCs2Dec, h.1, h.2, List.length_nil, if_true, ecbDec_map]
      · simp only [implEcbDec, unarrange, hd', (hx1 _ hYt).1, (hx1 _ hYt).2, List.append_nil]
        rw [hr3, hflat]
        simp only [ecbCs3Dec, h.1, h.2, List.length_nil, true_and, Bool.false_eq_true, if_false, if_true, hlen2, ecbDec_map]
    · have hY2' : Y.length < 2 * C.bs := by omega
      have hdne : ¬ Y.length - C.bs = C.bs := by omega
      obtain ⟨hch, htl⟩ := layout_chunks C.bs hbs X hX Y (by omega) (by omega)
      have htl' : (Y.drop C.bs).length = Y.length - C.bs := by simp
      have hne : (Y.drop C.bs).length ≠ 0 := by omega
      have hne' : ¬ (Y.drop C.bs).length = 0 := hne
      have hxl : (C.dec (Y.take C.bs)).length = C.bs := hC.dec_len _ hYt
      -- CS2 / CS3: all blocks decrypted, then the un-stealing step
      have hcs23 : ecbUnsteal C ((X ++ [Y.take C.bs]).map C.dec) (Y.drop C.bs)
          = (X.map C.dec).flatten ++ C.dec (Y.drop C.bs ++ (C.dec (Y.take C.bs)).drop (Y.length - C.bs))
              ++ (C.dec (Y.take C.bs)).take (Y.length - C.bs) := by
        unfold ecbUnsteal
        simp only [List.map_append, List.map_cons, List.map_nil, htl']
        rw [List.getLastD_concat, List.dropLast_concat]
      cases v
      · -- CS1
        simp only [implEcbDec, unarrange]
        unfold ecbCs1Dec
        simp only [hch, htl, hne, ne_eq, not_false_eq_true, if_true, if_false]
        have hlen1 : (X ++ [Y.take C.bs]).length - 1 = X.length := by simp
        have hmid : (X.flatten ++ Y).length - (C.bs + (Y.drop C.bs).length) = X.length * C.bs := by
          rw [List.length_append, hfl, htl']; omega
        rw [hlen1, List.take_left' rfl, ecbDec_map, hmid, hdr]
        unfold ecbCs1DecTail
        simp only
        rw [List.take_take, Nat.min_eq_left (by omega), List.append_assoc]
      · simp only [implEcbDec, unarrange, hdne, if_false]
        unfold ecbCs2Dec
        simp only [hch, htl, hne', if_false, ecbDec_map]
        exact hcs23
      · simp only [implEcbDec, unarrange]
        unfold ecbCs3Dec
        simp only [hch, htl, hne', if_false, ecbDec_map, Bool.false_eq_true]
        exact hcs23

/-- consequence: the NIST decrypt formulation inverts the NIST encrypt formulation (both written independently of the code). -/
theorem spec_dec_enc (v : CsVariant) (C : Cipher) (hC : C.Valid) (iv m : Bytes) (hiv : iv.length = C.bs) (hm : C.bs ≤ m.length) :
    Spec.cbcCsDec v C iv (Spec.cbcCsEnc v C iv m) = m ∧ Spec.ecbCsDec v C (Spec.ecbCsEnc v C m) = m := by
  constructor
  · rw [← cbc_cs_dec_refines v C hC 1 iv _ hiv (by rw [cbcSpec_length v C hC iv m hiv hm]; exact hm)]
    exact cbc_cs_dec_inverts v C hC 1 iv m hiv hm
  · rw [← ecb_cs_dec_refines v C hC 1 _ (by rw [ecbSpec_length v C hC m hm]; exact hm)]
    exact ecb_cs_dec_inverts v C hC 1 m hm

end Thm.C05aux
