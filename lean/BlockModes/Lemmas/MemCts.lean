import BlockModes.Lemmas.MemLoop
import BlockModes.Lemmas.Cts
import BlockModes.Lemmas.CtsEcb
import BlockModes.Lemmas.Xor
/-
  Lemmas/MemCts.lean — each checked, memory-level closure of `Impl/MemCts.lean` succeeds on every buffer of at
  least one block and leaves in the output view exactly what the value-level mirror `Impl.Cts.*` computes from
  the bytes the input view showed — in place (`alias = true`) and buffer-to-buffer (`alias = false`, any
  previous output contents) alike.
-/
namespace Impl.MemCts
open Glue Impl.Cts

/-! ### what is known after the main loop over the first `nb` blocks -/

structure After (io io1 : IOBuf) (nb bs : Nat) (R : Bytes) : Prop where
  out : io1.out = R ++ io.out.drop (nb * bs)
  rlen : R.length = nb * bs
  len : io1.len = io.len
  wf : WF io1
  src : ∀ o, nb * bs ≤ o → (src io1).drop o = (src io).drop o

theorem memBlocks_after {σ : Type} (P : σ → Prop) (w bs : Nat) (hbs : 0 < bs) (step : σ → Bytes → Bytes × σ)
    (par : σ → List Bytes → List Bytes × σ) (hstep : StepOk P step bs)
    (hpar : ∀ s chunk, chunk.length = w → par s chunk = foldBlocks step s chunk)
    (nb : Nat) (s : σ) (io : IOBuf) (hs : P s) (hw : WF io) (hb : nb * bs ≤ io.len) :
    ∃ io1, memBlocks w bs step par nb 0 s io = some (io1, (foldBlocks step s (blocksAt (src io) bs nb 0)).2) ∧
      After io io1 nb bs (foldBlocks step s (blocksAt (src io) bs nb 0)).1.flatten ∧
      P (foldBlocks step s (blocksAt (src io) bs nb 0)).2 := by
  obtain ⟨io1, h1, h2, h3, h4⟩ := memBlocks_spec P w bs hbs step par hstep hpar nb 0 s io hs hw (by omega)
  have hsl := src_length io hw
  have hall := blocksAt_allLen (src io) bs nb 0 (by omega)
  have hR := foldBlocks_flatten_length P step bs hstep _ s hs hall
  rw [blocksAt_length] at hR
  simp only [List.take_zero, List.nil_append, Nat.zero_add] at h2
  have h2' : io1.out = io.out.take 0 ++ (foldBlocks step s (blocksAt (src io) bs nb 0)).1.flatten
      ++ io.out.drop (0 + nb * bs) := by simpa using h2
  have hl := len_after io io1 0 (nb * bs) _ hR (by omega) h2'
  refine ⟨io1, h1, ⟨h2, hR, hl, WF_after io io1 hl h3 h4 hw, ?_⟩, (foldBlocks_inv P step bs hstep _ s hs hall).2⟩
  intro o ho
  exact src_after io io1 0 (nb * bs) _ hR (by omega) h2' h3 h4 o (by omega)

theorem memLoop_after {σ : Type} (P : σ → Prop) (bs : Nat) (step : σ → Bytes → Bytes × σ) (hstep : StepOk P step bs)
    (nb : Nat) (s : σ) (io : IOBuf) (hs : P s) (hw : WF io) (hb : nb * bs ≤ io.len) :
    ∃ io1, memLoop step bs nb 0 s io = some (io1, (foldBlocks step s (blocksAt (src io) bs nb 0)).2) ∧
      After io io1 nb bs (foldBlocks step s (blocksAt (src io) bs nb 0)).1.flatten ∧
      P (foldBlocks step s (blocksAt (src io) bs nb 0)).2 := by
  obtain ⟨io1, h1, h2, h3, h4⟩ := memLoop_spec P step bs hstep nb 0 s io hs hw (by omega)
  have hsl := src_length io hw
  have hall := blocksAt_allLen (src io) bs nb 0 (by omega)
  have hR := foldBlocks_flatten_length P step bs hstep _ s hs hall
  rw [blocksAt_length] at hR
  have h2' := h2
  simp only [List.take_zero, List.nil_append, Nat.zero_add] at h2
  have hl := len_after io io1 0 (nb * bs) _ hR (by omega) h2'
  refine ⟨io1, h1, ⟨h2, hR, hl, WF_after io io1 hl h3 h4 hw, ?_⟩, (foldBlocks_inv P step bs hstep _ s hs hall).2⟩
  intro o ho
  exact src_after io io1 0 (nb * bs) _ hR (by omega) h2' h3 h4 o (by omega)

/-! ### the step functions are length-preserving while the chaining value has one block -/

theorem cbcEnc_stepOk (C : Cipher) (hC : C.Valid) : StepOk (fun iv : Bytes => iv.length = C.bs) (cbcEncBlock C) C.bs := by
  intro s b hs hb
  have hx : (xorB b s).length = C.bs := by simp [hs, hb]
  exact ⟨hC.enc_len _ hx, hC.enc_len _ hx⟩

theorem cbcDec_stepOk (C : Cipher) (hC : C.Valid) : StepOk (fun iv : Bytes => iv.length = C.bs) (cbcDecBlock C) C.bs := by
  intro s b hs hb
  exact ⟨by simp [cbcDecBlock, hC.dec_len b hb, hs], hb⟩

theorem unit_stepOk (f : Bytes → Bytes) (bs : Nat) (hf : ∀ x, x.length = bs → (f x).length = bs) :
    StepOk (fun (_ : Unit) => True) (fun (_ : Unit) b => (f b, ())) bs := by
  intro s b _ hb
  exact ⟨hf b hb, trivial⟩

/-! ### arithmetic and the blocks of the whole buffer -/

theorem len_split (L bs : Nat) : L = L / bs * bs + L % bs := by
  have := Nat.div_add_mod L bs; rw [Nat.mul_comm] at this; omega

theorem k_pos (L bs : Nat) (hbs : 0 < bs) (h : bs ≤ L) : 1 ≤ L / bs := (Nat.one_le_div_iff hbs).mpr h

theorem blocks_whole (io : IOBuf) (hw : WF io) (bs : Nat) (hbs : 0 < bs) :
    blocksAt (src io) bs (io.len / bs) 0 = chunks bs (src io) := by
  rw [← src_length io hw]; exact blocksAt_eq_chunks (src io) bs hbs

theorem tail_whole (io : IOBuf) (hw : WF io) (bs : Nat) (hbs : 0 < bs) :
    chunksTail bs (src io) = (src io).drop (io.len / bs * bs) ∧ (chunksTail bs (src io)).length = io.len % bs := by
  rw [← src_length io hw]
  exact ⟨chunksTail_eq_drop bs hbs _, chunksTail_length bs hbs _⟩

/-- `block = 0; block[..tail.len()].copy_from_slice(tail.get_in())` after the main loop -/
theorem padFromTail_eq (io io1 : IOBuf) (hw : WF io) (bs : Nat) (hbs : 0 < bs) (nb : Nat) (R : Bytes)
    (ha : After io io1 nb bs R) (hnb : nb ≤ io.len / bs) :
    padFromTail io1 bs (io.len / bs) (io.len % bs) = some (padTail bs (chunksTail bs (src io))) := by
  have hL := len_split io.len bs
  obtain ⟨ht1, ht2⟩ := tail_whole io hw bs hbs
  have hsl := src_length io hw
  have hsl1 := src_length io1 ha.wf
  have hmod := Nat.mod_lt io.len hbs
  have hnbk : nb * bs ≤ io.len / bs * bs := Nat.mul_le_mul_right _ hnb
  unfold padFromTail
  rw [getIn?_eq io1 _ _ (by rw [ha.len]; omega)]
  have hr : rng (src io1) (io.len / bs * bs) (io.len % bs) = chunksTail bs (src io) := by
    rw [rng_congr (src io1) (src io) (io.len / bs * bs) _ _ (ha.src _ hnbk) (Nat.le_refl _),
      rng_all _ _ _ (by rw [hsl]; omega), ht1]
  simp only [hr]
  rw [blockSet?_eq _ _ _ _ (Nat.zero_le _) (by simp; omega) (by rw [ht2]; omega)]
  simp [setRng, padTail, zeros, ht2]

/-! ### CBC-CS1 encrypt -/

theorem cbcCs1Enc_ok (C : Cipher) (hC : C.Valid) (w : Nat) (iv : Bytes) (hiv : iv.length = C.bs)
    (io : IOBuf) (hw : WF io) (hge : C.bs ≤ io.len) :
    ∃ io', MemCts.cbcCs1Enc C w iv io = some io' ∧ io'.out = Cts.cbcCs1Enc C w iv (src io) := by
  have hbs := hC.bs_pos
  have hL := len_split io.len C.bs
  have hk := k_pos io.len C.bs hbs hge
  have hsl := src_length io hw
  have hol : io.out.length = io.len := rfl
  obtain ⟨ht1, ht2⟩ := tail_whole io hw C.bs hbs
  obtain ⟨io1, h1, ha, hP⟩ := memLoop_after _ C.bs (cbcEncBlock C) (cbcEnc_stepOk C hC) (io.len / C.bs) iv io hiv hw (by omega)
  rw [blocks_whole io hw C.bs hbs] at h1 ha hP
  unfold MemCts.cbcCs1Enc Cts.cbcCs1Enc
  simp only [memCbcEnc, h1, ht2, Cts.cbcEnc]
  by_cases htl : io.len % C.bs = 0
  · simp only [htl, if_true]
    refine ⟨io1, rfl, ?_⟩
    rw [ha.out, List.drop_of_length_le (by omega), List.append_nil]
  · simp only [htl, if_false, ha.len]
    rw [padFromTail_eq io io1 hw C.bs hbs _ _ ha (Nat.le_refl _)]
    simp only [sub?_eq _ _ hge]
    have hpl : (padTail C.bs (chunksTail C.bs (src io))).length = C.bs := by
      simp [padTail, ht2]; have := Nat.mod_lt io.len hbs; omega
    have hbl : (C.enc (xorB (padTail C.bs (chunksTail C.bs (src io)))
        (foldBlocks (cbcEncBlock C) iv (chunks C.bs (src io))).2)).length = C.bs :=
      hC.enc_len _ (by simp [hpl, hP])
    rw [setOut?_eq io1 _ _ _ (by rw [ha.len]; omega) (by rw [hbl]; omega)]
    refine ⟨_, rfl, ?_⟩
    simp only [IOBuf.setOut, setRng, ha.out, hsl]
    have hmod := Nat.mod_lt io.len hbs
    rw [List.take_append_of_le_length (by rw [ha.rlen]; omega)]
    rw [List.drop_of_length_le (by simp only [List.length_append, List.length_drop, ha.rlen, hbl]; omega), List.append_nil]

/-! ### list surgery on a buffer written as explicit pieces -/

theorem rng_mid (A B D : Bytes) (off len : Nat) (h1 : off = A.length) (h2 : len = B.length) :
    rng (A ++ B ++ D) off len = B := by
  subst h1 h2
  simp [rng]

theorem setRng_mid (A B D v : Bytes) (off : Nat) (h1 : off = A.length) (hv : v.length = B.length) :
    setRng (A ++ B ++ D) off v = A ++ v ++ D := by
  subst h1
  simp only [setRng, List.append_assoc]
  rw [List.take_left' rfl, hv, ← List.drop_drop, List.drop_left' rfl, List.drop_left' rfl]

theorem flatten_split_last (outs : List Bytes) (h : 1 ≤ outs.length) :
    outs.flatten = outs.dropLast.flatten ++ outs.getLastD [] := by
  have := Thm.C05aux.split_dropLast outs [] (by omega)
  conv => lhs; rw [this]
  simp

theorem blocksAt_prefix (m : Bytes) (bs : Nat) (hbs : 0 < bs) (j : Nat) (hj : j ≤ m.length / bs) :
    blocksAt m bs j 0 = (chunks bs m).take j := by
  have hjl : j * bs ≤ m.length := by
    have := Nat.mul_le_mul_right bs hj
    have h2 := Nat.div_mul_le_self m.length bs
    omega
  rw [← blocksAt_eq_chunks_rng m bs hbs j 0 (by omega), ← Spec.chunks_take_blocks bs hbs m j (by rw [chunks_length bs hbs]; exact hj)]
  simp [rng]

/-- the stealing step of CBC-CS2 / CBC-CS3 encrypt after the main loop. -/
theorem cbcStealMem_eq (C : Cipher) (hC : C.Valid) (io io1 : IOBuf) (hw : WF io) (hge : C.bs ≤ io.len)
    (outs : List Bytes) (houts : ∀ b ∈ outs, b.length = C.bs) (hol : outs.length = io.len / C.bs)
    (ha : After io io1 (io.len / C.bs) C.bs outs.flatten) (iv : Bytes) (hiv : iv.length = C.bs)
    (htl : io.len % C.bs ≠ 0) :
    ∃ io2, cbcStealMem C iv io1 (io.len / C.bs) (io.len % C.bs) = some io2 ∧
      io2.out = Cts.cbcSteal C outs iv (chunksTail C.bs (src io)) := by
  have hbs := hC.bs_pos
  have hL := len_split io.len C.bs
  have hk := k_pos io.len C.bs hbs hge
  have hmod := Nat.mod_lt io.len hbs
  have holen : io.out.length = io.len := rfl
  obtain ⟨ht1, ht2⟩ := tail_whole io hw C.bs hbs
  have hpl : (padTail C.bs (chunksTail C.bs (src io))).length = C.bs := by simp [padTail, ht2]; omega
  have hbl : (C.enc (xorB (padTail C.bs (chunksTail C.bs (src io))) iv)).length = C.bs :=
    hC.enc_len _ (by simp [hpl, hiv])
  -- the output view as explicit pieces
  have hA : outs.dropLast.flatten.length = (io.len / C.bs - 1) * C.bs := by
    rw [flatten_length_of_allLen C.bs _ (fun b hb => houts b (List.dropLast_subset outs hb)), List.length_dropLast, hol]
  have hB : (outs.getLastD []).length = C.bs := by
    rw [← Spec.getD_last outs [] (by omega)]; exact houts _ (Thm.C05aux.getD_mem _ _ _ (by omega))
  have hX : (io.out.drop (io.len / C.bs * C.bs)).length = io.len % C.bs := by simp; omega
  have hout1 : io1.out = outs.dropLast.flatten ++ outs.getLastD [] ++ io.out.drop (io.len / C.bs * C.bs) := by
    rw [ha.out, flatten_split_last outs (by omega)]
  have hkb : (io.len / C.bs - 1) * C.bs + C.bs = io.len / C.bs * C.bs := by
    obtain ⟨j, hj⟩ : ∃ j, io.len / C.bs = j + 1 := ⟨io.len / C.bs - 1, by omega⟩
    rw [hj, Nat.add_sub_cancel, Nat.add_mul, Nat.one_mul]
  unfold cbcStealMem Cts.cbcSteal
  dsimp only
  rw [padFromTail_eq io io1 hw C.bs hbs _ _ ha (Nat.le_refl _)]
  simp only [sub?_eq _ _ hk]
  rw [getOut?_eq io1 _ _ (by rw [ha.len]; omega)]
  simp only []
  rw [hout1, rng_mid _ _ _ _ _ hA.symm hB.symm]
  rw [setOut?_eq io1 _ _ _ (by rw [ha.len]; omega) hbl]
  simp only [slice?_eq _ 0 (io.len % C.bs) (Nat.zero_le _) (by rw [hB]; omega), List.drop_zero, Nat.sub_zero]
  have hl2 : (io1.setOut ((io.len / C.bs - 1) * C.bs) (C.enc (xorB (padTail C.bs (chunksTail C.bs (src io))) iv))).len = io.len := by
    rw [setOut_len _ _ _ (by rw [ha.len, hbl]; omega), ha.len]
  rw [setOut?_eq _ _ _ _ (by rw [hl2]; omega) (by rw [List.length_take, hB]; omega)]
  refine ⟨_, rfl, ?_⟩
  simp only [IOBuf.setOut, hout1]
  rw [setRng_mid _ _ _ _ _ hA.symm (by rw [hbl, hB])]
  have e : outs.dropLast.flatten ++ C.enc (xorB (padTail C.bs (chunksTail C.bs (src io))) iv) ++ io.out.drop (io.len / C.bs * C.bs)
      = (outs.dropLast.flatten ++ C.enc (xorB (padTail C.bs (chunksTail C.bs (src io))) iv)) ++ io.out.drop (io.len / C.bs * C.bs) ++ [] := by simp
  rw [e, setRng_mid _ _ _ _ _ (by simp [hA, hbl]; omega) (by rw [List.length_take, hB, hX]; omega), ht2]
  simp

/-! ### CBC-CS2 encrypt, CBC-CS3 encrypt -/

theorem cbcEnc_outs (C : Cipher) (hC : C.Valid) (iv : Bytes) (hiv : iv.length = C.bs) (io : IOBuf) (hw : WF io) :
    (∀ b ∈ (foldBlocks (cbcEncBlock C) iv (chunks C.bs (src io))).1, b.length = C.bs) ∧
    (foldBlocks (cbcEncBlock C) iv (chunks C.bs (src io))).1.length = io.len / C.bs := by
  have hbs := hC.bs_pos
  refine ⟨(foldBlocks_inv _ _ C.bs (cbcEnc_stepOk C hC) _ iv hiv (chunks_allLen C.bs hbs _)).1, ?_⟩
  rw [foldBlocks_length, chunks_length C.bs hbs, src_length io hw]

theorem cbcCs2Enc_ok (C : Cipher) (hC : C.Valid) (w : Nat) (iv : Bytes) (hiv : iv.length = C.bs)
    (io : IOBuf) (hw : WF io) (hge : C.bs ≤ io.len) :
    ∃ io', MemCts.cbcCs2Enc C w iv io = some io' ∧ io'.out = Cts.cbcCs2Enc C w iv (src io) := by
  have hbs := hC.bs_pos
  have hL := len_split io.len C.bs
  have hol : io.out.length = io.len := rfl
  obtain ⟨ht1, ht2⟩ := tail_whole io hw C.bs hbs
  obtain ⟨io1, h1, ha, hP⟩ := memLoop_after _ C.bs (cbcEncBlock C) (cbcEnc_stepOk C hC) (io.len / C.bs) iv io hiv hw (by omega)
  rw [blocks_whole io hw C.bs hbs] at h1 ha hP
  obtain ⟨ho1, ho2⟩ := cbcEnc_outs C hC iv hiv io hw
  unfold MemCts.cbcCs2Enc Cts.cbcCs2Enc
  simp only [memCbcEnc, h1, ht2, Cts.cbcEnc]
  by_cases htl : io.len % C.bs = 0
  · simp only [htl, if_true]
    refine ⟨io1, rfl, ?_⟩
    rw [ha.out, List.drop_of_length_le (by omega), List.append_nil]
  · simp only [htl, if_false]
    exact cbcStealMem_eq C hC io io1 hw hge _ ho1 ho2 ha _ hP htl

/-- `mem::swap(penultimate, last)` on the output blocks. -/
theorem swapLast2Mem_eq (io1 : IOBuf) (bs : Nat) (outs : List Bytes) (houts : ∀ b ∈ outs, b.length = bs)
    (hk : 2 ≤ outs.length) (hout : io1.out = outs.flatten) :
    ∃ io2, swapLast2Mem io1 bs outs.length = some io2 ∧ io2.out = (swapLast2 outs).flatten := by
  have hsp := Spec.split_last2 outs [] hk
  have hA : (outs.take (outs.length - 2)).flatten.length = (outs.length - 2) * bs := by
    rw [flatten_length_of_allLen bs _ (fun b hb => houts b (List.mem_of_mem_take hb)), List.length_take]
    congr 1; omega
  have hP : (outs.getD (outs.length - 2) []).length = bs := houts _ (Thm.C05aux.getD_mem _ _ _ (by omega))
  have hQ : (outs.getD (outs.length - 1) []).length = bs := houts _ (Thm.C05aux.getD_mem _ _ _ (by omega))
  have hout1 : io1.out = (outs.take (outs.length - 2)).flatten ++ outs.getD (outs.length - 2) []
      ++ outs.getD (outs.length - 1) [] := by
    rw [hout]; conv => lhs; rw [hsp]
    simp
  have hlen : io1.len = outs.length * bs := by
    simp only [IOBuf.len, hout]; exact flatten_length_of_allLen bs _ houts
  have hj : (outs.length - 1) * bs = (outs.length - 2) * bs + bs := by
    obtain ⟨j, hj⟩ : ∃ j, outs.length = j + 2 := ⟨outs.length - 2, by omega⟩
    rw [hj]; simp [Nat.add_mul]
  have hkb : outs.length * bs = (outs.length - 2) * bs + bs + bs := by
    obtain ⟨j, hj⟩ : ∃ j, outs.length = j + 2 := ⟨outs.length - 2, by omega⟩
    rw [hj]; simp [Nat.add_mul]; omega
  unfold swapLast2Mem
  simp only [sub?_eq _ 1 (show 1 ≤ outs.length by omega), sub?_eq _ 1 (show 1 ≤ outs.length - 1 by omega),
    show outs.length - 1 - 1 = outs.length - 2 by omega]
  rw [getOut?_eq io1 _ _ (by rw [hlen]; omega), getOut?_eq io1 _ _ (by rw [hlen]; omega)]
  dsimp only
  have hlast : rng io1.out ((outs.length - 1) * bs) bs = outs.getD (outs.length - 1) [] := by
    rw [hout1]
    have e : (outs.take (outs.length - 2)).flatten ++ outs.getD (outs.length - 2) [] ++ outs.getD (outs.length - 1) []
        = ((outs.take (outs.length - 2)).flatten ++ outs.getD (outs.length - 2) []) ++ outs.getD (outs.length - 1) [] ++ [] := by simp
    rw [e, rng_mid _ _ _ _ _ (by rw [List.length_append, hA, hP]; omega) hQ.symm]
  have hpen : rng io1.out ((outs.length - 2) * bs) bs = outs.getD (outs.length - 2) [] := by
    rw [hout1, rng_mid _ _ _ _ _ hA.symm hP.symm]
  rw [hlast, hpen, setOut?_eq io1 _ _ _ (by rw [hlen]; omega) hQ]
  have hl2 : (io1.setOut ((outs.length - 2) * bs) (outs.getD (outs.length - 1) [])).len = io1.len :=
    setOut_len _ _ _ (by rw [hlen, hQ]; omega)
  dsimp only
  rw [setOut?_eq _ _ _ _ (by rw [hl2, hlen]; omega) hP]
  refine ⟨_, rfl, ?_⟩
  simp only [IOBuf.setOut, hout1]
  rw [setRng_mid _ _ _ _ _ hA.symm (by rw [hQ, hP])]
  have e : (outs.take (outs.length - 2)).flatten ++ outs.getD (outs.length - 1) [] ++ outs.getD (outs.length - 1) []
      = ((outs.take (outs.length - 2)).flatten ++ outs.getD (outs.length - 1) []) ++ outs.getD (outs.length - 1) [] ++ [] := by simp
  rw [e, setRng_mid _ _ _ _ _ (by rw [List.length_append, hA, hQ]; omega) (by rw [hP, hQ]), Spec.swapLast2_eq outs hk]
  simp

theorem cbcCs3Enc_ok (C : Cipher) (hC : C.Valid) (w : Nat) (iv : Bytes) (hiv : iv.length = C.bs)
    (io : IOBuf) (hw : WF io) (hge : C.bs ≤ io.len) :
    ∃ io', MemCts.cbcCs3Enc C w iv io = some io' ∧ io'.out = Cts.cbcCs3Enc false C w iv (src io) := by
  have hbs := hC.bs_pos
  have hL := len_split io.len C.bs
  have hol : io.out.length = io.len := rfl
  obtain ⟨ht1, ht2⟩ := tail_whole io hw C.bs hbs
  obtain ⟨io1, h1, ha, hP⟩ := memLoop_after _ C.bs (cbcEncBlock C) (cbcEnc_stepOk C hC) (io.len / C.bs) iv io hiv hw (by omega)
  rw [blocks_whole io hw C.bs hbs] at h1 ha hP
  obtain ⟨ho1, ho2⟩ := cbcEnc_outs C hC iv hiv io hw
  have hcl : (chunks C.bs (src io)).length = io.len / C.bs := by rw [chunks_length C.bs hbs, src_length io hw]
  unfold MemCts.cbcCs3Enc Cts.cbcCs3Enc
  simp only [memCbcEnc, h1, ht2, Cts.cbcEnc, Bool.false_eq_true, if_false, hcl]
  by_cases htl : io.len % C.bs = 0
  · simp only [htl, if_true]
    have hout1 : io1.out = (foldBlocks (cbcEncBlock C) iv (chunks C.bs (src io))).1.flatten := by
      rw [ha.out, List.drop_of_length_le (by omega), List.append_nil]
    by_cases hk1 : io.len / C.bs > 1
    · simp only [hk1, if_true]
      rw [← ho2]
      exact swapLast2Mem_eq io1 C.bs _ ho1 (by omega) hout1
    · simp only [hk1, if_false]
      exact ⟨io1, rfl, hout1⟩
  · simp only [htl, if_false]
    exact cbcStealMem_eq C hC io io1 hw hge _ ho1 ho2 ha _ hP htl

/-! ### reading and writing the remainder `buf[mid..]` after the main loop -/

theorem read_after (io io1 : IOBuf) (nb bs : Nat) (R : Bytes) (ha : After io io1 nb bs R) (off len : Nat)
    (h1 : nb * bs ≤ off) (h2 : off + len ≤ io.len) : getIn? io1 off len = some (rng (src io) off len) := by
  rw [getIn?_eq io1 _ _ (by rw [ha.len]; exact h2), rng_congr (src io1) (src io) off off len (ha.src off h1) (Nat.le_refl _)]

theorem write_rem (io1 : IOBuf) (R X v1 v2 : Bytes) (hout : io1.out = R ++ X) (h : v1.length + v2.length = X.length) :
    ((io1.setOut R.length v1).setOut (R.length + v1.length) v2).out = R ++ v1 ++ v2 := by
  simp only [IOBuf.setOut, hout]
  have hX : X = X.take v1.length ++ X.drop v1.length := (List.take_append_drop _ _).symm
  have e1 : R ++ X = R ++ X.take v1.length ++ X.drop v1.length := by rw [List.append_assoc, ← hX]
  rw [e1, setRng_mid _ _ _ _ _ rfl (by rw [List.length_take]; omega)]
  have e2 : R ++ v1 ++ X.drop v1.length = (R ++ v1) ++ X.drop v1.length ++ [] := by simp
  rw [e2, setRng_mid _ _ _ _ _ (by simp) (by rw [List.length_drop]; omega)]
  simp

/-- the un-stealing step of CBC-CS1 decrypt on `buf[mid..]`, `mid = nb·bs`, `|buf| = mid + bs + n`, `0 < n ≤ bs`. -/
theorem cbcCs1DecRem_eq (C : Cipher) (hC : C.Valid) (io io1 : IOBuf) (hw : WF io) (nb n : Nat) (R : Bytes)
    (ha : After io io1 nb C.bs R) (hlen : io.len = nb * C.bs + C.bs + n) (hn : n ≤ C.bs)
    (iv : Bytes) (hiv : iv.length = C.bs) :
    ∃ io2, cbcCs1DecRem C iv io1 (nb * C.bs) = some io2 ∧
      io2.out = R ++ cbcCs1DecTail C iv ((src io).drop (nb * C.bs)) := by
  have hbs := hC.bs_pos
  have hsl := src_length io hw
  have hol : io.out.length = io.len := rfl
  generalize hm : src io = m at *
  have hremL : (m.drop (nb * C.bs)).length = C.bs + n := by rw [List.length_drop, hsl]; omega
  unfold cbcCs1DecRem cbcCs1DecTail
  dsimp only
  rw [ha.len, show io.len - nb * C.bs = C.bs + n by omega, sub?_eq _ _ (by omega), Nat.add_sub_cancel_left]
  dsimp only
  rw [read_after io io1 nb C.bs R ha _ _ (Nat.le_refl _) (by omega), hm]
  dsimp only
  have hc : ¬ (n > C.bs + n ∨ C.bs + n - n ≠ C.bs) := by omega
  rw [if_neg hc, read_after io io1 nb C.bs R ha _ _ (by omega) (by omega), hm]
  dsimp only
  -- the two blocks read
  have hb1 : rng m (nb * C.bs) C.bs = (m.drop (nb * C.bs)).take C.bs := rfl
  have hb2 : rng m (nb * C.bs + n) C.bs = (m.drop (nb * C.bs)).drop n := by
    simp only [rng, ← List.drop_drop]
    exact List.take_of_length_le (by rw [List.length_drop, hremL]; omega)
  rw [hb1, hb2, hremL, Nat.add_sub_cancel_left]
  generalize hB1 : (m.drop (nb * C.bs)).take C.bs = B1
  generalize hB2 : (m.drop (nb * C.bs)).drop n = B2
  have hB1l : B1.length = C.bs := by rw [← hB1, List.length_take, hremL]; omega
  have hB2l : B2.length = C.bs := by rw [← hB2, List.length_drop, hremL]; omega
  have hd2 : (C.dec B2).length = C.bs := hC.dec_len _ hB2l
  rw [slice?_eq _ _ _ (by omega) (Nat.le_refl _), hd2]
  dsimp only
  have hsl2 : ((C.dec B2).drop n).take (C.bs - n) = (C.dec B2).drop n :=
    List.take_of_length_le (by rw [List.length_drop, hd2]; omega)
  rw [hsl2, blockSet?_eq _ _ _ _ (by omega) (Nat.le_refl _) (by rw [List.length_drop, hd2, hB1l])]
  dsimp only
  have hset : setRng B1 n ((C.dec B2).drop n) = B1.take n ++ (C.dec B2).drop n := by
    simp only [setRng]
    have : B1.drop (n + ((C.dec B2).drop n).length) = [] :=
      List.drop_of_length_le (by rw [List.length_drop, hd2, hB1l]; omega)
    rw [this, List.append_nil]
  rw [hset]
  generalize hN1 : B1.take n ++ (C.dec B2).drop n = N1
  have hN1l : N1.length = C.bs := by rw [← hN1, List.length_append, List.length_take, List.length_drop, hd2, hB1l]; omega
  have ho1 : (xorB (C.dec N1) iv).length = C.bs := by simp [hC.dec_len _ hN1l, hiv]
  rw [setOut?_eq io1 _ _ _ (by rw [ha.len]; omega) ho1]
  dsimp only
  have hx2 : (xorB (C.dec B2) N1).length = C.bs := by simp [hd2, hN1l]
  rw [slice?_eq _ 0 n (Nat.zero_le _) (by rw [hx2]; exact hn)]
  dsimp only
  have hl2 : (io1.setOut (nb * C.bs) (xorB (C.dec N1) iv)).len = io.len := by
    rw [setOut_len _ _ _ (by rw [ha.len, ho1]; omega), ha.len]
  rw [setOut?_eq _ _ _ _ (by rw [hl2]; omega) (by simp [hx2]; omega)]
  refine ⟨_, rfl, ?_⟩
  have := write_rem io1 R (io.out.drop (nb * C.bs)) (xorB (C.dec N1) iv) (((xorB (C.dec B2) N1).drop 0).take (n - 0))
    ha.out (by simp [ho1, hx2]; omega)
  rw [ha.rlen, ho1] at this
  rw [this]
  simp [List.append_assoc]

/-- the un-stealing step of CBC-CS2 / CBC-CS3 decrypt on `buf[mid..]`, `mid = nb·bs`, `|buf| = mid + bs + n`, `n ≤ bs`. -/
theorem cbcCs2DecRem_eq (C : Cipher) (hC : C.Valid) (io io1 : IOBuf) (hw : WF io) (nb n : Nat) (R : Bytes)
    (ha : After io io1 nb C.bs R) (hlen : io.len = nb * C.bs + C.bs + n) (hn : n ≤ C.bs)
    (iv : Bytes) (hiv : iv.length = C.bs) :
    ∃ io2, cbcCs2DecRem C iv io1 (nb * C.bs) = some io2 ∧
      io2.out = R ++ cbcCs2DecTail C iv ((src io).drop (nb * C.bs)) := by
  have hbs := hC.bs_pos
  have hsl := src_length io hw
  have hol : io.out.length = io.len := rfl
  generalize hm : src io = m at *
  have hremL : (m.drop (nb * C.bs)).length = C.bs + n := by rw [List.length_drop, hsl]; omega
  unfold cbcCs2DecRem cbcCs2DecTail
  dsimp only
  rw [ha.len, show io.len - nb * C.bs = C.bs + n by omega, sub?_eq _ _ (by omega), Nat.add_sub_cancel_left]
  dsimp only
  rw [read_after io io1 nb C.bs R ha _ _ (Nat.le_refl _) (by omega), hm]
  dsimp only
  have hc : ¬ (C.bs > C.bs + n) := by omega
  rw [if_neg hc, read_after io io1 nb C.bs R ha _ _ (by omega) (by omega), hm]
  dsimp only
  have hb1 : rng m (nb * C.bs) C.bs = (m.drop (nb * C.bs)).take C.bs := rfl
  have hb2 : rng m (nb * C.bs + C.bs) n = ((m.drop (nb * C.bs)).drop C.bs).take n := by
    simp only [rng, List.drop_drop]
  rw [hb1, hb2, hremL, Nat.add_sub_cancel_left]
  generalize hB1 : (m.drop (nb * C.bs)).take C.bs = B1
  generalize hT : ((m.drop (nb * C.bs)).drop C.bs).take n = T
  have hB1l : B1.length = C.bs := by rw [← hB1, List.length_take, hremL]; omega
  have hTl : T.length = n := by rw [← hT, List.length_take, List.length_drop, hremL]; omega
  have hd1 : (C.dec B1).length = C.bs := hC.dec_len _ hB1l
  rw [blockSet?_eq _ _ _ _ (Nat.zero_le _) (by simp; exact hn) (by rw [hTl]; omega)]
  dsimp only
  rw [hd1, slice?_eq _ _ _ hn (by rw [hd1]; exact Nat.le_refl _)]
  dsimp only
  have hz : setRng (zeros C.bs) 0 T = T ++ zeros (C.bs - n) := by
    simp [setRng, zeros, hTl]
  have hsl1 : ((C.dec B1).drop n).take (C.bs - n) = (C.dec B1).drop n :=
    List.take_of_length_le (by rw [List.length_drop, hd1]; omega)
  rw [hz, hsl1]
  have hzl : (T ++ zeros (C.bs - n)).length = C.bs := by simp [hTl]; omega
  rw [blockSet?_eq _ _ _ _ (by rw [hzl]; exact hn) (Nat.le_refl _) (by rw [List.length_drop, hd1, hzl])]
  dsimp only
  have hset : setRng (T ++ zeros (C.bs - n)) n ((C.dec B1).drop n) = T ++ (C.dec B1).drop n := by
    simp only [setRng]
    have h1 : (T ++ zeros (C.bs - n)).take n = T := List.take_left' hTl
    have h2 : (T ++ zeros (C.bs - n)).drop (n + ((C.dec B1).drop n).length) = [] :=
      List.drop_of_length_le (by rw [List.length_drop, hd1, hzl]; omega)
    rw [h1, h2, List.append_nil]
  rw [hset]
  generalize hN2 : T ++ (C.dec B1).drop n = N2
  have hN2l : N2.length = C.bs := by rw [← hN2, List.length_append, List.length_drop, hd1, hTl]; omega
  have ho2 : (xorB (C.dec N2) iv).length = C.bs := by simp [hC.dec_len _ hN2l, hiv]
  rw [setOut?_eq io1 _ _ _ (by rw [ha.len]; omega) ho2]
  dsimp only
  have hx1 : (xorB (C.dec B1) N2).length = C.bs := by simp [hd1, hN2l]
  rw [slice?_eq _ 0 n (Nat.zero_le _) (by rw [hx1]; exact hn)]
  dsimp only
  have hl2 : (io1.setOut (nb * C.bs) (xorB (C.dec N2) iv)).len = io.len := by
    rw [setOut_len _ _ _ (by rw [ha.len, ho2]; omega), ha.len]
  rw [setOut?_eq _ _ _ _ (by rw [hl2]; omega) (by simp [hx1]; omega)]
  refine ⟨_, rfl, ?_⟩
  have := write_rem io1 R (io.out.drop (nb * C.bs)) (xorB (C.dec N2) iv) (((xorB (C.dec B1) N2).drop 0).take (n - 0))
    ha.out (by simp [ho2, hx1]; omega)
  rw [ha.rlen, ho2] at this
  rw [this]
  simp [List.append_assoc]

/-! ### the CBC decrypt closures -/

theorem cbcDecPar_fold (C : Cipher) : ∀ s chunk, chunk.length = w → cbcDecPar C s chunk = foldBlocks (cbcDecBlock C) s chunk :=
  fun s ch _ => Thm.C02.cbc_decPar_eq_fold C ch s

/-- the main loop of the CBC decrypt closures over the first `nb ≤ k` blocks. -/
theorem cbcDec_main (C : Cipher) (hC : C.Valid) (w nb : Nat) (iv : Bytes) (hiv : iv.length = C.bs)
    (io : IOBuf) (hw : WF io) (hnb : nb ≤ io.len / C.bs) :
    ∃ io1, memCbcDec C w nb 0 iv io = some (io1, (Cts.cbcDec C w iv ((chunks C.bs (src io)).take nb)).2) ∧
      After io io1 nb C.bs (Cts.cbcDec C w iv ((chunks C.bs (src io)).take nb)).1.flatten ∧
      (Cts.cbcDec C w iv ((chunks C.bs (src io)).take nb)).2.length = C.bs := by
  have hbs := hC.bs_pos
  have hle : nb * C.bs ≤ io.len := by
    have := Nat.mul_le_mul_right C.bs hnb
    have h2 := Nat.div_mul_le_self io.len C.bs
    omega
  obtain ⟨io1, h1, ha, hP⟩ := memBlocks_after _ w C.bs hbs (cbcDecBlock C) (cbcDecPar C) (cbcDec_stepOk C hC)
    (cbcDecPar_fold C) nb iv io hiv hw hle
  rw [blocksAt_prefix (src io) C.bs hbs nb (by rw [src_length io hw]; exact hnb)] at h1 ha hP
  have hv : Cts.cbcDec C w iv ((chunks C.bs (src io)).take nb)
      = foldBlocks (cbcDecBlock C) iv ((chunks C.bs (src io)).take nb) := by
    unfold Cts.cbcDec
    exact blocksCtx_eq_fold w _ _ (cbcDecPar_fold C) iv _
  rw [hv]
  exact ⟨io1, h1, ha, hP⟩

theorem cbcCs1Dec_ok (C : Cipher) (hC : C.Valid) (w : Nat) (iv : Bytes) (hiv : iv.length = C.bs)
    (io : IOBuf) (hw : WF io) (hge : C.bs ≤ io.len) :
    ∃ io', MemCts.cbcCs1Dec C w iv io = some io' ∧ io'.out = Cts.cbcCs1Dec C w iv (src io) := by
  have hbs := hC.bs_pos
  have hL := len_split io.len C.bs
  have hk := k_pos io.len C.bs hbs hge
  have hmod := Nat.mod_lt io.len hbs
  have hol : io.out.length = io.len := rfl
  have hsl := src_length io hw
  obtain ⟨ht1, ht2⟩ := tail_whole io hw C.bs hbs
  have hcl : (chunks C.bs (src io)).length = io.len / C.bs := by rw [chunks_length C.bs hbs, hsl]
  unfold MemCts.cbcCs1Dec Cts.cbcCs1Dec
  simp only [ht2, hcl, hsl]
  by_cases htl : io.len % C.bs = 0
  · simp only [htl, ne_eq, not_true_eq_false, if_false, if_true]
    obtain ⟨io1, h1, ha, _⟩ := cbcDec_main C hC w (io.len / C.bs) iv hiv io hw (Nat.le_refl _)
    rw [← hcl, List.take_length] at h1 ha
    rw [hcl] at h1
    simp only [h1]
    refine ⟨io1, rfl, ?_⟩
    rw [ha.out, hcl, List.drop_of_length_le (by omega), List.append_nil]
  · simp only [htl, ne_eq, not_false_eq_true, if_true, if_false, sub?_eq _ _ hk]
    obtain ⟨io1, h1, ha, hP⟩ := cbcDec_main C hC w (io.len / C.bs - 1) iv hiv io hw (by omega)
    have hkb : (io.len / C.bs - 1) * C.bs + C.bs = io.len / C.bs * C.bs := by
      obtain ⟨j, hj⟩ : ∃ j, io.len / C.bs = j + 1 := ⟨io.len / C.bs - 1, by omega⟩
      rw [hj, Nat.add_sub_cancel, Nat.add_mul, Nat.one_mul]
    have hmid : io.len - (C.bs + io.len % C.bs) = (io.len / C.bs - 1) * C.bs := by omega
    simp only [h1, ha.len, sub?_eq _ _ (show C.bs + io.len % C.bs ≤ io.len by omega), hmid]
    exact cbcCs1DecRem_eq C hC io io1 hw _ (io.len % C.bs) _ ha (by omega) (by omega) _ hP

theorem cbcCs2Dec_ok (C : Cipher) (hC : C.Valid) (w : Nat) (iv : Bytes) (hiv : iv.length = C.bs)
    (io : IOBuf) (hw : WF io) (hge : C.bs ≤ io.len) :
    ∃ io', MemCts.cbcCs2Dec C w iv io = some io' ∧ io'.out = Cts.cbcCs2Dec C w iv (src io) := by
  have hbs := hC.bs_pos
  have hL := len_split io.len C.bs
  have hk := k_pos io.len C.bs hbs hge
  have hmod := Nat.mod_lt io.len hbs
  have hol : io.out.length = io.len := rfl
  have hsl := src_length io hw
  obtain ⟨ht1, ht2⟩ := tail_whole io hw C.bs hbs
  have hcl : (chunks C.bs (src io)).length = io.len / C.bs := by rw [chunks_length C.bs hbs, hsl]
  unfold MemCts.cbcCs2Dec Cts.cbcCs2Dec
  simp only [ht2, hcl, hsl]
  by_cases htl : io.len % C.bs = 0
  · simp only [htl, ne_eq, not_true_eq_false, if_false, if_true]
    obtain ⟨io1, h1, ha, _⟩ := cbcDec_main C hC w (io.len / C.bs) iv hiv io hw (Nat.le_refl _)
    rw [← hcl, List.take_length] at h1 ha
    rw [hcl] at h1
    simp only [h1]
    refine ⟨io1, rfl, ?_⟩
    rw [ha.out, hcl, List.drop_of_length_le (by omega), List.append_nil]
  · simp only [htl, ne_eq, not_false_eq_true, if_true, if_false, sub?_eq _ _ hk]
    obtain ⟨io1, h1, ha, hP⟩ := cbcDec_main C hC w (io.len / C.bs - 1) iv hiv io hw (by omega)
    have hkb : (io.len / C.bs - 1) * C.bs + C.bs = io.len / C.bs * C.bs := by
      obtain ⟨j, hj⟩ : ∃ j, io.len / C.bs = j + 1 := ⟨io.len / C.bs - 1, by omega⟩
      rw [hj, Nat.add_sub_cancel, Nat.add_mul, Nat.one_mul]
    have hmid : io.len - (C.bs + io.len % C.bs) = (io.len / C.bs - 1) * C.bs := by omega
    simp only [h1, ha.len, sub?_eq _ _ (show C.bs + io.len % C.bs ≤ io.len by omega), hmid]
    exact cbcCs2DecRem_eq C hC io io1 hw _ (io.len % C.bs) _ ha (by omega) (by omega) _ hP

/-- `div_ceil(bs) - 2` main blocks, then `bs + n` bytes with `0 < n ≤ bs`. -/
theorem ceil_split (L bs : Nat) (hbs : 0 < bs) (h : bs < L) :
    ∃ mb n, (L + bs - 1) / bs - 2 = mb ∧ L = mb * bs + bs + n ∧ 0 < n ∧ n ≤ bs ∧ mb ≤ L / bs := by
  have hL := len_split L bs
  have hmod := Nat.mod_lt L hbs
  have hk : 1 ≤ L / bs := k_pos L bs hbs (by omega)
  by_cases ht : L % bs = 0
  · -- L = k·bs, k ≥ 2
    have hk2 : 2 ≤ L / bs := by
      apply Classical.byContradiction; intro hc
      have : L / bs = 1 := by omega
      rw [this] at hL; omega
    refine ⟨L / bs - 2, bs, ?_, ?_, hbs, Nat.le_refl _, by omega⟩
    · have e : L + bs - 1 = (bs - 1) + (L / bs) * bs := by omega
      rw [e, Nat.add_mul_div_right _ _ hbs, Nat.div_eq_of_lt (by omega)]; omega
    · obtain ⟨j, hj⟩ : ∃ j, L / bs = j + 2 := ⟨L / bs - 2, by omega⟩
      rw [hj] at hL ⊢
      rw [Nat.add_sub_cancel]
      rw [Nat.add_mul] at hL; omega
  · refine ⟨L / bs - 1, L % bs, ?_, ?_, by omega, by omega, by omega⟩
    · have e : L + bs - 1 = (L % bs - 1) + (L / bs + 1) * bs := by rw [Nat.add_mul]; omega
      rw [e, Nat.add_mul_div_right _ _ hbs, Nat.div_eq_of_lt (by omega)]; omega
    · obtain ⟨j, hj⟩ : ∃ j, L / bs = j + 1 := ⟨L / bs - 1, by omega⟩
      rw [hj] at hL ⊢
      rw [Nat.add_sub_cancel]
      rw [Nat.add_mul] at hL; omega

theorem cbcCs3Dec_ok (C : Cipher) (hC : C.Valid) (w : Nat) (iv : Bytes) (hiv : iv.length = C.bs)
    (io : IOBuf) (hw : WF io) (hge : C.bs ≤ io.len) :
    ∃ io', MemCts.cbcCs3Dec C w iv io = some io' ∧ io'.out = Cts.cbcCs3Dec false C w iv (src io) := by
  have hbs := hC.bs_pos
  have hol : io.out.length = io.len := rfl
  have hsl := src_length io hw
  have hcl : (chunks C.bs (src io)).length = io.len / C.bs := by rw [chunks_length C.bs hbs, hsl]
  unfold MemCts.cbcCs3Dec Cts.cbcCs3Dec
  simp only [hsl, Bool.not_false, true_and]
  by_cases h1b : io.len = C.bs
  · simp only [h1b, if_true]
    obtain ⟨io1, h1, ha, _⟩ := cbcDec_main C hC w (io.len / C.bs) iv hiv io hw (Nat.le_refl _)
    rw [← hcl, List.take_length] at h1 ha
    rw [hcl, h1b] at h1
    simp only [h1, Option.map_some]
    refine ⟨io1, rfl, ?_⟩
    rw [ha.out, hcl, List.drop_of_length_le (by rw [h1b, Nat.div_self hbs]; omega), List.append_nil]
  · simp only [h1b, if_false]
    obtain ⟨mb, n, hmb, hLn, hn0, hn, hmbk⟩ := ceil_split io.len C.bs hbs (by omega)
    have hcomm : C.bs * mb = mb * C.bs := Nat.mul_comm _ _
    simp only [hmb, hcomm, Nat.mul_mod_left, Nat.mul_div_cancel _ hbs]
    have hc1 : ¬ mb * C.bs > io.len := by omega
    simp only [hc1, if_false, ne_eq, not_true_eq_false]
    obtain ⟨io1, h1, ha, hP⟩ := cbcDec_main C hC w mb iv hiv io hw hmbk
    rw [Spec.chunks_take_blocks C.bs hbs (src io) mb (by rw [hcl]; exact hmbk)]
    simp only [h1]
    exact cbcCs2DecRem_eq C hC io io1 hw mb n _ ha hLn hn _ hP

/-! ### ECB -/

/-- the main loop of the ECB closures over the first `nb ≤ k` blocks (`f` = E or D). -/
theorem ecb_main (f : Bytes → Bytes) (bs : Nat) (hbs : 0 < bs) (hf : ∀ x, x.length = bs → (f x).length = bs)
    (w nb : Nat) (io : IOBuf) (hw : WF io) (hnb : nb ≤ io.len / bs) :
    ∃ io1, memEcb f w bs nb 0 io = some io1 ∧ After io io1 nb bs (((chunks bs (src io)).take nb).map f).flatten := by
  have hle : nb * bs ≤ io.len := by
    have := Nat.mul_le_mul_right bs hnb
    have h2 := Nat.div_mul_le_self io.len bs
    omega
  obtain ⟨io1, h1, ha, _⟩ := memBlocks_after _ w bs hbs (fun (_ : Unit) b => (f b, ())) (fun _ ch => (ch.map f, ()))
    (unit_stepOk f bs hf) (fun s ch _ => by cases s; rw [foldBlocks_unit_map]) nb () io trivial hw hle
  rw [blocksAt_prefix (src io) bs hbs nb (by rw [src_length io hw]; exact hnb), foldBlocks_unit_map] at h1 ha
  exact ⟨io1, by simp only [memEcb, h1, Option.map_some], ha⟩

/-- the last output block after the main loop -/
theorem last_block_after (io io1 : IOBuf) (bs : Nat) (outs : List Bytes) (houts : ∀ b ∈ outs, b.length = bs)
    (hk : 1 ≤ outs.length) (ha : After io io1 outs.length bs outs.flatten) :
    io1.out = outs.dropLast.flatten ++ outs.getLastD [] ++ io.out.drop (outs.length * bs) ∧
    outs.dropLast.flatten.length = (outs.length - 1) * bs ∧ (outs.getLastD []).length = bs ∧
    (outs.length - 1) * bs + bs = outs.length * bs := by
  refine ⟨by rw [ha.out, flatten_split_last outs hk], ?_, ?_, ?_⟩
  · rw [flatten_length_of_allLen bs _ (fun b hb => houts b (List.dropLast_subset outs hb)), List.length_dropLast]
  · rw [← Spec.getD_last outs [] (by omega)]; exact houts _ (Thm.C05aux.getD_mem _ _ _ (by omega))
  · obtain ⟨j, hj⟩ : ∃ j, outs.length = j + 1 := ⟨outs.length - 1, by omega⟩
    rw [hj, Nat.add_sub_cancel, Nat.add_mul, Nat.one_mul]

/-- `block[..n] = tail; block[n..] = last_block[n..]` -/
theorem build_block (bs : Nat) (tail last : Bytes) (ht : tail.length ≤ bs) (hl : last.length = bs) :
    slice? last tail.length last.length = some (last.drop tail.length) ∧
    blockSet? (padTail bs tail) tail.length (padTail bs tail).length (last.drop tail.length)
      = some (tail ++ last.drop tail.length) := by
  have hpl : (padTail bs tail).length = bs := by simp [padTail]; omega
  constructor
  · rw [slice?_eq _ _ _ (by omega) (Nat.le_refl _)]
    congr 1
    exact List.take_of_length_le (by rw [List.length_drop]; exact Nat.le_refl _)
  · rw [blockSet?_eq _ _ _ _ (by omega) (Nat.le_refl _) (by rw [List.length_drop, hpl, hl])]
    congr 1
    simp only [setRng, padTail]
    have h1 : (tail ++ zeros (bs - tail.length)).take tail.length = tail := List.take_left' rfl
    have h2 : (tail ++ zeros (bs - tail.length)).drop (tail.length + (last.drop tail.length).length) = [] :=
      List.drop_of_length_le (by simp [hl] <;> omega)
    rw [h1, h2, List.append_nil]

theorem ecbCs1Enc_ok (C : Cipher) (hC : C.Valid) (w : Nat) (io : IOBuf) (hw : WF io) (hge : C.bs ≤ io.len) :
    ∃ io', MemCts.ecbCs1Enc C w io = some io' ∧ io'.out = Cts.ecbCs1Enc C w (src io) := by
  have hbs := hC.bs_pos
  have hL := len_split io.len C.bs
  have hk := k_pos io.len C.bs hbs hge
  have hmod := Nat.mod_lt io.len hbs
  have hol : io.out.length = io.len := rfl
  have hsl := src_length io hw
  obtain ⟨ht1, ht2⟩ := tail_whole io hw C.bs hbs
  have hcl : (chunks C.bs (src io)).length = io.len / C.bs := by rw [chunks_length C.bs hbs, hsl]
  obtain ⟨io1, h1, ha⟩ := ecb_main C.enc C.bs hbs hC.enc_len w (io.len / C.bs) io hw (Nat.le_refl _)
  rw [← hcl, List.take_length, hcl] at ha
  unfold MemCts.ecbCs1Enc Cts.ecbCs1Enc
  simp only [h1, ht2, hsl, Thm.C05aux.ecbEnc_map]
  by_cases htl : io.len % C.bs = 0
  · simp only [htl, if_true]
    refine ⟨io1, rfl, ?_⟩
    rw [ha.out, List.drop_of_length_le (by omega), List.append_nil]
  · simp only [htl, if_false, sub?_eq _ _ hk]
    generalize houts : (chunks C.bs (src io)).map C.enc = outs at *
    have houtsl : outs.length = io.len / C.bs := by rw [← houts, List.length_map, hcl]
    have hall : ∀ b ∈ outs, b.length = C.bs := by
      rw [← houts]; exact Thm.C05aux.map_enc_allLen C hC _ (chunks_allLen C.bs hbs _)
    rw [← houtsl] at ha
    obtain ⟨hout1, hA, hB, hkb⟩ := last_block_after io io1 C.bs outs hall (by omega) ha
    rw [houtsl] at ha hout1 hA hkb
    rw [getOut?_eq io1 _ _ (by rw [ha.len]; omega)]
    try dsimp only
    rw [hout1, rng_mid _ _ _ _ _ hA.symm hB.symm]
    rw [padFromTail_eq io io1 hw C.bs hbs _ _ ha (Nat.le_refl _)]
    try dsimp only
    obtain ⟨hs1, hs2⟩ := build_block C.bs (chunksTail C.bs (src io)) (outs.getLastD []) (by omega) hB
    rw [ht2] at hs1 hs2
    rw [hs1]; try dsimp only
    rw [hs2]; try dsimp only
    have hbl : (C.enc (chunksTail C.bs (src io) ++ (outs.getLastD []).drop (io.len % C.bs))).length = C.bs :=
      hC.enc_len _ (by rw [List.length_append, List.length_drop, ht2, hB]; omega)
    rw [hbl, ha.len, sub?_eq _ _ hge]
    try dsimp only
    rw [setOut?_eq io1 _ _ _ (by rw [ha.len]; omega) (by rw [hbl]; omega)]
    refine ⟨_, rfl, ?_⟩
    simp only [IOBuf.setOut, setRng, ha.out]
    rw [List.take_append_of_le_length (by rw [ha.rlen]; omega)]
    have hd : (outs.flatten ++ io.out.drop (io.len / C.bs * C.bs)).drop (io.len - C.bs +
        (C.enc (chunksTail C.bs (src io) ++ (outs.getLastD []).drop (io.len % C.bs))).length) = [] :=
      List.drop_of_length_le (by simp only [List.length_append, List.length_drop, ha.rlen, hbl]; omega)
    rw [hd, List.append_nil]

/-- the un-stealing step of ECB-CS1 decrypt on `buf[mid..]`. -/
theorem ecbCs1DecRem_eq (C : Cipher) (hC : C.Valid) (io io1 : IOBuf) (hw : WF io) (nb n : Nat) (R : Bytes)
    (ha : After io io1 nb C.bs R) (hlen : io.len = nb * C.bs + C.bs + n) (hn : n ≤ C.bs) :
    ∃ io2, ecbCs1DecRem C io1 (nb * C.bs) = some io2 ∧
      io2.out = R ++ ecbCs1DecTail C ((src io).drop (nb * C.bs)) := by
  have hbs := hC.bs_pos
  have hsl := src_length io hw
  have hol : io.out.length = io.len := rfl
  generalize hm : src io = m at *
  have hremL : (m.drop (nb * C.bs)).length = C.bs + n := by rw [List.length_drop, hsl]; omega
  unfold ecbCs1DecRem ecbCs1DecTail
  dsimp only
  rw [ha.len, show io.len - nb * C.bs = C.bs + n by omega, sub?_eq _ _ (by omega), Nat.add_sub_cancel_left]
  dsimp only
  rw [read_after io io1 nb C.bs R ha _ _ (Nat.le_refl _) (by omega), hm]
  dsimp only
  have hc : ¬ (n > C.bs + n ∨ C.bs + n - n ≠ C.bs) := by omega
  rw [if_neg hc, read_after io io1 nb C.bs R ha _ _ (by omega) (by omega), hm]
  dsimp only
  have hb1 : rng m (nb * C.bs) C.bs = (m.drop (nb * C.bs)).take C.bs := rfl
  have hb2 : rng m (nb * C.bs + n) C.bs = (m.drop (nb * C.bs)).drop n := by
    simp only [rng, ← List.drop_drop]
    exact List.take_of_length_le (by rw [List.length_drop, hremL]; omega)
  rw [hb1, hb2, hremL, Nat.add_sub_cancel_left]
  generalize hB1 : (m.drop (nb * C.bs)).take C.bs = B1
  generalize hB2 : (m.drop (nb * C.bs)).drop n = B2
  have hB1l : B1.length = C.bs := by rw [← hB1, List.length_take, hremL]; omega
  have hB2l : B2.length = C.bs := by rw [← hB2, List.length_drop, hremL]; omega
  have hd2 : (C.dec B2).length = C.bs := hC.dec_len _ hB2l
  rw [slice?_eq _ _ _ (by omega) (Nat.le_refl _), hd2]
  dsimp only
  have hsl2 : ((C.dec B2).drop n).take (C.bs - n) = (C.dec B2).drop n :=
    List.take_of_length_le (by rw [List.length_drop, hd2]; omega)
  rw [hsl2, blockSet?_eq _ _ _ _ (by omega) (Nat.le_refl _) (by rw [List.length_drop, hd2, hB1l])]
  dsimp only
  have hset : setRng B1 n ((C.dec B2).drop n) = B1.take n ++ (C.dec B2).drop n := by
    simp only [setRng]
    have : B1.drop (n + ((C.dec B2).drop n).length) = [] :=
      List.drop_of_length_le (by rw [List.length_drop, hd2, hB1l]; omega)
    rw [this, List.append_nil]
  rw [hset]
  generalize hN1 : B1.take n ++ (C.dec B2).drop n = N1
  have hN1l : N1.length = C.bs := by rw [← hN1, List.length_append, List.length_take, List.length_drop, hd2, hB1l]; omega
  have ho1 : (C.dec N1).length = C.bs := hC.dec_len _ hN1l
  rw [setOut?_eq io1 _ _ _ (by rw [ha.len]; omega) ho1]
  dsimp only
  rw [slice?_eq _ 0 n (Nat.zero_le _) (by rw [hd2]; exact hn)]
  dsimp only
  have hl2 : (io1.setOut (nb * C.bs) (C.dec N1)).len = io.len := by
    rw [setOut_len _ _ _ (by rw [ha.len, ho1]; omega), ha.len]
  rw [setOut?_eq _ _ _ _ (by rw [hl2]; omega) (by simp [hd2]; omega)]
  refine ⟨_, rfl, ?_⟩
  have := write_rem io1 R (io.out.drop (nb * C.bs)) (C.dec N1) (((C.dec B2).drop 0).take (n - 0))
    ha.out (by simp [ho1, hd2]; omega)
  rw [ha.rlen, ho1] at this
  rw [this]
  simp [List.append_assoc]

theorem ecbCs1Dec_ok (C : Cipher) (hC : C.Valid) (w : Nat) (io : IOBuf) (hw : WF io) (hge : C.bs ≤ io.len) :
    ∃ io', MemCts.ecbCs1Dec C w io = some io' ∧ io'.out = Cts.ecbCs1Dec C w (src io) := by
  have hbs := hC.bs_pos
  have hL := len_split io.len C.bs
  have hk := k_pos io.len C.bs hbs hge
  have hmod := Nat.mod_lt io.len hbs
  have hol : io.out.length = io.len := rfl
  have hsl := src_length io hw
  obtain ⟨ht1, ht2⟩ := tail_whole io hw C.bs hbs
  have hcl : (chunks C.bs (src io)).length = io.len / C.bs := by rw [chunks_length C.bs hbs, hsl]
  unfold MemCts.ecbCs1Dec Cts.ecbCs1Dec
  simp only [ht2, hcl, hsl, Thm.C05aux.ecbDec_map]
  by_cases htl : io.len % C.bs = 0
  · simp only [htl, ne_eq, not_true_eq_false, if_false, if_true]
    obtain ⟨io1, h1, ha⟩ := ecb_main C.dec C.bs hbs hC.dec_len w (io.len / C.bs) io hw (Nat.le_refl _)
    rw [← hcl, List.take_length, hcl] at ha
    simp only [h1]
    refine ⟨io1, rfl, ?_⟩
    rw [ha.out, List.drop_of_length_le (by omega), List.append_nil]
  · simp only [htl, ne_eq, not_false_eq_true, if_true, if_false, sub?_eq _ _ hk]
    obtain ⟨io1, h1, ha⟩ := ecb_main C.dec C.bs hbs hC.dec_len w (io.len / C.bs - 1) io hw (by omega)
    have hkb : (io.len / C.bs - 1) * C.bs + C.bs = io.len / C.bs * C.bs := by
      obtain ⟨j, hj⟩ : ∃ j, io.len / C.bs = j + 1 := ⟨io.len / C.bs - 1, by omega⟩
      rw [hj, Nat.add_sub_cancel, Nat.add_mul, Nat.one_mul]
    have hmid : io.len - (C.bs + io.len % C.bs) = (io.len / C.bs - 1) * C.bs := by omega
    simp only [h1, ha.len, sub?_eq _ _ (show C.bs + io.len % C.bs ≤ io.len by omega), hmid]
    exact ecbCs1DecRem_eq C hC io io1 hw _ (io.len % C.bs) _ ha (by omega) (by omega)

/-- the stealing / un-stealing step shared by ECB-CS2 and ECB-CS3 after the main loop (`f` = E or D). -/
theorem ecbStealMem_eq (f : Bytes → Bytes) (bs : Nat) (hbs : 0 < bs) (hf : ∀ x, x.length = bs → (f x).length = bs)
    (io io1 : IOBuf) (hw : WF io) (hge : bs ≤ io.len)
    (outs : List Bytes) (houts : ∀ b ∈ outs, b.length = bs) (hol : outs.length = io.len / bs)
    (ha : After io io1 (io.len / bs) bs outs.flatten) (htl : io.len % bs ≠ 0) :
    ∃ io2, ecbStealMem f io1 bs (io.len / bs) (io.len % bs) = some io2 ∧
      io2.out = outs.dropLast.flatten ++ f (chunksTail bs (src io) ++ (outs.getLastD []).drop (io.len % bs))
                  ++ (outs.getLastD []).take (io.len % bs) := by
  have hL := len_split io.len bs
  have hk := k_pos io.len bs hbs hge
  have hmod := Nat.mod_lt io.len hbs
  have holen : io.out.length = io.len := rfl
  obtain ⟨ht1, ht2⟩ := tail_whole io hw bs hbs
  rw [← hol] at ha
  obtain ⟨hout1, hA, hB, hkb⟩ := last_block_after io io1 bs outs houts (by omega) ha
  rw [hol] at ha hout1 hA hkb
  have hX : (io.out.drop (io.len / bs * bs)).length = io.len % bs := by simp; omega
  unfold ecbStealMem
  simp only [sub?_eq _ _ hk]
  rw [getOut?_eq io1 _ _ (by rw [ha.len]; omega)]
  dsimp only
  rw [hout1, rng_mid _ _ _ _ _ hA.symm hB.symm]
  rw [padFromTail_eq io io1 hw bs hbs _ _ ha (Nat.le_refl _)]
  dsimp only
  obtain ⟨hs1, hs2⟩ := build_block bs (chunksTail bs (src io)) (outs.getLastD []) (by omega) hB
  rw [ht2] at hs1 hs2
  rw [hs1]; try dsimp only
  rw [hs2]; try dsimp only
  have hbl : (f (chunksTail bs (src io) ++ (outs.getLastD []).drop (io.len % bs))).length = bs :=
    hf _ (by rw [List.length_append, List.length_drop, ht2, hB]; omega)
  simp only [slice?_eq _ 0 (io.len % bs) (Nat.zero_le _) (by rw [hB]; omega), List.drop_zero, Nat.sub_zero]
  rw [setOut?_eq io1 _ _ _ (by rw [ha.len]; omega) (by rw [List.length_take, hB]; omega)]
  try dsimp only
  have hl2 : (io1.setOut (io.len / bs * bs) ((outs.getLastD []).take (io.len % bs))).len = io.len := by
    rw [setOut_len _ _ _ (by rw [ha.len, List.length_take, hB]; omega), ha.len]
  rw [setOut?_eq _ _ _ _ (by rw [hl2]; omega) hbl]
  refine ⟨_, rfl, ?_⟩
  simp only [IOBuf.setOut, hout1]
  have e1 : outs.dropLast.flatten ++ outs.getLastD [] ++ io.out.drop (io.len / bs * bs)
      = (outs.dropLast.flatten ++ outs.getLastD []) ++ io.out.drop (io.len / bs * bs) ++ [] := by simp
  rw [e1, setRng_mid _ _ _ _ _ (by rw [List.length_append, hA, hB]; omega) (by rw [List.length_take, hB, hX]; omega)]
  have e2 : outs.dropLast.flatten ++ outs.getLastD [] ++ (outs.getLastD []).take (io.len % bs) ++ []
      = outs.dropLast.flatten ++ outs.getLastD [] ++ (outs.getLastD []).take (io.len % bs) := by simp
  rw [e2, setRng_mid _ _ _ _ _ hA.symm (by rw [hbl, hB])]

theorem ecbCs2_ok (f : Bytes → Bytes) (bs : Nat) (hbs : 0 < bs) (hf : ∀ x, x.length = bs → (f x).length = bs)
    (w : Nat) (io : IOBuf) (hw : WF io) (hge : bs ≤ io.len) :
    ∃ io', MemCts.ecbCs2 f w bs io = some io' ∧
      io'.out = (if (chunksTail bs (src io)).length = 0 then ((chunks bs (src io)).map f).flatten
        else ((chunks bs (src io)).map f).dropLast.flatten
          ++ f (chunksTail bs (src io) ++ (((chunks bs (src io)).map f).getLastD []).drop (chunksTail bs (src io)).length)
          ++ (((chunks bs (src io)).map f).getLastD []).take (chunksTail bs (src io)).length) := by
  have hL := len_split io.len bs
  have hol : io.out.length = io.len := rfl
  have hsl := src_length io hw
  obtain ⟨ht1, ht2⟩ := tail_whole io hw bs hbs
  have hcl : (chunks bs (src io)).length = io.len / bs := by rw [chunks_length bs hbs, hsl]
  obtain ⟨io1, h1, ha⟩ := ecb_main f bs hbs hf w (io.len / bs) io hw (Nat.le_refl _)
  rw [← hcl, List.take_length, hcl] at ha
  unfold MemCts.ecbCs2
  simp only [h1, ht2]
  by_cases htl : io.len % bs = 0
  · simp only [htl, if_true]
    refine ⟨io1, rfl, ?_⟩
    rw [ha.out, List.drop_of_length_le (by omega), List.append_nil]
  · simp only [htl, if_false]
    have hall : ∀ b ∈ (chunks bs (src io)).map f, b.length = bs := by
      intro b hb
      simp only [List.mem_map] at hb
      obtain ⟨x, hx, rfl⟩ := hb
      exact hf x (chunks_allLen bs hbs _ x hx)
    exact ecbStealMem_eq f bs hbs hf io io1 hw hge _ hall (by rw [List.length_map, hcl]) ha htl

theorem ecbCs3_ok (f : Bytes → Bytes) (bs : Nat) (hbs : 0 < bs) (hf : ∀ x, x.length = bs → (f x).length = bs)
    (w : Nat) (io : IOBuf) (hw : WF io) (hge : bs ≤ io.len) :
    ∃ io', MemCts.ecbCs3 f w bs io = some io' ∧
      io'.out = (if (chunksTail bs (src io)).length = 0 then
          (if (chunks bs (src io)).length > 1 then (swapLast2 ((chunks bs (src io)).map f)).flatten
           else ((chunks bs (src io)).map f).flatten)
        else ((chunks bs (src io)).map f).dropLast.flatten
          ++ f (chunksTail bs (src io) ++ (((chunks bs (src io)).map f).getLastD []).drop (chunksTail bs (src io)).length)
          ++ (((chunks bs (src io)).map f).getLastD []).take (chunksTail bs (src io)).length) := by
  have hL := len_split io.len bs
  have hol : io.out.length = io.len := rfl
  have hsl := src_length io hw
  obtain ⟨ht1, ht2⟩ := tail_whole io hw bs hbs
  have hcl : (chunks bs (src io)).length = io.len / bs := by rw [chunks_length bs hbs, hsl]
  obtain ⟨io1, h1, ha⟩ := ecb_main f bs hbs hf w (io.len / bs) io hw (Nat.le_refl _)
  rw [← hcl, List.take_length, hcl] at ha
  have hall : ∀ b ∈ (chunks bs (src io)).map f, b.length = bs := by
    intro b hb
    simp only [List.mem_map] at hb
    obtain ⟨x, hx, rfl⟩ := hb
    exact hf x (chunks_allLen bs hbs _ x hx)
  unfold MemCts.ecbCs3
  simp only [h1, ht2, hcl]
  by_cases htl : io.len % bs = 0
  · simp only [htl, if_true]
    have hout1 : io1.out = ((chunks bs (src io)).map f).flatten := by
      rw [ha.out, List.drop_of_length_le (by omega), List.append_nil]
    by_cases hk1 : io.len / bs > 1
    · simp only [hk1, if_true]
      have := swapLast2Mem_eq io1 bs _ hall (by rw [List.length_map, hcl]; omega) hout1
      rw [List.length_map, hcl] at this
      exact this
    · simp only [hk1, if_false]
      exact ⟨io1, rfl, hout1⟩
  · simp only [htl, if_false]
    exact ecbStealMem_eq f bs hbs hf io io1 hw hge _ hall (by rw [List.length_map, hcl]) ha htl

end Impl.MemCts
