import BlockModes.Lemmas.MemLoop
import BlockModes.Lemmas.Cts
import BlockModes.Lemmas.Xor
/-
  Lemmas/MemCts.lean — each checked, memory-level closure of `Impl/MemCts.lean` succeeds on every buffer of at
  least one block and leaves in the output view exactly what the value-level mirror `Impl.Cts.*` computes from
  the bytes the input view showed — in place (`alias = true`) and buffer-to-buffer (`alias = false`, any
  previous output contents) alike.
-/
namespace Impl.MemCts
open Glue Impl.Cts

/-! ### what is known after the main loop over the first `nb` blocks -/

structure After (io io1 : IOBuf) (nb bs : Nat) (R : Bytes) : Prop where
  out : io1.out = R ++ io.out.drop (nb * bs)
  rlen : R.length = nb * bs
  len : io1.len = io.len
  wf : WF io1
  src : ∀ o, nb * bs ≤ o → (src io1).drop o = (src io).drop o

theorem memBlocks_after {σ : Type} (P : σ → Prop) (w bs : Nat) (hbs : 0 < bs) (step : σ → Bytes → Bytes × σ)
    (par : σ → List Bytes → List Bytes × σ) (hstep : StepOk P step bs)
    (hpar : ∀ s chunk, chunk.length = w → par s chunk = foldBlocks step s chunk)
    (nb : Nat) (s : σ) (io : IOBuf) (hs : P s) (hw : WF io) (hb : nb * bs ≤ io.len) :
    ∃ io1, memBlocks w bs step par nb 0 s io = some (io1, (foldBlocks step s (blocksAt (src io) bs nb 0)).2) ∧
      After io io1 nb bs (foldBlocks step s (blocksAt (src io) bs nb 0)).1.flatten ∧
      P (foldBlocks step s (blocksAt (src io) bs nb 0)).2 := by
  obtain ⟨io1, h1, h2, h3, h4⟩ := memBlocks_spec P w bs hbs step par hstep hpar nb 0 s io hs hw (by omega)
  have hsl := src_length io hw
  have hall := blocksAt_allLen (src io) bs nb 0 (by omega)
  have hR := foldBlocks_flatten_length P step bs hstep _ s hs hall
  rw [blocksAt_length] at hR
  simp only [List.take_zero, List.nil_append, Nat.zero_add] at h2
  have h2' : io1.out = io.out.take 0 ++ (foldBlocks step s (blocksAt (src io) bs nb 0)).1.flatten
      ++ io.out.drop (0 + nb * bs) := by simpa using h2
  have hl := len_after io io1 0 (nb * bs) _ hR (by omega) h2'
  refine ⟨io1, h1, ⟨h2, hR, hl, WF_after io io1 hl h3 h4 hw, ?_⟩, (foldBlocks_inv P step bs hstep _ s hs hall).2⟩
  intro o ho
  exact src_after io io1 0 (nb * bs) _ hR (by omega) h2' h3 h4 o (by omega)

theorem memLoop_after {σ : Type} (P : σ → Prop) (bs : Nat) (step : σ → Bytes → Bytes × σ) (hstep : StepOk P step bs)
    (nb : Nat) (s : σ) (io : IOBuf) (hs : P s) (hw : WF io) (hb : nb * bs ≤ io.len) :
    ∃ io1, memLoop step bs nb 0 s io = some (io1, (foldBlocks step s (blocksAt (src io) bs nb 0)).2) ∧
      After io io1 nb bs (foldBlocks step s (blocksAt (src io) bs nb 0)).1.flatten ∧
      P (foldBlocks step s (blocksAt (src io) bs nb 0)).2 := by
  obtain ⟨io1, h1, h2, h3, h4⟩ := memLoop_spec P step bs hstep nb 0 s io hs hw (by omega)
  have hsl := src_length io hw
  have hall := blocksAt_allLen (src io) bs nb 0 (by omega)
  have hR := foldBlocks_flatten_length P step bs hstep _ s hs hall
  rw [blocksAt_length] at hR
  have h2' := h2
  simp only [List.take_zero, List.nil_append, Nat.zero_add] at h2
  have hl := len_after io io1 0 (nb * bs) _ hR (by omega) h2'
  refine ⟨io1, h1, ⟨h2, hR, hl, WF_after io io1 hl h3 h4 hw, ?_⟩, (foldBlocks_inv P step bs hstep _ s hs hall).2⟩
  intro o ho
  exact src_after io io1 0 (nb * bs) _ hR (by omega) h2' h3 h4 o (by omega)

/-! ### the step functions are length-preserving while the chaining value has one block -/

theorem cbcEnc_stepOk (C : Cipher) (hC : C.Valid) : StepOk (fun iv : Bytes => iv.length = C.bs) (cbcEncBlock C) C.bs := by
  intro s b hs hb
  have hx : (xorB b s).length = C.bs := by simp [hs, hb]
  exact ⟨hC.enc_len _ hx, hC.enc_len _ hx⟩

theorem cbcDec_stepOk (C : Cipher) (hC : C.Valid) : StepOk (fun iv : Bytes => iv.length = C.bs) (cbcDecBlock C) C.bs := by
  intro s b hs hb
  exact ⟨by simp [cbcDecBlock, hC.dec_len b hb, hs], hb⟩

theorem unit_stepOk (f : Bytes → Bytes) (bs : Nat) (hf : ∀ x, x.length = bs → (f x).length = bs) :
    StepOk (fun (_ : Unit) => True) (fun (_ : Unit) b => (f b, ())) bs := by
  intro s b _ hb
  exact ⟨hf b hb, trivial⟩

/-! ### arithmetic and the blocks of the whole buffer -/

theorem len_split (L bs : Nat) : L = L / bs * bs + L % bs := by
  have := Nat.div_add_mod L bs; rw [Nat.mul_comm] at this; omega

theorem k_pos (L bs : Nat) (hbs : 0 < bs) (h : bs ≤ L) : 1 ≤ L / bs := (Nat.one_le_div_iff hbs).mpr h

theorem blocks_whole (io : IOBuf) (hw : WF io) (bs : Nat) (hbs : 0 < bs) :
    blocksAt (src io) bs (io.len / bs) 0 = chunks bs (src io) := by
  rw [← src_length io hw]; exact blocksAt_eq_chunks (src io) bs hbs

theorem tail_whole (io : IOBuf) (hw : WF io) (bs : Nat) (hbs : 0 < bs) :
    chunksTail bs (src io) = (src io).drop (io.len / bs * bs) ∧ (chunksTail bs (src io)).length = io.len % bs := by
  rw [← src_length io hw]
  exact ⟨chunksTail_eq_drop bs hbs _, chunksTail_length bs hbs _⟩

/-- `block = 0; block[..tail.len()].copy_from_slice(tail.get_in())` after the main loop -/
theorem padFromTail_eq (io io1 : IOBuf) (hw : WF io) (bs : Nat) (hbs : 0 < bs) (nb : Nat) (R : Bytes)
    (ha : After io io1 nb bs R) (hnb : nb ≤ io.len / bs) :
    padFromTail io1 bs (io.len / bs) (io.len % bs) = some (padTail bs (chunksTail bs (src io))) := by
  have hL := len_split io.len bs
  obtain ⟨ht1, ht2⟩ := tail_whole io hw bs hbs
  have hsl := src_length io hw
  have hsl1 := src_length io1 ha.wf
  have hmod := Nat.mod_lt io.len hbs
  have hnbk : nb * bs ≤ io.len / bs * bs := Nat.mul_le_mul_right _ hnb
  unfold padFromTail
  rw [getIn?_eq io1 _ _ (by rw [ha.len]; omega)]
  have hr : rng (src io1) (io.len / bs * bs) (io.len % bs) = chunksTail bs (src io) := by
    rw [rng_congr (src io1) (src io) (io.len / bs * bs) _ _ (ha.src _ hnbk) (Nat.le_refl _),
      rng_all _ _ _ (by rw [hsl]; omega), ht1]
  simp only [hr]
  rw [blockSet?_eq _ _ _ _ (Nat.zero_le _) (by simp; omega) (by rw [ht2]; omega)]
  simp [setRng, padTail, zeros, ht2]

/-! ### CBC-CS1 encrypt -/

theorem cbcCs1Enc_ok (C : Cipher) (hC : C.Valid) (w : Nat) (iv : Bytes) (hiv : iv.length = C.bs)
    (io : IOBuf) (hw : WF io) (hge : C.bs ≤ io.len) :
    ∃ io', MemCts.cbcCs1Enc C w iv io = some io' ∧ io'.out = Cts.cbcCs1Enc C w iv (src io) := by
  have hbs := hC.bs_pos
  have hL := len_split io.len C.bs
  have hk := k_pos io.len C.bs hbs hge
  have hsl := src_length io hw
  have hol : io.out.length = io.len := rfl
  obtain ⟨ht1, ht2⟩ := tail_whole io hw C.bs hbs
  obtain ⟨io1, h1, ha, hP⟩ := memLoop_after _ C.bs (cbcEncBlock C) (cbcEnc_stepOk C hC) (io.len / C.bs) iv io hiv hw (by omega)
  rw [blocks_whole io hw C.bs hbs] at h1 ha hP
  unfold MemCts.cbcCs1Enc Cts.cbcCs1Enc
  simp only [memCbcEnc, h1, ht2, Cts.cbcEnc]
  by_cases htl : io.len % C.bs = 0
  · simp only [htl, if_true]
    refine ⟨io1, rfl, ?_⟩
    rw [ha.out, List.drop_of_length_le (by omega), List.append_nil]
  · simp only [htl, if_false, ha.len]
    rw [padFromTail_eq io io1 hw C.bs hbs _ _ ha (Nat.le_refl _)]
    simp only [sub?_eq _ _ hge]
    have hpl : (padTail C.bs (chunksTail C.bs (src io))).length = C.bs := by
      simp [padTail, ht2]; have := Nat.mod_lt io.len hbs; omega
    have hbl : (C.enc (xorB (padTail C.bs (chunksTail C.bs (src io)))
        (foldBlocks (cbcEncBlock C) iv (chunks C.bs (src io))).2)).length = C.bs :=
      hC.enc_len _ (by simp [hpl, hP])
    rw [setOut?_eq io1 _ _ _ (by rw [ha.len]; omega) (by rw [hbl]; omega)]
    refine ⟨_, rfl, ?_⟩
    simp only [IOBuf.setOut, setRng, ha.out, hsl]
    have hmod := Nat.mod_lt io.len hbs
    rw [List.take_append_of_le_length (by rw [ha.rlen]; omega)]
    rw [List.drop_of_length_le (by simp only [List.length_append, List.length_drop, ha.rlen, hbl]; omega), List.append_nil]

/-! ### list surgery on a buffer written as explicit pieces -/

theorem rng_mid (A B D : Bytes) (off len : Nat) (h1 : off = A.length) (h2 : len = B.length) :
    rng (A ++ B ++ D) off len = B := by
  subst h1 h2
  simp [rng]

theorem setRng_mid (A B D v : Bytes) (off : Nat) (h1 : off = A.length) (hv : v.length = B.length) :
    setRng (A ++ B ++ D) off v = A ++ v ++ D := by
  subst h1
  simp only [setRng, List.append_assoc]
  rw [List.take_left' rfl, hv, ← List.drop_drop, List.drop_left' rfl, List.drop_left' rfl]

theorem flatten_split_last (outs : List Bytes) (h : 1 ≤ outs.length) :
    outs.flatten = outs.dropLast.flatten ++ outs.getLastD [] := by
  have := Thm.C05aux.split_dropLast outs [] (by omega)
  conv => lhs; rw [this]
  simp

theorem blocksAt_prefix (m : Bytes) (bs : Nat) (hbs : 0 < bs) (j : Nat) (hj : j ≤ m.length / bs) :
    blocksAt m bs j 0 = (chunks bs m).take j := by
  have hjl : j * bs ≤ m.length := by
    have := Nat.mul_le_mul_right bs hj
    have h2 := Nat.div_mul_le_self m.length bs
    omega
  rw [← blocksAt_eq_chunks_rng m bs hbs j 0 (by omega), ← Spec.chunks_take_blocks bs hbs m j (by rw [chunks_length bs hbs]; exact hj)]
  simp [rng]

/-- the stealing step of CBC-CS2 / CBC-CS3 encrypt after the main loop. -/
theorem cbcStealMem_eq (C : Cipher) (hC : C.Valid) (io io1 : IOBuf) (hw : WF io) (hge : C.bs ≤ io.len)
    (outs : List Bytes) (houts : ∀ b ∈ outs, b.length = C.bs) (hol : outs.length = io.len / C.bs)
    (ha : After io io1 (io.len / C.bs) C.bs outs.flatten) (iv : Bytes) (hiv : iv.length = C.bs)
    (htl : io.len % C.bs ≠ 0) :
    ∃ io2, cbcStealMem C iv io1 (io.len / C.bs) (io.len % C.bs) = some io2 ∧
      io2.out = Cts.cbcSteal C outs iv (chunksTail C.bs (src io)) := by
  have hbs := hC.bs_pos
  have hL := len_split io.len C.bs
  have hk := k_pos io.len C.bs hbs hge
  have hmod := Nat.mod_lt io.len hbs
  have holen : io.out.length = io.len := rfl
  obtain ⟨ht1, ht2⟩ := tail_whole io hw C.bs hbs
  have hpl : (padTail C.bs (chunksTail C.bs (src io))).length = C.bs := by simp [padTail, ht2]; omega
  have hbl : (C.enc (xorB (padTail C.bs (chunksTail C.bs (src io))) iv)).length = C.bs :=
    hC.enc_len _ (by simp [hpl, hiv])
  -- the output view as explicit pieces
  have hA : outs.dropLast.flatten.length = (io.len / C.bs - 1) * C.bs := by
    rw [flatten_length_of_allLen C.bs _ (fun b hb => houts b (List.dropLast_subset outs hb)), List.length_dropLast, hol]
  have hB : (outs.getLastD []).length = C.bs := by
    rw [← Spec.getD_last outs [] (by omega)]; exact houts _ (Thm.C05aux.getD_mem _ _ _ (by omega))
  have hX : (io.out.drop (io.len / C.bs * C.bs)).length = io.len % C.bs := by simp; omega
  have hout1 : io1.out = outs.dropLast.flatten ++ outs.getLastD [] ++ io.out.drop (io.len / C.bs * C.bs) := by
    rw [ha.out, flatten_split_last outs (by omega)]
  have hkb : (io.len / C.bs - 1) * C.bs + C.bs = io.len / C.bs * C.bs := by
    obtain ⟨j, hj⟩ : ∃ j, io.len / C.bs = j + 1 := ⟨io.len / C.bs - 1, by omega⟩
    rw [hj, Nat.add_sub_cancel, Nat.add_mul, Nat.one_mul]
  unfold cbcStealMem Cts.cbcSteal
  dsimp only
  rw [padFromTail_eq io io1 hw C.bs hbs _ _ ha (Nat.le_refl _)]
  simp only [sub?_eq _ _ hk]
  rw [getOut?_eq io1 _ _ (by rw [ha.len]; omega)]
  simp only []
  rw [hout1, rng_mid _ _ _ _ _ hA.symm hB.symm]
  rw [setOut?_eq io1 _ _ _ (by rw [ha.len]; omega) hbl]
  simp only [slice?_eq _ 0 (io.len % C.bs) (Nat.zero_le _) (by rw [hB]; omega), List.drop_zero, Nat.sub_zero]
  have hl2 : (io1.setOut ((io.len / C.bs - 1) * C.bs) (C.enc (xorB (padTail C.bs (chunksTail C.bs (src io))) iv))).len = io.len := by
    rw [setOut_len _ _ _ (by rw [ha.len, hbl]; omega), ha.len]
  rw [setOut?_eq _ _ _ _ (by rw [hl2]; omega) (by rw [List.length_take, hB]; omega)]
  refine ⟨_, rfl, ?_⟩
  simp only [IOBuf.setOut, hout1]
  rw [setRng_mid _ _ _ _ _ hA.symm (by rw [hbl, hB])]
  have e : outs.dropLast.flatten ++ C.enc (xorB (padTail C.bs (chunksTail C.bs (src io))) iv) ++ io.out.drop (io.len / C.bs * C.bs)
      = (outs.dropLast.flatten ++ C.enc (xorB (padTail C.bs (chunksTail C.bs (src io))) iv)) ++ io.out.drop (io.len / C.bs * C.bs) ++ [] := by simp
  rw [e, setRng_mid _ _ _ _ _ (by simp [hA, hbl]; omega) (by rw [List.length_take, hB, hX]; omega), ht2]
  simp

/-! ### CBC-CS2 encrypt, CBC-CS3 encrypt -/

theorem cbcEnc_outs (C : Cipher) (hC : C.Valid) (iv : Bytes) (hiv : iv.length = C.bs) (io : IOBuf) (hw : WF io) :
    (∀ b ∈ (foldBlocks (cbcEncBlock C) iv (chunks C.bs (src io))).1, b.length = C.bs) ∧
    (foldBlocks (cbcEncBlock C) iv (chunks C.bs (src io))).1.length = io.len / C.bs := by
  have hbs := hC.bs_pos
  refine ⟨(foldBlocks_inv _ _ C.bs (cbcEnc_stepOk C hC) _ iv hiv (chunks_allLen C.bs hbs _)).1, ?_⟩
  rw [foldBlocks_length, chunks_length C.bs hbs, src_length io hw]

theorem cbcCs2Enc_ok (C : Cipher) (hC : C.Valid) (w : Nat) (iv : Bytes) (hiv : iv.length = C.bs)
    (io : IOBuf) (hw : WF io) (hge : C.bs ≤ io.len) :
    ∃ io', MemCts.cbcCs2Enc C w iv io = some io' ∧ io'.out = Cts.cbcCs2Enc C w iv (src io) := by
  have hbs := hC.bs_pos
  have hL := len_split io.len C.bs
  have hol : io.out.length = io.len := rfl
  obtain ⟨ht1, ht2⟩ := tail_whole io hw C.bs hbs
  obtain ⟨io1, h1, ha, hP⟩ := memLoop_after _ C.bs (cbcEncBlock C) (cbcEnc_stepOk C hC) (io.len / C.bs) iv io hiv hw (by omega)
  rw [blocks_whole io hw C.bs hbs] at h1 ha hP
  obtain ⟨ho1, ho2⟩ := cbcEnc_outs C hC iv hiv io hw
  unfold MemCts.cbcCs2Enc Cts.cbcCs2Enc
  simp only [memCbcEnc, h1, ht2, Cts.cbcEnc]
  by_cases htl : io.len % C.bs = 0
  · simp only [htl, if_true]
    refine ⟨io1, rfl, ?_⟩
    rw [ha.out, List.drop_of_length_le (by omega), List.append_nil]
  · simp only [htl, if_false]
    exact cbcStealMem_eq C hC io io1 hw hge _ ho1 ho2 ha _ hP htl

/-- `mem::swap(penultimate, last)` on the output blocks. -/
theorem swapLast2Mem_eq (io1 : IOBuf) (bs : Nat) (outs : List Bytes) (houts : ∀ b ∈ outs, b.length = bs)
    (hk : 2 ≤ outs.length) (hout : io1.out = outs.flatten) :
    ∃ io2, swapLast2Mem io1 bs outs.length = some io2 ∧ io2.out = (swapLast2 outs).flatten := by
  have hsp := Spec.split_last2 outs [] hk
  have hA : (outs.take (outs.length - 2)).flatten.length = (outs.length - 2) * bs := by
    rw [flatten_length_of_allLen bs _ (fun b hb => houts b (List.mem_of_mem_take hb)), List.length_take]
    congr 1; omega
  have hP : (outs.getD (outs.length - 2) []).length = bs := houts _ (Thm.C05aux.getD_mem _ _ _ (by omega))
  have hQ : (outs.getD (outs.length - 1) []).length = bs := houts _ (Thm.C05aux.getD_mem _ _ _ (by omega))
  have hout1 : io1.out = (outs.take (outs.length - 2)).flatten ++ outs.getD (outs.length - 2) []
      ++ outs.getD (outs.length - 1) [] := by
    rw [hout]; conv => lhs; rw [hsp]
    simp
  have hlen : io1.len = outs.length * bs := by
    simp only [IOBuf.len, hout]; exact flatten_length_of_allLen bs _ houts
  have hj : (outs.length - 1) * bs = (outs.length - 2) * bs + bs := by
    obtain ⟨j, hj⟩ : ∃ j, outs.length = j + 2 := ⟨outs.length - 2, by omega⟩
    rw [hj]; simp [Nat.add_mul]
  have hkb : outs.length * bs = (outs.length - 2) * bs + bs + bs := by
    obtain ⟨j, hj⟩ : ∃ j, outs.length = j + 2 := ⟨outs.length - 2, by omega⟩
    rw [hj]; simp [Nat.add_mul]; omega
  unfold swapLast2Mem
  simp only [sub?_eq _ 1 (show 1 ≤ outs.length by omega), sub?_eq _ 1 (show 1 ≤ outs.length - 1 by omega),
    show outs.length - 1 - 1 = outs.length - 2 by omega]
  rw [getOut?_eq io1 _ _ (by rw [hlen]; omega), getOut?_eq io1 _ _ (by rw [hlen]; omega)]
  dsimp only
  have hlast : rng io1.out ((outs.length - 1) * bs) bs = outs.getD (outs.length - 1) [] := by
    rw [hout1]
    have e : (outs.take (outs.length - 2)).flatten ++ outs.getD (outs.length - 2) [] ++ outs.getD (outs.length - 1) []
        = ((outs.take (outs.length - 2)).flatten ++ outs.getD (outs.length - 2) []) ++ outs.getD (outs.length - 1) [] ++ [] := by simp
    rw [e, rng_mid _ _ _ _ _ (by rw [List.length_append, hA, hP]; omega) hQ.symm]
  have hpen : rng io1.out ((outs.length - 2) * bs) bs = outs.getD (outs.length - 2) [] := by
    rw [hout1, rng_mid _ _ _ _ _ hA.symm hP.symm]
  rw [hlast, hpen, setOut?_eq io1 _ _ _ (by rw [hlen]; omega) hQ]
  have hl2 : (io1.setOut ((outs.length - 2) * bs) (outs.getD (outs.length - 1) [])).len = io1.len :=
    setOut_len _ _ _ (by rw [hlen, hQ]; omega)
  dsimp only
  rw [setOut?_eq _ _ _ _ (by rw [hl2, hlen]; omega) hP]
  refine ⟨_, rfl, ?_⟩
  simp only [IOBuf.setOut, hout1]
  rw [setRng_mid _ _ _ _ _ hA.symm (by rw [hQ, hP])]
  have e : (outs.take (outs.length - 2)).flatten ++ outs.getD (outs.length - 1) [] ++ outs.getD (outs.length - 1) []
      = ((outs.take (outs.length - 2)).flatten ++ outs.getD (outs.length - 1) []) ++ outs.getD (outs.length - 1) [] ++ [] := by simp
  rw [e, setRng_mid _ _ _ _ _ (by rw [List.length_append, hA, hQ]; omega) (by rw [hP, hQ]), Spec.swapLast2_eq outs hk]
  simp

theorem cbcCs3Enc_ok (C : Cipher) (hC : C.Valid) (w : Nat) (iv : Bytes) (hiv : iv.length = C.bs)
    (io : IOBuf) (hw : WF io) (hge : C.bs ≤ io.len) :
    ∃ io', MemCts.cbcCs3Enc C w iv io = some io' ∧ io'.out = Cts.cbcCs3Enc false C w iv (src io) := by
  have hbs := hC.bs_pos
  have hL := len_split io.len C.bs
  have hol : io.out.length = io.len := rfl
  obtain ⟨ht1, ht2⟩ := tail_whole io hw C.bs hbs
  obtain ⟨io1, h1, ha, hP⟩ := memLoop_after _ C.bs (cbcEncBlock C) (cbcEnc_stepOk C hC) (io.len / C.bs) iv io hiv hw (by omega)
  rw [blocks_whole io hw C.bs hbs] at h1 ha hP
  obtain ⟨ho1, ho2⟩ := cbcEnc_outs C hC iv hiv io hw
  have hcl : (chunks C.bs (src io)).length = io.len / C.bs := by rw [chunks_length C.bs hbs, src_length io hw]
  unfold MemCts.cbcCs3Enc Cts.cbcCs3Enc
  simp only [memCbcEnc, h1, ht2, Cts.cbcEnc, Bool.false_eq_true, if_false, hcl]
  by_cases htl : io.len % C.bs = 0
  · simp only [htl, if_true]
    have hout1 : io1.out = (foldBlocks (cbcEncBlock C) iv (chunks C.bs (src io))).1.flatten := by
      rw [ha.out, List.drop_of_length_le (by omega), List.append_nil]
    by_cases hk1 : io.len / C.bs > 1
    · simp only [hk1, if_true]
      rw [← ho2]
      exact swapLast2Mem_eq io1 C.bs _ ho1 (by omega) hout1
    · simp only [hk1, if_false]
      exact ⟨io1, rfl, hout1⟩
  · simp only [htl, if_false]
    exact cbcStealMem_eq C hC io io1 hw hge _ ho1 ho2 ha _ hP htl

end Impl.MemCts
