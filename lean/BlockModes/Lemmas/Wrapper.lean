import BlockModes.Glue.Wrapper
import BlockModes.Spec.Stream
import BlockModes.Lemmas.Xor
import BlockModes.Lemmas.Chunks
import BlockModes.Lemmas.Core
/-
  Lemmas/Wrapper.lean — the byte-stream wrapper (`StreamCipherCoreWrapper`) over an abstract core.

  `CoreSpec K M ks Rep`: the core `K` generates keystream block `ks i` when it represents block
  position `i` (`Rep s i`), and moves to `i + 1` as long as no wrap-around happens (`M = 0` encodes a core
  without a limit, otherwise positions are `< M` and `M − 1` blocks are available).
  `WInv`: the wrapper invariant; abstract byte position `q = blk·bs − (bs − pos)`.
  Main results: `apply_spec` (output = data ⊕ keystream[q, q+n), invariant re-established, q advances by n),
  `checkRemaining_iff` (Ok ⇔ the request ends at or before the limit), `seek_spec`, `currentPos_of_inv`.
-/
namespace Glue
open Spec

variable {σ : Type}

/-! ### keystream bytes -/

@[simp] theorem ksBytes_length (kb : Nat → UInt8) (q n : Nat) : (ksBytes kb q n).length = n := by simp [ksBytes]

theorem ksBytes_add (kb : Nat → UInt8) (q a b : Nat) :
    ksBytes kb q (a + b) = ksBytes kb q a ++ ksBytes kb (q + a) b := by
  simp only [ksBytes, List.range_add, List.map_append, List.map_map]
  congr 1
  apply List.map_congr_left
  intro i _
  simp [Nat.add_assoc]

theorem ksBytes_drop (kb : Nat → UInt8) (q n p : Nat) (h : p ≤ n) :
    (ksBytes kb q n).drop p = ksBytes kb (q + p) (n - p) := by
  have e : n = p + (n - p) := by omega
  have := ksBytes_add kb q p (n - p)
  rw [← e] at this
  rw [this, List.drop_left' (by simp)]

theorem ksBytes_take (kb : Nat → UInt8) (q n m : Nat) (h : m ≤ n) :
    (ksBytes kb q n).take m = ksBytes kb q m := by
  have e : n = m + (n - m) := by omega
  have := ksBytes_add kb q m (n - m)
  rw [← e] at this
  rw [this, List.take_left' (by simp)]

/-- block `i` of the byte keystream is `ks i`. -/
theorem ksBytes_block (bs : Nat) (hbs : 0 < bs) (ks : Nat → Bytes) (hlen : ∀ i, (ks i).length = bs) (i : Nat) :
    ksBytes (ksByte bs ks) (i * bs) bs = ks i := by
  apply List.ext_getElem
  · simp [hlen]
  · intro j h1 h2
    simp only [ksBytes_length] at h1
    simp only [ksBytes, List.getElem_map, List.getElem_range, ksByte]
    have hd : (i * bs + j) / bs = i := by
      rw [Nat.mul_comm, Nat.mul_add_div hbs, Nat.div_eq_of_lt h1]; simp
    have hm : (i * bs + j) % bs = j := by
      rw [Nat.mul_comm, Nat.mul_add_mod, Nat.mod_eq_of_lt h1]
    rw [hd, hm]
    simp [List.getD_eq_getElem?_getD, List.getElem?_eq_getElem h2]

/-- `n` consecutive blocks. -/
theorem ksBytes_blocks (bs : Nat) (hbs : 0 < bs) (ks : Nat → Bytes) (hlen : ∀ i, (ks i).length = bs) (i n : Nat) :
    ksBytes (ksByte bs ks) (i * bs) (n * bs) = ((List.range n).map fun j => ks (i + j)).flatten := by
  induction n generalizing i with
  | zero => simp [ksBytes]
  | succ n ih =>
    rw [Nat.add_mul, Nat.one_mul, Nat.add_comm (n * bs) bs, ksBytes_add, ksBytes_block bs hbs ks hlen,
      List.range_succ_eq_map, List.map_cons, List.flatten_cons, List.map_map]
    congr 1
    have : i * bs + bs = (i + 1) * bs := by rw [Nat.add_mul, Nat.one_mul]
    rw [this, ih (i + 1)]
    congr 2
    funext j
    simp only [Function.comp, Nat.succ_eq_add_one]
    congr 1
    omega

/-! ### abstract core -/

structure CoreSpec (K : Core σ) (M : Nat) (ks : Nat → Bytes) (Rep : σ → Nat → Prop) : Prop where
  bs_pos : 0 < K.bs
  bs_lt : K.bs < 256
  ks_len : ∀ i, (ks i).length = K.bs
  rep_lt : ∀ s i, Rep s i → M = 0 ∨ i < M
  gen : ∀ s i, Rep s i → (K.genBlock s).1 = ks i ∧ ((M = 0 ∨ i + 1 < M) → Rep (K.genBlock s).2 (i + 1))
  par : ∀ pw s, 1 < pw → K.genPar pw s = genSeq K pw s

theorem genSeq_spec {K : Core σ} {M : Nat} {ks : Nat → Bytes} {Rep : σ → Nat → Prop}
    (hK : CoreSpec K M ks Rep) (n : Nat) (s : σ) (i : Nat) (hR : Rep s i) (hfit : M = 0 ∨ i + n < M) :
    (genSeq K n s).1 = (List.range n).map (fun j => ks (i + j)) ∧ Rep (genSeq K n s).2 (i + n) := by
  induction n generalizing s i with
  | zero => exact ⟨rfl, hR⟩
  | succ n ih =>
    obtain ⟨g1, g2⟩ := hK.gen s i hR
    have hR' := g2 (by rcases hfit with h | h; exact Or.inl h; exact Or.inr (by omega))
    obtain ⟨h1, h2⟩ := ih (K.genBlock s).2 (i + 1) hR' (by rcases hfit with h | h; exact Or.inl h; exact Or.inr (by omega))
    simp only [genSeq, g1, h1]
    refine ⟨?_, ?_⟩
    · rw [List.range_succ_eq_map, List.map_cons, List.map_map]
      simp only [Nat.add_zero, List.cons.injEq, true_and]
      apply List.map_congr_left
      intro j _
      simp only [Function.comp, Nat.succ_eq_add_one]
      congr 1; omega
    · have : i + (n + 1) = i + 1 + n := by omega
      rw [this]; exact h2

theorem zipWith_xorB_flatten : ∀ (bl ksl : List Bytes) (bs : Nat), (∀ b ∈ bl, b.length = bs) →
    (∀ k ∈ ksl, k.length = bs) → bl.length = ksl.length →
    (List.zipWith xorB bl ksl).flatten = xorB bl.flatten ksl.flatten := by
  intro bl
  induction bl with
  | nil => intro ksl bs _ _ h; cases ksl <;> simp_all
  | cons b bl ih =>
    intro ksl bs hb hk hl
    cases ksl with
    | nil => simp at hl
    | cons k ksl =>
      simp only [List.length_cons, Nat.add_right_cancel_iff] at hl
      have hb1 : b.length = bs := hb b (by simp)
      have hk1 : k.length = bs := hk k (by simp)
      simp only [List.zipWith_cons_cons, List.flatten_cons]
      rw [xorB_append _ _ _ _ (by rw [hb1, hk1])]
      congr 1
      exact ih ksl bs (fun x hx => hb x (by simp [hx])) (fun x hx => hk x (by simp [hx])) hl

/-- `apply_keystream_blocks` on `n` whole blocks from block position `blk`. -/
theorem applyBlocks_spec {K : Core σ} {M : Nat} {ks : Nat → Bytes} {Rep : σ → Nat → Prop}
    (hK : CoreSpec K M ks Rep) (w : Nat) (s : σ) (blk : Nat) (hR : Rep s blk)
    (blocks : List Bytes) (hb : ∀ b ∈ blocks, b.length = K.bs) (hfit : M = 0 ∨ blk + blocks.length < M) :
    (applyBlocks K w s blocks).1.flatten
        = xorB blocks.flatten (ksBytes (ksByte K.bs ks) (blk * K.bs) (blocks.length * K.bs)) ∧
    Rep (applyBlocks K w s blocks).2 (blk + blocks.length) := by
  simp only [applyBlocks, genBlocks_eq_seq K w hK.par]
  obtain ⟨h1, h2⟩ := genSeq_spec hK blocks.length s blk hR hfit
  refine ⟨?_, h2⟩
  rw [h1, ksBytes_blocks K.bs hK.bs_pos ks hK.ks_len]
  apply zipWith_xorB_flatten _ _ K.bs hb
  · intro k hk
    simp only [List.mem_map, List.mem_range] at hk
    obtain ⟨j, _, rfl⟩ := hk
    exact hK.ks_len _
  · simp

end Glue

namespace Glue
open Spec
variable {σ : Type}

/-! ### the position byte -/

theorem Wr.setPos_pos (s : Wr σ) (p : Nat) (hp : p < 256) (hb : 0 < s.buffer.length) : (s.setPos p).pos = p := by
  unfold Wr.setPos Wr.pos
  cases hbuf : s.buffer with
  | nil => rw [hbuf] at hb; simp at hb
  | cons x xs => simp [UInt8.toNat_ofNat', Nat.mod_eq_of_lt hp]

theorem Wr.setPos_drop (s : Wr σ) (p k : Nat) (hk : 1 ≤ k) : (s.setPos p).buffer.drop k = s.buffer.drop k := by
  unfold Wr.setPos
  cases s.buffer with
  | nil => simp
  | cons x xs =>
    cases k with
    | zero => omega
    | succ k => simp

@[simp] theorem Wr.setPos_len (s : Wr σ) (p : Nat) : (s.setPos p).buffer.length = s.buffer.length := by
  simp [Wr.setPos]
@[simp] theorem Wr.setPos_core (s : Wr σ) (p : Nat) : (s.setPos p).core = s.core := rfl

/-! ### the invariant -/

structure WInv (K : Core σ) (ks : Nat → Bytes) (Rep : σ → Nat → Prop) (s : Wr σ) (blk : Nat) : Prop where
  buf_len : s.buffer.length = K.bs
  pos_pos : 1 ≤ s.pos
  pos_le : s.pos ≤ K.bs
  rep : Rep s.core blk
  blk_pos : s.pos < K.bs → 1 ≤ blk
  buf_ok : s.pos < K.bs →
    s.buffer.drop s.pos = ksBytes (ksByte K.bs ks) (blk * K.bs - (K.bs - s.pos)) (K.bs - s.pos)

/-- abstract byte position: keystream bytes preceding the next byte to be produced. -/
def Wr.q (K : Core σ) (s : Wr σ) (blk : Nat) : Nat := blk * K.bs - (K.bs - s.pos)

theorem fromCore_inv {K : Core σ} {M : Nat} {ks : Nat → Bytes} {Rep : σ → Nat → Prop}
    (hK : CoreSpec K M ks Rep) (c : σ) (blk : Nat) (hR : Rep c blk) :
    WInv K ks Rep (Wr.fromCore K c) blk ∧ (Wr.fromCore K c).q K blk = blk * K.bs := by
  have hl : ((zeros K.bs).set 0 (UInt8.ofNat K.bs)).length = K.bs := by simp
  have hpos : (Wr.fromCore K c).pos = K.bs := by
    have := Wr.setPos_pos ({ core := c, buffer := zeros K.bs } : Wr σ) K.bs hK.bs_lt (by simpa using hK.bs_pos)
    simpa [Wr.fromCore, Wr.setPos] using this
  refine ⟨⟨hl, by rw [hpos]; exact hK.bs_pos, by rw [hpos]; exact Nat.le_refl _, hR, ?_, ?_⟩, ?_⟩
  · intro h; rw [hpos] at h; omega
  · intro h; rw [hpos] at h; omega
  · simp [Wr.q, hpos]

/-- **the five-branch body of `try_apply_keystream_inout`.** -/
theorem apply_spec {K : Core σ} {M : Nat} {ks : Nat → Bytes} {Rep : σ → Nat → Prop}
    (hK : CoreSpec K M ks Rep) (w : Nat) (s : Wr σ) (blk : Nat) (data : Bytes)
    (hI : WInv K ks Rep s blk) (hfit : M = 0 ∨ s.q K blk + data.length ≤ (M - 1) * K.bs) :
    (s.applyUnchecked K w data).1 = xorB data (ksBytes (ksByte K.bs ks) (s.q K blk) data.length) ∧
    ∃ blk', WInv K ks Rep (s.applyUnchecked K w data).2 blk' ∧
      (s.applyUnchecked K w data).2.q K blk' = s.q K blk + data.length := by
  obtain ⟨hbl, h1, h2, hrep, h3, h4⟩ := hI
  have hbs := hK.bs_pos
  have hb256 := hK.bs_lt
  have hbufpos : 0 < s.buffer.length := by omega
  have hge : s.pos < K.bs → blk * K.bs ≥ K.bs := fun h => by
    calc blk * K.bs ≥ 1 * K.bs := Nat.mul_le_mul_right K.bs (h3 h)
      _ = K.bs := by simp
  unfold Wr.applyUnchecked
  simp only
  split
  · -- served from the buffer
    rename_i hc
    obtain ⟨hrem, hlen⟩ := hc
    have hlt : s.pos < K.bs := by omega
    have hb := h4 hlt
    have hk := h3 hlt
    have hg := hge hlt
    have hnp : (s.setPos (s.pos + data.length)).pos = s.pos + data.length :=
      Wr.setPos_pos s _ (by omega) hbufpos
    refine ⟨?_, blk, ⟨by simp [hbl], by rw [hnp]; omega, by rw [hnp]; omega, hrep, fun _ => hk, ?_⟩, ?_⟩
    · simp only [Wr.q, rng]
      rw [hb, ksBytes_take _ _ _ _ hlen]
    · intro hlt'
      rw [hnp] at hlt' ⊢
      rw [Wr.setPos_drop _ _ _ (by omega)]
      have : s.buffer.drop (s.pos + data.length) = (s.buffer.drop s.pos).drop data.length := by
        rw [List.drop_drop]
      rw [this, hb, ksBytes_drop _ _ _ _ hlen]
      congr 1 <;> omega
    · simp only [Wr.q, hnp]
      omega
  · rename_i hc
    have hrem_case : K.bs - s.pos = 0 ∨ (K.bs - s.pos ≠ 0 ∧ K.bs - s.pos < data.length) := by omega
    have hq : s.q K blk + (K.bs - s.pos) = blk * K.bs := by
      simp only [Wr.q]
      rcases Nat.lt_or_ge s.pos K.bs with hlt | hge'
      · have := hge hlt; omega
      · omega
    have hleft : xorB (data.take (K.bs - s.pos)) (s.buffer.drop s.pos)
        = xorB (data.take (K.bs - s.pos)) (ksBytes (ksByte K.bs ks) (s.q K blk) (data.take (K.bs - s.pos)).length) := by
      rcases hrem_case with h0 | ⟨hne, hlt⟩
      · simp [h0]
      · have hlt' : s.pos < K.bs := by omega
        rw [h4 hlt']
        simp only [Wr.q]
        congr 2
        simp; omega
    have hll' : (data.take (K.bs - s.pos)).length = K.bs - s.pos := by
      rcases hrem_case with h0 | ⟨_, hlt⟩
      · simp [h0]
      · simp; omega
    generalize hR : data.drop (K.bs - s.pos) = right at *
    have hdata : data = data.take (K.bs - s.pos) ++ right := by rw [← hR]; simp
    have hdl : data.length = (K.bs - s.pos) + right.length := by
      have := congrArg List.length hdata
      simp only [List.length_append] at this
      omega
    -- the whole blocks of `right`
    have hcf := chunks_flatten_eq_take K.bs hbs right
    have hct := chunksTail_eq_drop K.bs hbs right
    have hcl := chunks_length K.bs hbs right
    have hcall := chunks_allLen K.bs hbs right
    have hdm := Nat.div_add_mod right.length K.bs
    have hmodlt := Nat.mod_lt right.length hbs
    generalize hnb : right.length / K.bs = nb at *
    have hnbs : nb * K.bs ≤ right.length := by rw [Nat.mul_comm]; omega
    have hright : right = right.take (nb * K.bs) ++ right.drop (nb * K.bs) := by simp
    have hbl' : (right.take (nb * K.bs)).length = nb * K.bs := by simp; omega
    have htl : (right.drop (nb * K.bs)).length = right.length - nb * K.bs := by simp
    have hmul : blk * K.bs + nb * K.bs = (blk + nb) * K.bs := by rw [Nat.add_mul]
    -- no wrap while generating
    have hfitB : M = 0 ∨ blk + (chunks K.bs right).length < M := by
      rcases hfit with h | h
      · exact Or.inl h
      · by_cases hM0 : M = 0
        · exact Or.inl hM0
        right
        rw [hcl]
        have hM : 0 < M := by omega
        have h' : s.q K blk + data.length ≤ (M - 1) * K.bs := h
        rw [hdl] at h'
        have h'' : (blk + nb) * K.bs ≤ (M - 1) * K.bs := by rw [← hmul]; omega
        have := Nat.le_of_mul_le_mul_right h'' hbs
        omega
    obtain ⟨hab1, hab2⟩ := applyBlocks_spec hK w s.core blk hrep (chunks K.bs right) hcall hfitB
    rw [hcf, hcl] at hab1
    rw [hcl] at hab2
    rw [hct]
    split
    · rename_i ht
      have hfull : right.length = nb * K.bs := by rw [htl] at ht; omega
      have hnp : (({ s with core := (applyBlocks K w s.core (chunks K.bs right)).2 } : Wr σ).setPos K.bs).pos = K.bs :=
        Wr.setPos_pos _ _ hb256 hbufpos
      refine ⟨?_, blk + nb, ⟨by simp [hbl], by rw [hnp]; omega, by rw [hnp]; omega, hab2, ?_, ?_⟩, ?_⟩
      · rw [hab1]
        have e1 : data.length = (K.bs - s.pos) + nb * K.bs := by omega
        rw [e1, ksBytes_add]
        conv => rhs; lhs; rw [hdata]
        rw [xorB_append _ _ _ _ (by simp [hll'])]
        rw [hleft, hll', hq]
        congr 2
        rw [← hfull]; simp
      · intro h; rw [hnp] at h; omega
      · intro h; rw [hnp] at h; omega
      · simp only [Wr.q, hnp]
        rw [Nat.sub_self, Nat.sub_zero, ← hmul]
        omega
    · rename_i ht
      have htpos : 0 < (right.drop (nb * K.bs)).length := by omega
      have htlt : (right.drop (nb * K.bs)).length < K.bs := by
        rw [htl, Nat.mul_comm]; omega
      -- the block generated into the buffer
      have hfitT : M = 0 ∨ blk + nb + 1 < M := by
        rcases hfit with h | h
        · exact Or.inl h
        · by_cases hM0 : M = 0
          · exact Or.inl hM0
          right
          have h' : s.q K blk + data.length ≤ (M - 1) * K.bs := h
          rw [hdl] at h'
          have hlen2 : right.length = nb * K.bs + (right.drop (nb * K.bs)).length := by rw [htl]; omega
          have hq' : s.q K blk + (K.bs - s.pos) = blk * K.bs := hq
          have e1 : blk * K.bs + nb * K.bs + (right.drop (nb * K.bs)).length ≤ (M - 1) * K.bs := by
            rw [← hq']; omega
          have h'' : (blk + nb) * K.bs < (M - 1) * K.bs := by rw [← hmul]; omega
          have := Nat.lt_of_mul_lt_mul_right h''
          omega
      obtain ⟨g1, g2⟩ := hK.gen _ _ hab2
      have hR' := g2 hfitT
      have hgl : (K.genBlock (applyBlocks K w s.core (chunks K.bs right)).2).1.length = K.bs := by
        rw [g1]; exact hK.ks_len _
      have hnp : (({ core := (K.genBlock (applyBlocks K w s.core (chunks K.bs right)).2).2,
                     buffer := (K.genBlock (applyBlocks K w s.core (chunks K.bs right)).2).1 } : Wr σ).setPos
                    (right.drop (nb * K.bs)).length).pos = (right.drop (nb * K.bs)).length :=
        Wr.setPos_pos _ _ (by omega) (by simp only; omega)
      have hblock : ks (blk + nb) = ksBytes (ksByte K.bs ks) ((blk + nb) * K.bs) K.bs :=
        (ksBytes_block K.bs hbs ks hK.ks_len _).symm
      refine ⟨?_, blk + nb + 1, ⟨by simp [hgl], by rw [hnp]; omega, by rw [hnp]; omega, hR', fun _ => by omega, ?_⟩, ?_⟩
      · rw [hab1, g1]
        have hd3 : data.length = (K.bs - s.pos) + (nb * K.bs + (right.drop (nb * K.bs)).length) := by
          rw [htl]; omega
        rw [hd3, ksBytes_add, ksBytes_add]
        conv => rhs; lhs; rw [hdata, hright]
        rw [xorB_append _ _ _ _ (by simp [hll']), xorB_append _ _ _ _ (by simp [hbl'])]
        rw [hleft, hll', hq, List.append_assoc]
        congr 2
        rw [hblock, ksBytes_take _ _ _ _ (Nat.le_of_lt htlt), hmul]
      · intro _
        rw [hnp, Wr.setPos_drop _ _ _ htpos]
        simp only
        rw [g1, hblock, ksBytes_drop _ _ _ _ (Nat.le_of_lt htlt)]
        congr 1
        have : (blk + nb + 1) * K.bs = (blk + nb) * K.bs + K.bs := by
          rw [Nat.add_mul (blk + nb) 1 K.bs]; simp
        omega
      · simp only [Wr.q, hnp]
        have : (blk + nb + 1) * K.bs = blk * K.bs + nb * K.bs + K.bs := by
          rw [Nat.add_mul (blk + nb) 1 K.bs, Nat.add_mul]; simp
        rw [this, htl] at *
        omega

end Glue

namespace Glue
open Spec
variable {σ : Type}

/-! ### seekable cores: position, exhaustion check, seeking -/

structure SeekSpec (K : Core σ) (M : Nat) (Rep : σ → Nat → Prop) : Prop where
  M_pos : 0 < M
  cw_eq : 2 ^ K.cw = M
  getPos : ∀ s i, Rep s i → K.getPos s = i
  setPos : ∀ s i p, Rep s i → p < M → Rep (K.setPos s p) p
  remaining : ∀ s i, Rep s i → K.remaining s = if M - 1 - i < 2 ^ 64 then some (M - 1 - i) else none

/-- `check_remaining(n)` succeeds exactly when the request ends at or before the keystream limit of
    `M − 1` blocks (requests are shorter than 2^64 bytes: `usize`). -/
theorem checkRemaining_iff {K : Core σ} {M : Nat} {ks : Nat → Bytes} {Rep : σ → Nat → Prop}
    (hK : CoreSpec K M ks Rep) (hS : SeekSpec K M Rep) (s : Wr σ) (blk n : Nat)
    (hI : WInv K ks Rep s blk) (hn : n < 2 ^ 64) :
    s.checkRemaining K n = true ↔ s.q K blk + n ≤ (M - 1) * K.bs := by
  obtain ⟨hbl, h1, h2, hrep, h3, _⟩ := hI
  have hbs := hK.bs_pos
  have hblk : blk < M := by
    rcases hK.rep_lt _ _ hrep with h | h
    · have := hS.M_pos; omega
    · exact h
  have hge : s.pos < K.bs → blk * K.bs ≥ K.bs := fun h => by
    calc blk * K.bs ≥ 1 * K.bs := Nat.mul_le_mul_right K.bs (h3 h)
      _ = K.bs := by simp
  have hsplit : (M - 1) * K.bs = blk * K.bs + (M - 1 - blk) * K.bs := by
    rw [← Nat.add_mul]; congr 1; omega
  have hRbs : M - 1 - blk ≤ (M - 1 - blk) * K.bs := Nat.le_mul_of_pos_right _ hbs
  unfold Wr.checkRemaining
  rw [hS.remaining _ _ hrep]
  simp only [Wr.q]
  by_cases hfit64 : M - 1 - blk < 2 ^ 64
  · simp only [hfit64, if_true]
    by_cases hle : n ≤ K.bs - s.pos
    · simp only [hle, if_true, true_iff]
      rcases Nat.lt_or_ge s.pos K.bs with hlt | hge'
      · have := hge hlt; omega
      · omega
    · simp only [hle, if_false, Bool.not_eq_true', decide_eq_false_iff_not, Nat.not_lt]
      rw [Nat.div_le_iff_le_mul_add_pred hbs]
      have hc := Nat.mul_comm K.bs (M - 1 - blk)
      rcases Nat.lt_or_ge s.pos K.bs with hlt | hge'
      · have := hge hlt; omega
      · omega
  · simp only [hfit64, if_false, true_iff]
    rcases Nat.lt_or_ge s.pos K.bs with hlt | hge'
    · have := hge hlt; omega
    · omega

/-- an in-range seek re-establishes the invariant at exactly the requested byte position. -/
theorem seek_spec {K : Core σ} {M : Nat} {ks : Nat → Bytes} {Rep : σ → Nat → Prop}
    (hK : CoreSpec K M ks Rep) (hS : SeekSpec K M Rep) (s : Wr σ) (blk p : Nat)
    (hI : WInv K ks Rep s blk) (hp : p < (M - 1) * K.bs) :
    (s.seek K p).1 = true ∧ ∃ blk', WInv K ks Rep (s.seek K p).2 blk' ∧ (s.seek K p).2.q K blk' = p := by
  obtain ⟨hbl, h1, h2, hrep, h3, _⟩ := hI
  have hbs := hK.bs_pos
  have hb256 := hK.bs_lt
  have hdm := Nat.div_add_mod p K.bs
  have hml := Nat.mod_lt p hbs
  have hblk : p / K.bs < M - 1 := by
    apply Nat.div_lt_of_lt_mul; rw [Nat.mul_comm]; exact hp
  have hcomm := Nat.mul_comm (p / K.bs) K.bs
  unfold Wr.seek
  simp only
  rw [hS.cw_eq]
  generalize p / K.bs = pd at *
  generalize p % K.bs = pm at *
  rw [if_neg (by omega)]
  have hR1 : Rep (K.setPos s.core pd) pd := hS.setPos _ _ _ hrep (by omega)
  by_cases hb : pm ≠ 0
  · rw [if_pos hb]
    obtain ⟨g1, g2⟩ := hK.gen _ _ hR1
    have hR2 := g2 (Or.inr (by omega))
    have hgl : (K.genBlock (K.setPos s.core pd)).1.length = K.bs := by rw [g1]; exact hK.ks_len _
    have hnp : (({ core := (K.genBlock (K.setPos s.core pd)).2,
                   buffer := (K.genBlock (K.setPos s.core pd)).1 } : Wr σ).setPos pm).pos = pm :=
      Wr.setPos_pos _ _ (by omega) (by simp only; omega)
    refine ⟨rfl, pd + 1, ⟨by simp [hgl], ?_, ?_, hR2, fun _ => by omega, ?_⟩, ?_⟩
    · simp only; rw [hnp]; omega
    · simp only; rw [hnp]; omega
    · intro _
      simp only
      rw [hnp, Wr.setPos_drop _ _ _ (by omega)]
      simp only
      rw [g1, ← ksBytes_block K.bs hbs ks hK.ks_len, ksBytes_drop _ _ _ _ (Nat.le_of_lt hml)]
      congr 1
      rw [Nat.add_mul, Nat.one_mul]
      omega
    · simp only [Wr.q]
      rw [hnp, Nat.add_mul, Nat.one_mul]
      omega
  · rw [if_neg hb]
    have hb0 : pm = 0 := by omega
    have hnp : (({ s with core := K.setPos s.core pd } : Wr σ).setPos K.bs).pos = K.bs :=
      Wr.setPos_pos _ _ hb256 (by simp only; omega)
    refine ⟨rfl, pd, ⟨by simp [hbl], ?_, ?_, hR1, ?_, ?_⟩, ?_⟩
    · simp only; rw [hnp]; omega
    · simp only; rw [hnp]; omega
    · intro h; simp only at h; rw [hnp] at h; omega
    · intro h; simp only at h; rw [hnp] at h; omega
    · simp only [Wr.q]
      rw [hnp, Nat.sub_self, Nat.sub_zero]
      omega

/-- position reporting under the invariant: a reported value is `q`; an error is reported exactly when
    the end of the current block does not fit the requested type (in particular whenever `q` does not). -/
theorem currentPos_of_inv {K : Core σ} {M : Nat} {ks : Nat → Bytes} {Rep : σ → Nat → Prop}
    (hK : CoreSpec K M ks Rep) (hS : SeekSpec K M Rep) (s : Wr σ) (blk snMax : Nat) (hI : WInv K ks Rep s blk) :
    (∀ v, s.currentPos K snMax = some v → v = s.q K blk ∧ v ≤ snMax) ∧
    (s.currentPos K snMax = none ↔ snMax < blk * K.bs) ∧
    (snMax < s.q K blk → s.currentPos K snMax = none) := by
  obtain ⟨hbl, h1, h2, hrep, h3, _⟩ := hI
  have hbs := hK.bs_pos
  have hge : s.pos < K.bs → blk * K.bs ≥ K.bs := fun h => by
    calc blk * K.bs ≥ 1 * K.bs := Nat.mul_le_mul_right K.bs (h3 h)
      _ = K.bs := by simp
  have hle : blk ≤ blk * K.bs := Nat.le_mul_of_pos_right _ hbs
  have hsub : K.bs - s.pos ≤ blk * K.bs := by
    rcases Nat.lt_or_ge s.pos K.bs with hlt | hge'
    · have := hge hlt; omega
    · omega
  have hnf : s.currentPos K snMax = if blk * K.bs ≤ snMax then some (blk * K.bs - (K.bs - s.pos)) else none := by
    unfold Wr.currentPos
    rw [hS.getPos _ _ hrep]
    simp only
    by_cases h : blk * K.bs ≤ snMax
    · rw [if_neg (by omega), if_neg (by omega), if_neg (by omega), if_pos h]
    · rw [if_neg h]
      by_cases h' : blk > snMax
      · rw [if_pos h']
      · rw [if_neg h', if_pos (by omega)]
  rw [hnf]
  simp only [Wr.q]
  refine ⟨?_, ?_, ?_⟩
  · intro v hv
    by_cases h : blk * K.bs ≤ snMax
    · rw [if_pos h] at hv; injection hv with hv; subst hv; exact ⟨rfl, by omega⟩
    · rw [if_neg h] at hv; cases hv
  · constructor
    · intro h
      by_cases h' : blk * K.bs ≤ snMax
      · rw [if_pos h'] at h; cases h
      · omega
    · intro h; rw [if_neg (by omega)]
  · intro h; rw [if_neg (by omega)]

/-! ### operation sequences -/

inductive SOp
  | apply (d : Bytes)
  | seek (p : Nat)
  | pos (snMax : Nat)

inductive SObs
  | out (b : Bytes)
  | err
  | ok
  | pos (v : Nat)
  | posErr
deriving DecidableEq

/-- one public operation of the byte-level cipher. -/
def Wr.stepOp (K : Core σ) (w : Nat) (s : Wr σ) : SOp → SObs × Wr σ
  | .apply d => match s.apply K w d with
    | some r => (.out r.1, r.2)
    | none => (.err, s)
  | .seek p => ((if (s.seek K p).1 then .ok else .err), (s.seek K p).2)
  | .pos m => match s.currentPos K m with
    | some v => (.pos v, s)
    | none => (.posErr, s)

def Wr.runOps (K : Core σ) (w : Nat) : Wr σ → List SOp → List SObs × Wr σ
  | s, [] => ([], s)
  | s, o :: os =>
    let r := s.stepOp K w o
    let r2 := Wr.runOps K w r.2 os
    (r.1 :: r2.1, r2.2)

/-- the reference machine: its whole state is the byte position `q`. -/
def refStep (bs lim : Nat) (kb : Nat → UInt8) (q : Nat) : SOp → SObs × Nat
  | .apply d => if q + d.length ≤ lim * bs then (.out (xorB d (ksBytes kb q d.length)), q + d.length) else (.err, q)
  | .seek p => (.ok, p)
  | .pos m => if (q + bs - 1) / bs * bs ≤ m then (.pos q, q) else (.posErr, q)

def refRun (bs lim : Nat) (kb : Nat → UInt8) : Nat → List SOp → List SObs × Nat
  | q, [] => ([], q)
  | q, o :: os =>
    let r := refStep bs lim kb q o
    let r2 := refRun bs lim kb r.2 os
    (r.1 :: r2.1, r2.2)

/-- operations the properties quantify over: requests shorter than 2^64 bytes, seek targets inside the
    keystream `[0, (M−1)·bs)`. -/
def SOp.Valid (bs lim : Nat) : SOp → Prop
  | .apply d => d.length < 2 ^ 64
  | .seek p => p < lim * bs
  | .pos _ => True

theorem roundup_q (K : Core σ) (s : Wr σ) (blk : Nat) (hbs : 0 < K.bs) (h1 : 1 ≤ s.pos) (h2 : s.pos ≤ K.bs)
    (h3 : s.pos < K.bs → 1 ≤ blk) : (s.q K blk + K.bs - 1) / K.bs * K.bs = blk * K.bs := by
  simp only [Wr.q]
  rcases Nat.lt_or_ge s.pos K.bs with hlt | hge
  · have hk := h3 hlt
    obtain ⟨j, rfl⟩ : ∃ j, blk = j + 1 := ⟨blk - 1, by omega⟩
    have e : (j + 1) * K.bs - (K.bs - s.pos) + K.bs - 1 = (s.pos - 1) + (j + 1) * K.bs := by
      rw [Nat.add_mul, Nat.one_mul]; omega
    rw [e, Nat.add_mul_div_right _ _ hbs, Nat.div_eq_of_lt (by omega)]
    simp
  · have : s.pos = K.bs := by omega
    rw [this, Nat.sub_self, Nat.sub_zero]
    have e : blk * K.bs + K.bs - 1 = (K.bs - 1) + blk * K.bs := by omega
    rw [e, Nat.add_mul_div_right _ _ hbs, Nat.div_eq_of_lt (by omega)]
    simp

/-- **every finite sequence of `{seek, apply, current_pos}` operations** on a byte-level cipher whose
    state satisfies the invariant is observationally the reference machine on the byte position. -/
theorem ops_coherent {K : Core σ} {M : Nat} {ks : Nat → Bytes} {Rep : σ → Nat → Prop}
    (hK : CoreSpec K M ks Rep) (hS : SeekSpec K M Rep) (w : Nat) :
    ∀ (ops : List SOp) (s : Wr σ) (blk : Nat), WInv K ks Rep s blk → (∀ o ∈ ops, o.Valid K.bs (M - 1)) →
      (Wr.runOps K w s ops).1 = (refRun K.bs (M - 1) (ksByte K.bs ks) (s.q K blk) ops).1 := by
  intro ops
  induction ops with
  | nil => intro s blk _ _; rfl
  | cons o os ih =>
    intro s blk hI hv
    have hvo : o.Valid K.bs (M - 1) := hv o (by simp)
    have hvs : ∀ o' ∈ os, o'.Valid K.bs (M - 1) := fun o' h => hv o' (by simp [h])
    cases o with
    | apply d =>
      simp only [SOp.Valid] at hvo
      have hiff := checkRemaining_iff hK hS s blk d.length hI hvo
      by_cases hfit : s.q K blk + d.length ≤ (M - 1) * K.bs
      · have hc : s.checkRemaining K d.length = true := hiff.mpr hfit
        obtain ⟨ho, blk', hI', hq'⟩ := apply_spec hK w s blk d hI (Or.inr hfit)
        simp only [Wr.runOps, Wr.stepOp, Wr.apply, hc, if_true, refRun, refStep, hfit]
        rw [ho, ih _ blk' hI' hvs, hq']
      · have hc : s.checkRemaining K d.length = false := by
          cases h : s.checkRemaining K d.length
          · rfl
          · exact absurd (hiff.mp h) hfit
        simp only [Wr.runOps, Wr.stepOp, Wr.apply, hc, refRun, refStep, hfit, if_false, Bool.false_eq_true]
        rw [ih s blk hI hvs]
    | seek p =>
      simp only [SOp.Valid] at hvo
      obtain ⟨hok, blk', hI', hq'⟩ := seek_spec hK hS s blk p hI hvo
      simp only [Wr.runOps, Wr.stepOp, hok, if_true, refRun, refStep]
      rw [ih _ blk' hI' hvs, hq']
    | pos m =>
      obtain ⟨hsome, hnone, _⟩ := currentPos_of_inv hK hS s blk m hI
      have hru := roundup_q K s blk hK.bs_pos hI.pos_pos hI.pos_le hI.blk_pos
      simp only [Wr.runOps, Wr.stepOp, refRun, refStep, hru]
      cases hc : s.currentPos K m with
      | none =>
        have := hnone.mp hc
        simp only [if_neg (by omega : ¬ blk * K.bs ≤ m)]
        rw [ih s blk hI hvs]
      | some v =>
        have hne : ¬ (m < blk * K.bs) := fun h => by rw [hnone.mpr h] at hc; cases hc
        obtain ⟨hv1, _⟩ := hsome v hc
        simp only [if_pos (by omega : blk * K.bs ≤ m)]
        rw [hv1, ih s blk hI hvs]

end Glue

namespace Glue
open Spec
variable {σ : Type}

/-! ### cutting the byte stream into calls -/

/-- successive calls (each already past its exhaustion check), state threaded through. -/
def Wr.runUnchecked (K : Core σ) (w : Nat) : Wr σ → List Bytes → List Bytes × Wr σ
  | s, [] => ([], s)
  | s, p :: ps =>
    let r := s.applyUnchecked K w p
    let r2 := Wr.runUnchecked K w r.2 ps
    (r.1 :: r2.1, r2.2)

theorem runUnchecked_spec {K : Core σ} {M : Nat} {ks : Nat → Bytes} {Rep : σ → Nat → Prop}
    (hK : CoreSpec K M ks Rep) (w : Nat) :
    ∀ (pieces : List Bytes) (s : Wr σ) (blk : Nat), WInv K ks Rep s blk →
      (M = 0 ∨ s.q K blk + pieces.flatten.length ≤ (M - 1) * K.bs) →
      (Wr.runUnchecked K w s pieces).1.flatten
        = xorB pieces.flatten (ksBytes (ksByte K.bs ks) (s.q K blk) pieces.flatten.length) ∧
      ∃ blk', WInv K ks Rep (Wr.runUnchecked K w s pieces).2 blk' ∧
        (Wr.runUnchecked K w s pieces).2.q K blk' = s.q K blk + pieces.flatten.length := by
  intro pieces
  induction pieces with
  | nil => intro s blk hI _; exact ⟨by simp [Wr.runUnchecked, ksBytes], blk, hI, by simp [Wr.runUnchecked]⟩
  | cons p ps ih =>
    intro s blk hI hfit
    have hlen : (p :: ps).flatten.length = p.length + ps.flatten.length := by simp
    obtain ⟨ho, blk1, hI1, hq1⟩ := apply_spec hK w s blk p hI (by
      rcases hfit with h | h
      · exact Or.inl h
      · right; rw [hlen] at h; omega)
    obtain ⟨ho2, blk2, hI2, hq2⟩ := ih _ blk1 hI1 (by
      rcases hfit with h | h
      · exact Or.inl h
      · right; rw [hlen] at h; rw [hq1]; omega)
    refine ⟨?_, blk2, hI2, ?_⟩
    · simp only [Wr.runUnchecked, List.flatten_cons]
      rw [ho, ho2, hq1, List.length_append, ksBytes_add, xorB_append _ _ _ _ (by simp)]
    · simp only [Wr.runUnchecked]
      rw [hq2, hq1, hlen]; omega

/-- **any cutting of the byte string into pieces (empty ones included) gives the bytes of one call on the
    whole string, and leaves the same abstract position.** -/
theorem pieces_eq_whole {K : Core σ} {M : Nat} {ks : Nat → Bytes} {Rep : σ → Nat → Prop}
    (hK : CoreSpec K M ks Rep) (w : Nat) (pieces : List Bytes) (s : Wr σ) (blk : Nat) (hI : WInv K ks Rep s blk)
    (hfit : M = 0 ∨ s.q K blk + pieces.flatten.length ≤ (M - 1) * K.bs) :
    (Wr.runUnchecked K w s pieces).1.flatten = (s.applyUnchecked K w pieces.flatten).1 := by
  rw [(runUnchecked_spec hK w pieces s blk hI hfit).1, (apply_spec hK w s blk pieces.flatten hI hfit).1]

end Glue

namespace Glue
open Spec
variable {σ : Type}

/-! ### `try_apply_keystream_partial` -/

/-- **`try_apply_keystream_partial`, when it returns `Ok` and the keystream really has the blocks it needs**: the output
    is `data ⊕ keystream[blk·bs …)` — whole blocks through `apply_keystream_blocks`, the trailing piece through a
    zero-padded block of which only the leading bytes are kept. (Whether it returns `Ok` is decided by the
    dependency's `%`-based count; see `applyPartial`.) -/
theorem applyPartial_spec {K : Core σ} {M : Nat} {ks : Nat → Bytes} {Rep : σ → Nat → Prop}
    (hK : CoreSpec K M ks Rep) (w : Nat) (s : σ) (blk : Nat) (hR : Rep s blk) (data : Bytes)
    (hfit : M = 0 ∨ blk + (data.length + K.bs - 1) / K.bs < M) :
    applyPartialUnchecked K w s data = xorB data (ksBytes (ksByte K.bs ks) (blk * K.bs) data.length) := by
  have hbs := hK.bs_pos
  unfold applyPartialUnchecked
  simp only
  · by_cases hn : data.length > K.bs
    · simp only [hn, if_true]
      have hall := chunks_allLen K.bs hbs data
      have hcl := chunks_length K.bs hbs data
      have htl := chunksTail_length K.bs hbs data
      have hft := chunks_flatten_tail K.bs hbs data
      have hfl := chunks_flatten_length K.bs hbs data
      have hdm := Nat.div_add_mod data.length K.bs
      have hmc : K.bs * (data.length / K.bs) = data.length / K.bs * K.bs := Nat.mul_comm _ _
      have hmod : data.length % K.bs < K.bs := Nat.mod_lt _ hbs
      -- number of blocks really needed
      have hneed : data.length / K.bs ≤ (data.length + K.bs - 1) / K.bs := by
        apply Nat.div_le_div_right; omega
      obtain ⟨a1, a2⟩ := applyBlocks_spec hK w s blk hR (chunks K.bs data) hall
        (by rcases hfit with h0 | h0
            · exact Or.inl h0
            · exact Or.inr (by
                by_cases hz : data.length % K.bs = 0
                · rw [hcl]
                  have : (data.length + K.bs - 1) / K.bs = data.length / K.bs := by
                    have e : data.length + K.bs - 1 = (K.bs - 1) + K.bs * (data.length / K.bs) := by omega
                    rw [e, Nat.add_mul_div_left _ _ hbs, Nat.div_eq_of_lt (by omega)]; omega
                  omega
                · rw [hcl]
                  have : (data.length + K.bs - 1) / K.bs = data.length / K.bs + 1 := by
                    have e : data.length + K.bs - 1 = (data.length % K.bs - 1) + K.bs * (data.length / K.bs + 1) := by
                      rw [Nat.mul_add, Nat.mul_one]; omega
                    rw [e, Nat.add_mul_div_left _ _ hbs, Nat.div_eq_of_lt (by omega)]; omega
                  omega))
      split
      · -- no tail
        rename_i ht
        have hte : chunksTail K.bs data = [] := List.eq_nil_of_length_eq_zero ht
        rw [hte, List.append_nil] at hft
        rw [a1, hft, hcl]
        have : data.length / K.bs * K.bs = data.length := by rw [htl] at ht; omega
        rw [this]
      · rename_i ht
        have htpos : 0 < (chunksTail K.bs data).length := Nat.pos_of_ne_zero ht
        have hpl : (chunksTail K.bs data ++ zeros (K.bs - (chunksTail K.bs data).length)).length = K.bs := by
          simp [zeros]; omega
        obtain ⟨b1, _⟩ := applyBlocks_spec hK w (applyBlocks K w s (chunks K.bs data)).2 (blk + (chunks K.bs data).length) a2
          [chunksTail K.bs data ++ zeros (K.bs - (chunksTail K.bs data).length)]
          (by intro b hb; simp only [List.mem_singleton] at hb; rw [hb]; exact hpl)
          (by rcases hfit with h0 | h0
              · exact Or.inl h0
              · refine Or.inr ?_
                rw [hcl]
                have : (data.length + K.bs - 1) / K.bs = data.length / K.bs + 1 := by
                  have hz : data.length % K.bs ≠ 0 := by rw [← htl]; exact ht
                  have e : data.length + K.bs - 1 = (data.length % K.bs - 1) + K.bs * (data.length / K.bs + 1) := by
                    rw [Nat.mul_add, Nat.mul_one]; omega
                  rw [e, Nat.add_mul_div_left _ _ hbs, Nat.div_eq_of_lt (by omega)]; omega
                simp only [List.length_singleton]; omega)
        simp only [List.length_singleton, Nat.one_mul, List.flatten_cons, List.flatten_nil, List.append_nil] at b1
        rw [a1, b1, xorB_take, List.take_left' rfl]
        -- assemble
        have hsplit : data.length = (chunks K.bs data).flatten.length + (chunksTail K.bs data).length := by
          rw [← List.length_append, hft]
        conv => rhs; rw [← hft]
        rw [List.length_append, ksBytes_add, xorB_append _ _ _ _ (by simp)]
        congr 1
        · rw [hfl, hcl]
        · rw [hfl, hcl, Nat.add_mul, ksBytes_take _ _ _ _ (by omega)]
    · -- at most one block: everything goes through the padded block
      simp only [hn, if_false]
      have e0 : applyBlocks K w s [] = ([], s) := by
        simp [applyBlocks, genBlocks_eq_seq K w hK.par, genSeq]
      rw [e0]
      simp only
      split
      · rename_i ht
        have : data = [] := List.eq_nil_of_length_eq_zero ht
        subst this; simp [ksBytes]
      · rename_i ht
        have hle : data.length ≤ K.bs := by omega
        have hpl : (data ++ zeros (K.bs - data.length)).length = K.bs := by simp [zeros]; omega
        obtain ⟨b1, _⟩ := applyBlocks_spec hK w s blk hR [data ++ zeros (K.bs - data.length)]
          (by intro b hb; simp only [List.mem_singleton] at hb; rw [hb]; exact hpl)
          (by rcases hfit with h0 | h0
              · exact Or.inl h0
              · refine Or.inr ?_
                have hpos : 0 < data.length := Nat.pos_of_ne_zero ht
                have : 1 ≤ (data.length + K.bs - 1) / K.bs := by
                  rw [Nat.le_div_iff_mul_le hbs]; omega
                simp only [List.length_singleton]; omega)
        simp only [List.length_singleton, Nat.one_mul, List.flatten_cons, List.flatten_nil, List.append_nil, List.nil_append] at b1 ⊢
        rw [b1, xorB_take, List.take_left' rfl, ksBytes_take _ _ _ _ hle]

end Glue
