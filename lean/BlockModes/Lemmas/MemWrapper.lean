import BlockModes.Impl.MemWrapper
import BlockModes.Lemmas.MemLoop
import BlockModes.Lemmas.Core
import BlockModes.Lemmas.Xor
/-
  Lemmas/MemWrapper.lean — the checked memory-level mirror of `try_apply_keystream_inout` never fails on a
  well-formed wrapper state and leaves, in both aliasing modes, the bytes and the state of the value-level mirror
  `Wr.applyUnchecked` (which C08/C10/C11 are about).
-/
namespace Impl.MemWr
open Glue Impl.MemCts

variable {σ : Type}

/-- a core whose keystream blocks have the block size (under a state invariant `P`, e.g. "the nonce has the
    block's length") and whose parallel generator agrees with the sequential one. -/
structure LenCore (K : Core σ) (P : σ → Prop) : Prop where
  bs_pos : 0 < K.bs
  gen : ∀ c, P c → (K.genBlock c).1.length = K.bs ∧ P (K.genBlock c).2
  par : ∀ pw c, 1 < pw → K.genPar pw c = genSeq K pw c

theorem genSeq_len {K : Core σ} {P : σ → Prop} (hK : LenCore K P) : ∀ (n : Nat) (c : σ), P c →
    (genSeq K n c).1.length = n ∧ (∀ b ∈ (genSeq K n c).1, b.length = K.bs) ∧ P (genSeq K n c).2 := by
  intro n
  induction n with
  | zero => intro c hc; exact ⟨rfl, by intro b hb; simp [genSeq] at hb, hc⟩
  | succ n ih =>
    intro c hc
    obtain ⟨g1, g2⟩ := hK.gen c hc
    obtain ⟨h1, h2, h3⟩ := ih _ g2
    refine ⟨by simp [genSeq, h1], ?_, h3⟩
    intro b hb
    simp only [genSeq, List.mem_cons] at hb
    rcases hb with rfl | hb
    · exact g1
    · exact h2 b hb

theorem genBlocks_len {K : Core σ} {P : σ → Prop} (hK : LenCore K P) (w n : Nat) (c : σ) (hc : P c) :
    (genBlocks K w n c).1.length = n ∧ (∀ b ∈ (genBlocks K w n c).1, b.length = K.bs) ∧ P (genBlocks K w n c).2 := by
  rw [genBlocks_eq_seq K w hK.par]; exact genSeq_len hK n c hc

theorem len_split' (L bs : Nat) : L = L / bs * bs + L % bs := by
  have := Nat.div_add_mod L bs; rw [Nat.mul_comm] at this; omega

theorem rng_drop (m : Bytes) (a off len : Nat) : rng (m.drop a) off len = rng m (a + off) len := by
  simp [rng, List.drop_drop]

theorem blocksAt_drop (m : Bytes) (bs : Nat) : ∀ (n a off : Nat),
    blocksAt m bs n (a + off) = blocksAt (m.drop a) bs n off := by
  intro n
  induction n with
  | zero => intro a off; rfl
  | succ n ih =>
    intro a off
    simp only [blocksAt, rng_drop]
    rw [Nat.add_assoc, ih]

/-! ### progress of a call: the first `q` output bytes are final, the rest of both views is as at entry -/

structure Upto (io io' : IOBuf) (q : Nat) (D : Bytes) : Prop where
  out : io'.out = D ++ io.out.drop q
  dlen : D.length = q
  len : io'.len = io.len
  wf : WF io'
  src : ∀ o, q ≤ o → (src io').drop o = (src io).drop o
  inp : io'.inp = io.inp
  alias : io'.alias = io.alias

theorem Upto.init (io : IOBuf) (hw : WF io) : Upto io io 0 [] :=
  ⟨by simp, rfl, rfl, hw, fun _ _ => rfl, rfl, rfl⟩

theorem upto_of_write (io io1 io2 : IOBuf) (q len : Nat) (D R : Bytes) (h : Upto io io1 q D) (hR : R.length = len)
    (hfit : q + len ≤ io.len)
    (hout : io2.out = io1.out.take q ++ R ++ io1.out.drop (q + len)) (hinp : io2.inp = io1.inp)
    (hal : io2.alias = io1.alias) : Upto io io2 (q + len) (D ++ R) := by
  have hl2 : io2.len = io1.len := len_after io1 io2 q len R hR (by rw [h.len]; exact hfit) hout
  have hD : io1.out.take q = D := by rw [h.out, List.take_left' h.dlen]
  have hdrop : io1.out.drop (q + len) = io.out.drop (q + len) := by
    rw [h.out, ← List.drop_drop, List.drop_left' h.dlen, List.drop_drop]
  refine ⟨by rw [hout, hD, hdrop], by simp [h.dlen, hR], by rw [hl2, h.len],
    WF_after io1 io2 hl2 hinp hal h.wf, ?_, by rw [hinp, h.inp], by rw [hal, h.alias]⟩
  intro o ho
  rw [src_after io1 io2 q len R hR (by rw [h.len]; exact hfit) hout hinp hal o ho, h.src o (by omega)]

theorem xorRange_upto (io io1 : IOBuf) (q len : Nat) (D ks : Bytes) (h : Upto io io1 q D) (hk : ks.length = len)
    (hfit : q + len ≤ io.len) :
    ∃ io2, xorRange? io1 q len ks = some io2 ∧ Upto io io2 (q + len) (D ++ xorB (rng (src io) q len) ks) := by
  have hsl := src_length io1 h.wf
  have hr : rng (src io1) q len = rng (src io) q len :=
    rng_congr _ _ q q len (h.src q (Nat.le_refl _)) (Nat.le_refl _)
  have hrl : (rng (src io) q len).length = len := by
    rw [← hr]; exact rng_length _ _ _ (by rw [hsl, h.len]; exact hfit)
  have hxl : (xorB (rng (src io) q len) ks).length = len := by simp [hrl, hk]
  unfold xorRange?
  rw [getIn?_eq io1 _ _ (by rw [h.len]; exact hfit), hr]
  simp only [hk, ne_eq, not_true_eq_false, if_false]
  rw [setOut?_eq io1 _ _ _ (by rw [h.len]; exact hfit) hxl]
  refine ⟨_, rfl, upto_of_write io io1 _ q len D _ h hxl hfit ?_ rfl rfl⟩
  simp only [IOBuf.setOut, setRng, hxl, List.append_assoc]

/-- XOR of `nb` blocks with `nb` keystream blocks through the loop state -/
theorem fold_xor_ks (bs : Nat) : ∀ (blocks ks : List Bytes), ks.length = blocks.length →
    (foldBlocks (fun (k : List Bytes) blk => (xorB blk (k.headD []), k.tail)) ks blocks).1 = List.zipWith xorB blocks ks := by
  intro blocks
  induction blocks with
  | nil => intro ks _; simp [foldBlocks]
  | cons b bs' ih =>
    intro ks hk
    match ks, hk with
    | k :: ks', hk =>
      simp only [foldBlocks, List.headD_cons, List.tail_cons, List.zipWith_cons_cons]
      rw [ih ks' (by simpa using hk)]

theorem applyBlocksMem_upto (io io1 : IOBuf) (q bs nb : Nat) (D : Bytes) (ks : List Bytes) (h : Upto io io1 q D)
    (hkl : ks.length = nb) (hks : ∀ b ∈ ks, b.length = bs) (hfit : q + nb * bs ≤ io.len) :
    ∃ io2, applyBlocksMem ks bs nb q io1 = some io2 ∧
      Upto io io2 (q + nb * bs) (D ++ (List.zipWith xorB (blocksAt (src io) bs nb q) ks).flatten) := by
  -- invariant of the loop state: the remaining keystream blocks all have the block size and there are at least as
  -- many as blocks left — carried as "length ≥ 1 or nothing left to do" is not needed: lengths are checked per block
  -- direct induction (the generic `memLoop_spec` needs a state-independent length bound, which `headD []` lacks)
  have key : ∀ (nb q : Nat) (ks : List Bytes) (io1 : IOBuf) (D : Bytes), Upto io io1 q D → ks.length = nb →
      (∀ b ∈ ks, b.length = bs) → q + nb * bs ≤ io.len →
      ∃ io2 s', memLoop (fun (k : List Bytes) blk => (xorB blk (k.headD []), k.tail)) bs nb q ks io1 = some (io2, s') ∧
        Upto io io2 (q + nb * bs) (D ++ (List.zipWith xorB (blocksAt (src io) bs nb q) ks).flatten) := by
    intro nb
    induction nb with
    | zero =>
      intro q ks io1 D h _ _ _
      exact ⟨io1, ks, rfl, by simpa [blocksAt] using h⟩
    | succ n ih =>
      intro q ks io1 D h hkl hks hfit
      rw [Nat.add_mul, Nat.one_mul] at hfit
      match ks, hkl with
      | k :: ks', hkl =>
        have hk : k.length = bs := hks k (by simp)
        have hsl := src_length io1 h.wf
        have hr : rng (src io1) q bs = rng (src io) q bs :=
          rng_congr _ _ q q bs (h.src q (Nat.le_refl _)) (Nat.le_refl _)
        have hrl : (rng (src io) q bs).length = bs := by
          rw [← hr]; exact rng_length _ _ _ (by rw [hsl, h.len]; omega)
        have hxl : (xorB (rng (src io) q bs) k).length = bs := by simp [hrl, hk]
        have hu : Upto io (io1.setOut q (xorB (rng (src io) q bs) k)) (q + bs) (D ++ xorB (rng (src io) q bs) k) :=
          upto_of_write io io1 _ q bs D _ h hxl (by omega)
            (by simp only [IOBuf.setOut, setRng, hxl, List.append_assoc]) rfl rfl
        obtain ⟨io2, s', h1, h2⟩ := ih (q + bs) ks' _ _ hu (by simpa using hkl)
          (fun b hb => hks b (by simp [hb])) (by omega)
        refine ⟨io2, s', ?_, ?_⟩
        · simp only [memLoop, getIn?_eq io1 q bs (by rw [h.len]; omega), hr, List.headD_cons, List.tail_cons,
            setOut?_eq io1 q bs _ (by rw [h.len]; omega) hxl]
          exact h1
        · have e : q + bs + n * bs = q + (n + 1) * bs := by rw [Nat.add_mul, Nat.one_mul]; omega
          rw [e] at h2
          simpa [blocksAt, List.append_assoc] using h2
  obtain ⟨io2, s', h1, h2⟩ := key nb q ks io1 D h hkl hks hfit
  exact ⟨io2, by unfold applyBlocksMem; rw [h1]; rfl, h2⟩

theorem upto_final (io io' : IOBuf) (D : Bytes) (h : Upto io io' io.len D) : io'.out = D := by
  have : io.out.drop io.len = [] := List.drop_of_length_le (Nat.le_refl _)
  rw [h.out, this, List.append_nil]

/-! ### the wrapper body -/

/-- **`try_apply_keystream_inout`, both aliasing modes**: on a well-formed wrapper state (one block of buffer,
    `pos ≤ bs`) and any data length the checked memory-level body succeeds, writes the bytes of the value-level mirror
    whatever the output buffer held, and leaves the same state. -/
theorem applyUncheckedMem_ok {K : Core σ} {P : σ → Prop} (hK : LenCore K P) (w : Nat) (s : Wr σ)
    (hbuf : s.buffer.length = K.bs) (hpos : s.pos ≤ K.bs) (hP : P s.core) (io : IOBuf) (hw : WF io) :
    ∃ io', applyUncheckedMem K w s io = some (io', (s.applyUnchecked K w (src io)).2) ∧
      io'.out = (s.applyUnchecked K w (src io)).1 := by
  have hbs := hK.bs_pos
  have hsl := src_length io hw
  generalize hm : src io = m at *
  have hml : m.length = io.len := hsl
  unfold applyUncheckedMem Wr.applyUnchecked
  simp only [sub?_eq _ _ hpos, hml]
  by_cases hA : K.bs - s.pos ≠ 0 ∧ io.len ≤ K.bs - s.pos
  · -- the request fits into the buffered keystream
    simp only [if_pos hA]
    rw [slice?_eq _ _ _ (by omega) (Nat.le_refl _), hbuf]
    have ht : (s.buffer.drop s.pos).take (K.bs - s.pos) = s.buffer.drop s.pos :=
      List.take_of_length_le (by rw [List.length_drop, hbuf]; exact Nat.le_refl _)
    simp only [ht]
    rw [slice?_eq _ 0 io.len (Nat.zero_le _) (by rw [List.length_drop, hbuf]; exact hA.2)]
    simp only [List.drop_zero, Nat.sub_zero]
    have hkl : ((s.buffer.drop s.pos).take io.len).length = io.len := by
      rw [List.length_take, List.length_drop, hbuf]; omega
    obtain ⟨io2, h1, h2⟩ := xorRange_upto io io 0 io.len [] _ (Upto.init io hw) hkl (by omega)
    simp only [Nat.zero_add, List.nil_append, hm] at h1 h2
    rw [h1]
    refine ⟨io2, rfl, ?_⟩
    rw [upto_final io io2 _ h2]
    have : rng m 0 io.len = m := by rw [← hml]; exact rng_zero_length m
    rw [this]; rfl
  · simp only [if_neg hA]
    have hgt : K.bs - s.pos = 0 ∨ K.bs - s.pos < io.len := by omega
    -- left part
    have hleft : ∃ io1, applyLeft? s s.pos (K.bs - s.pos) io = some io1 ∧
        Upto io io1 (K.bs - s.pos) (xorB (m.take (K.bs - s.pos)) (s.buffer.drop s.pos)) := by
      unfold applyLeft?
      by_cases hr0 : K.bs - s.pos = 0
      · refine ⟨io, by simp [hr0], ?_⟩
        have := Upto.init io hw
        simpa [hr0] using this
      · have hlt : ¬ K.bs - s.pos > io.len := by omega
        rw [if_pos hr0, if_neg hlt]
        rw [slice?_eq _ _ _ (by omega) (Nat.le_refl _), hbuf]
        have ht : (s.buffer.drop s.pos).take (K.bs - s.pos) = s.buffer.drop s.pos :=
          List.take_of_length_le (by rw [List.length_drop, hbuf]; exact Nat.le_refl _)
        simp only [ht]
        obtain ⟨io1, h1, h2⟩ := xorRange_upto io io 0 (K.bs - s.pos) [] (s.buffer.drop s.pos) (Upto.init io hw)
          (by rw [List.length_drop, hbuf]) (by omega)
        simp only [Nat.zero_add, List.nil_append, hm] at h1 h2
        refine ⟨io1, h1, ?_⟩
        have : rng m 0 (K.bs - s.pos) = m.take (K.bs - s.pos) := by simp [rng]
        rw [this] at h2; exact h2
    obtain ⟨io1, hl1, hu1⟩ := hleft
    rw [hl1]
    simp only
    -- whole blocks
    generalize hrem : K.bs - s.pos = rem at *
    have hremle : rem ≤ io.len := by omega
    have hdl : (m.drop rem).length = io.len - rem := by rw [List.length_drop, hml]
    have hnb : (chunks K.bs (m.drop rem)).length = (io.len - rem) / K.bs := by rw [chunks_length K.bs hbs, hdl]
    have hsplit : io.len - rem = (io.len - rem) / K.bs * K.bs + (io.len - rem) % K.bs := len_split' _ _
    obtain ⟨g1, g2, g3⟩ := genBlocks_len hK w ((io.len - rem) / K.bs) s.core hP
    have hblocks : blocksAt m K.bs ((io.len - rem) / K.bs) rem = chunks K.bs (m.drop rem) := by
      have h1 := blocksAt_eq_chunks (m.drop rem) K.bs hbs
      rw [hdl] at h1
      rw [← h1]
      exact blocksAt_drop m K.bs _ rem 0
    obtain ⟨io2, hb1, hu2⟩ := applyBlocksMem_upto io io1 rem K.bs ((io.len - rem) / K.bs) _ _ hu1 g1 g2 (by omega)
    rw [hm, hblocks] at hu2
    rw [hb1]
    dsimp only
    have htl : (chunksTail K.bs (m.drop rem)).length = (io.len - rem) % K.bs := by
      rw [chunksTail_length K.bs hbs, hdl]
    simp only [htl, Glue.applyBlocks, hnb]
    by_cases ht0 : (io.len - rem) % K.bs = 0
    · simp only [ht0, if_true]
      refine ⟨io2, rfl, ?_⟩
      have hq : rem + (io.len - rem) / K.bs * K.bs = io.len := by omega
      rw [hq] at hu2
      rw [upto_final io io2 _ hu2]
    · simp only [ht0, if_false]
      obtain ⟨gk1, gk2⟩ := hK.gen _ g3
      have hmod := Nat.mod_lt (io.len - rem) hbs
      rw [slice?_eq _ 0 _ (Nat.zero_le _) (by rw [gk1]; omega)]
      simp only [List.drop_zero, Nat.sub_zero]
      obtain ⟨io3, h31, h32⟩ := xorRange_upto io io2 _ ((io.len - rem) % K.bs) _
        ((K.genBlock (genBlocks K w ((io.len - rem) / K.bs) s.core).2).1.take ((io.len - rem) % K.bs)) hu2
        (by rw [List.length_take, gk1]; omega) (by omega)
      rw [h31]
      refine ⟨io3, rfl, ?_⟩
      have hq : rem + (io.len - rem) / K.bs * K.bs + (io.len - rem) % K.bs = io.len := by omega
      rw [hq] at h32
      rw [upto_final io io3 _ h32, hm]
      have htail : rng m (rem + (io.len - rem) / K.bs * K.bs) ((io.len - rem) % K.bs) = chunksTail K.bs (m.drop rem) := by
        rw [chunksTail_eq_drop K.bs hbs, hdl, List.drop_drop]
        exact rng_all _ _ _ (by rw [hml]; omega)
      rw [htail]

/-! ### `try_apply_keystream_partial` at memory level -/

/-- the body after the check never fails and writes, in both aliasing modes and whatever the output buffer held, the bytes of
    the value-level mirror `Glue.applyPartialUnchecked` applied to what the input view showed. -/
theorem partialUncheckedMem_ok {K : Core σ} {P : σ → Prop} (hK : LenCore K P) (w : Nat) (s : σ) (hP : P s)
    (io : IOBuf) (hw : WF io) :
    ∃ io', partialUncheckedMem K w s io = some io' ∧ io'.out = applyPartialUnchecked K w s (src io) := by
  have hbs := hK.bs_pos
  have hsl := src_length io hw
  -- number of whole blocks handed to the block loop
  generalize hnb : (if io.len > K.bs then io.len / K.bs else 0) = nb
  have hnbfit : nb * K.bs ≤ io.len := by
    rw [← hnb]; split
    · exact Nat.div_mul_le_self _ _
    · omega
  obtain ⟨hg1, hg2, hg3⟩ := genBlocks_len hK w nb s hP
  obtain ⟨io1, h1, hU⟩ := applyBlocksMem_upto io io 0 K.bs nb [] (genBlocks K w nb s).1 (Upto.init io hw) hg1 hg2 (by omega)
  simp only [Nat.zero_add, List.nil_append] at hU
  -- the blocks the loop read, as chunks
  have hblocks : blocksAt (src io) K.bs nb 0 = (if (src io).length > K.bs then chunks K.bs (src io) else []) := by
    rw [hsl, ← hnb]
    split
    · rw [← hsl]; exact blocksAt_eq_chunks (src io) K.bs hbs
    · rfl
  -- names for the whole blocks and the rest, as the value-level mirror cuts them
  generalize hB : (if io.len > K.bs then chunks K.bs (src io) else []) = B
  generalize hT : (if io.len > K.bs then chunksTail K.bs (src io) else src io) = T
  rw [hsl, hB] at hblocks
  have hBlen : B.length = nb := by rw [← hblocks, blocksAt_length]
  have hTdrop : T = (src io).drop (nb * K.bs) := by
    rw [← hT, ← hnb]; split
    · rw [chunksTail_eq_drop K.bs hbs, hsl]
    · simp
  have hTlen : T.length = io.len - nb * K.bs := by rw [hTdrop, List.length_drop, hsl]
  have hTle : io.len - nb * K.bs ≤ K.bs := by
    rw [← hnb]; split
    · have := Nat.mod_lt io.len hbs
      have h2 := Nat.div_add_mod io.len K.bs
      have h3 : K.bs * (io.len / K.bs) = io.len / K.bs * K.bs := Nat.mul_comm _ _
      omega
    · omega
  have hAB : (applyBlocks K w s B).1 = List.zipWith xorB B (genBlocks K w nb s).1 ∧ (applyBlocks K w s B).2 = (genBlocks K w nb s).2 := by
    simp [applyBlocks, hBlen]
  unfold partialUncheckedMem applyPartialUnchecked
  simp only [hnb, h1, hsl, hB, hT, hAB.1, hAB.2, hTlen]
  rw [hblocks] at hU
  by_cases hn : io.len - nb * K.bs = 0
  · simp only [hn, if_true]
    refine ⟨io1, rfl, ?_⟩
    have : nb * K.bs = io.len := by omega
    rw [this] at hU
    exact upto_final io io1 _ hU
  · simp only [hn, if_false]
    -- the rest as the input view shows it after the block loop
    have hrest : rng (src io1) (nb * K.bs) (io.len - nb * K.bs) = T := by
      rw [rng_congr _ _ (nb * K.bs) (nb * K.bs) _ (hU.src _ (Nat.le_refl _)) (Nat.le_refl _), hTdrop]
      unfold rng
      exact List.take_of_length_le (by rw [List.length_drop, hsl]; omega)
    rw [getIn?_eq io1 _ _ (by rw [hU.len]; omega), hrest]
    simp only
    rw [blockSet?_eq (zeros K.bs) 0 (io.len - nb * K.bs) T (Nat.zero_le _) (by simp [zeros]; omega) (by rw [hTlen]; omega)]
    have hblock : setRng (zeros K.bs) 0 T = T ++ zeros (K.bs - T.length) := by simp [setRng, zeros]
    simp only [hblock, hTlen]
    -- one more keystream block
    obtain ⟨k1, k2, k3⟩ := genBlocks_len hK w 1 (genBlocks K w nb s).2 hg3
    obtain ⟨kb, hkb⟩ : ∃ kb, (genBlocks K w 1 (genBlocks K w nb s).2).1 = [kb] := by
      match hq : (genBlocks K w 1 (genBlocks K w nb s).2).1, k1 with
      | [x], _ => exact ⟨x, rfl⟩
    have hkbl : kb.length = K.bs := k2 kb (by rw [hkb]; simp)
    have hA1 : (applyBlocks K w (genBlocks K w nb s).2 [T ++ zeros (K.bs - (io.len - nb * K.bs))]).1.flatten
        = xorB (T ++ zeros (K.bs - (io.len - nb * K.bs))) kb := by
      simp [applyBlocks, hkb]
    rw [hA1, hkb]
    simp only [List.headD_cons]
    have hpl : (T ++ zeros (K.bs - (io.len - nb * K.bs))).length = K.bs := by simp [zeros, hTlen]; omega
    rw [slice?_eq _ 0 (io.len - nb * K.bs) (Nat.zero_le _) (by simp [hpl, hkbl]; omega)]
    simp only [List.drop_zero, Nat.sub_zero]
    have hvl : ((xorB (T ++ zeros (K.bs - (io.len - nb * K.bs))) kb).take (io.len - nb * K.bs)).length = io.len - nb * K.bs := by
      rw [List.length_take, xorB_length, hpl, hkbl]; omega
    rw [setOut?_eq io1 _ _ _ (by rw [hU.len]; omega) hvl]
    refine ⟨_, rfl, ?_⟩
    have hU2 := upto_of_write io io1 (io1.setOut (nb * K.bs) ((xorB (T ++ zeros (K.bs - (io.len - nb * K.bs))) kb).take (io.len - nb * K.bs)))
      (nb * K.bs) (io.len - nb * K.bs) _ _ hU hvl (by omega)
      (by simp only [IOBuf.setOut, setRng, hvl, List.append_assoc]) rfl rfl
    have : nb * K.bs + (io.len - nb * K.bs) = io.len := by omega
    rw [this] at hU2
    exact upto_final io _ _ hU2


/-- the public call: `err` (nothing written) iff the dependency's check refuses, otherwise `ok` with the value-level bytes —
    never `panic`. -/
theorem partialMem_eq {K : Core σ} {P : σ → Prop} (hK : LenCore K P) (w : Nat) (s : σ) (hP : P s) (io : IOBuf) (hw : WF io) :
    partialMem K w s io =
      (if partialCheck K s io.len then .ok (applyPartialUnchecked K w s (src io)) else .err io.out) := by
  unfold partialMem
  split
  · obtain ⟨io', h1, h2⟩ := partialUncheckedMem_ok hK w s hP io hw
    simp only [h1, h2]
  · rfl

end Impl.MemWr

/-! ### the three cores of /repo are length-regular -/
namespace Impl.MemWr
open Glue Impl.MemCts

theorem mapIdx_flatten_length {α : Type} (cs : Nat) (g : Nat → α → Bytes) (hg : ∀ i v, (g i v).length = cs) (l : List α) :
    (l.mapIdx g).flatten.length = l.length * cs := by
  rw [flatten_length_of_allLen cs, List.length_mapIdx]
  intro b hb
  rw [List.mem_iff_getElem] at hb
  obtain ⟨i, hi, rfl⟩ := hb
  simp only [List.getElem_mapIdx]
  exact hg _ _

theorem ctr_currentBlock_length (f : Spec.Flavor) (cn : Ctr.St) : (Ctr.currentBlock f cn).length = cn.nonce.length * f.cs := by
  unfold Ctr.currentBlock
  apply mapIdx_flatten_length
  intro i v
  dsimp only
  split
  · split <;> simp
  · simp

theorem ctr_lenCore (C : Cipher) (hC : C.Valid) (f : Spec.Flavor) :
    LenCore (Ctr.core C f) (fun cn => cn.nonce.length * f.cs = C.bs) where
  bs_pos := hC.bs_pos
  gen := by
    intro c hc
    refine ⟨?_, hc⟩
    show (C.enc (Ctr.currentBlock f c)).length = C.bs
    exact hC.enc_len _ (by rw [ctr_currentBlock_length]; exact hc)
  par := fun pw c _ => Ctr.genPar_eq_seq C f pw c

theorem belt_lenCore (C : Cipher) (hC : C.Valid) (hbs : C.bs = 16) : LenCore (Belt.core C) (fun _ => True) where
  bs_pos := hC.bs_pos
  gen := by
    intro c _
    refine ⟨?_, trivial⟩
    show (C.enc (toLE 16 ((c.s + 1) % Belt.M))).length = C.bs
    exact hC.enc_len _ (by simp [hbs])
  par := fun pw c _ => Belt.genPar_eq_seq C pw c

theorem ofb_lenCore (C : Cipher) (hC : C.Valid) : LenCore (OfbCore.core C) (fun iv => iv.length = C.bs) where
  bs_pos := hC.bs_pos
  gen := by
    intro c hc
    exact ⟨hC.enc_len c hc, hC.enc_len c hc⟩
  par := fun pw c _ => OfbCore.genPar_eq_seq C pw c

/-- the public call at memory level: `Err` (nothing modified) iff `check_remaining` fails, otherwise `Ok` with the
    value-level bytes and state — never `panic`. -/
theorem applyMem_eq {σ : Type} {K : Core σ} {P : σ → Prop} (hK : LenCore K P) (w : Nat) (s : Wr σ)
    (hbuf : s.buffer.length = K.bs) (hpos : s.pos ≤ K.bs) (hP : P s.core) (io : IOBuf) (hw : WF io) :
    applyMem K w s io =
      (if s.checkRemaining K io.len then
        .ok (s.applyUnchecked K w (src io)).1 (s.applyUnchecked K w (src io)).2
       else .err io.out s) := by
  unfold applyMem
  split
  · obtain ⟨io', h1, h2⟩ := applyUncheckedMem_ok hK w s hbuf hpos hP io hw
    simp only [h1, h2]
  · rfl

end Impl.MemWr
