import BlockModes.Lemmas.Cts
/-
  Lemmas/CtsEcb.lean — ECB-CS1/2/3: the decrypt closures invert the NIST formulation (C05, C01).
-/
namespace Thm.C05aux
open Impl Impl.Cts Glue Spec

theorem map_dec_map_enc (C : Cipher) (hC : C.Valid) (L : List Bytes) (hL : ∀ b ∈ L, b.length = C.bs) :
    (L.map C.enc).map C.dec = L := by
  induction L with
  | nil => rfl
  | cons x xs ih =>
    simp only [List.map_cons]
    rw [hC.dec_enc x (hL x (by simp)), ih (fun b hb => hL b (by simp [hb]))]

theorem map_enc_allLen (C : Cipher) (hC : C.Valid) (L : List Bytes) (hL : ∀ b ∈ L, b.length = C.bs) :
    ∀ b ∈ L.map C.enc, b.length = C.bs := by
  intro b hb
  simp only [List.mem_map] at hb
  obtain ⟨x, hx, rfl⟩ := hb
  exact hC.enc_len x (hL x hx)

theorem swapLast2_concat2 (T : List Bytes) (a b : Bytes) : swapLast2 (T ++ [a, b]) = T ++ [b] ++ [a] := by
  unfold swapLast2
  have h1 : (T ++ [a, b]).length - 2 = T.length := by simp
  have h2 : (T ++ [a, b]).getLastD [] = b := by
    rw [show T ++ [a, b] = (T ++ [a]) ++ [b] by simp, List.getLastD_concat]
  have h3 : (T ++ [a, b]).dropLast.getLastD [] = a := by
    rw [show T ++ [a, b] = (T ++ [a]) ++ [b] by simp, List.dropLast_concat, List.getLastD_concat]
  rw [h1, h2, h3, List.take_left' rfl]

/-- ECB-CS1 decrypt on `X ‖ O.take d ‖ E(tail ‖ O.drop d)`. -/
theorem ecb_cs1_dec_shape (C : Cipher) (hC : C.Valid) (w : Nat) (X : List Bytes) (hX : ∀ b ∈ X, b.length = C.bs)
    (o tail : Bytes) (ho : o.length = C.bs) (ht0 : 0 < tail.length) (ht : tail.length < C.bs) :
    ecbCs1Dec C w (X.flatten ++ (o.take tail.length ++ C.enc (tail ++ o.drop tail.length)))
      = (X.map C.dec).flatten ++ (C.dec o ++ tail) := by
  have hbs := hC.bs_pos
  have hx : (tail ++ o.drop tail.length).length = C.bs := by simp [ho]; omega
  have hcn : (C.enc (tail ++ o.drop tail.length)).length = C.bs := hC.enc_len _ hx
  generalize hY : o.take tail.length ++ C.enc (tail ++ o.drop tail.length) = Y
  have hYl : Y.length = C.bs + tail.length := by rw [← hY]; simp [hcn, ho]; omega
  obtain ⟨hch, htl⟩ := layout_chunks C.bs hbs X hX Y (by omega) (by omega)
  obtain ⟨_, hdr⟩ := layout_take_drop C.bs X hX Y
  have hfl := flatten_length_of_allLen C.bs X hX
  unfold ecbCs1Dec
  simp only [hch, htl]
  have htl' : (Y.drop C.bs).length = tail.length := by simp [hYl]
  have hne : (Y.drop C.bs).length ≠ 0 := by omega
  simp only [hne, ne_eq, not_false_eq_true, if_true, if_false]
  have hlen1 : (X ++ [Y.take C.bs]).length - 1 = X.length := by simp
  rw [hlen1, List.take_left' rfl, ecbDec_map]
  have hmid : (X.flatten ++ Y).length - (C.bs + (Y.drop C.bs).length) = X.length * C.bs := by
    rw [List.length_append, hfl, htl', hYl]; omega
  rw [hmid, hdr, ← hY]
  congr 1
  -- the un-stealing step
  unfold ecbCs1DecTail
  have hrl : (o.take tail.length ++ C.enc (tail ++ o.drop tail.length)).length - C.bs = tail.length := by
    rw [hY, hYl]; omega
  simp only [hrl]
  have hdrop : (o.take tail.length ++ C.enc (tail ++ o.drop tail.length)).drop tail.length
      = C.enc (tail ++ o.drop tail.length) := by
    rw [List.drop_left' (by simp; omega)]
  have htake : ((o.take tail.length ++ C.enc (tail ++ o.drop tail.length)).take C.bs).take tail.length
      = o.take tail.length := by
    rw [List.take_take, Nat.min_eq_left (Nat.le_of_lt ht), List.take_left' (by simp; omega)]
  rw [hdrop, htake, hC.dec_enc _ hx, List.drop_left' rfl, List.take_append_drop, List.take_left' rfl]

/-- the un-stealing step of ECB-CS2/CS3 on blocks `X ‖ E(tail ‖ O.drop d)` already decrypted, tail `O.take d`. -/
theorem ecbUnsteal_spec (C : Cipher) (hC : C.Valid) (X : List Bytes) (o tail : Bytes) (ho : o.length = C.bs)
    (ht : tail.length < C.bs) :
    ecbUnsteal C ((X ++ [C.enc (tail ++ o.drop tail.length)]).map C.dec) (o.take tail.length)
      = (X.map C.dec).flatten ++ (C.dec o ++ tail) := by
  have hx : (tail ++ o.drop tail.length).length = C.bs := by simp [ho]; omega
  have hol : (o.take tail.length).length = tail.length := by simp [ho]; omega
  unfold ecbUnsteal
  simp only [List.map_append, List.map_cons, List.map_nil, hol]
  rw [List.getLastD_concat, List.dropLast_concat, hC.dec_enc _ hx, List.drop_left' rfl, List.take_append_drop,
    List.take_left' rfl]
  simp

/-- ECB-CS2 / CS3 decrypt on `X ‖ E(tail ‖ O.drop d) ‖ O.take d`. -/
theorem ecb_cs23_dec_shape (C : Cipher) (hC : C.Valid) (w : Nat) (X : List Bytes) (hX : ∀ b ∈ X, b.length = C.bs)
    (o tail : Bytes) (ho : o.length = C.bs) (ht0 : 0 < tail.length) (ht : tail.length < C.bs) :
    ecbCs2Dec C w (X.flatten ++ (C.enc (tail ++ o.drop tail.length) ++ o.take tail.length))
      = (X.map C.dec).flatten ++ (C.dec o ++ tail) ∧
    ecbCs3Dec false C w (X.flatten ++ (C.enc (tail ++ o.drop tail.length) ++ o.take tail.length))
      = (X.map C.dec).flatten ++ (C.dec o ++ tail) := by
  have hbs := hC.bs_pos
  have hx : (tail ++ o.drop tail.length).length = C.bs := by simp [ho]; omega
  have hcn : (C.enc (tail ++ o.drop tail.length)).length = C.bs := hC.enc_len _ hx
  generalize hY : C.enc (tail ++ o.drop tail.length) ++ o.take tail.length = Y
  have hYl : Y.length = C.bs + tail.length := by rw [← hY]; simp [hcn, ho]; omega
  obtain ⟨hch, htl⟩ := layout_chunks C.bs hbs X hX Y (by omega) (by omega)
  have hYt : Y.take C.bs = C.enc (tail ++ o.drop tail.length) := by rw [← hY, List.take_left' hcn]
  have hYd : Y.drop C.bs = o.take tail.length := by rw [← hY, List.drop_left' hcn]
  have hne : ¬ (o.take tail.length).length = 0 := by rw [List.length_take, ho]; omega
  constructor
  · unfold ecbCs2Dec
    simp only [hch, htl, hYt, hYd, hne, if_false, ecbDec_map]
    exact ecbUnsteal_spec C hC X o tail ho ht
  · unfold ecbCs3Dec
    simp only [hch, htl, hYt, hYd, hne, if_false, ecbDec_map, Bool.false_eq_true]
    exact ecbUnsteal_spec C hC X o tail ho ht

/-- **ECB-CS1/2/3: decryption inverts encryption**, every block size, width, length ≥ one block. -/
theorem ecb_cs_dec_inverts (v : CsVariant) (C : Cipher) (hC : C.Valid) (w : Nat) (m : Bytes) (hm : C.bs ≤ m.length) :
    implEcbDec v C w (Spec.ecbCsEnc v C m) = m := by
  have hbs := hC.bs_pos
  have hlen := msg_len C.bs hbs m
  have htl := chunksTail_lt C.bs hbs m
  have hcl := chunks_length C.bs hbs m
  have hallB := chunks_allLen C.bs hbs m
  have hk : 1 ≤ (chunks C.bs m).length := by
    rw [hcl]; exact (Nat.one_le_div_iff hbs).mpr hm
  have hmsplit := chunks_flatten_tail C.bs hbs m
  have hallO := map_enc_allLen C hC _ hallB
  have hinv := map_dec_map_enc C hC _ hallB
  have hOl : ((chunks C.bs m).map C.enc).length = (chunks C.bs m).length := by simp
  by_cases ht : (chunksTail C.bs m).length = 0
  · have htnil : chunksTail C.bs m = [] := List.eq_nil_of_length_eq_zero ht
    have hmflat : (chunks C.bs m).flatten = m := by rw [htnil, List.append_nil] at hmsplit; exact hmsplit
    have hml : m.length = (chunks C.bs m).length * C.bs := by rw [hlen, ht]; simp
    by_cases hk1 : (chunks C.bs m).length ≤ 1
    · -- one block
      obtain ⟨hn, _⟩ := cts_aligned C.bs (chunks C.bs m).length hbs hk
      rw [← hml] at hn
      have hspec : Spec.ecbCsEnc v C m = C.enc m := by
        unfold Spec.ecbCsEnc; simp only [hn, hk1, if_true]
      have hmb : m.length = C.bs := by have : (chunks C.bs m).length = 1 := by omega
                                       rw [hml, this]; simp
      have hel : (C.enc m).length = C.bs := hC.enc_len m hmb
      have hch := chunks_of_blocks C.bs hbs [C.enc m] [] (by simpa using hel) (by simpa using hbs)
      simp only [List.flatten_cons, List.flatten_nil, List.append_nil] at hch
      rw [hspec]
      cases v <;>
        simp [implEcbDec, ecbCs1Dec, ecbCs2Dec, ecbCs3Dec, hch.1, hch.2, ecbDec_map, hC.dec_enc m hmb]
    · have hk2 : 2 ≤ (chunks C.bs m).length := by omega
      rw [ecbSpec_aligned v C hC m ht hk2]
      generalize hcs : (chunks C.bs m).map C.enc = cs at *
      generalize hkk : (chunks C.bs m).length = k at *
      have hsp := split_last2 cs [] (by omega)
      rw [hOl] at hsp
      have hflat : cs.flatten = (cs.take (k - 2)).flatten ++ cs.getD (k - 2) [] ++ cs.getD (k - 1) [] := by
        conv => lhs; rw [hsp]
        simp
      have hch := chunks_of_blocks C.bs hbs cs [] hallO (by simpa using hbs)
      rw [List.append_nil] at hch
      cases v
      · simp only [implEcbDec, arrange, ← hflat, ecbCs1Dec, hch.1, hch.2, List.length_nil, ne_eq, not_true_eq_false,
          if_false, if_true, ecbDec_map, hinv, hmflat]
      · simp only [implEcbDec, arrange, if_true, ← hflat, ecbCs2Dec, hch.1, hch.2, List.length_nil, ecbDec_map, hinv, hmflat]
      · -- CS3: the last two blocks come exchanged
        simp only [implEcbDec, arrange]
        have hl1 : (cs.getD (k - 1) []).length = C.bs := hallO _ (getD_mem _ _ _ (by omega))
        have hl2 : (cs.getD (k - 2) []).length = C.bs := hallO _ (getD_mem _ _ _ (by omega))
        have hall' : ∀ b ∈ cs.take (k - 2) ++ [cs.getD (k - 1) [], cs.getD (k - 2) []], b.length = C.bs := by
          intro b hb
          simp only [List.mem_append, List.mem_cons, List.not_mem_nil, or_false] at hb
          rcases hb with hb | rfl | rfl
          · exact hallO b (List.mem_of_mem_take hb)
          · exact hl1
          · exact hl2
        have hch' := chunks_of_blocks C.bs hbs _ [] hall' (by simpa using hbs)
        simp only [List.flatten_append, List.flatten_cons, List.flatten_nil, List.append_nil] at hch'
        have hbuf : (cs.take (k - 2)).flatten ++ cs.getD (k - 1) [] ++ cs.getD (k - 2) []
            = (cs.take (k - 2)).flatten ++ (cs.getD (k - 1) [] ++ cs.getD (k - 2) []) := by simp
        unfold ecbCs3Dec
        rw [hbuf]
        simp only [hch'.1, hch'.2, List.length_nil, true_and, Bool.false_eq_true, if_false, if_true, ecbDec_map]
        have hlen2 : (cs.take (k - 2) ++ [cs.getD (k - 1) [], cs.getD (k - 2) []]).length > 1 := by simp
        simp only [hlen2, if_true, List.map_append, List.map_cons, List.map_nil]
        rw [swapLast2_concat2]
        -- the three pieces are the block-wise decryption of `cs`
        have hdec : cs.map C.dec = chunks C.bs m := hinv
        conv at hdec => lhs; rw [hsp]
        rw [← hmflat, ← hdec]
        simp
  · have htp : 0 < (chunksTail C.bs m).length := by omega
    rw [ecbSpec_partial v C hC m htp hk]
    generalize hcs : (chunks C.bs m).map C.enc = cs at *
    have hX : ∀ b ∈ cs.dropLast, b.length = C.bs := fun b hb => hallO b (List.dropLast_subset cs hb)
    have hckl : (cs.getLastD []).length = C.bs := by
      rw [← getD_last cs [] (by omega)]; exact hallO _ (getD_mem _ _ _ (by omega))
    have hne : ¬ (chunksTail C.bs m).length = C.bs := by omega
    have hdec : cs.map C.dec = chunks C.bs m := hinv
    rw [split_dropLast cs [] (by omega), List.map_append] at hdec
    have hfinal : (cs.dropLast.map C.dec).flatten ++ (C.dec (cs.getLastD []) ++ chunksTail C.bs m) = m := by
      rw [← List.append_assoc]
      have : (cs.dropLast.map C.dec).flatten ++ C.dec (cs.getLastD []) = (chunks C.bs m).flatten := by
        rw [← hdec]; simp
      rw [this, hmsplit]
    cases v
    · simp only [implEcbDec, arrange, List.append_assoc]
      rw [ecb_cs1_dec_shape C hC w _ hX _ _ hckl htp htl]; exact hfinal
    · simp only [implEcbDec, arrange, hne, if_false, List.append_assoc]
      rw [(ecb_cs23_dec_shape C hC w _ hX _ _ hckl htp htl).1]; exact hfinal
    · simp only [implEcbDec, arrange, List.append_assoc]
      rw [(ecb_cs23_dec_shape C hC w _ hX _ _ hckl htp htl).2]; exact hfinal

end Thm.C05aux

namespace Thm.C05aux
open Impl Impl.Cts Glue Spec

theorem arrange_length (v : CsVariant) (bs d : Nat) (h p c : Bytes) :
    (arrange v bs d h p c).length = h.length + p.length + c.length := by
  cases v
  · simp only [arrange, List.length_append]
  · simp only [arrange]; split <;> simp only [List.length_append] <;> omega
  · simp only [arrange, List.length_append]; omega

/-- lengths of the pieces of a list of `k` blocks. -/
theorem pieces_len (bs : Nat) (cs : List Bytes) (hall : ∀ b ∈ cs, b.length = bs) :
    (∀ j, (cs.take j).flatten.length = min j cs.length * bs) ∧ cs.dropLast.flatten.length = (cs.length - 1) * bs := by
  constructor
  · intro j
    rw [flatten_length_of_allLen bs _ (fun b hb => hall b (List.mem_of_mem_take hb)), List.length_take]
  · rw [flatten_length_of_allLen bs _ (fun b hb => hall b (List.dropLast_subset cs hb)), List.length_dropLast]

/-- **ciphertext length = message length** (CBC variants, NIST formulation). -/
theorem cbcSpec_length (v : CsVariant) (C : Cipher) (hC : C.Valid) (iv m : Bytes) (hiv : iv.length = C.bs)
    (hm : C.bs ≤ m.length) : (Spec.cbcCsEnc v C iv m).length = m.length := by
  have hbs := hC.bs_pos
  have hlen := msg_len C.bs hbs m
  have htl := chunksTail_lt C.bs hbs m
  have hcl := chunks_length C.bs hbs m
  obtain ⟨hall, hr2⟩ := cbcEnc_blocks_len C hC iv hiv m
  have hk : 1 ≤ (chunks C.bs m).length := by
    rw [hcl]; exact (Nat.one_le_div_iff hbs).mpr hm
  have hcsl : (Spec.cbcEnc C iv (chunks C.bs m)).1.length = (chunks C.bs m).length := cbcEnc_length C _ iv
  obtain ⟨hpt, hpd⟩ := pieces_len C.bs _ hall
  by_cases ht : (chunksTail C.bs m).length = 0
  · have hml : m.length = (chunks C.bs m).length * C.bs := by rw [hlen, ht]; simp
    by_cases hk1 : (chunks C.bs m).length ≤ 1
    · obtain ⟨hn, hd⟩ := cts_aligned C.bs (chunks C.bs m).length hbs hk
      rw [← hml] at hn hd
      unfold Spec.cbcCsEnc
      have hpad : m ++ zeros (C.bs - C.bs) = m := by simp [zeros]
      simp only [hn, hd, hpad, hk1, if_true]
      rw [flatten_length_of_allLen C.bs _ hall, hcsl, hml]
    · have hk2 : 2 ≤ (chunks C.bs m).length := by omega
      rw [cbcSpec_aligned v C hC iv m hiv ht hk2, arrange_length, hpt,
        hall _ (getD_mem _ _ _ (by omega)), hall _ (getD_mem _ _ _ (by omega)), hcsl, hml,
        Nat.min_eq_left (by omega)]
      generalize (chunks C.bs m).length = k at *
      obtain ⟨j, rfl⟩ : ∃ j, k = j + 2 := ⟨k - 2, by omega⟩
      rw [Nat.add_sub_cancel, Nat.add_mul]; omega
  · have htp : 0 < (chunksTail C.bs m).length := by omega
    have hckl : ((Spec.cbcEnc C iv (chunks C.bs m)).1.getLastD []).length = C.bs := by
      rw [← getD_last _ [] (by omega)]; exact hall _ (getD_mem _ _ _ (by omega))
    have hx : (xorB (chunksTail C.bs m ++ zeros (C.bs - (chunksTail C.bs m).length)) (Spec.cbcEnc C iv (chunks C.bs m)).2).length = C.bs := by
      rw [xorB_length, List.length_append, zeros_length, hr2]; omega
    rw [cbcSpec_partial v C hC iv m htp hk, arrange_length, hpd, List.length_take, hckl, hC.enc_len _ hx, hcsl, hlen]
    generalize (chunks C.bs m).length = k at *
    obtain ⟨j, rfl⟩ : ∃ j, k = j + 1 := ⟨k - 1, by omega⟩
    rw [Nat.add_sub_cancel, Nat.add_mul]; omega

/-- **ciphertext length = message length** (ECB variants). -/
theorem ecbSpec_length (v : CsVariant) (C : Cipher) (hC : C.Valid) (m : Bytes)
    (hm : C.bs ≤ m.length) : (Spec.ecbCsEnc v C m).length = m.length := by
  have hbs := hC.bs_pos
  have hlen := msg_len C.bs hbs m
  have htl := chunksTail_lt C.bs hbs m
  have hcl := chunks_length C.bs hbs m
  have hallB := chunks_allLen C.bs hbs m
  have hall := map_enc_allLen C hC _ hallB
  have hk : 1 ≤ (chunks C.bs m).length := by
    rw [hcl]; exact (Nat.one_le_div_iff hbs).mpr hm
  have hcsl : ((chunks C.bs m).map C.enc).length = (chunks C.bs m).length := by simp
  obtain ⟨hpt, hpd⟩ := pieces_len C.bs _ hall
  by_cases ht : (chunksTail C.bs m).length = 0
  · have hml : m.length = (chunks C.bs m).length * C.bs := by rw [hlen, ht]; simp
    by_cases hk1 : (chunks C.bs m).length ≤ 1
    · obtain ⟨hn, _⟩ := cts_aligned C.bs (chunks C.bs m).length hbs hk
      rw [← hml] at hn
      have hmb : m.length = C.bs := by have : (chunks C.bs m).length = 1 := by omega
                                       rw [hml, this]; simp
      unfold Spec.ecbCsEnc
      simp only [hn, hk1, if_true]
      rw [hC.enc_len m hmb, hmb]
    · have hk2 : 2 ≤ (chunks C.bs m).length := by omega
      rw [ecbSpec_aligned v C hC m ht hk2, arrange_length, hpt,
        hall _ (getD_mem _ _ _ (by omega)), hall _ (getD_mem _ _ _ (by omega)), hcsl, hml,
        Nat.min_eq_left (by omega)]
      generalize (chunks C.bs m).length = k at *
      obtain ⟨j, rfl⟩ : ∃ j, k = j + 2 := ⟨k - 2, by omega⟩
      rw [Nat.add_sub_cancel, Nat.add_mul]; omega
  · have htp : 0 < (chunksTail C.bs m).length := by omega
    have hckl : (((chunks C.bs m).map C.enc).getLastD []).length = C.bs := by
      rw [← getD_last _ [] (by omega)]; exact hall _ (getD_mem _ _ _ (by omega))
    have hx : (chunksTail C.bs m ++ (((chunks C.bs m).map C.enc).getLastD []).drop (chunksTail C.bs m).length).length = C.bs := by
      rw [List.length_append, List.length_drop, hckl]; omega
    rw [ecbSpec_partial v C hC m htp hk, arrange_length, hpd, List.length_take, hckl, hC.enc_len _ hx, hcsl, hlen]
    generalize (chunks C.bs m).length = k at *
    obtain ⟨j, rfl⟩ : ∃ j, k = j + 1 := ⟨k - 1, by omega⟩
    rw [Nat.add_sub_cancel, Nat.add_mul]; omega

end Thm.C05aux
