import BlockModes.Basic
/-
  Lemmas/Xor.lean — algebra of `xorB` (XOR of byte strings, truncating to the shorter operand).
-/

@[simp] theorem xorB_length (a b : Bytes) : (xorB a b).length = min a.length b.length := by simp [xorB]
@[simp] theorem xorB_nil_left (b : Bytes) : xorB [] b = [] := by simp [xorB]
@[simp] theorem xorB_nil_right (a : Bytes) : xorB a [] = [] := by simp [xorB]

theorem xorB_cons (x : UInt8) (xs : Bytes) (y : UInt8) (ys : Bytes) :
    xorB (x :: xs) (y :: ys) = (x ^^^ y) :: xorB xs ys := by simp [xorB]

theorem xorB_comm : ∀ (a b : Bytes), xorB a b = xorB b a := by
  intro a
  induction a with
  | nil => intro b; simp
  | cons x xs ih =>
    intro b
    cases b with
    | nil => simp
    | cons y ys => rw [xorB_cons, xorB_cons, ih, UInt8.xor_comm]

theorem xorB_assoc : ∀ (a b c : Bytes), xorB (xorB a b) c = xorB a (xorB b c) := by
  intro a
  induction a with
  | nil => intro b c; simp
  | cons x xs ih =>
    intro b c
    cases b with
    | nil => simp
    | cons y ys =>
      cases c with
      | nil => simp
      | cons z zs => simp only [xorB_cons, ih, UInt8.xor_assoc]

/-- `(a ⊕ b) ⊕ b = a` when `b` is at least as long as `a`. -/
theorem xorB_cancel_right : ∀ (a b : Bytes), a.length ≤ b.length → xorB (xorB a b) b = a := by
  intro a
  induction a with
  | nil => intro b _; simp
  | cons x xs ih =>
    intro b h
    cases b with
    | nil => simp at h
    | cons y ys =>
      simp only [List.length_cons] at h
      rw [xorB_cons, xorB_cons, ih ys (by omega), UInt8.xor_assoc, UInt8.xor_self, UInt8.xor_zero]

theorem xorB_cancel_left (a b : Bytes) (h : a.length ≤ b.length) : xorB b (xorB b a) = a := by
  rw [xorB_comm b (xorB b a), xorB_comm b a, xorB_cancel_right a b h]

theorem xorB_cancel_mid (a b : Bytes) (h : a.length ≤ b.length) : xorB (xorB b a) b = a := by
  rw [xorB_comm b a, xorB_cancel_right a b h]

theorem xorB_append (a b c d : Bytes) (h : a.length = c.length) :
    xorB (a ++ b) (c ++ d) = xorB a c ++ xorB b d := by
  simp [xorB, List.zipWith_append h]

theorem xorB_take_right : ∀ (a b : Bytes), xorB a (b.take a.length) = xorB a b := by
  intro a
  induction a with
  | nil => intro b; simp
  | cons x xs ih =>
    intro b
    cases b with
    | nil => simp
    | cons y ys => simp [xorB_cons, ih]

theorem xorB_take (a b : Bytes) (n : Nat) : (xorB a b).take n = xorB (a.take n) (b.take n) := by
  simp [xorB, List.take_zipWith]

theorem xorB_drop (a b : Bytes) (n : Nat) : (xorB a b).drop n = xorB (a.drop n) (b.drop n) := by
  simp [xorB, List.drop_zipWith]

@[simp] theorem zeros_length (n : Nat) : (zeros n).length = n := by simp [zeros]

theorem xorB_zeros_right : ∀ (a : Bytes) (n : Nat), a.length ≤ n → xorB a (zeros n) = a := by
  intro a
  induction a with
  | nil => intro n _; simp
  | cons x xs ih =>
    intro n h
    cases n with
    | zero => simp at h
    | succ n =>
      simp only [List.length_cons] at h
      have : zeros (n + 1) = 0 :: zeros n := by simp [zeros, List.replicate_succ]
      rw [this, xorB_cons, ih n (by omega), UInt8.xor_zero]

theorem xorB_self : ∀ (a : Bytes), xorB a a = zeros a.length := by
  intro a
  induction a with
  | nil => simp [zeros]
  | cons x xs ih => rw [xorB_cons, ih, UInt8.xor_self]; simp [zeros, List.replicate_succ]

/-- if `a ⊕ c = b ⊕ c` on full length then `a = b`. -/
theorem xorB_right_cancel (a b c : Bytes) (ha : a.length ≤ c.length) (hb : b.length ≤ c.length)
    (h : xorB a c = xorB b c) : a = b := by
  have := congrArg (fun t => xorB t c) h
  simp only [xorB_cancel_right a c ha, xorB_cancel_right b c hb] at this
  exact this
