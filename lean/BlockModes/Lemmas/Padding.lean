import BlockModes.Glue.Async
import BlockModes.Lemmas.Chunks
import BlockModes.Lemmas.BlocksCtx
import BlockModes.Lemmas.SpecBlock
/-
  Lemmas/Padding.lean — PKCS#7: unpad ∘ pad = id, and the padded encrypt/decrypt helpers of the `cipher` crate
  invert each other whenever the underlying block mode does.
-/
namespace Spec

theorem pkcs7Pad_length (bs : Nat) (m : Bytes) : (pkcs7Pad bs m).length = m.length + (bs - m.length % bs) := by
  simp [pkcs7Pad]

/-- **PKCS#7**: unpadding a padded message returns the message, for every block size `1 … 255`. -/
theorem pkcs7Unpad_pad (bs : Nat) (h0 : 0 < bs) (h1 : bs < 256) (m : Bytes) : pkcs7Unpad bs (pkcs7Pad bs m) = some m := by
  have hmod := Nat.mod_lt m.length h0
  generalize hn : bs - m.length % bs = n
  have hn1 : 1 ≤ n := by omega
  have hn2 : n ≤ bs := by omega
  have hlen : (pkcs7Pad bs m).length = m.length + n := by rw [pkcs7Pad_length, hn]
  have hpad : pkcs7Pad bs m = m ++ List.replicate n (UInt8.ofNat n) := by simp [pkcs7Pad, hn]
  have hmul : (m.length + n) % bs = 0 := by
    have h2 := Nat.div_add_mod m.length bs
    have : m.length + n = bs * (m.length / bs + 1) := by rw [Nat.mul_add, Nat.mul_one]; omega
    rw [this]; exact Nat.mul_mod_right _ _
  have hlast : (pkcs7Pad bs m).getLastD 0 = UInt8.ofNat n := by
    rw [hpad]
    obtain ⟨k, rfl⟩ : ∃ k, n = k + 1 := ⟨n - 1, by omega⟩
    rw [List.replicate_succ', ← List.append_assoc, List.getLastD_concat]
  have hto : (UInt8.ofNat n).toNat = n := by
    rw [UInt8.toNat_ofNat']; exact Nat.mod_eq_of_lt (by omega)
  unfold pkcs7Unpad
  rw [hlen, hlast, hto]
  have c1 : ¬ (m.length + n = 0 ∨ (m.length + n) % bs ≠ 0) := by omega
  have c2 : ¬ (n = 0 ∨ n > bs) := by omega
  simp only [c1, c2, if_false]
  have hdrop : (pkcs7Pad bs m).drop (m.length + n - n) = List.replicate n (UInt8.ofNat n) := by
    rw [Nat.add_sub_cancel, hpad, List.drop_left' rfl]
  have htake : (pkcs7Pad bs m).take (m.length + n - n) = m := by
    rw [Nat.add_sub_cancel, hpad, List.take_left' rfl]
  rw [hdrop, htake]
  simp

end Spec

namespace Glue
open Spec

/-- **padded round trip**, generic in the block mode: if the many-block entry points are folds of the single-block
    steps, the decrypt fold inverts the encrypt fold from the initial state, and encryption preserves block lengths,
    then `decrypt_padded(encrypt_padded(m)) = Ok(m)` for every message length (0 included) and every mode block
    size `1 … 255`. -/
theorem padded_roundtrip {σ τ : Type} (mbs : Nat) (h0 : 0 < mbs) (h1 : mbs < 256)
    (encStep : σ → Bytes → Bytes × σ) (decStep : τ → Bytes → Bytes × τ)
    (encBlocksFn : σ → List Bytes → List Bytes × σ) (decBlocksFn : τ → List Bytes → List Bytes × τ)
    (s0 : σ) (t0 : τ)
    (he : ∀ s l, encBlocksFn s l = foldBlocks encStep s l)
    (hd : ∀ s l, decBlocksFn s l = foldBlocks decStep s l)
    (hrt : ∀ l, AllLen mbs l → (foldBlocks decStep t0 (foldBlocks encStep s0 l).1).1 = l)
    (hlen : ∀ l, AllLen mbs l → AllLen mbs (foldBlocks encStep s0 l).1)
    (m : Bytes) :
    paddedDec mbs decBlocksFn t0 (paddedEnc mbs encBlocksFn encStep s0 m) = some m := by
  have hB := chunks_allLen mbs h0 m
  have hT := chunksTail_length mbs h0 m
  have hTl := chunksTail_lt mbs h0 m
  have hm := chunks_flatten_tail mbs h0 m
  generalize hBdef : chunks mbs m = B at *
  generalize hTdef : chunksTail mbs m = T at *
  generalize htb : T ++ List.replicate (mbs - T.length) (UInt8.ofNat (mbs - T.length)) = tb
  have htbl : tb.length = mbs := by rw [← htb]; simp; omega
  have hall : AllLen mbs (B ++ [tb]) := by
    intro b hb
    simp only [List.mem_append, List.mem_singleton] at hb
    rcases hb with hb | rfl
    · exact hB b hb
    · exact htbl
  -- the ciphertext is the encryption of `B ++ [tb]` as one sequence
  have hct : paddedEnc mbs encBlocksFn encStep s0 m = (foldBlocks encStep s0 (B ++ [tb])).1.flatten := by
    unfold paddedEnc
    simp only [hBdef, hTdef, he, htb, foldBlocks_append, foldBlocks, List.flatten_append, List.flatten_cons,
      List.flatten_nil, List.append_nil]
  have hcl := hlen _ hall
  have hch := chunks_of_blocks mbs h0 _ [] hcl (by simpa using h0)
  rw [List.append_nil] at hch
  unfold paddedDec
  rw [hct, hch.1, hch.2]
  simp only [List.length_nil, ne_eq, not_true_eq_false, if_false, hd, hrt _ hall]
  -- the decrypted blocks flatten to the PKCS#7-padded message
  have : (B ++ [tb]).flatten = pkcs7Pad mbs m := by
    simp only [List.flatten_append, List.flatten_cons, List.flatten_nil, List.append_nil, ← htb, pkcs7Pad, ← hT]
    rw [← List.append_assoc, hm]
  rw [this]
  exact pkcs7Unpad_pad mbs h0 h1 m

end Glue
