import BlockModes.Spec.Block
import BlockModes.Lemmas.Xor
import BlockModes.Lemmas.Chunks
/-
  Lemmas/SpecBlock.lean — facts about the textbook recurrences: append laws, lengths, inverses.
-/
namespace Spec

/-- all blocks have the cipher's block size. -/
def AllLen (bs : Nat) (l : List Bytes) : Prop := ∀ b ∈ l, b.length = bs

theorem AllLen.cons {bs : Nat} {b : Bytes} {l : List Bytes} (h : AllLen bs (b :: l)) :
    b.length = bs ∧ AllLen bs l :=
  ⟨h b (by simp), fun x hx => h x (by simp [hx])⟩

/-! ### CBC -/

theorem cbcEnc_append (C : Cipher) (a b : List Bytes) (iv : Bytes) :
    cbcEnc C iv (a ++ b) = ((cbcEnc C iv a).1 ++ (cbcEnc C (cbcEnc C iv a).2 b).1, (cbcEnc C (cbcEnc C iv a).2 b).2) := by
  induction a generalizing iv with
  | nil => simp [cbcEnc]
  | cons x xs ih => simp [cbcEnc, ih]

theorem cbcDec_append (C : Cipher) (a b : List Bytes) (iv : Bytes) :
    cbcDec C iv (a ++ b) = ((cbcDec C iv a).1 ++ (cbcDec C (cbcDec C iv a).2 b).1, (cbcDec C (cbcDec C iv a).2 b).2) := by
  induction a generalizing iv with
  | nil => simp [cbcDec]
  | cons x xs ih => simp [cbcDec, ih]

theorem cbcEnc_length (C : Cipher) (l : List Bytes) (iv : Bytes) : (cbcEnc C iv l).1.length = l.length := by
  induction l generalizing iv with
  | nil => rfl
  | cons x xs ih => simp [cbcEnc, ih]

theorem cbcDec_length (C : Cipher) (l : List Bytes) (iv : Bytes) : (cbcDec C iv l).1.length = l.length := by
  induction l generalizing iv with
  | nil => rfl
  | cons x xs ih => simp [cbcDec, ih]

/-- CBC decryption inverts CBC encryption and both end in the same chaining value. -/
theorem cbcDec_cbcEnc (C : Cipher) (hC : C.Valid) (l : List Bytes) (iv : Bytes)
    (hiv : iv.length = C.bs) (hl : AllLen C.bs l) :
    (cbcDec C iv (cbcEnc C iv l).1).1 = l ∧ (cbcDec C iv (cbcEnc C iv l).1).2 = (cbcEnc C iv l).2 := by
  induction l generalizing iv with
  | nil => exact ⟨rfl, rfl⟩
  | cons p ps ih =>
    obtain ⟨hp, hps⟩ := hl.cons
    have hx : (xorB p iv).length = C.bs := by simp [hp, hiv]
    have hc : (C.enc (xorB p iv)).length = C.bs := hC.enc_len _ hx
    obtain ⟨h1, h2⟩ := ih (C.enc (xorB p iv)) hc hps
    simp only [cbcEnc, cbcDec, hC.dec_enc _ hx, xorB_cancel_right p iv (by omega), h1, h2, and_self]

theorem cbcEnc_allLen (C : Cipher) (hC : C.Valid) (l : List Bytes) (iv : Bytes)
    (hiv : iv.length = C.bs) (hl : AllLen C.bs l) :
    AllLen C.bs (cbcEnc C iv l).1 ∧ (cbcEnc C iv l).2.length = C.bs := by
  induction l generalizing iv with
  | nil => exact ⟨by intro b hb; simp [cbcEnc] at hb, hiv⟩
  | cons p ps ih =>
    obtain ⟨hp, hps⟩ := hl.cons
    have hx : (xorB p iv).length = C.bs := by simp [hp, hiv]
    have hc : (C.enc (xorB p iv)).length = C.bs := hC.enc_len _ hx
    obtain ⟨h1, h2⟩ := ih (C.enc (xorB p iv)) hc hps
    refine ⟨?_, h2⟩
    intro b hb
    simp only [cbcEnc, List.mem_cons] at hb
    rcases hb with rfl | hb
    · exact hc
    · exact h1 b hb

/-! ### PCBC -/

theorem pcbcDec_pcbcEnc (C : Cipher) (hC : C.Valid) (l : List Bytes) (s : Bytes)
    (hs : s.length = C.bs) (hl : AllLen C.bs l) :
    (pcbcDec C s (pcbcEnc C s l).1).1 = l ∧ (pcbcDec C s (pcbcEnc C s l).1).2 = (pcbcEnc C s l).2 := by
  induction l generalizing s with
  | nil => exact ⟨rfl, rfl⟩
  | cons p ps ih =>
    obtain ⟨hp, hps⟩ := hl.cons
    have hx : (xorB p s).length = C.bs := by simp [hp, hs]
    have hc : (C.enc (xorB p s)).length = C.bs := hC.enc_len _ hx
    have hs' : (xorB p (C.enc (xorB p s))).length = C.bs := by simp [hp, hc]
    obtain ⟨h1, h2⟩ := ih _ hs' hps
    simp only [pcbcEnc, pcbcDec, hC.dec_enc _ hx, xorB_cancel_right p s (by omega), h1, h2, and_self]

/-! ### IGE -/

theorem igeDec_igeEnc (C : Cipher) (hC : C.Valid) (l : List Bytes) (s : Bytes × Bytes)
    (hs1 : s.1.length = C.bs) (hs2 : s.2.length = C.bs) (hl : AllLen C.bs l) :
    (igeDec C s (igeEnc C s l).1).1 = l ∧ (igeDec C s (igeEnc C s l).1).2 = (igeEnc C s l).2 := by
  induction l generalizing s with
  | nil => exact ⟨rfl, rfl⟩
  | cons p ps ih =>
    obtain ⟨cp, pp⟩ := s
    simp only at hs1 hs2
    obtain ⟨hp, hps⟩ := hl.cons
    have hx : (xorB p cp).length = C.bs := by simp [hp, hs1]
    have he : (C.enc (xorB p cp)).length = C.bs := hC.enc_len _ hx
    have hc : (xorB (C.enc (xorB p cp)) pp).length = C.bs := by simp [he, hs2]
    obtain ⟨h1, h2⟩ := ih (xorB (C.enc (xorB p cp)) pp, p) hc hp hps
    simp only [igeEnc, igeDec, xorB_cancel_right (C.enc (xorB p cp)) pp (by omega), hC.dec_enc _ hx,
      xorB_cancel_right p cp (by omega), h1, h2, and_self]

/-! ### CFB (block level), CFB-8, OFB -/

theorem cfbDec_cfbEnc (C : Cipher) (hC : C.Valid) (l : List Bytes) (ch : Bytes)
    (hch : ch.length = C.bs) (hl : AllLen C.bs l) :
    (cfbDec C ch (cfbEnc C ch l).1).1 = l ∧ (cfbDec C ch (cfbEnc C ch l).1).2 = (cfbEnc C ch l).2 := by
  induction l generalizing ch with
  | nil => exact ⟨rfl, rfl⟩
  | cons p ps ih =>
    obtain ⟨hp, hps⟩ := hl.cons
    have hk : (C.enc ch).length = C.bs := hC.enc_len _ hch
    have hc : (xorB p (C.enc ch)).length = C.bs := by simp [hp, hk]
    obtain ⟨h1, h2⟩ := ih _ hc hps
    simp only [cfbEnc, cfbDec, xorB_cancel_right p (C.enc ch) (by omega), h1, h2, and_self]

theorem cfb8Dec_cfb8Enc (C : Cipher) (m : Bytes) (s : Bytes) :
    (cfb8Dec C s (cfb8Enc C s m).1).1 = m ∧ (cfb8Dec C s (cfb8Enc C s m).1).2 = (cfb8Enc C s m).2 := by
  induction m generalizing s with
  | nil => exact ⟨rfl, rfl⟩
  | cons p ps ih =>
    obtain ⟨h1, h2⟩ := ih (s.drop 1 ++ [p ^^^ (C.enc s).headD 0])
    simp only [cfb8Enc, cfb8Dec, h1, h2, UInt8.xor_assoc, UInt8.xor_self, UInt8.xor_zero, and_self]

/-- OFB is an involution on the data (same keystream), for blocks no longer than the keystream blocks. -/
theorem ofb_ofb (C : Cipher) (hC : C.Valid) (l : List Bytes) (o : Bytes)
    (ho : o.length = C.bs) (hl : AllLen C.bs l) :
    (ofb C o (ofb C o l).1).1 = l ∧ (ofb C o (ofb C o l).1).2 = (ofb C o l).2 := by
  induction l generalizing o with
  | nil => exact ⟨rfl, rfl⟩
  | cons p ps ih =>
    obtain ⟨hp, hps⟩ := hl.cons
    have hk : (C.enc o).length = C.bs := hC.enc_len _ ho
    obtain ⟨h1, h2⟩ := ih _ hk hps
    simp only [ofb, xorB_cancel_right p (C.enc o) (by omega), h1, h2, and_self]

theorem cfbEnc_allLen (C : Cipher) (hC : C.Valid) (l : List Bytes) (ch : Bytes)
    (hch : ch.length = C.bs) (hl : AllLen C.bs l) :
    AllLen C.bs (cfbEnc C ch l).1 ∧ (cfbEnc C ch l).2.length = C.bs := by
  induction l generalizing ch with
  | nil => exact ⟨by intro b hb; simp [cfbEnc] at hb, hch⟩
  | cons p ps ih =>
    obtain ⟨hp, hps⟩ := hl.cons
    have hk : (C.enc ch).length = C.bs := hC.enc_len _ hch
    have hc : (xorB p (C.enc ch)).length = C.bs := by simp [hp, hk]
    obtain ⟨h1, h2⟩ := ih _ hc hps
    refine ⟨?_, h2⟩
    intro b hb
    simp only [cfbEnc, List.mem_cons] at hb
    rcases hb with rfl | hb
    · exact hc
    · exact h1 b hb

/-- one-shot CFB on any byte length inverts (trailing partial block included). -/
theorem cfbDecBytes_cfbEncBytes (C : Cipher) (hC : C.Valid) (iv m : Bytes) (hiv : iv.length = C.bs) :
    cfbDecBytes C iv (cfbEncBytes C iv m) = m := by
  have hbs := hC.bs_pos
  have hAll : AllLen C.bs (chunks C.bs m) := chunks_allLen C.bs hbs m
  obtain ⟨hcl, hcs⟩ := cfbEnc_allLen C hC _ iv hiv hAll
  have hk : (C.enc (cfbEnc C iv (chunks C.bs m)).2).length = C.bs := hC.enc_len _ hcs
  have htl := chunksTail_lt C.bs hbs m
  have hxt : (xorB (chunksTail C.bs m) (C.enc (cfbEnc C iv (chunks C.bs m)).2)).length < C.bs := by
    simp; omega
  unfold cfbDecBytes cfbEncBytes
  simp only
  obtain ⟨e1, e2⟩ := chunks_of_blocks C.bs hbs _ _ hcl hxt
  rw [e1, e2]
  obtain ⟨d1, d2⟩ := cfbDec_cfbEnc C hC _ iv hiv hAll
  rw [d1, d2, xorB_cancel_right _ _ (by omega)]
  exact chunks_flatten_tail C.bs hbs m

end Spec
