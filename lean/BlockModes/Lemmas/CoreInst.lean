import BlockModes.Lemmas.Wrapper
import BlockModes.Lemmas.CtrLayout
import BlockModes.Thm.C04
import BlockModes.Thm.C06
import BlockModes.Spec.Block
/-
  Lemmas/CoreInst.lean — the three kinds of keystream core in /repo satisfy the abstract core
  specification used by the wrapper theorems: `CtrCore<C, F>` (six flavours), `BeltCtrCore<C>`, `OfbCore<C>`.
-/
namespace Glue
open Spec Impl

/-! ### CTR -/

def ctrRep (f : Flavor) (iv : Bytes) (cn : Ctr.St) (i : Nat) : Prop :=
  cn = { Ctr.fromNonce f iv with ctr := i } ∧ i < 2 ^ f.w

theorem ctr_coreSpec (C : Cipher) (hC : C.Valid) (hbs : C.bs < 256) (f : Flavor) (hw : f.w = 8 * f.cs) (hcs : 0 < f.cs)
    (k : Nat) (hk : 0 < k) (iv : Bytes) (hiv : iv.length = k * f.cs) (hblk : C.bs = k * f.cs) :
    CoreSpec (Ctr.core C f) (2 ^ f.w) (ctrKs C f iv) (ctrRep f iv) where
  bs_pos := hC.bs_pos
  bs_lt := hbs
  ks_len := fun i => by
    apply hC.enc_len
    have hle : f.cs ≤ iv.length := by rw [hiv]; exact Nat.le_mul_of_pos_left _ hk
    unfold ctrBlock
    split <;> simp <;> omega
  rep_lt := fun s i h => Or.inr h.2
  gen := fun s i h => by
    obtain ⟨rfl, hi⟩ := h
    refine ⟨?_, ?_⟩
    · show C.enc (Ctr.currentBlock f { Ctr.fromNonce f iv with ctr := i }) = ctrKs C f iv i
      rw [Ctr.layout f hw hcs k hk iv hiv]; rfl
    · intro hfit
      have hpos : 0 < 2 ^ f.w := Nat.pow_pos (by omega)
      have hlt : i + 1 < 2 ^ f.w := by rcases hfit with h | h <;> omega
      refine ⟨?_, hlt⟩
      show ({ Ctr.fromNonce f iv with ctr := i } : Ctr.St) |>.nonce |> fun n => (⟨(i + 1) % 2 ^ f.w, n⟩ : Ctr.St) = _
      simp [Nat.mod_eq_of_lt hlt]
  par := fun pw s _ => Ctr.genPar_eq_seq C f pw s

theorem ctr_seekSpec (C : Cipher) (f : Flavor) (iv : Bytes) :
    SeekSpec (Ctr.core C f) (2 ^ f.w) (ctrRep f iv) where
  M_pos := Nat.pow_pos (by omega)
  cw_eq := rfl
  getPos := fun s i h => by obtain ⟨rfl, _⟩ := h; rfl
  setPos := fun s i p h hp => by obtain ⟨rfl, _⟩ := h; exact ⟨rfl, hp⟩
  remaining := fun s i h => by obtain ⟨rfl, _⟩ := h; rfl

theorem ctr_init_rep (C : Cipher) (f : Flavor) (iv : Bytes) : ctrRep f iv (Ctr.init C f iv) 0 :=
  ⟨rfl, Nat.pow_pos (by omega)⟩

/-! ### BelT -/

def beltRep (C : Cipher) (iv : Bytes) (st : Belt.St) (i : Nat) : Prop :=
  st = { s := (beltS0 C iv + i) % Belt.M, sInit := beltS0 C iv } ∧ i < Belt.M

theorem belt_M : Belt.M = 2 ^ 128 := rfl

theorem belt_coreSpec (C : Cipher) (hC : C.Valid) (hbs : C.bs = 16) (iv : Bytes) :
    CoreSpec (Belt.core C) (2 ^ 128) (beltKs C iv) (beltRep C iv) where
  bs_pos := hC.bs_pos
  bs_lt := by show C.bs < 256; omega
  ks_len := fun i => by
    apply hC.enc_len; simp [hbs]
  rep_lt := fun s i h => Or.inr h.2
  gen := fun s i h => by
    obtain ⟨rfl, hi⟩ := h
    have hs : ((beltS0 C iv + i) % Belt.M + 1) % Belt.M = (beltS0 C iv + (i + 1)) % Belt.M := by
      rw [Nat.mod_add_mod]; congr 1
    refine ⟨?_, ?_⟩
    · show C.enc (toLE 16 (((beltS0 C iv + i) % Belt.M + 1) % Belt.M)) = beltKs C iv i
      rw [hs]; rfl
    · intro hfit
      have hlt : i + 1 < Belt.M := by
        rcases hfit with h | h
        · exact absurd h (by decide)
        · exact h
      refine ⟨?_, hlt⟩
      show ({ s := ((beltS0 C iv + i) % Belt.M + 1) % Belt.M, sInit := beltS0 C iv } : Belt.St) = _
      rw [hs]
  par := fun pw s _ => Belt.genPar_eq_seq C pw s

theorem belt_getPos (s0 i : Nat) (hs0 : s0 < Belt.M) (hi : i < Belt.M) :
    ((s0 + i) % Belt.M + Belt.M - s0) % Belt.M = i := by
  rcases Nat.lt_or_ge (s0 + i) Belt.M with h | h
  · rw [Nat.mod_eq_of_lt h]
    have : s0 + i + Belt.M - s0 = i + Belt.M := by omega
    rw [this, Nat.add_mod_right, Nat.mod_eq_of_lt hi]
  · have e : (s0 + i) % Belt.M = s0 + i - Belt.M := by
      rw [Nat.mod_eq_sub_mod h, Nat.mod_eq_of_lt (by omega)]
    rw [e]
    have : s0 + i - Belt.M + Belt.M - s0 = i := by omega
    rw [this, Nat.mod_eq_of_lt hi]

theorem belt_seekSpec (C : Cipher) (iv : Bytes) (hs0 : beltS0 C iv < Belt.M) :
    SeekSpec (Belt.core C) (2 ^ 128) (beltRep C iv) where
  M_pos := by decide
  cw_eq := rfl
  getPos := fun s i h => by
    obtain ⟨rfl, hi⟩ := h
    exact belt_getPos _ _ hs0 hi
  setPos := fun s i p h hp => by obtain ⟨rfl, _⟩ := h; exact ⟨rfl, hp⟩
  remaining := fun s i h => by
    obtain ⟨rfl, hi⟩ := h
    show (if Belt.M - 1 - ((beltS0 C iv + i) % Belt.M + Belt.M - beltS0 C iv) % Belt.M < 2 ^ 64 then _ else _) = _
    rw [belt_getPos _ _ hs0 hi]
    rfl

theorem belt_init_rep (C : Cipher) (iv : Bytes) (hs0 : beltS0 C iv < Belt.M) : beltRep C iv (Belt.init C iv) 0 := by
  refine ⟨?_, by decide⟩
  have : (beltS0 C iv + 0) % Belt.M = beltS0 C iv := by rw [Nat.add_zero, Nat.mod_eq_of_lt hs0]
  rw [this]; rfl

/-! ### OFB (no limit: `M = 0`) -/

def ofbRep (C : Cipher) (iv : Bytes) (s : Bytes) (i : Nat) : Prop :=
  s = match i with
    | 0 => iv
    | j + 1 => ofbKs C iv j

theorem ofbKs_len (C : Cipher) (hC : C.Valid) (iv : Bytes) (hiv : iv.length = C.bs) (i : Nat) :
    (ofbKs C iv i).length = C.bs := by
  induction i with
  | zero => exact hC.enc_len iv hiv
  | succ n ih => exact hC.enc_len _ ih

theorem ofb_coreSpec (C : Cipher) (hC : C.Valid) (hbs : C.bs < 256) (iv : Bytes) (hiv : iv.length = C.bs) :
    CoreSpec (OfbCore.core C) 0 (ofbKs C iv) (ofbRep C iv) where
  bs_pos := hC.bs_pos
  bs_lt := hbs
  ks_len := ofbKs_len C hC iv hiv
  rep_lt := fun _ _ _ => Or.inl rfl
  gen := fun s i h => by
    cases i with
    | zero => unfold ofbRep at h; subst h; exact ⟨rfl, fun _ => rfl⟩
    | succ j => unfold ofbRep at h; subst h; exact ⟨rfl, fun _ => rfl⟩
  par := fun pw s _ => OfbCore.genPar_eq_seq C pw s

end Glue
