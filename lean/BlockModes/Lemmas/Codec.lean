import BlockModes.Basic
/-
  Lemmas/Codec.lean — little/big-endian integer codecs on byte lists.
-/

@[simp] theorem toLE_length (k n : Nat) : (toLE k n).length = k := by
  induction k generalizing n with
  | zero => rfl
  | succ k ih => simp [toLE, ih]

@[simp] theorem toBE_length (k n : Nat) : (toBE k n).length = k := by simp [toBE]

theorem fromLE_toLE (k n : Nat) : fromLE (toLE k n) = n % 256 ^ k := by
  induction k generalizing n with
  | zero => simp [toLE, fromLE, Nat.mod_one]
  | succ k ih =>
    simp only [toLE, fromLE, ih]
    have h1 : (UInt8.ofNat (n % 256)).toNat = n % 256 := by simp [UInt8.toNat_ofNat']
    rw [h1, Nat.pow_succ, Nat.mul_comm (256 ^ k) 256, Nat.mod_mul]

theorem toLE_fromLE (l : Bytes) : toLE l.length (fromLE l) = l := by
  induction l with
  | nil => rfl
  | cons b bs ih =>
    simp only [List.length_cons, toLE, fromLE]
    have hb : b.toNat < 256 := b.toNat_lt
    have h1 : (b.toNat + 256 * fromLE bs) % 256 = b.toNat := by omega
    have h2 : (b.toNat + 256 * fromLE bs) / 256 = fromLE bs := by omega
    rw [h1, h2, ih]
    simp

theorem fromLE_lt (l : Bytes) : fromLE l < 256 ^ l.length := by
  induction l with
  | nil => simp [fromLE]
  | cons b bs ih =>
    simp only [fromLE, List.length_cons, Nat.pow_succ]
    have hb : b.toNat < 256 := b.toNat_lt
    omega

theorem fromBE_toBE (k n : Nat) : fromBE (toBE k n) = n % 256 ^ k := by
  simp [fromBE, toBE, fromLE_toLE]

theorem toBE_fromBE (l : Bytes) : toBE l.length (fromBE l) = l := by
  have := toLE_fromLE l.reverse
  simp only [List.length_reverse] at this
  simp [toBE, fromBE, this]

theorem fromBE_lt (l : Bytes) : fromBE l < 256 ^ l.length := by
  have := fromLE_lt l.reverse
  simpa [fromBE] using this

/-- `toLE` only depends on the value modulo `256^k`. -/
theorem toLE_mod (k n : Nat) : toLE k (n % 256 ^ k) = toLE k n := by
  have h := toLE_fromLE (toLE k n)
  rw [toLE_length, fromLE_toLE] at h
  exact h

theorem toLE_injective (k a b : Nat) (ha : a < 256 ^ k) (hb : b < 256 ^ k) (h : toLE k a = toLE k b) : a = b := by
  have := congrArg fromLE h
  rw [fromLE_toLE, fromLE_toLE, Nat.mod_eq_of_lt ha, Nat.mod_eq_of_lt hb] at this
  exact this

theorem toBE_injective (k a b : Nat) (ha : a < 256 ^ k) (hb : b < 256 ^ k) (h : toBE k a = toBE k b) : a = b := by
  apply toLE_injective k a b ha hb
  have := congrArg List.reverse h
  simpa [toBE] using this
