import BlockModes.Impl.MemAsync
import BlockModes.Lemmas.MemLoop
/-
  Lemmas/MemAsync.lean — the checked memory-level mirror of the `AsyncStreamCipher` one-shots never fails and
  writes exactly the value-level `Glue.asyncInOut` of the bytes the input view showed, in place and
  buffer-to-buffer alike (whatever the output buffer held before).
-/
namespace Impl.MemAsync
open Impl.MemCts Glue

theorem asyncMem_ok {σ : Type} (P : σ → Prop) (w mbs : Nat) (hmbs : 0 < mbs) (step : σ → Bytes → Bytes × σ)
    (par : σ → List Bytes → List Bytes × σ) (hstep : StepOk P step mbs)
    (hpar : ∀ s chunk, chunk.length = w → par s chunk = foldBlocks step s chunk)
    (s : σ) (io : IOBuf) (hs : P s) (hw : WF io) :
    ∃ io', asyncMem w mbs step par s io = some io' ∧
      io'.out = asyncInOut mbs (foldBlocks step) step s (src io) ∧ io'.inp = io.inp ∧ io'.alias = io.alias := by
  have hsl := src_length io hw
  have hol : io.out.length = io.len := rfl
  have hdm := Nat.div_add_mod io.len mbs
  have hcm : mbs * (io.len / mbs) = io.len / mbs * mbs := Nat.mul_comm _ _
  have hlt := Nat.mod_lt io.len hmbs
  have hb : 0 + io.len / mbs * mbs ≤ io.len := by omega
  obtain ⟨io1, h1, h2, h3, h4⟩ := memBlocks_spec P w mbs hmbs step par hstep hpar (io.len / mbs) 0 s io hs hw hb
  have hblocks : blocksAt (src io) mbs (io.len / mbs) 0 = chunks mbs (src io) := by
    rw [← hsl]; exact blocksAt_eq_chunks (src io) mbs hmbs
  rw [hblocks] at h1 h2
  have hal := chunks_allLen mbs hmbs (src io)
  have hfl : (foldBlocks step s (chunks mbs (src io))).1.flatten.length = io.len / mbs * mbs := by
    rw [foldBlocks_flatten_length P step mbs hstep _ s hs hal, chunks_length mbs hmbs, hsl]
  have hP1 := (foldBlocks_inv P step mbs hstep _ s hs hal).2
  have htl : (chunksTail mbs (src io)).length = io.len % mbs := by rw [chunksTail_length mbs hmbs, hsl]
  have hl1 : io1.len = io.len := len_after io io1 0 _ _ hfl hb h2
  have hsrc1 : (src io1).drop (io.len / mbs * mbs) = (src io).drop (io.len / mbs * mbs) :=
    src_after io io1 0 (io.len / mbs * mbs) _ hfl hb h2 h3 h4 _ (by omega)
  simp only [List.take_zero, List.nil_append, Nat.zero_add] at h2
  unfold asyncMem
  simp only [if_neg (Nat.ne_of_gt hmbs), h1]
  by_cases hn : io.len % mbs = 0
  · refine ⟨io1, by simp only [hn, ne_eq, not_true_eq_false, if_false], ?_, h3, h4⟩
    have hd : io.out.drop (io.len / mbs * mbs) = [] := List.drop_eq_nil_of_le (by omega)
    rw [h2, hd, List.append_nil]
    unfold asyncInOut
    simp only [htl, hn, ne_eq, not_true_eq_false, if_false]
  · simp only [ne_eq, hn, not_false_eq_true, if_true]
    -- the tail bytes as the input view shows them after the block loop
    have htail : rng (src io1) (io.len / mbs * mbs) (io.len % mbs) = chunksTail mbs (src io) := by
      unfold rng
      rw [hsrc1, chunksTail_eq_drop mbs hmbs, hsl]
      exact List.take_of_length_le (by simp only [List.length_drop]; omega)
    rw [getIn?_eq io1 _ _ (by omega), htail]
    simp only
    rw [blockSet?_eq (zeros mbs) 0 (io.len % mbs) _ (Nat.zero_le _) (by simp [zeros]; omega) (by rw [htl]; omega)]
    have hblock : setRng (zeros mbs) 0 (chunksTail mbs (src io))
        = chunksTail mbs (src io) ++ zeros (mbs - (chunksTail mbs (src io)).length) := by
      simp [setRng, zeros]
    have hblen : (setRng (zeros mbs) 0 (chunksTail mbs (src io))).length = mbs := by
      rw [hblock]; simp [zeros, htl]; omega
    obtain ⟨hr1, _⟩ := hstep _ _ hP1 hblen
    simp only
    rw [slice?_eq _ 0 (io.len % mbs) (Nat.zero_le _) (by omega)]
    simp only [List.drop_zero, Nat.sub_zero]
    have hvl : ((step (foldBlocks step s (chunks mbs (src io))).2
        (setRng (zeros mbs) 0 (chunksTail mbs (src io)))).1.take (io.len % mbs)).length = io.len % mbs := by
      rw [List.length_take]; omega
    rw [setOut?_eq io1 _ _ _ (by omega) hvl]
    refine ⟨_, rfl, ?_, by simpa [IOBuf.setOut] using h3, by simpa [IOBuf.setOut] using h4⟩
    have hset : ∀ v : Bytes, v.length = io.len % mbs →
        setRng io1.out (io.len / mbs * mbs) v = (foldBlocks step s (chunks mbs (src io))).1.flatten ++ v := by
      intro v hv
      unfold setRng
      have ht : io1.out.take (io.len / mbs * mbs) = (foldBlocks step s (chunks mbs (src io))).1.flatten := by
        rw [h2]; exact List.take_left' hfl
      have hd : io1.out.drop (io.len / mbs * mbs + v.length) = [] :=
        List.drop_eq_nil_of_le (by rw [hv]; simp only [IOBuf.len] at hl1; omega)
      rw [ht, hd, List.append_nil]
    unfold asyncInOut
    rw [hblock, htl] at hvl
    simp only [htl, ne_eq, hn, not_false_eq_true, if_true, IOBuf.setOut, hblock]
    exact hset _ hvl


/-- in place and buffer-to-buffer (output pre-filled with arbitrary `g`): both succeed and write the same bytes. -/
theorem async_alias_indep {σ : Type} (P : σ → Prop) (w mbs : Nat) (hmbs : 0 < mbs) (step : σ → Bytes → Bytes × σ)
    (par : σ → List Bytes → List Bytes × σ) (hstep : StepOk P step mbs)
    (hpar : ∀ s chunk, chunk.length = w → par s chunk = foldBlocks step s chunk)
    (s : σ) (hs : P s) (m g : Bytes) (hg : g.length = m.length) :
    ∃ a b, asyncMem w mbs step par s (IOBuf.inplace m) = some a ∧ asyncMem w mbs step par s (IOBuf.b2b m g) = some b ∧
      a.out = b.out ∧ a.out = asyncInOut mbs (foldBlocks step) step s m := by
  obtain ⟨a, ha1, ha2, _, _⟩ := asyncMem_ok P w mbs hmbs step par hstep hpar s (IOBuf.inplace m) hs
    (by intro h; simp [IOBuf.inplace] at h)
  obtain ⟨b, hb1, hb2, _, _⟩ := asyncMem_ok P w mbs hmbs step par hstep hpar s (IOBuf.b2b m g) hs (fun _ => hg.symm)
  exact ⟨a, b, ha1, hb1, by rw [ha2, hb2]; rfl, ha2⟩

/-- `X_b2b`: `Err` exactly on unequal lengths (output untouched: nothing is returned to write), never a panic. -/
theorem asyncB2b_total {σ : Type} (P : σ → Prop) (w mbs : Nat) (hmbs : 0 < mbs) (step : σ → Bytes → Bytes × σ)
    (par : σ → List Bytes → List Bytes × σ) (hstep : StepOk P step mbs)
    (hpar : ∀ s chunk, chunk.length = w → par s chunk = foldBlocks step s chunk)
    (s : σ) (hs : P s) (inp out : Bytes) :
    asyncB2b w mbs step par s inp out =
      some (if inp.length ≠ out.length then none else some (asyncInOut mbs (foldBlocks step) step s inp)) := by
  unfold asyncB2b
  by_cases h : inp.length ≠ out.length
  · simp only [if_pos h]
  · simp only [if_neg h]
    obtain ⟨b, hb1, hb2, _, _⟩ := asyncMem_ok P w mbs hmbs step par hstep hpar s (IOBuf.b2b inp out) hs
      (fun _ => by have := Classical.not_not.mp h; exact this)
    rw [hb1]; simp only [Option.map_some, hb2]; rfl

/-- the checked model *can* fail: a zero block size is rejected (non-vacuity of "never `none`"). -/
example : asyncMem (σ := Unit) 1 0 (fun s b => (b, s)) (fun s c => (c, s)) () (IOBuf.inplace [1, 2]) = none := by decide

end Impl.MemAsync
