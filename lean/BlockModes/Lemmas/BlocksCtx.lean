import BlockModes.Glue.BlocksCtx
/-
  Lemmas/BlocksCtx.lean — the batching lemma used by C02, C03, C05, C07: driving a backend through
  `BlocksCtx` with any width `w` equals folding the single-block step, provided the backend's
  parallel body agrees with the fold on chunks of exactly `w` blocks.
-/
namespace Glue

variable {σ : Type}

theorem foldBlocks_append (step : σ → Bytes → Bytes × σ) (a b : List Bytes) (s : σ) :
    foldBlocks step s (a ++ b) =
      ((foldBlocks step s a).1 ++ (foldBlocks step (foldBlocks step s a).2 b).1,
       (foldBlocks step (foldBlocks step s a).2 b).2) := by
  induction a generalizing s with
  | nil => simp [foldBlocks]
  | cons x xs ih => simp [foldBlocks, ih]

theorem foldBlocks_length (step : σ → Bytes → Bytes × σ) (l : List Bytes) (s : σ) :
    (foldBlocks step s l).1.length = l.length := by
  induction l generalizing s with
  | nil => simp [foldBlocks]
  | cons x xs ih => simp [foldBlocks, ih]

theorem parLoop_eq_fold (w : Nat) (step : σ → Bytes → Bytes × σ) (par : σ → List Bytes → List Bytes × σ)
    (hpar : ∀ s chunk, chunk.length = w → par s chunk = foldBlocks step s chunk) :
    ∀ (fuel : Nat) (s : σ) (l : List Bytes), parLoop w step par fuel s l = foldBlocks step s l := by
  intro fuel
  induction fuel with
  | zero => intro s l; rfl
  | succ n ih =>
    intro s l
    unfold parLoop
    split
    · rfl
    · rename_i hlt
      have hlen : (l.take w).length = w := by simp; omega
      have hsplit : l = l.take w ++ l.drop w := (List.take_append_drop w l).symm
      conv => rhs; rw [hsplit, foldBlocks_append]
      simp only [hpar s (l.take w) hlen, ih]

/-- **Batching lemma.** -/
theorem blocksCtx_eq_fold (w : Nat) (step : σ → Bytes → Bytes × σ) (par : σ → List Bytes → List Bytes × σ)
    (hpar : ∀ s chunk, chunk.length = w → par s chunk = foldBlocks step s chunk)
    (s : σ) (blocks : List Bytes) :
    blocksCtx w step par s blocks = foldBlocks step s blocks := by
  unfold blocksCtx
  split
  · exact parLoop_eq_fold w step par hpar _ s blocks
  · rfl

/-- a backend that declares `ParBlocksSize = U1` -/
theorem blocksCtx_one (step : σ → Bytes → Bytes × σ) (par : σ → List Bytes → List Bytes × σ)
    (s : σ) (blocks : List Bytes) : blocksCtx 1 step par s blocks = foldBlocks step s blocks := by
  simp [blocksCtx]

/-- one call per part, state threaded through: what a user does when feeding blocks in several calls. -/
def runCalls (call : σ → List Bytes → List Bytes × σ) : σ → List (List Bytes) → List Bytes × σ
  | s, [] => ([], s)
  | s, p :: ps =>
    let r := call s p
    let r2 := runCalls call r.2 ps
    (r.1 ++ r2.1, r2.2)

/-- any partition of the block sequence into calls gives what one fold over all blocks gives. -/
theorem runCalls_fold (step : σ → Bytes → Bytes × σ) (parts : List (List Bytes)) (s : σ) :
    runCalls (foldBlocks step) s parts = foldBlocks step s parts.flatten := by
  induction parts generalizing s with
  | nil => simp [runCalls, foldBlocks]
  | cons p ps ih => simp [runCalls, foldBlocks_append, ih]

end Glue

namespace Glue
variable {σ : Type}

/-- a user call: the single-block entry point or the many-block entry point. -/
inductive Call
  | one (b : Bytes)
  | many (bs : List Bytes)

def Call.blocks : Call → List Bytes
  | .one b => [b]
  | .many bs => bs

/-- any sequence of calls, each through either entry point, state threaded through. -/
def runMixed (step : σ → Bytes → Bytes × σ) (blocksFn : σ → List Bytes → List Bytes × σ) :
    σ → List Call → List Bytes × σ
  | s, [] => ([], s)
  | s, .one b :: cs =>
    let r := step s b
    let r2 := runMixed step blocksFn r.2 cs
    (r.1 :: r2.1, r2.2)
  | s, .many bs :: cs =>
    let r := blocksFn s bs
    let r2 := runMixed step blocksFn r.2 cs
    (r.1 ++ r2.1, r2.2)

theorem runMixed_fold (step : σ → Bytes → Bytes × σ) (blocksFn : σ → List Bytes → List Bytes × σ)
    (h : ∀ s l, blocksFn s l = foldBlocks step s l) (calls : List Call) (s : σ) :
    runMixed step blocksFn s calls = foldBlocks step s (calls.map Call.blocks).flatten := by
  induction calls generalizing s with
  | nil => simp [runMixed, foldBlocks]
  | cons c cs ih =>
    cases c with
    | one b => simp [runMixed, Call.blocks, foldBlocks, ih]
    | many bs => simp [runMixed, Call.blocks, foldBlocks_append, ih, h]

end Glue

namespace Glue
theorem foldBlocks_unit_map (f : Bytes → Bytes) (l : List Bytes) :
    foldBlocks (fun (_ : Unit) b => (f b, ())) () l = (l.map f, ()) := by
  induction l with
  | nil => rfl
  | cons x xs ih => simp only [foldBlocks, ih, List.map_cons]
end Glue
