import BlockModes.Glue.IO
import BlockModes.Impl.Block
/-
  Impl/Mem.lean — the block-mode backend bodies once more, this time statement by statement against the
  in/out memory model, in the source's order of `clone_in / get_in / get_out / xor_in2out`.
  (`Thm/C12.lean` proves that each of them, run aliased or run disjoint on an arbitrary output buffer,
  writes the same bytes and leaves the same state, namely those of the value-level mirror.)
-/
namespace Impl.Mem

namespace Cbc
/-- encrypt.rs: let mut t = block.clone_in(); xor(&mut t, iv); E(&mut t); *iv = t.clone(); *block.get_out() = t; -/
def encBlock (C : Cipher) (iv : Bytes) (io : IOB) : IOB × Bytes :=
  let t := io.getIn
  let t := xorB t iv
  let t := C.enc t
  let iv := t
  (io.setOut t, iv)

/-- decrypt.rs: in_block = clone_in(); t = clone_in(); D(&mut t); xor(&mut t, iv); *get_out() = t; *iv = in_block; -/
def decBlock (C : Cipher) (iv : Bytes) (io : IOB) : IOB × Bytes :=
  let inBlock := io.getIn
  let t := io.getIn
  let t := C.dec t
  let t := xorB t iv
  let io := io.setOut t
  (io, inBlock)

/-- decrypt.rs `decrypt_par_blocks` on a chunk of blocks (each block its own in/out pair):
    in_blocks = clone_in(); t = clone_in(); D∥; t[0]^=iv; t[i]^=in_blocks[i-1]; *get_out() = t; iv = in_blocks[n-1] -/
def decPar (C : Cipher) (iv : Bytes) (ios : List IOB) : List IOB × Bytes :=
  let inBlocks := ios.map IOB.getIn
  let t := ios.map IOB.getIn
  let t := t.map C.dec
  let t := List.zipWith xorB t (iv :: inBlocks.dropLast)
  (List.zipWith IOB.setOut ios t, inBlocks.getLastD iv)
end Cbc

namespace Pcbc
/-- t1 = clone_in(); t2 = clone_in(); xor(t1, iv); E(t1); xor(t2, t1); *get_out() = t1; *iv = t2; -/
def encBlock (C : Cipher) (iv : Bytes) (io : IOB) : IOB × Bytes :=
  let t1 := io.getIn
  let t2 := io.getIn
  let t1 := xorB t1 iv
  let t1 := C.enc t1
  let t2 := xorB t2 t1
  (io.setOut t1, t2)

/-- t1 = clone_in(); t2 = clone_in(); D(t1); xor(t1, iv); xor(t2, t1); *iv = t2; *get_out() = t1; -/
def decBlock (C : Cipher) (iv : Bytes) (io : IOB) : IOB × Bytes :=
  let t1 := io.getIn
  let t2 := io.getIn
  let t1 := C.dec t1
  let t1 := xorB t1 iv
  let t2 := xorB t2 t1
  (io.setOut t1, t2)

/-- a *hazardous* variant (mutation 7 of DESIGN appendix D): `t2` is taken after the output was written.
    In place it reads the ciphertext instead of the plaintext. Used only as a refutation witness. -/
def encBlockHazard (C : Cipher) (iv : Bytes) (io : IOB) : IOB × Bytes :=
  let t1 := io.getIn
  let t1 := xorB t1 iv
  let t1 := C.enc t1
  let io := io.setOut t1
  let t2 := io.getIn
  let t2 := xorB t2 t1
  (io, t2)
end Pcbc

namespace Ige
open Impl.Ige (St)
/-- new_x = clone_in(); t = new_x.clone(); xor(t, y); E(t); xor(t, x); *get_out() = t.clone(); x = new_x; y = t; -/
def encBlock (C : Cipher) (s : St) (io : IOB) : IOB × St :=
  let newX := io.getIn
  let t := newX
  let t := xorB t s.y
  let t := C.enc t
  let t := xorB t s.x
  (io.setOut t, { x := newX, y := t })

/-- new_y = clone_in(); t = new_y.clone(); xor(t, x); D(t); xor(t, y); *get_out() = t.clone(); x = t; y = new_y; -/
def decBlock (C : Cipher) (s : St) (io : IOB) : IOB × St :=
  let newY := io.getIn
  let t := newY
  let t := xorB t s.x
  let t := C.dec t
  let t := xorB t s.y
  (io.setOut t, { x := t, y := newY })
end Ige

namespace Cfb
/-- encrypt.rs: block.xor_in2out(iv); let mut t = block.get_out().clone(); E(&mut t); *iv = t; -/
def encBlock (C : Cipher) (iv : Bytes) (io : IOB) : IOB × Bytes :=
  let io := io.xorIn2Out iv
  let t := io.out
  let t := C.enc t
  (io, t)

/-- decrypt.rs: let mut t = block.clone_in(); block.xor_in2out(iv); E(&mut t); *iv = t; -/
def decBlock (C : Cipher) (iv : Bytes) (io : IOB) : IOB × Bytes :=
  let t := io.getIn
  let io := io.xorIn2Out iv
  let t := C.enc t
  (io, t)

/-- decrypt.rs `decrypt_par_blocks`: t = E∥(get_in()); blocks.get(0).xor_in2out(iv);
    for i in 1..n { blocks.get(i).xor_in2out(&t[i-1]) }; iv = t[n-1] -/
def decPar (C : Cipher) (iv : Bytes) (ios : List IOB) : List IOB × Bytes :=
  let t := (ios.map IOB.getIn).map C.enc
  (List.zipWith IOB.xorIn2Out ios (iv :: t.dropLast), t.getLastD iv)
end Cfb

namespace Cfb8
/-- t = iv.clone(); E(t); k = t[..1]; block.xor_in2out(k); r = block.get_out()[0]; shift iv, iv[n-1] = r -/
def encBlock (C : Cipher) (iv : Bytes) (io : IOB) : IOB × Bytes :=
  let t := C.enc iv
  let k := t.take 1
  let io := io.xorIn2Out k
  let r := io.out.headD 0
  (io, Impl.Cfb8.shift iv r)

/-- t = iv.clone(); E(t); r = block.get(0).clone_in(); k = t[..1]; block.xor_in2out(k); shift iv, iv[n-1] = r -/
def decBlock (C : Cipher) (iv : Bytes) (io : IOB) : IOB × Bytes :=
  let t := C.enc iv
  let r := io.getIn.headD 0
  let k := t.take 1
  let io := io.xorIn2Out k
  (io, Impl.Cfb8.shift iv r)
end Cfb8

namespace Ofb
/-- backend.encrypt_block(iv); block.xor_in2out(iv) -/
def encBlock (C : Cipher) (iv : Bytes) (io : IOB) : IOB × Bytes :=
  let iv := C.enc iv
  (io.xorIn2Out iv, iv)
end Ofb

/-- `for block in blocks { backend.X_block(block) }` on a slice of in/out blocks (what `BlocksCtx` does for a backend
    with `ParBlocksSize = U1`, and for the tail of any backend): each block is its own in/out pair. -/
def foldIO {σ : Type} (mem : σ → IOB → IOB × σ) : σ → List IOB → List IOB × σ
  | s, [] => ([], s)
  | s, io :: ios =>
    let r := mem s io
    let r2 := foldIO mem r.2 ios
    (r.1 :: r2.1, r2.2)

/-- keystream application of `ApplyBlockCtx` / `ApplyBlocksCtx`: `block.xor_in2out(&ks)` -/
def applyKs (ks : Bytes) (io : IOB) : IOB := io.xorIn2Out ks

end Impl.Mem
