import BlockModes.Glue.BlocksCtx
import BlockModes.Spec.Cts
/-
  Impl/Cts.lean — value-level mirror of cts/src/lib.rs (`ecb_enc`, `ecb_dec`, `cbc_enc`, `cbc_dec`) and of
  the twelve closures in cts/src/{cbc,ecb}_cs{1,2,3}.rs: what each leaves in the output buffer as a
  function of the input bytes.  (`Mem.Cts` mirrors the same code statement by statement on the in/out
  memory model.)  `legacy = true` mirrors the CS3 closures of the pinned tree *before* the `fix:`
  commit (finding F1); `legacy = false` mirrors the current code.
-/
namespace Impl.Cts

/-- lib.rs `ecb_enc`: par chunks when `W > 1`, then block by block (A1: par = map). -/
def ecbEnc (C : Cipher) (w : Nat) (blocks : List Bytes) : List Bytes :=
  (Glue.blocksCtx w (fun (_ : Unit) b => (C.enc b, ())) (fun _ ch => (ch.map C.enc, ())) () blocks).1
def ecbDec (C : Cipher) (w : Nat) (blocks : List Bytes) : List Bytes :=
  (Glue.blocksCtx w (fun (_ : Unit) b => (C.dec b, ())) (fun _ ch => (ch.map C.dec, ())) () blocks).1

/-- lib.rs `cbc_enc` loop body: t = in; t ^= iv; E(t); iv = t; out = t -/
def cbcEncBlock (C : Cipher) (iv blk : Bytes) : Bytes × Bytes :=
  let t := C.enc (xorB blk iv)
  (t, t)
def cbcEnc (C : Cipher) (iv : Bytes) (blocks : List Bytes) : List Bytes × Bytes :=
  Glue.foldBlocks (cbcEncBlock C) iv blocks

/-- lib.rs `cbc_dec`: sequential body and par body -/
def cbcDecBlock (C : Cipher) (iv blk : Bytes) : Bytes × Bytes :=
  (xorB (C.dec blk) iv, blk)
def cbcDecPar (C : Cipher) (iv : Bytes) (chunk : List Bytes) : List Bytes × Bytes :=
  let t := chunk.map C.dec
  (List.zipWith xorB t (iv :: chunk.dropLast), chunk.getLastD iv)
def cbcDec (C : Cipher) (w : Nat) (iv : Bytes) (blocks : List Bytes) : List Bytes × Bytes :=
  Glue.blocksCtx w (cbcDecBlock C) (cbcDecPar C) iv blocks

/-- `block = 0; block[..tail.len()] = tail` -/
def padTail (bs : Nat) (tail : Bytes) : Bytes := tail ++ zeros (bs - tail.length)

/-! ### CBC-CS1 -/
def cbcCs1Enc (C : Cipher) (_w : Nat) (iv buf : Bytes) : Bytes :=
  let blocks := chunks C.bs buf
  let tail := chunksTail C.bs buf
  let r := cbcEnc C iv blocks
  if tail.length = 0 then r.1.flatten
  else
    let block := C.enc (xorB (padTail C.bs tail) r.2)
    let pos := buf.length - C.bs
    r.1.flatten.take pos ++ block                 -- buf.get_out()[pos..] = block

/-- un-stealing shared by CBC-CS1 decrypt: `rem = [C*_{n-1} ‖ C_n]` -/
def cbcCs1DecTail (C : Cipher) (iv rem : Bytes) : Bytes :=
  let bs := C.bs
  let n := rem.length - bs
  let block1 := rem.take bs
  let block2 := rem.drop n
  let block2 := C.dec block2
  let block1 := block1.take n ++ block2.drop n    -- block1[n..] = block2[n..]
  let block2 := xorB block2 block1
  let block1 := C.dec block1
  let block1 := xorB block1 iv
  block1 ++ block2.take n

def cbcCs1Dec (C : Cipher) (w : Nat) (iv buf : Bytes) : Bytes :=
  let blocks := chunks C.bs buf
  let tail := chunksTail C.bs buf
  let blocks := if tail.length ≠ 0 then blocks.take (blocks.length - 1) else blocks
  let r := cbcDec C w iv blocks
  if tail.length = 0 then r.1.flatten
  else
    let mid := buf.length - (C.bs + tail.length)
    r.1.flatten ++ cbcCs1DecTail C r.2 (buf.drop mid)

/-! ### CBC-CS2 -/
/-- the stealing step shared by CS2 and CS3 encrypt -/
def cbcSteal (C : Cipher) (outs : List Bytes) (iv tail : Bytes) : Bytes :=
  let block := C.enc (xorB (padTail C.bs tail) iv)
  let penult := outs.getLastD []                   -- mem::replace(blocks.out.last_mut(), block)
  outs.dropLast.flatten ++ block ++ penult.take tail.length

def cbcCs2Enc (C : Cipher) (_w : Nat) (iv buf : Bytes) : Bytes :=
  let blocks := chunks C.bs buf
  let tail := chunksTail C.bs buf
  let r := cbcEnc C iv blocks
  if tail.length = 0 then r.1.flatten else cbcSteal C r.1 r.2 tail

/-- un-stealing shared by CBC-CS2 and CBC-CS3 decrypt: `rem = [C_n ‖ C*_{n-1}]` -/
def cbcCs2DecTail (C : Cipher) (iv rem : Bytes) : Bytes :=
  let bs := C.bs
  let n := rem.length - bs
  let block1 := C.dec (rem.take bs)
  let block2 := (rem.drop bs).take n ++ block1.drop n
  let block1 := xorB block1 block2
  let block2 := C.dec block2
  let block2 := xorB block2 iv
  block2 ++ block1.take n

def cbcCs2Dec (C : Cipher) (w : Nat) (iv buf : Bytes) : Bytes :=
  let blocks := chunks C.bs buf
  let tail := chunksTail C.bs buf
  let blocks := if tail.length ≠ 0 then blocks.take (blocks.length - 1) else blocks
  let r := cbcDec C w iv blocks
  if tail.length = 0 then r.1.flatten
  else
    let mid := buf.length - (C.bs + tail.length)
    r.1.flatten ++ cbcCs2DecTail C r.2 (buf.drop mid)

/-! ### CBC-CS3 -/
/-- swap the last two blocks -/
def swapLast2 (outs : List Bytes) : List Bytes :=
  outs.take (outs.length - 2) ++ [outs.getLastD []] ++ [(outs.dropLast).getLastD []]

def cbcCs3Enc (legacy : Bool) (C : Cipher) (_w : Nat) (iv buf : Bytes) : Bytes :=
  let blocks := chunks C.bs buf
  let tail := chunksTail C.bs buf
  let r := cbcEnc C iv blocks
  if legacy then
    if tail.length = 0 ∧ blocks.length > 1 then (swapLast2 r.1).flatten else cbcSteal C r.1 r.2 tail
  else if tail.length = 0 then
    (if blocks.length > 1 then (swapLast2 r.1).flatten else r.1.flatten)
  else cbcSteal C r.1 r.2 tail

def cbcCs3Dec (legacy : Bool) (C : Cipher) (w : Nat) (iv buf : Bytes) : Bytes :=
  let bs := C.bs
  if !legacy ∧ buf.length = bs then (cbcDec C w iv (chunks bs buf)).1.flatten
  else
    let blocksLen := (buf.length + bs - 1) / bs
    let mainBlocks := blocksLen - 2
    let r := cbcDec C w iv (chunks bs (buf.take (bs * mainBlocks)))
    r.1.flatten ++ cbcCs2DecTail C r.2 (buf.drop (bs * mainBlocks))

/-! ### ECB-CS1/2/3 -/
def ecbCs1Enc (C : Cipher) (w : Nat) (buf : Bytes) : Bytes :=
  let blocks := chunks C.bs buf
  let tail := chunksTail C.bs buf
  let outs := ecbEnc C w blocks
  if tail.length = 0 then outs.flatten
  else
    let lastBlock := outs.getLastD []
    let n := tail.length
    let block := C.enc (tail ++ lastBlock.drop n)
    let pos := buf.length - C.bs
    outs.flatten.take pos ++ block

def ecbCs1DecTail (C : Cipher) (rem : Bytes) : Bytes :=
  let bs := C.bs
  let n := rem.length - bs
  let block1 := rem.take bs
  let block2 := C.dec (rem.drop n)
  let block1 := block1.take n ++ block2.drop n
  let block1 := C.dec block1
  block1 ++ block2.take n

def ecbCs1Dec (C : Cipher) (w : Nat) (buf : Bytes) : Bytes :=
  let blocks := chunks C.bs buf
  let tail := chunksTail C.bs buf
  let blocks := if tail.length ≠ 0 then blocks.take (blocks.length - 1) else blocks
  let outs := ecbDec C w blocks
  if tail.length = 0 then outs.flatten
  else
    let mid := buf.length - (C.bs + tail.length)
    outs.flatten ++ ecbCs1DecTail C (buf.drop mid)

/-- stealing step shared by ECB-CS2 / CS3 encrypt -/
def ecbSteal (C : Cipher) (outs : List Bytes) (tail : Bytes) : Bytes :=
  let lastBlock := outs.getLastD []
  let n := tail.length
  let block := C.enc (tail ++ lastBlock.drop n)
  outs.dropLast.flatten ++ block ++ lastBlock.take n

/-- un-stealing step shared by ECB-CS2 / CS3 decrypt (all full blocks are already decrypted) -/
def ecbUnsteal (C : Cipher) (outs : List Bytes) (tail : Bytes) : Bytes :=
  let lastBlock := outs.getLastD []
  let n := tail.length
  let block := C.dec (tail ++ lastBlock.drop n)
  outs.dropLast.flatten ++ block ++ lastBlock.take n

def ecbCs2Enc (C : Cipher) (w : Nat) (buf : Bytes) : Bytes :=
  let outs := ecbEnc C w (chunks C.bs buf)
  let tail := chunksTail C.bs buf
  if tail.length = 0 then outs.flatten else ecbSteal C outs tail

def ecbCs2Dec (C : Cipher) (w : Nat) (buf : Bytes) : Bytes :=
  let outs := ecbDec C w (chunks C.bs buf)
  let tail := chunksTail C.bs buf
  if tail.length = 0 then outs.flatten else ecbUnsteal C outs tail

def ecbCs3Enc (legacy : Bool) (C : Cipher) (w : Nat) (buf : Bytes) : Bytes :=
  let blocks := chunks C.bs buf
  let outs := ecbEnc C w blocks
  let tail := chunksTail C.bs buf
  if legacy then
    if tail.length = 0 ∧ blocks.length > 1 then (swapLast2 outs).flatten else ecbSteal C outs tail
  else if tail.length = 0 then
    (if blocks.length > 1 then (swapLast2 outs).flatten else outs.flatten)
  else ecbSteal C outs tail

def ecbCs3Dec (legacy : Bool) (C : Cipher) (w : Nat) (buf : Bytes) : Bytes :=
  let blocks := chunks C.bs buf
  let outs := ecbDec C w blocks
  let tail := chunksTail C.bs buf
  if legacy then
    if tail.length = 0 ∧ blocks.length > 1 then (swapLast2 outs).flatten else ecbUnsteal C outs tail
  else if tail.length = 0 then
    (if blocks.length > 1 then (swapLast2 outs).flatten else outs.flatten)
  else ecbUnsteal C outs tail

/-- the `len < bs` gate of every `encrypt_inout` / `decrypt_inout`: `none` = `Err(Error)`, buffer untouched -/
def gated (bs : Nat) (f : Bytes → Bytes) (buf : Bytes) : Option Bytes :=
  if buf.length < bs then none else some (f buf)

end Impl.Cts
