import BlockModes.Impl.Block
import BlockModes.Impl.CfbBuf
import BlockModes.Impl.Ctr
import BlockModes.Impl.Belt
import BlockModes.Impl.MemCts
import BlockModes.Glue.Wrapper
/-
  Impl/Chk.lean — *checked* mirrors of the remaining places in /repo whose index or integer arithmetic could
  panic (C13's "index arithmetic that must stay in range for all lengths", "wrapping (never overflowing) counter
  arithmetic"): every `a - b` on an unsigned integer, every slice index, `split_at_mut`, `try_into().unwrap()`
  is an `Option` step, `none` = the Rust operation panics (dev profile: overflow checks on).
  (The ciphertext-stealing code has its checked mirror in `Impl/MemCts.lean`.)
-/
namespace Impl.Chk
open Impl.MemCts (sub? slice?)

/-! ### buffered CFB (cfb-mode/src/encrypt/buf.rs:27-53, cfb-mode/src/decrypt.rs:40-65) -/

/-- `data.split_at_mut(mid)` -/
def splitAt? (l : Bytes) (mid : Nat) : Option (Bytes × Bytes) :=
  if mid ≤ l.length then some (l.take mid, l.drop mid) else none

/-- `BufEncryptor::encrypt` (`dec = false`) / `BufDecryptor::decrypt` (`dec = true`), checked:
    `bs - self.pos`, `self.iv[pos..pos+n]`, `split_at_mut(bs - pos)`, `iv[pos..]`, `chunks_exact_mut(bs)` (bs ≠ 0). -/
def bufProcess? (dec : Bool) (C : Cipher) (s : CfbBuf.St) (data : Bytes) : Option (Bytes × CfbBuf.St) :=
  let bs := C.bs
  let n := data.length
  match sub? bs s.pos with                                       -- bs - self.pos
  | none => none
  | some room =>
    if n < room then
      match slice? s.iv s.pos (s.pos + n) with                   -- &mut self.iv[pos..pos+n]
      | none => none
      | some ks =>
        let t := xorB data ks
        some (t, { iv := setRng s.iv s.pos (if dec then data else t), pos := s.pos + n })
    else
      match splitAt? data room with                              -- split_at_mut(bs - pos)
      | none => none
      | some (left, right) =>
        match slice? s.iv s.pos s.iv.length with                 -- &mut iv[pos..]
        | none => none
        | some ks =>
          let tl := xorB left ks
          let iv1 := C.enc (s.iv.take s.pos ++ (if dec then left else tl))
          if bs = 0 then none else                               -- chunks_exact_mut(0) panics
          let r := if dec then CfbBuf.decLoop C iv1 (chunks bs right) else CfbBuf.encLoop C iv1 (chunks bs right)
          let rem := chunksTail bs right
          let tr := xorB rem r.2
          some (tl ++ (r.1 ++ tr), { iv := (if dec then rem else tr) ++ r.2.drop rem.length, pos := rem.length })

/-! ### CFB-8 feedback register (cfb8/src/encrypt.rs:171-182, decrypt.rs:171-182) -/

/-- `for i in lo..hi { iv[i] = iv[i + 1] }` with bounds-checked indexing -/
def shiftLoop? : Nat → Nat → Bytes → Option Bytes
  | 0, _, iv => some iv
  | k + 1, i, iv =>
    match iv[i + 1]? with
    | none => none
    | some v => if i < iv.length then shiftLoop? k (i + 1) (iv.set i v) else none

/-- `let n = iv.len(); for i in 0..n - 1 { iv[i] = iv[i + 1] }; iv[n - 1] = r` -/
def shift? (iv : Bytes) (r : UInt8) : Option Bytes :=
  match sub? iv.length 1 with
  | none => none
  | some m =>
    match shiftLoop? m 0 iv with
    | none => none
    | some iv' => if m < iv'.length then some (iv'.set m r) else none

/-- the CFB-8 encrypt backend body: `t = E(iv); k = t[..1].try_into().unwrap(); out = in ^ k; r = out[0]; shift` -/
def cfb8Enc? (C : Cipher) (iv blk : Bytes) : Option (Bytes × Bytes) :=
  let t := C.enc iv
  match slice? t 0 1 with                                        -- t[..1].try_into().unwrap()
  | none => none
  | some k =>
    let out := xorB blk k
    match out[0]? with                                           -- block.get_out()[0]
    | none => none
    | some r => (shift? iv r).map fun iv' => (out, iv')

/-- the CFB-8 decrypt backend body: `r = block.get(0).clone_in()` is read before the XOR -/
def cfb8Dec? (C : Cipher) (iv blk : Bytes) : Option (Bytes × Bytes) :=
  let t := C.enc iv
  match blk[0]? with
  | none => none
  | some r =>
    match slice? t 0 1 with
    | none => none
    | some k => (shift? iv r).map fun iv' => (xorB blk k, iv')

/-! ### IGE: the double-length IV (ige/src/encrypt.rs:112-117, decrypt.rs:112-117) -/

/-- `y = iv[..n].try_into().unwrap(); x = iv[n..].try_into().unwrap()` — both must have exactly `n` bytes -/
def igeInit? (C : Cipher) (iv : Bytes) : Option Impl.Ige.St :=
  match slice? iv 0 C.bs, slice? iv C.bs iv.length with
  | some y, some x => if y.length = C.bs ∧ x.length = C.bs then some { x := x, y := y } else none
  | _, _ => none

/-! ### counters (ctr/src/flavors/ctr*.rs:54-56,62,75; belt-ctr/src/lib.rs:45,78,82,193,203) -/

/-- `(MAX - cn.ctr).try_into().ok()`: the subtraction is checked -/
def ctrRemaining? (f : Spec.Flavor) (cn : Ctr.St) : Option (Option Nat) :=
  (sub? (2 ^ f.w - 1) cn.ctr).map fun v => if v < 2 ^ 64 then some v else none

/-- BelT: `used = s.wrapping_sub(s_init); (u128::MAX - used).try_into().ok()` -/
def beltRemaining? (st : Belt.St) : Option (Option Nat) :=
  let used := (st.s + Belt.M - st.sInit) % Belt.M
  (sub? (Belt.M - 1) used).map fun v => if v < 2 ^ 64 then some v else none

/-- `from_nonce`: `block[CS * i..][..CS].try_into().unwrap()` for `i < Chunks` -/
def ctrChunk? (block : Bytes) (cs i : Nat) : Option Bytes :=
  match slice? block (cs * i) block.length with
  | none => none
  | some rest => slice? rest 0 cs

/-! ### seeking and position reporting (cipher `stream/wrapper.rs:176-202`, `stream.rs` `impl_seek_num!`) -/

/-- `try_current_pos::<SN>()`: `SN::from_block_byte(block, pos, bs)` starts with `debug_assert!(byte != 0)`; everything
    else is `checked_*` arithmetic that yields `Err(OverflowError)`.  Outer `none` = panic, inner `none` = `Err`. -/
def currentPos? {σ : Type} (K : Glue.Core σ) (s : Glue.Wr σ) (snMax : Nat) : Option (Option Nat) :=
  if s.pos = 0 then none else some (s.currentPos K snMax)

/-- `try_seek::<SN>(p)` for a non-negative `p`: `into_block_byte` cannot fail except by `T::try_from` (an `Err`), and
    the wrapper then asserts `byte_pos < BlockSize` (true for every non-negative `p`, since `byte_pos = p % bs`). -/
def seek? {σ : Type} (K : Glue.Core σ) (s : Glue.Wr σ) (p : Nat) : Option (Bool × Glue.Wr σ) :=
  if K.bs = 0 then none                                        -- `self % bs` with `bs = 0`
  else if ¬ (p % K.bs < K.bs) then none                        -- assert!(byte_pos < T::BlockSize::U8)
  else some (s.seek K p)

end Impl.Chk
