import BlockModes.Basic
/-
  Impl/Pool.lean — several live objects of one type: `Clone::clone`, `Clone::clone_from`, and calls that go to
  one object at a time.  Rust's ownership makes every object a separate value; what a derived `Clone` and the
  hand-written `impl Clone for CtrCore` do is a field-by-field copy.  This file is the model of *programs over a
  pool of instances* that the driver runs (ops `clone`, `use k`, `clonefrom k`, and data calls on the current
  instance); Thm/C16 proves that every observation of such a program is a function of the *lineage* of the
  instance it was made on.
-/
namespace Impl

/-- one program step: a call on the current instance, or a pool operation. -/
inductive POp (σ op : Type) where
  | call (o : op)            -- a data call on the current instance
  | clone                    -- `pool.push(current.clone())`
  | use (k : Nat)            -- make instance `k` the current one
  | cloneFrom (k : Nat)      -- `current.clone_from(&pool[k])`
  | fresh (s : σ)            -- a separately constructed instance (another key, another IV) joins the pool

structure Pool (σ : Type) where
  insts : List σ
  cur   : Nat

variable {σ op obs : Type}

def Pool.get (p : Pool σ) (d : σ) : σ := p.insts.getD p.cur d
def Pool.set (p : Pool σ) (s : σ) : Pool σ := { p with insts := p.insts.set p.cur s }

/-- the three pool operations (shared by every object family the driver knows). -/
def Pool.clone (p : Pool σ) (d : σ) : Pool σ := { p with insts := p.insts ++ [p.get d] }
def Pool.use (p : Pool σ) (k : Nat) : Pool σ := if k < p.insts.length then { p with cur := k } else p
def Pool.cloneFrom (p : Pool σ) (d : σ) (k : Nat) : Pool σ :=
  if k < p.insts.length then p.set (p.insts.getD k d) else p

/-- one step of a program; `d` is the default instance (never used on well-formed programs). -/
def Pool.push (p : Pool σ) (s : σ) : Pool σ := { p with insts := p.insts ++ [s] }

def Pool.step (f : σ → op → obs × σ) (d : σ) (p : Pool σ) : POp σ op → Option obs × Pool σ
  | .call o => let r := f (p.get d) o; (some r.1, p.set r.2)
  | .clone => (none, p.clone d)
  | .use k => (none, p.use k)
  | .cloneFrom k => (none, p.cloneFrom d k)
  | .fresh s => (none, p.push s)

/-- run a program; the observations of the data calls, in program order. -/
def Pool.run (f : σ → op → obs × σ) (d : σ) : Pool σ → List (POp σ op) → List obs × Pool σ
  | p, [] => ([], p)
  | p, o :: os =>
    let r := Pool.step f d p o
    let r2 := Pool.run f d r.2 os
    ((match r.1 with | some x => [x] | none => []) ++ r2.1, r2.2)

/-- a single object driven by a list of calls. -/
def runCalls (f : σ → op → obs × σ) : σ → List op → List obs × σ
  | s, [] => ([], s)
  | s, o :: os =>
    let r := f s o
    let r2 := runCalls f r.2 os
    (r.1 :: r2.1, r2.2)

/-- the *lineage* of an object: the state it (or the object it descends from by cloning) was constructed in, and the calls
    made on it and on its ancestors up to each cloning moment. -/
abbrev Lin (σ op : Type) := σ × List op

/-- the lineage bookkeeping: the same pool program run on "objects" that merely remember their lineage. -/
def histStep (l : Lin σ op) (o : op) : Unit × Lin σ op := ((), (l.1, l.2 ++ [o]))

def liftOp : POp σ op → POp (Lin σ op) op
  | .call o => .call o
  | .clone => .clone
  | .use k => .use k
  | .cloneFrom k => .cloneFrom k
  | .fresh s => .fresh (s, [])

/-- what a *fresh* instance constructed like the lineage's origin, replaying the lineage's calls and then doing `o`, observes. -/
def replayObs (f : σ → op → obs × σ) (l : Lin σ op) (o : op) : obs :=
  (f (runCalls f l.1 l.2).2 o).1

/-- observations predicted from lineages alone. -/
def Pool.lineageObs (f : σ → op → obs × σ) (init : σ) : Pool (Lin σ op) → List (POp σ op) → List obs
  | _, [] => []
  | hp, o :: os =>
    let r := Pool.step histStep (init, []) hp (liftOp o)
    (match o with
     | .call c => [replayObs f (hp.get (init, [])) c]
     | _ => []) ++ Pool.lineageObs f init r.2 os

end Impl
