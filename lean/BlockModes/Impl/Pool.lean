import BlockModes.Basic
/-
  Impl/Pool.lean — several live objects of one type: `Clone::clone`, `Clone::clone_from`, and calls that go to
  one object at a time.  Rust's ownership makes every object a separate value; what a derived `Clone` and the
  hand-written `impl Clone for CtrCore` do is a field-by-field copy.  This file is the model of *programs over a
  pool of instances* that the driver runs (ops `clone`, `use k`, `clonefrom k`, and data calls on the current
  instance); Thm/C16 proves that every observation of such a program is a function of the *lineage* of the
  instance it was made on.
-/
namespace Impl

/-- one program step: a call on the current instance, or a pool operation. -/
inductive POp (op : Type) where
  | call (o : op)            -- a data call on the current instance
  | clone                    -- `pool.push(current.clone())`
  | use (k : Nat)            -- make instance `k` the current one
  | cloneFrom (k : Nat)      -- `current.clone_from(&pool[k])`

structure Pool (σ : Type) where
  insts : List σ
  cur   : Nat

variable {σ op obs : Type}

def Pool.get (p : Pool σ) (d : σ) : σ := p.insts.getD p.cur d
def Pool.set (p : Pool σ) (s : σ) : Pool σ := { p with insts := p.insts.set p.cur s }

/-- the three pool operations (shared by every object family the driver knows). -/
def Pool.clone (p : Pool σ) (d : σ) : Pool σ := { p with insts := p.insts ++ [p.get d] }
def Pool.use (p : Pool σ) (k : Nat) : Pool σ := if k < p.insts.length then { p with cur := k } else p
def Pool.cloneFrom (p : Pool σ) (d : σ) (k : Nat) : Pool σ :=
  if k < p.insts.length then p.set (p.insts.getD k d) else p

/-- one step of a program; `d` is the default instance (never used on well-formed programs). -/
def Pool.step (f : σ → op → obs × σ) (d : σ) (p : Pool σ) : POp op → Option obs × Pool σ
  | .call o => let r := f (p.get d) o; (some r.1, p.set r.2)
  | .clone => (none, p.clone d)
  | .use k => (none, p.use k)
  | .cloneFrom k => (none, p.cloneFrom d k)

/-- run a program; the observations of the data calls, in program order. -/
def Pool.run (f : σ → op → obs × σ) (d : σ) : Pool σ → List (POp op) → List obs × Pool σ
  | p, [] => ([], p)
  | p, o :: os =>
    let r := Pool.step f d p o
    let r2 := Pool.run f d r.2 os
    ((match r.1 with | some x => [x] | none => []) ++ r2.1, r2.2)

/-- a single object driven by a list of calls. -/
def runCalls (f : σ → op → obs × σ) : σ → List op → List obs × σ
  | s, [] => ([], s)
  | s, o :: os =>
    let r := f s o
    let r2 := runCalls f r.2 os
    (r.1 :: r2.1, r2.2)

/-- the *lineage* bookkeeping: the same pool program run on "objects" that merely remember the calls made on
    them (and on the objects they were cloned from). -/
def histStep (h : List op) (o : op) : Unit × List op := ((), h ++ [o])

/-- what a *fresh* instance replaying the lineage `h` and then doing `o` observes. -/
def replayObs (f : σ → op → obs × σ) (init : σ) (h : List op) (o : op) : obs :=
  (f (runCalls f init h).2 o).1

/-- observations predicted from lineages alone. -/
def Pool.lineageObs (f : σ → op → obs × σ) (init : σ) : Pool (List op) → List (POp op) → List obs
  | _, [] => []
  | hp, o :: os =>
    let r := Pool.step histStep [] hp o
    (match o with
     | .call c => [replayObs f init (hp.get []) c]
     | _ => []) ++ Pool.lineageObs f init r.2 os

end Impl
