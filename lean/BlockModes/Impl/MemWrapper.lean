import BlockModes.Glue.Wrapper
import BlockModes.Impl.MemCts
/-
  Impl/MemWrapper.lean — `StreamCipherCoreWrapper::try_apply_keystream_inout` (cipher 0.5.0-pre.8, `stream/wrapper.rs`)
  once more, statement by statement on the in/out memory model and *checked*: the byte-level entry point behind
  `apply_keystream`, `apply_keystream_b2b`, `try_apply_keystream[_inout]` of `ctr::Ctr*`, `ofb::Ofb`, `belt_ctr::BeltCtr`.
  Every `xor_in2out` reads a range of the input view and then writes the same range of the output view; slices of the
  keystream buffer, `split_at`, the `u8` subtraction in `remaining()` and `xor_in2out`'s length assertion are `Option`
  steps (`none` = the Rust operation panics).
-/
namespace Impl.MemWr
open Glue Impl.MemCts

/-- `data[off .. off+len].xor_in2out(ks)` (`inout`: `assert_eq!(self.len(), data.len())`) -/
def xorRange? (io : IOBuf) (off len : Nat) (ks : Bytes) : Option IOBuf :=
  match getIn? io off len with
  | none => none
  | some d => if ks.length ≠ len then none else setOut? io off len (xorB d ks)

/-- `apply_keystream_blocks_inout(blocks)`: `ApplyBlocksCtx` — block `i` is XORed with keystream block `i`
    (`block.xor_in2out(&ks_i)`), `nb` blocks starting at byte `off`.  The keystream blocks are threaded as the loop
    state; a keystream block that is too short makes the write fail (length assertion). -/
def applyBlocksMem (ks : List Bytes) (bs nb off : Nat) (io : IOBuf) : Option IOBuf :=
  (memLoop (fun (k : List Bytes) blk => (xorB blk (k.headD []), k.tail)) bs nb off ks io).map (·.1)

/-- `if rem != 0 { let (left, right) = data.split_at(rem); data = right; left.xor_in2out(&self.buffer[pos..]); }` -/
def applyLeft? {σ : Type} (s : Wr σ) (pos rem : Nat) (io : IOBuf) : Option IOBuf :=
  if rem ≠ 0 then
    (if rem > io.len then none else                          -- `split_at(rem)`
      match slice? s.buffer pos s.buffer.length with         -- &self.buffer[pos..]
      | none => none
      | some ks => xorRange? io 0 rem ks)
  else some io

/-- the body of `try_apply_keystream_inout` after `check_remaining` has passed -/
def applyUncheckedMem {σ : Type} (K : Core σ) (w : Nat) (s : Wr σ) (io : IOBuf) : Option (IOBuf × Wr σ) :=
  let bs := K.bs
  let pos := s.pos
  match sub? bs pos with                                     -- `remaining()`: `BlockSize::U8 - self.get_pos()`
  | none => none
  | some rem =>
    let dataLen := io.len
    if rem ≠ 0 ∧ dataLen ≤ rem then
      match slice? s.buffer pos s.buffer.length with         -- &self.buffer[pos..]
      | none => none
      | some t =>
        match slice? t 0 dataLen with                        -- [..data_len]
        | none => none
        | some ks =>
          match xorRange? io 0 dataLen ks with               -- data.xor_in2out(..)
          | none => none
          | some io' => some (io', s.setPos (pos + dataLen))
    else
      match applyLeft? s pos rem io with
      | none => none
      | some io1 =>
        let nb := (dataLen - rem) / bs                       -- `data.into_chunks()`
        let tl := (dataLen - rem) % bs
        let r := genBlocks K w nb s.core
        match applyBlocksMem r.1 bs nb rem io1 with
        | none => none
        | some io2 =>
          if tl = 0 then some (io2, ({ s with core := r.2 } : Wr σ).setPos bs)
          else
            let g := K.genBlock r.2                          -- write_keystream_block(&mut self.buffer)
            match slice? g.1 0 tl with                       -- &self.buffer[..tail.len()]
            | none => none
            | some ks =>
              match xorRange? io2 (rem + nb * bs) tl ks with
              | none => none
              | some io3 => some (io3, ({ core := g.2, buffer := g.1 } : Wr σ).setPos tl)

/-- outcome of the public call -/
inductive Outcome (σ : Type)
  | ok (out : Bytes) (s : Wr σ)
  | err (out : Bytes) (s : Wr σ)      -- `Err(StreamCipherError)`: nothing modified
  | panic

/-- `try_apply_keystream_inout` -/
def applyMem {σ : Type} (K : Core σ) (w : Nat) (s : Wr σ) (io : IOBuf) : Outcome σ :=
  if s.checkRemaining K io.len then
    match applyUncheckedMem K w s io with
    | some (io', s') => .ok io'.out s'
    | none => .panic
  else .err io.out s

/-- `try_apply_keystream_b2b(in, out)`: `InOutBuf::new` fails on unequal lengths (`StreamCipherError`) -/
def applyB2b {σ : Type} (K : Core σ) (w : Nat) (s : Wr σ) (inp out : Bytes) : Outcome σ :=
  if inp.length ≠ out.length then .err out s else applyMem K w s (IOBuf.b2b inp out)

end Impl.MemWr
