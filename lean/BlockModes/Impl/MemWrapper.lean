import BlockModes.Glue.Wrapper
import BlockModes.Impl.MemCts
/-
  Impl/MemWrapper.lean — `StreamCipherCoreWrapper::try_apply_keystream_inout` (cipher 0.5.0-pre.8, `stream/wrapper.rs`)
  once more, statement by statement on the in/out memory model and *checked*: the byte-level entry point behind
  `apply_keystream`, `apply_keystream_b2b`, `try_apply_keystream[_inout]` of `ctr::Ctr*`, `ofb::Ofb`, `belt_ctr::BeltCtr`.
  Every `xor_in2out` reads a range of the input view and then writes the same range of the output view; slices of the
  keystream buffer, `split_at`, the `u8` subtraction in `remaining()` and `xor_in2out`'s length assertion are `Option`
  steps (`none` = the Rust operation panics).
-/
namespace Impl.MemWr
open Glue Impl.MemCts

/-- `data[off .. off+len].xor_in2out(ks)` (`inout`: `assert_eq!(self.len(), data.len())`) -/
def xorRange? (io : IOBuf) (off len : Nat) (ks : Bytes) : Option IOBuf :=
  match getIn? io off len with
  | none => none
  | some d => if ks.length ≠ len then none else setOut? io off len (xorB d ks)

/-- `apply_keystream_blocks_inout(blocks)`: `ApplyBlocksCtx` — block `i` is XORed with keystream block `i`
    (`block.xor_in2out(&ks_i)`), `nb` blocks starting at byte `off`.  The keystream blocks are threaded as the loop
    state; a keystream block that is too short makes the write fail (length assertion). -/
def applyBlocksMem (ks : List Bytes) (bs nb off : Nat) (io : IOBuf) : Option IOBuf :=
  (memLoop (fun (k : List Bytes) blk => (xorB blk (k.headD []), k.tail)) bs nb off ks io).map (·.1)

/-- `if rem != 0 { let (left, right) = data.split_at(rem); data = right; left.xor_in2out(&self.buffer[pos..]); }` -/
def applyLeft? {σ : Type} (s : Wr σ) (pos rem : Nat) (io : IOBuf) : Option IOBuf :=
  if rem ≠ 0 then
    (if rem > io.len then none else                          -- `split_at(rem)`
      match slice? s.buffer pos s.buffer.length with         -- &self.buffer[pos..]
      | none => none
      | some ks => xorRange? io 0 rem ks)
  else some io

/-- the body of `try_apply_keystream_inout` after `check_remaining` has passed -/
def applyUncheckedMem {σ : Type} (K : Core σ) (w : Nat) (s : Wr σ) (io : IOBuf) : Option (IOBuf × Wr σ) :=
  let bs := K.bs
  let pos := s.pos
  match sub? bs pos with                                     -- `remaining()`: `BlockSize::U8 - self.get_pos()`
  | none => none
  | some rem =>
    let dataLen := io.len
    if rem ≠ 0 ∧ dataLen ≤ rem then
      match slice? s.buffer pos s.buffer.length with         -- &self.buffer[pos..]
      | none => none
      | some t =>
        match slice? t 0 dataLen with                        -- [..data_len]
        | none => none
        | some ks =>
          match xorRange? io 0 dataLen ks with               -- data.xor_in2out(..)
          | none => none
          | some io' => some (io', s.setPos (pos + dataLen))
    else
      match applyLeft? s pos rem io with
      | none => none
      | some io1 =>
        let nb := (dataLen - rem) / bs                       -- `data.into_chunks()`
        let tl := (dataLen - rem) % bs
        let r := genBlocks K w nb s.core
        match applyBlocksMem r.1 bs nb rem io1 with
        | none => none
        | some io2 =>
          if tl = 0 then some (io2, ({ s with core := r.2 } : Wr σ).setPos bs)
          else
            let g := K.genBlock r.2                          -- write_keystream_block(&mut self.buffer)
            match slice? g.1 0 tl with                       -- &self.buffer[..tail.len()]
            | none => none
            | some ks =>
              match xorRange? io2 (rem + nb * bs) tl ks with
              | none => none
              | some io3 => some (io3, ({ core := g.2, buffer := g.1 } : Wr σ).setPos tl)

/-- outcome of the public call -/
inductive Outcome (σ : Type)
  | ok (out : Bytes) (s : Wr σ)
  | err (out : Bytes) (s : Wr σ)      -- `Err(StreamCipherError)`: nothing modified
  | panic

/-- `try_apply_keystream_inout` -/
def applyMem {σ : Type} (K : Core σ) (w : Nat) (s : Wr σ) (io : IOBuf) : Outcome σ :=
  if s.checkRemaining K io.len then
    match applyUncheckedMem K w s io with
    | some (io', s') => .ok io'.out s'
    | none => .panic
  else .err io.out s

/-- `try_apply_keystream_b2b(in, out)`: `InOutBuf::new` fails on unequal lengths (`StreamCipherError`) -/
def applyB2b {σ : Type} (K : Core σ) (w : Nat) (s : Wr σ) (inp out : Bytes) : Outcome σ :=
  if inp.length ≠ out.length then .err out s else applyMem K w s (IOBuf.b2b inp out)

/-! ### `StreamCipherCore::try_apply_keystream_partial` at memory level -/

/-- the body after the check, statement by statement:
    `if buf.len() > BS { let (blocks, tail) = buf.into_chunks(); self.apply_keystream_blocks_inout(blocks); buf = tail; }`
    `let n = buf.len(); if n == 0 { return Ok(()) }`
    `let mut block = Block::default(); block[..n].copy_from_slice(buf.get_in());`
    `self.apply_keystream_blocks_inout(InOutBuf::from_mut(&mut block)); buf.get_out().copy_from_slice(&block[..n]);` -/
def partialUncheckedMem {σ : Type} (K : Core σ) (w : Nat) (s : σ) (io : IOBuf) : Option IOBuf :=
  let bs := K.bs
  let nb := if io.len > bs then io.len / bs else 0
  let n := io.len - nb * bs
  let r := genBlocks K w nb s
  match applyBlocksMem r.1 bs nb 0 io with
  | none => none
  | some io1 =>
    if n = 0 then some io1
    else
      match getIn? io1 (nb * bs) n with                        -- `buf.get_in()`
      | none => none
      | some t =>
        match blockSet? (zeros bs) 0 n t with                  -- `block[..n].copy_from_slice(..)`
        | none => none
        | some block =>
          let g := genBlocks K w 1 r.2                         -- one more keystream block for the local block
          match slice? (xorB block (g.1.headD [])) 0 n with    -- `&block[..n]`
          | none => none
          | some v => setOut? io1 (nb * bs) n v                -- `buf.get_out().copy_from_slice(..)`

/-- `try_apply_keystream_partial` on an in/out buffer: `err` = rejected by the (dependency's) check, nothing written. -/
inductive POutcome
  | ok (out : Bytes)
  | err (out : Bytes)
  | panic

def partialMem {σ : Type} (K : Core σ) (w : Nat) (s : σ) (io : IOBuf) : POutcome :=
  if partialCheck K s io.len then
    match partialUncheckedMem K w s io with
    | some io' => .ok io'.out
    | none => .panic
  else .err io.out

end Impl.MemWr
