import BlockModes.Impl.Block
import BlockModes.Impl.CfbBuf
import BlockModes.Impl.Ctr
import BlockModes.Impl.Belt
import BlockModes.Glue.Wrapper
/-
  Impl/Dbg.lean — mirrors of the `fmt::Debug` / `AlgorithmName` bodies and of the `Drop` impls
  (feature `zeroize`) of every type defined in /repo, plus the `Debug` of the dependency's
  `StreamCipherCoreWrapper`.  `alg` is the underlying cipher's algorithm name.
-/
namespace Impl.Dbg

/-- `f.write_str("<prefix>")?; C::write_alg_name(f)?; f.write_str("> { ... }")` -/
def fmtOpaque (pfx alg : String) : String := pfx ++ alg ++ "> { ... }"
/-- `write_alg_name` -/
def fmtAlg (pfx alg : String) : String := pfx ++ alg ++ ">"

def cbcEnc (alg : String) (_s : Bytes) : String := fmtOpaque "cbc::Encryptor<" alg
def cbcDec (alg : String) (_s : Bytes) : String := fmtOpaque "cbc::Decryptor<" alg
def pcbcEnc (alg : String) (_s : Bytes) : String := fmtOpaque "pcbc::Encryptor<" alg
def pcbcDec (alg : String) (_s : Bytes) : String := fmtOpaque "pcbc::Decryptor<" alg
def igeEnc (alg : String) (_s : Ige.St) : String := fmtOpaque "ige::Encryptor<" alg
def igeDec (alg : String) (_s : Ige.St) : String := fmtOpaque "ige::Decryptor<" alg
def cfbEnc (alg : String) (_s : Bytes) : String := fmtOpaque "cfb::Encryptor<" alg
def cfbDec (alg : String) (_s : Bytes) : String := fmtOpaque "cfb::Decryptor<" alg
def cfbBufEnc (alg : String) (_s : CfbBuf.St) : String := fmtOpaque "cfb::BufEncryptor<" alg
def cfbBufDec (alg : String) (_s : CfbBuf.St) : String := fmtOpaque "cfb::BufDecryptor<" alg
def cfb8Enc (alg : String) (_s : Bytes) : String := fmtOpaque "cfb8::Encryptor<" alg
def cfb8Dec (alg : String) (_s : Bytes) : String := fmtOpaque "cfb8::Decryptor<" alg
def ofbCore (alg : String) (_s : Bytes) : String := fmtOpaque "OfbCore<" alg
def ctrCore (flavorName alg : String) (_s : Ctr.St) : String := fmtOpaque ("Ctr" ++ flavorName ++ "<") alg
def ctrNonce (bits : String) (_s : Ctr.St) : String := "CtrNonce" ++ bits ++ " { ... }"
def beltCore (alg : String) (_s : Belt.St) : String := fmtOpaque "BeltCtr<" alg

def fmtBytes (b : Bytes) : String := "[" ++ ", ".intercalate (b.map fun x => toString x.toNat) ++ "]"

/-- cipher crate: `debug_struct("StreamCipherCoreWrapper").field("core", ..).field("buffer_data", &buffer[pos..])` -/
def wrapper {σ : Type} (coreDbg : σ → String) (s : Glue.Wr σ) : String :=
  "StreamCipherCoreWrapper { core: " ++ coreDbg s.core ++ ", buffer_data: " ++ fmtBytes s.debugBufferData ++ " }"

/-! ### `Drop` with `zeroize`: the state-bearing fields after the destructor ran -/
def dropBytes (s : Bytes) : Bytes := zeros s.length                                -- `self.iv.zeroize()`
def dropIge (s : Ige.St) : Ige.St := { x := zeros s.x.length, y := zeros s.y.length }  -- x.zeroize(); y.zeroize()
def dropBuf (s : CfbBuf.St) : CfbBuf.St := { s with iv := zeros s.iv.length }      -- only `iv` is wiped; `pos` is not secret
def dropCtr (s : Ctr.St) : Ctr.St := { ctr := 0, nonce := s.nonce.map fun _ => 0 } -- ctr.zeroize(); nonce.zeroize()
def dropBelt (_s : Belt.St) : Belt.St := { s := 0, sInit := 0 }                    -- s.zeroize(); s_init.zeroize()
def dropWrapper {σ : Type} (dropCore : σ → σ) (s : Glue.Wr σ) : Glue.Wr σ :=
  { core := dropCore s.core, buffer := zeros s.buffer.length }                     -- self.buffer.zeroize(); core's own Drop

end Impl.Dbg
