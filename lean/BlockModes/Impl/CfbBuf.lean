import BlockModes.Basic
/-
  Impl/CfbBuf.lean — mirror of `BufEncryptor::encrypt` (cfb-mode/src/encrypt/buf.rs) and
  `BufDecryptor::decrypt` (cfb-mode/src/decrypt.rs): three phases (finish the current block, whole
  blocks, remainder), state `(iv, pos)`.
  `xor_set1(a, b)`: t = a ^ b; a = t; b = t      (encryptor: the iv slice receives the ciphertext)
  `xor_set2(a, b)`: t = a; a ^= b; b = t         (decryptor: the iv slice receives the input = ciphertext)
-/
namespace Impl.CfbBuf

structure St where
  iv  : Bytes
  pos : Nat
deriving DecidableEq, Repr

/-- `inner_iv_init`: iv = iv.clone(); E(iv); pos = 0 -/
def init (C : Cipher) (iv : Bytes) : St := { iv := C.enc iv, pos := 0 }
/-- `get_state` / `from_state` -/
def getState (s : St) : Bytes × Nat := (s.iv, s.pos)
def fromState (iv : Bytes) (pos : Nat) : St := { iv := iv, pos := pos }

/-- `for chunk in &mut chunks { xor_set1(chunk, iv); cipher.encrypt_block(&mut iv) }` -/
def encLoop (C : Cipher) : Bytes → List Bytes → Bytes × Bytes
  | iv, [] => ([], iv)
  | iv, c :: cs =>
    let t := xorB c iv
    let r := encLoop C (C.enc t) cs
    (t ++ r.1, r.2)

/-- `for chunk in &mut chunks { xor_set2(chunk, iv); cipher.encrypt_block(&mut iv) }` -/
def decLoop (C : Cipher) : Bytes → List Bytes → Bytes × Bytes
  | iv, [] => ([], iv)
  | iv, c :: cs =>
    let t := xorB c iv
    let r := decLoop C (C.enc c) cs
    (t ++ r.1, r.2)

def encrypt (C : Cipher) (s : St) (data : Bytes) : Bytes × St :=
  let bs := C.bs
  let n := data.length
  if n < bs - s.pos then
    let t := xorB data (rng s.iv s.pos n)                  -- xor_set1(data, &mut iv[pos..pos+n])
    (t, { iv := setRng s.iv s.pos t, pos := s.pos + n })
  else
    let left := data.take (bs - s.pos)                     -- split_at_mut(bs - pos)
    let right := data.drop (bs - s.pos)
    let tl := xorB left (s.iv.drop s.pos)                  -- xor_set1(left, &mut iv[pos..])
    let iv1 := C.enc (s.iv.take s.pos ++ tl)               -- cipher.encrypt_block(&mut iv)
    let r := encLoop C iv1 (chunks bs right)               -- chunks_exact_mut(bs)
    let rem := chunksTail bs right                         -- into_remainder()
    let tr := xorB rem r.2                                 -- xor_set1(rem, iv)
    (tl ++ (r.1 ++ tr), { iv := tr ++ r.2.drop rem.length, pos := rem.length })

def decrypt (C : Cipher) (s : St) (data : Bytes) : Bytes × St :=
  let bs := C.bs
  let n := data.length
  if n < bs - s.pos then
    let t := xorB data (rng s.iv s.pos n)                  -- xor_set2(data, &mut iv[pos..pos+n])
    (t, { iv := setRng s.iv s.pos data, pos := s.pos + n })
  else
    let left := data.take (bs - s.pos)
    let right := data.drop (bs - s.pos)
    let tl := xorB left (s.iv.drop s.pos)                  -- xor_set2(left, &mut iv[pos..])
    let iv1 := C.enc (s.iv.take s.pos ++ left)
    let r := decLoop C iv1 (chunks bs right)
    let rem := chunksTail bs right
    let tr := xorB rem r.2                                 -- xor_set2(rem, iv)
    (tl ++ (r.1 ++ tr), { iv := rem ++ r.2.drop rem.length, pos := rem.length })

end Impl.CfbBuf
