import BlockModes.Glue.Async
import BlockModes.Impl.MemCts
/-
  Impl/MemAsync.lean — `cipher::AsyncStreamCipher::{encrypt,decrypt}_inout` (cipher 0.5.0-pre.8, `stream.rs:24-53`)
  statement by statement on the in/out memory model and *checked*: the entry point behind `encrypt`, `decrypt`,
  `encrypt_b2b`, `decrypt_b2b`, `encrypt_inout`, `decrypt_inout` of `cfb_mode::{Encryptor, Decryptor}` and
  `cfb8::{Encryptor, Decryptor}`.  The full blocks go through `X_blocks_inout` (the `BlocksCtx` loops of
  `Impl/MemCts.lean`: chunks of `ParBlocksSize` through the parallel body, the rest one by one); the tail works on a
  *local* zero block: `block[..n].copy_from_slice(tail.get_in())`, one single-block call, then
  `tail.get_out().copy_from_slice(&block[..n])`.  Slices and `copy_from_slice` are `Option` steps (`none` = panic).
-/
namespace Impl.MemAsync
open Impl.MemCts

/-- `X_inout(data)` with `mbs` the mode's block size, `w` the backend's `ParBlocksSize`, `step` / `par` the mode's
    single-block and parallel bodies. -/
def asyncMem {σ : Type} (w mbs : Nat) (step : σ → Bytes → Bytes × σ) (par : σ → List Bytes → List Bytes × σ)
    (s : σ) (io : IOBuf) : Option IOBuf :=
  if mbs = 0 then none else                                   -- `into_chunks` of zero-sized blocks
  let nb := io.len / mbs                                      -- `let (blocks, mut tail) = data.into_chunks();`
  let n := io.len % mbs
  match memBlocks w mbs step par nb 0 s io with               -- `self.X_blocks_inout(blocks);`
  | none => none
  | some (io1, s1) =>
    if n ≠ 0 then
      match getIn? io1 (nb * mbs) n with                      -- `tail.get_in()`
      | none => none
      | some t =>
        match blockSet? (zeros mbs) 0 n t with                -- `block[..n].copy_from_slice(tail.get_in())`
        | none => none
        | some block =>
          let r := step s1 block                              -- `self.X_block(&mut block)`
          match slice? r.1 0 n with                           -- `&block[..n]`
          | none => none
          | some o => setOut? io1 (nb * mbs) n o              -- `tail.get_out().copy_from_slice(..)`
    else some io1

/-- `X_b2b(in, out)`: `InOutBuf::new` fails on unequal lengths (`NotEqualError`), nothing is touched then.
    Outer `none` = panic, inner `none` = `Err`. -/
def asyncB2b {σ : Type} (w mbs : Nat) (step : σ → Bytes → Bytes × σ) (par : σ → List Bytes → List Bytes × σ)
    (s : σ) (inp out : Bytes) : Option (Option Bytes) :=
  if inp.length ≠ out.length then some none
  else (asyncMem w mbs step par s (IOBuf.b2b inp out)).map fun io => some io.out

end Impl.MemAsync
