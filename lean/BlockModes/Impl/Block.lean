import BlockModes.Glue.BlocksCtx
/-
  Impl/Block.lean — value-level mirror of the block-mode backends in /repo (one Lean function per
  Rust backend method, same temporaries, same order).  `w` is the block cipher backend's
  `ParBlocksSize`; a mode that declares `type ParBlocksSize = U1` ignores it (sequential branch of
  `BlocksCtx`), a mode that forwards `BK::ParBlocksSize` uses it.
  Assumption A1: the cipher backend's `*_par_blocks` equals block-wise `*_block` (`List.map`).
-/
namespace Impl

/-! ### cbc (cbc/src/encrypt.rs, cbc/src/decrypt.rs) -/
namespace Cbc
/-- `inner_iv_init`: `iv: iv.clone()` -/
def init (_C : Cipher) (iv : Bytes) : Bytes := iv
/-- `iv_state`: `self.iv.clone()` -/
def ivState (_C : Cipher) (s : Bytes) : Bytes := s

/-- encrypt.rs `encrypt_block`: t = in; t ^= iv; E(t); iv = t; out = t -/
def encBlock (C : Cipher) (iv blk : Bytes) : Bytes × Bytes :=
  let t := blk
  let t := xorB t iv
  let t := C.enc t
  (t, t)

/-- decrypt.rs `decrypt_block`: in_block = in; t = in; D(t); t ^= iv; out = t; iv = in_block -/
def decBlock (C : Cipher) (iv blk : Bytes) : Bytes × Bytes :=
  let inBlock := blk
  let t := blk
  let t := C.dec t
  let t := xorB t iv
  (t, inBlock)

/-- decrypt.rs `decrypt_par_blocks`: t = D∥(in); t[0] ^= iv; t[i] ^= in[i-1]; out = t; iv = in[n-1] -/
def decPar (C : Cipher) (iv : Bytes) (chunk : List Bytes) : List Bytes × Bytes :=
  let inBlocks := chunk
  let t := chunk.map C.dec
  let t := List.zipWith xorB t (iv :: inBlocks.dropLast)
  (t, inBlocks.getLastD iv)

/-- `ParBlocksSize = U1` for the encryptor. -/
def encBlocks (C : Cipher) (_w : Nat) (iv : Bytes) (blocks : List Bytes) : List Bytes × Bytes :=
  Glue.blocksCtx 1 (encBlock C) (Glue.defaultPar (encBlock C)) iv blocks
/-- `ParBlocksSize = BK::ParBlocksSize` for the decryptor. -/
def decBlocks (C : Cipher) (w : Nat) (iv : Bytes) (blocks : List Bytes) : List Bytes × Bytes :=
  Glue.blocksCtx w (decBlock C) (decPar C) iv blocks
end Cbc

/-! ### pcbc -/
namespace Pcbc
def init (_C : Cipher) (iv : Bytes) : Bytes := iv
def ivState (_C : Cipher) (s : Bytes) : Bytes := s

/-- t1 = in; t2 = in; t1 ^= iv; E(t1); t2 ^= t1; out = t1; iv = t2 -/
def encBlock (C : Cipher) (iv blk : Bytes) : Bytes × Bytes :=
  let t1 := blk
  let t2 := blk
  let t1 := xorB t1 iv
  let t1 := C.enc t1
  let t2 := xorB t2 t1
  (t1, t2)

/-- t1 = in; t2 = in; D(t1); t1 ^= iv; t2 ^= t1; iv = t2; out = t1 -/
def decBlock (C : Cipher) (iv blk : Bytes) : Bytes × Bytes :=
  let t1 := blk
  let t2 := blk
  let t1 := C.dec t1
  let t1 := xorB t1 iv
  let t2 := xorB t2 t1
  (t1, t2)

def encBlocks (C : Cipher) (_w : Nat) (iv : Bytes) (blocks : List Bytes) : List Bytes × Bytes :=
  Glue.blocksCtx 1 (encBlock C) (Glue.defaultPar (encBlock C)) iv blocks
def decBlocks (C : Cipher) (_w : Nat) (iv : Bytes) (blocks : List Bytes) : List Bytes × Bytes :=
  Glue.blocksCtx 1 (decBlock C) (Glue.defaultPar (decBlock C)) iv blocks
end Pcbc

/-! ### ige — state `(x, y)`: `x` = previous plaintext, `y` = previous ciphertext -/
namespace Ige
structure St where
  x : Bytes
  y : Bytes
deriving DecidableEq, Repr

/-- `inner_iv_init`: n = bs; y = iv[..n]; x = iv[n..] -/
def init (C : Cipher) (iv : Bytes) : St :=
  let n := C.bs
  { y := iv.take n, x := iv.drop n }
/-- `iv_state`: y.concat(x) -/
def ivState (_C : Cipher) (s : St) : Bytes := s.y ++ s.x

/-- new_x = in; t = new_x; t ^= y; E(t); t ^= x; out = t; x = new_x; y = t -/
def encBlock (C : Cipher) (s : St) (blk : Bytes) : Bytes × St :=
  let newX := blk
  let t := newX
  let t := xorB t s.y
  let t := C.enc t
  let t := xorB t s.x
  (t, { x := newX, y := t })

/-- new_y = in; t = new_y; t ^= x; D(t); t ^= y; out = t; x = t; y = new_y -/
def decBlock (C : Cipher) (s : St) (blk : Bytes) : Bytes × St :=
  let newY := blk
  let t := newY
  let t := xorB t s.x
  let t := C.dec t
  let t := xorB t s.y
  (t, { x := t, y := newY })

def encBlocks (C : Cipher) (_w : Nat) (s : St) (blocks : List Bytes) : List Bytes × St :=
  Glue.blocksCtx 1 (encBlock C) (Glue.defaultPar (encBlock C)) s blocks
def decBlocks (C : Cipher) (_w : Nat) (s : St) (blocks : List Bytes) : List Bytes × St :=
  Glue.blocksCtx 1 (decBlock C) (Glue.defaultPar (decBlock C)) s blocks
end Ige

/-! ### cfb-mode, block level — state `iv` = E(previous ciphertext block) -/
namespace Cfb
/-- `inner_iv_init`: iv = iv.clone(); E(iv) -/
def init (C : Cipher) (iv : Bytes) : Bytes := C.enc iv
/-- `iv_state`: res = iv.clone(); D(res) -/
def ivState (C : Cipher) (s : Bytes) : Bytes := C.dec s

/-- encrypt.rs: out = in ^ iv; t = out.clone(); E(t); iv = t -/
def encBlock (C : Cipher) (iv blk : Bytes) : Bytes × Bytes :=
  let out := xorB blk iv
  let t := out
  let t := C.enc t
  (out, t)

/-- decrypt.rs: t = in; out = in ^ iv; E(t); iv = t -/
def decBlock (C : Cipher) (iv blk : Bytes) : Bytes × Bytes :=
  let t := blk
  let out := xorB blk iv
  let t := C.enc t
  (out, t)

/-- decrypt.rs `decrypt_par_blocks`: t = E∥(in); out[0] = in[0]^iv; out[i] = in[i]^t[i-1]; iv = t[n-1] -/
def decPar (C : Cipher) (iv : Bytes) (chunk : List Bytes) : List Bytes × Bytes :=
  let t := chunk.map C.enc
  let out := List.zipWith xorB chunk (iv :: t.dropLast)
  (out, t.getLastD iv)

def encBlocks (C : Cipher) (_w : Nat) (iv : Bytes) (blocks : List Bytes) : List Bytes × Bytes :=
  Glue.blocksCtx 1 (encBlock C) (Glue.defaultPar (encBlock C)) iv blocks
def decBlocks (C : Cipher) (w : Nat) (iv : Bytes) (blocks : List Bytes) : List Bytes × Bytes :=
  Glue.blocksCtx w (decBlock C) (decPar C) iv blocks
end Cfb

/-! ### cfb8 — the mode's block size is 1; state `iv` = shift register of `bs` bytes -/
namespace Cfb8
def init (_C : Cipher) (iv : Bytes) : Bytes := iv
def ivState (_C : Cipher) (s : Bytes) : Bytes := s

/-- `for i in 0..n-1 { iv[i] = iv[i+1] }; iv[n-1] = r` -/
def shift (iv : Bytes) (r : UInt8) : Bytes := iv.drop 1 ++ [r]

/-- t = iv; E(t); k = t[..1]; out = in ^ k; r = out[0]; shift -/
def encBlock (C : Cipher) (iv blk : Bytes) : Bytes × Bytes :=
  let t := C.enc iv
  let k := t.take 1
  let out := xorB blk k
  let r := out.headD 0
  (out, shift iv r)

/-- t = iv; E(t); r = in[0]; k = t[..1]; out = in ^ k; shift -/
def decBlock (C : Cipher) (iv blk : Bytes) : Bytes × Bytes :=
  let t := C.enc iv
  let r := blk.headD 0
  let k := t.take 1
  let out := xorB blk k
  (out, shift iv r)

def encBlocks (C : Cipher) (_w : Nat) (iv : Bytes) (blocks : List Bytes) : List Bytes × Bytes :=
  Glue.blocksCtx 1 (encBlock C) (Glue.defaultPar (encBlock C)) iv blocks
def decBlocks (C : Cipher) (_w : Nat) (iv : Bytes) (blocks : List Bytes) : List Bytes × Bytes :=
  Glue.blocksCtx 1 (decBlock C) (Glue.defaultPar (decBlock C)) iv blocks
end Cfb8

/-! ### ofb (ofb/src/lib.rs) — one backend used as BlockModeEnc, BlockModeDec and StreamCipher -/
namespace Ofb
def init (_C : Cipher) (iv : Bytes) : Bytes := iv
def ivState (_C : Cipher) (s : Bytes) : Bytes := s

/-- `encrypt_block` / `decrypt_block`: E(iv) in place; out = in ^ iv -/
def encBlock (C : Cipher) (iv blk : Bytes) : Bytes × Bytes :=
  let iv := C.enc iv
  (xorB blk iv, iv)
def decBlock (C : Cipher) (iv blk : Bytes) : Bytes × Bytes :=
  let iv := C.enc iv
  (xorB blk iv, iv)
/-- `gen_ks_block`: E(iv) in place; block = iv -/
def genKsBlock (C : Cipher) (iv : Bytes) : Bytes × Bytes :=
  let iv := C.enc iv
  (iv, iv)

def encBlocks (C : Cipher) (_w : Nat) (iv : Bytes) (blocks : List Bytes) : List Bytes × Bytes :=
  Glue.blocksCtx 1 (encBlock C) (Glue.defaultPar (encBlock C)) iv blocks
def decBlocks (C : Cipher) (_w : Nat) (iv : Bytes) (blocks : List Bytes) : List Bytes × Bytes :=
  Glue.blocksCtx 1 (decBlock C) (Glue.defaultPar (decBlock C)) iv blocks
end Ofb

end Impl
