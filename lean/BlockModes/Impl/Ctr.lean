import BlockModes.Spec.Stream
import BlockModes.Glue.Wrapper
/-
  Impl/Ctr.lean — mirror of ctr/src/flavors/ctr{32,64,128}.rs and ctr/src/ctr_core.rs.
  The nonce is kept as an array of `w`-bit words; only the counter word is numeric (BE: last word,
  LE: first word), the others go through `from_ne_bytes`/`to_ne_bytes`, modelled as little-endian
  (x86-64; the composition is the identity on bytes whatever the endianness).
-/
namespace Impl.Ctr
open Spec (Flavor)

structure St where
  ctr   : Nat
  nonce : List Nat
deriving DecidableEq, Repr

/-- index of the counter word -/
def ctrIdx (f : Flavor) (nChunks : Nat) : Nat := if f.be then nChunks - 1 else 0

/-- `from_nonce` -/
def fromNonce (f : Flavor) (block : Bytes) : St :=
  let cs := f.cs
  let n := block.length / cs
  { ctr := 0
    nonce := (List.range n).map fun i =>
      let chunk := rng block (cs * i) cs
      if i = ctrIdx f n then (if f.be then fromBE chunk else fromLE chunk) else fromLE chunk }

/-- `current_block` -/
def currentBlock (f : Flavor) (cn : St) : Bytes :=
  let cs := f.cs
  let n := cn.nonce.length
  (cn.nonce.mapIdx fun i v =>
    if i = ctrIdx f n then
      let x := (cn.ctr + v) % 2 ^ f.w                         -- wrapping_add
      if f.be then toBE cs x else toLE cs x
    else toLE cs v).flatten

/-- `next_block`: block = current_block; ctr = ctr.wrapping_add(1) -/
def nextBlock (f : Flavor) (cn : St) : Bytes × St :=
  (currentBlock f cn, { cn with ctr := (cn.ctr + 1) % 2 ^ f.w })

/-- `remaining`: `(MAX - ctr).try_into::<usize>().ok()` with a 64-bit `usize` -/
def remaining (f : Flavor) (cn : St) : Option Nat :=
  let v := 2 ^ f.w - 1 - cn.ctr
  if v < 2 ^ 64 then some v else none

/-- ctr_core.rs `gen_ks_block`: tmp = next_block; E(tmp → block) -/
def genKsBlock (C : Cipher) (f : Flavor) (cn : St) : Bytes × St :=
  let r := nextBlock f cn
  (C.enc r.1, r.2)

/-- `for block in tmp.iter_mut() { *block = next_block }` -/
def nextBlocks (f : Flavor) : Nat → St → List Bytes × St
  | 0, cn => ([], cn)
  | n + 1, cn =>
    let r := nextBlock f cn
    let r2 := nextBlocks f n r.2
    (r.1 :: r2.1, r2.2)

/-- ctr_core.rs `gen_par_ks_blocks`: tmp[i] = next_block; E∥(tmp → blocks) -/
def genParKsBlocks (C : Cipher) (f : Flavor) (n : Nat) (cn : St) : List Bytes × St :=
  let r := nextBlocks f n cn
  (r.1.map C.enc, r.2)

def core (C : Cipher) (f : Flavor) : Glue.Core St where
  bs := C.bs
  parW := fun w => w                                           -- `ParBlocksSize = B::ParBlocksSize`
  cw := f.w
  remaining := remaining f
  genBlock := genKsBlock C f
  genPar := genParKsBlocks C f
  getPos := fun cn => cn.ctr                                   -- `as_backend`
  setPos := fun cn v => { cn with ctr := v }                   -- `set_from_backend`

/-- `inner_iv_init` / `iv_state` -/
def init (_C : Cipher) (f : Flavor) (iv : Bytes) : St := fromNonce f iv
def ivState (f : Flavor) (cn : St) : Bytes := currentBlock f cn

end Impl.Ctr
