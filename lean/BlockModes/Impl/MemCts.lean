import BlockModes.Glue.IO
import BlockModes.Impl.Cts
/-
  Impl/MemCts.lean — cts/src/lib.rs and the twelve closures of cts/src/{cbc,ecb}_cs{1,2,3}.rs once more,
  this time statement by statement on the in/out memory model (`IOBuf`: `InOutBuf<'_, '_, u8>`, input and
  output views either identical or disjoint) and *checked*: every Rust operation that can panic
  (`a - b` on `usize`, slice indexing, `split_at`, `try_into().unwrap()`, `copy_from_slice` with unequal
  lengths, `last_mut().unwrap()`) is an `Option` step that yields `none` when the Rust code would panic.

  `Thm/C12.lean` proves: for every message of at least one block the closure returns `some io'`, and `io'.out`
  is the value-level mirror `Impl.Cts.*` of the same closure on the input bytes — in place and buffer-to-buffer
  alike, whatever the output buffer held before (C12).  `Thm/C13.lean` uses the same theorems for
  "never panics on an accepted length" and the gate for "rejected without touching the buffers" (C13).
-/
namespace Impl.MemCts
open Impl.Cts

/-! ### checked primitives -/

/-- `a - b` on `usize` (overflow checks on: panics when `b > a`) -/
def sub? (a b : Nat) : Option Nat := if b ≤ a then some (a - b) else none

/-- `&l[a..b]` -/
def slice? (l : Bytes) (a b : Nat) : Option Bytes :=
  if a ≤ b ∧ b ≤ l.length then some ((l.drop a).take (b - a)) else none

/-- `dst[a..b].copy_from_slice(src)` on a local block -/
def blockSet? (dst : Bytes) (a b : Nat) (src : Bytes) : Option Bytes :=
  if a ≤ b ∧ b ≤ dst.length ∧ src.length = b - a then some (setRng dst a src) else none

/-- the bytes the input view currently shows -/
def src (io : IOBuf) : Bytes := if io.alias then io.out else io.inp

/-- `buf.get_in()[off .. off+len]` -/
def getIn? (io : IOBuf) (off len : Nat) : Option Bytes :=
  if off + len ≤ io.len then some (io.getIn off len) else none

/-- `buf.get_out()[off .. off+len]` read back -/
def getOut? (io : IOBuf) (off len : Nat) : Option Bytes :=
  if off + len ≤ io.len then some (io.getOut off len) else none

/-- `buf.get_out()[off .. off+len].copy_from_slice(v)` (also `*block.get_out() = v` for a block of `len` bytes) -/
def setOut? (io : IOBuf) (off len : Nat) (v : Bytes) : Option IOBuf :=
  if off + len ≤ io.len ∧ v.length = len then some (io.setOut off v) else none

/-! ### loops over blocks -/

/-- `for block in blocks { let t = block.clone_in(); …; *block.get_out() = t' }` over `n` consecutive units of
    `sz` bytes starting at byte `off`: each unit is read from the input view, then written to the output view. -/
def memLoop {σ : Type} (step : σ → Bytes → Bytes × σ) (sz : Nat) : Nat → Nat → σ → IOBuf → Option (IOBuf × σ)
  | 0, _, s, io => some (io, s)
  | n + 1, off, s, io =>
    match getIn? io off sz with
    | none => none
    | some blk =>
      let r := step s blk
      match setOut? io off sz r.1 with
      | none => none
      | some io' => memLoop step sz n (off + sz) r.2 io'

/-- a parallel body on a chunk of `w` blocks, seen on the flat bytes of the chunk
    (`clone_in()` of the whole chunk, then `*blocks.get_out() = t` of the whole chunk) -/
def parFlat {σ : Type} (bs : Nat) (par : σ → List Bytes → List Bytes × σ) (s : σ) (flat : Bytes) : Bytes × σ :=
  let r := par s (chunks bs flat)
  (r.1.flatten, r.2)

/-- lib.rs: `if ParBlocksSize > 1 { (par_blocks, rem) = blocks.into_chunks(); for chunk in par_blocks { par body } }`
    then `for block in rem { single-block body }`, on `nb` blocks starting at byte `off`. -/
def memBlocks {σ : Type} (w bs : Nat) (step : σ → Bytes → Bytes × σ) (par : σ → List Bytes → List Bytes × σ)
    (nb off : Nat) (s : σ) (io : IOBuf) : Option (IOBuf × σ) :=
  if w > 1 then
    match memLoop (parFlat bs par) (w * bs) (nb / w) off s io with
    | none => none
    | some (io', s') => memLoop step bs (nb % w) (off + (nb / w) * (w * bs)) s' io'
  else memLoop step bs nb off s io

/-- lib.rs `ecb_enc` / `ecb_dec` (A1: the cipher's own par body is block-wise) -/
def memEcb (f : Bytes → Bytes) (w bs nb off : Nat) (io : IOBuf) : Option IOBuf :=
  (memBlocks w bs (fun (_ : Unit) b => (f b, ())) (fun _ ch => (ch.map f, ())) nb off () io).map (·.1)

/-- lib.rs `cbc_enc` -/
def memCbcEnc (C : Cipher) (nb off : Nat) (iv : Bytes) (io : IOBuf) : Option (IOBuf × Bytes) :=
  memLoop (cbcEncBlock C) C.bs nb off iv io

/-- lib.rs `cbc_dec` -/
def memCbcDec (C : Cipher) (w nb off : Nat) (iv : Bytes) (io : IOBuf) : Option (IOBuf × Bytes) :=
  memBlocks w C.bs (cbcDecBlock C) (cbcDecPar C) nb off iv io

/-! ### the closures.  `k` full blocks `[0, k·bs)`, tail `[k·bs, len)` of `tl` bytes (`into_chunks`). -/

/-- `let mut block = Block::default(); block[..tail.len()].copy_from_slice(tail.get_in());` -/
def padFromTail (io : IOBuf) (bs k tl : Nat) : Option Bytes :=
  match getIn? io (k * bs) tl with
  | none => none
  | some t => blockSet? (zeros bs) 0 tl t

/-- cbc_cs1.rs, encrypt closure -/
def cbcCs1Enc (C : Cipher) (_w : Nat) (iv : Bytes) (io : IOBuf) : Option IOBuf :=
  let bs := C.bs
  let k := io.len / bs
  let tl := io.len % bs
  match memCbcEnc C k 0 iv io with
  | none => none
  | some (io, iv) =>
    if tl = 0 then some io
    else
      match padFromTail io bs k tl with
      | none => none
      | some block =>
        let block := C.enc (xorB block iv)
        match sub? io.len bs with                          -- let pos = buf.len() - bs
        | none => none
        | some pos => setOut? io pos (io.len - pos) block   -- buf.get_out()[pos..].copy_from_slice(&block)

/-- the un-stealing step of cbc_cs1.rs decrypt on `rem = buf[mid..]` -/
def cbcCs1DecRem (C : Cipher) (iv : Bytes) (io : IOBuf) (mid : Nat) : Option IOBuf :=
  let bs := C.bs
  let remLen := io.len - mid
  match sub? remLen bs with                                 -- let n = rem.len() - bs
  | none => none
  | some n =>
    match getIn? io mid bs with                             -- rem.get_in()[..bs].try_into().unwrap()
    | none => none
    | some block1 =>
      if n > remLen ∨ remLen - n ≠ bs then none else        -- rem.get_in()[n..].try_into().unwrap()
      match getIn? io (mid + n) bs with
      | none => none
      | some block2 =>
        let block2 := C.dec block2
        match slice? block2 n block2.length with            -- &block2[n..]
        | none => none
        | some b2t =>
          match blockSet? block1 n block1.length b2t with   -- block1[n..].copy_from_slice(&block2[n..])
          | none => none
          | some block1 =>
            let block2 := xorB block2 block1
            let block1 := C.dec block1
            let block1 := xorB block1 iv
            match setOut? io mid bs block1 with             -- rem.get_out()[..bs].copy_from_slice(&block1)
            | none => none
            | some io =>
              match slice? block2 0 n with                  -- &block2[..n]
              | none => none
              | some b2h => setOut? io (mid + bs) (remLen - bs) b2h   -- rem.get_out()[bs..].copy_from_slice(..)

/-- cbc_cs1.rs, decrypt closure -/
def cbcCs1Dec (C : Cipher) (w : Nat) (iv : Bytes) (io : IOBuf) : Option IOBuf :=
  let bs := C.bs
  let k := io.len / bs
  let tl := io.len % bs
  match (if tl ≠ 0 then sub? k 1 else some k) with          -- let mid = blocks.len() - 1; blocks.split_at(mid).0
  | none => none
  | some nb =>
    match memCbcDec C w nb 0 iv io with
    | none => none
    | some (io, iv) =>
      if tl = 0 then some io
      else
        match sub? io.len (bs + tl) with                    -- let mid = buf.len() - (bs + tail_len)
        | none => none
        | some mid => cbcCs1DecRem C iv io mid

/-- the stealing step shared by cbc_cs2.rs / cbc_cs3.rs encrypt:
    `block = pad(tail.get_in()) ^ iv; E; val = mem::replace(blocks.get_out().last_mut().unwrap(), block);
     tail.get_out().copy_from_slice(&val[..tail.len()])` -/
def cbcStealMem (C : Cipher) (iv : Bytes) (io : IOBuf) (k tl : Nat) : Option IOBuf :=
  let bs := C.bs
  match padFromTail io bs k tl with
  | none => none
  | some block =>
    let block := C.enc (xorB block iv)
    match sub? k 1 with                                     -- last_mut().unwrap()
    | none => none
    | some j =>
      match getOut? io (j * bs) bs with
      | none => none
      | some val =>
        match setOut? io (j * bs) bs block with
        | none => none
        | some io =>
          match slice? val 0 tl with
          | none => none
          | some tv => setOut? io (k * bs) tl tv

/-- cbc_cs2.rs, encrypt closure -/
def cbcCs2Enc (C : Cipher) (_w : Nat) (iv : Bytes) (io : IOBuf) : Option IOBuf :=
  let bs := C.bs
  let k := io.len / bs
  let tl := io.len % bs
  match memCbcEnc C k 0 iv io with
  | none => none
  | some (io, iv) => if tl = 0 then some io else cbcStealMem C iv io k tl

/-- the un-stealing step shared by cbc_cs2.rs / cbc_cs3.rs decrypt on `rem = buf[mid..]` -/
def cbcCs2DecRem (C : Cipher) (iv : Bytes) (io : IOBuf) (mid : Nat) : Option IOBuf :=
  let bs := C.bs
  let remLen := io.len - mid
  match sub? remLen bs with                                 -- let n = rem.len() - bs
  | none => none
  | some n =>
    match getIn? io mid bs with                             -- rem.get_in()[..bs].try_into().unwrap()
    | none => none
    | some block1 =>
      let block1 := C.dec block1
      if bs > remLen then none else                         -- &rem.get_in()[bs..]
      match getIn? io (mid + bs) (remLen - bs) with
      | none => none
      | some t =>
        match blockSet? (zeros bs) 0 n t with               -- block2[..n].copy_from_slice(..)
        | none => none
        | some block2 =>
          match slice? block1 n block1.length with
          | none => none
          | some b1t =>
            match blockSet? block2 n block2.length b1t with -- block2[n..].copy_from_slice(&block1[n..])
            | none => none
            | some block2 =>
              let block1 := xorB block1 block2
              let block2 := C.dec block2
              let block2 := xorB block2 iv
              match setOut? io mid bs block2 with
              | none => none
              | some io =>
                match slice? block1 0 n with
                | none => none
                | some b1h => setOut? io (mid + bs) (remLen - bs) b1h

/-- cbc_cs2.rs, decrypt closure -/
def cbcCs2Dec (C : Cipher) (w : Nat) (iv : Bytes) (io : IOBuf) : Option IOBuf :=
  let bs := C.bs
  let k := io.len / bs
  let tl := io.len % bs
  match (if tl ≠ 0 then sub? k 1 else some k) with
  | none => none
  | some nb =>
    match memCbcDec C w nb 0 iv io with
    | none => none
    | some (io, iv) =>
      if tl = 0 then some io
      else
        match sub? io.len (bs + tl) with
        | none => none
        | some mid => cbcCs2DecRem C iv io mid

/-- `split_last_mut().unwrap()` twice and `mem::swap(penultimate, last)` on the output blocks -/
def swapLast2Mem (io : IOBuf) (bs k : Nat) : Option IOBuf :=
  match sub? k 1 with
  | none => none
  | some j =>
    match sub? j 1 with
    | none => none
    | some i =>
      match getOut? io (j * bs) bs with
      | none => none
      | some last =>
        match getOut? io (i * bs) bs with
        | none => none
        | some pen =>
          match setOut? io (i * bs) bs last with
          | none => none
          | some io => setOut? io (j * bs) bs pen

/-- cbc_cs3.rs, encrypt closure (current code, after the `fix:` commit) -/
def cbcCs3Enc (C : Cipher) (_w : Nat) (iv : Bytes) (io : IOBuf) : Option IOBuf :=
  let bs := C.bs
  let k := io.len / bs
  let tl := io.len % bs
  match memCbcEnc C k 0 iv io with
  | none => none
  | some (io, iv) =>
    if tl = 0 then (if k > 1 then swapLast2Mem io bs k else some io)
    else cbcStealMem C iv io k tl

/-- cbc_cs3.rs, decrypt closure (current code) -/
def cbcCs3Dec (C : Cipher) (w : Nat) (iv : Bytes) (io : IOBuf) : Option IOBuf :=
  let bs := C.bs
  if io.len = bs then (memCbcDec C w (io.len / bs) 0 iv io).map (·.1)
  else
    let blocksLen := (io.len + bs - 1) / bs                 -- buf.len().div_ceil(bs)
    let mainBlocks := blocksLen - 2                          -- saturating_sub(2)
    if bs * mainBlocks > io.len then none else               -- buf.split_at(bs * main_blocks)
    -- `blocks.into_chunks()` of the first part: (bs·mainBlocks) / bs blocks; `debug_assert_eq!(rem.len(), 0)`
    if (bs * mainBlocks) % bs ≠ 0 then none else
    match memCbcDec C w ((bs * mainBlocks) / bs) 0 iv io with
    | none => none
    | some (io, iv) => cbcCs2DecRem C iv io (bs * mainBlocks)

/-- ecb_cs1.rs, encrypt closure -/
def ecbCs1Enc (C : Cipher) (w : Nat) (io : IOBuf) : Option IOBuf :=
  let bs := C.bs
  let k := io.len / bs
  let tl := io.len % bs
  match memEcb C.enc w bs k 0 io with
  | none => none
  | some io =>
    if tl = 0 then some io
    else
      match sub? k 1 with                                   -- blocks.get_out().last_mut().unwrap()
      | none => none
      | some j =>
        match getOut? io (j * bs) bs with
        | none => none
        | some lastBlock =>
          match padFromTail io bs k tl with                 -- block[..n].copy_from_slice(tail.get_in())
          | none => none
          | some block =>
            match slice? lastBlock tl lastBlock.length with
            | none => none
            | some lt =>
              match blockSet? block tl block.length lt with -- block[n..].copy_from_slice(&last_block[n..])
              | none => none
              | some block =>
                let block := C.enc block
                match sub? io.len block.length with         -- let pos = buf.len() - block.len()
                | none => none
                | some pos => setOut? io pos (io.len - pos) block

/-- the un-stealing step of ecb_cs1.rs decrypt on `rem = buf[mid..]` -/
def ecbCs1DecRem (C : Cipher) (io : IOBuf) (mid : Nat) : Option IOBuf :=
  let bs := C.bs
  let remLen := io.len - mid
  match sub? remLen bs with
  | none => none
  | some n =>
    match getIn? io mid bs with
    | none => none
    | some block1 =>
      if n > remLen ∨ remLen - n ≠ bs then none else
      match getIn? io (mid + n) bs with
      | none => none
      | some block2 =>
        let block2 := C.dec block2
        match slice? block2 n block2.length with
        | none => none
        | some b2t =>
          match blockSet? block1 n block1.length b2t with
          | none => none
          | some block1 =>
            let block1 := C.dec block1
            match setOut? io mid bs block1 with
            | none => none
            | some io =>
              match slice? block2 0 n with
              | none => none
              | some b2h => setOut? io (mid + bs) (remLen - bs) b2h

/-- ecb_cs1.rs, decrypt closure -/
def ecbCs1Dec (C : Cipher) (w : Nat) (io : IOBuf) : Option IOBuf :=
  let bs := C.bs
  let k := io.len / bs
  let tl := io.len % bs
  match (if tl ≠ 0 then sub? k 1 else some k) with
  | none => none
  | some nb =>
    match memEcb C.dec w bs nb 0 io with
    | none => none
    | some io =>
      if tl = 0 then some io
      else
        match sub? io.len (bs + tl) with
        | none => none
        | some mid => ecbCs1DecRem C io mid

/-- the stealing / un-stealing step shared by ecb_cs2.rs and ecb_cs3.rs (both directions, `f` = E or D).
    `early = false`: encrypt order (`E(block)`, then `tail.get_out() = last[..n]`, `*last = block`);
    `early = true` : decrypt order (`tail.get_out() = last[..n]`, then `D(block)`, `*last = block`). -/
def ecbStealMem (f : Bytes → Bytes) (io : IOBuf) (bs k tl : Nat) : Option IOBuf :=
  match sub? k 1 with
  | none => none
  | some j =>
    match getOut? io (j * bs) bs with
    | none => none
    | some lastBlock =>
      match padFromTail io bs k tl with
      | none => none
      | some block =>
        match slice? lastBlock tl lastBlock.length with
        | none => none
        | some lt =>
          match blockSet? block tl block.length lt with
          | none => none
          | some block =>
            let block := f block
            match slice? lastBlock 0 tl with
            | none => none
            | some lh =>
              match setOut? io (k * bs) tl lh with           -- tail.get_out().copy_from_slice(&last_block[..n])
              | none => none
              | some io => setOut? io (j * bs) bs block      -- *last_block = block

/-- ecb_cs2.rs, both closures (`f` = E for encrypt, D for decrypt) -/
def ecbCs2 (f : Bytes → Bytes) (w bs : Nat) (io : IOBuf) : Option IOBuf :=
  let k := io.len / bs
  let tl := io.len % bs
  match memEcb f w bs k 0 io with
  | none => none
  | some io => if tl = 0 then some io else ecbStealMem f io bs k tl

/-- ecb_cs3.rs, both closures (current code) -/
def ecbCs3 (f : Bytes → Bytes) (w bs : Nat) (io : IOBuf) : Option IOBuf :=
  let k := io.len / bs
  let tl := io.len % bs
  match memEcb f w bs k 0 io with
  | none => none
  | some io =>
    if tl = 0 then (if k > 1 then swapLast2Mem io bs k else some io)
    else ecbStealMem f io bs k tl

/-! ### the public entry points: length gate, `InOutBuf::new` -/

inductive Outcome
  | ok (out : Bytes)            -- `Ok(())`, output buffer contents
  | err (out : Bytes)           -- `Err(Error)`, output buffer contents (must be unchanged)
  | panic
deriving DecidableEq, Repr

/-- `encrypt_inout` / `decrypt_inout`: `if buf.len() < bs { return Err(Error) }` then the closure -/
def gatedIO (bs : Nat) (f : IOBuf → Option IOBuf) (io : IOBuf) : Outcome :=
  if io.len < bs then .err io.out
  else match f io with
    | some io' => .ok io'.out
    | none => .panic

/-- `encrypt(&mut buf)` -/
def inplaceCall (bs : Nat) (f : IOBuf → Option IOBuf) (buf : Bytes) : Outcome := gatedIO bs f (IOBuf.inplace buf)

/-- `encrypt_b2b(in, out)`: `InOutBuf::new(in, out).map_err(|_| Error).and_then(..)` -/
def b2bCall (bs : Nat) (f : IOBuf → Option IOBuf) (inp out : Bytes) : Outcome :=
  if inp.length ≠ out.length then .err out else gatedIO bs f (IOBuf.b2b inp out)

/-- the twelve closures -/
inductive Op | cbc1e | cbc1d | cbc2e | cbc2d | cbc3e | cbc3d | ecb1e | ecb1d | ecb2e | ecb2d | ecb3e | ecb3d
deriving DecidableEq, Repr

/-- memory-level closure of each operation -/
def Op.mem (o : Op) (C : Cipher) (w : Nat) (iv : Bytes) : IOBuf → Option IOBuf :=
  match o with
  | .cbc1e => MemCts.cbcCs1Enc C w iv | .cbc1d => MemCts.cbcCs1Dec C w iv
  | .cbc2e => MemCts.cbcCs2Enc C w iv | .cbc2d => MemCts.cbcCs2Dec C w iv
  | .cbc3e => MemCts.cbcCs3Enc C w iv | .cbc3d => MemCts.cbcCs3Dec C w iv
  | .ecb1e => MemCts.ecbCs1Enc C w    | .ecb1d => MemCts.ecbCs1Dec C w
  | .ecb2e => MemCts.ecbCs2 C.enc w C.bs | .ecb2d => MemCts.ecbCs2 C.dec w C.bs
  | .ecb3e => MemCts.ecbCs3 C.enc w C.bs | .ecb3d => MemCts.ecbCs3 C.dec w C.bs

/-- value-level mirror of each operation (what C01/C05/C14 are about) -/
def Op.val (o : Op) (C : Cipher) (w : Nat) (iv : Bytes) : Bytes → Bytes :=
  match o with
  | .cbc1e => Cts.cbcCs1Enc C w iv | .cbc1d => Cts.cbcCs1Dec C w iv
  | .cbc2e => Cts.cbcCs2Enc C w iv | .cbc2d => Cts.cbcCs2Dec C w iv
  | .cbc3e => Cts.cbcCs3Enc false C w iv | .cbc3d => Cts.cbcCs3Dec false C w iv
  | .ecb1e => Cts.ecbCs1Enc C w | .ecb1d => Cts.ecbCs1Dec C w
  | .ecb2e => Cts.ecbCs2Enc C w | .ecb2d => Cts.ecbCs2Dec C w
  | .ecb3e => Cts.ecbCs3Enc false C w | .ecb3d => Cts.ecbCs3Dec false C w

end Impl.MemCts
