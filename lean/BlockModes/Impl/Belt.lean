import BlockModes.Spec.Stream
import BlockModes.Glue.Wrapper
/-
  Impl/Belt.lean — mirror of belt-ctr/src/lib.rs (`BeltCtrCore`: `s`, `s_init` as u128) and of
  `ofb::OfbCore` as a `StreamCipherCore`.
-/
namespace Impl.Belt

structure St where
  s     : Nat
  sInit : Nat
deriving DecidableEq, Repr

def M : Nat := 2 ^ 128

/-- `inner_iv_init`: t = E(iv); s = u128::from_le_bytes(t); s_init = s -/
def init (C : Cipher) (iv : Bytes) : St :=
  let t := C.enc iv
  let s := fromLE t
  { s := s, sInit := s }

/-- `iv_state`: t = s.to_le_bytes(); D(t) -/
def ivState (C : Cipher) (st : St) : Bytes := C.dec (toLE 16 st.s)

/-- `remaining_blocks`: used = s.wrapping_sub(s_init); (MAX - used).try_into::<usize>().ok() -/
def remaining (st : St) : Option Nat :=
  let used := (st.s + M - st.sInit) % M
  let v := M - 1 - used
  if v < 2 ^ 64 then some v else none

/-- `gen_ks_block`: s = s.wrapping_add(1); tmp = s.to_le_bytes(); E(tmp → block) -/
def genKsBlock (C : Cipher) (st : St) : Bytes × St :=
  let s := (st.s + 1) % M
  (C.enc (toLE 16 s), { st with s := s })

/-- the counter loop of `gen_par_ks_blocks` -/
def parCtrs : Nat → Nat → List Bytes × Nat
  | 0, s => ([], s)
  | n + 1, s =>
    let s := (s + 1) % M
    let r := parCtrs n s
    (toLE 16 s :: r.1, r.2)

/-- `gen_par_ks_blocks`: s = *self.s; for block in tmp { s += 1; block = s.to_le_bytes() }; *self.s = s; E∥ -/
def genParKsBlocks (C : Cipher) (n : Nat) (st : St) : List Bytes × St :=
  let r := parCtrs n st.s
  (r.1.map C.enc, { st with s := r.2 })

def core (C : Cipher) : Glue.Core St where
  bs := C.bs
  parW := fun w => w
  cw := 128
  remaining := remaining
  genBlock := genKsBlock C
  genPar := genParKsBlocks C
  getPos := fun st => (st.s + M - st.sInit) % M                -- s.wrapping_sub(s_init)
  setPos := fun st p => { st with s := (st.sInit + p) % M }    -- s_init.wrapping_add(pos)

end Impl.Belt

namespace Impl.OfbCore
/-- `gen_ks_block` of `ofb::Backend`: E(iv) in place; block = iv -/
def genKsBlock (C : Cipher) (iv : Bytes) : Bytes × Bytes :=
  let iv := C.enc iv
  (iv, iv)

/-- the default `gen_par_ks_blocks` (never reached: `ParBlocksSize = U1`) -/
def genSeqDefault (C : Cipher) : Nat → Bytes → List Bytes × Bytes
  | 0, iv => ([], iv)
  | n + 1, iv =>
    let r := genKsBlock C iv
    let r2 := genSeqDefault C n r.2
    (r.1 :: r2.1, r2.2)

/-- `OfbCore` as `StreamCipherCore`: `remaining_blocks = None`, `ParBlocksSize = U1`, not seekable. -/
def core (C : Cipher) : Glue.Core Bytes where
  bs := C.bs
  parW := fun _ => 1
  cw := 0
  remaining := fun _ => none
  genBlock := genKsBlock C
  genPar := genSeqDefault C
  getPos := fun _ => 0
  setPos := fun s _ => s
end Impl.OfbCore
