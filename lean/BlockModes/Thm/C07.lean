import BlockModes.Thm.C02
import BlockModes.Thm.C03
import BlockModes.Thm.C04
import BlockModes.Thm.C06
import BlockModes.Impl.Cts
/-
  C07 — output and final chaining state are independent of block batching and of the backend's width.

  One generic statement (`mixed_indep`): two call sequences — each call through the single-block or the
  many-block entry point, each many-block call driven through `BlocksCtx` with its own backend width,
  including groups that are not a multiple of the width — that feed the same blocks give the same
  outputs and the same final state.  It is instantiated for all twelve block-mode directions, for the
  keystream cores (CTR ×6, BelT, OFB) and for the private ECB/CBC helpers of `cts`.
-/
namespace Thm.C07
open Impl Glue

theorem mixed_indep {σ : Type} (step : σ → Bytes → Bytes × σ)
    (bf₁ bf₂ : σ → List Bytes → List Bytes × σ)
    (h₁ : ∀ s l, bf₁ s l = foldBlocks step s l) (h₂ : ∀ s l, bf₂ s l = foldBlocks step s l)
    (s : σ) (c₁ c₂ : List Call) (h : (c₁.map Call.blocks).flatten = (c₂.map Call.blocks).flatten) :
    runMixed step bf₁ s c₁ = runMixed step bf₂ s c₂ := by
  rw [runMixed_fold step bf₁ h₁, runMixed_fold step bf₂ h₂, h]

/-- and both equal feeding the blocks one at a time. -/
theorem mixed_eq_one_at_a_time {σ : Type} (step : σ → Bytes → Bytes × σ)
    (bf : σ → List Bytes → List Bytes × σ) (h : ∀ s l, bf s l = foldBlocks step s l)
    (s : σ) (c : List Call) :
    runMixed step bf s c = foldBlocks step s (c.map Call.blocks).flatten := runMixed_fold step bf h c s

section BlockModes
variable (C : Cipher) (w₁ w₂ : Nat) (c₁ c₂ : List Call)
  (h : (c₁.map Call.blocks).flatten = (c₂.map Call.blocks).flatten)
include h

theorem cbc_enc (iv : Bytes) : runMixed (Cbc.encBlock C) (Cbc.encBlocks C w₁) iv c₁
    = runMixed (Cbc.encBlock C) (Cbc.encBlocks C w₂) iv c₂ :=
  mixed_indep _ _ _ (fun _ _ => blocksCtx_one _ _ _ _) (fun _ _ => blocksCtx_one _ _ _ _) iv c₁ c₂ h

/-- hand-written parallel body -/
theorem cbc_dec (iv : Bytes) : runMixed (Cbc.decBlock C) (Cbc.decBlocks C w₁) iv c₁
    = runMixed (Cbc.decBlock C) (Cbc.decBlocks C w₂) iv c₂ :=
  mixed_indep _ _ _
    (fun _ _ => blocksCtx_eq_fold w₁ _ _ (fun s ch _ => C02.cbc_decPar_eq_fold C ch s) _ _)
    (fun _ _ => blocksCtx_eq_fold w₂ _ _ (fun s ch _ => C02.cbc_decPar_eq_fold C ch s) _ _) iv c₁ c₂ h

theorem pcbc_enc (iv : Bytes) : runMixed (Pcbc.encBlock C) (Pcbc.encBlocks C w₁) iv c₁
    = runMixed (Pcbc.encBlock C) (Pcbc.encBlocks C w₂) iv c₂ :=
  mixed_indep _ _ _ (fun _ _ => blocksCtx_one _ _ _ _) (fun _ _ => blocksCtx_one _ _ _ _) iv c₁ c₂ h

theorem pcbc_dec (iv : Bytes) : runMixed (Pcbc.decBlock C) (Pcbc.decBlocks C w₁) iv c₁
    = runMixed (Pcbc.decBlock C) (Pcbc.decBlocks C w₂) iv c₂ :=
  mixed_indep _ _ _ (fun _ _ => blocksCtx_one _ _ _ _) (fun _ _ => blocksCtx_one _ _ _ _) iv c₁ c₂ h

theorem ige_enc (s : Ige.St) : runMixed (Ige.encBlock C) (Ige.encBlocks C w₁) s c₁
    = runMixed (Ige.encBlock C) (Ige.encBlocks C w₂) s c₂ :=
  mixed_indep _ _ _ (fun _ _ => blocksCtx_one _ _ _ _) (fun _ _ => blocksCtx_one _ _ _ _) s c₁ c₂ h

theorem ige_dec (s : Ige.St) : runMixed (Ige.decBlock C) (Ige.decBlocks C w₁) s c₁
    = runMixed (Ige.decBlock C) (Ige.decBlocks C w₂) s c₂ :=
  mixed_indep _ _ _ (fun _ _ => blocksCtx_one _ _ _ _) (fun _ _ => blocksCtx_one _ _ _ _) s c₁ c₂ h

theorem cfb_enc (iv : Bytes) : runMixed (Cfb.encBlock C) (Cfb.encBlocks C w₁) iv c₁
    = runMixed (Cfb.encBlock C) (Cfb.encBlocks C w₂) iv c₂ :=
  mixed_indep _ _ _ (fun _ _ => blocksCtx_one _ _ _ _) (fun _ _ => blocksCtx_one _ _ _ _) iv c₁ c₂ h

/-- hand-written parallel body -/
theorem cfb_dec (iv : Bytes) : runMixed (Cfb.decBlock C) (Cfb.decBlocks C w₁) iv c₁
    = runMixed (Cfb.decBlock C) (Cfb.decBlocks C w₂) iv c₂ :=
  mixed_indep _ _ _
    (fun _ _ => blocksCtx_eq_fold w₁ _ _ (fun s ch _ => C03.cfb_decPar_eq_fold C ch s) _ _)
    (fun _ _ => blocksCtx_eq_fold w₂ _ _ (fun s ch _ => C03.cfb_decPar_eq_fold C ch s) _ _) iv c₁ c₂ h

theorem cfb8_enc (iv : Bytes) : runMixed (Cfb8.encBlock C) (Cfb8.encBlocks C w₁) iv c₁
    = runMixed (Cfb8.encBlock C) (Cfb8.encBlocks C w₂) iv c₂ :=
  mixed_indep _ _ _ (fun _ _ => blocksCtx_one _ _ _ _) (fun _ _ => blocksCtx_one _ _ _ _) iv c₁ c₂ h

theorem cfb8_dec (iv : Bytes) : runMixed (Cfb8.decBlock C) (Cfb8.decBlocks C w₁) iv c₁
    = runMixed (Cfb8.decBlock C) (Cfb8.decBlocks C w₂) iv c₂ :=
  mixed_indep _ _ _ (fun _ _ => blocksCtx_one _ _ _ _) (fun _ _ => blocksCtx_one _ _ _ _) iv c₁ c₂ h

theorem ofb_enc (iv : Bytes) : runMixed (Ofb.encBlock C) (Ofb.encBlocks C w₁) iv c₁
    = runMixed (Ofb.encBlock C) (Ofb.encBlocks C w₂) iv c₂ :=
  mixed_indep _ _ _ (fun _ _ => blocksCtx_one _ _ _ _) (fun _ _ => blocksCtx_one _ _ _ _) iv c₁ c₂ h

theorem ofb_dec (iv : Bytes) : runMixed (Ofb.decBlock C) (Ofb.decBlocks C w₁) iv c₁
    = runMixed (Ofb.decBlock C) (Ofb.decBlocks C w₂) iv c₂ :=
  mixed_indep _ _ _ (fun _ _ => blocksCtx_one _ _ _ _) (fun _ _ => blocksCtx_one _ _ _ _) iv c₁ c₂ h

end BlockModes

/-! ### keystream cores: `apply_keystream_blocks` / `write_keystream_blocks` -/

/-- calls of `apply_keystream_blocks` on parts, state threaded through. -/
def runApply {σ : Type} (K : Core σ) (w : Nat) : σ → List (List Bytes) → List Bytes × σ
  | s, [] => ([], s)
  | s, p :: ps =>
    let r := applyBlocks K w s p
    let r2 := runApply K w r.2 ps
    (r.1 ++ r2.1, r2.2)

theorem applySeq_append {σ : Type} (K : Core σ) (a b : List Bytes) (s : σ) :
    (List.zipWith xorB (a ++ b) (genSeq K (a ++ b).length s).1, (genSeq K (a ++ b).length s).2)
      = (List.zipWith xorB a (genSeq K a.length s).1 ++
          List.zipWith xorB b (genSeq K b.length (genSeq K a.length s).2).1,
         (genSeq K b.length (genSeq K a.length s).2).2) := by
  rw [List.length_append, genSeq_add]
  simp only [Prod.mk.injEq, and_true]
  rw [List.zipWith_append (by simp [genSeq_length])]

theorem runApply_eq {σ : Type} (K : Core σ) (w : Nat)
    (hpar : ∀ pw s, 1 < pw → K.genPar pw s = genSeq K pw s) (parts : List (List Bytes)) (s : σ) :
    runApply K w s parts
      = (List.zipWith xorB parts.flatten (genSeq K parts.flatten.length s).1,
         (genSeq K parts.flatten.length s).2) := by
  induction parts generalizing s with
  | nil => simp [runApply, genSeq]
  | cons p ps ih =>
    simp only [runApply, applyBlocks, genBlocks_eq_seq K w hpar, ih, List.flatten_cons]
    exact (applySeq_append K p ps.flatten s).symm

/-- **CTR cores**: any split into calls, any two backend widths. -/
theorem ctr_core (C : Cipher) (f : Spec.Flavor) (w₁ w₂ : Nat) (p₁ p₂ : List (List Bytes))
    (h : p₁.flatten = p₂.flatten) (cn : Ctr.St) :
    runApply (Ctr.core C f) w₁ cn p₁ = runApply (Ctr.core C f) w₂ cn p₂ := by
  rw [runApply_eq _ _ (fun pw s _ => Ctr.genPar_eq_seq C f pw s),
      runApply_eq _ _ (fun pw s _ => Ctr.genPar_eq_seq C f pw s), h]

/-- **BelT-CTR core**. -/
theorem belt_core (C : Cipher) (w₁ w₂ : Nat) (p₁ p₂ : List (List Bytes))
    (h : p₁.flatten = p₂.flatten) (st : Belt.St) :
    runApply (Belt.core C) w₁ st p₁ = runApply (Belt.core C) w₂ st p₂ := by
  rw [runApply_eq _ _ (fun pw s _ => Belt.genPar_eq_seq C pw s),
      runApply_eq _ _ (fun pw s _ => Belt.genPar_eq_seq C pw s), h]

/-- **OFB core** (`ParBlocksSize = U1`). -/
theorem ofb_core (C : Cipher) (w₁ w₂ : Nat) (p₁ p₂ : List (List Bytes))
    (h : p₁.flatten = p₂.flatten) (iv : Bytes) :
    runApply (OfbCore.core C) w₁ iv p₁ = runApply (OfbCore.core C) w₂ iv p₂ := by
  have hp : ∀ pw s, 1 < pw → (OfbCore.core C).genPar pw s = genSeq (OfbCore.core C) pw s :=
    fun pw s _ => OfbCore.genPar_eq_seq C pw s
  rw [runApply_eq _ _ hp, runApply_eq _ _ hp, h]

/-! ### `cts` private helpers (`cts/src/lib.rs`) -/

theorem cts_ecb_width_independent (C : Cipher) (w₁ w₂ : Nat) (blocks : List Bytes) :
    Cts.ecbEnc C w₁ blocks = Cts.ecbEnc C w₂ blocks ∧ Cts.ecbDec C w₁ blocks = Cts.ecbDec C w₂ blocks := by
  have he : ∀ w, Cts.ecbEnc C w blocks = blocks.map C.enc := by
    intro w
    unfold Cts.ecbEnc
    rw [blocksCtx_eq_fold _ _ _ (fun s ch _ => by cases s; rw [foldBlocks_unit_map]), foldBlocks_unit_map]
  have hd : ∀ w, Cts.ecbDec C w blocks = blocks.map C.dec := by
    intro w
    unfold Cts.ecbDec
    rw [blocksCtx_eq_fold _ _ _ (fun s ch _ => by cases s; rw [foldBlocks_unit_map]), foldBlocks_unit_map]
  exact ⟨by rw [he, he], by rw [hd, hd]⟩

theorem cts_cbcDec_width_independent (C : Cipher) (w₁ w₂ : Nat) (iv : Bytes) (blocks : List Bytes) :
    Cts.cbcDec C w₁ iv blocks = Cts.cbcDec C w₂ iv blocks := by
  have hpar : ∀ s ch, Cts.cbcDecPar C s ch = foldBlocks (Cts.cbcDecBlock C) s ch := fun s ch =>
    C02.cbc_decPar_eq_fold C ch s
  unfold Cts.cbcDec
  rw [blocksCtx_eq_fold w₁ _ _ (fun s ch _ => hpar s ch), blocksCtx_eq_fold w₂ _ _ (fun s ch _ => hpar s ch)]

/-- **the twelve one-shot CTS calls are independent of the backend's width**, on every buffer (no hypothesis on the
    cipher, the length or the contents — in particular on long messages whose main part spans several parallel
    chunks plus a tail): the width enters only through `ecb_enc`/`ecb_dec`/`cbc_dec`. -/
theorem cts_calls_width_independent (C : Cipher) (w₁ w₂ : Nat) (iv buf : Bytes) :
    Cts.cbcCs1Enc C w₁ iv buf = Cts.cbcCs1Enc C w₂ iv buf ∧ Cts.cbcCs1Dec C w₁ iv buf = Cts.cbcCs1Dec C w₂ iv buf ∧
    Cts.cbcCs2Enc C w₁ iv buf = Cts.cbcCs2Enc C w₂ iv buf ∧ Cts.cbcCs2Dec C w₁ iv buf = Cts.cbcCs2Dec C w₂ iv buf ∧
    Cts.cbcCs3Enc false C w₁ iv buf = Cts.cbcCs3Enc false C w₂ iv buf ∧
    Cts.cbcCs3Dec false C w₁ iv buf = Cts.cbcCs3Dec false C w₂ iv buf ∧
    Cts.ecbCs1Enc C w₁ buf = Cts.ecbCs1Enc C w₂ buf ∧ Cts.ecbCs1Dec C w₁ buf = Cts.ecbCs1Dec C w₂ buf ∧
    Cts.ecbCs2Enc C w₁ buf = Cts.ecbCs2Enc C w₂ buf ∧ Cts.ecbCs2Dec C w₁ buf = Cts.ecbCs2Dec C w₂ buf ∧
    Cts.ecbCs3Enc false C w₁ buf = Cts.ecbCs3Enc false C w₂ buf ∧
    Cts.ecbCs3Dec false C w₁ buf = Cts.ecbCs3Dec false C w₂ buf := by
  have hd : ∀ iv' blocks, Cts.cbcDec C w₁ iv' blocks = Cts.cbcDec C w₂ iv' blocks :=
    fun iv' blocks => cts_cbcDec_width_independent C w₁ w₂ iv' blocks
  have he : ∀ blocks, Cts.ecbEnc C w₁ blocks = Cts.ecbEnc C w₂ blocks :=
    fun blocks => (cts_ecb_width_independent C w₁ w₂ blocks).1
  have hdd : ∀ blocks, Cts.ecbDec C w₁ blocks = Cts.ecbDec C w₂ blocks :=
    fun blocks => (cts_ecb_width_independent C w₁ w₂ blocks).2
  refine ⟨rfl, ?_, rfl, ?_, rfl, ?_, ?_, ?_, ?_, ?_, ?_, ?_⟩
  · simp only [Cts.cbcCs1Dec, hd]
  · simp only [Cts.cbcCs2Dec, hd]
  · simp only [Cts.cbcCs3Dec, hd]
  · simp only [Cts.ecbCs1Enc, he]
  · simp only [Cts.ecbCs1Dec, hdd]
  · simp only [Cts.ecbCs2Enc, he]
  · simp only [Cts.ecbCs2Dec, hdd]
  · simp only [Cts.ecbCs3Enc, he]
  · simp only [Cts.ecbCs3Dec, hdd]

/-! ### any sequence of backend entry points (caller-written closures for `*_with_backend`)

  A user of `BlockModeEncrypt::encrypt_with_backend` / `BlockModeDecrypt::decrypt_with_backend` (and of
  `StreamCipherCore::process_with_backend`) may call the backend's entry points in any order: `*_block[_inplace]` on one
  block, `*_par_blocks[_inplace]` on exactly `ParBlocksSize` blocks, `*_tail_blocks[_inplace]` on fewer (whose default
  body is the single-block one per block).  Whatever the order, the result is that of one block at a time. -/

/-- one call of a backend entry point -/
inductive Entry
  | block (b : Bytes)                -- `*_block`, `*_block_inplace`
  | par (chunk : List Bytes)         -- `*_par_blocks`, `*_par_blocks_inplace`: exactly `ParBlocksSize` blocks
  | tail (blocks : List Bytes)       -- `*_tail_blocks`, `*_tail_blocks_inplace`: fewer than `ParBlocksSize` blocks

def Entry.blocks : Entry → List Bytes
  | .block b => [b]
  | .par ch => ch
  | .tail l => l

/-- a caller-written closure: the entry points it calls, in order, state threaded through -/
def runEntries {σ : Type} (step : σ → Bytes → Bytes × σ) (par : σ → List Bytes → List Bytes × σ) :
    σ → List Entry → List Bytes × σ
  | s, [] => ([], s)
  | s, e :: es =>
    let r := match e with
      | .block b => let q := step s b; ([q.1], q.2)
      | .par ch => par s ch
      | .tail l => foldBlocks step s l
    let r2 := runEntries step par r.2 es
    (r.1 ++ r2.1, r2.2)

theorem entries_eq_one_at_a_time {σ : Type} (w : Nat) (step : σ → Bytes → Bytes × σ)
    (par : σ → List Bytes → List Bytes × σ)
    (hpar : ∀ s chunk, chunk.length = w → par s chunk = foldBlocks step s chunk) :
    ∀ (es : List Entry) (s : σ), (∀ e ∈ es, ∀ ch, e = .par ch → ch.length = w) →
      runEntries step par s es = foldBlocks step s (es.map Entry.blocks).flatten := by
  intro es
  induction es with
  | nil => intro s _; rfl
  | cons e es ih =>
    intro s hw
    have ih' := fun s' => ih s' (fun e' he' => hw e' (by simp [he']))
    simp only [runEntries, List.map_cons, List.flatten_cons, foldBlocks_append]
    cases e with
    | block b => simp only [Entry.blocks, foldBlocks, ih']
    | par ch => simp only [Entry.blocks, hpar s ch (hw _ (by simp) ch rfl), ih']
    | tail l => simp only [Entry.blocks, ih']

/-- instances: the two hand-written parallel bodies of the block modes (all other block-mode backends declare
    `ParBlocksSize = U1`, so their `par` is the default one-block loop). -/
theorem cbc_dec_entries (C : Cipher) (w : Nat) (es : List Entry) (iv : Bytes)
    (hw : ∀ e ∈ es, ∀ ch, e = .par ch → ch.length = w) :
    runEntries (Cbc.decBlock C) (Cbc.decPar C) iv es = foldBlocks (Cbc.decBlock C) iv (es.map Entry.blocks).flatten :=
  entries_eq_one_at_a_time w _ _ (fun s ch _ => C02.cbc_decPar_eq_fold C ch s) es iv hw

theorem cfb_dec_entries (C : Cipher) (w : Nat) (es : List Entry) (iv : Bytes)
    (hw : ∀ e ∈ es, ∀ ch, e = .par ch → ch.length = w) :
    runEntries (Cfb.decBlock C) (Cfb.decPar C) iv es = foldBlocks (Cfb.decBlock C) iv (es.map Entry.blocks).flatten :=
  entries_eq_one_at_a_time w _ _ (fun s ch _ => C03.cfb_decPar_eq_fold C ch s) es iv hw

/-- the same for keystream cores: a caller-written closure for `StreamCipherCore::process_with_backend` may call
    `gen_ks_block`, `gen_par_ks_blocks` (exactly `ParBlocksSize` blocks) and `gen_tail_blocks` (default body: one
    `gen_ks_block` per block) in any order — e.g. a batch, a single block, another batch. -/
inductive KsEntry
  | one                  -- `gen_ks_block`
  | par                  -- `gen_par_ks_blocks`
  | tail (n : Nat)       -- `gen_tail_blocks` on `n` blocks

def KsEntry.count (pw : Nat) : KsEntry → Nat
  | .one => 1
  | .par => pw
  | .tail n => n

def runKs {σ : Type} (K : Core σ) (pw : Nat) : σ → List KsEntry → List Bytes × σ
  | s, [] => ([], s)
  | s, e :: es =>
    let r := match e with
      | .one => let q := K.genBlock s; ([q.1], q.2)
      | .par => K.genPar pw s
      | .tail n => genSeq K n s
    let r2 := runKs K pw r.2 es
    (r.1 ++ r2.1, r2.2)

theorem ks_entries_eq_seq {σ : Type} (K : Core σ) (pw : Nat) (hpar : ∀ s, K.genPar pw s = genSeq K pw s) :
    ∀ (es : List KsEntry) (s : σ), runKs K pw s es = genSeq K ((es.map (KsEntry.count pw)).sum) s := by
  intro es
  induction es with
  | nil => intro s; rfl
  | cons e es ih =>
    intro s
    simp only [runKs, List.map_cons, List.sum_cons, genSeq_add, ih]
    cases e with
    | one => simp [KsEntry.count, genSeq]
    | par => simp only [KsEntry.count, hpar]
    | tail n => simp only [KsEntry.count]

theorem ctr_ks_entries (C : Cipher) (f : Spec.Flavor) (pw : Nat) (es : List KsEntry) (s : Ctr.St) :
    runKs (Ctr.core C f) pw s es = genSeq (Ctr.core C f) ((es.map (KsEntry.count pw)).sum) s :=
  ks_entries_eq_seq _ pw (fun s => Ctr.genPar_eq_seq C f pw s) es s

theorem belt_ks_entries (C : Cipher) (pw : Nat) (es : List KsEntry) (s : Belt.St) :
    runKs (Belt.core C) pw s es = genSeq (Belt.core C) ((es.map (KsEntry.count pw)).sum) s :=
  ks_entries_eq_seq _ pw (fun s => Belt.genPar_eq_seq C pw s) es s

/-! ### non-vacuity: 5 blocks as (2 + 3) under w = 2 versus (1 + 4) under w = 3 feed the same blocks -/
example : ([Call.many [[1], [2]], .many [[3], [4], [5]]].map Call.blocks).flatten
    = ([Call.one [1], .many [[2], [3], [4], [5]]].map Call.blocks).flatten := by decide

end Thm.C07
