import BlockModes.Spec.Block
import BlockModes.Impl.Block
import BlockModes.Glue.Async
import BlockModes.Lemmas.BlocksCtx
import BlockModes.Lemmas.SpecBlock
import BlockModes.Toy
/-
  C03 — CFB, CFB-8 and OFB compute exactly their defining recurrences.

  Block-level part (this file): for every cipher, width and call sequence the block-level
  encryptor/decryptor mirrors equal the recurrences, with the abstraction "implementation state `iv`
  = E(previous ciphertext block)" for CFB; the hand-written parallel CFB decryptor body agrees with the
  sequential one; CFB-8 is the shift-register recurrence for every block size ≥ 1; OFB is keystream XOR in
  both directions.  None of `Impl.Cfb.{encBlock,decBlock,decPar}`, `Impl.Cfb8.*`, `Impl.Ofb.*` mentions
  `Cipher.dec`: the data paths use only the encryption direction.
  The buffered byte-stream front-end is in `Thm/C08.lean` (`cfbbuf_*`).
-/
namespace Thm.C03
open Impl Glue

/-! ### CFB, full blocks -/

theorem cfb_enc_fold (C : Cipher) (blocks : List Bytes) (ch : Bytes) :
    foldBlocks (Cfb.encBlock C) (C.enc ch) blocks
      = ((Spec.cfbEnc C ch blocks).1, C.enc (Spec.cfbEnc C ch blocks).2) := by
  induction blocks generalizing ch with
  | nil => rfl
  | cons b bs ih => simp [foldBlocks, Spec.cfbEnc, Cfb.encBlock, ih]

theorem cfb_dec_fold (C : Cipher) (blocks : List Bytes) (ch : Bytes) :
    foldBlocks (Cfb.decBlock C) (C.enc ch) blocks
      = ((Spec.cfbDec C ch blocks).1, C.enc (Spec.cfbDec C ch blocks).2) := by
  induction blocks generalizing ch with
  | nil => rfl
  | cons b bs ih => simp [foldBlocks, Spec.cfbDec, Cfb.decBlock, ih]

/-- the hand-written parallel body of `cfb_mode::Decryptor` agrees with the sequential one. -/
theorem cfb_decPar_eq_fold (C : Cipher) (chunk : List Bytes) (iv : Bytes) :
    Cfb.decPar C iv chunk = foldBlocks (Cfb.decBlock C) iv chunk := by
  induction chunk generalizing iv with
  | nil => simp [Cfb.decPar, foldBlocks]
  | cons c cs ih =>
    have h := ih (C.enc c)
    simp only [Cfb.decPar] at h ⊢
    cases cs with
    | nil => simp [foldBlocks, Cfb.decBlock]
    | cons d ds =>
      simp only [foldBlocks, Cfb.decBlock] at h ⊢
      simp only [List.map_cons, List.dropLast_cons_cons, List.zipWith_cons_cons, Prod.mk.injEq] at h ⊢
      obtain ⟨h1, h2⟩ := h
      refine ⟨?_, ?_⟩
      · simp [h1]
      · simpa [List.getLastD] using h2

theorem cfb_encBlocks_eq (C : Cipher) (w : Nat) (ch : Bytes) (blocks : List Bytes) :
    Cfb.encBlocks C w (C.enc ch) blocks = ((Spec.cfbEnc C ch blocks).1, C.enc (Spec.cfbEnc C ch blocks).2) := by
  rw [Cfb.encBlocks, blocksCtx_one, cfb_enc_fold]

theorem cfb_decBlocks_eq (C : Cipher) (w : Nat) (ch : Bytes) (blocks : List Bytes) :
    Cfb.decBlocks C w (C.enc ch) blocks = ((Spec.cfbDec C ch blocks).1, C.enc (Spec.cfbDec C ch blocks).2) := by
  rw [Cfb.decBlocks, blocksCtx_eq_fold w _ _ (fun s ch _ => cfb_decPar_eq_fold C ch s), cfb_dec_fold]

/-- **CFB encryption**, any call sequence, any width: outputs are the recurrence, and the internal state
    is `E` of the public chaining value. -/
theorem cfb_enc_refines (C : Cipher) (w : Nat) (iv : Bytes) (calls : List Call) :
    runMixed (Cfb.encBlock C) (Cfb.encBlocks C w) (Cfb.init C iv) calls
      = ((Spec.cfbEnc C iv (calls.map Call.blocks).flatten).1,
         C.enc (Spec.cfbEnc C iv (calls.map Call.blocks).flatten).2) := by
  rw [runMixed_fold _ _ (fun s l => by rw [Cfb.encBlocks, blocksCtx_one])]
  exact cfb_enc_fold C _ iv

theorem cfb_dec_refines (C : Cipher) (w : Nat) (iv : Bytes) (calls : List Call) :
    runMixed (Cfb.decBlock C) (Cfb.decBlocks C w) (Cfb.init C iv) calls
      = ((Spec.cfbDec C iv (calls.map Call.blocks).flatten).1,
         C.enc (Spec.cfbDec C iv (calls.map Call.blocks).flatten).2) := by
  rw [runMixed_fold _ _ (fun s l => by
    rw [Cfb.decBlocks, blocksCtx_eq_fold w _ _ (fun s ch _ => cfb_decPar_eq_fold C ch s)])]
  exact cfb_dec_fold C _ iv

/-- the exported IV state is the public chaining value (needs `D ∘ E = id` on blocks). -/
theorem cfb_ivState (C : Cipher) (hC : C.Valid) (ch : Bytes) (hch : ch.length = C.bs) :
    Cfb.ivState C (C.enc ch) = ch := hC.dec_enc ch hch

/-! ### one-shot CFB with a trailing partial block (`AsyncStreamCipher::{encrypt,decrypt}_inout`) -/

theorem xorB_pad_take (t k : Bytes) (n : Nat) :
    (xorB (t ++ zeros n) k).take t.length = xorB t k := by
  rw [xorB_take, List.take_left' rfl, xorB_take_right]

/-- one-shot encryption of any byte string = full-block recurrence, tail XORed with the leading bytes of
    the next keystream block. -/
theorem cfb_oneshot_enc (C : Cipher) (w : Nat) (iv m : Bytes) :
    asyncInOut C.bs (Cfb.encBlocks C w) (Cfb.encBlock C) (Cfb.init C iv) m = Spec.cfbEncBytes C iv m := by
  simp only [asyncInOut, Spec.cfbEncBytes, Cfb.init, cfb_encBlocks_eq]
  split
  · rename_i h
    simp only [Cfb.encBlock]
    rw [xorB_pad_take]
  · rename_i h
    have : chunksTail C.bs m = [] := by
      cases hc : chunksTail C.bs m with
      | nil => rfl
      | cons a b => simp [hc] at h
    simp [this]

theorem cfb_oneshot_dec (C : Cipher) (w : Nat) (iv m : Bytes) :
    asyncInOut C.bs (Cfb.decBlocks C w) (Cfb.decBlock C) (Cfb.init C iv) m = Spec.cfbDecBytes C iv m := by
  simp only [asyncInOut, Spec.cfbDecBytes, Cfb.init, cfb_decBlocks_eq]
  split
  · rename_i h
    simp only [Cfb.decBlock]
    rw [xorB_pad_take]
  · rename_i h
    have : chunksTail C.bs m = [] := by
      cases hc : chunksTail C.bs m with
      | nil => rfl
      | cons a b => simp [hc] at h
    simp [this]

/-! ### CFB-8: the mode's blocks are single bytes -/

/-- a byte string as the list of one-byte blocks the mode sees. -/
def bytesAsBlocks (m : Bytes) : List Bytes := m.map fun x => [x]

theorem cfb8_enc_fold (C : Cipher) (hC : C.Valid) (m : Bytes) (s : Bytes) (hs : s.length = C.bs) :
    foldBlocks (Cfb8.encBlock C) s (bytesAsBlocks m)
      = (bytesAsBlocks (Spec.cfb8Enc C s m).1, (Spec.cfb8Enc C s m).2) := by
  induction m generalizing s with
  | nil => rfl
  | cons p ps ih =>
    have hk : (C.enc s).length = C.bs := hC.enc_len s hs
    have hpos := hC.bs_pos
    obtain ⟨k, ks, hks⟩ : ∃ k ks, C.enc s = k :: ks := by
      cases h : C.enc s with
      | nil => rw [h] at hk; simp at hk; omega
      | cons k ks => exact ⟨k, ks, rfl⟩
    have hs' : (s.drop 1 ++ [p ^^^ k]).length = C.bs := by simp; omega
    have := ih (s.drop 1 ++ [p ^^^ k]) hs'
    simp only [bytesAsBlocks, List.map_cons, foldBlocks, Cfb8.encBlock, Cfb8.shift, hks, List.take_succ_cons,
      List.take_zero, xorB_cons, xorB_nil_left, List.headD_cons, Spec.cfb8Enc] at this ⊢
    rw [this]

theorem cfb8_dec_fold (C : Cipher) (hC : C.Valid) (m : Bytes) (s : Bytes) (hs : s.length = C.bs) :
    foldBlocks (Cfb8.decBlock C) s (bytesAsBlocks m)
      = (bytesAsBlocks (Spec.cfb8Dec C s m).1, (Spec.cfb8Dec C s m).2) := by
  induction m generalizing s with
  | nil => rfl
  | cons c cs ih =>
    have hk : (C.enc s).length = C.bs := hC.enc_len s hs
    have hpos := hC.bs_pos
    obtain ⟨k, ks, hks⟩ : ∃ k ks, C.enc s = k :: ks := by
      cases h : C.enc s with
      | nil => rw [h] at hk; simp at hk; omega
      | cons k ks => exact ⟨k, ks, rfl⟩
    have hs' : (s.drop 1 ++ [c]).length = C.bs := by simp; omega
    have := ih (s.drop 1 ++ [c]) hs'
    simp only [bytesAsBlocks, List.map_cons, foldBlocks, Cfb8.decBlock, Cfb8.shift, hks, List.take_succ_cons,
      List.take_zero, xorB_cons, xorB_nil_left, List.headD_cons, Spec.cfb8Dec] at this ⊢
    rw [this]

/-- **CFB-8**, every block size ≥ 1, any partition of the bytes into calls (each byte is one block). -/
theorem cfb8_enc_refines (C : Cipher) (hC : C.Valid) (w : Nat) (iv : Bytes) (hiv : iv.length = C.bs)
    (parts : List Bytes) :
    runCalls (Cfb8.encBlocks C w) (Cfb8.init C iv) (parts.map bytesAsBlocks)
      = (bytesAsBlocks (Spec.cfb8Enc C iv parts.flatten).1, (Spec.cfb8Enc C iv parts.flatten).2) := by
  have h1 : Cfb8.encBlocks C w = foldBlocks (Cfb8.encBlock C) := by
    funext s l; rw [Cfb8.encBlocks, blocksCtx_one]
  rw [h1, runCalls_fold]
  have : (parts.map bytesAsBlocks).flatten = bytesAsBlocks parts.flatten := by
    have hb : bytesAsBlocks = List.map (fun x => [x]) := rfl
    rw [hb, List.map_flatten]
  rw [this]
  exact cfb8_enc_fold C hC _ iv hiv

theorem cfb8_dec_refines (C : Cipher) (hC : C.Valid) (w : Nat) (iv : Bytes) (hiv : iv.length = C.bs)
    (parts : List Bytes) :
    runCalls (Cfb8.decBlocks C w) (Cfb8.init C iv) (parts.map bytesAsBlocks)
      = (bytesAsBlocks (Spec.cfb8Dec C iv parts.flatten).1, (Spec.cfb8Dec C iv parts.flatten).2) := by
  have h1 : Cfb8.decBlocks C w = foldBlocks (Cfb8.decBlock C) := by
    funext s l; rw [Cfb8.decBlocks, blocksCtx_one]
  rw [h1, runCalls_fold]
  have : (parts.map bytesAsBlocks).flatten = bytesAsBlocks parts.flatten := by
    have hb : bytesAsBlocks = List.map (fun x => [x]) := rfl
    rw [hb, List.map_flatten]
  rw [this]
  exact cfb8_dec_fold C hC _ iv hiv

/-! ### OFB -/

theorem ofb_enc_fold (C : Cipher) (blocks : List Bytes) (iv : Bytes) :
    foldBlocks (Ofb.encBlock C) iv blocks = Spec.ofb C iv blocks := by
  induction blocks generalizing iv with
  | nil => rfl
  | cons b bs ih => simp [foldBlocks, Spec.ofb, Ofb.encBlock, ih]

/-- encryption and decryption are the same function. -/
theorem ofb_enc_eq_dec (C : Cipher) : Ofb.encBlock C = Ofb.decBlock C := rfl

theorem ofb_refines (C : Cipher) (w : Nat) (iv : Bytes) (calls : List Call) :
    runMixed (Ofb.encBlock C) (Ofb.encBlocks C w) (Ofb.init C iv) calls
        = Spec.ofb C iv (calls.map Call.blocks).flatten ∧
    runMixed (Ofb.decBlock C) (Ofb.decBlocks C w) (Ofb.init C iv) calls
        = Spec.ofb C iv (calls.map Call.blocks).flatten := by
  constructor
  · rw [runMixed_fold _ _ (fun s l => by rw [Ofb.encBlocks, blocksCtx_one]), ofb_enc_fold]; rfl
  · rw [runMixed_fold _ _ (fun s l => by rw [Ofb.decBlocks, blocksCtx_one]), ← ofb_enc_eq_dec, ofb_enc_fold]; rfl

/-- the keystream core generates `O_i = E(O_{i-1})` and leaves `O_i` as the state. -/
theorem ofb_genKsBlock (C : Cipher) (iv : Bytes) : Ofb.genKsBlock C iv = (C.enc iv, C.enc iv) := rfl

/-! ### non-vacuity -/
example : (Toy.cipher [1,2,3,4,5,6,7,8,9,10,11,12,13,14,15,16] 3).Valid ∧ ([7, 7, 7] : Bytes).length = 3 :=
  ⟨Toy.valid _ 3 (by decide), rfl⟩

end Thm.C03
