import BlockModes.Thm.C14
import BlockModes.Lemmas.SpecBlock
import BlockModes.Thm.C02
import BlockModes.Thm.C03
import BlockModes.Thm.C08
import BlockModes.Thm.C09
/-
  C15 — error propagation and data dependence match each mode's definition.

  Stated on the textbook recurrences (`Spec`), which the implementation mirrors refine (C02/C03), for one
  step at the altered block `c ↦ c ⊕ δ` with everything before it equal (so the chaining state entering the
  altered block is equal) and everything after it equal:
  CBC — altered block garbled, next block flips exactly `δ`, then re-synchronised (equal state);
  CFB — altered block flips exactly `δ`, next block garbled, then re-synchronised;
  OFB/CTR/BelT — only the same bit positions flip and the keystream/state does not depend on the data;
  PCBC — every later block changes by the same `Δ = D(c⊕δ) ⊕ D(c) ⊕ δ`;
  IGE — a changed previous plaintext forces a changed next plaintext (garbling persists).
  Causality: outputs of a prefix do not depend on what follows (`*_append` lemmas).
-/
namespace Thm.C15
open Spec

/-! ### CBC -/

/-- decrypting `c ⊕ δ` then `c₂`: block `j` changes, block `j+1` flips exactly `δ`, and the chaining value
    after `j+1` is the same as without the alteration (re-synchronisation; later blocks are equal). -/
theorem cbc_error_propagation (C : Cipher) (iv c c₂ δ : Bytes) (rest : List Bytes)
    (hc2 : (C.dec c₂).length ≤ c.length) (hδ : δ.length = c.length) :
    let a := cbcDec C iv (c :: c₂ :: rest)
    let b := cbcDec C iv (xorB c δ :: c₂ :: rest)
    b.1.getD 0 [] = xorB (C.dec (xorB c δ)) iv ∧
    b.1.getD 1 [] = xorB (a.1.getD 1 []) δ ∧
    b.1.drop 2 = a.1.drop 2 ∧ b.2 = a.2 := by
  simp only [cbcDec, List.getD_cons_zero, List.getD_cons_succ, List.drop_succ_cons, List.drop_zero, and_true, true_and]
  rw [xorB_assoc]

/-- the altered block itself is garbled: for an injective `D`, `δ ≠ 0` changes `D(c ⊕ δ)`. -/
theorem cbc_altered_block_garbled (C : Cipher) (hC : C.Valid) (iv c δ : Bytes)
    (hc : c.length = C.bs) (hδ : δ.length = C.bs) (hiv : iv.length = C.bs) (hne : xorB c δ ≠ c) :
    xorB (C.dec (xorB c δ)) iv ≠ xorB (C.dec c) iv := by
  intro h
  have hl : (xorB c δ).length = C.bs := by simp [hc, hδ]
  have e := xorB_right_cancel _ _ iv (by rw [hC.dec_len _ hl, hiv]; exact Nat.le_refl _)
    (by rw [hC.dec_len _ hc, hiv]; exact Nat.le_refl _) h
  have := congrArg C.enc e
  rw [hC.enc_dec _ hl, hC.enc_dec _ hc] at this
  exact hne this

/-! ### CFB -/

theorem cfb_error_propagation (C : Cipher) (ch c c₂ δ : Bytes) (rest : List Bytes) :
    let a := cfbDec C ch (c :: c₂ :: rest)
    let b := cfbDec C ch (xorB c δ :: c₂ :: rest)
    b.1.getD 0 [] = xorB (a.1.getD 0 []) δ ∧
    b.1.getD 1 [] = xorB c₂ (C.enc (xorB c δ)) ∧
    b.1.drop 2 = a.1.drop 2 ∧ b.2 = a.2 := by
  simp only [cfbDec, List.getD_cons_zero, List.getD_cons_succ, List.drop_succ_cons, List.drop_zero, and_true, true_and]
  rw [xorB_assoc, xorB_comm δ, ← xorB_assoc]

/-! ### OFB (and every keystream mode: output = data ⊕ keystream, keystream independent of the data) -/

theorem stream_bitflip_exact (data δ ks : Bytes) :
    xorB (xorB data δ) ks = xorB (xorB data ks) δ := by
  rw [xorB_assoc, xorB_comm δ ks, ← xorB_assoc]

/-- OFB: the chaining state after processing does not depend on the data at all. -/
theorem ofb_state_data_independent (C : Cipher) (o : Bytes) (l₁ l₂ : List Bytes) (h : l₁.length = l₂.length) :
    (ofb C o l₁).2 = (ofb C o l₂).2 := by
  induction l₁ generalizing o l₂ with
  | nil => cases l₂ <;> simp_all [ofb]
  | cons x xs ih =>
    cases l₂ with
    | nil => simp at h
    | cons y ys => simp only [List.length_cons, Nat.add_right_cancel_iff] at h; simp only [ofb]; exact ih _ _ h

/-! ### PCBC: every later block changes by the same difference -/

theorem pcbc_state_delta (C : Cipher) :
    ∀ (cs : List Bytes) (s Δ : Bytes),
      (pcbcDec C (xorB s Δ) cs).1 = (pcbcDec C s cs).1.map (fun p => xorB p Δ) := by
  intro cs
  induction cs with
  | nil => intro s Δ; simp [pcbcDec]
  | cons c cs ih =>
    intro s Δ
    have hp : xorB (C.dec c) (xorB s Δ) = xorB (xorB (C.dec c) s) Δ := (xorB_assoc _ _ _).symm
    have hs' : xorB (xorB (xorB (C.dec c) s) Δ) c = xorB (xorB (xorB (C.dec c) s) c) Δ := by
      rw [xorB_assoc, xorB_comm Δ c, ← xorB_assoc]
    simp only [pcbcDec, List.map_cons, hp, hs']
    rw [ih]

theorem u8_lc (x y z : UInt8) : x ^^^ (y ^^^ z) = y ^^^ (x ^^^ z) := by
  rw [← UInt8.xor_assoc, UInt8.xor_comm x y, UInt8.xor_assoc]
theorem u8_cancel (x y : UInt8) : x ^^^ (x ^^^ y) = y := by
  rw [← UInt8.xor_assoc, UInt8.xor_self, UInt8.zero_xor]
theorem u8_alg (dcd s c d dc : UInt8) :
    (dcd ^^^ s) ^^^ (c ^^^ d) = ((dc ^^^ s) ^^^ c) ^^^ ((dcd ^^^ dc) ^^^ d) := by
  have h : ((dc ^^^ s) ^^^ c) ^^^ ((dcd ^^^ dc) ^^^ d) = dc ^^^ (dc ^^^ ((dcd ^^^ s) ^^^ (c ^^^ d))) := by
    simp only [UInt8.xor_assoc, UInt8.xor_comm, u8_lc]
  rw [h, u8_cancel]

/-- PCBC: flipping ciphertext block `c` by `δ` changes *every* later plaintext block by the same
    `Δ = D(c⊕δ) ⊕ D(c) ⊕ δ` (blocks of the cipher's size). -/
theorem pcbc_constant_delta (C : Cipher) (hC : C.Valid) (s c δ : Bytes) (cs : List Bytes)
    (hs : s.length = C.bs) (hc : c.length = C.bs) (hδ : δ.length = C.bs) :
    let Δ := xorB (xorB (C.dec (xorB c δ)) (C.dec c)) δ
    (pcbcDec C s (xorB c δ :: cs)).1 =
      xorB (C.dec (xorB c δ)) s :: (pcbcDec C s (c :: cs)).1.tail.map (fun p => xorB p Δ) := by
  intro Δ
  have hcδ : (xorB c δ).length = C.bs := by simp [hc, hδ]
  have h1 : (C.dec (xorB c δ)).length = C.bs := hC.dec_len _ hcδ
  have h2 : (C.dec c).length = C.bs := hC.dec_len _ hc
  simp only [pcbcDec, List.tail_cons]
  congr 1
  have hst : xorB (xorB (C.dec (xorB c δ)) s) (xorB c δ) = xorB (xorB (xorB (C.dec c) s) c) Δ := by
    apply List.ext_getElem
    · simp [Δ, h1, h2, hs, hc, hδ]
    · intro i hi1 hi2
      simp only [xorB, Δ, List.getElem_zipWith]
      exact u8_alg _ _ _ _ _
  rw [hst]
  exact pcbc_state_delta C cs _ Δ

/-! ### IGE: garbling persists -/

theorem ige_garble_persists (C : Cipher) (hC : C.Valid) (x x' y c : Bytes)
    (hx : x.length = C.bs) (hx' : x'.length = C.bs) (hy : y.length = C.bs) (hc : c.length = C.bs)
    (hne : x ≠ x') :
    xorB (C.dec (xorB c x)) y ≠ xorB (C.dec (xorB c x')) y := by
  intro h
  have hl1 : (xorB c x).length = C.bs := by simp [hc, hx]
  have hl2 : (xorB c x').length = C.bs := by simp [hc, hx']
  have e := xorB_right_cancel _ _ y (by rw [hC.dec_len _ hl1, hy]; exact Nat.le_refl _)
    (by rw [hC.dec_len _ hl2, hy]; exact Nat.le_refl _) h
  have e2 := congrArg C.enc e
  rw [hC.enc_dec _ hl1, hC.enc_dec _ hl2] at e2
  have e3 : xorB c (xorB c x) = xorB c (xorB c x') := by rw [e2]
  rw [xorB_cancel_left x c (by omega), xorB_cancel_left x' c (by omega)] at e3
  exact hne e3

/-! ### causality: the output for a prefix does not depend on what follows -/

theorem causal_prefix_cbc (C : Cipher) (iv : Bytes) (m ext : List Bytes) :
    (cbcDec C iv (m ++ ext)).1.take m.length = (cbcDec C iv m).1 ∧
    (cbcEnc C iv (m ++ ext)).1.take m.length = (cbcEnc C iv m).1 := by
  rw [cbcDec_append, cbcEnc_append]
  exact ⟨List.take_left' (cbcDec_length C m iv), List.take_left' (cbcEnc_length C m iv)⟩

/-! ### CFB-8: the altered byte flips the same bits, the following block-size bytes may be garbled, then the
    decryptor re-synchronises -/

theorem cfb8Dec_state_length (C : Cipher) (m s : Bytes) (hs : 1 ≤ s.length) : (cfb8Dec C s m).2.length = s.length := by
  rw [(C09.cfb8_chain_is_last_bytes C m s hs).2]; simp

/-- the feedback register after `|mid| ≥ bs` further bytes is made of those bytes only. -/
theorem cfb8Dec_state_forgets (C : Cipher) (mid s₁ s₂ : Bytes) (h1 : 1 ≤ s₁.length) (h12 : s₁.length = s₂.length)
    (hm : s₁.length ≤ mid.length) : (cfb8Dec C s₁ mid).2 = (cfb8Dec C s₂ mid).2 := by
  rw [(C09.cfb8_chain_is_last_bytes C mid s₁ h1).2, (C09.cfb8_chain_is_last_bytes C mid s₂ (by omega)).2]
  obtain ⟨k, hk⟩ : ∃ k, mid.length = s₁.length + k := ⟨mid.length - s₁.length, by omega⟩
  rw [hk, List.drop_append]
  rw [h12, List.drop_append]
  have e1 : s₁.drop (s₂.length + k) = [] := List.drop_of_length_le (by omega)
  have e2 : s₂.drop (s₂.length + k) = [] := List.drop_of_length_le (by omega)
  rw [e1, e2]

/-- **CFB-8 error propagation**: ciphertext `a ‖ x ‖ mid ‖ rest` versus `a ‖ (x ⊕ δ) ‖ mid ‖ rest` with `|mid| ≥ bs`
    (the register length): the plaintext bytes before position `|a|` are equal, byte `|a|` flips exactly `δ`, and
    everything after the `|mid|` bytes that follow is equal again (re-synchronisation) — for any register contents,
    any cipher, any block size ≥ 1. -/
theorem cfb8_error_propagation (C : Cipher) (s a mid rest : Bytes) (x δ : UInt8) (hs : 1 ≤ s.length)
    (hmid : s.length ≤ mid.length) :
    let d  := (cfb8Dec C s (a ++ x :: (mid ++ rest))).1
    let d' := (cfb8Dec C s (a ++ (x ^^^ δ) :: (mid ++ rest))).1
    d'.take a.length = d.take a.length ∧
    d'[a.length]? = (d[a.length]?).map (· ^^^ δ) ∧
    d'.drop (a.length + 1 + mid.length) = d.drop (a.length + 1 + mid.length) := by
  intro d d'
  have hal : (cfb8Dec C s a).1.length = a.length := C08.cfb8Dec_length C a s
  have hsa : (cfb8Dec C s a).2.length = s.length := cfb8Dec_state_length C a s hs
  generalize hsa' : (cfb8Dec C s a).2 = sa at *
  -- registers entering `mid`
  have hl1 : (sa.drop 1 ++ [x]).length = s.length := by simp; omega
  have hl2 : (sa.drop 1 ++ [x ^^^ δ]).length = s.length := by simp; omega
  have hforget := cfb8Dec_state_forgets C mid (sa.drop 1 ++ [x]) (sa.drop 1 ++ [x ^^^ δ]) (by omega) (by omega) (by omega)
  have hml1 : (cfb8Dec C (sa.drop 1 ++ [x]) mid).1.length = mid.length := C08.cfb8Dec_length C mid _
  have hml2 : (cfb8Dec C (sa.drop 1 ++ [x ^^^ δ]) mid).1.length = mid.length := C08.cfb8Dec_length C mid _
  have hd : d = (cfb8Dec C s a).1 ++ ((x ^^^ (C.enc sa).headD 0) ::
      ((cfb8Dec C (sa.drop 1 ++ [x]) mid).1 ++ (cfb8Dec C (cfb8Dec C (sa.drop 1 ++ [x]) mid).2 rest).1)) := by
    simp only [d, C08.cfb8Dec_append, hsa', cfb8Dec]
  have hd' : d' = (cfb8Dec C s a).1 ++ (((x ^^^ δ) ^^^ (C.enc sa).headD 0) ::
      ((cfb8Dec C (sa.drop 1 ++ [x ^^^ δ]) mid).1 ++ (cfb8Dec C (cfb8Dec C (sa.drop 1 ++ [x ^^^ δ]) mid).2 rest).1)) := by
    simp only [d', C08.cfb8Dec_append, hsa', cfb8Dec]
  refine ⟨?_, ?_, ?_⟩
  · rw [hd, hd', List.take_left' hal, List.take_left' hal]
  · rw [hd, hd', List.getElem?_append_right (by omega), List.getElem?_append_right (by omega), hal]
    simp only [Nat.sub_self, List.getElem?_cons_zero, Option.map_some]
    congr 1
    rw [UInt8.xor_assoc, UInt8.xor_comm δ, ← UInt8.xor_assoc]
  · have e : a.length + 1 + mid.length = (cfb8Dec C s a).1.length + (1 + mid.length) := by omega
    have dl : ∀ (A B : Bytes) (n : Nat), (A ++ B).drop (A.length + n) = B.drop n := by
      intro A B n; rw [← List.drop_drop, List.drop_left' rfl]
    rw [hd, hd', e, dl, dl]
    rw [show 1 + mid.length = mid.length + 1 by omega, List.drop_succ_cons, List.drop_succ_cons]
    rw [List.drop_left' hml1, List.drop_left' hml2, hforget]

/-- the same register argument for encryption-side causality: the ciphertext of a prefix does not depend on what
    follows (CFB-8, CFB, PCBC, IGE, OFB — complements `causal_prefix_cbc`). -/
theorem causal_prefix_cfb8 (C : Cipher) (s m ext : Bytes) :
    (cfb8Dec C s (m ++ ext)).1.take m.length = (cfb8Dec C s m).1 ∧
    (cfb8Enc C s (m ++ ext)).1.take m.length = (cfb8Enc C s m).1 := by
  rw [C08.cfb8Dec_append, C08.cfb8Enc_append]
  exact ⟨List.take_left' (C08.cfb8Dec_length C m s), List.take_left' (C08.cfb8Enc_length C m s)⟩

/-- **causality for every block-level mode object** (all twelve directions, the single-block bodies and hence, by
    C07, every way of calling them): the outputs for a prefix of the blocks are a prefix of the outputs for any
    extension — no output block depends on input that comes after it. -/
theorem causal_prefix_fold {σ : Type} (step : σ → Bytes → Bytes × σ) (s : σ) (m ext : List Bytes) :
    (Glue.foldBlocks step s (m ++ ext)).1.take m.length = (Glue.foldBlocks step s m).1 := by
  rw [Glue.foldBlocks_append]
  exact List.take_left' (Glue.foldBlocks_length step m s)

/-- instances named in the property: PCBC and IGE (the modes in which an error propagates forever) are causal too. -/
theorem causal_prefix_pcbc_ige (C : Cipher) (iv : Bytes) (s : Impl.Ige.St) (m ext : List Bytes) :
    (Glue.foldBlocks (Impl.Pcbc.decBlock C) iv (m ++ ext)).1.take m.length = (Glue.foldBlocks (Impl.Pcbc.decBlock C) iv m).1 ∧
    (Glue.foldBlocks (Impl.Ige.decBlock C) s (m ++ ext)).1.take m.length = (Glue.foldBlocks (Impl.Ige.decBlock C) s m).1 :=
  ⟨causal_prefix_fold _ iv m ext, causal_prefix_fold _ s m ext⟩


/-! ### the buffered CFB decryptor inherits the CFB propagation shape, under any cutting into calls -/
section bufprop
open Impl Glue

/-- the recurrence is compositional: blocks after a prefix are decrypted from the chaining value the prefix leaves. -/
theorem cfbDec_append (C : Cipher) : ∀ (a b : List Bytes) (ch : Bytes),
    cfbDec C ch (a ++ b) = ((cfbDec C ch a).1 ++ (cfbDec C (cfbDec C ch a).2 b).1, (cfbDec C (cfbDec C ch a).2 b).2) := by
  intro a
  induction a with
  | nil => intro b ch; simp [cfbDec]
  | cons x xs ih => intro b ch; simp [cfbDec, ih]

/-- **the buffered CFB decryptor, under any cutting of a whole-block ciphertext into calls, computes the block
    recurrence** (transfer lemma: C08 any chunking = one call, C14 one call = block level, C03 block level = recurrence). -/
theorem cfbbuf_dec_eq_recurrence (C : Cipher) (hC : C.Valid) (iv : Bytes) (hiv : iv.length = C.bs)
    (blocks : List Bytes) (hb : AllLen C.bs blocks) (pieces : List Bytes) (hp : pieces.flatten = blocks.flatten) :
    (C08.bufRun true C (CfbBuf.init C iv) pieces).1.flatten = (cfbDec C iv blocks).1.flatten := by
  rw [C08.cfbbuf_pieces_eq_whole true C hC iv hiv pieces, hp, C14.cfbbuf_eq_blocks_dec C hC 1 iv hiv blocks hb,
    Cfb.init, C03.cfb_decBlocks_eq]

/-- **error propagation through the buffered decryptor**: alter ciphertext block `j` (the block after the prefix `pre`)
    by `δ`; however the two ciphertexts are cut into calls, the plaintexts agree on the prefix, block `j` flips exactly `δ`,
    block `j+1` becomes `c₂ ⊕ E(c ⊕ δ)`, and everything after is identical (re-synchronised). -/
theorem cfbbuf_error_propagation (C : Cipher) (hC : C.Valid) (iv : Bytes) (hiv : iv.length = C.bs)
    (pre : List Bytes) (c c₂ δ : Bytes) (rest : List Bytes)
    (h1 : AllLen C.bs (pre ++ c :: c₂ :: rest)) (h2 : AllLen C.bs (pre ++ xorB c δ :: c₂ :: rest))
    (pieces pieces' : List Bytes)
    (hp : pieces.flatten = (pre ++ c :: c₂ :: rest).flatten)
    (hp' : pieces'.flatten = (pre ++ xorB c δ :: c₂ :: rest).flatten) :
    let ch := (cfbDec C iv pre).2
    (C08.bufRun true C (CfbBuf.init C iv) pieces).1.flatten
      = ((cfbDec C iv pre).1 ++ xorB c (C.enc ch) :: xorB c₂ (C.enc c) :: (cfbDec C c₂ rest).1).flatten ∧
    (C08.bufRun true C (CfbBuf.init C iv) pieces').1.flatten
      = ((cfbDec C iv pre).1 ++ xorB (xorB c (C.enc ch)) δ :: xorB c₂ (C.enc (xorB c δ)) :: (cfbDec C c₂ rest).1).flatten := by
  intro ch
  rw [cfbbuf_dec_eq_recurrence C hC iv hiv _ h1 pieces hp, cfbbuf_dec_eq_recurrence C hC iv hiv _ h2 pieces' hp',
    cfbDec_append, cfbDec_append]
  simp only [cfbDec]
  refine ⟨rfl, ?_⟩
  rw [xorB_assoc, xorB_comm δ, ← xorB_assoc]

end bufprop
end Thm.C15
