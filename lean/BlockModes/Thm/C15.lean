import BlockModes.Lemmas.SpecBlock
import BlockModes.Thm.C02
import BlockModes.Thm.C03
/-
  C15 — error propagation and data dependence match each mode's definition.

  Stated on the textbook recurrences (`Spec`), which the implementation mirrors refine (C02/C03), for one
  step at the altered block `c ↦ c ⊕ δ` with everything before it equal (so the chaining state entering the
  altered block is equal) and everything after it equal:
  CBC — altered block garbled, next block flips exactly `δ`, then re-synchronised (equal state);
  CFB — altered block flips exactly `δ`, next block garbled, then re-synchronised;
  OFB/CTR/BelT — only the same bit positions flip and the keystream/state does not depend on the data;
  PCBC — every later block changes by the same `Δ = D(c⊕δ) ⊕ D(c) ⊕ δ`;
  IGE — a changed previous plaintext forces a changed next plaintext (garbling persists).
  Causality: outputs of a prefix do not depend on what follows (`*_append` lemmas).
-/
namespace Thm.C15
open Spec

/-! ### CBC -/

/-- decrypting `c ⊕ δ` then `c₂`: block `j` changes, block `j+1` flips exactly `δ`, and the chaining value
    after `j+1` is the same as without the alteration (re-synchronisation; later blocks are equal). -/
theorem cbc_error_propagation (C : Cipher) (iv c c₂ δ : Bytes) (rest : List Bytes)
    (hc2 : (C.dec c₂).length ≤ c.length) (hδ : δ.length = c.length) :
    let a := cbcDec C iv (c :: c₂ :: rest)
    let b := cbcDec C iv (xorB c δ :: c₂ :: rest)
    b.1.getD 0 [] = xorB (C.dec (xorB c δ)) iv ∧
    b.1.getD 1 [] = xorB (a.1.getD 1 []) δ ∧
    b.1.drop 2 = a.1.drop 2 ∧ b.2 = a.2 := by
  simp only [cbcDec, List.getD_cons_zero, List.getD_cons_succ, List.drop_succ_cons, List.drop_zero, and_true, true_and]
  rw [xorB_assoc]

/-- the altered block itself is garbled: for an injective `D`, `δ ≠ 0` changes `D(c ⊕ δ)`. -/
theorem cbc_altered_block_garbled (C : Cipher) (hC : C.Valid) (iv c δ : Bytes)
    (hc : c.length = C.bs) (hδ : δ.length = C.bs) (hiv : iv.length = C.bs) (hne : xorB c δ ≠ c) :
    xorB (C.dec (xorB c δ)) iv ≠ xorB (C.dec c) iv := by
  intro h
  have hl : (xorB c δ).length = C.bs := by simp [hc, hδ]
  have e := xorB_right_cancel _ _ iv (by rw [hC.dec_len _ hl, hiv]; exact Nat.le_refl _)
    (by rw [hC.dec_len _ hc, hiv]; exact Nat.le_refl _) h
  have := congrArg C.enc e
  rw [hC.enc_dec _ hl, hC.enc_dec _ hc] at this
  exact hne this

/-! ### CFB -/

theorem cfb_error_propagation (C : Cipher) (ch c c₂ δ : Bytes) (rest : List Bytes) :
    let a := cfbDec C ch (c :: c₂ :: rest)
    let b := cfbDec C ch (xorB c δ :: c₂ :: rest)
    b.1.getD 0 [] = xorB (a.1.getD 0 []) δ ∧
    b.1.getD 1 [] = xorB c₂ (C.enc (xorB c δ)) ∧
    b.1.drop 2 = a.1.drop 2 ∧ b.2 = a.2 := by
  simp only [cfbDec, List.getD_cons_zero, List.getD_cons_succ, List.drop_succ_cons, List.drop_zero, and_true, true_and]
  rw [xorB_assoc, xorB_comm δ, ← xorB_assoc]

/-! ### OFB (and every keystream mode: output = data ⊕ keystream, keystream independent of the data) -/

theorem stream_bitflip_exact (data δ ks : Bytes) :
    xorB (xorB data δ) ks = xorB (xorB data ks) δ := by
  rw [xorB_assoc, xorB_comm δ ks, ← xorB_assoc]

/-- OFB: the chaining state after processing does not depend on the data at all. -/
theorem ofb_state_data_independent (C : Cipher) (o : Bytes) (l₁ l₂ : List Bytes) (h : l₁.length = l₂.length) :
    (ofb C o l₁).2 = (ofb C o l₂).2 := by
  induction l₁ generalizing o l₂ with
  | nil => cases l₂ <;> simp_all [ofb]
  | cons x xs ih =>
    cases l₂ with
    | nil => simp at h
    | cons y ys => simp only [List.length_cons, Nat.add_right_cancel_iff] at h; simp only [ofb]; exact ih _ _ h

/-! ### PCBC: every later block changes by the same difference -/

theorem pcbc_state_delta (C : Cipher) :
    ∀ (cs : List Bytes) (s Δ : Bytes),
      (pcbcDec C (xorB s Δ) cs).1 = (pcbcDec C s cs).1.map (fun p => xorB p Δ) := by
  intro cs
  induction cs with
  | nil => intro s Δ; simp [pcbcDec]
  | cons c cs ih =>
    intro s Δ
    have hp : xorB (C.dec c) (xorB s Δ) = xorB (xorB (C.dec c) s) Δ := (xorB_assoc _ _ _).symm
    have hs' : xorB (xorB (xorB (C.dec c) s) Δ) c = xorB (xorB (xorB (C.dec c) s) c) Δ := by
      rw [xorB_assoc, xorB_comm Δ c, ← xorB_assoc]
    simp only [pcbcDec, List.map_cons, hp, hs']
    rw [ih]

theorem u8_lc (x y z : UInt8) : x ^^^ (y ^^^ z) = y ^^^ (x ^^^ z) := by
  rw [← UInt8.xor_assoc, UInt8.xor_comm x y, UInt8.xor_assoc]
theorem u8_cancel (x y : UInt8) : x ^^^ (x ^^^ y) = y := by
  rw [← UInt8.xor_assoc, UInt8.xor_self, UInt8.zero_xor]
theorem u8_alg (dcd s c d dc : UInt8) :
    (dcd ^^^ s) ^^^ (c ^^^ d) = ((dc ^^^ s) ^^^ c) ^^^ ((dcd ^^^ dc) ^^^ d) := by
  have h : ((dc ^^^ s) ^^^ c) ^^^ ((dcd ^^^ dc) ^^^ d) = dc ^^^ (dc ^^^ ((dcd ^^^ s) ^^^ (c ^^^ d))) := by
    simp only [UInt8.xor_assoc, UInt8.xor_comm, u8_lc]
  rw [h, u8_cancel]

/-- PCBC: flipping ciphertext block `c` by `δ` changes *every* later plaintext block by the same
    `Δ = D(c⊕δ) ⊕ D(c) ⊕ δ` (blocks of the cipher's size). -/
theorem pcbc_constant_delta (C : Cipher) (hC : C.Valid) (s c δ : Bytes) (cs : List Bytes)
    (hs : s.length = C.bs) (hc : c.length = C.bs) (hδ : δ.length = C.bs) :
    let Δ := xorB (xorB (C.dec (xorB c δ)) (C.dec c)) δ
    (pcbcDec C s (xorB c δ :: cs)).1 =
      xorB (C.dec (xorB c δ)) s :: (pcbcDec C s (c :: cs)).1.tail.map (fun p => xorB p Δ) := by
  intro Δ
  have hcδ : (xorB c δ).length = C.bs := by simp [hc, hδ]
  have h1 : (C.dec (xorB c δ)).length = C.bs := hC.dec_len _ hcδ
  have h2 : (C.dec c).length = C.bs := hC.dec_len _ hc
  simp only [pcbcDec, List.tail_cons]
  congr 1
  have hst : xorB (xorB (C.dec (xorB c δ)) s) (xorB c δ) = xorB (xorB (xorB (C.dec c) s) c) Δ := by
    apply List.ext_getElem
    · simp [Δ, h1, h2, hs, hc, hδ]
    · intro i hi1 hi2
      simp only [xorB, Δ, List.getElem_zipWith]
      exact u8_alg _ _ _ _ _
  rw [hst]
  exact pcbc_state_delta C cs _ Δ

/-! ### IGE: garbling persists -/

theorem ige_garble_persists (C : Cipher) (hC : C.Valid) (x x' y c : Bytes)
    (hx : x.length = C.bs) (hx' : x'.length = C.bs) (hy : y.length = C.bs) (hc : c.length = C.bs)
    (hne : x ≠ x') :
    xorB (C.dec (xorB c x)) y ≠ xorB (C.dec (xorB c x')) y := by
  intro h
  have hl1 : (xorB c x).length = C.bs := by simp [hc, hx]
  have hl2 : (xorB c x').length = C.bs := by simp [hc, hx']
  have e := xorB_right_cancel _ _ y (by rw [hC.dec_len _ hl1, hy]; exact Nat.le_refl _)
    (by rw [hC.dec_len _ hl2, hy]; exact Nat.le_refl _) h
  have e2 := congrArg C.enc e
  rw [hC.enc_dec _ hl1, hC.enc_dec _ hl2] at e2
  have e3 : xorB c (xorB c x) = xorB c (xorB c x') := by rw [e2]
  rw [xorB_cancel_left x c (by omega), xorB_cancel_left x' c (by omega)] at e3
  exact hne e3

/-! ### causality: the output for a prefix does not depend on what follows -/

theorem causal_prefix_cbc (C : Cipher) (iv : Bytes) (m ext : List Bytes) :
    (cbcDec C iv (m ++ ext)).1.take m.length = (cbcDec C iv m).1 ∧
    (cbcEnc C iv (m ++ ext)).1.take m.length = (cbcEnc C iv m).1 := by
  rw [cbcDec_append, cbcEnc_append]
  exact ⟨List.take_left' (cbcDec_length C m iv), List.take_left' (cbcEnc_length C m iv)⟩

end Thm.C15
