import BlockModes.Lemmas.CtrLayout
import BlockModes.Lemmas.Core
import BlockModes.Toy
/-
  C04 — CTR keystream uses the documented counter-block layout in all six flavours.

  A flavour is `(w, be)` with `w = 8·cs` (32/64/128-bit counters: `cs` = 4/8/16); the block is any
  `k ≥ 1` words of `cs` bytes (so every block size that is a multiple of the counter size).
  Keystream block `i` is `E(layout(IV, i))` where only the counter field changes, by `(field + i) mod 2^w`
  — through `gen_ks_block`, through `gen_par_ks_blocks`, for any backend width and any split into calls.
-/
namespace Thm.C04
open Impl Impl.Ctr Glue Spec

/-- the three counter widths in /repo satisfy the side condition. -/
theorem flavors_ok : ∀ f ∈ [(⟨32, true⟩ : Flavor), ⟨32, false⟩, ⟨64, true⟩, ⟨64, false⟩, ⟨128, true⟩, ⟨128, false⟩],
    f.w = 8 * f.cs ∧ 0 < f.cs := by decide

/-- the state after `i` calls of `next_block` from a fresh nonce. -/
theorem nextBlock_iter (f : Flavor) (cn : St) (i : Nat) (hc : cn.ctr < 2 ^ f.w) :
    (nextBlocks f i cn).2 = { cn with ctr := (cn.ctr + i) % 2 ^ f.w } := by
  induction i generalizing cn with
  | zero => simp [nextBlocks, Nat.mod_eq_of_lt hc]
  | succ n ih =>
    have hlt : (cn.ctr + 1) % 2 ^ f.w < 2 ^ f.w := Nat.mod_lt _ (Nat.pos_of_ne_zero (by
      intro h; rw [h] at hc; omega))
    simp only [nextBlocks, nextBlock]
    rw [ih _ hlt]
    simp only [St.mk.injEq, and_true]
    rw [Nat.mod_add_mod, Nat.add_assoc, Nat.add_comm 1 n]

theorem ctrBlock_mod (f : Flavor) (iv : Bytes) (i : Nat) : ctrBlock f iv (i % 2 ^ f.w) = ctrBlock f iv i := by
  unfold ctrBlock
  simp only [Nat.add_mod_mod]

/-- **counter-block layout**: after `i` increments the current block is `layout(IV, i)`. -/
theorem ctr_layout (f : Flavor) (hw : f.w = 8 * f.cs) (hcs : 0 < f.cs)
    (k : Nat) (hk : 0 < k) (iv : Bytes) (hiv : iv.length = k * f.cs) (i : Nat) :
    currentBlock f (nextBlocks f i (fromNonce f iv)).2 = ctrBlock f iv i := by
  have h0 : (fromNonce f iv).ctr < 2 ^ f.w := Nat.pow_pos (by omega)
  rw [nextBlock_iter f _ i h0]
  have : (fromNonce f iv).ctr = 0 := rfl
  rw [this, Nat.zero_add, layout f hw hcs k hk iv hiv, ctrBlock_mod]

/-- every IV byte outside the counter field is passed through unchanged: no carry into the nonce. -/
theorem ctr_nonce_untouched (f : Flavor) (iv : Bytes) (i : Nat) :
    (f.be = true → (ctrBlock f iv i).take (iv.length - f.cs) = iv.take (iv.length - f.cs)) ∧
    (f.be = false → (ctrBlock f iv i).drop f.cs = iv.drop f.cs) := by
  constructor
  · intro hbe
    simp only [ctrBlock, hbe, if_true]
    rw [List.take_left' (by simp)]
  · intro hle
    simp only [ctrBlock, hle, Bool.false_eq_true, if_false]
    rw [List.drop_left' (by simp)]

/-- the counter field of block `i` is `(field + i) mod 2^w` in the flavour's byte order. -/
theorem ctr_field_value (f : Flavor) (hw : f.w = 8 * f.cs) (iv : Bytes) (hiv : f.cs ≤ iv.length) (i : Nat) :
    ctrField f (ctrBlock f iv i) = (ctrField f iv + i) % 2 ^ f.w := by
  have hp := two_pow_w f hw
  cases hbe : f.be with
  | true =>
    simp only [ctrField, ctrBlock, hbe, if_true]
    have hl : (iv.take (iv.length - f.cs) ++ toBE f.cs ((fromBE (iv.drop (iv.length - f.cs)) + i) % 2 ^ f.w)).length
        = iv.length := by simp; omega
    rw [hl, List.drop_left' (by simp), fromBE_toBE, hp, Nat.mod_mod]
  | false =>
    simp only [ctrField, ctrBlock, hbe, Bool.false_eq_true, if_false]
    rw [List.take_left' (by simp), fromLE_toLE, hp, Nat.mod_mod]

/-- sequential keystream: `n` calls of `gen_ks_block` from position `c` give `E(layout(IV, c + j))`. -/
theorem ctr_keystream_seq (C : Cipher) (f : Flavor) (hw : f.w = 8 * f.cs) (hcs : 0 < f.cs)
    (k : Nat) (hk : 0 < k) (iv : Bytes) (hiv : iv.length = k * f.cs) (n c : Nat) :
    (genSeq (core C f) n { fromNonce f iv with ctr := c % 2 ^ f.w }).1
      = (List.range n).map fun j => ctrKs C f iv (c + j) := by
  induction n generalizing c with
  | zero => rfl
  | succ n ih =>
    simp only [genSeq, core, genKsBlock, nextBlock]
    have h1 : currentBlock f { fromNonce f iv with ctr := c % 2 ^ f.w } = ctrBlock f iv c := by
      rw [layout f hw hcs k hk iv hiv, ctrBlock_mod]
    have h2 := ih (c + 1)
    simp only [core, genKsBlock] at h2
    rw [Nat.mod_add_mod]
    rw [h1, h2, List.range_succ_eq_map, List.map_cons, List.map_map]
    simp only [ctrKs, Nat.add_zero, List.cons.injEq, true_and]
    apply List.map_congr_left
    intro j _
    simp only [Function.comp, Nat.succ_eq_add_one]
    congr 2
    omega

/-- the parallel path and any backend width produce the same keystream blocks. -/
theorem ctr_keystream_par (C : Cipher) (f : Flavor) (w n : Nat) (cn : St) :
    genBlocks (core C f) w n cn = genSeq (core C f) n cn :=
  genBlocks_eq_seq (core C f) w (fun pw s _ => genPar_eq_seq C f pw s) n cn

/-- the output is the input XORed with the keystream, block by block. -/
theorem ctr_apply_xor (C : Cipher) (f : Flavor) (w : Nat) (cn : St) (blocks : List Bytes) :
    (applyBlocks (core C f) w cn blocks).1
      = List.zipWith xorB blocks (genSeq (core C f) blocks.length cn).1 := by
  simp only [applyBlocks, ctr_keystream_par]

/-- `iv_state` is the next counter block. -/
theorem ctr_ivstate_is_next_block (f : Flavor) (hw : f.w = 8 * f.cs) (hcs : 0 < f.cs)
    (k : Nat) (hk : 0 < k) (iv : Bytes) (hiv : iv.length = k * f.cs) (i : Nat) :
    ivState f (nextBlocks f i (fromNonce f iv)).2 = ctrBlock f iv i :=
  ctr_layout f hw hcs k hk iv hiv i

/-! ### non-vacuity and a wrap-around witness: a 4-word Ctr32BE nonce at `ffffffff` wraps to `00000000`
    without touching the nonce words -/
example : currentBlock ⟨32, true⟩ (nextBlocks ⟨32, true⟩ 1
      (fromNonce ⟨32, true⟩ [0x11,0x22,0x33,0x44, 5,6,7,8, 9,10,11,12, 0xff,0xff,0xff,0xff])).2
    = [0x11,0x22,0x33,0x44, 5,6,7,8, 9,10,11,12, 0,0,0,0] := by decide

end Thm.C04
