import BlockModes.Glue.Api
import BlockModes.Glue.Async
import BlockModes.Impl.Cts
import BlockModes.Lemmas.Chunks
/-
  C13 — bad lengths are rejected without side effects.
  Decision logic stated outright for the fallible entry points (this section).  Absence of panics for
  the index arithmetic of /repo is the `Chk` section (work in progress).
-/
namespace Thm.C13
open Api Impl

/-- buffer-to-buffer with unequal lengths: error, and the output buffer is exactly what it was. -/
theorem b2b_len_mismatch_is_err_unchanged (inp out : Bytes) (f : Bytes → Option Bytes) (h : inp.length ≠ out.length) :
    b2b inp out f = .err out := by simp [b2b, h]

/-- equal lengths and an operation that accepts the input: the call succeeds. -/
theorem b2b_ok (inp out o : Bytes) (f : Bytes → Option Bytes) (h : inp.length = out.length) (hf : f inp = some o) :
    b2b inp out f = .ok o := by simp [b2b, h, hf]

/-- CTS, in place: `Err` ⇔ shorter than one block; on `Err` the buffer is returned as it was. -/
theorem cts_short_is_err_unchanged (bs : Nat) (f : Bytes → Bytes) (buf : Bytes) :
    (buf.length < bs → inplace buf (Cts.gated bs f) = .err buf) ∧
    (bs ≤ buf.length → inplace buf (Cts.gated bs f) = .ok (f buf)) := by
  constructor
  · intro h; simp [inplace, Cts.gated, h]
  · intro h; have : ¬ buf.length < bs := by omega
    simp [inplace, Cts.gated, this]

/-- CTS, buffer to buffer: `Err` ⇔ (lengths differ ∨ shorter than one block); output untouched on `Err`. -/
theorem cts_b2b_err_iff (bs : Nat) (f : Bytes → Bytes) (inp out : Bytes) :
    (b2b inp out (Cts.gated bs f) = .err out ↔ (inp.length ≠ out.length ∨ inp.length < bs)) ∨
    (∃ o, b2b inp out (Cts.gated bs f) = .ok o ∧ inp.length = out.length ∧ bs ≤ inp.length) := by
  by_cases h1 : inp.length = out.length
  · by_cases h2 : inp.length < bs
    · left
      have h2' : out.length < bs := by omega
      simp [b2b, Cts.gated, h1, h2']
    · right
      have h2' : ¬ out.length < bs := by omega
      exact ⟨f inp, by simp [b2b, Cts.gated, h1, h2'], h1, by omega⟩
  · left; simp [b2b, h1]

/-- padded decryption of a length that is not a multiple of the block size is an error (for a positive
    block size). -/
theorem padded_dec_nonmultiple_is_err {σ : Type} (mbs : Nat) (hm : 0 < mbs)
    (blocksFn : σ → List Bytes → List Bytes × σ) (s : σ) (ct : Bytes) (h : ct.length % mbs ≠ 0) :
    Glue.paddedDec mbs blocksFn s ct = none := by
  unfold Glue.paddedDec
  have : (chunksTail mbs ct).length ≠ 0 := by
    rw [chunksTail_length mbs hm]; exact h
  simp [this]

/-- construction from slices: accepted exactly for a key of the cipher's key size and an IV of one block
    (two blocks for IGE: the caller passes `ivLen = 2·bs`). -/
theorem slice_init_iff (keyLen ivLen k i : Nat) : sliceInit keyLen ivLen k i = true ↔ (k = keyLen ∧ i = ivLen) := by
  simp [sliceInit]

end Thm.C13
