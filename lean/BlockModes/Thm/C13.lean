import BlockModes.Glue.Api
import BlockModes.Glue.Async
import BlockModes.Impl.Cts
import BlockModes.Lemmas.Chunks
import BlockModes.Lemmas.MemCtsApi
import BlockModes.Lemmas.Chk
import BlockModes.Lemmas.MemWrapper
import BlockModes.Thm.C08
import BlockModes.Thm.C12
/-
  C13 — bad lengths are rejected without side effects.
  Decision logic stated outright for the fallible entry points; absence of panics for the index arithmetic of
  the ciphertext-stealing code (`cts/src/*.rs`: `buf.len() - bs`, `blocks.len() - 1`, `split_at`, `[..bs]`,
  `[n..]`, `try_into().unwrap()`, `copy_from_slice`, `last_mut().unwrap()`, `split_last_mut().unwrap()`) is
  proved on the checked memory-level mirror `Impl/MemCts.lean`, where each of those operations is an `Option`
  step that fails exactly when the Rust operation panics.
-/
namespace Thm.C13
open Api Impl

/-- buffer-to-buffer with unequal lengths: error, and the output buffer is exactly what it was. -/
theorem b2b_len_mismatch_is_err_unchanged (inp out : Bytes) (f : Bytes → Option Bytes) (h : inp.length ≠ out.length) :
    b2b inp out f = .err out := by simp [b2b, h]

/-- equal lengths and an operation that accepts the input: the call succeeds. -/
theorem b2b_ok (inp out o : Bytes) (f : Bytes → Option Bytes) (h : inp.length = out.length) (hf : f inp = some o) :
    b2b inp out f = .ok o := by simp [b2b, h, hf]

/-- CTS, in place: `Err` ⇔ shorter than one block; on `Err` the buffer is returned as it was. -/
theorem cts_short_is_err_unchanged (bs : Nat) (f : Bytes → Bytes) (buf : Bytes) :
    (buf.length < bs → inplace buf (Cts.gated bs f) = .err buf) ∧
    (bs ≤ buf.length → inplace buf (Cts.gated bs f) = .ok (f buf)) := by
  constructor
  · intro h; simp [inplace, Cts.gated, h]
  · intro h; have : ¬ buf.length < bs := by omega
    simp [inplace, Cts.gated, this]

/-- CTS, buffer to buffer: `Err` ⇔ (lengths differ ∨ shorter than one block); output untouched on `Err`. -/
theorem cts_b2b_err_iff (bs : Nat) (f : Bytes → Bytes) (inp out : Bytes) :
    (b2b inp out (Cts.gated bs f) = .err out ↔ (inp.length ≠ out.length ∨ inp.length < bs)) ∨
    (∃ o, b2b inp out (Cts.gated bs f) = .ok o ∧ inp.length = out.length ∧ bs ≤ inp.length) := by
  by_cases h1 : inp.length = out.length
  · by_cases h2 : inp.length < bs
    · left
      have h2' : out.length < bs := by omega
      simp [b2b, Cts.gated, h1, h2']
    · right
      have h2' : ¬ out.length < bs := by omega
      exact ⟨f inp, by simp [b2b, Cts.gated, h1, h2'], h1, by omega⟩
  · left; simp [b2b, h1]

/-! ### ciphertext stealing on the checked memory-level mirror: never a panic, `Err` iff the contract is violated,
    and on `Err` the caller's buffer is exactly what it was -/

open Impl.MemCts in
/-- **CTS in place, all twelve calls, every block size ≥ 1, every width, every buffer length (0 included)**:
    the outcome is `Err` with the buffer untouched iff the buffer is shorter than one block, and otherwise `Ok`
    — in particular it is never `panic`. -/
theorem cts_inplace_total (o : MemCts.Op) (C : Cipher) (hC : C.Valid) (w : Nat) (iv : Bytes) (hiv : iv.length = C.bs)
    (buf : Bytes) :
    inplaceCall C.bs (o.mem C w iv) buf = (if buf.length < C.bs then .err buf else .ok (o.val C w iv buf)) :=
  inplaceCall_eq o C hC w iv hiv buf

open Impl.MemCts in
/-- **CTS buffer-to-buffer**: `Err` with the output buffer untouched iff the two lengths differ or the input is
    shorter than one block; otherwise `Ok`; never `panic`, whatever the two lengths are. -/
theorem cts_b2b_total (o : MemCts.Op) (C : Cipher) (hC : C.Valid) (w : Nat) (iv : Bytes) (hiv : iv.length = C.bs)
    (inp out : Bytes) :
    b2bCall C.bs (o.mem C w iv) inp out =
      (if inp.length ≠ out.length ∨ inp.length < C.bs then .err out else .ok (o.val C w iv inp)) :=
  b2bCall_eq o C hC w iv hiv inp out

open Impl.MemCts in
/-- corollary: no CTS call panics. -/
theorem cts_never_panics (o : MemCts.Op) (C : Cipher) (hC : C.Valid) (w : Nat) (iv : Bytes) (hiv : iv.length = C.bs)
    (inp out : Bytes) :
    inplaceCall C.bs (o.mem C w iv) inp ≠ .panic ∧ b2bCall C.bs (o.mem C w iv) inp out ≠ .panic := by
  rw [inplaceCall_eq o C hC w iv hiv, b2bCall_eq o C hC w iv hiv]
  constructor <;> split <;> simp

/-- the checked mirror is not vacuous: a closure run on a buffer *shorter* than one block (which the gate
    keeps out) does hit an out-of-range operation — the model can express the panic the gate prevents. -/
example : MemCts.Op.cbc1d.mem (Toy.cipher [1,2,3,4,5,6,7,8,9,10,11,12,13,14,15,16] 4) 1 [0, 0, 0, 0]
    (IOBuf.inplace [1, 2, 3]) = none := by decide

/-! ### the other places with index arithmetic (checked mirrors in `Impl/Chk.lean`) -/

/-- **buffered CFB never panics**: from a fresh instance, any sequence of `encrypt`/`decrypt` calls on pieces of any
    lengths (empty ones included), every block size ≥ 1: each checked call succeeds and equals the unchecked mirror
    (`bs - pos`, `iv[pos..pos+n]`, `split_at_mut(bs - pos)`, `iv[pos..]`, `chunks_exact_mut(bs)` all stay in range). -/
theorem cfbbuf_never_panics (dec : Bool) (C : Cipher) (hC : C.Valid) (iv : Bytes) (hiv : iv.length = C.bs) :
    ∀ (pieces : List Bytes) (s : CfbBuf.St) (a : Spec.RS), CfbBuf.Rel C s a → a.ch.length = C.bs →
      ∀ p ∈ pieces.zipIdx, ∃ s' a', CfbBuf.Rel C s' a' ∧
        Chk.bufProcess? dec C s' p.1 = some (C08.bufCall dec C s' p.1) ∧
        s' = (C08.bufRun dec C s (pieces.take p.2)).2 := by
  intro pieces s a hR hch p hp
  have hrel := C08.bufRun_refines dec C hC (pieces.take p.2) s a hR hch
  refine ⟨_, _, hrel.2, ?_, rfl⟩
  rw [Chk.bufProcess?_eq dec C _ (Chk.bufInv_of_rel C _ _ hrel.2)]
  rfl

/-- one checked call from any reachable state (the form used above), and the witness that the model can express
    the panic C13 excludes: a cursor beyond the block (not a valid exported state, DESIGN §7 O3) fails. -/
theorem cfbbuf_call_ok (dec : Bool) (C : Cipher) (s : CfbBuf.St) (a : Spec.RS) (h : CfbBuf.Rel C s a) (data : Bytes) :
    Chk.bufProcess? dec C s data = some (C08.bufCall dec C s data) := by
  rw [Chk.bufProcess?_eq dec C s (Chk.bufInv_of_rel C s a h)]; rfl

theorem cfbbuf_bad_state_panics (dec : Bool) (C : Cipher) (s : CfbBuf.St) (h : C.bs < s.pos) (data : Bytes) :
    Chk.bufProcess? dec C s data = none := Chk.bufProcess?_bad_pos dec C s h data

/-- **CFB-8 never panics, every block size ≥ 1**: the feedback-register index loop
    `for i in 0..n-1 { iv[i] = iv[i+1] }; iv[n-1] = r`, `t[..1].try_into().unwrap()` and `get_out()[0]` stay in range,
    and the loop is the functional shift used by the recurrences of C03. -/
theorem cfb8_never_panics (C : Cipher) (hC : C.Valid) (iv blk : Bytes) (hiv : iv.length = C.bs) (hb : blk.length = 1) :
    Chk.cfb8Enc? C iv blk = some (Cfb8.encBlock C iv blk) ∧ Chk.cfb8Dec? C iv blk = some (Cfb8.decBlock C iv blk) :=
  ⟨Chk.cfb8Enc?_eq C hC iv blk hiv hb, Chk.cfb8Dec?_eq C hC iv blk hiv hb⟩

/-- a register shorter than the loop assumes would panic (DESIGN appendix D, mutation 6: `0..15` on `bs < 16`). -/
example : Chk.shiftLoop? 15 0 [1, 2, 3, 4] = none := by decide

/-- **IGE**: the double-length IV is split without a panic iff it has exactly two blocks. -/
theorem ige_iv_split (C : Cipher) (iv : Bytes) :
    (iv.length = 2 * C.bs → Chk.igeInit? C iv = some (Ige.init C iv)) ∧
    (iv.length ≠ 2 * C.bs → Chk.igeInit? C iv = none) :=
  ⟨Chk.igeInit?_eq C iv, Chk.igeInit?_none C iv⟩

/-- **counters**: `MAX - ctr` (CTR) and `u128::MAX - (s - s_init)` (BelT) never underflow at any counter position,
    and `from_nonce`'s chunk slicing stays inside the block. -/
theorem counters_never_panic (f : Spec.Flavor) (cn : Ctr.St) (h : cn.ctr < 2 ^ f.w) (st : Belt.St)
    (block : Bytes) (i : Nat) (hi : f.cs * i + f.cs ≤ block.length) :
    Chk.ctrRemaining? f cn = some (Ctr.remaining f cn) ∧ Chk.beltRemaining? st = some (Belt.remaining st) ∧
    Chk.ctrChunk? block f.cs i = some (rng block (f.cs * i) f.cs) :=
  ⟨Chk.ctrRemaining?_eq f cn h, Chk.beltRemaining?_eq st, Chk.ctrChunk?_eq block f.cs i hi⟩

/-! ### the byte-level stream ciphers (`try_apply_keystream[_inout|_b2b]`) on the checked memory-level mirror -/

open Impl.MemWr Impl.MemCts Glue in
/-- **never a panic, `Err` exactly when `check_remaining` refuses, and then nothing is modified**: for every
    length-regular core (CTR ×6, BelT-CTR, OFB — `C12.cores_are_length_regular`), every wrapper state reachable through
    the API, every data length (0 included) and both aliasing forms.  Inside: `BlockSize - pos` on `u8`,
    `&buffer[pos..][..n]`, `split_at(rem)`, `&buffer[..tail]`, and the length assertion of every `xor_in2out`. -/
theorem wrapper_apply_total {σ : Type} {K : Core σ} {P : σ → Prop} (hK : LenCore K P) (w : Nat) (s : Wr σ)
    (hbuf : s.buffer.length = K.bs) (hpos : s.pos ≤ K.bs) (hP : P s.core) (io : IOBuf) (hw : WF io) :
    applyMem K w s io =
      (if s.checkRemaining K io.len then
        .ok (s.applyUnchecked K w (src io)).1 (s.applyUnchecked K w (src io)).2
       else .err io.out s) :=
  applyMem_eq hK w s hbuf hpos hP io hw

open Impl.MemWr Glue in
/-- buffer-to-buffer with unequal lengths: `Err`, output and state untouched. -/
theorem wrapper_b2b_len_mismatch {σ : Type} (K : Core σ) (w : Nat) (s : Wr σ) (inp out : Bytes)
    (h : inp.length ≠ out.length) : ∃ o s', applyB2b K w s inp out = .err o s' ∧ o = out ∧ s'.buffer = s.buffer := by
  refine ⟨out, s, ?_, rfl, rfl⟩
  simp [applyB2b, h]

/-- **seeking and position reporting never panic** for any non-negative seek target and any wrapper state reachable
    through the API (the buffer position is always in `1 ..= bs` — `WInv.pos_pos` — so `from_block_byte`'s
    `debug_assert!(byte != 0)` holds; `byte_pos = p % bs < bs`, so `try_seek`'s assertion holds); overflow is reported
    as `Err`, which is what C10 proves about the values. -/
theorem seek_and_pos_never_panic {σ : Type} (K : Glue.Core σ) (s : Glue.Wr σ) (hbs : 0 < K.bs) (hpos : 1 ≤ s.pos)
    (snMax p : Nat) :
    Chk.currentPos? K s snMax = some (s.currentPos K snMax) ∧ Chk.seek? K s p = some (s.seek K p) :=
  ⟨Chk.currentPos?_eq K s snMax hpos, Chk.seek?_eq K s p hbs⟩

open Impl.MemAsync Glue in
/-- **the one-shot CFB / CFB-8 calls never panic and reject exactly unequal b2b lengths**: for every input and output
    length, every backend width: `Err` (nothing written) iff the lengths differ, otherwise the value-level result;
    the in-place forms (`encrypt`, `decrypt`, `*_inout`) always succeed (`C12.async_oneshot_alias_indep`). -/
theorem async_oneshot_never_panics (C : Cipher) (hC : C.Valid) (w : Nat) (iv : Bytes) (hiv : iv.length = C.bs)
    (inp out : Bytes) :
    asyncB2b 1 C.bs (Cfb.encBlock C) (defaultPar (Cfb.encBlock C)) (Cfb.init C iv) inp out
      = some (if inp.length ≠ out.length then none
              else some (asyncInOut C.bs (foldBlocks (Cfb.encBlock C)) (Cfb.encBlock C) (Cfb.init C iv) inp)) ∧
    asyncB2b w C.bs (Cfb.decBlock C) (Cfb.decPar C) (Cfb.init C iv) inp out
      = some (if inp.length ≠ out.length then none
              else some (asyncInOut C.bs (foldBlocks (Cfb.decBlock C)) (Cfb.decBlock C) (Cfb.init C iv) inp)) ∧
    asyncB2b 1 1 (Cfb8.encBlock C) (defaultPar (Cfb8.encBlock C)) (Cfb8.init C iv) inp out
      = some (if inp.length ≠ out.length then none
              else some (asyncInOut 1 (foldBlocks (Cfb8.encBlock C)) (Cfb8.encBlock C) (Cfb8.init C iv) inp)) ∧
    asyncB2b 1 1 (Cfb8.decBlock C) (defaultPar (Cfb8.decBlock C)) (Cfb8.init C iv) inp out
      = some (if inp.length ≠ out.length then none
              else some (asyncInOut 1 (foldBlocks (Cfb8.decBlock C)) (Cfb8.decBlock C) (Cfb8.init C iv) inp)) := by
  have hinit : (Cfb.init C iv).length = C.bs := hC.enc_len iv hiv
  exact ⟨asyncB2b_total _ 1 C.bs hC.bs_pos _ _ (C12.cfbEnc_stepOk C hC) (fun _ _ _ => rfl) _ hinit inp out,
    asyncB2b_total _ w C.bs hC.bs_pos _ _ (C12.cfbDec_stepOk C hC) (fun s ch _ => C03.cfb_decPar_eq_fold C ch s) _ hinit inp out,
    asyncB2b_total _ 1 1 (by omega) _ _ (C12.cfb8Enc_stepOk C hC) (fun _ _ _ => rfl) _ hiv inp out,
    asyncB2b_total _ 1 1 (by omega) _ _ (C12.cfb8Dec_stepOk C hC) (fun _ _ _ => rfl) _ hiv inp out⟩

/-- padded decryption of a length that is not a multiple of the block size is an error (for a positive
    block size). -/
theorem padded_dec_nonmultiple_is_err {σ : Type} (mbs : Nat) (hm : 0 < mbs)
    (blocksFn : σ → List Bytes → List Bytes × σ) (s : σ) (ct : Bytes) (h : ct.length % mbs ≠ 0) :
    Glue.paddedDec mbs blocksFn s ct = none := by
  unfold Glue.paddedDec
  have : (chunksTail mbs ct).length ≠ 0 := by
    rw [chunksTail_length mbs hm]; exact h
  simp [this]

/-- construction from slices: accepted exactly for a key of the cipher's key size and an IV of one block
    (two blocks for IGE: the caller passes `ivLen = 2·bs`). -/
theorem slice_init_iff (keyLen ivLen k i : Nat) : sliceInit keyLen ivLen k i = true ↔ (k = keyLen ∧ i = ivLen) := by
  simp [sliceInit]

open Impl.MemWr Impl.MemCts Glue in
/-- **`try_apply_keystream_partial` never panics**: for every length-regular core, every data length (0 and exactly one block
    included) and both aliasing forms, the checked memory-level mirror returns `err` exactly when the dependency's check refuses —
    and then nothing is written — and `ok` otherwise. Inside: `into_chunks`, `block[..n].copy_from_slice(..)` with `n ≤ bs`,
    the length assertions of `xor_in2out` and `copy_from_slice`. -/
theorem partial_total {σ : Type} {K : Core σ} {P : σ → Prop} (hK : LenCore K P) (w : Nat) (s : σ) (hP : P s)
    (io : IOBuf) (hw : WF io) :
    partialMem K w s io =
      (if partialCheck K s io.len then .ok (applyPartialUnchecked K w s (src io)) else .err io.out) :=
  partialMem_eq hK w s hP io hw

end Thm.C13
