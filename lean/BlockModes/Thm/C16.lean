import BlockModes.Impl.Block
import BlockModes.Impl.CfbBuf
import BlockModes.Impl.Ctr
import BlockModes.Glue.Wrapper
import BlockModes.Impl.Pool
/-
  C16 — clones and separate instances are independent, deterministic values (partial).

  In the model every mode object is an immutable value and every operation a function, so `clone s = s`
  and outputs are functions of `(C, state, op list)`; interleaving operations on two instances is a pair
  of independent folds.  This is *the limit of the technique*: hidden sharing (statics, interior
  mutability, aliasing between a clone and its original) is a property of Rust's runtime objects which a
  pure functional model cannot exhibit.  `CtrCore`'s hand-written `Clone` is mirrored field by field;
  the correspondence harness (clone at every cut point, random interleavings, compared with fresh
  sequential replays on the real objects) carries the weight for this property.
-/
namespace Thm.C16
open Impl Glue

/-- `impl Clone for CtrCore`: `cipher: self.cipher.clone(), ctr_nonce: self.ctr_nonce.clone()`;
    `#[derive(Clone)] CtrNonce{32,64,128}`: field-wise. -/
def ctrCoreClone (cn : Ctr.St) : Ctr.St := { ctr := cn.ctr, nonce := cn.nonce }

theorem clone_eq (cn : Ctr.St) : ctrCoreClone cn = cn := rfl

/-- `StreamCipherCoreWrapper::clone`: core.clone(), buffer.clone(). -/
def wrapperClone {σ : Type} (cloneCore : σ → σ) (s : Wr σ) : Wr σ := { core := cloneCore s.core, buffer := s.buffer }

theorem wrapper_clone_eq (s : Wr Ctr.St) : wrapperClone ctrCoreClone s = s := rfl

/-- a generic object: state and a step function returning an observation. -/
def runOps {σ op obs : Type} (step : σ → op → obs × σ) : σ → List op → List obs × σ
  | s, [] => ([], s)
  | s, o :: os =>
    let r := step s o
    let r2 := runOps step r.2 os
    (r.1 :: r2.1, r2.2)

/-- two instances driven in any interleaving: `tags` says which instance each op goes to. -/
def runInterleaved {σ op obs : Type} (step : σ → op → obs × σ) :
    σ → σ → List (Bool × op) → List obs × List obs
  | _, _, [] => ([], [])
  | a, b, (false, o) :: rest =>
    let r := step a o
    let r2 := runInterleaved step r.2 b rest
    (r.1 :: r2.1, r2.2)
  | a, b, (true, o) :: rest =>
    let r := step b o
    let r2 := runInterleaved step a r.2 rest
    (r2.1, r.1 :: r2.2)

/-- **independence under interleaving**: the original's observations are those of running its own ops
    alone, and the clone's those of running its ops alone from the same state. -/
theorem clone_histories_independent {σ op obs : Type} (step : σ → op → obs × σ) (a b : σ) (ops : List (Bool × op)) :
    (runInterleaved step a b ops).1 = (runOps step a ((ops.filter (fun p => !p.1)).map Prod.snd)).1 ∧
    (runInterleaved step a b ops).2 = (runOps step b ((ops.filter (fun p => p.1)).map Prod.snd)).1 := by
  induction ops generalizing a b with
  | nil => exact ⟨rfl, rfl⟩
  | cons p rest ih =>
    obtain ⟨t, o⟩ := p
    cases t with
    | false =>
      obtain ⟨h1, h2⟩ := ih (step a o).2 b
      simp [runInterleaved, runOps, h1, h2]
    | true =>
      obtain ⟨h1, h2⟩ := ih a (step b o).2
      simp [runInterleaved, runOps, h1, h2]

/-- determinism: the observations are a function of the initial state and the op list (`runOps` is a
    function); in particular a clone made after history `h₁` replays exactly like a fresh instance that
    first replays `h₁`. -/
theorem run_deterministic {σ op obs : Type} (step : σ → op → obs × σ) (s : σ) (h₁ h₂ : List op) :
    runOps step s (h₁ ++ h₂) =
      ((runOps step s h₁).1 ++ (runOps step (runOps step s h₁).2 h₂).1, (runOps step (runOps step s h₁).2 h₂).2) := by
  induction h₁ generalizing s with
  | nil => simp [runOps]
  | cons o os ih => simp [runOps, ih]

/-! ### programs over a pool of instances: any number of clones, `clone_from`, calls in any order

  `Impl.Pool` is the model of what the driver executes for the ops `clone`, `use k`, `clonefrom k` and the data
  calls.  The *lineage* of an object is the list of calls made on it and on the objects it was (transitively)
  cloned from, up to each cloning moment.  The theorem: every observation equals the observation of a fresh
  instance that replays the lineage — so nothing done to any *other* object can be seen, and an object's output is
  a deterministic function of its cipher, IV (the initial state) and the calls in its lineage. -/
section pool
variable {σ op obs : Type}

theorem runCalls_append (f : σ → op → obs × σ) (s : σ) (h₁ h₂ : List op) :
    runCalls f s (h₁ ++ h₂) =
      ((runCalls f s h₁).1 ++ (runCalls f (runCalls f s h₁).2 h₂).1, (runCalls f (runCalls f s h₁).2 h₂).2) := by
  induction h₁ generalizing s with
  | nil => simp [runCalls]
  | cons o os ih => simp [runCalls, ih]

theorem runCalls_snoc_state (f : σ → op → obs × σ) (s : σ) (h : List op) (o : op) :
    (runCalls f s (h ++ [o])).2 = (f (runCalls f s h).2 o).2 := by
  rw [runCalls_append]; simp [runCalls]

/-- every object in the pool is the replay of its lineage. -/
def Rel (f : σ → op → obs × σ) (p : Pool σ) (hp : Pool (Lin σ op)) : Prop :=
  p.cur = hp.cur ∧ p.insts = hp.insts.map (fun l => (runCalls f l.1 l.2).2)

theorem getD_map_replay (g : Lin σ op → σ) (l : List (Lin σ op)) (i : Nat) (d : Lin σ op) :
    (l.map g).getD i (g d) = g (l.getD i d) := by
  simp [List.getD_eq_getElem?_getD]

theorem step_rel (f : σ → op → obs × σ) (init : σ) (p : Pool σ) (hp : Pool (Lin σ op)) (o : POp σ op)
    (h : Rel f p hp) :
    Rel f (Pool.step f init p o).2 (Pool.step histStep (init, []) hp (liftOp o)).2 ∧
    (Pool.step f init p o).1 = (match o with | .call c => some (replayObs f (hp.get (init, [])) c) | _ => none) := by
  obtain ⟨hc, hi⟩ := h
  have hinit : init = (fun l : Lin σ op => (runCalls f l.1 l.2).2) (init, []) := rfl
  have hget : p.get init = (runCalls f (hp.get (init, [])).1 (hp.get (init, [])).2).2 := by
    unfold Pool.get
    rw [hi, hc]
    conv => lhs; rw [hinit]
    exact getD_map_replay (fun l => (runCalls f l.1 l.2).2) hp.insts hp.cur (init, [])
  cases o with
  | call c =>
    refine ⟨⟨hc, ?_⟩, ?_⟩
    · simp only [Pool.step, liftOp, Pool.set, histStep]
      rw [hi, hc, hget, List.map_set, runCalls_snoc_state]
    · simp only [Pool.step, replayObs, hget]
  | clone =>
    refine ⟨⟨hc, ?_⟩, rfl⟩
    simp only [Pool.step, liftOp, Pool.clone]
    rw [hget, hi]; simp
  | use k =>
    refine ⟨?_, rfl⟩
    simp only [Pool.step, liftOp, Pool.use]
    have : p.insts.length = hp.insts.length := by rw [hi]; simp
    rw [this]
    split
    · exact ⟨rfl, hi⟩
    · exact ⟨hc, hi⟩
  | cloneFrom k =>
    refine ⟨?_, rfl⟩
    simp only [Pool.step, liftOp, Pool.cloneFrom]
    have : p.insts.length = hp.insts.length := by rw [hi]; simp
    rw [this]
    split
    · refine ⟨hc, ?_⟩
      simp only [Pool.set]
      rw [hi, hc, List.map_set]
      congr 1
      conv => lhs; rw [hinit]
      exact getD_map_replay (fun l => (runCalls f l.1 l.2).2) hp.insts k (init, [])
    · exact ⟨hc, hi⟩
  | fresh s0 =>
    refine ⟨⟨hc, ?_⟩, rfl⟩
    simp only [Pool.step, liftOp, Pool.push]
    rw [hi]; simp [runCalls]

theorem run_rel (f : σ → op → obs × σ) (init : σ) (prog : List (POp σ op)) (p : Pool σ) (hp : Pool (Lin σ op))
    (h : Rel f p hp) :
    (Pool.run f init p prog).1 = Pool.lineageObs f init hp prog := by
  induction prog generalizing p hp with
  | nil => rfl
  | cons o os ih =>
    obtain ⟨h1, h2⟩ := step_rel f init p hp o h
    simp only [Pool.run, Pool.lineageObs]
    rw [ih _ _ h1, h2]
    cases o <;> rfl

/-- **every observation of a program over any number of clones, `clone_from`s and separately constructed instances is
    what a fresh instance constructed like the lineage's origin and replaying the lineage of the object it was made on would
    observe** — whatever was done to the other objects in between. -/
theorem pool_lineage (f : σ → op → obs × σ) (init : σ) (prog : List (POp σ op)) :
    (Pool.run f init ⟨[init], 0⟩ prog).1 = Pool.lineageObs f init ⟨[(init, [])], 0⟩ prog :=
  run_rel f init prog _ _ ⟨rfl, rfl⟩

/-- non-vacuity: a counter object; clone after two calls, advance the original, overwrite the clone from the
    original (`clone_from`), interleave: the observations are those of the lineages. -/
example :
    (Pool.run (fun (s : Nat) (o : Nat) => (s + o, s + o)) 0 ⟨[0], 0⟩
      [.call 1, .call 2, .clone, .call 10, .use 1, .call 100, .cloneFrom 0, .call 5, .use 0, .call 7,
       .fresh 1000, .use 2, .call 1, .cloneFrom 1, .call 1]).1
      = [1, 3, 13, 103, 18, 20, 1001, 19] := by decide
end pool

end Thm.C16
