import BlockModes.Impl.Block
import BlockModes.Impl.CfbBuf
import BlockModes.Impl.Ctr
import BlockModes.Glue.Wrapper
/-
  C16 — clones and separate instances are independent, deterministic values (partial).

  In the model every mode object is an immutable value and every operation a function, so `clone s = s`
  and outputs are functions of `(C, state, op list)`; interleaving operations on two instances is a pair
  of independent folds.  This is *the limit of the technique*: hidden sharing (statics, interior
  mutability, aliasing between a clone and its original) is a property of Rust's runtime objects which a
  pure functional model cannot exhibit.  `CtrCore`'s hand-written `Clone` is mirrored field by field;
  the correspondence harness (clone at every cut point, random interleavings, compared with fresh
  sequential replays on the real objects) carries the weight for this property.
-/
namespace Thm.C16
open Impl Glue

/-- `impl Clone for CtrCore`: `cipher: self.cipher.clone(), ctr_nonce: self.ctr_nonce.clone()`;
    `#[derive(Clone)] CtrNonce{32,64,128}`: field-wise. -/
def ctrCoreClone (cn : Ctr.St) : Ctr.St := { ctr := cn.ctr, nonce := cn.nonce }

theorem clone_eq (cn : Ctr.St) : ctrCoreClone cn = cn := rfl

/-- `StreamCipherCoreWrapper::clone`: core.clone(), buffer.clone(). -/
def wrapperClone {σ : Type} (cloneCore : σ → σ) (s : Wr σ) : Wr σ := { core := cloneCore s.core, buffer := s.buffer }

theorem wrapper_clone_eq (s : Wr Ctr.St) : wrapperClone ctrCoreClone s = s := rfl

/-- a generic object: state and a step function returning an observation. -/
def runOps {σ op obs : Type} (step : σ → op → obs × σ) : σ → List op → List obs × σ
  | s, [] => ([], s)
  | s, o :: os =>
    let r := step s o
    let r2 := runOps step r.2 os
    (r.1 :: r2.1, r2.2)

/-- two instances driven in any interleaving: `tags` says which instance each op goes to. -/
def runInterleaved {σ op obs : Type} (step : σ → op → obs × σ) :
    σ → σ → List (Bool × op) → List obs × List obs
  | _, _, [] => ([], [])
  | a, b, (false, o) :: rest =>
    let r := step a o
    let r2 := runInterleaved step r.2 b rest
    (r.1 :: r2.1, r2.2)
  | a, b, (true, o) :: rest =>
    let r := step b o
    let r2 := runInterleaved step a r.2 rest
    (r2.1, r.1 :: r2.2)

/-- **independence under interleaving**: the original's observations are those of running its own ops
    alone, and the clone's those of running its ops alone from the same state. -/
theorem clone_histories_independent {σ op obs : Type} (step : σ → op → obs × σ) (a b : σ) (ops : List (Bool × op)) :
    (runInterleaved step a b ops).1 = (runOps step a ((ops.filter (fun p => !p.1)).map Prod.snd)).1 ∧
    (runInterleaved step a b ops).2 = (runOps step b ((ops.filter (fun p => p.1)).map Prod.snd)).1 := by
  induction ops generalizing a b with
  | nil => exact ⟨rfl, rfl⟩
  | cons p rest ih =>
    obtain ⟨t, o⟩ := p
    cases t with
    | false =>
      obtain ⟨h1, h2⟩ := ih (step a o).2 b
      simp [runInterleaved, runOps, h1, h2]
    | true =>
      obtain ⟨h1, h2⟩ := ih a (step b o).2
      simp [runInterleaved, runOps, h1, h2]

/-- determinism: the observations are a function of the initial state and the op list (`runOps` is a
    function); in particular a clone made after history `h₁` replays exactly like a fresh instance that
    first replays `h₁`. -/
theorem run_deterministic {σ op obs : Type} (step : σ → op → obs × σ) (s : σ) (h₁ h₂ : List op) :
    runOps step s (h₁ ++ h₂) =
      ((runOps step s h₁).1 ++ (runOps step (runOps step s h₁).2 h₂).1, (runOps step (runOps step s h₁).2 h₂).2) := by
  induction h₁ generalizing s with
  | nil => simp [runOps]
  | cons o os ih => simp [runOps, ih]

end Thm.C16
