import BlockModes.Impl.Dbg
/-
  C17 — mode objects do not leak chaining state via Debug output or dropped memory (partial).

  The `Debug` / `AlgorithmName` mirrors of every type defined in /repo ignore the state: the text is a
  function of the type (and of the cipher's algorithm name) only.  With `zeroize`, the `Drop` mirrors leave
  every state-bearing field zero.  Shallow by nature: what the compiler leaves in memory is not
  expressible in the model — the harness's drop scan observes that.  For the byte-level aliases
  (`ctr::Ctr*`, `ofb::Ofb`, `belt_ctr::BeltCtr`) `Debug` comes from the dependency's
  `StreamCipherCoreWrapper` and *does* print the unused keystream bytes of the buffer (finding F3):
  `wrapper_debug_depends_on_buffer`.
-/
namespace Thm.C17
open Impl Impl.Dbg Glue

/-- every `Debug` impl inside /repo is state-independent. -/
theorem debug_state_independent (alg fl : String) :
    (∀ s₁ s₂, cbcEnc alg s₁ = cbcEnc alg s₂) ∧ (∀ s₁ s₂, cbcDec alg s₁ = cbcDec alg s₂) ∧
    (∀ s₁ s₂, pcbcEnc alg s₁ = pcbcEnc alg s₂) ∧ (∀ s₁ s₂, pcbcDec alg s₁ = pcbcDec alg s₂) ∧
    (∀ s₁ s₂, igeEnc alg s₁ = igeEnc alg s₂) ∧ (∀ s₁ s₂, igeDec alg s₁ = igeDec alg s₂) ∧
    (∀ s₁ s₂, cfbEnc alg s₁ = cfbEnc alg s₂) ∧ (∀ s₁ s₂, cfbDec alg s₁ = cfbDec alg s₂) ∧
    (∀ s₁ s₂, cfbBufEnc alg s₁ = cfbBufEnc alg s₂) ∧ (∀ s₁ s₂, cfbBufDec alg s₁ = cfbBufDec alg s₂) ∧
    (∀ s₁ s₂, cfb8Enc alg s₁ = cfb8Enc alg s₂) ∧ (∀ s₁ s₂, cfb8Dec alg s₁ = cfb8Dec alg s₂) ∧
    (∀ s₁ s₂, ofbCore alg s₁ = ofbCore alg s₂) ∧ (∀ s₁ s₂, ctrCore fl alg s₁ = ctrCore fl alg s₂) ∧
    (∀ s₁ s₂, ctrNonce fl s₁ = ctrNonce fl s₂) ∧ (∀ s₁ s₂, beltCore alg s₁ = beltCore alg s₂) := by
  refine ⟨?_, ?_, ?_, ?_, ?_, ?_, ?_, ?_, ?_, ?_, ?_, ?_, ?_, ?_, ?_, ?_⟩ <;> intro _ _ <;> rfl

/-- after `Drop` (zeroize) every byte / word of the chaining state is zero. -/
theorem drop_wipes_secret_fields :
    (∀ s : Bytes, ∀ b ∈ dropBytes s, b = 0) ∧
    (∀ s : Ige.St, (∀ b ∈ (dropIge s).x, b = 0) ∧ (∀ b ∈ (dropIge s).y, b = 0)) ∧
    (∀ s : CfbBuf.St, ∀ b ∈ (dropBuf s).iv, b = 0) ∧
    (∀ s : Ctr.St, (dropCtr s).ctr = 0 ∧ ∀ v ∈ (dropCtr s).nonce, v = 0) ∧
    (∀ s : Belt.St, (dropBelt s).s = 0 ∧ (dropBelt s).sInit = 0) ∧
    (∀ s : Wr Ctr.St, ∀ b ∈ (dropWrapper dropCtr s).buffer, b = 0) := by
  refine ⟨?_, ?_, ?_, ?_, ?_, ?_⟩
  · intro s b hb; simp [dropBytes, zeros] at hb; exact hb.2
  · intro s; constructor <;> intro b hb <;> simp [dropIge, zeros] at hb <;> exact hb.2
  · intro s b hb; simp [dropBuf, zeros] at hb; exact hb.2
  · intro s; refine ⟨rfl, ?_⟩; intro v hv; simp [dropCtr] at hv; exact hv.2.symm
  · intro s; exact ⟨rfl, rfl⟩
  · intro s b hb; simp [dropWrapper, zeros] at hb; exact hb.2

/-- **Finding F3**: the wrapper's `Debug` (cipher crate) depends on the buffered keystream. -/
theorem wrapper_debug_depends_on_buffer :
    wrapper (ctrCore "32BE" "Toy") ({ core := ⟨1, []⟩, buffer := [2, 7, 9, 4] } : Wr Ctr.St)
      ≠ wrapper (ctrCore "32BE" "Toy") ({ core := ⟨1, []⟩, buffer := [2, 7, 1, 4] } : Wr Ctr.St) := by
  decide

end Thm.C17
