import BlockModes.Spec.Block
import BlockModes.Impl.Block
import BlockModes.Lemmas.BlocksCtx
import BlockModes.Lemmas.Xor
import BlockModes.Toy
/-
  C02 — CBC, PCBC and IGE compute exactly their defining recurrences, both directions.

  For every cipher `C` (no validity hypothesis is needed: pure refinement, so the decryptors are also
  correct on ciphertext that no encryptor produced), every backend width `w`, every IV/state and every
  sequence of calls — each through the single-block or the many-block entry point — the outputs and the
  final chaining state of the implementation mirror equal the textbook recurrence on the concatenated
  block sequence.
-/
namespace Thm.C02
open Impl Glue

/-! ### CBC -/

theorem cbc_enc_fold (C : Cipher) (blocks : List Bytes) (iv : Bytes) :
    foldBlocks (Cbc.encBlock C) iv blocks = Spec.cbcEnc C iv blocks := by
  induction blocks generalizing iv with
  | nil => rfl
  | cons b bs ih => simp [foldBlocks, Spec.cbcEnc, Cbc.encBlock, ih]

theorem cbc_dec_fold (C : Cipher) (blocks : List Bytes) (iv : Bytes) :
    foldBlocks (Cbc.decBlock C) iv blocks = Spec.cbcDec C iv blocks := by
  induction blocks generalizing iv with
  | nil => rfl
  | cons b bs ih => simp [foldBlocks, Spec.cbcDec, Cbc.decBlock, ih]

/-- the hand-written parallel body of `cbc::Decryptor` agrees with the sequential one on every chunk. -/
theorem cbc_decPar_eq_fold (C : Cipher) (chunk : List Bytes) (iv : Bytes) :
    Cbc.decPar C iv chunk = foldBlocks (Cbc.decBlock C) iv chunk := by
  induction chunk generalizing iv with
  | nil => simp [Cbc.decPar, foldBlocks]
  | cons c cs ih =>
    have h := ih c
    simp only [Cbc.decPar] at h ⊢
    cases cs with
    | nil => simp [foldBlocks, Cbc.decBlock]
    | cons d ds =>
      simp only [foldBlocks, Cbc.decBlock] at h ⊢
      simp only [List.map_cons, List.dropLast_cons_cons, List.zipWith_cons_cons, Prod.mk.injEq] at h ⊢
      obtain ⟨h1, h2⟩ := h
      refine ⟨?_, ?_⟩
      · simp [h1]
      · simpa [List.getLastD] using h2

theorem cbc_encBlocks_eq (C : Cipher) (w : Nat) (iv : Bytes) (blocks : List Bytes) :
    Cbc.encBlocks C w iv blocks = Spec.cbcEnc C iv blocks := by
  rw [Cbc.encBlocks, blocksCtx_one, cbc_enc_fold]

theorem cbc_decBlocks_eq (C : Cipher) (w : Nat) (iv : Bytes) (blocks : List Bytes) :
    Cbc.decBlocks C w iv blocks = Spec.cbcDec C iv blocks := by
  rw [Cbc.decBlocks, blocksCtx_eq_fold w _ _ (fun s ch _ => cbc_decPar_eq_fold C ch s), cbc_dec_fold]

/-- **CBC encryption**: any call sequence, any width. -/
theorem cbc_enc_refines (C : Cipher) (w : Nat) (iv : Bytes) (calls : List Call) :
    runMixed (Cbc.encBlock C) (Cbc.encBlocks C w) (Cbc.init C iv) calls
      = Spec.cbcEnc C iv (calls.map Call.blocks).flatten := by
  rw [runMixed_fold _ _ (fun s l => by rw [cbc_encBlocks_eq, cbc_enc_fold]), cbc_enc_fold]; rfl

/-- **CBC decryption** (incl. the parallel body): any call sequence, any width, arbitrary ciphertext. -/
theorem cbc_dec_refines (C : Cipher) (w : Nat) (iv : Bytes) (calls : List Call) :
    runMixed (Cbc.decBlock C) (Cbc.decBlocks C w) (Cbc.init C iv) calls
      = Spec.cbcDec C iv (calls.map Call.blocks).flatten := by
  rw [runMixed_fold _ _ (fun s l => by rw [cbc_decBlocks_eq, cbc_dec_fold]), cbc_dec_fold]; rfl

/-- the exported state is the chaining value of the recurrence (last ciphertext block, or the IV). -/
theorem cbc_final_state (C : Cipher) (w : Nat) (iv : Bytes) (blocks : List Bytes) :
    Cbc.ivState C (Cbc.encBlocks C w (Cbc.init C iv) blocks).2 = (Spec.cbcEnc C iv blocks).2 ∧
    Cbc.ivState C (Cbc.decBlocks C w (Cbc.init C iv) blocks).2 = (Spec.cbcDec C iv blocks).2 := by
  rw [cbc_encBlocks_eq, cbc_decBlocks_eq]; exact ⟨rfl, rfl⟩

/-! ### PCBC -/

theorem pcbc_enc_fold (C : Cipher) (blocks : List Bytes) (iv : Bytes) :
    foldBlocks (Pcbc.encBlock C) iv blocks = Spec.pcbcEnc C iv blocks := by
  induction blocks generalizing iv with
  | nil => rfl
  | cons b bs ih => simp [foldBlocks, Spec.pcbcEnc, Pcbc.encBlock, ih]

theorem pcbc_dec_fold (C : Cipher) (blocks : List Bytes) (iv : Bytes) :
    foldBlocks (Pcbc.decBlock C) iv blocks = Spec.pcbcDec C iv blocks := by
  induction blocks generalizing iv with
  | nil => rfl
  | cons b bs ih => simp [foldBlocks, Spec.pcbcDec, Pcbc.decBlock, ih, xorB_comm b]

theorem pcbc_enc_refines (C : Cipher) (w : Nat) (iv : Bytes) (calls : List Call) :
    runMixed (Pcbc.encBlock C) (Pcbc.encBlocks C w) (Pcbc.init C iv) calls
      = Spec.pcbcEnc C iv (calls.map Call.blocks).flatten := by
  rw [runMixed_fold _ _ (fun s l => by rw [Pcbc.encBlocks, blocksCtx_one]), pcbc_enc_fold]; rfl

theorem pcbc_dec_refines (C : Cipher) (w : Nat) (iv : Bytes) (calls : List Call) :
    runMixed (Pcbc.decBlock C) (Pcbc.decBlocks C w) (Pcbc.init C iv) calls
      = Spec.pcbcDec C iv (calls.map Call.blocks).flatten := by
  rw [runMixed_fold _ _ (fun s l => by rw [Pcbc.decBlocks, blocksCtx_one]), pcbc_dec_fold]; rfl

/-! ### IGE — implementation state `(x, y)` = (previous plaintext, previous ciphertext);
    spec state `(C_{i-1}, P_{i-1})`; the double-length IV is `C_0 ‖ P_0`. -/

def igeAbs (s : Ige.St) : Bytes × Bytes := (s.y, s.x)
def igeConc (p : Bytes × Bytes) : Ige.St := { x := p.2, y := p.1 }

theorem ige_enc_fold (C : Cipher) (blocks : List Bytes) (s : Ige.St) :
    foldBlocks (Ige.encBlock C) s blocks =
      ((Spec.igeEnc C (igeAbs s) blocks).1, igeConc (Spec.igeEnc C (igeAbs s) blocks).2) := by
  induction blocks generalizing s with
  | nil => cases s; rfl
  | cons b bs ih =>
    cases s with
    | mk x y => simp [foldBlocks, Spec.igeEnc, Ige.encBlock, ih, igeAbs]

theorem ige_dec_fold (C : Cipher) (blocks : List Bytes) (s : Ige.St) :
    foldBlocks (Ige.decBlock C) s blocks =
      ((Spec.igeDec C (igeAbs s) blocks).1, igeConc (Spec.igeDec C (igeAbs s) blocks).2) := by
  induction blocks generalizing s with
  | nil => cases s; rfl
  | cons b bs ih =>
    cases s with
    | mk x y => simp [foldBlocks, Spec.igeDec, Ige.decBlock, ih, igeAbs]

/-- the IV is read as `C_0` followed by `P_0`. -/
theorem ige_init_abs (C : Cipher) (iv : Bytes) : igeAbs (Ige.init C iv) = Spec.igeIv C iv := rfl

/-- the exported IV state is `C_n ‖ P_n`. -/
theorem ige_ivState_abs (C : Cipher) (s : Ige.St) : Ige.ivState C s = Spec.igeIvJoin (igeAbs s) := rfl

theorem ige_enc_refines (C : Cipher) (w : Nat) (iv : Bytes) (calls : List Call) :
    (runMixed (Ige.encBlock C) (Ige.encBlocks C w) (Ige.init C iv) calls).1
        = (Spec.igeEnc C (Spec.igeIv C iv) (calls.map Call.blocks).flatten).1 ∧
    Ige.ivState C (runMixed (Ige.encBlock C) (Ige.encBlocks C w) (Ige.init C iv) calls).2
        = Spec.igeIvJoin (Spec.igeEnc C (Spec.igeIv C iv) (calls.map Call.blocks).flatten).2 := by
  rw [runMixed_fold _ _ (fun s l => by rw [Ige.encBlocks, blocksCtx_one]), ige_enc_fold, ige_init_abs]
  exact ⟨rfl, rfl⟩

theorem ige_dec_refines (C : Cipher) (w : Nat) (iv : Bytes) (calls : List Call) :
    (runMixed (Ige.decBlock C) (Ige.decBlocks C w) (Ige.init C iv) calls).1
        = (Spec.igeDec C (Spec.igeIv C iv) (calls.map Call.blocks).flatten).1 ∧
    Ige.ivState C (runMixed (Ige.decBlock C) (Ige.decBlocks C w) (Ige.init C iv) calls).2
        = Spec.igeIvJoin (Spec.igeDec C (Spec.igeIv C iv) (calls.map Call.blocks).flatten).2 := by
  rw [runMixed_fold _ _ (fun s l => by rw [Ige.decBlocks, blocksCtx_one]), ige_dec_fold, ige_init_abs]
  exact ⟨rfl, rfl⟩

/-! ### non-vacuity: a concrete run through the parallel path (w = 2, three blocks: one chunk + tail) -/
example :
    (Cbc.decBlocks (Toy.cipher [1,2,3,4,5,6,7,8,9,10,11,12,13,14,15,16] 2) 2 [9, 9] [[1, 2], [3, 4], [5, 6]]).1
      = (Spec.cbcDec (Toy.cipher [1,2,3,4,5,6,7,8,9,10,11,12,13,14,15,16] 2) [9, 9] [[1, 2], [3, 4], [5, 6]]).1 := by
  rw [cbc_decBlocks_eq]

end Thm.C02
