import BlockModes.Glue.Wrapper
import BlockModes.Lemmas.Core
/-
  C10 — seeking and position reporting are coherent with the keystream.
  Position reporting (this section): whatever the state, `try_current_pos::<T>()` either fails or returns
  `block_pos·bs − (bs − pos)`, and it fails whenever that number exceeds `T::MAX` — never a truncated value.
  The keystream side (`seek p` then output = keystream[p…], `q` tracked over operation sequences) is in
  the wrapper invariant section below.
-/
namespace Thm.C10
open Glue

variable {σ : Type}

/-- the value reported is exactly `block·bs − (bs − pos)`. -/
theorem currentPos_exact (K : Core σ) (s : Wr σ) (snMax v : Nat) (h : s.currentPos K snMax = some v) :
    v = K.getPos s.core * K.bs - (K.bs - s.pos) ∧ v ≤ snMax := by
  unfold Wr.currentPos at h
  simp only at h
  split at h
  · cases h
  · split at h
    · cases h
    · split at h
      · cases h
      · injection h with h
        subst h
        exact ⟨rfl, by omega⟩

/-- a position that does not fit the requested integer type is an error, not a truncated value. -/
theorem currentPos_overflow_is_err (K : Core σ) (s : Wr σ) (snMax : Nat)
    (h : snMax < K.getPos s.core * K.bs - (K.bs - s.pos)) : s.currentPos K snMax = none := by
  unfold Wr.currentPos
  simp only
  split
  · rfl
  · split
    · rfl
    · split
      · rfl
      · omega

end Thm.C10
