import BlockModes.Glue.Wrapper
import BlockModes.Lemmas.Core
import BlockModes.Lemmas.CoreInst
/-
  C10 — seeking and position reporting are coherent with the keystream.
  Position reporting (this section): whatever the state, `try_current_pos::<T>()` either fails or returns
  `block_pos·bs − (bs − pos)`, and it fails whenever that number exceeds `T::MAX` — never a truncated value.
  The keystream side (`seek p` then output = keystream[p…], `q` tracked over operation sequences) is in
  the wrapper invariant section below.
-/
namespace Thm.C10
open Glue

variable {σ : Type}

/-- the value reported is exactly `block·bs − (bs − pos)`. -/
theorem currentPos_exact (K : Core σ) (s : Wr σ) (snMax v : Nat) (h : s.currentPos K snMax = some v) :
    v = K.getPos s.core * K.bs - (K.bs - s.pos) ∧ v ≤ snMax := by
  unfold Wr.currentPos at h
  simp only at h
  split at h
  · cases h
  · split at h
    · cases h
    · split at h
      · cases h
      · injection h with h
        subst h
        exact ⟨rfl, by omega⟩

/-- a position that does not fit the requested integer type is an error, not a truncated value. -/
theorem currentPos_overflow_is_err (K : Core σ) (s : Wr σ) (snMax : Nat)
    (h : snMax < K.getPos s.core * K.bs - (K.bs - s.pos)) : s.currentPos K snMax = none := by
  unfold Wr.currentPos
  simp only
  split
  · rfl
  · split
    · rfl
    · split
      · rfl
      · omega

/-! ### the keystream side: every finite sequence of `{seek, apply, current_pos}` operations -/

open Spec Impl

/-- **CTR, all six flavours** (`f.w = 8·cs`, block = `k ≥ 1` counter-size words, block size < 256): from a
    fresh instance, any sequence of operations whose seek targets lie inside the keystream and whose
    requests are shorter than 2^64 bytes is observationally the reference machine on the byte position `q`:
    after `seek p` the bytes produced are keystream bytes `p, p+1, …` of the documented keystream; a reported
    position is `q`; an error is reported instead of a value that does not fit; requests succeed exactly
    while they end at or before `(2^w − 1)·bs`. -/
theorem ctr_ops_coherent (C : Cipher) (hC : C.Valid) (hbs : C.bs < 256) (f : Flavor) (hw : f.w = 8 * f.cs)
    (hcs : 0 < f.cs) (k : Nat) (hk : 0 < k) (iv : Bytes) (hiv : iv.length = k * f.cs) (hblk : C.bs = k * f.cs)
    (w : Nat) (ops : List SOp) (hv : ∀ o ∈ ops, o.Valid C.bs (2 ^ f.w - 1)) :
    (Wr.runOps (Ctr.core C f) w (Wr.fromCore (Ctr.core C f) (Ctr.init C f iv)) ops).1
      = (refRun C.bs (2 ^ f.w - 1) (ksByte C.bs (ctrKs C f iv)) 0 ops).1 := by
  have hK := ctr_coreSpec C hC hbs f hw hcs k hk iv hiv hblk
  have hS := ctr_seekSpec C f iv
  obtain ⟨hI, hq⟩ := fromCore_inv hK (Ctr.init C f iv) 0 (ctr_init_rep C f iv)
  have := ops_coherent hK hS w ops _ 0 hI hv
  rw [hq, Nat.zero_mul] at this
  exact this

/-- **BelT-CTR** (16-byte blocks): the same statement with the limit `2^128 − 1` blocks. -/
theorem belt_ops_coherent (C : Cipher) (hC : C.Valid) (hbs : C.bs = 16) (iv : Bytes) (hiv : iv.length = 16)
    (w : Nat) (ops : List SOp) (hv : ∀ o ∈ ops, o.Valid C.bs (2 ^ 128 - 1)) :
    (Wr.runOps (Belt.core C) w (Wr.fromCore (Belt.core C) (Belt.init C iv)) ops).1
      = (refRun C.bs (2 ^ 128 - 1) (ksByte C.bs (beltKs C iv)) 0 ops).1 := by
  have hs0 := C06.beltS0_lt C hC hbs iv hiv
  have hK := belt_coreSpec C hC hbs iv
  have hS := belt_seekSpec C iv hs0
  obtain ⟨hI, hq⟩ := fromCore_inv hK (Belt.init C iv) 0 (belt_init_rep C iv hs0)
  have := ops_coherent hK hS w ops _ 0 hI hv
  rw [hq, Nat.zero_mul] at this
  exact this

/-- the reference machine reports the position exactly (when the end of the current block fits the type). -/
theorem ref_pos_exact (bs lim : Nat) (kb : Nat → UInt8) (q m : Nat) (h : (q + bs - 1) / bs * bs ≤ m) :
    (refStep bs lim kb q (.pos m)).1 = .pos q := by simp [refStep, h]

/-- after `seek p` the reference machine produces keystream bytes `p, p+1, …`. -/
theorem ref_seek_then_apply (bs lim : Nat) (kb : Nat → UInt8) (q p : Nat) (d : Bytes) (h : p + d.length ≤ lim * bs) :
    (refRun bs lim kb q [.seek p, .apply d]).1 = [.ok, .out (xorB d (ksBytes kb p d.length))] := by
  simp [refRun, refStep, h]

/-- the reference machine on a concatenated history. -/
theorem refRun_append (bs lim : Nat) (kb : Nat → UInt8) : ∀ (a b : List SOp) (q : Nat),
    (refRun bs lim kb q (a ++ b)).1 = (refRun bs lim kb q a).1 ++ (refRun bs lim kb (refRun bs lim kb q a).2 b).1 := by
  intro a
  induction a with
  | nil => intro b q; simp [refRun]
  | cons o os ih => intro b q; simp [refRun, ih]

/-- **seek, then ask**: on the model of the code itself (not only on the reference machine), after *any* valid history a
    `seek p` into the keystream succeeds and the position reported next is `p` — for every integer type that can hold the end
    of the block `p` lies in; whatever came before (data, earlier seeks, position queries) has no influence.
    Stated once for any object whose histories are those of the reference machine; instances CTR (six flavours) and BelT-CTR. -/
theorem seek_then_pos_generic (bs lim : Nat) (kb : Nat → UInt8) (run : List SOp → List SObs)
    (H : ∀ ops : List SOp, (∀ o ∈ ops, o.Valid bs lim) → run ops = (refRun bs lim kb 0 ops).1)
    (ops : List SOp) (hv : ∀ o ∈ ops, o.Valid bs lim) (p m : Nat) (hp : p < lim * bs) (hm : (p + bs - 1) / bs * bs ≤ m) :
    run (ops ++ [.seek p, .pos m]) = run ops ++ [.ok, .pos p] := by
  have hv2 : ∀ o ∈ ops ++ [SOp.seek p, .pos m], o.Valid bs lim := by
    intro o ho
    rcases List.mem_append.mp ho with h | h
    · exact hv o h
    · simp at h
      rcases h with rfl | rfl <;> simp [SOp.Valid, hp]
  rw [H _ hv2, H _ hv, refRun_append]
  simp [refRun, refStep, hm]

theorem ctr_seek_then_pos (C : Cipher) (hC : C.Valid) (hbs : C.bs < 256) (f : Flavor) (hw : f.w = 8 * f.cs)
    (hcs : 0 < f.cs) (k : Nat) (hk : 0 < k) (iv : Bytes) (hiv : iv.length = k * f.cs) (hblk : C.bs = k * f.cs)
    (w : Nat) (ops : List SOp) (hv : ∀ o ∈ ops, o.Valid C.bs (2 ^ f.w - 1)) (p m : Nat) (hp : p < (2 ^ f.w - 1) * C.bs)
    (hm : (p + C.bs - 1) / C.bs * C.bs ≤ m) :
    (Wr.runOps (Ctr.core C f) w (Wr.fromCore (Ctr.core C f) (Ctr.init C f iv)) (ops ++ [.seek p, .pos m])).1
      = (Wr.runOps (Ctr.core C f) w (Wr.fromCore (Ctr.core C f) (Ctr.init C f iv)) ops).1 ++ [.ok, .pos p] :=
  seek_then_pos_generic C.bs (2 ^ f.w - 1) (ksByte C.bs (ctrKs C f iv))
    (fun ops => (Wr.runOps (Ctr.core C f) w (Wr.fromCore (Ctr.core C f) (Ctr.init C f iv)) ops).1)
    (fun ops hv => ctr_ops_coherent C hC hbs f hw hcs k hk iv hiv hblk w ops hv) ops hv p m hp hm

theorem belt_seek_then_pos (C : Cipher) (hC : C.Valid) (hbs : C.bs = 16) (iv : Bytes) (hiv : iv.length = 16)
    (w : Nat) (ops : List SOp) (hv : ∀ o ∈ ops, o.Valid C.bs (2 ^ 128 - 1)) (p m : Nat) (hp : p < (2 ^ 128 - 1) * C.bs)
    (hm : (p + C.bs - 1) / C.bs * C.bs ≤ m) :
    (Wr.runOps (Belt.core C) w (Wr.fromCore (Belt.core C) (Belt.init C iv)) (ops ++ [.seek p, .pos m])).1
      = (Wr.runOps (Belt.core C) w (Wr.fromCore (Belt.core C) (Belt.init C iv)) ops).1 ++ [.ok, .pos p] :=
  seek_then_pos_generic C.bs (2 ^ 128 - 1) (ksByte C.bs (beltKs C iv))
    (fun ops => (Wr.runOps (Belt.core C) w (Wr.fromCore (Belt.core C) (Belt.init C iv)) ops).1)
    (fun ops hv => belt_ops_coherent C hC hbs iv hiv w ops hv) ops hv p m hp hm

/-! non-vacuity: a valid history with a forward seek, a backward seek and a mid-block seek (bs = 16, w = 32) -/
example : ∀ o ∈ [SOp.apply [1, 2, 3], .seek 1000, .pos (2 ^ 32 - 1), .seek 5, .apply [4], .seek 17],
    o.Valid 16 (2 ^ 32 - 1) := by
  intro o ho
  simp at ho
  rcases ho with rfl | rfl | rfl | rfl | rfl | rfl <;> simp [SOp.Valid]

end Thm.C10
