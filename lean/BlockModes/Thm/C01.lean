import BlockModes.Thm.C02
import BlockModes.Thm.C03
import BlockModes.Thm.C08
import BlockModes.Thm.C05
import BlockModes.Lemmas.Padding
import BlockModes.Lemmas.MemLoop
/-
  C01 — decryption inverts encryption, and unpadded operations preserve length.

  Obtained as corollaries: `Impl = Spec` (C02/C03 refinement, any width, any call sequence) composed with
  the spec-level inverses of `Lemmas/SpecBlock.lean`.  Hypotheses: `C.Valid` (the cipher is a
  length-preserving permutation on blocks), IV of the right length, message made of whole blocks for the
  block-level entry points.  Encryption and decryption may use different backend widths `w₁`, `w₂`
  and different call partitions.
  Stream-cipher, buffered-CFB, CTS and padded paths: see the sections at the end of the file.
-/
namespace Thm.C01
open Impl Glue Spec

/-- blocks fed through any call sequence -/
def fed (calls : List Call) : List Bytes := (calls.map Call.blocks).flatten

theorem cbc_roundtrip (C : Cipher) (hC : C.Valid) (w₁ w₂ : Nat) (iv : Bytes) (hiv : iv.length = C.bs)
    (ce cd : List Call) (hm : AllLen C.bs (fed ce))
    (hcd : fed cd = (runMixed (Cbc.encBlock C) (Cbc.encBlocks C w₁) (Cbc.init C iv) ce).1) :
    (runMixed (Cbc.decBlock C) (Cbc.decBlocks C w₂) (Cbc.init C iv) cd).1 = fed ce := by
  unfold fed at *
  rw [C02.cbc_dec_refines, hcd, C02.cbc_enc_refines]
  exact (cbcDec_cbcEnc C hC _ iv hiv hm).1

theorem cbc_length (C : Cipher) (w : Nat) (iv : Bytes) (ce : List Call) :
    (runMixed (Cbc.encBlock C) (Cbc.encBlocks C w) (Cbc.init C iv) ce).1.length = (fed ce).length := by
  unfold fed
  rw [C02.cbc_enc_refines, cbcEnc_length]

theorem pcbc_roundtrip (C : Cipher) (hC : C.Valid) (w₁ w₂ : Nat) (iv : Bytes) (hiv : iv.length = C.bs)
    (ce cd : List Call) (hm : AllLen C.bs (fed ce))
    (hcd : fed cd = (runMixed (Pcbc.encBlock C) (Pcbc.encBlocks C w₁) (Pcbc.init C iv) ce).1) :
    (runMixed (Pcbc.decBlock C) (Pcbc.decBlocks C w₂) (Pcbc.init C iv) cd).1 = fed ce := by
  unfold fed at *
  rw [C02.pcbc_dec_refines, hcd, C02.pcbc_enc_refines]
  exact (pcbcDec_pcbcEnc C hC _ iv hiv hm).1

theorem ige_roundtrip (C : Cipher) (hC : C.Valid) (w₁ w₂ : Nat) (iv : Bytes) (hiv : iv.length = 2 * C.bs)
    (ce cd : List Call) (hm : AllLen C.bs (fed ce))
    (hcd : fed cd = (runMixed (Ige.encBlock C) (Ige.encBlocks C w₁) (Ige.init C iv) ce).1) :
    (runMixed (Ige.decBlock C) (Ige.decBlocks C w₂) (Ige.init C iv) cd).1 = fed ce := by
  unfold fed at *
  rw [(C02.ige_dec_refines C w₂ iv cd).1, hcd, (C02.ige_enc_refines C w₁ iv ce).1]
  have h1 : (igeIv C iv).1.length = C.bs := by simp [igeIv]; omega
  have h2 : (igeIv C iv).2.length = C.bs := by simp [igeIv]; omega
  exact (igeDec_igeEnc C hC _ (igeIv C iv) h1 h2 hm).1

theorem cfb_roundtrip (C : Cipher) (hC : C.Valid) (w₁ w₂ : Nat) (iv : Bytes) (hiv : iv.length = C.bs)
    (ce cd : List Call) (hm : AllLen C.bs (fed ce))
    (hcd : fed cd = (runMixed (Cfb.encBlock C) (Cfb.encBlocks C w₁) (Cfb.init C iv) ce).1) :
    (runMixed (Cfb.decBlock C) (Cfb.decBlocks C w₂) (Cfb.init C iv) cd).1 = fed ce := by
  unfold fed at *
  rw [C03.cfb_dec_refines, hcd, C03.cfb_enc_refines]
  exact (cfbDec_cfbEnc C hC _ iv hiv hm).1

/-- CFB-8 on byte strings cut into calls arbitrarily on both sides. -/
theorem cfb8_roundtrip (C : Cipher) (hC : C.Valid) (w₁ w₂ : Nat) (iv : Bytes) (hiv : iv.length = C.bs)
    (pe pd : List Bytes)
    (hpd : pd.flatten = (Spec.cfb8Enc C iv pe.flatten).1) :
    (runCalls (Cfb8.decBlocks C w₂) (Cfb8.init C iv) (pd.map C03.bytesAsBlocks)).1
      = C03.bytesAsBlocks pe.flatten ∧
    (runCalls (Cfb8.encBlocks C w₁) (Cfb8.init C iv) (pe.map C03.bytesAsBlocks)).1
      = C03.bytesAsBlocks (Spec.cfb8Enc C iv pe.flatten).1 := by
  rw [C03.cfb8_dec_refines C hC w₂ iv hiv, C03.cfb8_enc_refines C hC w₁ iv hiv, hpd]
  exact ⟨by rw [(cfb8Dec_cfb8Enc C _ iv).1], rfl⟩

theorem ofb_roundtrip (C : Cipher) (hC : C.Valid) (w₁ w₂ : Nat) (iv : Bytes) (hiv : iv.length = C.bs)
    (ce cd : List Call) (hm : AllLen C.bs (fed ce))
    (hcd : fed cd = (runMixed (Ofb.encBlock C) (Ofb.encBlocks C w₁) (Ofb.init C iv) ce).1) :
    (runMixed (Ofb.decBlock C) (Ofb.decBlocks C w₂) (Ofb.init C iv) cd).1 = fed ce := by
  unfold fed at *
  rw [(C03.ofb_refines C w₂ iv cd).2, hcd, (C03.ofb_refines C w₁ iv ce).1]
  exact (ofb_ofb C hC _ iv hiv hm).1

/-- one-shot CFB on any byte length (trailing partial block included) inverts, and preserves length. -/
theorem cfb_oneshot_roundtrip (C : Cipher) (hC : C.Valid) (w₁ w₂ : Nat) (iv m : Bytes) (hiv : iv.length = C.bs) :
    asyncInOut C.bs (Cfb.decBlocks C w₂) (Cfb.decBlock C) (Cfb.init C iv)
      (asyncInOut C.bs (Cfb.encBlocks C w₁) (Cfb.encBlock C) (Cfb.init C iv) m) = m := by
  rw [C03.cfb_oneshot_enc, C03.cfb_oneshot_dec]
  exact Spec.cfbDecBytes_cfbEncBytes C hC iv m hiv

/-! ### byte-stream front-ends -/

/-- reference machine: decrypting what was encrypted, step by step, returns the input and keeps the two
    machines in the same state. -/
theorem rs_dec_enc (C : Cipher) (m : Bytes) (a : RS) :
    (RS.run true C a (RS.run false C a m).1).1 = m ∧ (RS.run true C a (RS.run false C a m).1).2 = (RS.run false C a m).2 := by
  induction m generalizing a with
  | nil => exact ⟨rfl, rfl⟩
  | cons x xs ih =>
    simp only [RS.run, RS.step]
    have hx : x ^^^ (C.enc a.ch).getD a.cur.length 0 ^^^ (C.enc a.ch).getD a.cur.length 0 = x := by
      rw [UInt8.xor_assoc, UInt8.xor_self, UInt8.xor_zero]
    by_cases hb : (a.cur ++ [x ^^^ (C.enc a.ch).getD a.cur.length 0]).length = C.bs
    · simp only [hb, if_true, Bool.false_eq_true, if_false]
      obtain ⟨h1, h2⟩ := ih { ch := a.cur ++ [x ^^^ (C.enc a.ch).getD a.cur.length 0], cur := [] }
      exact ⟨by rw [hx, h1], h2⟩
    · simp only [hb, if_false, Bool.false_eq_true, if_true]
      obtain ⟨h1, h2⟩ := ih { a with cur := a.cur ++ [x ^^^ (C.enc a.ch).getD a.cur.length 0] }
      exact ⟨by rw [hx, h1], h2⟩

/-- **buffered CFB**: a `BufDecryptor` fed the ciphertext in any pieces returns what a `BufEncryptor` was fed
    in any (other) pieces; the ciphertext has the length of the message. -/
theorem cfbbuf_roundtrip (C : Cipher) (hC : C.Valid) (iv : Bytes) (hiv : iv.length = C.bs) (pe pd : List Bytes)
    (hpd : pd.flatten = (C08.bufRun false C (CfbBuf.init C iv) pe).1.flatten) :
    (C08.bufRun true C (CfbBuf.init C iv) pd).1.flatten = pe.flatten ∧
    (C08.bufRun false C (CfbBuf.init C iv) pe).1.flatten.length = pe.flatten.length := by
  rw [C08.cfbbuf_any_chunking true C hC iv hiv pd, hpd, C08.cfbbuf_any_chunking false C hC iv hiv pe]
  exact ⟨(rs_dec_enc C pe.flatten (RS.init iv)).1, RS.run_length false C _ _⟩

/-- **keystream ciphers** (CTR ×6, BelT-CTR, OFB): a second instance at the same position undoes the first —
    encryption and decryption are the same XOR with keystream[q, q+n) — and the length is preserved. -/
theorem stream_roundtrip {σ : Type} {K : Core σ} {M : Nat} {ks : Nat → Bytes} {Rep : σ → Nat → Prop}
    (hK : CoreSpec K M ks Rep) (w₁ w₂ : Nat) (s₁ s₂ : Wr σ) (b₁ b₂ : Nat)
    (h₁ : WInv K ks Rep s₁ b₁) (h₂ : WInv K ks Rep s₂ b₂) (hq : s₁.q K b₁ = s₂.q K b₂) (data : Bytes)
    (hfit : M = 0 ∨ s₁.q K b₁ + data.length ≤ (M - 1) * K.bs) :
    (s₂.applyUnchecked K w₂ (s₁.applyUnchecked K w₁ data).1).1 = data ∧
    (s₁.applyUnchecked K w₁ data).1.length = data.length := by
  have e1 := (apply_spec hK w₁ s₁ b₁ data h₁ hfit).1
  have hl : (s₁.applyUnchecked K w₁ data).1.length = data.length := by rw [e1]; simp
  have e2 := (apply_spec hK w₂ s₂ b₂ _ h₂ (by rw [← hq, hl]; exact hfit)).1
  refine ⟨?_, hl⟩
  rw [e2, hl, ← hq, e1]
  exact xorB_cancel_right data _ (by simp)

/-- **the consuming core-level one-shot** `try_apply_keystream_partial` (CTR ×6, BelT-CTR, OFB): two cores at the same block
    position — the second undoes the first, any byte length, any two backend widths; the length is preserved. -/
theorem partial_roundtrip {σ : Type} {K : Core σ} {M : Nat} {ks : Nat → Bytes} {Rep : σ → Nat → Prop}
    (hK : CoreSpec K M ks Rep) (w₁ w₂ : Nat) (s₁ s₂ : σ) (blk : Nat) (h₁ : Rep s₁ blk) (h₂ : Rep s₂ blk) (data : Bytes)
    (hfit : M = 0 ∨ blk + (data.length + K.bs - 1) / K.bs < M) :
    applyPartialUnchecked K w₂ s₂ (applyPartialUnchecked K w₁ s₁ data) = data ∧
    (applyPartialUnchecked K w₁ s₁ data).length = data.length := by
  have e1 := applyPartial_spec hK w₁ s₁ blk h₁ data hfit
  have hl : (applyPartialUnchecked K w₁ s₁ data).length = data.length := by rw [e1]; simp
  have e2 := applyPartial_spec hK w₂ s₂ blk h₂ (applyPartialUnchecked K w₁ s₁ data) (by rw [hl]; exact hfit)
  refine ⟨?_, hl⟩
  rw [e2, hl, e1]
  exact xorB_cancel_right data _ (by simp)

/-! ### every unpadded operation produces exactly as many bytes as it was given (generic) -/

/-- **every block-level call sequence returns exactly as many blocks as it was given** — any mode whose many-block entry point
    is the fold of its single-block step (all twelve directions: C02/C03 `*_fold`, `*_eq_fold` lemmas), any mixture of calls. -/
theorem blocks_count_preserved {σ : Type} (step : σ → Bytes → Bytes × σ) (blocksFn : σ → List Bytes → List Bytes × σ)
    (h : ∀ s l, blocksFn s l = foldBlocks step s l) (s : σ) (calls : List Call) :
    (runMixed step blocksFn s calls).1.length = (fed calls).length := by
  rw [runMixed_fold step blocksFn h, foldBlocks_length]; rfl

/-- … and exactly as many *bytes*: when the single-block step keeps the block length on the states reachable from `s`
    (`StepOk`; instances for every backend body are the `*_stepOk` lemmas used by C12), the output has the input's byte length. -/
theorem bytes_count_preserved {σ : Type} (P : σ → Prop) (bs : Nat) (step : σ → Bytes → Bytes × σ)
    (hstep : Impl.MemCts.StepOk P step bs) (blocksFn : σ → List Bytes → List Bytes × σ)
    (h : ∀ s l, blocksFn s l = foldBlocks step s l) (s : σ) (hs : P s) (calls : List Call) (hm : AllLen bs (fed calls)) :
    (runMixed step blocksFn s calls).1.flatten.length = (fed calls).flatten.length := by
  rw [runMixed_fold step blocksFn h]
  show (foldBlocks step s (fed calls)).1.flatten.length = _
  rw [Impl.MemCts.foldBlocks_flatten_length P step bs hstep _ s hs hm, flatten_length_of_allLen bs _ hm]


/-! ### padded (PKCS#7) -/

/-- the generic statement is `Glue.padded_roundtrip` (any block mode whose decrypt fold inverts its encrypt fold);
    `Spec.pkcs7Unpad_pad` is the padding scheme itself.  Instances for the modes used with padding: -/
theorem cbc_padded_roundtrip (C : Cipher) (hC : C.Valid) (hbs : C.bs < 256) (w₁ w₂ : Nat) (iv : Bytes)
    (hiv : iv.length = C.bs) (m : Bytes) :
    paddedDec C.bs (Cbc.decBlocks C w₂) (Cbc.init C iv)
      (paddedEnc C.bs (Cbc.encBlocks C w₁) (Cbc.encBlock C) (Cbc.init C iv) m) = some m := by
  apply Glue.padded_roundtrip C.bs hC.bs_pos hbs (Cbc.encBlock C) (Cbc.decBlock C)
  · intro s l; rw [C02.cbc_encBlocks_eq, C02.cbc_enc_fold]
  · intro s l; rw [C02.cbc_decBlocks_eq, C02.cbc_dec_fold]
  · intro l hl; rw [C02.cbc_enc_fold, C02.cbc_dec_fold]; exact (cbcDec_cbcEnc C hC l iv hiv hl).1
  · intro l hl; rw [C02.cbc_enc_fold]; exact (cbcEnc_allLen C hC l iv hiv hl).1

theorem pcbc_padded_roundtrip (C : Cipher) (hC : C.Valid) (hbs : C.bs < 256) (w₁ w₂ : Nat) (iv : Bytes)
    (hiv : iv.length = C.bs) (m : Bytes) :
    paddedDec C.bs (Pcbc.decBlocks C w₂) (Pcbc.init C iv)
      (paddedEnc C.bs (Pcbc.encBlocks C w₁) (Pcbc.encBlock C) (Pcbc.init C iv) m) = some m := by
  have hstep : Impl.MemCts.StepOk (fun s : Bytes => s.length = C.bs) (Pcbc.encBlock C) C.bs := by
    intro s b hs hb
    have he : (C.enc (xorB b s)).length = C.bs := hC.enc_len _ (by simp [hb, hs])
    exact ⟨he, by simp [Pcbc.encBlock, hb, he]⟩
  apply Glue.padded_roundtrip C.bs hC.bs_pos hbs (Pcbc.encBlock C) (Pcbc.decBlock C)
  · intro s l; rw [Pcbc.encBlocks, blocksCtx_one]
  · intro s l; rw [Pcbc.decBlocks, blocksCtx_one]
  · intro l hl; rw [C02.pcbc_enc_fold, C02.pcbc_dec_fold]; exact (pcbcDec_pcbcEnc C hC l iv hiv hl).1
  · intro l hl; exact (Impl.MemCts.foldBlocks_inv _ _ C.bs hstep l iv hiv hl).1

theorem ige_padded_roundtrip (C : Cipher) (hC : C.Valid) (hbs : C.bs < 256) (w₁ w₂ : Nat) (iv : Bytes)
    (hiv : iv.length = 2 * C.bs) (m : Bytes) :
    paddedDec C.bs (Ige.decBlocks C w₂) (Ige.init C iv)
      (paddedEnc C.bs (Ige.encBlocks C w₁) (Ige.encBlock C) (Ige.init C iv) m) = some m := by
  have hstep : Impl.MemCts.StepOk (fun s : Ige.St => s.x.length = C.bs ∧ s.y.length = C.bs) (Ige.encBlock C) C.bs := by
    intro s b hs hb
    have he : (C.enc (xorB b s.y)).length = C.bs := hC.enc_len _ (by simp [hb, hs.2])
    exact ⟨by simp [Ige.encBlock, he, hs.1], by simp [Ige.encBlock, hb], by simp [Ige.encBlock, he, hs.1]⟩
  have h1 : (igeIv C iv).1.length = C.bs := by simp [igeIv]; omega
  have h2 : (igeIv C iv).2.length = C.bs := by simp [igeIv]; omega
  have hinit : (Ige.init C iv).x.length = C.bs ∧ (Ige.init C iv).y.length = C.bs := by
    simp [Ige.init]; omega
  apply Glue.padded_roundtrip C.bs hC.bs_pos hbs (Ige.encBlock C) (Ige.decBlock C)
  · intro s l; rw [Ige.encBlocks, blocksCtx_one]
  · intro s l; rw [Ige.decBlocks, blocksCtx_one]
  · intro l hl
    rw [C02.ige_enc_fold, C02.ige_dec_fold]
    simp only
    have : C02.igeAbs (Ige.init C iv) = igeIv C iv := C02.ige_init_abs C iv
    rw [this]; exact (igeDec_igeEnc C hC l (igeIv C iv) h1 h2 hl).1
  · intro l hl; exact (Impl.MemCts.foldBlocks_inv _ _ C.bs hstep l _ hinit hl).1

/-- the padded ciphertext is a whole number of blocks, one more than `⌊|m| / bs⌋`. -/
theorem padded_length {σ : Type} (mbs : Nat) (h0 : 0 < mbs) (step : σ → Bytes → Bytes × σ)
    (blocksFn : σ → List Bytes → List Bytes × σ) (hf : ∀ s l, blocksFn s l = foldBlocks step s l)
    (s0 : σ) (hlen : ∀ l, AllLen mbs l → AllLen mbs (foldBlocks step s0 l).1) (m : Bytes) :
    (paddedEnc mbs blocksFn step s0 m).length = (m.length / mbs + 1) * mbs := by
  have hB := chunks_allLen mbs h0 m
  have hTl := chunksTail_lt mbs h0 m
  have hall : AllLen mbs (chunks mbs m ++ [chunksTail mbs m ++
      List.replicate (mbs - (chunksTail mbs m).length) (UInt8.ofNat (mbs - (chunksTail mbs m).length))]) := by
    intro b hb
    simp only [List.mem_append, List.mem_singleton] at hb
    rcases hb with hb | rfl
    · exact hB b hb
    · simp; omega
  have hct : paddedEnc mbs blocksFn step s0 m = (foldBlocks step s0 (chunks mbs m ++ [chunksTail mbs m ++
      List.replicate (mbs - (chunksTail mbs m).length) (UInt8.ofNat (mbs - (chunksTail mbs m).length))])).1.flatten := by
    unfold paddedEnc
    simp only [hf, foldBlocks_append, foldBlocks, List.flatten_append, List.flatten_cons, List.flatten_nil,
      List.append_nil]
  rw [hct, flatten_length_of_allLen mbs _ (hlen _ hall), foldBlocks_length, List.length_append,
    chunks_length mbs h0]
  simp

/-! ### ciphertext stealing -/

/-- CBC-CS1/2/3 one-shot calls: see `C05.cbc_cs_dec_inverts`. -/
theorem cts_cbc_roundtrip (v : CsVariant) (C : Cipher) (hC : C.Valid) (w₁ w₂ : Nat) (iv m : Bytes)
    (hiv : iv.length = C.bs) (hm : C.bs ≤ m.length) :
    C05aux.implCbcDec v C w₂ iv (C05aux.implCbcEnc v C w₁ iv m) = m :=
  C05.cbc_cs_dec_inverts v C hC w₁ w₂ iv m hiv hm

/-- ECB-CS1/2/3 one-shot calls. -/
theorem cts_ecb_roundtrip (v : CsVariant) (C : Cipher) (hC : C.Valid) (w₁ w₂ : Nat) (m : Bytes)
    (hm : C.bs ≤ m.length) :
    C05aux.implEcbDec v C w₂ (C05aux.implEcbEnc v C w₁ m) = m :=
  C05.ecb_cs_dec_inverts v C hC w₁ w₂ m hm

/-- ciphertext stealing is length-preserving (all six types). -/
theorem cts_length (v : CsVariant) (C : Cipher) (hC : C.Valid) (w : Nat) (iv m : Bytes)
    (hiv : iv.length = C.bs) (hm : C.bs ≤ m.length) :
    (C05aux.implCbcEnc v C w iv m).length = m.length ∧ (C05aux.implEcbEnc v C w m).length = m.length :=
  ⟨C05.cbc_cs_length v C hC w iv m hiv hm, C05.ecb_cs_length v C hC w m hm⟩

/-! ### non-vacuity -/
example : (Toy.cipher [1,2,3,4,5,6,7,8,9,10,11,12,13,14,15,16] 2).Valid ∧
    AllLen 2 (fed [.one [1, 2], .many [[3, 4], [5, 6]]]) := by
  refine ⟨Toy.valid _ 2 (by decide), ?_⟩
  intro b hb
  simp [fed, Call.blocks] at hb
  rcases hb with rfl | rfl | rfl <;> rfl

end Thm.C01
