import BlockModes.Lemmas.Core
import BlockModes.Toy
/-
  C06 — BelT-CTR follows STB 34.101.31: `s₀ = E(IV)` read little-endian, keystream block `i` (0-based)
  is `E(le128((s₀ + i + 1) mod 2^128))`, through `gen_ks_block` or `gen_par_ks_blocks`, for every backend
  width; positioning the core at block `p` makes the next block `E(s₀ + p + 1)`.  Encryption and
  decryption are the same operation (the only data operation is keystream XOR).
-/
namespace Thm.C06
open Impl Impl.Belt Glue Spec

theorem belt_init (C : Cipher) (iv : Bytes) :
    (init C iv).s = beltS0 C iv ∧ (init C iv).sInit = beltS0 C iv := ⟨rfl, rfl⟩

/-- sequential keystream from block position `c`. -/
theorem belt_keystream_seq (C : Cipher) (iv : Bytes) (n c : Nat) :
    (genSeq (core C) n { s := (beltS0 C iv + c) % M, sInit := beltS0 C iv }).1
      = (List.range n).map fun j => beltKs C iv (c + j) := by
  induction n generalizing c with
  | zero => rfl
  | succ n ih =>
    simp only [genSeq, core, genKsBlock]
    have h2 := ih (c + 1)
    simp only [core, genKsBlock] at h2
    have hs : ((beltS0 C iv + c) % M + 1) % M = (beltS0 C iv + (c + 1)) % M := by
      rw [Nat.mod_add_mod]; congr 1
    rw [hs, h2, List.range_succ_eq_map, List.map_cons, List.map_map]
    simp only [beltKs, Nat.add_zero, List.cons.injEq]
    refine ⟨by simp only [M]; congr 3, ?_⟩
    apply List.map_congr_left
    intro j _
    simp only [Function.comp, Nat.succ_eq_add_one]
    congr 4
    omega

/-- the parallel path and any backend width produce the same keystream blocks and the same state. -/
theorem belt_keystream_par (C : Cipher) (w n : Nat) (st : St) :
    genBlocks (core C) w n st = genSeq (core C) n st :=
  genBlocks_eq_seq (core C) w (fun pw s _ => genPar_eq_seq C pw s) n st

/-- `set_block_pos(p)` then `get_block_pos` returns `p`, and the stream continues at block `p`. -/
theorem belt_seek (C : Cipher) (iv : Bytes) (st : St) (hst : st.sInit = beltS0 C iv) (hs0 : beltS0 C iv < M)
    (p : Nat) (hp : p < M) :
    (core C).setPos st p = { s := (beltS0 C iv + p) % M, sInit := beltS0 C iv } ∧
    (core C).getPos ((core C).setPos st p) = p := by
  constructor
  · cases st; simp only [core] at *; simp [hst]
  · simp only [core, hst]
    have h1 : (beltS0 C iv + p) % M + M - beltS0 C iv = p + M ∨ (beltS0 C iv + p) % M + M - beltS0 C iv = p := by
      rcases Nat.lt_or_ge (beltS0 C iv + p) M with h | h
      · left; rw [Nat.mod_eq_of_lt h]; omega
      · right
        have : (beltS0 C iv + p) % M = beltS0 C iv + p - M := by
          rw [Nat.mod_eq_sub_mod h, Nat.mod_eq_of_lt (by omega)]
        rw [this]; omega
    rcases h1 with h | h
    · rw [h, Nat.add_mod_right, Nat.mod_eq_of_lt hp]
    · rw [h, Nat.mod_eq_of_lt hp]

/-- `s₀ < 2^128` whenever the cipher has 16-byte blocks. -/
theorem beltS0_lt (C : Cipher) (hC : C.Valid) (hbs : C.bs = 16) (iv : Bytes) (hiv : iv.length = 16) :
    beltS0 C iv < M := by
  have h := fromLE_lt (C.enc iv)
  rw [hC.enc_len iv (by omega), hbs] at h
  simpa [beltS0, M] using h

/-- data XOR keystream; the same function encrypts and decrypts. -/
theorem belt_apply_xor (C : Cipher) (w : Nat) (st : St) (blocks : List Bytes) :
    (applyBlocks (core C) w st blocks).1 = List.zipWith xorB blocks (genSeq (core C) blocks.length st).1 := by
  simp only [applyBlocks, belt_keystream_par]

/-- the exported state re-initialises to the same `s` (needs `E ∘ D = id` on blocks). -/
theorem belt_ivstate_resumes (C : Cipher) (hC : C.Valid) (hbs : C.bs = 16) (st : St) (hs : st.s < M) :
    (init C (ivState C st)).s = st.s := by
  simp only [init, ivState]
  rw [hC.enc_dec _ (by simp [hbs]), fromLE_toLE]
  exact Nat.mod_eq_of_lt (by simpa [M] using hs)

example : (Toy.cipher [1,2,3,4,5,6,7,8,9,10,11,12,13,14,15,16] 16).Valid := Toy.valid _ 16 (by decide)

end Thm.C06
