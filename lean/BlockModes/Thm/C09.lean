import BlockModes.Thm.C02
import BlockModes.Thm.C03
import BlockModes.Thm.C04
import BlockModes.Thm.C06
import BlockModes.Impl.CfbBuf
/-
  C09 — the exported IV state resumes the stream and equals the public chaining value.

  For every mode: `init C (ivState s)` is a state from which the instance continues exactly as `s`
  would have (for CBC/PCBC/CFB-8/OFB literally the same state; for IGE and CFB under the length /
  permutation hypotheses; for CTR the counter restarts at 0 on a shifted IV and generates the same
  counter blocks; for BelT `s` is recovered).  That the exported value *is* the public chaining value is
  `C02.*_refines` / `C03.*_refines` (final state component) together with `C04.ctr_ivstate_is_next_block`.
-/
namespace Thm.C09
open Impl Glue Spec

theorem cbc_resume (C : Cipher) (s : Bytes) : Cbc.init C (Cbc.ivState C s) = s := rfl
theorem pcbc_resume (C : Cipher) (s : Bytes) : Pcbc.init C (Pcbc.ivState C s) = s := rfl
theorem cfb8_resume (C : Cipher) (s : Bytes) : Cfb8.init C (Cfb8.ivState C s) = s := rfl
theorem ofb_resume (C : Cipher) (s : Bytes) : Ofb.init C (Ofb.ivState C s) = s := rfl

/-- IGE: holds for every reachable state (`y` is one block long). -/
theorem ige_resume (C : Cipher) (s : Ige.St) (hy : s.y.length = C.bs) : Ige.init C (Ige.ivState C s) = s := by
  cases s with
  | mk x y =>
    simp only at hy
    simp [Ige.init, Ige.ivState, ← hy]

/-- CFB: the internal state is `E(chain)`; exporting applies `D`, importing applies `E` again. -/
theorem cfb_resume (C : Cipher) (hC : C.Valid) (s : Bytes) (hs : s.length = C.bs) :
    Cfb.init C (Cfb.ivState C s) = s := hC.enc_dec s hs

/-- CFB: the exported value is the public chaining value (last ciphertext block). -/
theorem cfb_ivstate_is_chaining_value (C : Cipher) (hC : C.Valid) (w : Nat) (iv : Bytes) (hiv : iv.length = C.bs)
    (blocks : List Bytes) (hb : AllLen C.bs blocks) :
    Cfb.ivState C (Cfb.encBlocks C w (Cfb.init C iv) blocks).2 = (Spec.cfbEnc C iv blocks).2 := by
  unfold Cfb.init
  rw [C03.cfb_encBlocks_eq]
  exact hC.dec_enc _ (Spec.cfbEnc_allLen C hC blocks iv hiv hb).2

/-- encryptor and decryptor that processed corresponding data report equal states (CBC). -/
theorem cbc_enc_dec_states_agree (C : Cipher) (hC : C.Valid) (w₁ w₂ : Nat) (iv : Bytes) (hiv : iv.length = C.bs)
    (m : List Bytes) (hm : AllLen C.bs m) :
    Cbc.ivState C (Cbc.decBlocks C w₂ (Cbc.init C iv) (Cbc.encBlocks C w₁ (Cbc.init C iv) m).1).2
      = Cbc.ivState C (Cbc.encBlocks C w₁ (Cbc.init C iv) m).2 := by
  rw [C02.cbc_encBlocks_eq, C02.cbc_decBlocks_eq]
  exact (cbcDec_cbcEnc C hC m iv hiv hm).2

theorem pcbc_enc_dec_states_agree (C : Cipher) (hC : C.Valid) (iv : Bytes) (hiv : iv.length = C.bs)
    (m : List Bytes) (hm : AllLen C.bs m) :
    (foldBlocks (Pcbc.decBlock C) iv (foldBlocks (Pcbc.encBlock C) iv m).1).2 = (foldBlocks (Pcbc.encBlock C) iv m).2 := by
  rw [C02.pcbc_enc_fold, C02.pcbc_dec_fold]
  exact (pcbcDec_pcbcEnc C hC m iv hiv hm).2

theorem cfb_enc_dec_states_agree (C : Cipher) (hC : C.Valid) (iv : Bytes) (hiv : iv.length = C.bs)
    (m : List Bytes) (hm : AllLen C.bs m) :
    (foldBlocks (Cfb.decBlock C) (C.enc iv) (foldBlocks (Cfb.encBlock C) (C.enc iv) m).1).2
      = (foldBlocks (Cfb.encBlock C) (C.enc iv) m).2 := by
  rw [C03.cfb_enc_fold, C03.cfb_dec_fold]
  simp only
  rw [(cfbDec_cfbEnc C hC m iv hiv hm).2]

/-- IGE: a decryptor fed the encryptor's output exports the same double-length state `C_n ‖ P_n`. -/
theorem ige_enc_dec_states_agree (C : Cipher) (hC : C.Valid) (iv : Bytes) (hiv : iv.length = 2 * C.bs)
    (m : List Bytes) (hm : AllLen C.bs m) :
    Ige.ivState C (foldBlocks (Ige.decBlock C) (Ige.init C iv) (foldBlocks (Ige.encBlock C) (Ige.init C iv) m).1).2
      = Ige.ivState C (foldBlocks (Ige.encBlock C) (Ige.init C iv) m).2 := by
  rw [C02.ige_enc_fold, C02.ige_dec_fold, C02.ige_init_abs]
  have h1 : (igeIv C iv).1.length = C.bs := by simp [igeIv]; omega
  have h2 : (igeIv C iv).2.length = C.bs := by simp [igeIv]; omega
  simp only
  rw [(igeDec_igeEnc C hC m (igeIv C iv) h1 h2 hm).2]

/-- CFB-8: encryptor and decryptor hold the same shift register after corresponding data (any byte string). -/
theorem cfb8_enc_dec_states_agree (C : Cipher) (hC : C.Valid) (iv : Bytes) (hiv : iv.length = C.bs) (m : Bytes) :
    (foldBlocks (Cfb8.decBlock C) iv (C03.bytesAsBlocks (Spec.cfb8Enc C iv m).1)).2
      = (foldBlocks (Cfb8.encBlock C) iv (C03.bytesAsBlocks m)).2 := by
  rw [C03.cfb8_enc_fold C hC m iv hiv, C03.cfb8_dec_fold C hC _ iv hiv]
  exact (cfb8Dec_cfb8Enc C m iv).2

/-- counter blocks compose: block `i` counted from block `j` is block `j + i`. -/
theorem ctrBlock_add (f : Flavor) (hw : f.w = 8 * f.cs) (iv : Bytes) (hiv : f.cs ≤ iv.length) (j i : Nat) :
    ctrBlock f (ctrBlock f iv j) i = ctrBlock f iv (j + i) := by
  have hfield := C04.ctr_field_value f hw iv hiv j
  have hlen : (ctrBlock f iv j).length = iv.length := by
    unfold ctrBlock; split <;> simp <;> omega
  unfold ctrBlock at hfield ⊢
  cases hbe : f.be with
  | true =>
    simp only [hbe, if_true] at hfield ⊢
    have hl : (iv.take (iv.length - f.cs) ++ toBE f.cs ((ctrField f iv + j) % 2 ^ f.w)).length = iv.length := by
      simp; omega
    rw [hl, List.take_left' (by simp), hfield, Nat.mod_add_mod, Nat.add_assoc]
  | false =>
    simp only [hbe, Bool.false_eq_true, if_false] at hfield ⊢
    rw [List.drop_left' (by simp), hfield, Nat.mod_add_mod, Nat.add_assoc]

/-- CTR: a fresh core on the exported state generates the counter blocks the original would have. -/
theorem ctr_resume (f : Flavor) (hw : f.w = 8 * f.cs) (hcs : 0 < f.cs)
    (k : Nat) (hk : 0 < k) (iv : Bytes) (hiv : iv.length = k * f.cs) (j i : Nat) :
    Ctr.currentBlock f (Ctr.nextBlocks f i (Ctr.fromNonce f (Ctr.ivState f (Ctr.nextBlocks f j (Ctr.fromNonce f iv)).2))).2
      = Ctr.currentBlock f (Ctr.nextBlocks f (j + i) (Ctr.fromNonce f iv)).2 := by
  have h1 : Ctr.ivState f (Ctr.nextBlocks f j (Ctr.fromNonce f iv)).2 = ctrBlock f iv j :=
    C04.ctr_layout f hw hcs k hk iv hiv j
  have hlen : (ctrBlock f iv j).length = k * f.cs := by
    unfold ctrBlock
    have : f.cs ≤ iv.length := by rw [hiv]; exact Nat.le_mul_of_pos_left _ hk
    split <;> simp <;> omega
  rw [h1, C04.ctr_layout f hw hcs k hk _ hlen, C04.ctr_layout f hw hcs k hk iv hiv]
  exact ctrBlock_add f hw iv (by rw [hiv]; exact Nat.le_mul_of_pos_left _ hk) j i

/-- BelT: see `C06.belt_ivstate_resumes`. -/
theorem belt_resume (C : Cipher) (hC : C.Valid) (hbs : C.bs = 16) (st : Belt.St) (hs : st.s < Belt.M) :
    (Belt.init C (Belt.ivState C st)).s = st.s := C06.belt_ivstate_resumes C hC hbs st hs

/-- buffered CFB: the exported `(block, position)` pair re-creates exactly the state it was taken from,
    at any byte position (so the fresh instance continues as the original would have). -/
theorem cfbbuf_state_resume (s : CfbBuf.St) :
    CfbBuf.fromState (CfbBuf.getState s).1 (CfbBuf.getState s).2 = s := rfl

/-! ### resumption at the level of outputs: run a prefix, export, import into a fresh instance, run the rest -/

/-- generic: if re-initialising from the exported value gives back the state, the outputs of the fresh instance on
    the rest, appended to the outputs on the prefix, are the outputs of one uninterrupted run; final states agree. -/
theorem resume_outputs {σ : Type} (step : σ → Bytes → Bytes × σ) (reinit : σ → σ) (s : σ) (a b : List Bytes)
    (h : reinit (foldBlocks step s a).2 = (foldBlocks step s a).2) :
    (foldBlocks step s a).1 ++ (foldBlocks step (reinit (foldBlocks step s a).2) b).1 = (foldBlocks step s (a ++ b)).1 ∧
    (foldBlocks step (reinit (foldBlocks step s a).2) b).2 = (foldBlocks step s (a ++ b)).2 := by
  rw [h, foldBlocks_append]; exact ⟨rfl, rfl⟩

/-- CBC, PCBC, CFB-8, OFB (both directions): every cut point, any state. -/
theorem cbc_enc_resume_outputs (C : Cipher) (iv : Bytes) (a b : List Bytes) :
    (foldBlocks (Cbc.encBlock C) iv a).1 ++
      (foldBlocks (Cbc.encBlock C) (Cbc.init C (Cbc.ivState C (foldBlocks (Cbc.encBlock C) iv a).2)) b).1
      = (foldBlocks (Cbc.encBlock C) iv (a ++ b)).1 :=
  (resume_outputs (Cbc.encBlock C) (fun s => Cbc.init C (Cbc.ivState C s)) iv a b rfl).1
theorem cbc_dec_resume_outputs (C : Cipher) (iv : Bytes) (a b : List Bytes) :
    (foldBlocks (Cbc.decBlock C) iv a).1 ++
      (foldBlocks (Cbc.decBlock C) (Cbc.init C (Cbc.ivState C (foldBlocks (Cbc.decBlock C) iv a).2)) b).1
      = (foldBlocks (Cbc.decBlock C) iv (a ++ b)).1 :=
  (resume_outputs (Cbc.decBlock C) (fun s => Cbc.init C (Cbc.ivState C s)) iv a b rfl).1
theorem pcbc_resume_outputs (C : Cipher) (step : Bytes → Bytes → Bytes × Bytes) (iv : Bytes) (a b : List Bytes) :
    (foldBlocks step iv a).1 ++ (foldBlocks step (Pcbc.init C (Pcbc.ivState C (foldBlocks step iv a).2)) b).1
      = (foldBlocks step iv (a ++ b)).1 :=
  (resume_outputs step (fun s => Pcbc.init C (Pcbc.ivState C s)) iv a b rfl).1
theorem cfb8_resume_outputs (C : Cipher) (step : Bytes → Bytes → Bytes × Bytes) (iv : Bytes) (a b : List Bytes) :
    (foldBlocks step iv a).1 ++ (foldBlocks step (Cfb8.init C (Cfb8.ivState C (foldBlocks step iv a).2)) b).1
      = (foldBlocks step iv (a ++ b)).1 :=
  (resume_outputs step (fun s => Cfb8.init C (Cfb8.ivState C s)) iv a b rfl).1
theorem ofb_resume_outputs (C : Cipher) (step : Bytes → Bytes → Bytes × Bytes) (iv : Bytes) (a b : List Bytes) :
    (foldBlocks step iv a).1 ++ (foldBlocks step (Ofb.init C (Ofb.ivState C (foldBlocks step iv a).2)) b).1
      = (foldBlocks step iv (a ++ b)).1 :=
  (resume_outputs step (fun s => Ofb.init C (Ofb.ivState C s)) iv a b rfl).1

/-- CFB (both directions): the state stays one block long, so `E(D(state)) = state`. -/
theorem cfb_state_len (C : Cipher) (hC : C.Valid) (dec : Bool) : ∀ (a : List Bytes) (s : Bytes), s.length = C.bs →
    AllLen C.bs a → (foldBlocks (if dec then Cfb.decBlock C else Cfb.encBlock C) s a).2.length = C.bs := by
  intro a
  induction a with
  | nil => intro s hs _; simpa [foldBlocks] using hs
  | cons x xs ih =>
    intro s hs ha
    have hx : x.length = C.bs := ha x (by simp)
    simp only [foldBlocks]
    apply ih _ _ (fun b hb => ha b (by simp [hb]))
    cases dec
    · simp only [Bool.false_eq_true, if_false, Cfb.encBlock]
      exact hC.enc_len _ (by simp [hx, hs])
    · simp only [if_true, Cfb.decBlock]
      exact hC.enc_len _ hx

theorem cfb_resume_outputs (C : Cipher) (hC : C.Valid) (dec : Bool) (iv : Bytes) (hiv : iv.length = C.bs)
    (a b : List Bytes) (ha : AllLen C.bs a) :
    let step := if dec then Cfb.decBlock C else Cfb.encBlock C
    (foldBlocks step (Cfb.init C iv) a).1 ++
      (foldBlocks step (Cfb.init C (Cfb.ivState C (foldBlocks step (Cfb.init C iv) a).2)) b).1
      = (foldBlocks step (Cfb.init C iv) (a ++ b)).1 := by
  intro step
  exact (resume_outputs step (fun s => Cfb.init C (Cfb.ivState C s)) (Cfb.init C iv) a b
    (cfb_resume C hC _ (cfb_state_len C hC dec a _ (hC.enc_len iv hiv) ha))).1

/-- IGE (both directions): `x` and `y` stay one block long. -/
theorem ige_state_len (C : Cipher) (hC : C.Valid) (dec : Bool) : ∀ (a : List Bytes) (s : Ige.St), s.y.length = C.bs →
    s.x.length = C.bs → AllLen C.bs a →
    (foldBlocks (if dec then Ige.decBlock C else Ige.encBlock C) s a).2.y.length = C.bs := by
  intro a
  induction a with
  | nil => intro s hs _ _; simpa [foldBlocks] using hs
  | cons b bs ih =>
    intro s hs hx ha
    have hb : b.length = C.bs := ha b (by simp)
    have ha' : AllLen C.bs bs := fun c hc => ha c (by simp [hc])
    simp only [foldBlocks]
    cases dec
    · simp only [Bool.false_eq_true, if_false]
      have he : (C.enc (xorB b s.y)).length = C.bs := hC.enc_len _ (by simp [hb, hs])
      exact ih _ (by simp [Ige.encBlock, he, hx]) (by simp [Ige.encBlock, hb]) ha'
    · simp only [if_true]
      have hd : (C.dec (xorB b s.x)).length = C.bs := hC.dec_len _ (by simp [hb, hx])
      exact ih _ (by simp [Ige.decBlock, hb]) (by simp [Ige.decBlock, hd, hs]) ha'

theorem ige_enc_resume_outputs (C : Cipher) (hC : C.Valid) (iv : Bytes) (hiv : iv.length = 2 * C.bs)
    (a b : List Bytes) (ha : AllLen C.bs a) :
    (foldBlocks (Ige.encBlock C) (Ige.init C iv) a).1 ++
      (foldBlocks (Ige.encBlock C) (Ige.init C (Ige.ivState C (foldBlocks (Ige.encBlock C) (Ige.init C iv) a).2)) b).1
      = (foldBlocks (Ige.encBlock C) (Ige.init C iv) (a ++ b)).1 := by
  have hy : (Ige.init C iv).y.length = C.bs := by simp [Ige.init]; omega
  have hx : (Ige.init C iv).x.length = C.bs := by simp [Ige.init]; omega
  have := ige_state_len C hC false a (Ige.init C iv) hy hx ha
  simp only [Bool.false_eq_true, if_false] at this
  exact (resume_outputs (Ige.encBlock C) (fun s => Ige.init C (Ige.ivState C s)) (Ige.init C iv) a b
    (ige_resume C _ this)).1

theorem ige_dec_resume_outputs (C : Cipher) (hC : C.Valid) (iv : Bytes) (hiv : iv.length = 2 * C.bs)
    (a b : List Bytes) (ha : AllLen C.bs a) :
    (foldBlocks (Ige.decBlock C) (Ige.init C iv) a).1 ++
      (foldBlocks (Ige.decBlock C) (Ige.init C (Ige.ivState C (foldBlocks (Ige.decBlock C) (Ige.init C iv) a).2)) b).1
      = (foldBlocks (Ige.decBlock C) (Ige.init C iv) (a ++ b)).1 := by
  have hy : (Ige.init C iv).y.length = C.bs := by simp [Ige.init]; omega
  have hx : (Ige.init C iv).x.length = C.bs := by simp [Ige.init]; omega
  have := ige_state_len C hC true a (Ige.init C iv) hy hx ha
  simp only [if_true] at this
  exact (resume_outputs (Ige.decBlock C) (fun s => Ige.init C (Ige.ivState C s)) (Ige.init C iv) a b
    (ige_resume C _ this)).1

/-! ### the exported value is the mode's *named* public chaining value -/

/-- CBC: last ciphertext block (the IV while nothing was processed) — encryptor: last output, decryptor: last input. -/
theorem cbc_chain_is_last_ct (C : Cipher) : ∀ (l : List Bytes) (iv : Bytes),
    (Spec.cbcEnc C iv l).2 = (Spec.cbcEnc C iv l).1.getLastD iv ∧ (Spec.cbcDec C iv l).2 = l.getLastD iv := by
  intro l
  induction l with
  | nil => intro iv; exact ⟨rfl, rfl⟩
  | cons p ps ih =>
    intro iv
    obtain ⟨h1, _⟩ := ih (C.enc (xorB p iv))
    obtain ⟨_, h2⟩ := ih p
    simp only [Spec.cbcEnc, Spec.cbcDec, h1, h2]
    cases ps <;> simp [Spec.cbcEnc, List.getLastD]

/-- CFB: last ciphertext block. -/
theorem cfb_chain_is_last_ct (C : Cipher) : ∀ (l : List Bytes) (iv : Bytes),
    (Spec.cfbEnc C iv l).2 = (Spec.cfbEnc C iv l).1.getLastD iv ∧ (Spec.cfbDec C iv l).2 = l.getLastD iv := by
  intro l
  induction l with
  | nil => intro iv; exact ⟨rfl, rfl⟩
  | cons p ps ih =>
    intro iv
    obtain ⟨h1, _⟩ := ih (xorB p (C.enc iv))
    obtain ⟨_, h2⟩ := ih p
    simp only [Spec.cfbEnc, Spec.cfbDec, h1, h2]
    cases ps <;> simp [Spec.cfbEnc, List.getLastD]

/-- CFB-8: the last block-size bytes of `IV ‖ ciphertext` (so: the last `bs` ciphertext bytes once `bs` bytes were
    processed, an IV suffix followed by the ciphertext before that). -/
theorem cfb8_chain_is_last_bytes (C : Cipher) : ∀ (m : Bytes) (s : Bytes), 1 ≤ s.length →
    (Spec.cfb8Enc C s m).2 = (s ++ (Spec.cfb8Enc C s m).1).drop m.length ∧
    (Spec.cfb8Dec C s m).2 = (s ++ m).drop m.length := by
  intro m
  induction m with
  | nil => intro s _; simp [Spec.cfb8Enc, Spec.cfb8Dec]
  | cons p ps ih =>
    intro s hs
    match s, hs with
    | a :: as, _ =>
      obtain ⟨h1, _⟩ := ih ((a :: as).drop 1 ++ [p ^^^ (C.enc (a :: as)).headD 0]) (by simp)
      obtain ⟨_, h2⟩ := ih ((a :: as).drop 1 ++ [p]) (by simp)
      simp only [Spec.cfb8Enc, Spec.cfb8Dec, h1, h2, List.length_cons]
      constructor <;> simp [List.drop_succ_cons]

/-- OFB: the last keystream block, `E^n(IV)`; independent of the data. -/
theorem ofb_chain_is_last_ks (C : Cipher) : ∀ (l : List Bytes) (o : Bytes),
    (Spec.ofb C o l).2 = (Nat.repeat C.enc l.length o) := by
  intro l
  induction l with
  | nil => intro o; rfl
  | cons x xs ih =>
    intro o
    simp only [Spec.ofb, ih, List.length_cons]
    clear ih
    induction xs.length generalizing o with
    | zero => rfl
    | succ n ihn =>
      show C.enc (Nat.repeat C.enc n (C.enc o)) = C.enc (C.enc (Nat.repeat C.enc n o))
      rw [ihn]; rfl

/-- PCBC: `P_n ⊕ C_n` (the IV while nothing was processed), both directions. -/
theorem pcbc_chain_is_p_xor_c (C : Cipher) (ps : List Bytes) (p s : Bytes) :
    (Spec.pcbcEnc C s (ps ++ [p])).2 = xorB p ((Spec.pcbcEnc C s (ps ++ [p])).1.getLastD []) ∧
    (Spec.pcbcDec C s (ps ++ [p])).2 = xorB ((Spec.pcbcDec C s (ps ++ [p])).1.getLastD []) p := by
  induction ps generalizing s with
  | nil => simp [Spec.pcbcEnc, Spec.pcbcDec]
  | cons q qs ih =>
    obtain ⟨h1, _⟩ := ih (xorB q (C.enc (xorB q s)))
    obtain ⟨_, h2⟩ := ih (xorB (xorB (C.dec q) s) q)
    simp only [List.cons_append, Spec.pcbcEnc, Spec.pcbcDec, h1, h2]
    constructor
    · cases hq : (Spec.pcbcEnc C (xorB q (C.enc (xorB q s))) (qs ++ [p])).1 with
      | nil =>
        have := congrArg List.length hq
        rw [show (Spec.pcbcEnc C (xorB q (C.enc (xorB q s))) (qs ++ [p])).1.length = (qs ++ [p]).length from by
          generalize xorB q (C.enc (xorB q s)) = t
          induction (qs ++ [p]) generalizing t with
          | nil => rfl
          | cons y ys ihy => simp [Spec.pcbcEnc, ihy]] at this
        simp at this
      | cons y ys => simp [List.getLastD]
    · cases hq : (Spec.pcbcDec C (xorB (xorB (C.dec q) s) q) (qs ++ [p])).1 with
      | nil =>
        have := congrArg List.length hq
        rw [show (Spec.pcbcDec C (xorB (xorB (C.dec q) s) q) (qs ++ [p])).1.length = (qs ++ [p]).length from by
          generalize xorB (xorB (C.dec q) s) q = t
          induction (qs ++ [p]) generalizing t with
          | nil => rfl
          | cons y ys ihy => simp [Spec.pcbcDec, ihy]] at this
        simp at this
      | cons y ys => simp [List.getLastD]

/-- IGE: `(C_n, P_n)`, exported as `C_n ‖ P_n` (`C02.ige_ivState_abs`). -/
theorem ige_chain_is_c_p (C : Cipher) (ps : List Bytes) (p : Bytes) (s : Bytes × Bytes) :
    (Spec.igeEnc C s (ps ++ [p])).2 = ((Spec.igeEnc C s (ps ++ [p])).1.getLastD [], p) ∧
    (Spec.igeDec C s (ps ++ [p])).2 = (p, (Spec.igeDec C s (ps ++ [p])).1.getLastD []) := by
  induction ps generalizing s with
  | nil => obtain ⟨a, b⟩ := s; simp [Spec.igeEnc, Spec.igeDec]
  | cons q qs ih =>
    obtain ⟨a, b⟩ := s
    obtain ⟨h1, _⟩ := ih (xorB (C.enc (xorB q a)) b, q)
    obtain ⟨_, h2⟩ := ih (q, xorB (C.dec (xorB q b)) a)
    simp only [List.cons_append, Spec.igeEnc, Spec.igeDec, h1, h2]
    constructor
    · cases hq : (Spec.igeEnc C (xorB (C.enc (xorB q a)) b, q) (qs ++ [p])).1 with
      | nil =>
        have := congrArg List.length hq
        rw [show (Spec.igeEnc C (xorB (C.enc (xorB q a)) b, q) (qs ++ [p])).1.length = (qs ++ [p]).length from by
          generalize (xorB (C.enc (xorB q a)) b, q) = t
          induction (qs ++ [p]) generalizing t with
          | nil => rfl
          | cons y ys ihy => obtain ⟨t1, t2⟩ := t; simp [Spec.igeEnc, ihy]] at this
        simp at this
      | cons y ys => simp [List.getLastD]
    · cases hq : (Spec.igeDec C (q, xorB (C.dec (xorB q b)) a) (qs ++ [p])).1 with
      | nil =>
        have := congrArg List.length hq
        rw [show (Spec.igeDec C (q, xorB (C.dec (xorB q b)) a) (qs ++ [p])).1.length = (qs ++ [p]).length from by
          generalize (q, xorB (C.dec (xorB q b)) a) = t
          induction (qs ++ [p]) generalizing t with
          | nil => rfl
          | cons y ys ihy => obtain ⟨t1, t2⟩ := t; simp [Spec.igeDec, ihy]] at this
        simp at this
      | cons y ys => simp [List.getLastD]


/-! ### any number of export / import cycles, at arbitrary block boundaries -/

/-- the stream cut into any number of pieces with an export → import into a *fresh* instance after every piece. -/
def runWithReinits {σ : Type} (step : σ → Bytes → Bytes × σ) (reinit : σ → σ) : σ → List (List Bytes) → List Bytes × σ
  | s, [] => ([], s)
  | s, p :: ps =>
    let r := foldBlocks step s p
    let r2 := runWithReinits step reinit (reinit r.2) ps
    (r.1 ++ r2.1, r2.2)

/-- **any number of cut points**: if on every state satisfying an invariant `Inv` re-initialising from the exported
    value gives back the state, and pieces preserve `Inv`, then exporting and re-importing after *every* piece changes
    neither the outputs nor the final state. -/
theorem resume_any_cuts {σ : Type} (step : σ → Bytes → Bytes × σ) (reinit : σ → σ) (Inv : σ → Prop)
    (pieces : List (List Bytes))
    (hre : ∀ s, Inv s → reinit s = s)
    (hInv : ∀ s p, p ∈ pieces → Inv s → Inv (foldBlocks step s p).2)
    (s : σ) (hs : Inv s) :
    runWithReinits step reinit s pieces = foldBlocks step s pieces.flatten := by
  induction pieces generalizing s with
  | nil => rfl
  | cons p ps ih =>
    have hp := hInv s p (by simp) hs
    simp only [runWithReinits, List.flatten_cons]
    rw [hre _ hp, foldBlocks_append]
    rw [ih (fun s q hq => hInv s q (by simp [hq])) _ hp]

/-- CBC, PCBC, CFB-8, OFB — both directions, any step function over these states, any cuts. -/
theorem cbc_resume_any_cuts (C : Cipher) (step : Bytes → Bytes → Bytes × Bytes) (iv : Bytes) (pieces : List (List Bytes)) :
    runWithReinits step (fun s => Cbc.init C (Cbc.ivState C s)) iv pieces = foldBlocks step iv pieces.flatten :=
  resume_any_cuts step _ (fun _ => True) pieces (fun _ _ => rfl) (fun _ _ _ _ => trivial) iv trivial
theorem pcbc_resume_any_cuts (C : Cipher) (step : Bytes → Bytes → Bytes × Bytes) (iv : Bytes) (pieces : List (List Bytes)) :
    runWithReinits step (fun s => Pcbc.init C (Pcbc.ivState C s)) iv pieces = foldBlocks step iv pieces.flatten :=
  resume_any_cuts step _ (fun _ => True) pieces (fun _ _ => rfl) (fun _ _ _ _ => trivial) iv trivial
theorem cfb8_resume_any_cuts (C : Cipher) (step : Bytes → Bytes → Bytes × Bytes) (iv : Bytes) (pieces : List (List Bytes)) :
    runWithReinits step (fun s => Cfb8.init C (Cfb8.ivState C s)) iv pieces = foldBlocks step iv pieces.flatten :=
  resume_any_cuts step _ (fun _ => True) pieces (fun _ _ => rfl) (fun _ _ _ _ => trivial) iv trivial
theorem ofb_resume_any_cuts (C : Cipher) (step : Bytes → Bytes → Bytes × Bytes) (iv : Bytes) (pieces : List (List Bytes)) :
    runWithReinits step (fun s => Ofb.init C (Ofb.ivState C s)) iv pieces = foldBlocks step iv pieces.flatten :=
  resume_any_cuts step _ (fun _ => True) pieces (fun _ _ => rfl) (fun _ _ _ _ => trivial) iv trivial

/-- CFB (both directions): the invariant is "the state is one block long". -/
theorem cfb_resume_any_cuts (C : Cipher) (hC : C.Valid) (dec : Bool) (iv : Bytes) (hiv : iv.length = C.bs)
    (pieces : List (List Bytes)) (hp : ∀ p ∈ pieces, AllLen C.bs p) :
    let step := if dec then Cfb.decBlock C else Cfb.encBlock C
    runWithReinits step (fun s => Cfb.init C (Cfb.ivState C s)) (Cfb.init C iv) pieces
      = foldBlocks step (Cfb.init C iv) pieces.flatten := by
  intro step
  exact resume_any_cuts step _ (fun s => s.length = C.bs) pieces
    (fun s hs => cfb_resume C hC s hs)
    (fun s p hpm hs => cfb_state_len C hC dec p s hs (hp p hpm))
    _ (hC.enc_len iv hiv)


/-- IGE: `x` stays one block long too. -/
theorem ige_state_len_x (C : Cipher) (hC : C.Valid) (dec : Bool) : ∀ (a : List Bytes) (s : Ige.St), s.y.length = C.bs →
    s.x.length = C.bs → AllLen C.bs a →
    (foldBlocks (if dec then Ige.decBlock C else Ige.encBlock C) s a).2.x.length = C.bs := by
  intro a
  induction a with
  | nil => intro s _ hx _; simpa [foldBlocks] using hx
  | cons b bs ih =>
    intro s hs hx ha
    have hb : b.length = C.bs := ha b (by simp)
    have ha' : AllLen C.bs bs := fun c hc => ha c (by simp [hc])
    simp only [foldBlocks]
    cases dec
    · simp only [Bool.false_eq_true, if_false]
      have he : (C.enc (xorB b s.y)).length = C.bs := hC.enc_len _ (by simp [hb, hs])
      exact ih _ (by simp [Ige.encBlock, he, hx]) (by simp [Ige.encBlock, hb]) ha'
    · simp only [if_true]
      have hd : (C.dec (xorB b s.x)).length = C.bs := hC.dec_len _ (by simp [hb, hx])
      exact ih _ (by simp [Ige.decBlock, hb]) (by simp [Ige.decBlock, hd, hs]) ha'

/-- IGE (both directions): the invariant is "`x` and `y` are one block long". -/
theorem ige_resume_any_cuts (C : Cipher) (hC : C.Valid) (dec : Bool) (iv : Bytes) (hiv : iv.length = 2 * C.bs)
    (pieces : List (List Bytes)) (hp : ∀ p ∈ pieces, AllLen C.bs p) :
    let step := if dec then Ige.decBlock C else Ige.encBlock C
    runWithReinits step (fun s => Ige.init C (Ige.ivState C s)) (Ige.init C iv) pieces
      = foldBlocks step (Ige.init C iv) pieces.flatten := by
  intro step
  have hy : (Ige.init C iv).y.length = C.bs := by simp [Ige.init]; omega
  have hx : (Ige.init C iv).x.length = C.bs := by simp [Ige.init]; omega
  refine resume_any_cuts step _ (fun s => s.y.length = C.bs ∧ s.x.length = C.bs) pieces
    (fun s hs => ige_resume C s hs.1) ?_ _ ⟨hy, hx⟩
  intro s p hpm hs
  exact ⟨ige_state_len C hC dec p s hs.1 hs.2 (hp p hpm), ige_state_len_x C hC dec p s hs.1 hs.2 (hp p hpm)⟩

end Thm.C09
