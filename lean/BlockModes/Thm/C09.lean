import BlockModes.Thm.C02
import BlockModes.Thm.C03
import BlockModes.Thm.C04
import BlockModes.Thm.C06
import BlockModes.Impl.CfbBuf
/-
  C09 — the exported IV state resumes the stream and equals the public chaining value.

  For every mode: `init C (ivState s)` is a state from which the instance continues exactly as `s`
  would have (for CBC/PCBC/CFB-8/OFB literally the same state; for IGE and CFB under the length /
  permutation hypotheses; for CTR the counter restarts at 0 on a shifted IV and generates the same
  counter blocks; for BelT `s` is recovered).  That the exported value *is* the public chaining value is
  `C02.*_refines` / `C03.*_refines` (final state component) together with `C04.ctr_ivstate_is_next_block`.
-/
namespace Thm.C09
open Impl Glue Spec

theorem cbc_resume (C : Cipher) (s : Bytes) : Cbc.init C (Cbc.ivState C s) = s := rfl
theorem pcbc_resume (C : Cipher) (s : Bytes) : Pcbc.init C (Pcbc.ivState C s) = s := rfl
theorem cfb8_resume (C : Cipher) (s : Bytes) : Cfb8.init C (Cfb8.ivState C s) = s := rfl
theorem ofb_resume (C : Cipher) (s : Bytes) : Ofb.init C (Ofb.ivState C s) = s := rfl

/-- IGE: holds for every reachable state (`y` is one block long). -/
theorem ige_resume (C : Cipher) (s : Ige.St) (hy : s.y.length = C.bs) : Ige.init C (Ige.ivState C s) = s := by
  cases s with
  | mk x y =>
    simp only at hy
    simp [Ige.init, Ige.ivState, ← hy]

/-- CFB: the internal state is `E(chain)`; exporting applies `D`, importing applies `E` again. -/
theorem cfb_resume (C : Cipher) (hC : C.Valid) (s : Bytes) (hs : s.length = C.bs) :
    Cfb.init C (Cfb.ivState C s) = s := hC.enc_dec s hs

/-- CFB: the exported value is the public chaining value (last ciphertext block). -/
theorem cfb_ivstate_is_chaining_value (C : Cipher) (hC : C.Valid) (w : Nat) (iv : Bytes) (hiv : iv.length = C.bs)
    (blocks : List Bytes) (hb : AllLen C.bs blocks) :
    Cfb.ivState C (Cfb.encBlocks C w (Cfb.init C iv) blocks).2 = (Spec.cfbEnc C iv blocks).2 := by
  unfold Cfb.init
  rw [C03.cfb_encBlocks_eq]
  exact hC.dec_enc _ (Spec.cfbEnc_allLen C hC blocks iv hiv hb).2

/-- encryptor and decryptor that processed corresponding data report equal states (CBC). -/
theorem cbc_enc_dec_states_agree (C : Cipher) (hC : C.Valid) (w₁ w₂ : Nat) (iv : Bytes) (hiv : iv.length = C.bs)
    (m : List Bytes) (hm : AllLen C.bs m) :
    Cbc.ivState C (Cbc.decBlocks C w₂ (Cbc.init C iv) (Cbc.encBlocks C w₁ (Cbc.init C iv) m).1).2
      = Cbc.ivState C (Cbc.encBlocks C w₁ (Cbc.init C iv) m).2 := by
  rw [C02.cbc_encBlocks_eq, C02.cbc_decBlocks_eq]
  exact (cbcDec_cbcEnc C hC m iv hiv hm).2

theorem pcbc_enc_dec_states_agree (C : Cipher) (hC : C.Valid) (iv : Bytes) (hiv : iv.length = C.bs)
    (m : List Bytes) (hm : AllLen C.bs m) :
    (foldBlocks (Pcbc.decBlock C) iv (foldBlocks (Pcbc.encBlock C) iv m).1).2 = (foldBlocks (Pcbc.encBlock C) iv m).2 := by
  rw [C02.pcbc_enc_fold, C02.pcbc_dec_fold]
  exact (pcbcDec_pcbcEnc C hC m iv hiv hm).2

theorem cfb_enc_dec_states_agree (C : Cipher) (hC : C.Valid) (iv : Bytes) (hiv : iv.length = C.bs)
    (m : List Bytes) (hm : AllLen C.bs m) :
    (foldBlocks (Cfb.decBlock C) (C.enc iv) (foldBlocks (Cfb.encBlock C) (C.enc iv) m).1).2
      = (foldBlocks (Cfb.encBlock C) (C.enc iv) m).2 := by
  rw [C03.cfb_enc_fold, C03.cfb_dec_fold]
  simp only
  rw [(cfbDec_cfbEnc C hC m iv hiv hm).2]

/-- counter blocks compose: block `i` counted from block `j` is block `j + i`. -/
theorem ctrBlock_add (f : Flavor) (hw : f.w = 8 * f.cs) (iv : Bytes) (hiv : f.cs ≤ iv.length) (j i : Nat) :
    ctrBlock f (ctrBlock f iv j) i = ctrBlock f iv (j + i) := by
  have hfield := C04.ctr_field_value f hw iv hiv j
  have hlen : (ctrBlock f iv j).length = iv.length := by
    unfold ctrBlock; split <;> simp <;> omega
  unfold ctrBlock at hfield ⊢
  cases hbe : f.be with
  | true =>
    simp only [hbe, if_true] at hfield ⊢
    have hl : (iv.take (iv.length - f.cs) ++ toBE f.cs ((ctrField f iv + j) % 2 ^ f.w)).length = iv.length := by
      simp; omega
    rw [hl, List.take_left' (by simp), hfield, Nat.mod_add_mod, Nat.add_assoc]
  | false =>
    simp only [hbe, Bool.false_eq_true, if_false] at hfield ⊢
    rw [List.drop_left' (by simp), hfield, Nat.mod_add_mod, Nat.add_assoc]

/-- CTR: a fresh core on the exported state generates the counter blocks the original would have. -/
theorem ctr_resume (f : Flavor) (hw : f.w = 8 * f.cs) (hcs : 0 < f.cs)
    (k : Nat) (hk : 0 < k) (iv : Bytes) (hiv : iv.length = k * f.cs) (j i : Nat) :
    Ctr.currentBlock f (Ctr.nextBlocks f i (Ctr.fromNonce f (Ctr.ivState f (Ctr.nextBlocks f j (Ctr.fromNonce f iv)).2))).2
      = Ctr.currentBlock f (Ctr.nextBlocks f (j + i) (Ctr.fromNonce f iv)).2 := by
  have h1 : Ctr.ivState f (Ctr.nextBlocks f j (Ctr.fromNonce f iv)).2 = ctrBlock f iv j :=
    C04.ctr_layout f hw hcs k hk iv hiv j
  have hlen : (ctrBlock f iv j).length = k * f.cs := by
    unfold ctrBlock
    have : f.cs ≤ iv.length := by rw [hiv]; exact Nat.le_mul_of_pos_left _ hk
    split <;> simp <;> omega
  rw [h1, C04.ctr_layout f hw hcs k hk _ hlen, C04.ctr_layout f hw hcs k hk iv hiv]
  exact ctrBlock_add f hw iv (by rw [hiv]; exact Nat.le_mul_of_pos_left _ hk) j i

/-- BelT: see `C06.belt_ivstate_resumes`. -/
theorem belt_resume (C : Cipher) (hC : C.Valid) (hbs : C.bs = 16) (st : Belt.St) (hs : st.s < Belt.M) :
    (Belt.init C (Belt.ivState C st)).s = st.s := C06.belt_ivstate_resumes C hC hbs st hs

/-- buffered CFB: the exported `(block, position)` pair re-creates exactly the state it was taken from,
    at any byte position (so the fresh instance continues as the original would have). -/
theorem cfbbuf_state_resume (s : CfbBuf.St) :
    CfbBuf.fromState (CfbBuf.getState s).1 (CfbBuf.getState s).2 = s := rfl

end Thm.C09
