import BlockModes.Impl.Cts
import BlockModes.Spec.Cts
import BlockModes.Lemmas.Chunks
import BlockModes.Lemmas.BlocksCtx
import BlockModes.Lemmas.SpecBlock
import BlockModes.Thm.C02
import BlockModes.Lemmas.Cts
import BlockModes.Lemmas.CtsEcb
import BlockModes.Lemmas.CtsDec
/-
  C05 — ciphertext stealing follows NIST SP 800-38A Addendum CS1/CS2/CS3 (CBC and ECB).

  All six types, both directions: encryption = the NIST formulation (`*_enc_refines`), decryption inverts it
  (`*_dec_inverts`), ciphertext length = message length (`*_length`), for every cipher satisfying `Cipher.Valid`,
  every block size ≥ 1, every backend width, every message of at least one block.
-/
namespace Thm.C05
open Impl Impl.Cts Glue Spec

/-- a tiny invertible "cipher" used for concrete witnesses: add 1 to every byte. -/
def inc : Cipher := { bs := 1, enc := fun x => x.map (· + 1), dec := fun x => x.map (· - 1) }

theorem inc_valid : inc.Valid where
  bs_pos := by decide
  enc_len := fun x hx => by simp [inc, hx]
  dec_len := fun x hx => by simp [inc, hx]
  dec_enc := fun x _ => by simp [inc, Function.comp_def, UInt8.add_sub_cancel]
  enc_dec := fun x _ => by simp [inc, Function.comp_def, UInt8.sub_add_cancel]

/-- **Finding F1** (the pinned tree before the `fix:` commit): on a one-block message the CS3 closures
    take the stealing branch with an empty tail and encrypt the block twice — `E(E(P ⊕ IV))` instead of
    `E(P ⊕ IV)` — so the legacy mirror contradicts the definition.  Witness: block size 1, `E = (+1)`. -/
theorem legacy_cs3_one_block_defect :
    cbcCs3Enc true inc 1 [0] [5] = [7] ∧ Spec.cbcCsEnc .cs3 inc [0] [5] = [6] ∧
    ecbCs3Enc true inc 1 [5] = [7] ∧ Spec.ecbCsEnc .cs3 inc [5] = [6] := by decide

/-- the current code (after the fix) agrees with the definition on that witness. -/
theorem fixed_cs3_one_block_witness :
    cbcCs3Enc false inc 1 [0] [5] = Spec.cbcCsEnc .cs3 inc [0] [5] ∧
    ecbCs3Enc false inc 1 [5] = Spec.ecbCsEnc .cs3 inc [5] ∧
    cbcCs3Dec false inc 1 [0] [6] = [5] ∧ ecbCs3Dec false inc 1 [6] = [5] := by decide

/-- the `len < bs` gate: error exactly for messages shorter than one block; the buffer is not touched
    (the model returns no new buffer at all in that case). -/
theorem cts_gate (bs : Nat) (f : Bytes → Bytes) (buf : Bytes) :
    (gated bs f buf = none ↔ buf.length < bs) ∧ (bs ≤ buf.length → gated bs f buf = some (f buf)) := by
  unfold gated
  constructor
  · constructor
    · intro h; split at h <;> simp_all
    · intro h; simp [h]
  · intro h; simp; omega

/-- `cts::cbc_enc` is the CBC recurrence. -/
theorem cts_cbcEnc_eq (C : Cipher) (iv : Bytes) (blocks : List Bytes) :
    Cts.cbcEnc C iv blocks = Spec.cbcEnc C iv blocks := C02.cbc_enc_fold C blocks iv

/-- `cts::cbc_dec` (parallel body included) is the CBC decryption recurrence for every width. -/
theorem cts_cbcDec_eq (C : Cipher) (w : Nat) (iv : Bytes) (blocks : List Bytes) :
    Cts.cbcDec C w iv blocks = Spec.cbcDec C iv blocks := by
  have hpar : ∀ s ch, Cts.cbcDecPar C s ch = foldBlocks (Cts.cbcDecBlock C) s ch := fun s ch =>
    C02.cbc_decPar_eq_fold C ch s
  unfold Cts.cbcDec
  rw [blocksCtx_eq_fold w _ _ (fun s ch _ => hpar s ch)]
  exact C02.cbc_dec_fold C blocks iv

theorem cts_ecbEnc_eq (C : Cipher) (w : Nat) (blocks : List Bytes) : Cts.ecbEnc C w blocks = blocks.map C.enc := by
  unfold Cts.ecbEnc
  rw [blocksCtx_eq_fold _ _ _ (fun s ch _ => by cases s; rw [foldBlocks_unit_map]), foldBlocks_unit_map]

theorem cts_ecbDec_eq (C : Cipher) (w : Nat) (blocks : List Bytes) : Cts.ecbDec C w blocks = blocks.map C.dec := by
  unfold Cts.ecbDec
  rw [blocksCtx_eq_fold _ _ _ (fun s ch _ => by cases s; rw [foldBlocks_unit_map]), foldBlocks_unit_map]

/-! ### encryption = the NIST formulation (all six types, current code) -/

/-- **CBC-CS1, CBC-CS2, CBC-CS3**: for every cipher (`C.Valid`), block size, backend width, IV of one block and
    message of at least one block, the encrypt closure's output is the CBC encryption of the zero-padded
    message with the penultimate block truncated to `d` bytes, in the variant's ordering; a one-block message
    is plain CBC. -/
theorem cbc_cs_enc_refines (v : CsVariant) (C : Cipher) (hC : C.Valid) (w : Nat) (iv m : Bytes)
    (hiv : iv.length = C.bs) (hm : C.bs ≤ m.length) :
    C05aux.implCbcEnc v C w iv m = Spec.cbcCsEnc v C iv m := C05aux.cbc_cs_enc_refines v C hC w iv m hiv hm

theorem cbc_cs1_enc_refines (C : Cipher) (hC : C.Valid) (w : Nat) (iv m : Bytes) (hiv : iv.length = C.bs)
    (hm : C.bs ≤ m.length) : cbcCs1Enc C w iv m = Spec.cbcCsEnc .cs1 C iv m :=
  C05aux.cbc_cs_enc_refines .cs1 C hC w iv m hiv hm
theorem cbc_cs2_enc_refines (C : Cipher) (hC : C.Valid) (w : Nat) (iv m : Bytes) (hiv : iv.length = C.bs)
    (hm : C.bs ≤ m.length) : cbcCs2Enc C w iv m = Spec.cbcCsEnc .cs2 C iv m :=
  C05aux.cbc_cs_enc_refines .cs2 C hC w iv m hiv hm
theorem cbc_cs3_enc_refines (C : Cipher) (hC : C.Valid) (w : Nat) (iv m : Bytes) (hiv : iv.length = C.bs)
    (hm : C.bs ≤ m.length) : cbcCs3Enc false C w iv m = Spec.cbcCsEnc .cs3 C iv m :=
  C05aux.cbc_cs_enc_refines .cs3 C hC w iv m hiv hm

/-- **ECB-CS1, ECB-CS2, ECB-CS3**: the final block is completed by the stolen tail of the penultimate ciphertext
    block; same three orderings; a one-block message is raw block encryption. -/
theorem ecb_cs_enc_refines (v : CsVariant) (C : Cipher) (hC : C.Valid) (w : Nat) (m : Bytes) (hm : C.bs ≤ m.length) :
    C05aux.implEcbEnc v C w m = Spec.ecbCsEnc v C m := C05aux.ecb_cs_enc_refines v C hC w m hm

theorem ecb_cs1_enc_refines (C : Cipher) (hC : C.Valid) (w : Nat) (m : Bytes) (hm : C.bs ≤ m.length) :
    ecbCs1Enc C w m = Spec.ecbCsEnc .cs1 C m := C05aux.ecb_cs_enc_refines .cs1 C hC w m hm
theorem ecb_cs2_enc_refines (C : Cipher) (hC : C.Valid) (w : Nat) (m : Bytes) (hm : C.bs ≤ m.length) :
    ecbCs2Enc C w m = Spec.ecbCsEnc .cs2 C m := C05aux.ecb_cs_enc_refines .cs2 C hC w m hm
theorem ecb_cs3_enc_refines (C : Cipher) (hC : C.Valid) (w : Nat) (m : Bytes) (hm : C.bs ≤ m.length) :
    ecbCs3Enc false C w m = Spec.ecbCsEnc .cs3 C m := C05aux.ecb_cs_enc_refines .cs3 C hC w m hm

/-- **CBC-CS1/2/3: decryption inverts encryption** (hence `dec ∘ enc = id` on the implementation mirror by
    `cbc_cs_enc_refines`), every block size, every backend width (independently for the two directions),
    every message length ≥ one block. -/
theorem cbc_cs_dec_inverts (v : CsVariant) (C : Cipher) (hC : C.Valid) (w₁ w₂ : Nat) (iv m : Bytes)
    (hiv : iv.length = C.bs) (hm : C.bs ≤ m.length) :
    C05aux.implCbcDec v C w₂ iv (C05aux.implCbcEnc v C w₁ iv m) = m := by
  rw [C05aux.cbc_cs_enc_refines v C hC w₁ iv m hiv hm]
  exact C05aux.cbc_cs_dec_inverts v C hC w₂ iv m hiv hm

/-- **ECB-CS1/2/3: decryption inverts encryption.** -/
theorem ecb_cs_dec_inverts (v : CsVariant) (C : Cipher) (hC : C.Valid) (w₁ w₂ : Nat) (m : Bytes)
    (hm : C.bs ≤ m.length) :
    C05aux.implEcbDec v C w₂ (C05aux.implEcbEnc v C w₁ m) = m := by
  rw [C05aux.ecb_cs_enc_refines v C hC w₁ m hm]
  exact C05aux.ecb_cs_dec_inverts v C hC w₂ m hm

/-- **ciphertext length equals message length**, CBC variants. -/
theorem cbc_cs_length (v : CsVariant) (C : Cipher) (hC : C.Valid) (w : Nat) (iv m : Bytes)
    (hiv : iv.length = C.bs) (hm : C.bs ≤ m.length) : (C05aux.implCbcEnc v C w iv m).length = m.length := by
  rw [C05aux.cbc_cs_enc_refines v C hC w iv m hiv hm]; exact C05aux.cbcSpec_length v C hC iv m hiv hm

/-- **ciphertext length equals message length**, ECB variants. -/
theorem ecb_cs_length (v : CsVariant) (C : Cipher) (hC : C.Valid) (w : Nat) (m : Bytes)
    (hm : C.bs ≤ m.length) : (C05aux.implEcbEnc v C w m).length = m.length := by
  rw [C05aux.ecb_cs_enc_refines v C hC w m hm]; exact C05aux.ecbSpec_length v C hC m hm

/-! ### decryption = the NIST un-stealing formulation, on arbitrary input -/

/-- **CBC-CS1/2/3 decrypt closures compute the NIST decryption from the ciphertext alone**: on *every* buffer of at
    least one block (not only on ciphertext some encryptor produced) they equal `Spec.cbcCsDec` — un-arrange the
    last `bs + d` bytes, decrypt `C_n`, complete `C*_{n-1}` with its stolen tail, CBC-decrypt. -/
theorem cbc_cs_dec_refines (v : CsVariant) (C : Cipher) (hC : C.Valid) (w : Nat) (iv c : Bytes)
    (hiv : iv.length = C.bs) (hc : C.bs ≤ c.length) :
    C05aux.implCbcDec v C w iv c = Spec.cbcCsDec v C iv c := C05aux.cbc_cs_dec_refines v C hC w iv c hiv hc

/-- **ECB-CS1/2/3 decrypt closures**, likewise. -/
theorem ecb_cs_dec_refines (v : CsVariant) (C : Cipher) (hC : C.Valid) (w : Nat) (c : Bytes) (hc : C.bs ≤ c.length) :
    C05aux.implEcbDec v C w c = Spec.ecbCsDec v C c := C05aux.ecb_cs_dec_refines v C hC w c hc

/-- the two NIST formulations (written independently of the code and of each other) are mutually inverse. -/
theorem spec_dec_inverts_spec_enc (v : CsVariant) (C : Cipher) (hC : C.Valid) (iv m : Bytes) (hiv : iv.length = C.bs)
    (hm : C.bs ≤ m.length) :
    Spec.cbcCsDec v C iv (Spec.cbcCsEnc v C iv m) = m ∧ Spec.ecbCsDec v C (Spec.ecbCsEnc v C m) = m :=
  C05aux.spec_dec_enc v C hC iv m hiv hm

/-- the legacy CS3 mirror does *not* satisfy the refinement at `L = bs` (see `legacy_cs3_one_block_defect`);
    non-vacuity of the hypotheses: the witness cipher is valid and `[5]` is a one-block message. -/
example : inc.Valid ∧ inc.bs ≤ ([5] : Bytes).length := ⟨inc_valid, by decide⟩

end Thm.C05
