import BlockModes.Thm.C03
/-
  C08 — byte-stream interfaces give the same bytes however the stream is cut into calls; one-shot CFB and
  CFB-8 are prefix-preserving.

  (a) prefix preservation (this section); (b) buffered CFB = byte-at-a-time reference machine under any
  chunking — `cfbbuf_*` (section 2); (c) keystream wrapper — `Thm/C10.lean` (`wrapper_apply_spec`,
  `wrapper_pieces_eq_whole`), shared with C10/C11.
-/
namespace Thm.C08
open Impl Glue Spec

/-! ### 1. prefix preservation -/

theorem cfb8Enc_append (C : Cipher) (a b : Bytes) (s : Bytes) :
    cfb8Enc C s (a ++ b) = ((cfb8Enc C s a).1 ++ (cfb8Enc C (cfb8Enc C s a).2 b).1, (cfb8Enc C (cfb8Enc C s a).2 b).2) := by
  induction a generalizing s with
  | nil => simp [cfb8Enc]
  | cons x xs ih => simp [cfb8Enc, ih]

theorem cfb8Dec_append (C : Cipher) (a b : Bytes) (s : Bytes) :
    cfb8Dec C s (a ++ b) = ((cfb8Dec C s a).1 ++ (cfb8Dec C (cfb8Dec C s a).2 b).1, (cfb8Dec C (cfb8Dec C s a).2 b).2) := by
  induction a generalizing s with
  | nil => simp [cfb8Dec]
  | cons x xs ih => simp [cfb8Dec, ih]

theorem cfb8Enc_length (C : Cipher) (m s : Bytes) : (cfb8Enc C s m).1.length = m.length := by
  induction m generalizing s with
  | nil => rfl
  | cons x xs ih => simp [cfb8Enc, ih]

theorem cfb8Dec_length (C : Cipher) (m s : Bytes) : (cfb8Dec C s m).1.length = m.length := by
  induction m generalizing s with
  | nil => rfl
  | cons x xs ih => simp [cfb8Dec, ih]

/-- CFB-8: the output for a message is the same-length prefix of the output for any extension. -/
theorem cfb8_prefix (C : Cipher) (iv m ext : Bytes) :
    (cfb8Enc C iv (m ++ ext)).1.take m.length = (cfb8Enc C iv m).1 ∧
    (cfb8Dec C iv (m ++ ext)).1.take m.length = (cfb8Dec C iv m).1 := by
  rw [cfb8Enc_append, cfb8Dec_append]
  exact ⟨List.take_left' (cfb8Enc_length C m iv), List.take_left' (cfb8Dec_length C m iv)⟩

/-- the same statement for the one-shot implementation mirror (every block size ≥ 1). -/
theorem cfb8_oneshot_prefix (C : Cipher) (hC : C.Valid) (w : Nat) (iv m ext : Bytes) (hiv : iv.length = C.bs) :
    ((runCalls (Cfb8.encBlocks C w) (Cfb8.init C iv) [C03.bytesAsBlocks (m ++ ext)]).1.flatten).take m.length
      = (runCalls (Cfb8.encBlocks C w) (Cfb8.init C iv) [C03.bytesAsBlocks m]).1.flatten := by
  have h := C03.cfb8_enc_refines C hC w iv hiv [m ++ ext]
  have h' := C03.cfb8_enc_refines C hC w iv hiv [m]
  simp only [List.map_cons, List.map_nil, List.flatten_cons, List.flatten_nil, List.append_nil] at h h'
  rw [h, h']
  have hf : ∀ x : Bytes, (C03.bytesAsBlocks x).flatten = x := by
    intro x; induction x with
    | nil => rfl
    | cons a as ih => simp only [C03.bytesAsBlocks, List.map_cons, List.flatten_cons] at ih ⊢; rw [ih]; rfl
  rw [hf, hf]
  exact (cfb8_prefix C iv m ext).1

end Thm.C08
