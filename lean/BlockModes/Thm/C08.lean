import BlockModes.Thm.C03
import BlockModes.Lemmas.CoreInst
import BlockModes.Lemmas.CfbBuf
/-
  C08 — byte-stream interfaces give the same bytes however the stream is cut into calls; one-shot CFB and
  CFB-8 are prefix-preserving.

  (a) prefix preservation (this section); (b) buffered CFB = byte-at-a-time reference machine under any
  chunking — `cfbbuf_*` (section 2); (c) keystream wrapper — `Thm/C10.lean` (`wrapper_apply_spec`,
  `wrapper_pieces_eq_whole`), shared with C10/C11.
-/
namespace Thm.C08
open Impl Glue Spec

/-! ### 1. prefix preservation -/

theorem cfb8Enc_append (C : Cipher) (a b : Bytes) (s : Bytes) :
    cfb8Enc C s (a ++ b) = ((cfb8Enc C s a).1 ++ (cfb8Enc C (cfb8Enc C s a).2 b).1, (cfb8Enc C (cfb8Enc C s a).2 b).2) := by
  induction a generalizing s with
  | nil => simp [cfb8Enc]
  | cons x xs ih => simp [cfb8Enc, ih]

theorem cfb8Dec_append (C : Cipher) (a b : Bytes) (s : Bytes) :
    cfb8Dec C s (a ++ b) = ((cfb8Dec C s a).1 ++ (cfb8Dec C (cfb8Dec C s a).2 b).1, (cfb8Dec C (cfb8Dec C s a).2 b).2) := by
  induction a generalizing s with
  | nil => simp [cfb8Dec]
  | cons x xs ih => simp [cfb8Dec, ih]

theorem cfb8Enc_length (C : Cipher) (m s : Bytes) : (cfb8Enc C s m).1.length = m.length := by
  induction m generalizing s with
  | nil => rfl
  | cons x xs ih => simp [cfb8Enc, ih]

theorem cfb8Dec_length (C : Cipher) (m s : Bytes) : (cfb8Dec C s m).1.length = m.length := by
  induction m generalizing s with
  | nil => rfl
  | cons x xs ih => simp [cfb8Dec, ih]

/-- CFB-8: the output for a message is the same-length prefix of the output for any extension. -/
theorem cfb8_prefix (C : Cipher) (iv m ext : Bytes) :
    (cfb8Enc C iv (m ++ ext)).1.take m.length = (cfb8Enc C iv m).1 ∧
    (cfb8Dec C iv (m ++ ext)).1.take m.length = (cfb8Dec C iv m).1 := by
  rw [cfb8Enc_append, cfb8Dec_append]
  exact ⟨List.take_left' (cfb8Enc_length C m iv), List.take_left' (cfb8Dec_length C m iv)⟩

/-- the same statement for the one-shot implementation mirror (every block size ≥ 1). -/
theorem cfb8_oneshot_prefix (C : Cipher) (hC : C.Valid) (w : Nat) (iv m ext : Bytes) (hiv : iv.length = C.bs) :
    ((runCalls (Cfb8.encBlocks C w) (Cfb8.init C iv) [C03.bytesAsBlocks (m ++ ext)]).1.flatten).take m.length
      = (runCalls (Cfb8.encBlocks C w) (Cfb8.init C iv) [C03.bytesAsBlocks m]).1.flatten := by
  have h := C03.cfb8_enc_refines C hC w iv hiv [m ++ ext]
  have h' := C03.cfb8_enc_refines C hC w iv hiv [m]
  simp only [List.map_cons, List.map_nil, List.flatten_cons, List.flatten_nil, List.append_nil] at h h'
  rw [h, h']
  have hf : ∀ x : Bytes, (C03.bytesAsBlocks x).flatten = x := by
    intro x; induction x with
    | nil => rfl
    | cons a as ih => simp only [C03.bytesAsBlocks, List.map_cons, List.flatten_cons] at ih ⊢; rw [ih]; rfl
  rw [hf, hf]
  exact (cfb8_prefix C iv m ext).1

/-- the chaining value after CFB decryption is the last ciphertext (input) block. -/
theorem C09aux_cfbDec_last (C : Cipher) : ∀ (l : List Bytes) (iv : Bytes), (Spec.cfbDec C iv l).2 = l.getLastD iv := by
  intro l
  induction l with
  | nil => intro iv; rfl
  | cons p ps ih =>
    intro iv
    simp only [Spec.cfbDec, ih]
    cases ps <;> simp [List.getLastD]

/-- one-shot CFB encryption of *any byte length* (trailing partial block included) is the byte-at-a-time reference
    machine — the same machine the buffered encryptor refines under any chunking. -/
theorem cfb_oneshot_eq_reference (C : Cipher) (hC : C.Valid) (iv m : Bytes) (hiv : iv.length = C.bs) :
    Spec.cfbEncBytes C iv m = (RS.run false C (RS.init iv) m).1 := by
  have hbs := hC.bs_pos
  have hm := chunks_flatten_tail C.bs hbs m
  have hall := chunks_allLen C.bs hbs m
  have htl := chunksTail_lt C.bs hbs m
  obtain ⟨_, hch⟩ := Spec.cfbEnc_allLen C hC _ iv hiv hall
  conv => rhs; rw [← hm]
  rw [RS.run_append, RS.init, RS.run_blocks_enc C hC _ iv hiv hall]
  simp only
  rw [RS.run_partial false C _ _ (by simpa using htl) (hC.enc_len _ hch)]
  simp [Spec.cfbEncBytes]


theorem cfb_oneshot_dec_eq_reference (C : Cipher) (hC : C.Valid) (iv m : Bytes) (hiv : iv.length = C.bs) :
    Spec.cfbDecBytes C iv m = (RS.run true C (RS.init iv) m).1 := by
  have hbs := hC.bs_pos
  have hm := chunks_flatten_tail C.bs hbs m
  have hall := chunks_allLen C.bs hbs m
  have htl := chunksTail_lt C.bs hbs m
  have hch : (Spec.cfbDec C iv (chunks C.bs m)).2.length = C.bs := by
    rw [(C09aux_cfbDec_last C (chunks C.bs m) iv)]
    cases hc : (chunks C.bs m).reverse with
    | nil => simp at hc; simp [hc, hiv]
    | cons x xs =>
      have : chunks C.bs m = xs.reverse ++ [x] := by have := congrArg List.reverse hc; simpa using this
      rw [this, List.getLastD_concat]
      exact hall x (by rw [this]; simp)
  conv => rhs; rw [← hm]
  rw [RS.run_append, RS.init, RS.run_blocks_dec C hC _ iv hiv hall]
  simp only
  rw [RS.run_partial true C _ _ (by simpa using htl) (hC.enc_len _ hch)]
  simp [Spec.cfbDecBytes]

/-- **one-shot CFB is prefix-preserving** (both directions, every byte length, trailing partial blocks on either
    side): the output for `m` is the same-length prefix of the output for any extension `m ++ ext`. -/
theorem cfb_oneshot_prefix (C : Cipher) (hC : C.Valid) (w : Nat) (iv m ext : Bytes) (hiv : iv.length = C.bs) :
    (asyncInOut C.bs (Cfb.encBlocks C w) (Cfb.encBlock C) (Cfb.init C iv) (m ++ ext)).take m.length
      = asyncInOut C.bs (Cfb.encBlocks C w) (Cfb.encBlock C) (Cfb.init C iv) m ∧
    (asyncInOut C.bs (Cfb.decBlocks C w) (Cfb.decBlock C) (Cfb.init C iv) (m ++ ext)).take m.length
      = asyncInOut C.bs (Cfb.decBlocks C w) (Cfb.decBlock C) (Cfb.init C iv) m := by
  rw [C03.cfb_oneshot_enc, C03.cfb_oneshot_enc, C03.cfb_oneshot_dec, C03.cfb_oneshot_dec,
    cfb_oneshot_eq_reference C hC iv _ hiv, cfb_oneshot_eq_reference C hC iv _ hiv,
    cfb_oneshot_dec_eq_reference C hC iv _ hiv, cfb_oneshot_dec_eq_reference C hC iv _ hiv,
    RS.run_append, RS.run_append]
  exact ⟨List.take_left' (RS.run_length false C m _), List.take_left' (RS.run_length true C m _)⟩

/-! ### 2. buffered CFB: `BufEncryptor::encrypt` / `BufDecryptor::decrypt` under any chunking -/

/-- the public call: `encrypt` on a `BufEncryptor`, `decrypt` on a `BufDecryptor`. -/
def bufCall (dec : Bool) (C : Cipher) (s : CfbBuf.St) (data : Bytes) : Bytes × CfbBuf.St :=
  if dec then CfbBuf.decrypt C s data else CfbBuf.encrypt C s data

/-- successive calls on the pieces, state threaded through. -/
def bufRun (dec : Bool) (C : Cipher) : CfbBuf.St → List Bytes → List Bytes × CfbBuf.St
  | s, [] => ([], s)
  | s, p :: ps =>
    let r := bufCall dec C s p
    let r2 := bufRun dec C r.2 ps
    (r.1 :: r2.1, r2.2)

theorem bufCall_eq_process (dec : Bool) (C : Cipher) (s : CfbBuf.St) (data : Bytes) :
    bufCall dec C s data = CfbBuf.process dec C s data := by
  cases dec
  · simp [bufCall, CfbBuf.encrypt_eq_process]
  · simp [bufCall, CfbBuf.decrypt_eq_process]

theorem bufRun_refines (dec : Bool) (C : Cipher) (hC : C.Valid) :
    ∀ (pieces : List Bytes) (s : CfbBuf.St) (a : RS), CfbBuf.Rel C s a → a.ch.length = C.bs →
      (bufRun dec C s pieces).1.flatten = (RS.run dec C a pieces.flatten).1 ∧
      CfbBuf.Rel C (bufRun dec C s pieces).2 (RS.run dec C a pieces.flatten).2 := by
  intro pieces
  induction pieces with
  | nil => intro s a hR _; exact ⟨rfl, hR⟩
  | cons p ps ih =>
    intro s a hR hch
    obtain ⟨h1, h2, h3⟩ := CfbBuf.process_refines dec C hC s a p hR hch
    obtain ⟨i1, i2⟩ := ih _ _ h2 h3
    simp only [bufRun, bufCall_eq_process, List.flatten_cons, RS.run_append]
    exact ⟨by rw [h1, i1], i2⟩

theorem init_rel (C : Cipher) (hC : C.Valid) (iv : Bytes) (hiv : iv.length = C.bs) :
    CfbBuf.Rel C (CfbBuf.init C iv) (RS.init iv) :=
  ⟨hC.enc_len iv hiv, rfl, hC.bs_pos, by simp [CfbBuf.init, RS.init]⟩

/-- **buffered CFB, both directions**: feeding any pieces (empty ones, pieces straddling block boundaries) in
    order produces the bytes of the byte-at-a-time reference machine on the concatenation. -/
theorem cfbbuf_any_chunking (dec : Bool) (C : Cipher) (hC : C.Valid) (iv : Bytes) (hiv : iv.length = C.bs)
    (pieces : List Bytes) :
    (bufRun dec C (CfbBuf.init C iv) pieces).1.flatten = (RS.run dec C (RS.init iv) pieces.flatten).1 :=
  (bufRun_refines dec C hC pieces _ _ (init_rel C hC iv hiv) hiv).1

/-- hence: pieces in order = one call on the whole string, from a fresh instance … -/
theorem cfbbuf_pieces_eq_whole (dec : Bool) (C : Cipher) (hC : C.Valid) (iv : Bytes) (hiv : iv.length = C.bs)
    (pieces : List Bytes) :
    (bufRun dec C (CfbBuf.init C iv) pieces).1.flatten = (bufCall dec C (CfbBuf.init C iv) pieces.flatten).1 := by
  rw [cfbbuf_any_chunking dec C hC iv hiv pieces]
  have := cfbbuf_any_chunking dec C hC iv hiv [pieces.flatten]
  simp only [bufRun, List.flatten_cons, List.flatten_nil, List.append_nil] at this
  exact this.symm

/-- … and from any reachable state (any byte position inside a block). -/
theorem cfbbuf_pieces_eq_whole_from (dec : Bool) (C : Cipher) (hC : C.Valid) (s : CfbBuf.St) (a : RS)
    (hR : CfbBuf.Rel C s a) (hch : a.ch.length = C.bs) (pieces : List Bytes) :
    (bufRun dec C s pieces).1.flatten = (bufCall dec C s pieces.flatten).1 := by
  rw [(bufRun_refines dec C hC pieces s a hR hch).1]
  have := (bufRun_refines dec C hC [pieces.flatten] s a hR hch).1
  simp only [bufRun, List.flatten_cons, List.flatten_nil, List.append_nil] at this
  exact this.symm

/-! ### 3. the keystream wrapper: any cutting into pieces (empty ones included) -/

/-- CTR (all flavours): feeding pieces in order gives the bytes of one call on the whole string, as long as
    the whole string ends at or before the keystream limit. -/
theorem ctr_pieces_eq_whole (C : Cipher) (hC : C.Valid) (hbs : C.bs < 256) (f : Flavor) (hw : f.w = 8 * f.cs)
    (hcs : 0 < f.cs) (k : Nat) (hk : 0 < k) (iv : Bytes) (hiv : iv.length = k * f.cs) (hblk : C.bs = k * f.cs)
    (w : Nat) (s : Wr Ctr.St) (blk : Nat) (hI : WInv (Ctr.core C f) (ctrKs C f iv) (ctrRep f iv) s blk)
    (pieces : List Bytes)
    (hfit : s.q (Ctr.core C f) blk + pieces.flatten.length ≤ (2 ^ f.w - 1) * C.bs) :
    (Wr.runUnchecked (Ctr.core C f) w s pieces).1.flatten = (s.applyUnchecked (Ctr.core C f) w pieces.flatten).1 :=
  pieces_eq_whole (ctr_coreSpec C hC hbs f hw hcs k hk iv hiv hblk) w pieces s blk hI (Or.inr hfit)

theorem belt_pieces_eq_whole (C : Cipher) (hC : C.Valid) (hbs : C.bs = 16) (iv : Bytes)
    (w : Nat) (s : Wr Belt.St) (blk : Nat) (hI : WInv (Belt.core C) (beltKs C iv) (beltRep C iv) s blk)
    (pieces : List Bytes) (hfit : s.q (Belt.core C) blk + pieces.flatten.length ≤ (2 ^ 128 - 1) * C.bs) :
    (Wr.runUnchecked (Belt.core C) w s pieces).1.flatten = (s.applyUnchecked (Belt.core C) w pieces.flatten).1 :=
  pieces_eq_whole (belt_coreSpec C hC hbs iv) w pieces s blk hI (Or.inr hfit)

/-- OFB has no limit. -/
theorem ofb_pieces_eq_whole (C : Cipher) (hC : C.Valid) (hbs : C.bs < 256) (iv : Bytes) (hiv : iv.length = C.bs)
    (w : Nat) (s : Wr Bytes) (blk : Nat) (hI : WInv (OfbCore.core C) (ofbKs C iv) (ofbRep C iv) s blk)
    (pieces : List Bytes) :
    (Wr.runUnchecked (OfbCore.core C) w s pieces).1.flatten = (s.applyUnchecked (OfbCore.core C) w pieces.flatten).1 :=
  pieces_eq_whole (ofb_coreSpec C hC hbs iv hiv) w pieces s blk hI (Or.inl rfl)

/-- for OFB the exhaustion check always passes, so `try_apply_keystream` *is* the unchecked body. -/
theorem ofb_apply_never_fails (C : Cipher) (w : Nat) (s : Wr Bytes) (data : Bytes) :
    s.apply (OfbCore.core C) w data = some (s.applyUnchecked (OfbCore.core C) w data) := by
  simp [Wr.apply, Wr.checkRemaining, OfbCore.core]

end Thm.C08
