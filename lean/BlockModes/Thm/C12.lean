import BlockModes.Impl.Mem
import BlockModes.Lemmas.Xor
import BlockModes.Lemmas.MemCtsApi
import BlockModes.Lemmas.MemWrapper
import BlockModes.Lemmas.MemAsync
import BlockModes.Thm.C03
/-
  C12 — in-place and buffer-to-buffer operation give identical results.

  For every backend body of the block modes (sequential and hand-written parallel ones) and for keystream
  application: run on the aliased pair (in place) and run on a disjoint pair whose output side holds
  arbitrary bytes `g`, the body writes the same output and leaves the same chaining state — namely the
  output and state of the value-level mirror `Impl.*` that every other theorem is about.
  `pcbc_hazard_refuted` shows the model distinguishes the two forms: a body that reads its input after
  writing the output is *not* alias-independent.
-/
namespace Thm.C12
open Impl

/-- the shape shared by all single-block statements. -/
def AliasIndep {σ : Type} (mem : σ → IOB → IOB × σ) (pure : σ → Bytes → Bytes × σ) : Prop :=
  ∀ (s : σ) (b g : Bytes),
    ((mem s (IOB.inplace b)).1.out, (mem s (IOB.inplace b)).2) = pure s b ∧
    ((mem s (IOB.b2b b g)).1.out, (mem s (IOB.b2b b g)).2) = pure s b

theorem cbc_enc (C : Cipher) : AliasIndep (Mem.Cbc.encBlock C) (Cbc.encBlock C) := fun _ _ _ => ⟨rfl, rfl⟩
theorem cbc_dec (C : Cipher) : AliasIndep (Mem.Cbc.decBlock C) (Cbc.decBlock C) := fun _ _ _ => ⟨rfl, rfl⟩
theorem pcbc_enc (C : Cipher) : AliasIndep (Mem.Pcbc.encBlock C) (Pcbc.encBlock C) := fun _ _ _ => ⟨rfl, rfl⟩
theorem pcbc_dec (C : Cipher) : AliasIndep (Mem.Pcbc.decBlock C) (Pcbc.decBlock C) := fun _ _ _ => ⟨rfl, rfl⟩
theorem ige_enc (C : Cipher) : AliasIndep (Mem.Ige.encBlock C) (Ige.encBlock C) := fun _ _ _ => ⟨rfl, rfl⟩
theorem ige_dec (C : Cipher) : AliasIndep (Mem.Ige.decBlock C) (Ige.decBlock C) := fun _ _ _ => ⟨rfl, rfl⟩
theorem cfb_enc (C : Cipher) : AliasIndep (Mem.Cfb.encBlock C) (Cfb.encBlock C) := fun _ _ _ => ⟨rfl, rfl⟩
theorem cfb_dec (C : Cipher) : AliasIndep (Mem.Cfb.decBlock C) (Cfb.decBlock C) := fun _ _ _ => ⟨rfl, rfl⟩
theorem cfb8_enc (C : Cipher) : AliasIndep (Mem.Cfb8.encBlock C) (Cfb8.encBlock C) := fun _ _ _ => ⟨rfl, rfl⟩
theorem cfb8_dec (C : Cipher) : AliasIndep (Mem.Cfb8.decBlock C) (Cfb8.decBlock C) := fun _ _ _ => ⟨rfl, rfl⟩
theorem ofb (C : Cipher) : AliasIndep (Mem.Ofb.encBlock C) (Ofb.encBlock C) := fun _ _ _ => ⟨rfl, rfl⟩

/-- keystream application (CTR, BelT, OFB cores and the byte-level wrapper): out = in ⊕ ks in both forms. -/
theorem apply_ks (ks b g : Bytes) :
    (Mem.applyKs ks (IOB.inplace b)).out = xorB b ks ∧ (Mem.applyKs ks (IOB.b2b b g)).out = xorB b ks := ⟨rfl, rfl⟩

/-! ### hand-written parallel bodies on a chunk: every block is its own in/out pair -/

theorem zipWith_setOut_out : ∀ (ios : List IOB) (t : List Bytes), ios.length = t.length →
    (List.zipWith IOB.setOut ios t).map IOB.out = t := by
  intro ios
  induction ios with
  | nil => intro t h; cases t <;> simp_all
  | cons io ios ih =>
    intro t h
    cases t with
    | nil => simp at h
    | cons x xs => simp only [List.length_cons, Nat.add_right_cancel_iff] at h; simp [ih xs h]

/-- `cbc::Decryptor::decrypt_par_blocks`, in place. -/
theorem cbc_decPar_inplace (C : Cipher) (iv : Bytes) (chunk : List Bytes) :
    ((Mem.Cbc.decPar C iv (chunk.map IOB.inplace)).1.map IOB.out, (Mem.Cbc.decPar C iv (chunk.map IOB.inplace)).2)
      = Cbc.decPar C iv chunk := by
  have hin : (chunk.map IOB.inplace).map IOB.getIn = chunk := by simp [Function.comp_def]
  simp only [Mem.Cbc.decPar, hin, Cbc.decPar]
  rw [zipWith_setOut_out]
  simp
  cases chunk <;> simp [Nat.min_def] <;> omega

/-- `cbc::Decryptor::decrypt_par_blocks`, buffer to buffer, any prior output contents. -/
theorem cbc_decPar_b2b (C : Cipher) (iv : Bytes) (chunk garbage : List Bytes) (hg : garbage.length = chunk.length) :
    ((Mem.Cbc.decPar C iv (List.zipWith IOB.b2b chunk garbage)).1.map IOB.out,
     (Mem.Cbc.decPar C iv (List.zipWith IOB.b2b chunk garbage)).2) = Cbc.decPar C iv chunk := by
  have hin : (List.zipWith IOB.b2b chunk garbage).map IOB.getIn = chunk := by
    induction chunk generalizing garbage with
    | nil => simp
    | cons c cs ih =>
      cases garbage with
      | nil => simp at hg
      | cons g gs => simp only [List.length_cons, Nat.add_right_cancel_iff] at hg; simp [ih gs hg]
  simp only [Mem.Cbc.decPar, hin, Cbc.decPar]
  rw [zipWith_setOut_out]
  simp [hg]
  cases chunk <;> simp [Nat.min_def] <;> omega

theorem zipWith_xorIn2Out_out : ∀ (ios : List IOB) (xs : List Bytes),
    (List.zipWith IOB.xorIn2Out ios xs).map IOB.out = List.zipWith xorB (ios.map IOB.getIn) xs := by
  intro ios
  induction ios with
  | nil => intro xs; simp
  | cons io ios ih =>
    intro xs
    cases xs with
    | nil => simp
    | cons x xs => simp [ih xs, IOB.xorIn2Out]

/-- `cfb_mode::Decryptor::decrypt_par_blocks`, in place: block `i` is read when it is XORed, after blocks
    `< i` were overwritten — harmless because blocks are disjoint. -/
theorem cfb_decPar_inplace (C : Cipher) (iv : Bytes) (chunk : List Bytes) :
    ((Mem.Cfb.decPar C iv (chunk.map IOB.inplace)).1.map IOB.out, (Mem.Cfb.decPar C iv (chunk.map IOB.inplace)).2)
      = Cfb.decPar C iv chunk := by
  have hin : (chunk.map IOB.inplace).map IOB.getIn = chunk := by simp [Function.comp_def]
  simp only [Mem.Cfb.decPar, hin, Cfb.decPar, zipWith_xorIn2Out_out]

theorem cfb_decPar_b2b (C : Cipher) (iv : Bytes) (chunk garbage : List Bytes) (hg : garbage.length = chunk.length) :
    ((Mem.Cfb.decPar C iv (List.zipWith IOB.b2b chunk garbage)).1.map IOB.out,
     (Mem.Cfb.decPar C iv (List.zipWith IOB.b2b chunk garbage)).2) = Cfb.decPar C iv chunk := by
  have hin : (List.zipWith IOB.b2b chunk garbage).map IOB.getIn = chunk := by
    induction chunk generalizing garbage with
    | nil => simp
    | cons c cs ih =>
      cases garbage with
      | nil => simp at hg
      | cons g gs => simp only [List.length_cons, Nat.add_right_cancel_iff] at hg; simp [ih gs hg]
  simp only [Mem.Cfb.decPar, hin, Cfb.decPar, zipWith_xorIn2Out_out]

/-! ### whole calls on many blocks (`*_blocks_inout` / `*_blocks` / `*_blocks_b2b`) -/

/-- a many-block call is the single-block body on each in/out block in turn; if the body is alias-independent, so
    is the call: in place on `blocks`, or from `blocks` into output blocks holding arbitrary `garbage`, the bytes
    written and the final chaining state are those of the value-level fold. -/
theorem blocks_alias_indep {σ : Type} {mem : σ → IOB → IOB × σ} {pure : σ → Bytes → Bytes × σ}
    (h : AliasIndep mem pure) : ∀ (blocks garbage : List Bytes) (s : σ), garbage.length = blocks.length →
      (((Mem.foldIO mem s (blocks.map IOB.inplace)).1.map (·.out), (Mem.foldIO mem s (blocks.map IOB.inplace)).2)
          = Glue.foldBlocks pure s blocks) ∧
      (((Mem.foldIO mem s (List.zipWith IOB.b2b blocks garbage)).1.map (·.out),
          (Mem.foldIO mem s (List.zipWith IOB.b2b blocks garbage)).2) = Glue.foldBlocks pure s blocks) := by
  intro blocks
  induction blocks with
  | nil => intro garbage s _; simp [Mem.foldIO, Glue.foldBlocks]
  | cons b bs ih =>
    intro garbage s hg
    match garbage, hg with
    | g :: gs, hg =>
      have hg' : gs.length = bs.length := by simpa using hg
      obtain ⟨h1, h2⟩ := h s b g
      have e1 : (mem s (IOB.inplace b)).1.out = (pure s b).1 := congrArg Prod.fst h1
      have e2 : (mem s (IOB.inplace b)).2 = (pure s b).2 := congrArg Prod.snd h1
      have e3 : (mem s (IOB.b2b b g)).1.out = (pure s b).1 := congrArg Prod.fst h2
      have e4 : (mem s (IOB.b2b b g)).2 = (pure s b).2 := congrArg Prod.snd h2
      obtain ⟨i1, i2⟩ := ih gs (pure s b).2 hg'
      constructor
      · simp only [List.map_cons, Mem.foldIO, Glue.foldBlocks, e1, e2]
        rw [← i1]
      · simp only [List.zipWith_cons_cons, Mem.foldIO, Glue.foldBlocks, List.map_cons, e3, e4]
        rw [← i2]

/-- instances: every block-mode direction (CBC, PCBC, IGE, CFB, CFB-8, OFB), sequential path. -/
theorem all_block_modes_many_blocks (C : Cipher) (blocks garbage : List Bytes) (hg : garbage.length = blocks.length) :
    (∀ iv, ((Mem.foldIO (Mem.Cbc.encBlock C) iv (List.zipWith IOB.b2b blocks garbage)).1.map (·.out))
        = (Mem.foldIO (Mem.Cbc.encBlock C) iv (blocks.map IOB.inplace)).1.map (·.out)) ∧
    (∀ iv, ((Mem.foldIO (Mem.Cbc.decBlock C) iv (List.zipWith IOB.b2b blocks garbage)).1.map (·.out))
        = (Mem.foldIO (Mem.Cbc.decBlock C) iv (blocks.map IOB.inplace)).1.map (·.out)) ∧
    (∀ iv, ((Mem.foldIO (Mem.Pcbc.encBlock C) iv (List.zipWith IOB.b2b blocks garbage)).1.map (·.out))
        = (Mem.foldIO (Mem.Pcbc.encBlock C) iv (blocks.map IOB.inplace)).1.map (·.out)) ∧
    (∀ iv, ((Mem.foldIO (Mem.Pcbc.decBlock C) iv (List.zipWith IOB.b2b blocks garbage)).1.map (·.out))
        = (Mem.foldIO (Mem.Pcbc.decBlock C) iv (blocks.map IOB.inplace)).1.map (·.out)) ∧
    (∀ s, ((Mem.foldIO (Mem.Ige.encBlock C) s (List.zipWith IOB.b2b blocks garbage)).1.map (·.out))
        = (Mem.foldIO (Mem.Ige.encBlock C) s (blocks.map IOB.inplace)).1.map (·.out)) ∧
    (∀ s, ((Mem.foldIO (Mem.Ige.decBlock C) s (List.zipWith IOB.b2b blocks garbage)).1.map (·.out))
        = (Mem.foldIO (Mem.Ige.decBlock C) s (blocks.map IOB.inplace)).1.map (·.out)) ∧
    (∀ iv, ((Mem.foldIO (Mem.Cfb.encBlock C) iv (List.zipWith IOB.b2b blocks garbage)).1.map (·.out))
        = (Mem.foldIO (Mem.Cfb.encBlock C) iv (blocks.map IOB.inplace)).1.map (·.out)) ∧
    (∀ iv, ((Mem.foldIO (Mem.Cfb.decBlock C) iv (List.zipWith IOB.b2b blocks garbage)).1.map (·.out))
        = (Mem.foldIO (Mem.Cfb.decBlock C) iv (blocks.map IOB.inplace)).1.map (·.out)) ∧
    (∀ iv, ((Mem.foldIO (Mem.Cfb8.encBlock C) iv (List.zipWith IOB.b2b blocks garbage)).1.map (·.out))
        = (Mem.foldIO (Mem.Cfb8.encBlock C) iv (blocks.map IOB.inplace)).1.map (·.out)) ∧
    (∀ iv, ((Mem.foldIO (Mem.Cfb8.decBlock C) iv (List.zipWith IOB.b2b blocks garbage)).1.map (·.out))
        = (Mem.foldIO (Mem.Cfb8.decBlock C) iv (blocks.map IOB.inplace)).1.map (·.out)) ∧
    (∀ iv, ((Mem.foldIO (Mem.Ofb.encBlock C) iv (List.zipWith IOB.b2b blocks garbage)).1.map (·.out))
        = (Mem.foldIO (Mem.Ofb.encBlock C) iv (blocks.map IOB.inplace)).1.map (·.out)) := by
  have key : ∀ {σ : Type} {mem : σ → IOB → IOB × σ} {pure : σ → Bytes → Bytes × σ} (_ : AliasIndep mem pure) (s : σ),
      ((Mem.foldIO mem s (List.zipWith IOB.b2b blocks garbage)).1.map (·.out))
        = (Mem.foldIO mem s (blocks.map IOB.inplace)).1.map (·.out) := by
    intro σ mem pure h s
    obtain ⟨h1, h2⟩ := blocks_alias_indep h blocks garbage s hg
    have e1 := congrArg Prod.fst h1
    have e2 := congrArg Prod.fst h2
    simp only at e1 e2
    rw [e1, e2]
  exact ⟨key (cbc_enc C), key (cbc_dec C), key (pcbc_enc C), key (pcbc_dec C), key (ige_enc C), key (ige_dec C),
    key (cfb_enc C), key (cfb_dec C), key (cfb8_enc C), key (cfb8_dec C), key (ofb C)⟩

/-! ### one session mixing the two forms (a caller-written `*_with_backend` closure may handle one block buffer-to-buffer
   and the next one in place: harness op `backend 6`) -/

/-- one in/out block of a session: used in place (`none`), or buffer-to-buffer into a block holding arbitrary bytes `g`. -/
def mkIO (b : Bytes) : Option Bytes → IOB
  | none => IOB.inplace b
  | some g => IOB.b2b b g

/-- **any interleaving** of in-place and buffer-to-buffer blocks within one backend session gives the outputs and the final
    state of the value-level fold: the form of one block has no influence on the next.  (A body that decides once per
    session which form it is dealing with — seeded change S-C07-m — cannot satisfy `AliasIndep`, see `sticky_form_refuted`.) -/
theorem mixed_session_alias_indep {σ : Type} {mem : σ → IOB → IOB × σ} {pure : σ → Bytes → Bytes × σ}
    (h : AliasIndep mem pure) : ∀ (blocks : List (Bytes × Option Bytes)) (s : σ),
      ((Mem.foldIO mem s (blocks.map fun p => mkIO p.1 p.2)).1.map (·.out),
        (Mem.foldIO mem s (blocks.map fun p => mkIO p.1 p.2)).2) = Glue.foldBlocks pure s (blocks.map (·.1)) := by
  intro blocks
  induction blocks with
  | nil => intro s; simp [Mem.foldIO, Glue.foldBlocks]
  | cons p ps ih =>
    intro s
    obtain ⟨b, og⟩ := p
    have e : (mem s (mkIO b og)).1.out = (pure s b).1 ∧ (mem s (mkIO b og)).2 = (pure s b).2 := by
      cases og with
      | none => exact ⟨congrArg Prod.fst (h s b []).1, congrArg Prod.snd (h s b []).1⟩
      | some g => exact ⟨congrArg Prod.fst (h s b g).2, congrArg Prod.snd (h s b g).2⟩
    have i := ih (pure s b).2
    simp only [List.map_cons, Mem.foldIO, Glue.foldBlocks, e.1, e.2]
    rw [← i]

/-- instances: every block-mode direction. -/
theorem all_block_modes_mixed_session (C : Cipher) (blocks : List (Bytes × Option Bytes)) :
    (∀ iv, (Mem.foldIO (Mem.Cbc.encBlock C) iv (blocks.map fun p => mkIO p.1 p.2)).1.map (·.out)
        = (Glue.foldBlocks (Cbc.encBlock C) iv (blocks.map (·.1))).1) ∧
    (∀ iv, (Mem.foldIO (Mem.Cbc.decBlock C) iv (blocks.map fun p => mkIO p.1 p.2)).1.map (·.out)
        = (Glue.foldBlocks (Cbc.decBlock C) iv (blocks.map (·.1))).1) ∧
    (∀ iv, (Mem.foldIO (Mem.Pcbc.encBlock C) iv (blocks.map fun p => mkIO p.1 p.2)).1.map (·.out)
        = (Glue.foldBlocks (Pcbc.encBlock C) iv (blocks.map (·.1))).1) ∧
    (∀ iv, (Mem.foldIO (Mem.Pcbc.decBlock C) iv (blocks.map fun p => mkIO p.1 p.2)).1.map (·.out)
        = (Glue.foldBlocks (Pcbc.decBlock C) iv (blocks.map (·.1))).1) ∧
    (∀ s, (Mem.foldIO (Mem.Ige.encBlock C) s (blocks.map fun p => mkIO p.1 p.2)).1.map (·.out)
        = (Glue.foldBlocks (Ige.encBlock C) s (blocks.map (·.1))).1) ∧
    (∀ s, (Mem.foldIO (Mem.Ige.decBlock C) s (blocks.map fun p => mkIO p.1 p.2)).1.map (·.out)
        = (Glue.foldBlocks (Ige.decBlock C) s (blocks.map (·.1))).1) ∧
    (∀ iv, (Mem.foldIO (Mem.Cfb.encBlock C) iv (blocks.map fun p => mkIO p.1 p.2)).1.map (·.out)
        = (Glue.foldBlocks (Cfb.encBlock C) iv (blocks.map (·.1))).1) ∧
    (∀ iv, (Mem.foldIO (Mem.Cfb.decBlock C) iv (blocks.map fun p => mkIO p.1 p.2)).1.map (·.out)
        = (Glue.foldBlocks (Cfb.decBlock C) iv (blocks.map (·.1))).1) ∧
    (∀ iv, (Mem.foldIO (Mem.Cfb8.encBlock C) iv (blocks.map fun p => mkIO p.1 p.2)).1.map (·.out)
        = (Glue.foldBlocks (Cfb8.encBlock C) iv (blocks.map (·.1))).1) ∧
    (∀ iv, (Mem.foldIO (Mem.Cfb8.decBlock C) iv (blocks.map fun p => mkIO p.1 p.2)).1.map (·.out)
        = (Glue.foldBlocks (Cfb8.decBlock C) iv (blocks.map (·.1))).1) ∧
    (∀ iv, (Mem.foldIO (Mem.Ofb.encBlock C) iv (blocks.map fun p => mkIO p.1 p.2)).1.map (·.out)
        = (Glue.foldBlocks (Ofb.encBlock C) iv (blocks.map (·.1))).1) := by
  have key : ∀ {σ : Type} {mem : σ → IOB → IOB × σ} {pure : σ → Bytes → Bytes × σ} (_ : AliasIndep mem pure) (s : σ),
      (Mem.foldIO mem s (blocks.map fun p => mkIO p.1 p.2)).1.map (·.out) = (Glue.foldBlocks pure s (blocks.map (·.1))).1 :=
    fun h s => congrArg Prod.fst (mixed_session_alias_indep h blocks s)
  exact ⟨key (cbc_enc C), key (cbc_dec C), key (pcbc_enc C), key (pcbc_dec C), key (ige_enc C), key (ige_dec C),
    key (cfb_enc C), key (cfb_dec C), key (cfb8_enc C), key (cfb8_dec C), key (ofb C)⟩

/-- the body of seeded change S-C07-m — CFB decryption that remembers, from the first block of a session, whether the caller
    works in place, and on the buffer-to-buffer path encrypts the *input side* straight into the feedback register after the
    output was written (fine when the sides are distinct, wrong when a later block is in place) — written on the same memory
    model (`E = id`, one byte): its result on a mixed session differs from the definition.  So `mixed_session_alias_indep` is a
    statement such a body fails, and the model can express the difference. -/
def stickyCfbDec (C : Cipher) (st : Bytes × Option Bool) (io : IOB) : IOB × (Bytes × Option Bool) :=
  let inPlace := match st.2 with
    | some f => f
    | none => io.alias
  if inPlace then
    let t := io.getIn                              -- copy of the ciphertext block taken first
    let io' := io.xorIn2Out st.1
    (io', (C.enc t, some inPlace))
  else
    let io' := io.xorIn2Out st.1
    (io', (C.enc io'.getIn, some inPlace))         -- "copy-free": reads the input side after the output was written

theorem sticky_form_refuted :
    let C : Cipher := { bs := 1, enc := id, dec := id }
    (Mem.foldIO (stickyCfbDec C) ([7], none) [mkIO [1] (some [9]), mkIO [2] none]).2.1
      ≠ (Glue.foldBlocks (Cfb.decBlock C) [7] [[1], [2]]).2 := by
  decide

/-! ### ciphertext stealing: the twelve closures of cts/src/{cbc,ecb}_cs{1,2,3}.rs on the flat in/out buffer

  `Impl/MemCts.lean` mirrors the closures and cts/src/lib.rs statement by statement on `IOBuf` (block loops with
  the hand-written parallel body of `cbc_dec`, `into_chunks`, `split_at`, `mem::replace`, `mem::swap`,
  `copy_from_slice` on overlapping regions of the input and output views). -/

open Impl.MemCts in
/-- **CTS, all six types, both directions**: in place on `m`, and buffer-to-buffer from `m` into an output
    buffer holding arbitrary bytes `g`, the call succeeds and writes the same bytes — those of the value-level
    mirror (which `C05` proves equal to the NIST formulation).  Every block size ≥ 1, every backend width, every
    length ≥ one block.  (A CTS object is consumed by the call, so there is no state left behind to compare.) -/
theorem cts_alias_indep (o : MemCts.Op) (C : Cipher) (hC : C.Valid) (w : Nat) (iv : Bytes) (hiv : iv.length = C.bs)
    (m g : Bytes) (hm : C.bs ≤ m.length) (hg : g.length = m.length) :
    ∃ a b, o.mem C w iv (IOBuf.inplace m) = some a ∧ o.mem C w iv (IOBuf.b2b m g) = some b ∧
      a.out = b.out ∧ a.out = o.val C w iv m := by
  obtain ⟨a, ha1, ha2⟩ := op_ok o C hC w iv hiv (IOBuf.inplace m) (WF_inplace m) (by simpa using hm)
  obtain ⟨b, hb1, hb2⟩ := op_ok o C hC w iv hiv (IOBuf.b2b m g) (WF_b2b m g hg.symm) (by simp; omega)
  exact ⟨a, b, ha1, hb1, by rw [ha2, hb2]; rfl, ha2⟩

open Impl.MemCts in
/-- the same at the level of the public calls (`encrypt`/`decrypt` vs `encrypt_b2b`/`decrypt_b2b`), gate and
    `InOutBuf::new` included: equal-length buffers give the same outcome in both forms (both `Err` when shorter
    than a block, both `Ok` with the same bytes otherwise). -/
theorem cts_calls_agree (o : MemCts.Op) (C : Cipher) (hC : C.Valid) (w : Nat) (iv : Bytes) (hiv : iv.length = C.bs)
    (m g : Bytes) (hg : g.length = m.length) :
    (inplaceCall C.bs (o.mem C w iv) m = .err m ∧ b2bCall C.bs (o.mem C w iv) m g = .err g ∧ m.length < C.bs) ∨
    (inplaceCall C.bs (o.mem C w iv) m = .ok (o.val C w iv m) ∧ b2bCall C.bs (o.mem C w iv) m g = .ok (o.val C w iv m)
      ∧ C.bs ≤ m.length) := by
  rw [inplaceCall_eq o C hC w iv hiv, b2bCall_eq o C hC w iv hiv]
  by_cases h : m.length < C.bs
  · left; simp [h, hg]
  · right; simp [h, hg]; omega

/-- non-vacuity and a concrete run: CBC-CS3 decrypt on a 5-byte buffer with 2-byte blocks (three chunks: one full
    pair through the width-2 parallel body, stealing on the rest), in place vs into a dirty buffer. -/
example :
    let C := Toy.cipher [1,2,3,4,5,6,7,8,9,10,11,12,13,14,15,16] 2
    (MemCts.Op.cbc3d.mem C 2 [7, 9] (IOBuf.inplace [1, 2, 3, 4, 5])).map (·.out)
      = (MemCts.Op.cbc3d.mem C 2 [7, 9] (IOBuf.b2b [1, 2, 3, 4, 5] [200, 201, 202, 203, 204])).map (·.out) := by
  decide

/-! ### the byte-level stream ciphers: `apply_keystream` in place vs `apply_keystream_b2b`

  `Impl/MemWrapper.lean` mirrors `StreamCipherCoreWrapper::try_apply_keystream_inout` (the body behind `ctr::Ctr*`,
  `ofb::Ofb`, `belt_ctr::BeltCtr`) on the in/out buffer: finish the buffered keystream block, whole blocks through the
  core, refill the buffer for a trailing partial block — three `xor_in2out` phases over consecutive ranges. -/

open Impl.MemWr Impl.MemCts Glue in
/-- **any keystream core, any wrapper state reachable through the API** (one block of buffer, `pos ≤ bs`), **any data
    length**: in place on `m`, and from `m` into an output buffer holding arbitrary `g`, the call writes the same bytes
    and leaves the same state (core and buffer) — those of the value-level mirror `Wr.applyUnchecked` that C08, C10 and
    C11 are about. -/
theorem wrapper_apply_alias_indep {σ : Type} {K : Core σ} {P : σ → Prop} (hK : LenCore K P) (w : Nat) (s : Wr σ)
    (hbuf : s.buffer.length = K.bs) (hpos : s.pos ≤ K.bs) (hP : P s.core) (m g : Bytes) (hg : g.length = m.length) :
    ∃ a b, applyUncheckedMem K w s (IOBuf.inplace m) = some (a, (s.applyUnchecked K w m).2) ∧
           applyUncheckedMem K w s (IOBuf.b2b m g) = some (b, (s.applyUnchecked K w m).2) ∧
           a.out = b.out ∧ a.out = (s.applyUnchecked K w m).1 := by
  obtain ⟨a, ha1, ha2⟩ := applyUncheckedMem_ok hK w s hbuf hpos hP (IOBuf.inplace m) (WF_inplace m)
  obtain ⟨b, hb1, hb2⟩ := applyUncheckedMem_ok hK w s hbuf hpos hP (IOBuf.b2b m g) (WF_b2b m g hg.symm)
  exact ⟨a, b, ha1, hb1, by rw [ha2, hb2]; rfl, ha2⟩

open Impl.MemWr in
/-- instances: the cores of /repo — all six CTR flavours (state invariant: the nonce words fill one block), BelT-CTR
    (16-byte blocks), OFB (state of one block). -/
theorem cores_are_length_regular (C : Cipher) (hC : C.Valid) (f : Spec.Flavor) (hbs : C.bs = 16) :
    LenCore (Ctr.core C f) (fun cn => cn.nonce.length * f.cs = C.bs) ∧
    LenCore (Belt.core C) (fun _ => True) ∧
    LenCore (OfbCore.core C) (fun iv => iv.length = C.bs) :=
  ⟨ctr_lenCore C hC f, belt_lenCore C hC hbs, ofb_lenCore C hC⟩

/-! ### the `AsyncStreamCipher` one-shots (`encrypt`, `decrypt`, `*_b2b`, `*_inout` of cfb-mode and cfb8)

  `Impl/MemAsync.lean` mirrors `encrypt_inout` / `decrypt_inout` on the flat in/out buffer: the full blocks through
  the `BlocksCtx` loops (for `cfb_mode::Decryptor` the hand-written parallel body, any width), the tail through a
  local zero block.  Step facts needed: each backend body is length-preserving on a state of one block. -/

open Impl.MemCts in
theorem cfbEnc_stepOk (C : Cipher) (hC : C.Valid) : StepOk (fun iv : Bytes => iv.length = C.bs) (Cfb.encBlock C) C.bs := by
  intro s b hs hb
  have h1 : (xorB b s).length = C.bs := by simp [hs, hb]
  exact ⟨h1, hC.enc_len _ h1⟩

open Impl.MemCts in
theorem cfbDec_stepOk (C : Cipher) (hC : C.Valid) : StepOk (fun iv : Bytes => iv.length = C.bs) (Cfb.decBlock C) C.bs := by
  intro s b hs hb
  exact ⟨by simp [Cfb.decBlock, hs, hb], hC.enc_len _ hb⟩

open Impl.MemCts in
theorem cfb8Enc_stepOk (C : Cipher) (hC : C.Valid) : StepOk (fun iv : Bytes => iv.length = C.bs) (Cfb8.encBlock C) 1 := by
  intro s b hs hb
  have hk := hC.enc_len s hs
  have hpos := hC.bs_pos
  refine ⟨?_, ?_⟩
  · simp only [Cfb8.encBlock, xorB_length, List.length_take, hk, hb]; omega
  · simp only [Cfb8.encBlock, Cfb8.shift, List.length_append, List.length_drop, List.length_cons, List.length_nil]; omega

open Impl.MemCts in
theorem cfb8Dec_stepOk (C : Cipher) (hC : C.Valid) : StepOk (fun iv : Bytes => iv.length = C.bs) (Cfb8.decBlock C) 1 := by
  intro s b hs hb
  have hk := hC.enc_len s hs
  have hpos := hC.bs_pos
  refine ⟨?_, ?_⟩
  · simp only [Cfb8.decBlock, xorB_length, List.length_take, hk, hb]; omega
  · simp only [Cfb8.decBlock, Cfb8.shift, List.length_append, List.length_drop, List.length_cons, List.length_nil]; omega

open Impl.MemAsync Glue in
/-- **one-shot CFB and CFB-8, every message length, every width of the parallel decryptor**: in place on `m`, and
    from `m` into an output buffer holding arbitrary `g`, the call succeeds and writes the same bytes — those of the
    value-level mirror `Glue.asyncInOut` that C01, C03, C08 and C14 are about. -/
theorem async_oneshot_alias_indep (C : Cipher) (hC : C.Valid) (w : Nat) (iv : Bytes) (hiv : iv.length = C.bs)
    (m g : Bytes) (hg : g.length = m.length) :
    (∃ a b, asyncMem 1 C.bs (Cfb.encBlock C) (defaultPar (Cfb.encBlock C)) (Cfb.init C iv) (IOBuf.inplace m) = some a ∧
        asyncMem 1 C.bs (Cfb.encBlock C) (defaultPar (Cfb.encBlock C)) (Cfb.init C iv) (IOBuf.b2b m g) = some b ∧
        a.out = b.out ∧ a.out = asyncInOut C.bs (Cfb.encBlocks C w) (Cfb.encBlock C) (Cfb.init C iv) m) ∧
    (∃ a b, asyncMem w C.bs (Cfb.decBlock C) (Cfb.decPar C) (Cfb.init C iv) (IOBuf.inplace m) = some a ∧
        asyncMem w C.bs (Cfb.decBlock C) (Cfb.decPar C) (Cfb.init C iv) (IOBuf.b2b m g) = some b ∧
        a.out = b.out ∧ a.out = asyncInOut C.bs (Cfb.decBlocks C w) (Cfb.decBlock C) (Cfb.init C iv) m) ∧
    (∃ a b, asyncMem 1 1 (Cfb8.encBlock C) (defaultPar (Cfb8.encBlock C)) (Cfb8.init C iv) (IOBuf.inplace m) = some a ∧
        asyncMem 1 1 (Cfb8.encBlock C) (defaultPar (Cfb8.encBlock C)) (Cfb8.init C iv) (IOBuf.b2b m g) = some b ∧
        a.out = b.out ∧ a.out = asyncInOut 1 (Cfb8.encBlocks C w) (Cfb8.encBlock C) (Cfb8.init C iv) m) ∧
    (∃ a b, asyncMem 1 1 (Cfb8.decBlock C) (defaultPar (Cfb8.decBlock C)) (Cfb8.init C iv) (IOBuf.inplace m) = some a ∧
        asyncMem 1 1 (Cfb8.decBlock C) (defaultPar (Cfb8.decBlock C)) (Cfb8.init C iv) (IOBuf.b2b m g) = some b ∧
        a.out = b.out ∧ a.out = asyncInOut 1 (Cfb8.decBlocks C w) (Cfb8.decBlock C) (Cfb8.init C iv) m) := by
  have hinit : (Cfb.init C iv).length = C.bs := hC.enc_len iv hiv
  have e1 : Cfb.encBlocks C w = foldBlocks (Cfb.encBlock C) := by
    funext s l; rw [Cfb.encBlocks, blocksCtx_one]
  have e2 : Cfb.decBlocks C w = foldBlocks (Cfb.decBlock C) := by
    funext s l; rw [Cfb.decBlocks, blocksCtx_eq_fold w _ _ (fun s ch _ => C03.cfb_decPar_eq_fold C ch s)]
  have e3 : Cfb8.encBlocks C w = foldBlocks (Cfb8.encBlock C) := by
    funext s l; rw [Cfb8.encBlocks, blocksCtx_one]
  have e4 : Cfb8.decBlocks C w = foldBlocks (Cfb8.decBlock C) := by
    funext s l; rw [Cfb8.decBlocks, blocksCtx_one]
  rw [e1, e2, e3, e4]
  exact ⟨async_alias_indep _ 1 C.bs hC.bs_pos _ _ (cfbEnc_stepOk C hC) (fun _ _ _ => rfl) _ hinit m g hg,
    async_alias_indep _ w C.bs hC.bs_pos _ _ (cfbDec_stepOk C hC) (fun s ch _ => C03.cfb_decPar_eq_fold C ch s) _ hinit m g hg,
    async_alias_indep _ 1 1 (by omega) _ _ (cfb8Enc_stepOk C hC) (fun _ _ _ => rfl) _ hiv m g hg,
    async_alias_indep _ 1 1 (by omega) _ _ (cfb8Dec_stepOk C hC) (fun _ _ _ => rfl) _ hiv m g hg⟩

/-! ### the model can tell the two forms apart -/

/-- reading the input after the output was written is not alias-independent (`E = id`, one byte). -/
theorem pcbc_hazard_refuted :
    let C : Cipher := { bs := 1, enc := id, dec := id }
    (Mem.Pcbc.encBlockHazard C [1] (IOB.inplace [2])).2 ≠ (Mem.Pcbc.encBlockHazard C [1] (IOB.b2b [2] [9])).2 := by
  decide

open Impl.MemWr Impl.MemCts Glue in
/-- **the consuming core-level one-shot `try_apply_keystream_partial`** (statement-by-statement mirror
    `Impl.MemWr.partialMem`), for every length-regular core (instances: `cores_are_length_regular`) and every data length: in
    place on `m` and from `m` into an output buffer holding arbitrary `g` the outcome is the same — either both calls are
    rejected by the check (nothing written), or both write `Glue.applyPartialUnchecked K w s m`. -/
theorem partial_alias_indep {σ : Type} {K : Core σ} {P : σ → Prop} (hK : LenCore K P) (w : Nat) (s : σ) (hP : P s)
    (m g : Bytes) (hg : g.length = m.length) :
    partialMem K w s (IOBuf.inplace m) =
      (if partialCheck K s m.length then .ok (applyPartialUnchecked K w s m) else .err m) ∧
    partialMem K w s (IOBuf.b2b m g) =
      (if partialCheck K s m.length then .ok (applyPartialUnchecked K w s m) else .err g) := by
  have h1 := partialMem_eq hK w s hP (IOBuf.inplace m) (WF_inplace m)
  have h2 := partialMem_eq hK w s hP (IOBuf.b2b m g) (WF_b2b m g hg.symm)
  have l2 : (IOBuf.b2b m g).len = m.length := by simp [IOBuf.b2b, IOBuf.len, hg]
  refine ⟨?_, ?_⟩
  · rw [h1]; rfl
  · rw [h2, l2]; rfl

end Thm.C12
