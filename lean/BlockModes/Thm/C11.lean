import BlockModes.Thm.C10
import BlockModes.Glue.Wrapper
import BlockModes.Impl.Ctr
import BlockModes.Impl.Belt
import BlockModes.Lemmas.Codec
import BlockModes.Lemmas.CoreInst
/-
  C11 — a keystream never wraps around silently.
  (this section) `remaining_blocks` is exact; an error leaves data and state untouched; counter blocks
  of distinct in-range indices are distinct; F2 witness.  The `ok ⇔ fits` decision and the ghost-log
  no-reuse invariant are in the wrapper section.
-/
namespace Thm.C11
open Glue Impl Spec

/-- CTR: whenever a number is reported it is exactly `(2^w − 1) − blocks generated`. -/
theorem ctr_remaining_exact (f : Flavor) (cn : Ctr.St) (r : Nat) (h : Ctr.remaining f cn = some r) :
    r = (2 ^ f.w - 1) - cn.ctr := by
  unfold Ctr.remaining at h
  simp only at h
  split at h
  · injection h with h; exact h.symm
  · cases h

/-- CTR: `None` only when the number does not fit a 64-bit `usize`. -/
theorem ctr_remaining_none (f : Flavor) (cn : Ctr.St) (h : Ctr.remaining f cn = none) :
    2 ^ 64 ≤ (2 ^ f.w - 1) - cn.ctr := by
  unfold Ctr.remaining at h
  simp only at h
  split at h
  · cases h
  · omega

/-- BelT: exact, relative to `s_init`. -/
theorem belt_remaining_exact (st : Belt.St) (r : Nat) (h : Belt.remaining st = some r) :
    r = (2 ^ 128 - 1) - (st.s + Belt.M - st.sInit) % Belt.M := by
  unfold Belt.remaining at h
  simp only at h
  split at h
  · injection h with h; exact h.symm
  · cases h

/-- an `Err` from `try_apply_keystream` leaves everything untouched: the model returns no new state and
    no output at all in that case, and that happens exactly when `check_remaining` fails. -/
theorem apply_err_iff_check_fails {σ : Type} (K : Core σ) (w : Nat) (s : Wr σ) (data : Bytes) :
    s.apply K w data = none ↔ s.checkRemaining K data.length = false := by
  unfold Wr.apply
  cases h : s.checkRemaining K data.length <;> simp

/-- distinct block indices below `2^w` give distinct counter blocks (so equal counter blocks imply equal
    positions): the layout is injective in the index. -/
theorem ctrBlock_injective (f : Flavor) (hw : f.w = 8 * f.cs) (iv : Bytes) (i j : Nat)
    (hi : i < 2 ^ f.w) (hj : j < 2 ^ f.w) (h : ctrBlock f iv i = ctrBlock f iv j) : i = j := by
  have hp : 2 ^ f.w = 256 ^ f.cs := by rw [hw, Nat.pow_mul]
  have hpos : 0 < 2 ^ f.w := Nat.pow_pos (by omega)
  have key : (ctrField f iv + i) % 2 ^ f.w = (ctrField f iv + j) % 2 ^ f.w := by
    unfold ctrBlock at h
    cases hbe : f.be with
    | true =>
      simp only [hbe, if_true] at h
      have := List.append_cancel_left h
      exact toBE_injective f.cs _ _ (by rw [← hp]; exact Nat.mod_lt _ hpos) (by rw [← hp]; exact Nat.mod_lt _ hpos) this
    | false =>
      simp only [hbe, Bool.false_eq_true, if_false] at h
      have := List.append_cancel_right h
      exact toLE_injective f.cs _ _ (by rw [← hp]; exact Nat.mod_lt _ hpos) (by rw [← hp]; exact Nat.mod_lt _ hpos) this
  -- (a + i) ≡ (a + j) mod M with i, j < M  ⇒  i = j
  have h1 : (ctrField f iv + i) % 2 ^ f.w = (ctrField f iv % 2 ^ f.w + i) % 2 ^ f.w := by rw [Nat.mod_add_mod]
  have h2 : (ctrField f iv + j) % 2 ^ f.w = (ctrField f iv % 2 ^ f.w + j) % 2 ^ f.w := by rw [Nat.mod_add_mod]
  rw [h1, h2] at key
  have ha : ctrField f iv % 2 ^ f.w < 2 ^ f.w := Nat.mod_lt _ hpos
  generalize ctrField f iv % 2 ^ f.w = a at key ha
  generalize 2 ^ f.w = M at *
  have e1 : (a + i) % M = if a + i < M then a + i else a + i - M := by
    split
    · exact Nat.mod_eq_of_lt (by assumption)
    · rw [Nat.mod_eq_sub_mod (by omega), Nat.mod_eq_of_lt (by omega)]
  have e2 : (a + j) % M = if a + j < M then a + j else a + j - M := by
    split
    · exact Nat.mod_eq_of_lt (by assumption)
    · rw [Nat.mod_eq_sub_mod (by omega), Nat.mod_eq_of_lt (by omega)]
  rw [e1, e2] at key
  split at key <;> split at key <;> omega

/-- **Finding F2** (dependency code, `StreamCipherCoreWrapper::try_seek`): seeking into the
    never-to-be-produced block `2^w − 1` at a non-zero byte offset succeeds, generates that block and wraps
    the block counter to 0.  Witness on a 1-word model core with `w = 8` bits: after the seek the core's
    position is 0 again. -/
def tinyCore : Core Nat where
  bs := 4
  parW := fun w => w
  cw := 8
  remaining := fun c => some (255 - c)
  genBlock := fun c => ([UInt8.ofNat c, 0, 0, 0], (c + 1) % 256)
  genPar := fun _ c => ([], c)
  getPos := fun c => c
  setPos := fun _ v => v

theorem seek_past_end_wraps_counter :
    ((Wr.fromCore tinyCore 0).seek tinyCore (255 * 4 + 1)).1 = true ∧
    tinyCore.getPos ((Wr.fromCore tinyCore 0).seek tinyCore (255 * 4 + 1)).2.core = 0 ∧
    (((Wr.fromCore tinyCore 0).seek tinyCore (255 * 4 + 1)).2.apply tinyCore 1 [0, 0, 0, 0, 0, 0, 0]).isSome = true := by
  decide

/-! ### the decision: a request succeeds exactly when it ends at or before the limit -/

/-- **CTR**: from any state satisfying the wrapper invariant at byte position `q`, a request of `n < 2^64` bytes
    returns `Ok` iff `q + n ≤ (2^w − 1)·bs`; in particular one ending exactly at the limit succeeds and one
    byte more fails. On `Ok` the output is data ⊕ keystream[q, q+n) and the position advances by `n`. -/
theorem ctr_apply_ok_iff_fits (C : Cipher) (hC : C.Valid) (hbs : C.bs < 256) (f : Flavor) (hw : f.w = 8 * f.cs)
    (hcs : 0 < f.cs) (k : Nat) (hk : 0 < k) (iv : Bytes) (hiv : iv.length = k * f.cs) (hblk : C.bs = k * f.cs)
    (w : Nat) (s : Wr Ctr.St) (blk : Nat) (hI : WInv (Ctr.core C f) (ctrKs C f iv) (ctrRep f iv) s blk)
    (data : Bytes) (hn : data.length < 2 ^ 64) :
    ((s.apply (Ctr.core C f) w data).isSome = true ↔ s.q (Ctr.core C f) blk + data.length ≤ (2 ^ f.w - 1) * C.bs) ∧
    (∀ r, s.apply (Ctr.core C f) w data = some r →
      r.1 = xorB data (ksBytes (ksByte C.bs (ctrKs C f iv)) (s.q (Ctr.core C f) blk) data.length)) := by
  have hK := ctr_coreSpec C hC hbs f hw hcs k hk iv hiv hblk
  have hS := ctr_seekSpec C f iv
  have hiff := checkRemaining_iff hK hS s blk data.length hI hn
  constructor
  · unfold Wr.apply
    cases hc : s.checkRemaining (Ctr.core C f) data.length
    · simp only [Bool.false_eq_true, if_false, Option.isSome_none, false_iff]
      intro h; rw [hiff.mpr h] at hc; cases hc
    · simp only [if_true, Option.isSome_some, true_iff]; exact hiff.mp hc
  · intro r hr
    unfold Wr.apply at hr
    cases hc : s.checkRemaining (Ctr.core C f) data.length
    · rw [hc] at hr; simp at hr
    · rw [hc] at hr
      simp only [if_true, Option.some.injEq] at hr
      rw [← hr]
      exact (apply_spec hK w s blk data hI (Or.inr (hiff.mp hc))).1

/-- **BelT-CTR**: the same with the limit `2^128 − 1` blocks. -/
theorem belt_apply_ok_iff_fits (C : Cipher) (hC : C.Valid) (hbs : C.bs = 16) (iv : Bytes) (hiv : iv.length = 16)
    (w : Nat) (s : Wr Belt.St) (blk : Nat) (hI : WInv (Belt.core C) (beltKs C iv) (beltRep C iv) s blk)
    (data : Bytes) (hn : data.length < 2 ^ 64) :
    (s.apply (Belt.core C) w data).isSome = true ↔ s.q (Belt.core C) blk + data.length ≤ (2 ^ 128 - 1) * C.bs := by
  have hs0 := C06.beltS0_lt C hC hbs iv hiv
  have hK := belt_coreSpec C hC hbs iv
  have hS := belt_seekSpec C iv hs0
  have hiff := checkRemaining_iff hK hS s blk data.length hI hn
  unfold Wr.apply
  cases hc : s.checkRemaining (Belt.core C) data.length
  · simp only [Bool.false_eq_true, if_false, Option.isSome_none, false_iff]
    intro h; rw [hiff.mpr h] at hc; cases hc
  · simp only [if_true, Option.isSome_some, true_iff]; exact hiff.mp hc

/-- **no reuse (partial: histories whose seeks stay inside the keystream)**: by `C10.ctr_ops_coherent` every
    successful request at byte position `q` is XORed with keystream bytes `q…` of the documented keystream,
    every request that would pass block `2^w − 2` fails, and counter blocks of distinct in-range indices are
    distinct (`ctrBlock_injective`) — so no counter value serves two positions.  The unrestricted statement
    (seek targets in the never-to-be-produced last block allowed) is FALSE of the dependency's wrapper:
    `seek_past_end_wraps_counter` above is the machine-checked witness (finding F2). -/
theorem no_reuse_partial (f : Flavor) (hw : f.w = 8 * f.cs) (iv : Bytes) (i j : Nat)
    (hi : i < 2 ^ f.w - 1) (hj : j < 2 ^ f.w - 1) (hne : i ≠ j) : ctrBlock f iv i ≠ ctrBlock f iv j :=
  fun h => hne (ctrBlock_injective f hw iv i j (by omega) (by omega) h)


/-! ### injectivity at the level of keystream blocks (CTR and BelT): equal keystream ⇒ equal position -/

/-- modular shift is injective on a full period. -/
theorem add_mod_injective (M a i j : Nat) (hi : i < M) (hj : j < M) (h : (a + i) % M = (a + j) % M) : i = j := by
  have hM : 0 < M := by omega
  have h1 : (a + i) % M = (a % M + i) % M := by rw [Nat.mod_add_mod]
  have h2 : (a + j) % M = (a % M + j) % M := by rw [Nat.mod_add_mod]
  rw [h1, h2] at h
  have ha : a % M < M := Nat.mod_lt _ hM
  generalize a % M = b at h ha
  have e1 : (b + i) % M = if b + i < M then b + i else b + i - M := by
    split
    · exact Nat.mod_eq_of_lt (by assumption)
    · rw [Nat.mod_eq_sub_mod (by omega), Nat.mod_eq_of_lt (by omega)]
  have e2 : (b + j) % M = if b + j < M then b + j else b + j - M := by
    split
    · exact Nat.mod_eq_of_lt (by assumption)
    · rw [Nat.mod_eq_sub_mod (by omega), Nat.mod_eq_of_lt (by omega)]
  rw [e1, e2] at h
  split at h <;> split at h <;> omega

/-- **BelT-CTR**: the blocks fed to the cipher at distinct block positions below `2^128` are distinct
    (`LE128((s₀ + i + 1) mod 2^128)` is injective in `i`), so distinct positions never share a keystream block. -/
theorem beltBlock_injective (s0 i j : Nat) (hi : i < 2 ^ 128) (hj : j < 2 ^ 128)
    (h : toLE 16 ((s0 + i + 1) % 2 ^ 128) = toLE 16 ((s0 + j + 1) % 2 ^ 128)) : i = j := by
  have hp : (2 : Nat) ^ 128 = 256 ^ 16 := by decide
  have hpos : 0 < (2 : Nat) ^ 128 := Nat.pow_pos (by omega)
  have key := toLE_injective 16 _ _ (by rw [← hp]; exact Nat.mod_lt _ hpos) (by rw [← hp]; exact Nat.mod_lt _ hpos) h
  have e1 : s0 + i + 1 = (s0 + 1) + i := by omega
  have e2 : s0 + j + 1 = (s0 + 1) + j := by omega
  rw [e1, e2] at key
  exact add_mod_injective _ _ i j hi hj key

/-- … hence, for a permutation `E`, equal BelT keystream blocks imply equal positions. -/
theorem belt_ks_injective (C : Cipher) (hC : C.Valid) (hbs : C.bs = 16) (iv : Bytes) (i j : Nat)
    (hi : i < 2 ^ 128) (hj : j < 2 ^ 128) (h : beltKs C iv i = beltKs C iv j) : i = j := by
  unfold beltKs at h
  have hl : ∀ v, (toLE 16 v).length = C.bs := by intro v; rw [hbs]; exact toLE_length 16 v
  have := congrArg C.dec h
  rw [hC.dec_enc _ (hl _), hC.dec_enc _ (hl _)] at this
  exact beltBlock_injective _ i j hi hj this

/-- … and the same for CTR: equal keystream blocks at positions below `2^w` imply equal positions. -/
theorem ctr_ks_injective (C : Cipher) (hC : C.Valid) (f : Flavor) (hw : f.w = 8 * f.cs) (iv : Bytes)
    (hiv : iv.length = C.bs) (hcs : f.cs ≤ iv.length) (i j : Nat) (hi : i < 2 ^ f.w) (hj : j < 2 ^ f.w)
    (h : ctrKs C f iv i = ctrKs C f iv j) : i = j := by
  unfold ctrKs at h
  have hl : ∀ k, (ctrBlock f iv k).length = C.bs := by
    intro k; unfold ctrBlock; split <;> simp <;> omega
  have := congrArg C.dec h
  rw [hC.dec_enc _ (hl _), hC.dec_enc _ (hl _)] at this
  exact ctrBlock_injective f hw iv i j hi hj this
/-- **no reuse, histories whose seeks stay inside the keystream** (the full-strength property minus F2), in one statement:
    (1) every observation of any such history is that of the reference machine, i.e. the byte at stream position `p` is XORed
    with keystream byte `p` of the documented keystream and requests beyond the limit fail; and (2) two positions in different
    blocks below the limit never share a keystream block. So no counter value serves two positions. -/
theorem ctr_no_reuse_in_range (C : Cipher) (hC : C.Valid) (hbs : C.bs < 256) (f : Flavor) (hw : f.w = 8 * f.cs)
    (hcs : 0 < f.cs) (k : Nat) (hk : 0 < k) (iv : Bytes) (hiv : iv.length = k * f.cs) (hblk : C.bs = k * f.cs)
    (w : Nat) (ops : List SOp) (hv : ∀ o ∈ ops, o.Valid C.bs (2 ^ f.w - 1)) :
    (Wr.runOps (Ctr.core C f) w (Wr.fromCore (Ctr.core C f) (Ctr.init C f iv)) ops).1
      = (refRun C.bs (2 ^ f.w - 1) (ksByte C.bs (ctrKs C f iv)) 0 ops).1 ∧
    (∀ i j, i < 2 ^ f.w → j < 2 ^ f.w → ctrKs C f iv i = ctrKs C f iv j → i = j) := by
  refine ⟨C10.ctr_ops_coherent C hC hbs f hw hcs k hk iv hiv hblk w ops hv, ?_⟩
  intro i j hi hj h
  have hcs' : f.cs ≤ iv.length := by rw [hiv]; exact Nat.le_mul_of_pos_left _ hk
  exact ctr_ks_injective C hC f hw iv (by rw [hiv, hblk]) hcs' i j hi hj h

/-- **observation O4** (dependency code): the check of the consuming core-level one-shot `try_apply_keystream_partial` is *not*
    "the request fits" — the block count is taken with `%`. On the tiny core with two blocks remaining: a three-block request
    (a multiple of the block size, so the count is 0) proceeds, and a request of 7 bytes = 2 blocks, which fits, is refused.
    The byte-level wrapper, which owns the exhaustion contract of this property, does not use this method; the model mirrors
    the dependency as it is (`Glue.partialCheck`) and the harness confirms the mirror at the keystream limit. -/
theorem partialCheck_is_not_fits :
    partialCheck tinyCore 253 12 = true ∧ partialCheck tinyCore 253 7 = false := by
  decide

end Thm.C11
