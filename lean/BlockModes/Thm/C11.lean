import BlockModes.Glue.Wrapper
import BlockModes.Impl.Ctr
import BlockModes.Impl.Belt
import BlockModes.Lemmas.Codec
/-
  C11 — a keystream never wraps around silently.
  (this section) `remaining_blocks` is exact; an error leaves data and state untouched; counter blocks
  of distinct in-range indices are distinct; F2 witness.  The `ok ⇔ fits` decision and the ghost-log
  no-reuse invariant are in the wrapper section.
-/
namespace Thm.C11
open Glue Impl Spec

/-- CTR: whenever a number is reported it is exactly `(2^w − 1) − blocks generated`. -/
theorem ctr_remaining_exact (f : Flavor) (cn : Ctr.St) (r : Nat) (h : Ctr.remaining f cn = some r) :
    r = (2 ^ f.w - 1) - cn.ctr := by
  unfold Ctr.remaining at h
  simp only at h
  split at h
  · injection h with h; exact h.symm
  · cases h

/-- CTR: `None` only when the number does not fit a 64-bit `usize`. -/
theorem ctr_remaining_none (f : Flavor) (cn : Ctr.St) (h : Ctr.remaining f cn = none) :
    2 ^ 64 ≤ (2 ^ f.w - 1) - cn.ctr := by
  unfold Ctr.remaining at h
  simp only at h
  split at h
  · cases h
  · omega

/-- BelT: exact, relative to `s_init`. -/
theorem belt_remaining_exact (st : Belt.St) (r : Nat) (h : Belt.remaining st = some r) :
    r = (2 ^ 128 - 1) - (st.s + Belt.M - st.sInit) % Belt.M := by
  unfold Belt.remaining at h
  simp only at h
  split at h
  · injection h with h; exact h.symm
  · cases h

/-- an `Err` from `try_apply_keystream` leaves everything untouched: the model returns no new state and
    no output at all in that case, and that happens exactly when `check_remaining` fails. -/
theorem apply_err_iff_check_fails {σ : Type} (K : Core σ) (w : Nat) (s : Wr σ) (data : Bytes) :
    s.apply K w data = none ↔ s.checkRemaining K data.length = false := by
  unfold Wr.apply
  cases h : s.checkRemaining K data.length <;> simp

/-- distinct block indices below `2^w` give distinct counter blocks (so equal counter blocks imply equal
    positions): the layout is injective in the index. -/
theorem ctrBlock_injective (f : Flavor) (hw : f.w = 8 * f.cs) (iv : Bytes) (i j : Nat)
    (hi : i < 2 ^ f.w) (hj : j < 2 ^ f.w) (h : ctrBlock f iv i = ctrBlock f iv j) : i = j := by
  have hp : 2 ^ f.w = 256 ^ f.cs := by rw [hw, Nat.pow_mul]
  have hpos : 0 < 2 ^ f.w := Nat.pow_pos (by omega)
  have key : (ctrField f iv + i) % 2 ^ f.w = (ctrField f iv + j) % 2 ^ f.w := by
    unfold ctrBlock at h
    cases hbe : f.be with
    | true =>
      simp only [hbe, if_true] at h
      have := List.append_cancel_left h
      exact toBE_injective f.cs _ _ (by rw [← hp]; exact Nat.mod_lt _ hpos) (by rw [← hp]; exact Nat.mod_lt _ hpos) this
    | false =>
      simp only [hbe, Bool.false_eq_true, if_false] at h
      have := List.append_cancel_right h
      exact toLE_injective f.cs _ _ (by rw [← hp]; exact Nat.mod_lt _ hpos) (by rw [← hp]; exact Nat.mod_lt _ hpos) this
  -- (a + i) ≡ (a + j) mod M with i, j < M  ⇒  i = j
  have h1 : (ctrField f iv + i) % 2 ^ f.w = (ctrField f iv % 2 ^ f.w + i) % 2 ^ f.w := by rw [Nat.mod_add_mod]
  have h2 : (ctrField f iv + j) % 2 ^ f.w = (ctrField f iv % 2 ^ f.w + j) % 2 ^ f.w := by rw [Nat.mod_add_mod]
  rw [h1, h2] at key
  have ha : ctrField f iv % 2 ^ f.w < 2 ^ f.w := Nat.mod_lt _ hpos
  generalize ctrField f iv % 2 ^ f.w = a at key ha
  generalize 2 ^ f.w = M at *
  have e1 : (a + i) % M = if a + i < M then a + i else a + i - M := by
    split
    · exact Nat.mod_eq_of_lt (by assumption)
    · rw [Nat.mod_eq_sub_mod (by omega), Nat.mod_eq_of_lt (by omega)]
  have e2 : (a + j) % M = if a + j < M then a + j else a + j - M := by
    split
    · exact Nat.mod_eq_of_lt (by assumption)
    · rw [Nat.mod_eq_sub_mod (by omega), Nat.mod_eq_of_lt (by omega)]
  rw [e1, e2] at key
  split at key <;> split at key <;> omega

/-- **Finding F2** (dependency code, `StreamCipherCoreWrapper::try_seek`): seeking into the
    never-to-be-produced block `2^w − 1` at a non-zero byte offset succeeds, generates that block and wraps
    the block counter to 0.  Witness on a 1-word model core with `w = 8` bits: after the seek the core's
    position is 0 again. -/
def tinyCore : Core Nat where
  bs := 4
  parW := fun w => w
  cw := 8
  remaining := fun c => some (255 - c)
  genBlock := fun c => ([UInt8.ofNat c, 0, 0, 0], (c + 1) % 256)
  genPar := fun _ c => ([], c)
  getPos := fun c => c
  setPos := fun _ v => v

theorem seek_past_end_wraps_counter :
    ((Wr.fromCore tinyCore 0).seek tinyCore (255 * 4 + 1)).1 = true ∧
    tinyCore.getPos ((Wr.fromCore tinyCore 0).seek tinyCore (255 * 4 + 1)).2.core = 0 ∧
    (((Wr.fromCore tinyCore 0).seek tinyCore (255 * 4 + 1)).2.apply tinyCore 1 [0, 0, 0, 0, 0, 0, 0]).isSome = true := by
  decide

end Thm.C11
