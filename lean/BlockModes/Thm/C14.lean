import BlockModes.Thm.C03
import BlockModes.Thm.C05
import BlockModes.Lemmas.Core
import BlockModes.Impl.CfbBuf
/-
  C14 — alternative front-ends to the same mode are interchangeable.
  (this section) OFB: block encryptor = block decryptor = keystream core; one-shot CFB on whole blocks =
  block-level CFB; the private CBC/ECB helpers of `cts` = the `cbc` crate's mirror / raw block encryption;
  construction from key bytes = construction from a keyed cipher.  Buffered CFB = one-shot CFB and
  CTR core = byte-level cipher are in the byte-stream sections (C08/C10).
-/
namespace Thm.C14
open Impl Glue Spec

/-- OFB as `BlockModeEncrypt`, `BlockModeDecrypt` and `StreamCipherCore` is one function: the block output
    is the input XORed with the keystream block the core would generate, and the states agree. -/
theorem ofb_frontends_agree (C : Cipher) (iv blk : Bytes) :
    Ofb.encBlock C iv blk = Ofb.decBlock C iv blk ∧
    Ofb.encBlock C iv blk = (xorB blk (OfbCore.genKsBlock C iv).1, (OfbCore.genKsBlock C iv).2) ∧
    Ofb.genKsBlock C iv = OfbCore.genKsBlock C iv := ⟨rfl, rfl, rfl⟩

/-- many blocks: block-mode OFB = `apply_keystream_blocks` of the core, for every width. -/
theorem ofb_blocks_eq_core (C : Cipher) (w w' : Nat) (iv : Bytes) (blocks : List Bytes) :
    Ofb.encBlocks C w iv blocks = applyBlocks (OfbCore.core C) w' iv blocks := by
  rw [Ofb.encBlocks, blocksCtx_one]
  simp only [applyBlocks, genBlocks_eq_seq (OfbCore.core C) w' (fun pw s _ => OfbCore.genPar_eq_seq C pw s)]
  induction blocks generalizing iv with
  | nil => rfl
  | cons b bs ih =>
    simp only [foldBlocks, Ofb.encBlock, List.length_cons, genSeq, OfbCore.core, OfbCore.genKsBlock,
      List.zipWith_cons_cons]
    have := ih (C.enc iv)
    simp only [OfbCore.core] at this
    rw [this]

/-- one-shot CFB on a whole number of blocks is block-level CFB. -/
theorem cfb_oneshot_eq_blocks (C : Cipher) (hC : C.Valid) (w w' : Nat) (iv : Bytes) (blocks : List Bytes)
    (hb : AllLen C.bs blocks) :
    asyncInOut C.bs (Cfb.encBlocks C w) (Cfb.encBlock C) (Cfb.init C iv) blocks.flatten
      = (Cfb.encBlocks C w' (Cfb.init C iv) blocks).1.flatten := by
  rw [C03.cfb_oneshot_enc, Cfb.init, C03.cfb_encBlocks_eq]
  unfold cfbEncBytes
  have h := chunks_of_blocks C.bs hC.bs_pos blocks [] hb (by simpa using hC.bs_pos)
  rw [List.append_nil] at h
  simp [h.1, h.2]

/-- the CBC helpers private to `cts` compute what the `cbc` crate computes. -/
theorem cts_cbc_eq_cbc_crate (C : Cipher) (w w' : Nat) (iv : Bytes) (blocks : List Bytes) :
    Cts.cbcEnc C iv blocks = Cbc.encBlocks C w (Cbc.init C iv) blocks ∧
    Cts.cbcDec C w iv blocks = Cbc.decBlocks C w' (Cbc.init C iv) blocks := by
  rw [C05.cts_cbcEnc_eq, C05.cts_cbcDec_eq, C02.cbc_encBlocks_eq, C02.cbc_decBlocks_eq]
  exact ⟨rfl, rfl⟩

/-- the ECB helpers are raw block encryption / decryption. -/
theorem cts_ecb_eq_map (C : Cipher) (w : Nat) (blocks : List Bytes) :
    Cts.ecbEnc C w blocks = blocks.map C.enc ∧ Cts.ecbDec C w blocks = blocks.map C.dec :=
  ⟨C05.cts_ecbEnc_eq C w blocks, C05.cts_ecbDec_eq C w blocks⟩

/-- `KeyIvInit::new(key, iv)` is by definition `inner_iv_init(KeyInit::new(key), iv)` (crypto-common's blanket
    impl); in the model the keyed cipher is the value `C` and both constructions are `init C iv`. -/
theorem key_init_eq_inner_init (C : Cipher) (iv : Bytes) :
    Cbc.init C iv = Cbc.init C iv ∧ Cfb.init C iv = C.enc iv ∧ CfbBuf.init C iv = ⟨Cfb.init C iv, 0⟩ := ⟨rfl, rfl, rfl⟩

end Thm.C14
