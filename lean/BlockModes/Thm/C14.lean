import BlockModes.Thm.C03
import BlockModes.Thm.C05
import BlockModes.Lemmas.Core
import BlockModes.Impl.CfbBuf
import BlockModes.Thm.C08
/-
  C14 — alternative front-ends to the same mode are interchangeable.
  (this section) OFB: block encryptor = block decryptor = keystream core; one-shot CFB on whole blocks =
  block-level CFB; the private CBC/ECB helpers of `cts` = the `cbc` crate's mirror / raw block encryption;
  construction from key bytes = construction from a keyed cipher.  Buffered CFB = one-shot CFB and
  CTR core = byte-level cipher are in the byte-stream sections (C08/C10).
-/
namespace Thm.C14
open Impl Glue Spec

/-- OFB as `BlockModeEncrypt`, `BlockModeDecrypt` and `StreamCipherCore` is one function: the block output
    is the input XORed with the keystream block the core would generate, and the states agree. -/
theorem ofb_frontends_agree (C : Cipher) (iv blk : Bytes) :
    Ofb.encBlock C iv blk = Ofb.decBlock C iv blk ∧
    Ofb.encBlock C iv blk = (xorB blk (OfbCore.genKsBlock C iv).1, (OfbCore.genKsBlock C iv).2) ∧
    Ofb.genKsBlock C iv = OfbCore.genKsBlock C iv := ⟨rfl, rfl, rfl⟩

/-- many blocks: block-mode OFB = `apply_keystream_blocks` of the core, for every width. -/
theorem ofb_blocks_eq_core (C : Cipher) (w w' : Nat) (iv : Bytes) (blocks : List Bytes) :
    Ofb.encBlocks C w iv blocks = applyBlocks (OfbCore.core C) w' iv blocks := by
  rw [Ofb.encBlocks, blocksCtx_one]
  simp only [applyBlocks, genBlocks_eq_seq (OfbCore.core C) w' (fun pw s _ => OfbCore.genPar_eq_seq C pw s)]
  induction blocks generalizing iv with
  | nil => rfl
  | cons b bs ih =>
    simp only [foldBlocks, Ofb.encBlock, List.length_cons, genSeq, OfbCore.core, OfbCore.genKsBlock,
      List.zipWith_cons_cons]
    have := ih (C.enc iv)
    simp only [OfbCore.core] at this
    rw [this]

/-- one-shot CFB on a whole number of blocks is block-level CFB. -/
theorem cfb_oneshot_eq_blocks (C : Cipher) (hC : C.Valid) (w w' : Nat) (iv : Bytes) (blocks : List Bytes)
    (hb : AllLen C.bs blocks) :
    asyncInOut C.bs (Cfb.encBlocks C w) (Cfb.encBlock C) (Cfb.init C iv) blocks.flatten
      = (Cfb.encBlocks C w' (Cfb.init C iv) blocks).1.flatten := by
  rw [C03.cfb_oneshot_enc, Cfb.init, C03.cfb_encBlocks_eq]
  unfold cfbEncBytes
  have h := chunks_of_blocks C.bs hC.bs_pos blocks [] hb (by simpa using hC.bs_pos)
  rw [List.append_nil] at h
  simp [h.1, h.2]

/-- the CBC helpers private to `cts` compute what the `cbc` crate computes. -/
theorem cts_cbc_eq_cbc_crate (C : Cipher) (w w' : Nat) (iv : Bytes) (blocks : List Bytes) :
    Cts.cbcEnc C iv blocks = Cbc.encBlocks C w (Cbc.init C iv) blocks ∧
    Cts.cbcDec C w iv blocks = Cbc.decBlocks C w' (Cbc.init C iv) blocks := by
  rw [C05.cts_cbcEnc_eq, C05.cts_cbcDec_eq, C02.cbc_encBlocks_eq, C02.cbc_decBlocks_eq]
  exact ⟨rfl, rfl⟩

/-- the ECB helpers are raw block encryption / decryption. -/
theorem cts_ecb_eq_map (C : Cipher) (w : Nat) (blocks : List Bytes) :
    Cts.ecbEnc C w blocks = blocks.map C.enc ∧ Cts.ecbDec C w blocks = blocks.map C.dec :=
  ⟨C05.cts_ecbEnc_eq C w blocks, C05.cts_ecbDec_eq C w blocks⟩

/-- `KeyIvInit::new(key, iv)` is by definition `inner_iv_init(KeyInit::new(key), iv)` (crypto-common's blanket
    impl); in the model the keyed cipher is the value `C` and both constructions are `init C iv`. -/
theorem key_init_eq_inner_init (C : Cipher) (iv : Bytes) :
    Cbc.init C iv = Cbc.init C iv ∧ Cfb.init C iv = C.enc iv ∧ CfbBuf.init C iv = ⟨Cfb.init C iv, 0⟩ := ⟨rfl, rfl, rfl⟩

/-! ### buffered CFB = block-level CFB = one-shot CFB -/

/-- on a whole number of blocks the buffered encryptor (one call, hence by `C08.cfbbuf_pieces_eq_whole` any
    chunking) produces exactly what the block-level encryptor produces, for any backend width. -/
theorem cfbbuf_eq_blocks_enc (C : Cipher) (hC : C.Valid) (w : Nat) (iv : Bytes) (hiv : iv.length = C.bs)
    (blocks : List Bytes) (hb : AllLen C.bs blocks) :
    (C08.bufCall false C (CfbBuf.init C iv) blocks.flatten).1 = (Cfb.encBlocks C w (Cfb.init C iv) blocks).1.flatten := by
  have h := C08.cfbbuf_any_chunking false C hC iv hiv [blocks.flatten]
  simp only [C08.bufRun, List.flatten_cons, List.flatten_nil, List.append_nil] at h
  rw [h, RS.init, RS.run_blocks_enc C hC blocks iv hiv hb, Cfb.init, C03.cfb_encBlocks_eq]

theorem cfbbuf_eq_blocks_dec (C : Cipher) (hC : C.Valid) (w : Nat) (iv : Bytes) (hiv : iv.length = C.bs)
    (blocks : List Bytes) (hb : AllLen C.bs blocks) :
    (C08.bufCall true C (CfbBuf.init C iv) blocks.flatten).1 = (Cfb.decBlocks C w (Cfb.init C iv) blocks).1.flatten := by
  have h := C08.cfbbuf_any_chunking true C hC iv hiv [blocks.flatten]
  simp only [C08.bufRun, List.flatten_cons, List.flatten_nil, List.append_nil] at h
  rw [h, RS.init, RS.run_blocks_dec C hC blocks iv hiv hb, Cfb.init, C03.cfb_decBlocks_eq]

/-- **buffered CFB (any chunking) = one-shot CFB, every byte length, any backend width.** -/
theorem cfbbuf_eq_oneshot (C : Cipher) (hC : C.Valid) (w : Nat) (iv : Bytes) (hiv : iv.length = C.bs)
    (pieces : List Bytes) :
    (C08.bufRun false C (CfbBuf.init C iv) pieces).1.flatten
      = asyncInOut C.bs (Cfb.encBlocks C w) (Cfb.encBlock C) (Cfb.init C iv) pieces.flatten := by
  rw [C08.cfbbuf_any_chunking false C hC iv hiv pieces, C03.cfb_oneshot_enc, C08.cfb_oneshot_eq_reference C hC iv _ hiv]

/-! ### a keystream core driven block-wise = the byte-level cipher on whole blocks -/

theorem core_eq_wrapper {σ : Type} {K : Core σ} {M : Nat} {ks : Nat → Bytes} {Rep : σ → Nat → Prop}
    (hK : CoreSpec K M ks Rep) (w w' : Nat) (c : σ) (hR : Rep c 0) (blocks : List Bytes)
    (hb : ∀ b ∈ blocks, b.length = K.bs) (hfit : M = 0 ∨ blocks.length < M - 1 ∨ (blocks.length = 0 ∧ 0 < M)) :
    ((Wr.fromCore K c).applyUnchecked K w blocks.flatten).1 = (applyBlocks K w' c blocks).1.flatten := by
  obtain ⟨hI, hq⟩ := fromCore_inv hK c 0 hR
  have hlen := flatten_length_of_allLen K.bs blocks hb
  have hfit1 : M = 0 ∨ (Wr.fromCore K c).q K 0 + blocks.flatten.length ≤ (M - 1) * K.bs := by
    rcases hfit with h | h | h
    · exact Or.inl h
    · right; rw [hq, hlen, Nat.zero_mul, Nat.zero_add]; exact Nat.mul_le_mul_right _ (by omega)
    · right; rw [hq, hlen, h.1]; simp
  have hfit2 : M = 0 ∨ 0 + blocks.length < M := by
    rcases hfit with h | h | h
    · exact Or.inl h
    · right; omega
    · right; omega
  rw [(apply_spec hK w _ 0 blocks.flatten hI hfit1).1, (applyBlocks_spec hK w' c 0 hR blocks hb hfit2).1, hq, hlen]

/-- CTR: `CtrCore::apply_keystream_blocks` = `Ctr*::apply_keystream` on the same whole blocks. -/
theorem ctr_core_eq_wrapper (C : Cipher) (hC : C.Valid) (hbs : C.bs < 256) (f : Flavor) (hw : f.w = 8 * f.cs)
    (hcs : 0 < f.cs) (k : Nat) (hk : 0 < k) (iv : Bytes) (hiv : iv.length = k * f.cs) (hblk : C.bs = k * f.cs)
    (w w' : Nat) (blocks : List Bytes) (hb : ∀ b ∈ blocks, b.length = C.bs) (hn : blocks.length < 2 ^ f.w - 1) :
    ((Wr.fromCore (Ctr.core C f) (Ctr.init C f iv)).applyUnchecked (Ctr.core C f) w blocks.flatten).1
      = (applyBlocks (Ctr.core C f) w' (Ctr.init C f iv) blocks).1.flatten :=
  core_eq_wrapper (ctr_coreSpec C hC hbs f hw hcs k hk iv hiv hblk) w w' _ (ctr_init_rep C f iv) blocks hb
    (Or.inr (Or.inl hn))

/-! ### ciphertext stealing on a whole number of blocks = the plain mode -/

/-- **CBC-CS1 and CBC-CS2 on `k ≥ 1` whole blocks are the `cbc` crate's encryption** (any two backend widths);
    **CBC-CS3 is the same with the last two blocks exchanged** (one block: unchanged). -/
theorem cts_cbc_aligned_eq_cbc (C : Cipher) (hC : C.Valid) (w w' : Nat) (iv : Bytes) (blocks : List Bytes)
    (hb : AllLen C.bs blocks) :
    Cts.cbcCs1Enc C w iv blocks.flatten = (Cbc.encBlocks C w' (Cbc.init C iv) blocks).1.flatten ∧
    Cts.cbcCs2Enc C w iv blocks.flatten = (Cbc.encBlocks C w' (Cbc.init C iv) blocks).1.flatten ∧
    Cts.cbcCs3Enc false C w iv blocks.flatten =
      (if blocks.length > 1 then (Cts.swapLast2 (Cbc.encBlocks C w' (Cbc.init C iv) blocks).1).flatten
       else (Cbc.encBlocks C w' (Cbc.init C iv) blocks).1.flatten) := by
  have h := chunks_of_blocks C.bs hC.bs_pos blocks [] hb (by simpa using hC.bs_pos)
  rw [List.append_nil] at h
  have he : Cts.cbcEnc C iv blocks = Cbc.encBlocks C w' (Cbc.init C iv) blocks := (cts_cbc_eq_cbc_crate C w' w' iv blocks).1
  refine ⟨?_, ?_, ?_⟩
  · simp [Cts.cbcCs1Enc, h.1, h.2, he]
  · simp [Cts.cbcCs2Enc, h.1, h.2, he]
  · simp [Cts.cbcCs3Enc, h.1, h.2, he]

/-- the same for decryption, CS1 and CS2. -/
theorem cts_cbc_aligned_dec_eq_cbc (C : Cipher) (hC : C.Valid) (w w' : Nat) (iv : Bytes) (blocks : List Bytes)
    (hb : AllLen C.bs blocks) :
    Cts.cbcCs1Dec C w iv blocks.flatten = (Cbc.decBlocks C w' (Cbc.init C iv) blocks).1.flatten ∧
    Cts.cbcCs2Dec C w iv blocks.flatten = (Cbc.decBlocks C w' (Cbc.init C iv) blocks).1.flatten := by
  have h := chunks_of_blocks C.bs hC.bs_pos blocks [] hb (by simpa using hC.bs_pos)
  rw [List.append_nil] at h
  have hd : Cts.cbcDec C w iv blocks = Cbc.decBlocks C w' (Cbc.init C iv) blocks := (cts_cbc_eq_cbc_crate C w w' iv blocks).2
  exact ⟨by simp [Cts.cbcCs1Dec, h.1, h.2, hd], by simp [Cts.cbcCs2Dec, h.1, h.2, hd]⟩

/-- **ECB-CS1 and ECB-CS2 on whole blocks are raw block encryption; ECB-CS3 exchanges the last two blocks.** -/
theorem cts_ecb_aligned_eq_raw (C : Cipher) (hC : C.Valid) (w : Nat) (blocks : List Bytes) (hb : AllLen C.bs blocks) :
    Cts.ecbCs1Enc C w blocks.flatten = (blocks.map C.enc).flatten ∧
    Cts.ecbCs2Enc C w blocks.flatten = (blocks.map C.enc).flatten ∧
    Cts.ecbCs3Enc false C w blocks.flatten =
      (if blocks.length > 1 then (Cts.swapLast2 (blocks.map C.enc)).flatten else (blocks.map C.enc).flatten) ∧
    Cts.ecbCs1Dec C w blocks.flatten = (blocks.map C.dec).flatten ∧
    Cts.ecbCs2Dec C w blocks.flatten = (blocks.map C.dec).flatten := by
  have h := chunks_of_blocks C.bs hC.bs_pos blocks [] hb (by simpa using hC.bs_pos)
  rw [List.append_nil] at h
  have he := C05.cts_ecbEnc_eq C w blocks
  have hd := C05.cts_ecbDec_eq C w blocks
  refine ⟨?_, ?_, ?_, ?_, ?_⟩
  · simp [Cts.ecbCs1Enc, h.1, h.2, he]
  · simp [Cts.ecbCs2Enc, h.1, h.2, he]
  · simp [Cts.ecbCs3Enc, h.1, h.2, he]
  · simp [Cts.ecbCs1Dec, h.1, h.2, hd]
  · simp [Cts.ecbCs2Dec, h.1, h.2, hd]

/-- non-vacuity: two 2-byte blocks are a whole number of blocks of the toy cipher with `bs = 2`. -/
example : AllLen (Toy.cipher [1,2,3,4,5,6,7,8,9,10,11,12,13,14,15,16] 2).bs [[1, 2], [3, 4]] := by
  intro b hb; simp at hb; rcases hb with rfl | rfl <;> rfl

/-! ### the consuming one-shot `StreamCipherCore::try_apply_keystream_partial` is one more front-end to the same keystream -/

/-- **CTR core**, any flavour, any width, any byte length: when the call proceeds and the keystream has the blocks it needs,
    the output is the data XORed with the documented keystream from the core's block position `j` — the same bytes the
    byte-level cipher produces from offset `j·bs`. -/
theorem ctr_partial_eq_keystream (C : Cipher) (hC : C.Valid) (hbs : C.bs < 256) (f : Flavor) (hw : f.w = 8 * f.cs)
    (hcs : 0 < f.cs) (k : Nat) (hk : 0 < k) (iv : Bytes) (hiv : iv.length = k * f.cs) (hblk : C.bs = k * f.cs)
    (w : Nat) (s : Ctr.St) (j : Nat) (hR : ctrRep f iv s j) (data : Bytes)
    (hfit : j + (data.length + C.bs - 1) / C.bs < 2 ^ f.w) :
    applyPartialUnchecked (Ctr.core C f) w s data
      = xorB data (ksBytes (ksByte C.bs (ctrKs C f iv)) (j * C.bs) data.length) :=
  applyPartial_spec (ctr_coreSpec C hC hbs f hw hcs k hk iv hiv hblk) w s j hR data (Or.inr hfit)

/-- **BelT-CTR core**: the same. -/
theorem belt_partial_eq_keystream (C : Cipher) (hC : C.Valid) (hbs : C.bs = 16) (iv : Bytes)
    (w : Nat) (s : Belt.St) (j : Nat) (hR : beltRep C iv s j) (data : Bytes)
    (hfit : j + (data.length + C.bs - 1) / C.bs < 2 ^ 128) :
    applyPartialUnchecked (Belt.core C) w s data
      = xorB data (ksBytes (ksByte C.bs (beltKs C iv)) (j * C.bs) data.length) :=
  applyPartial_spec (belt_coreSpec C hC hbs iv) w s j hR data (Or.inr hfit)

/-- **OFB core** (no keystream limit): the same, unconditionally. -/
theorem ofb_partial_eq_keystream (C : Cipher) (hC : C.Valid) (hbs : C.bs < 256) (iv : Bytes) (hiv : iv.length = C.bs)
    (w : Nat) (s : Bytes) (j : Nat) (hR : ofbRep C iv s j) (data : Bytes) :
    applyPartialUnchecked (OfbCore.core C) w s data
      = xorB data (ksBytes (ksByte C.bs (ofbKs C iv)) (j * C.bs) data.length) :=
  applyPartial_spec (ofb_coreSpec C hC hbs iv hiv) w s j hR data (Or.inl rfl)


/-- non-vacuity: the hypotheses of `ctr_partial_eq_keystream` are met by a fresh `Ctr32BE` core over the toy cipher with 4-byte
    blocks and a 7-byte request (and the theorem then applies). -/
example :
    let C := Toy.cipher [1,2,3,4,5,6,7,8,9,10,11,12,13,14,15,16] 4
    let f : Flavor := ⟨32, true⟩
    applyPartialUnchecked (Ctr.core C f) 3 (Ctr.init C f [9, 9, 9, 9]) [1, 2, 3, 4, 5, 6, 7]
      = xorB [1, 2, 3, 4, 5, 6, 7] (ksBytes (ksByte C.bs (ctrKs C f [9, 9, 9, 9])) (0 * C.bs) 7) := by
  intro C f
  exact ctr_partial_eq_keystream C (Toy.valid _ 4 (by decide)) (by decide) f (by decide) (by decide) 1 (by decide) [9, 9, 9, 9] (by decide)
    (by decide) 3 _ 0 (ctr_init_rep C f _) _ (by decide)

end Thm.C14
