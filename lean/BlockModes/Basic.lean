/-
  Basic.lean — byte strings, XOR, block cipher interface, chunking.
  Model files import nothing outside core Lean so that the driver links natively.
-/

abbrev Bytes := List UInt8

/-- Rust: `for (a, b) in out.iter_mut().zip(buf) { *a ^= *b }` — stops at the shorter operand. -/
def xorB (a b : Bytes) : Bytes := List.zipWith (· ^^^ ·) a b

def zeros (n : Nat) : Bytes := List.replicate n 0

/-- A keyed block cipher: the key is absorbed, `enc`/`dec` are the two directions on one block. -/
structure Cipher where
  bs  : Nat
  enc : Bytes → Bytes
  dec : Bytes → Bytes

structure Cipher.Valid (C : Cipher) : Prop where
  bs_pos  : 0 < C.bs
  enc_len : ∀ x, x.length = C.bs → (C.enc x).length = C.bs
  dec_len : ∀ x, x.length = C.bs → (C.dec x).length = C.bs
  dec_enc : ∀ x, x.length = C.bs → C.dec (C.enc x) = x
  enc_dec : ∀ x, x.length = C.bs → C.enc (C.dec x) = x

/-- `into_chunks`: full blocks of size `n` (as many as fit) and the remaining tail (`< n` bytes).
    Structural on a fuel argument so that it reduces in the kernel and by `simp`. -/
def chunksAux {α : Type} (n : Nat) : Nat → List α → List (List α) × List α
  | 0, l => ([], l)
  | fuel + 1, l =>
    if n = 0 ∨ l.length < n then ([], l)
    else
      let r := chunksAux n fuel (l.drop n)
      (l.take n :: r.1, r.2)

def intoChunks {α : Type} (n : Nat) (l : List α) : List (List α) × List α := chunksAux n l.length l

/-- Rust `chunks_exact` / `into_chunks().0`. -/
def chunks {α : Type} (n : Nat) (l : List α) : List (List α) := (intoChunks n l).1
def chunksTail {α : Type} (n : Nat) (l : List α) : List α := (intoChunks n l).2

/-- sub-range `l[off .. off+len]` (total: clipped like `List.take/drop`). -/
def rng (l : Bytes) (off len : Nat) : Bytes := (l.drop off).take len
/-- overwrite `l[off .. off+|v|]` with `v` (the caller guarantees it fits). -/
def setRng (l : Bytes) (off : Nat) (v : Bytes) : Bytes := l.take off ++ (v ++ l.drop (off + v.length))

/-- little-endian / big-endian integer codecs on byte lists. -/
def fromLE : Bytes → Nat
  | [] => 0
  | b :: bs => b.toNat + 256 * fromLE bs
def toLE : Nat → Nat → Bytes
  | 0, _ => []
  | k + 1, n => UInt8.ofNat (n % 256) :: toLE k (n / 256)
def fromBE (l : Bytes) : Nat := fromLE l.reverse
def toBE (k n : Nat) : Bytes := (toLE k n).reverse
