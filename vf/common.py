"""Shared plumbing: protocol helpers, the toy cipher (for crafting inputs only), running the Rust
harness and the Lean driver on an operation file, parsing the observation streams."""
import os, subprocess, sys, time, json, hashlib, fcntl, random

ROOT = os.path.dirname(os.path.dirname(os.path.abspath(__file__)))
# the harness crate (path dependencies on /repo/*).  Mutation tooling only (tools/run_seeded_wt.py) points this at a scratch
# copy of the crate whose path dependencies name a scratch worktree carrying a seeded change; the registered checks never set it.
HARNESS_DIR = os.environ.get("VERIF_HARNESS_DIR") or os.path.join(ROOT, "harness")
LEAN_DIR = os.path.join(ROOT, "lean")
DRIVER = os.path.join(LEAN_DIR, ".lake", "build", "bin", "driver")
WORK = os.environ.get("VERIF_WORK_DIR") or os.path.join(ROOT, "work")
REPLAYS = os.environ.get("VERIF_REPLAYS_DIR") or os.path.join(ROOT, "replays")
# mutation runs (tools/run_seeded.py) write their evidence elsewhere so that /verif/evidence always describes /repo itself
EVIDENCE = os.environ.get("VERIF_EVIDENCE_DIR") or os.path.join(ROOT, "evidence")

MATRIX = [(1, 1), (1, 4), (2, 3), (2, 5), (3, 2), (4, 1), (4, 4), (4, 8), (4, 12), (4, 260), (5, 5), (7, 2), (8, 1), (8, 3), (8, 20), (12, 4), (16, 1), (16, 2),
          (16, 3), (16, 8), (16, 16), (16, 256), (24, 2), (32, 4), (48, 3), (64, 2), (255, 2)]
# real ciphers (thorough tier): the pseudo-width names the cipher; the harness drives it through its real backend
# and logs every block, the log is the model's cipher for that case (harness/src/logged.rs, Driver/Proto.lean)
MATRIX_REAL = [(16, 101), (16, 102), (16, 103), (16, 104), (8, 105)]
REAL_NAMES = {101: "aes128", 102: "aes256", 103: "belt-block", 104: "kuznyechik", 105: "magma"}
REAL_P = 0.0          # probability with which gens.pick_matrix picks a real cipher (set by ./check in the thorough tier)
BLOCK_MODES = ["cbc-enc", "cbc-dec", "pcbc-enc", "pcbc-dec", "ige-enc", "ige-dec", "cfb-enc", "cfb-dec",
               "cfb8-enc", "cfb8-dec", "ofb-enc", "ofb-dec"]
CTR_FLAVORS = {"ctr32be": (32, True), "ctr32le": (32, False), "ctr64be": (64, True), "ctr64le": (64, False),
               "ctr128be": (128, True), "ctr128le": (128, False)}
STREAM_MODES = list(CTR_FLAVORS) + ["ofb", "belt"]
CTS_MODES = ["cbccs1", "cbccs2", "cbccs3", "ecbcs1", "ecbcs2", "ecbcs3"]
SN_MAX = {"i32": 2**31 - 1, "u32": 2**32 - 1, "u64": 2**64 - 1, "u128": 2**128 - 1, "usize": 2**64 - 1}


def matrix_for(mode, matrix=None):
    matrix = MATRIX if matrix is None else matrix
    if mode in CTR_FLAVORS:
        cs = CTR_FLAVORS[mode][0] // 8
        return [(b, w) for (b, w) in matrix if b % cs == 0]
    if mode == "belt":
        return [(b, w) for (b, w) in matrix if b == 16]
    return matrix


def hx(b):
    return b.hex() if len(b) else "-"


def unhx(s):
    return b"" if s == "-" else bytes.fromhex(s)


def xor(a, b):
    return bytes(x ^ y for x, y in zip(a, b))


# ---- toy cipher (only used to craft inputs such as BelT IVs with E(IV) near 2^128) -------------
def toy_enc(key, x):
    x = bytearray(x)
    n = len(x)
    for r in range(3):
        for i in range(n):
            x[i] = ((x[i] + key[(i + r) % 16] + r) * 5 + 17) & 255
        acc = 0
        for i in range(n):
            x[i] = (x[i] + acc) & 255
            acc = x[i]
        acc = 0
        for i in reversed(range(n)):
            x[i] = (x[i] + acc) & 255
            acc = x[i]
    return bytes(x)


def toy_dec(key, x):
    x = bytearray(x)
    n = len(x)
    for r in reversed(range(3)):
        prev = 0
        for i in reversed(range(n)):
            y = x[i]
            x[i] = (y - prev) & 255
            prev = y
        prev = 0
        for i in range(n):
            y = x[i]
            x[i] = (y - prev) & 255
            prev = y
        for i in range(n):
            x[i] = ((x[i] - 17) * 205 - r - key[(i + r) % 16]) & 255
    return bytes(x)


class Case:
    """one protocol case: header + op lines; `meta` carries what the property's evaluator needs."""
    __slots__ = ("family", "mode", "bs", "w", "key", "iv", "ops", "meta", "cid")

    def __init__(self, family, mode, bs, w, key, iv, ops=None, **meta):
        self.family, self.mode, self.bs, self.w, self.key, self.iv = family, mode, bs, w, key, iv
        self.ops = ops if ops is not None else []
        self.meta = meta
        self.cid = None

    def header(self, cid, with_tab=False):
        h = f"case {cid} {self.family} {self.mode} bs={self.bs} w={self.w} key={hx(self.key)} iv={hx(self.iv)}"
        if with_tab and 101 <= self.w <= 109:
            h += " tab=" + self.meta.get("tab", "-")
        return h

    def real(self):
        return 101 <= self.w <= 109

    def text(self, cid=None, with_tab=False, ask_table=False):
        return "\n".join([self.header(self.cid if cid is None else cid, with_tab)] + self.ops +
                         (["table"] if ask_table and self.real() else []) + ["end"]) + "\n"

    def shape(self):
        """hash key for 'distinct' counting: type, sizes, op shapes and lengths (not the random bytes)."""
        sh = []
        for o in self.ops:
            t = o.split()
            sh.append(t[0] + ":" + ",".join(str(len(a) // 2) if len(a) > 1 and all(c in "0123456789abcdef" for c in a) and not a.isdigit() else a for a in t[1:]))
        return (self.family, self.mode, self.bs, self.w, tuple(sh))

    def nontrivial(self):
        return any(o.split()[0] in ("block", "blockb", "blocks", "blocksb", "data", "apply", "applyb", "enc", "dec",
                                    "encb", "decb", "oneshot", "oneshotb", "padenc", "paddec", "ksblock", "ksblocks",
                                    "applyblocks", "applyblocksb", "seek", "newslice", "debug", "E", "D", "backend", "applyblock", "applyblockb",
                                    "ksdirect", "encio", "decio", "enciob", "deciob", "blockio", "blockiob", "blocksio", "blocksiob",
                                    "oneshotio", "oneshotiob", "enccf", "deccf", "partial", "partialb", "aliasks", "padencs", "padencb", "paddecs", "paddecb") for o in self.ops)


class ExecError(Exception):
    pass


def _run(cmd, inp, timeout):
    p = subprocess.run(cmd, input=inp, stdout=subprocess.PIPE, stderr=subprocess.PIPE, timeout=timeout)
    return p.returncode, p.stdout.decode("utf-8", "replace"), p.stderr.decode("utf-8", "replace")


def harness_bin(profile="debug", feature_dir="target"):
    return os.path.join(HARNESS_DIR, feature_dir, profile, "bm-harness")


def build_harness(release=False, zeroize=False):
    """(re)build the harness against /repo's current working tree; serialised by a lock file.
    Returns (ok, log, binary path)."""
    os.makedirs(WORK, exist_ok=True)
    ov = os.environ.get("VERIF_HBIN_ZEROIZE" if zeroize else "VERIF_HBIN")
    if ov and not release:
        # coverage measurement only (tools/coverage.sh): an already built, coverage-instrumented harness binary
        return True, "override", ov
    tdir = "target-zeroize" if zeroize else "target"
    cmd = ["cargo", "build", "--offline", "--target-dir", os.path.join(HARNESS_DIR, tdir)]
    if release:
        cmd.append("--release")
    if zeroize:
        cmd += ["--features", "zeroize"]
    env = dict(os.environ, CARGO_NET_OFFLINE="true")
    with open(os.path.join(WORK, ".build.lock"), "w") as lk:
        fcntl.flock(lk, fcntl.LOCK_EX)
        p = subprocess.run(cmd, cwd=HARNESS_DIR, env=env, stdout=subprocess.PIPE, stderr=subprocess.STDOUT)
    return p.returncode == 0, p.stdout.decode("utf-8", "replace"), harness_bin("release" if release else "debug", tdir)


def split_obs(text, n_cases):
    """observation stream -> list (per case) of lists of lines (without the `case`/`end` lines)."""
    out, cur = [], None
    for l in text.splitlines():
        if l.startswith("case "):
            cur = []
            if l.endswith("bad-op"):
                cur.append("bad-case")
        elif l == "end":
            out.append(cur if cur is not None else [])
            cur = None
        elif cur is not None:
            cur.append(l)
    if cur is not None:
        out.append(cur)
    while len(out) < n_cases:
        out.append(None)          # the executor died before this case
    return out


def execute(cases, hbin, layers=("impl", "spec"), shards=12, timeout=300):
    """run all cases on the implementation and on the model layers. Returns dict name -> per-case obs."""
    from concurrent.futures import ThreadPoolExecutor
    for i, c in enumerate(cases):
        c.cid = i
    n = len(cases)
    if n == 0:
        return {k: [] for k in ("H",) + tuple(layers)}
    shards = max(1, min(shards, n // 20 + 1))
    bounds = [(n * i // shards, n * (i + 1) // shards) for i in range(shards)]
    texts = ["".join(c.text(ask_table=True) for c in cases[a:b]).encode() for a, b in bounds]
    res = {}

    def work(j):
        name, si, cmd, t = j
        try:
            rc, out, err = _run(cmd, t, timeout)
        except subprocess.TimeoutExpired:
            rc, out, err = -9, "", "timeout"
        return name, si, rc, out, err

    def collect(jobs):
        with ThreadPoolExecutor(max_workers=16) as ex:
            for name, si, rc, out, err in ex.map(work, jobs):
                a, b = bounds[si]
                obs = split_obs(out, b - a)
                res.setdefault(name, [None] * n)
                res[name][a:b] = obs[: b - a]
                if rc != 0:
                    res.setdefault("_errors", []).append((name, si, rc, err[-400:]))

    collect([("H", si, [hbin], t) for si, t in enumerate(texts)])
    # real-cipher cases: the last observation is the table of logged blocks; it becomes the model's cipher
    for c in cases:
        if c.real():
            h = res["H"][c.cid]
            if h and h[-1].startswith("table "):
                c.meta["tab"] = h[-1][6:]
                res["H"][c.cid] = h[:-1]
    if layers:
        # the definition leaves open whether a seek beyond the keystream end succeeds: tell the model
        # drivers what the implementation answered (used by the spec layer for its position only)
        texts2 = []
        for a, b in bounds:
            parts = []
            for c in cases[a:b]:
                h = res["H"][c.cid]
                if h is not None and any(o.startswith("seek ") for o in c.ops):
                    ops = [o + (" hint=ok" if o.startswith("seek ") and i < len(h) and h[i] == "ok" else "") for i, o in enumerate(c.ops)]
                    parts.append("\n".join([c.header(c.cid, with_tab=True)] + ops + ["end"]) + "\n")
                else:
                    parts.append(c.text(with_tab=True))
            texts2.append("".join(parts).encode())
        collect([(ly, si, [DRIVER, ly], t) for si, t in enumerate(texts2) for ly in layers])
    return res


def obs_match_spec(h, s):
    """does the implementation's observation `h` satisfy the spec's observation `s`
    (`?` = unspecified, `a|b` = alternatives on the value)?"""
    if s is None or h is None:
        return False
    if s == "?":
        return h not in ("panic", "bad-op") and not h.startswith("errmod")
    if s == "out|err":          # projected form of `out <bytes>|err`
        return h in ("out", "err")
    if "|" in s:
        head, _, rest = s.partition(" ")
        alts = rest.split("|")
        for a in alts:
            cand = a if a in ("err",) else f"{head} {a}"
            if h == cand:
                return True
        return False
    return h == s
