"""Case generators (boundary-directed + seeded random).  Every random choice comes from ctx.rng."""
from .common import *


def rb(rng, n):
    """random bytes; now and then a degenerate pattern (all zero, all ones, one byte repeated): data for which a chaining
    value, a keystream block or a difference collapses"""
    r = rng.random()
    if n and r < 0.06:
        if r < 0.03:
            return bytes(n)
        if r < 0.045:
            return bytes([255] * n)
        return bytes([rng.getrandbits(8)] * n)
    return bytes(rng.getrandbits(8) for _ in range(n))


def rb_nz(rng, n):
    return bytes(rng.randrange(1, 256) for _ in range(n))


def pick_matrix(rng, mode, prefer=None):
    from . import common
    if common.REAL_P > 0 and rng.random() < common.REAL_P:
        m = matrix_for(mode, common.MATRIX_REAL)
        if m:
            return rng.choice(m)
    m = matrix_for(mode)
    if prefer:
        mm = [x for x in m if prefer(x)]
        if mm and rng.random() < 0.7:
            return rng.choice(mm)
    return rng.choice(m)


def ivlen(mode, bs):
    if mode.startswith("ige"):
        return 2 * bs
    if mode.startswith("ecb"):
        return 0
    return bs


def nblocks_choice(rng, w, mx=12):
    c = [0, 1, 2, 3, w - 1, w, w + 1, 2 * w - 1, 2 * w, 2 * w + 1, 3 * w, 3 * w + 1, 3 * w + w - 1]
    c = [x for x in c if 0 <= x <= max(mx, 2 * w + 1)]
    if rng.random() < 0.75:
        return rng.choice(c)
    return rng.randrange(0, mx + 1)


def compositions(n, allow_zero=False, maxparts=None):
    """all compositions of n into positive parts (optionally with zero parts interleaved is handled by caller)."""
    if n == 0:
        yield []
        return
    for first in range(1, n + 1):
        for rest in compositions(n - first):
            yield [first] + rest


def random_composition(rng, n, zero_p=0.15, bias=None):
    parts = []
    left = n
    while left > 0:
        if rng.random() < zero_p:
            parts.append(0)
            continue
        if bias and rng.random() < 0.5:
            k = min(left, rng.choice(bias))
            if k <= 0:
                k = 1
        else:
            k = rng.randrange(1, left + 1)
        parts.append(k)
        left -= k
    if rng.random() < zero_p:
        parts.append(0)
    return parts


def mode_bs(mode, bs):
    return 1 if mode.startswith("cfb8") else bs


def ctr_iv(rng, mode, bs):
    """IV with the counter field at a boundary class."""
    w, be = CTR_FLAVORS[mode]
    cs = w // 8
    cls = rng.choice(["zero", "one", "pow-1", "pow", "max-1", "max", "rand", "allff", "carry", "carry"])
    if cls == "carry":
        # a few blocks below a carry out of the low 8/16/32/64 bits of the counter field (limb boundaries of
        # multi-word counter arithmetic), high part random or all ones
        h = rng.choice([x for x in (8, 16, 32, 64) if x < w] or [w // 2])
        hi = rng.getrandbits(w - h) if rng.random() < 0.7 else 2 ** (w - h) - 1
        f = (hi << h) | (2 ** h - 1 - rng.randrange(0, 12))
    elif cls == "zero":
        f = 0
    elif cls == "one":
        f = 1
    elif cls == "pow-1":
        f = 2 ** rng.randrange(1, w) - 1
    elif cls == "pow":
        f = 2 ** rng.randrange(1, w)
    elif cls == "max-1":
        f = 2 ** w - 2
    elif cls == "max":
        f = 2 ** w - 1
    elif cls == "allff":
        return bytes([255] * bs), cls
    else:
        f = rng.getrandbits(w)
    rest = rb(rng, bs - cs)
    if rng.random() < 0.3:
        rest = bytes([255] * (bs - cs))
    iv = (rest + f.to_bytes(cs, "big")) if be else (f.to_bytes(cs, "little") + rest)
    return iv, cls


def belt_iv(rng, key):
    """IV with E(IV) at a chosen distance below 2^128."""
    cls = rng.choice(["rand", "near", "near", "zero"])
    if cls == "rand":
        return rb(rng, 16), cls
    if cls == "zero":
        s0 = rng.randrange(0, 3)
    else:
        s0 = 2 ** 128 - 1 - rng.randrange(0, 6)
    return toy_dec(key, s0.to_bytes(16, "little")), cls + str(s0 % 8)


def stream_iv(rng, mode, bs, key):
    if mode in CTR_FLAVORS:
        return ctr_iv(rng, mode, bs)
    if mode == "belt":
        return belt_iv(rng, key)
    return rb(rng, bs), "rand"


def limit_blocks(mode):
    if mode in CTR_FLAVORS:
        return 2 ** CTR_FLAVORS[mode][0] - 1
    if mode == "belt":
        return 2 ** 128 - 1
    return None


def counter_bits(mode):
    if mode in CTR_FLAVORS:
        return CTR_FLAVORS[mode][0]
    if mode == "belt":
        return 128
    return 0


# ---- alternative public routes to the same backend entry points (harness ops `backend`, `applyblock`, `ksdirect`) ----
def blocks_op(rng, data, p=0.3):
    """a many-block in-place call: usually `*_blocks`, sometimes a caller-written closure for `*_with_backend` that uses the
    `_inplace` / `par` / `tail` backend entry points directly (variants 0-2; 3 goes buffer-to-buffer into a dirty buffer)"""
    if rng.random() < p:
        return f"backend {rng.randrange(0, 7)} {hx(data)}"
    return f"blocks {hx(data)}"


def coreapply_op(rng, data, bs, p=0.5):
    """`apply_keystream_blocks`, or for a single block sometimes the single-block entry point `apply_keystream_block_inout`"""
    if len(data) == bs and rng.random() < p:
        return f"applyblock {hx(data)}" if rng.random() < 0.6 else f"applyblockb {hx(data)} {hx(rb_nz(rng, bs))}"
    return f"applyblocks {hx(data)}"


def ks_op(rng, n, p=0.3):
    """`write_keystream_blocks`, or a caller-written closure for `process_with_backend`"""
    if rng.random() < p:
        return f"ksdirect {rng.randrange(0, 4)} {n}"
    return f"ksblocks {n}"


# ---- long inputs: one call of several hundred blocks (length counters crossing 2^8 / 2^9; thorough: 2^16) ----
LONG_N = [63, 64, 65, 96, 100, 120, 127, 128, 129, 192, 200, 240, 250, 255, 256, 257, 300, 320, 384, 400, 480, 500, 511, 512, 513, 1000]
LONG_N_THOROUGH = [1023, 1025, 4097, 65537]


def long_n(rng, thorough=False):
    if thorough and rng.random() < 0.3:
        return rng.choice(LONG_N_THOROUGH)
    if rng.random() < 0.25:
        return rng.randrange(130, 1100)
    return rng.choice(LONG_N)


def small_matrix(rng, mode, maxbs=8):
    m = [x for x in matrix_for(mode) if x[0] <= maxbs] or matrix_for(mode)
    m.sort()
    return rng.choice(m[:6])


def long_block_case(rng, mode, thorough=False):
    """block family: a single many-block call (in place or buffer-to-buffer) of hundreds of blocks, then the state"""
    bs, w = small_matrix(rng, mode)
    mbs = mode_bs(mode, bs)
    n = long_n(rng, thorough)
    key, iv = rb(rng, 16), rb(rng, ivlen(mode, bs))
    c = Case("block", mode, bs, w, key, iv, cls_long=f"{n}")
    data = rb(rng, n * mbs)
    if rng.random() < 0.5:
        c.ops.append(f"blocks {hx(data)}")
    else:
        c.ops.append(f"blocksb {hx(data)} {hx(rb_nz(rng, len(data)))}")
    c.ops.append("ivstate")
    c.ops.append(f"block {hx(rb(rng, mbs))}")
    return c


def long_stream_case(rng, mode, thorough=False):
    """stream family: one request of hundreds of blocks plus a partial block, started mid-block"""
    bs, w = small_matrix(rng, mode, 16)
    key = rb(rng, 16)
    iv, cls = stream_iv(rng, mode, bs, key)
    n = long_n(rng, False) if bs > 4 else long_n(rng, thorough and rng.random() < 0.3)
    n = min(n, 4097)
    c = Case("stream", mode, bs, w, key, iv, cls_iv=cls, cls_long=f"{n}")
    c.ops.append(f"apply {hx(rb(rng, rng.randrange(0, bs)))}")
    c.ops.append(f"apply {hx(rb(rng, n * bs + rng.randrange(0, bs)))}")
    c.ops.append("corestate")
    c.ops.append(f"apply {hx(rb(rng, bs + 1))}")
    return c


def long_core_case(rng, mode, thorough=False):
    bs, w = small_matrix(rng, mode, 16)
    key = rb(rng, 16)
    iv, cls = stream_iv(rng, mode, bs, key)
    n = min(long_n(rng, thorough), 4097)
    c = Case("core", mode, bs, w, key, iv, cls_iv=cls, cls_long=f"{n}")
    c.ops.append(f"applyblocks {hx(rb(rng, n * bs))}" if rng.random() < 0.5 else f"ksblocks {n}")
    c.ops.append("ivstate")
    c.ops.append("ksblock")
    return c


def long_buf_case(rng, mode, thorough=False):
    """buffered CFB: a short piece (leaves the cursor mid-block), then one piece of hundreds of blocks plus a remainder"""
    bs, w = small_matrix(rng, "cbc-enc")
    key, iv = rb(rng, 16), rb(rng, bs)
    n = long_n(rng, thorough)
    c = Case("buf", mode, bs, w, key, iv, cls_long=f"{n}")
    c.ops.append(f"data {hx(rb(rng, rng.randrange(0, bs)))}")
    c.ops.append(f"data {hx(rb(rng, n * bs + rng.randrange(0, bs)))}")
    c.ops.append(f"data {hx(rb(rng, bs + 1))}")
    return c


# ---- the `*_inout` / other padded entry points of the block-mode and async traits (harness ops `blockio`, `blockiob`, `blocksio`,
# `blocksiob`, `oneshotio`, `oneshotiob`, `padencs`, `padencb`, `paddecs`, `paddecb`): same call, another public route ----
ROUTE_ALT = {"block": "blockio", "blockb": "blockiob", "blocks": "blocksio", "blocksb": "blocksiob", "oneshot": "oneshotio",
             "oneshotb": "oneshotiob"}


def reroute(rng, ops, p=0.2):
    """rewrite some operations of a history to their alternative public route"""
    out = []
    for o in ops:
        t = o.split(" ", 1)
        if t[0] in ROUTE_ALT and rng.random() < p:
            o = ROUTE_ALT[t[0]] + (" " + t[1] if len(t) > 1 else "")
        elif t[0] in ("padenc", "paddec") and rng.random() < 2 * p:
            o = t[0] + rng.choice(["s", "b"]) + " " + t[1]
        out.append(o)
    return out


# ---- length sweep: every number of units 1..N in one call, once per mode and run (an internal batch / window / stride constant of any
# value up to N shows at its multiples), followed by the state and a little more data on the same object ----
def light():
    import os
    return os.environ.get("VERIF_LIGHT") == "1"


def sweep_cases(rng, fam, mode, N):
    if light():
        N = min(N, 48)
    base = "cbc-enc" if fam in ("buf", "cts") else mode
    # several (block size, width) configurations take turns over the lengths (a constant may be in bytes or in blocks, and
    # may interact with a block size that does not divide it)
    pool = [x for x in matrix_for(base) if x[0] <= 8] or [x for x in matrix_for(base) if x[0] <= 16]
    cfgs = rng.sample(pool, min(5, len(pool)))
    keys = [rb(rng, 16) for _ in cfgs]
    out = []
    for n in range(1, N + 1):
        (bs, w), key = cfgs[n % len(cfgs)], keys[n % len(cfgs)]
        mbs = mode_bs(mode, bs)
        if fam == "block":
            iv = rb(rng, ivlen(mode, bs))
            c = Case(fam, mode, bs, w, key, iv, cls_sweep=1)
            x = rb(rng, n * mbs)
            c.ops.append(f"blocks {hx(x)}" if rng.random() < 0.65 else f"blocksb {hx(x)} {hx(rb_nz(rng, len(x)))}")
            c.ops += ["ivstate", f"block {hx(rb(rng, mbs))}"]
        elif fam == "buf":
            c = Case(fam, mode, bs, w, key, rb(rng, bs), cls_sweep=1)
            k0 = rng.randrange(0, bs) if rng.random() < 0.5 else 0
            c.ops += [f"data {hx(rb(rng, k0))}", f"data {hx(rb(rng, n * bs + (rng.randrange(0, bs) if rng.random() < 0.35 else 0)))}", f"data {hx(rb(rng, bs + 1))}"]
        elif fam == "stream":
            iv, cls = stream_iv(rng, mode, bs, key)
            c = Case(fam, mode, bs, w, key, iv, cls_sweep=1)
            k0 = rng.randrange(0, bs) if rng.random() < 0.5 else 0
            c.ops += [f"apply {hx(rb(rng, k0))}", f"apply {hx(rb(rng, n * bs + (rng.randrange(0, bs) if rng.random() < 0.35 else 0)))}", "corestate", f"apply {hx(rb(rng, bs + 1))}"]
        elif fam == "core":
            iv, cls = stream_iv(rng, mode, bs, key)
            c = Case(fam, mode, bs, w, key, iv, cls_sweep=1)
            c.ops += [f"applyblocks {hx(rb(rng, n * bs))}" if rng.random() < 0.5 else f"ksblocks {n}", "ivstate", "ksblock"]
        else:   # cts
            c = Case(fam, mode, bs, w, key, rb(rng, ivlen(mode, bs)), cls_sweep=1)
            L = n * bs + (rng.randrange(0, bs) if rng.random() < 0.5 else 0)
            op = rng.choice(["enc", "dec", "encb", "decb"])
            c.ops.append(f"{op} {hx(rb(rng, L))}" + (f" {hx(rb_nz(rng, L))}" if op.endswith("b") else ""))
        out.append(c)
    return out


def manycalls_case(rng, fam, mode, ncalls):
    """one object, several hundred small calls (anything that counts calls, or wraps a per-call index)"""
    if light():
        ncalls = min(ncalls, 40)
    base = "cbc-enc" if fam in ("buf", "cts") else mode
    bs, w = small_matrix(rng, base, 8 if fam in ("block", "buf") else 16)
    key = rb(rng, 16)
    mbs = mode_bs(mode, bs)
    if fam == "block":
        c = Case(fam, mode, bs, w, key, rb(rng, ivlen(mode, bs)), cls_many=ncalls)
        for i in range(ncalls):
            c.ops.append(f"block {hx(rb(rng, mbs))}" if rng.random() < 0.7 else f"blocks {hx(rb(rng, rng.choice([0, 1, 2]) * mbs))}")
        c.ops.append("ivstate")
    elif fam == "buf":
        c = Case(fam, mode, bs, w, key, rb(rng, bs), cls_many=ncalls)
        for i in range(ncalls):
            c.ops.append(f"data {hx(rb(rng, rng.choice([0, 1, 1, 2, bs - 1, bs, bs + 1])))}")
    elif fam == "stream":
        iv, cls = stream_iv(rng, mode, bs, key)
        c = Case(fam, mode, bs, w, key, iv, cls_iv=cls, cls_many=ncalls)
        for i in range(ncalls):
            c.ops.append(f"apply {hx(rb(rng, rng.choice([0, 1, 1, 2, bs - 1, bs, bs + 1])))}")
        c.ops.append("corestate")
    else:
        iv, cls = stream_iv(rng, mode, bs, key)
        c = Case(fam, mode, bs, w, key, iv, cls_iv=cls, cls_many=ncalls)
        for i in range(ncalls):
            c.ops.append(rng.choice(["ksblock", "ksblock", f"applyblocks {hx(rb(rng, bs))}", f"applyblock {hx(rb(rng, bs))}", "ksblocks 2"]))
        c.ops.append("ivstate")
    return c
