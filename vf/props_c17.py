"""C17: Debug / algorithm-name text depends only on the type; dropped objects keep no chaining state
(second harness build with the `zeroize` feature)."""
import re, subprocess
from .common import *
from .gens import *
from .ctx import *
from .props_rel import history_ops


def run_C17(ctx):
    rng = ctx.rng
    allc = []
    targets = [("block", m) for m in BLOCK_MODES] + [("buf", "cfbbuf-enc"), ("buf", "cfbbuf-dec")] + \
              [("stream", m) for m in STREAM_MODES] + [("core", m) for m in STREAM_MODES]
    for (fam, mode) in targets:
        for _ in range(ctx.n(14, 150)):
            mm = mode if fam in ("stream", "core") else ("cbc-enc" if fam == "buf" else mode)
            bs, w = pick_matrix(rng, mm)
            key = rb(rng, 16)
            iv = stream_iv(rng, mode, bs, key)[0] if fam in ("stream", "core") else rb(rng, ivlen(mode, bs))
            c = Case(fam, mode, bs, w, key, iv)
            c.ops += ["debug", "algname"]
            for _ in range(rng.randrange(1, 4)):
                c.ops += history_ops(rng, fam, mode, bs, w, rng.randrange(1, 4))
                c.ops += ["debug", "algname"]
            # positions at and next to the end of the keystream (remaining_blocks = 0, 1, 2, 3) and at the middle
            # of the counter range: the text must not depend on the position there either
            if fam in ("stream", "core") and mode != "ofb" and rng.random() < 0.4:
                limb = limit_blocks(mode)
                target = rng.choice([limb, limb - 1, limb - 2, limb - 3, limb // 2, 2 ** (counter_bits(mode) // 2)])
                c.ops += [f"{'fromcore' if fam == 'stream' else 'setpos'} {target}", "debug", "algname"]
                c.meta["cls_pos"] = "limit" if target >= limb - 3 else "far"
            allc.append(c)
    # the ciphertext-stealing types implement neither `Debug` nor `Drop` at the pinned commit; if a `Debug` impl appears
    # (the harness probes for one at a call site where the type is concrete) its text must be constant per type as well
    for mode in CTS_MODES:
        for _ in range(ctx.n(6, 40)):
            bs, w = pick_matrix(rng, "cbc-enc")
            c = Case("cts", mode, bs, w, rb(rng, 16), rb_nz(rng, ivlen(mode, bs)))
            c.ops += ["debug", f"enc {hx(rb(rng, rng.randrange(bs, 3 * bs)))}", "debug"]
            allc.append(c)
    res = ctx.run(allc, layers=("impl",))
    ctx.no_panic(allc, res)
    by_type = {}
    for c in allc:
        h = res["H"][c.cid]
        if h is None:
            continue
        for i, l in enumerate(h):
            if l.startswith("text "):
                kind = c.ops[i]
                # the text may (and does) name the cipher *type*: real ciphers of the thorough tier are types of their own
                by_type.setdefault((c.family, c.mode + "<" + REAL_NAMES.get(c.w, "toy") + ">", kind), []).append((l[5:], c, i))
    ctx.stats["types_with_debug_text"] = len(by_type)
    for (fam, mode, kind), lst in sorted(by_type.items()):
        texts = {}
        for t, c, i in lst:
            texts.setdefault(t, (c, i))
        if len(texts) > 1:
            stripped = {re.sub(r"buffer_data: \[[0-9, ]*\]", "buffer_data: [..]", t) for t in texts}
            if fam == "stream" and len(stripped) == 1:
                sig = "StreamCipherCoreWrapper/buffer_data"
            else:
                sig = f"{fam}/{mode.split('<')[0]}/other"
            (t1, (c1, i1)), (t2, (c2, i2)) = list(texts.items())[:2]
            ctx.violation("predicate", f"{kind} text of {fam}/{mode} depends on key/IV/position/data: {t1!r} vs {t2!r}",
                          [c1, c2], {"H_a": res["H"][c1.cid], "H_b": res["H"][c2.cid]}, sig=sig)
    # correspondence: the mirror of each Debug impl prints the same text (text changes alone are not violations)
    # -- deliberately not compared line by line: C17 asks for constancy per type only.
    run_dropscan(ctx)


def run_dropscan(ctx):
    ok, log, hbin = build_harness(zeroize=True)
    if not ok:
        ctx.violation("infrastructure", "harness does not build against the current tree with --features zeroize:\n" + log[-1500:], [])
        return
    seed = ctx.rng.getrandbits(32)
    n = ctx.n(40, 400)
    try:
        p = subprocess.run([hbin, "dropscan", str(seed), str(n)], stdout=subprocess.PIPE, stderr=subprocess.PIPE, timeout=600)
    except subprocess.TimeoutExpired:
        ctx.violation("infrastructure", "dropscan timed out", [])
        return
    out = p.stdout.decode()
    if p.returncode != 0:
        ctx.violation("predicate", f"drop scan process died (rc={p.returncode}): {p.stderr.decode()[-400:]}", [])
        return
    nscan = 0
    for l in out.splitlines():
        t = l.split()
        if not t or t[0] != "scan":
            continue
        nscan += 1
        ctx.stats["dropscan:" + t[1]] += 1
        if "blind" in t:
            # no secret was visible in the object even before the drop (its representation differs from the exported
            # value): the scan cannot tell anything about this object; counted, not an alarm
            ctx.stats["dropscan_blind:" + t[1]] += 1
            continue
        if t[-1] != "clean":
            c = Case("dropscan", t[1], 0, 0, b"", b"", ops=[l])
            ctx.violation("predicate", f"after drop (zeroize build) the storage of {t[1]} still holds {' '.join(t[2:])}", [c], {"H": [l], "replay": [f"{hbin} dropscan {seed} {n}"]},
                          sig=f"dropscan/{t[1]}")
    ctx.evaluations += nscan
    ctx.stats["dropscan_objects"] = nscan
    if nscan == 0:
        ctx.violation("infrastructure", "dropscan produced no scan lines", [])
