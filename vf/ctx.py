import os
"""Run context: executes cases, collects coverage statistics, violations and samples."""
import collections, time
from .common import *


class Violation:
    def __init__(self, kind, detail, cases, obs=None, sig=None):
        self.kind = kind          # 'predicate' (a failing input for the property) | 'correspondence' | 'infrastructure'
        self.detail = detail
        self.cases = cases
        self.obs = obs or {}
        self.sig = sig            # signature string used to match known findings


class Ctx:
    def __init__(self, prop, tier, seed, hbin):
        self.prop, self.tier, self.seed, self.hbin = prop, tier, seed, hbin
        self.rng = random.Random((hash(prop) & 0xffff) * 1000003 + seed) if False else random.Random(f"{prop}-{seed}")
        self.violations = []
        self.stats = collections.Counter()
        self.shapes = set()
        self.samples = []
        self.evaluations = 0
        self.traces = 0
        self.exhaustive = False
        self.notes = []

    @property
    def thorough(self):
        return self.tier == "thorough"

    def n(self, quick, thorough):
        # quick budgets are the original per-stream counts times VERIF_QUICK_SCALE (default 3): the whole quick
        # suite then still runs in about a minute on 16 cores; small-scope bounds (quick < 10) are left alone
        if self.thorough:
            return thorough
        scale = int(os.environ.get("VERIF_QUICK_SCALE", "3"))
        if quick < 10:
            # small-scope classes (long calls, batch boundaries, exhaustive compositions): x3 at the base scale, x6 when code of an
            # anchored crate has changed (see ./check: source_state) — that is when the model may be stale and search effort pays
            return min(thorough, quick * (6 if scale >= 30 else 3)) if scale >= 10 else quick
        return min(thorough, quick * scale)

    def run(self, cases, layers=("impl", "spec")):
        # thorough tier: single calls of up to 65 537 blocks go through the list-based memory-level model; give a shard an hour
        res = execute(cases, self.hbin, layers=layers, timeout=(3600 if self.thorough else 300))
        self.evaluations += len(cases)
        for c in cases:
            self.traces += 1
            self.stats[f"family:{c.family}"] += 1
            self.stats[f"mode:{c.mode}"] += 1
            self.stats[f"bs:{c.bs}/w:{c.w}"] += 1
            for o in c.ops:
                self.stats["op:" + o.split()[0]] += 1
            if c.nontrivial():
                self.shapes.add(c.shape())
            for k, v in c.meta.items():
                if k.startswith("cls"):
                    self.stats[f"{k}:{v}"] += 1
        if len(self.samples) < 6 and cases:
            for c in self.rng.sample(cases, min(2, len(cases))):
                if len(self.samples) < 6:
                    self.samples.append({"case": c.text().strip().split("\n")[:14],
                                         "impl_obs": (res["H"][c.cid] or [])[:13]})
        for e in res.get("_errors", []):
            self.violations.append(Violation("infrastructure", f"executor {e[0]} shard {e[1]} exited rc={e[2]}: {e[3]}", []))
        # any executor that died mid-stream: locate the case
        for c in cases:
            if res["H"][c.cid] is None:
                self.violations.append(Violation("predicate", "the implementation process died (abort/hang) on or before this case", [c]))
                break
        return res

    def violation(self, kind, detail, cases, obs=None, sig=None):
        self.violations.append(Violation(kind, detail, cases, obs, sig))

    def selftest(self):
        """Guards the machinery itself on every run, independently of /repo's code: the harness's toy cipher and the Lean
        `Toy.enc/dec` answer the same known-answer questions; the unaltered answers must compare equal, and an answer with
        one altered hex digit (a *sabotaged* observation) must be reported by the comparison.  If either fails, nothing this
        run says can be believed, and that is reported as an infrastructure problem."""
        rng = random.Random(f"selftest-{self.prop}-{self.seed}")
        bs, w = rng.choice([(5, 5), (8, 3), (16, 2), (3, 2)])
        key = bytes(rng.getrandbits(8) for _ in range(16))
        blk = lambda: bytes(rng.getrandbits(8) for _ in range(bs))
        c = Case("toy", "toy", bs, w, key, b"", ops=[f"E {hx(blk())}", f"D {hx(blk())}", f"E {hx(blk())}"])
        res = execute([c], self.hbin)
        clean = Ctx(self.prop, self.tier, self.seed, self.hbin)
        clean.check_absolute([c], res)
        h = res["H"][0]
        ok = (not clean.violations) and h is not None and len(h) == 3 and all(l.startswith("out ") for l in h)
        caught = False
        if ok:
            l = h[1]
            res["H"][0] = [h[0], l[:-1] + ("0" if l[-1] != "0" else "1"), h[2]]
            sab = Ctx(self.prop, self.tier, self.seed, self.hbin)
            sab.check_absolute([c], res)
            caught = any(v.kind == "predicate" for v in sab.violations)
        self.stats["selftest:known_answers_agree"] = int(ok)
        self.stats["selftest:sabotaged_line_reported"] = int(caught)
        if not (ok and caught):
            self.violation("infrastructure", "self-test failed: " + ("toy-cipher known answers of harness and model disagree or are missing"
                           if not ok else "a sabotaged observation line was not reported by the comparison"), [c], {"H": h})

    # ---- evaluation helpers -------------------------------------------------------------------
    def check_absolute_shrunk(self, cases, res, sigfn=None, project=None):
        """`check_absolute`, then minimise the first failing cases (what the replay files then contain)"""
        self.check_absolute(cases, res, sigfn=sigfn, project=project)
        if any(v.kind == "predicate" for v in self.violations):
            self.shrink_absolute(project=project, sigfn=sigfn)

    def check_absolute(self, cases, res, skip=("bufstate", "text"), sigfn=None, project=None):
        """per line: implementation vs spec (the property's predicate) and vs the impl-mirror model
        (correspondence)."""
        for c in cases:
            h, m, s = res["H"][c.cid], res["impl"][c.cid], res["spec"][c.cid]
            if h is None:
                continue
            if m is None or s is None:
                self.violation("infrastructure", "model driver produced no output for this case", [c])
                continue
            for i, op in enumerate(c.ops):
                hi = h[i] if i < len(h) else None
                mi = m[i] if i < len(m) else None
                si = s[i] if i < len(s) else None
                if project is not None:
                    # compare only the observable the property speaks about
                    hi, mi, si = project(hi), project(mi), project(si)
                if mi == "bad-op" or si == "bad-op" or (mi or "").startswith("bad-case"):
                    self.violation("infrastructure", f"model rejected op {i}: {op!r} (m={mi!r}, s={si!r})", [c],
                                   {"H": h, "impl": m, "spec": s})
                    break
                if hi == "panic":
                    self.violation("predicate", f"op {i} {op.split()[0]!r} panicked (spec: {si!r})", [c],
                                   {"H": h, "impl": m, "spec": s}, sig=sigfn(c, i, hi, si) if sigfn else None)
                    break
                if not obs_match_spec(hi, si):
                    self.violation("predicate", f"op {i} {op[:60]!r}: implementation gives {hi!r}, the definition gives {si!r}",
                                   [c], {"H": h, "impl": m, "spec": s}, sig=sigfn(c, i, hi, si) if sigfn else None)
                    break
                if hi != mi and not (hi or "").startswith(skip):
                    self.violation("correspondence", f"op {i} {op[:60]!r}: implementation gives {hi!r}, the model mirror gives {mi!r} (spec allows both)",
                                   [c], {"H": h, "impl": m, "spec": s})
                    break

    def shrink_absolute(self, max_n=3, project=None, sigfn=None):
        """minimise the op sequences of the first few single-case predicate violations found by `check_absolute`:
        greedily delete operations while the implementation still disagrees with the definition on the reduced case
        (both sides are re-run).  The reduced case replaces the original in the violation (and so in the replay)."""
        done = 0
        for v in self.violations:
            if done >= max_n:
                break
            if v.kind != "predicate" or len(v.cases) != 1 or not v.cases[0].ops or getattr(v, "shrunk", False):
                continue
            c0 = v.cases[0]
            ops = list(c0.ops)
            best = None
            i = len(ops) - 1
            budget = 40
            while i >= 0 and budget > 0 and len(ops) > 1:
                cand_ops = ops[:i] + ops[i + 1:]
                cand = Case(c0.family, c0.mode, c0.bs, c0.w, c0.key, c0.iv, ops=cand_ops, **{k: x for k, x in c0.meta.items() if k != "tab"})
                budget -= 1
                try:
                    res = execute([cand], self.hbin)
                except Exception:
                    break
                probe = Ctx(self.prop, self.tier, self.seed, self.hbin)
                probe.check_absolute([cand], res, sigfn=sigfn, project=project)
                pv = [x for x in probe.violations if x.kind == "predicate"]
                if pv and (v.sig is None or pv[0].sig == v.sig):
                    ops, best = cand_ops, pv[0]
                i -= 1
                i = min(i, len(ops) - 1)
            if best is not None:
                v.detail = best.detail + f"   [shrunk from {len(c0.ops)} to {len(ops)} operations]"
                v.cases, v.obs = best.cases, best.obs
            v.shrunk = True
            done += 1

    def no_panic(self, cases, res):
        for c in cases:
            h = res["H"][c.cid]
            if h is None:
                continue
            for i, l in enumerate(h):
                if l == "panic":
                    self.violation("predicate", f"op {i} {c.ops[i][:60]!r} panicked", [c], {"H": h})
                    break
                if l == "bad-op" or l == "bad-case":
                    self.violation("infrastructure", f"harness rejected op {i}: {c.ops[i] if i < len(c.ops) else '?'}", [c], {"H": h})
                    break


def outs(obs, idxs=None):
    """concatenate the `out` payloads of the given op indices (all if None); None if any is not `out`."""
    acc = b""
    rng_ = range(len(obs)) if idxs is None else idxs
    for i in rng_:
        l = obs[i]
        if l.startswith("out "):
            acc += unhx(l[4:])
        elif idxs is not None:
            return None
    return acc


def payload(line):
    t = line.split()
    return unhx(t[1]) if len(t) > 1 else b""


def kinds_only(l):
    """projection used by the properties that speak about outcomes, not about the bytes produced:
    `out <hex>` -> `out`, `state <hex>` -> `state`; error lines keep the buffer they report."""
    if l is None:
        return None
    if l.startswith("out "):
        return "out|err" if l.endswith("|err") else "out"
    if l.startswith("state "):
        return "state"
    return l
