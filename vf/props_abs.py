"""Absolute properties: the implementation's observable is compared with the definition (Spec layer)
and with the Impl mirror (correspondence).  C02 C03 C04 C05 C06 C10 C11 C13."""
from .common import *
from .gens import *
from .ctx import *
from .ctx import kinds_only


SWEEP_N = 640
SWEEP_N_THOROUGH = 1100


def block_case(rng, mode, n_ops, with_state=True, oneshot=False, padded=False, dcalls=False):
    bs, w = pick_matrix(rng, mode)
    mbs = mode_bs(mode, bs)
    key, iv = rb(rng, 16), rb(rng, ivlen(mode, bs))
    c = Case("block", mode, bs, w, key, iv, cls_bs="1" if bs == 1 else ("small" if bs < 8 else ("16" if bs == 16 else "other")))
    maxb = 3 * w + 2 if mbs > 1 else 3 * bs + 2
    if rng.random() < 0.04:
        # many small calls on one object (anything that counts calls rather than data)
        c.meta["cls_many"] = 1
        for _ in range(rng.randrange(30, 80)):
            k = rng.choice([1, 1, 1, 2, 0])
            c.ops.append(f"block {hx(rb(rng, mbs))}" if k == 1 and rng.random() < 0.6 else f"blocks {hx(rb(rng, k * mbs))}")
        n_ops = 0
    for _ in range(n_ops):
        r = rng.random()
        if r < 0.25:
            c.ops.append(f"block {hx(rb(rng, mbs))}")
        elif r < 0.35:
            c.ops.append(f"blockb {hx(rb(rng, mbs))} {hx(rb_nz(rng, mbs))}")
        elif r < 0.7:
            k = nblocks_choice(rng, w, maxb)
            c.ops.append(blocks_op(rng, rb(rng, k * mbs)))
        elif r < 0.85:
            k = nblocks_choice(rng, w, maxb)
            c.ops.append(f"blocksb {hx(rb(rng, k * mbs))} {hx(rb_nz(rng, k * mbs))}")
        elif r < 0.93 and oneshot:
            L = rng.choice([0, 1, bs - 1, bs, bs + 1, 2 * bs - 1, 2 * bs + 1, rng.randrange(0, 4 * bs + 2)])
            L = max(L, 0)
            if rng.random() < 0.5:
                c.ops.append(f"oneshot {hx(rb(rng, L))}")
            else:
                c.ops.append(f"oneshotb {hx(rb(rng, L))} {hx(rb_nz(rng, L))}")
        elif padded:
            L = rng.choice([0, 1, mbs - 1, mbs, mbs + 1, 2 * mbs, rng.randrange(0, 3 * mbs + 2)])
            L = max(L, 0)
            if mode.endswith("enc"):
                c.ops.append(f"padenc {hx(rb(rng, L))}")
            else:
                c.ops.append(f"paddec {hx(rb(rng, L))}")
        elif with_state and not dcalls:
            c.ops.append("ivstate")
    c.ops = reroute(rng, c.ops)
    if dcalls:
        c.ops.append("dcalls")
    if with_state:
        c.ops.append("ivstate")
    return c


def run_C02(ctx):
    cases = []
    for mode in ["cbc-enc", "cbc-dec", "pcbc-enc", "pcbc-dec", "ige-enc", "ige-dec"]:
        for _ in range(ctx.n(70, 1500)):
            cases.append(block_case(ctx.rng, mode, ctx.rng.randrange(1, 7), padded=True))
        for _ in range(ctx.n(2, 12)):
            cases.append(long_block_case(ctx.rng, mode, ctx.thorough))
        cases += sweep_cases(ctx.rng, "block", mode, SWEEP_N_THOROUGH if ctx.thorough else SWEEP_N)
        cases += [manycalls_case(ctx.rng, "block", mode, 300) for _ in range(2)]
    res = ctx.run(cases)
    ctx.check_absolute_shrunk(cases, res)


def buf_case(rng, mode, total=None):
    bs, w = pick_matrix(rng, "cbc-enc")
    key, iv = rb(rng, 16), rb(rng, bs)
    c = Case("buf", mode, bs, w, key, iv)
    if total is None:
        # mostly short streams; sometimes long ones with calls of many whole blocks issued mid-block
        total = rng.randrange(0, 4 * bs + 3) if rng.random() < 0.7 else rng.randrange(8 * bs, 22 * bs + 3)
    bias = [1, bs - 1, bs, bs + 1, 2 * bs]
    if rng.random() < 0.04:
        # many tiny calls
        c.meta["cls_many"] = 1
        for _ in range(rng.randrange(30, 80)):
            c.ops.append(f"data {hx(rb(rng, rng.choice([0, 1, 1, 2, bs - 1, bs, bs + 1])))}")
        return c
    if total > 6 * bs:
        bias = [1, 3, bs - 1, bs, 8 * bs, 9 * bs, 10 * bs, 12 * bs, 16 * bs]
    for k in random_composition(rng, total, bias=bias):
        c.ops.append(f"data {hx(rb(rng, k))}")
        if rng.random() < 0.1:
            c.ops.append("restate")
    return c


def run_C03(ctx):
    cases = []
    for mode in ["cfb-enc", "cfb-dec", "cfb8-enc", "cfb8-dec", "ofb-enc", "ofb-dec"]:
        for _ in range(ctx.n(60, 1200)):
            cases.append(block_case(ctx.rng, mode, ctx.rng.randrange(1, 7), oneshot=mode.startswith("cfb"),
                                    dcalls=ctx.rng.random() < 0.5))
        for _ in range(ctx.n(2, 12)):
            cases.append(long_block_case(ctx.rng, mode, ctx.thorough))
        cases += sweep_cases(ctx.rng, "block", mode, SWEEP_N_THOROUGH if ctx.thorough else SWEEP_N)
        cases += [manycalls_case(ctx.rng, "block", mode, 300) for _ in range(2)]
    for mode in ["cfbbuf-enc", "cfbbuf-dec"]:
        cases += sweep_cases(ctx.rng, "buf", mode, SWEEP_N_THOROUGH if ctx.thorough else SWEEP_N)
        cases += [manycalls_case(ctx.rng, "buf", mode, 300) for _ in range(2)]
        for _ in range(ctx.n(80, 1500)):
            c = buf_case(ctx.rng, mode)
            if ctx.rng.random() < 0.5:
                c.ops.append("dcalls")
            cases.append(c)
        for _ in range(ctx.n(2, 12)):
            cases.append(long_buf_case(ctx.rng, mode, ctx.thorough))
    if not light():
        # more than 2^16 bytes through one object of the byte-granular modes (anything that keeps a byte count in 16 bits),
        # with a block size that does not divide 2^16
        for mode in ["cfb8-enc", "cfb8-dec"]:
            bs, w = ctx.rng.choice([(3, 2), (5, 5), (7, 2), (12, 4)])
            c = Case("block", mode, bs, w, rb(ctx.rng, 16), rb(ctx.rng, bs), cls_long="65536+")
            c.ops += [f"blocks {hx(rb(ctx.rng, 40000))}", f"blocks {hx(rb(ctx.rng, 25600))}", "ivstate", f"blocks {hx(rb(ctx.rng, 2 * bs + 1))}", "ivstate"]
            cases.append(c)
        for mode in ["cfbbuf-enc", "cfbbuf-dec"]:
            bs, w = ctx.rng.choice([(3, 2), (5, 5), (7, 2), (12, 4)])
            c = Case("buf", mode, bs, w, rb(ctx.rng, 16), rb(ctx.rng, bs), cls_long="65536+")
            c.ops += [f"data {hx(rb(ctx.rng, 40001))}", f"data {hx(rb(ctx.rng, 25601))}", f"data {hx(rb(ctx.rng, 2 * bs + 1))}"]
            cases.append(c)
    for _ in range(ctx.n(60, 800)):
        cases.append(stream_case(ctx.rng, "ofb", seeks=False))
    for _ in range(ctx.n(2, 12)):
        cases.append(long_stream_case(ctx.rng, "ofb", ctx.thorough))
    cases += sweep_cases(ctx.rng, "stream", "ofb", SWEEP_N)
    cases += sweep_cases(ctx.rng, "core", "ofb", SWEEP_N)
    cases += [manycalls_case(ctx.rng, "stream", "ofb", 300), manycalls_case(ctx.rng, "core", "ofb", 300)]
    res = ctx.run(cases)
    ctx.check_absolute_shrunk(cases, res)


def stream_case(rng, mode, seeks=True, near_limit=False, n_ops=None, w_pref=None):
    bs, w = pick_matrix(rng, mode, w_pref)
    key = rb(rng, 16)
    iv, cls = stream_iv(rng, mode, bs, key)
    c = Case("stream", mode, bs, w, key, iv, cls_iv=cls)
    n_ops = n_ops or rng.randrange(1, 8)
    if mode != "ofb" and rng.random() < 0.12:
        # positioned before any data was processed, then exported at once (whatever is derived lazily on first use)
        p = rng.choice([bs, 2 * bs, rng.randrange(1, 2 ** 20) * bs, rng.randrange(1, 2 ** 20) * bs + rng.randrange(1, bs)])
        c.ops += [f"seek u64 {p}", "corestate"]
        c.meta["cls_early_export"] = 1
    if rng.random() < 0.04:
        c.meta["cls_many"] = 1
        for _ in range(rng.randrange(30, 80)):
            c.ops.append(f"apply {hx(rb(rng, rng.choice([0, 1, 1, 2, bs - 1, bs, bs + 1])))}")
        n_ops = 1
    for _ in range(n_ops):
        r = rng.random()
        if len(c.ops) and r < 0.08:
            c.ops.append(c.ops[-1])          # the same call twice in a row
            continue
        if r < 0.55:
            L = rng.choice([0, 1, bs - 1, bs, bs + 1, w * bs, w * bs + 1, (w + 1) * bs + bs // 2, rng.randrange(0, (2 * w + 2) * bs + 1)])
            c.ops.append(f"apply {hx(rb(rng, L))}")
        elif r < 0.7:
            L = rng.randrange(0, (w + 2) * bs + 1)
            c.ops.append(f"applyb {hx(rb(rng, L))} {hx(rb_nz(rng, L))}")
        elif r < 0.8:
            c.ops.append("rem")
        elif r < 0.9:
            c.ops.append("corestate")
        elif seeks and mode != "ofb":
            c.ops.append(f"pos {rng.choice(list(SN_MAX))}")
    if rng.random() < 0.3:
        # the same keystream through the crate's public alias type (`ctr::Ctr32BE<C>`, `ofb::Ofb<C>`, `belt_ctr::BeltCtr<C>` …)
        c.ops.append(f"aliasks {rng.choice([1, bs, 2 * bs + 1, (w + 1) * bs + 3])}")
    return c


def core_case(rng, mode, n_ops=None):
    bs, w = pick_matrix(rng, mode)
    key = rb(rng, 16)
    iv, cls = stream_iv(rng, mode, bs, key)
    c = Case("core", mode, bs, w, key, iv, cls_iv=cls)
    if mode != "ofb" and rng.random() < 0.12:
        c.ops += [f"setpos {rng.choice([1, 2, rng.randrange(1, 2 ** 20)])}", "ivstate"]
        c.meta["cls_early_export"] = 1
    for _ in range(n_ops or rng.randrange(1, 7)):
        r = rng.random()
        if r < 0.2:
            c.ops.append("ksblock")
        elif r < 0.45:
            c.ops.append(ks_op(rng, nblocks_choice(rng, w, 3 * w + 2)))
        elif r < 0.7:
            c.ops.append(coreapply_op(rng, rb(rng, nblocks_choice(rng, w, 3 * w + 2) * bs), bs))
        elif r < 0.8:
            k = nblocks_choice(rng, w, 2 * w + 2) * bs
            c.ops.append(f"applyblocksb {hx(rb(rng, k))} {hx(rb_nz(rng, k))}")
        elif r < 0.9:
            c.ops.append("ivstate")
        elif mode != "ofb":
            c.ops.append("getpos" if rng.random() < 0.5 else "rem")
    if rng.random() < 0.25:
        # `try_apply_keystream_partial` (consumes the core; the harness continues with a core re-created from the exported state)
        L = rng.choice([0, 1, bs - 1, bs, bs + 1, w * bs + 1, rng.randrange(0, (2 * w + 2) * bs + 1)])
        c.ops.append(f"partial {hx(rb(rng, L))}" if rng.random() < 0.6 else f"partialb {hx(rb(rng, L))} {hx(rb_nz(rng, L))}")
        c.ops.append("ksblock")
    c.ops.append("ivstate")
    return c


def run_C04(ctx):
    cases = []
    sweep_streams = ctx.rng.sample(list(CTR_FLAVORS), 2)
    for mode in CTR_FLAVORS:
        for _ in range(ctx.n(60, 1200)):
            cases.append(core_case(ctx.rng, mode))
        for _ in range(ctx.n(50, 1000)):
            cases.append(stream_case(ctx.rng, mode, seeks=False))
        for _ in range(ctx.n(1, 8)):
            cases.append(long_stream_case(ctx.rng, mode, ctx.thorough))
            cases.append(long_core_case(ctx.rng, mode, ctx.thorough))
        cases += sweep_cases(ctx.rng, "core", mode, SWEEP_N)
        cases += [manycalls_case(ctx.rng, "stream", mode, 300), manycalls_case(ctx.rng, "core", mode, 300)]
        if ctx.thorough or mode in sweep_streams:
            cases += sweep_cases(ctx.rng, "stream", mode, SWEEP_N)
        # block index crossing the counter wrap deep in the stream (positioned, no data generated for the gap)
        w_bits = CTR_FLAVORS[mode][0]
        for _ in range(ctx.n(15, 200)):
            c = core_case(ctx.rng, mode, n_ops=3)
            c.ops.insert(0, f"setpos {ctx.rng.choice([2**(w_bits//2) - 1, 2**(w_bits - 1) - 2, 2**w_bits - 5, ctx.rng.getrandbits(w_bits - 1)])}")
            cases.append(c)
    res = ctx.run(cases)
    ctx.check_absolute_shrunk(cases, res)


def cts_lengths(rng, bs, w, tier_many):
    top = (2 * w + 2) * bs
    if tier_many:
        return list(range(bs, top + 1))
    ls = {bs, bs + 1, 2 * bs - 1, 2 * bs, 2 * bs + 1, 3 * bs, (w + 1) * bs, (w + 1) * bs + 1, top, top - 1}
    for _ in range(6):
        ls.add(rng.randrange(bs, top + 1))
    return sorted(l for l in ls if l >= bs)


def run_C05(ctx):
    cases = []
    for mode in CTS_MODES:
        for (bs, w) in MATRIX:
            if bs == 255 and not ctx.thorough:
                continue
            key, iv = rb(ctx.rng, 16), rb(ctx.rng, ivlen(mode, bs))
            c = Case("cts", mode, bs, w, key, iv)
            for L in cts_lengths(ctx.rng, bs, w, ctx.thorough and bs <= 24):
                op = ctx.rng.choice(["enc", "dec", "encb", "decb", "encio", "decio", "enciob", "deciob"])
                if op.endswith("b"):
                    c.ops.append(f"{op} {hx(rb(ctx.rng, L))} {hx(rb_nz(ctx.rng, L))}")
                else:
                    c.ops.append(f"{op} {hx(rb(ctx.rng, L))}")
                if len(c.ops) >= 8:
                    cases.append(c)
                    c = Case("cts", mode, bs, w, key, iv)
            if c.ops:
                cases.append(c)
        for _ in range(ctx.n(2, 10)):
            bs, w = small_matrix(ctx.rng, mode)
            key, iv = rb(ctx.rng, 16), rb(ctx.rng, ivlen(mode, bs))
            L = long_n(ctx.rng, ctx.thorough) * bs + ctx.rng.choice([0, 1, bs - 1, ctx.rng.randrange(0, bs)])
            c = Case("cts", mode, bs, w, key, iv, cls_long=str(L // bs))
            op = ctx.rng.choice(["enc", "dec", "encb", "decb"])
            c.ops.append(f"{op} {hx(rb(ctx.rng, L))}" + (f" {hx(rb_nz(ctx.rng, L))}" if op.endswith("b") else ""))
            cases.append(c)
        cases += sweep_cases(ctx.rng, "cts", mode, SWEEP_N)
    res = ctx.run(cases)

    def sig(c, i, hi, si):
        L = len(c.ops[i].split()[1]) // 2 if c.ops[i].split()[1] != "-" else 0
        return f"{c.mode}/len=={'bs' if L == c.bs else 'other'}"
    ctx.check_absolute_shrunk(cases, res, sigfn=sig)


def run_C06(ctx):
    cases = []
    for _ in range(ctx.n(150, 2500)):
        cases.append(core_case(ctx.rng, "belt"))
    for _ in range(ctx.n(150, 2500)):
        c = stream_case(ctx.rng, "belt", seeks=True)
        if ctx.rng.random() < 0.5:
            bs = 16
            p = ctx.rng.choice([0, 1, 15, 16, 17, 16 * c.w, 16 * c.w + 5, ctx.rng.randrange(0, 2**40), ctx.rng.randrange(0, 2**70)])
            c.ops.insert(ctx.rng.randrange(0, len(c.ops) + 1), f"seek u128 {p}")
        cases.append(c)
    for _ in range(ctx.n(3, 16)):
        cases.append(long_stream_case(ctx.rng, "belt", ctx.thorough))
        cases.append(long_core_case(ctx.rng, "belt", ctx.thorough))
    cases += sweep_cases(ctx.rng, "core", "belt", SWEEP_N // 2)
    cases += sweep_cases(ctx.rng, "stream", "belt", SWEEP_N // 2)
    cases += [manycalls_case(ctx.rng, "stream", "belt", 300), manycalls_case(ctx.rng, "core", "belt", 300)]
    res = ctx.run(cases)
    ctx.check_absolute_shrunk(cases, res)


def seek_case(rng, mode, allow_past_end=False):
    bs, w = pick_matrix(rng, mode)
    key = rb(rng, 16)
    iv, cls = stream_iv(rng, mode, bs, key)
    c = Case("stream", mode, bs, w, key, iv, cls_iv=cls)
    lim = limit_blocks(mode) * bs
    q = 0
    for _ in range(rng.randrange(2, 9)):
        r = rng.random()
        if len(c.ops) and r < 0.06 and not c.ops[-1].startswith("apply"):
            c.ops.append(c.ops[-1])          # the same seek / position query twice in a row
            continue
        if r < 0.4:
            T = rng.choice(list(SN_MAX))
            cls_p = rng.choice(["zero", "small", "inblock", "boundary", "big32", "big31", "big64", "end", "back"] +
                               (["bigblock", "bigblock", "bigblock"] if counter_bits(mode) > 64 else []))
            if cls_p == "zero":
                p = 0
            elif cls_p == "small":
                p = rng.randrange(0, 4 * bs + 1)
            elif cls_p == "inblock":
                p = rng.randrange(0, 2**20) * bs + rng.randrange(0, bs)
            elif cls_p == "boundary":
                p = rng.randrange(0, 2**20) * bs
            elif cls_p == "big32":
                p = 2**32 + rng.randrange(-3 * bs, 3 * bs)
            elif cls_p == "big31":
                p = 2**31 + rng.randrange(-3 * bs, 3 * bs)
            elif cls_p == "big64":
                p = 2**64 + rng.randrange(-3 * bs, 3 * bs)
            elif cls_p == "bigblock":
                # block counters beyond 2^64 (128-bit counters only): anything kept in 64 bits about the position collapses here
                T = "u128"
                blk = rng.choice([2 ** 64, 2 ** 64 + rng.randrange(0, 2 ** 20), rng.randrange(2 ** 64, 2 ** 100), 3 * 2 ** 64 + 5])
                p = blk * bs + rng.choice([0, rng.randrange(0, bs)])
            elif cls_p == "end":
                p = lim - rng.randrange(1, 4 * bs)
            else:
                p = max(0, q - rng.randrange(0, 3 * bs + 1))
            p = max(0, min(p, SN_MAX[T]))
            if not allow_past_end:
                p = min(p, lim - 1)
            c.ops.append(f"seek {T} {p}")
            c.meta["cls_seek_" + cls_p] = 1
            q = p
        elif r < 0.7:
            L = rng.choice([0, 1, bs - 1, bs, bs + 1, rng.randrange(0, (w + 2) * bs + 1)])
            if q + L > lim:
                L = max(0, lim - q)
            c.ops.append(f"apply {hx(rb(rng, L))}")
            q += L
        else:
            c.ops.append(f"pos {rng.choice(list(SN_MAX))}")
    c.ops.append(f"pos u128")
    return c


def seek_sweep_cases(rng, mode, N):
    """sweep of the seek moment: after every number of whole blocks t produced by one request (started on or inside a block),
    seek a little back — into the block just produced or the one before — or ahead, and read on"""
    out = []
    if light():
        N = min(N, 32)
    pool = [x for x in matrix_for(mode) if x[0] <= 16]
    cfgs = rng.sample(pool, min(3, len(pool)))
    for t in range(1, N + 1):
        bs, w = cfgs[t % len(cfgs)]
        key = rb(rng, 16)
        iv, cls = stream_iv(rng, mode, bs, key)
        c = Case("stream", mode, bs, w, key, iv, cls_iv=cls, cls_sweep=1)
        k0 = rng.randrange(1, bs) if rng.random() < 0.6 else 0
        L = (bs - k0) % bs + t * bs + (rng.randrange(1, bs) if rng.random() < 0.35 else 0)
        q = k0 + L
        target = max(0, q - rng.choice([1, bs - 1, bs, bs + 1, rng.randrange(1, 2 * bs + 1)])) if rng.random() < 0.8 else q + rng.randrange(0, 2 * bs)
        if k0:
            c.ops.append(f"apply {hx(rb(rng, k0))}")
        c.ops += [f"apply {hx(rb(rng, L))}", f"seek u64 {target}", f"apply {hx(rb(rng, bs + 1))}", "pos u64"]
        out.append(c)
    return out


def run_C10(ctx):
    cases = []
    rng = ctx.rng
    for mode in list(CTR_FLAVORS) + ["belt"]:
        for _ in range(ctx.n(90, 1500)):
            cases.append(seek_case(ctx.rng, mode))
        cases += seek_sweep_cases(rng, mode, (SWEEP_N_THOROUGH if ctx.thorough else SWEEP_N) // 2)
        # sweep of the seek target: every block 0..N (on the boundary or inside), from a fresh object or after a short read
        pool = [x for x in matrix_for(mode) if x[0] <= 16]
        cfgs = rng.sample(pool, min(3, len(pool)))
        for t in range(0, 32 if light() else SWEEP_N):
            bs, w = cfgs[t % len(cfgs)]
            key = rb(rng, 16)
            iv, cls = stream_iv(rng, mode, bs, key)
            c = Case("stream", mode, bs, w, key, iv, cls_iv=cls, cls_sweep=1)
            if rng.random() < 0.4:
                c.ops.append(f"apply {hx(rb(rng, rng.randrange(0, 2 * bs)))}")
            c.ops += [f"seek u64 {t * bs + (rng.randrange(0, bs) if rng.random() < 0.5 else 0)}", f"apply {hx(rb(rng, bs + 1))}", "pos u128"]
            cases.append(c)
    res = ctx.run(cases)
    # reported positions and outcome kinds: absolute (the byte position is tracked from the requested seeks);
    # bytes produced after a seek: compared with the implementation's OWN keystream at that offset, obtained
    # independently of the wrapper's seek logic by positioning a fresh core at the block (`set_block_pos`)
    ctx.check_absolute(cases, res, project=kinds_only)
    want = []          # (case, op index, q, data, out)
    for c in cases:
        h = res["H"][c.cid]
        if h is None:
            continue
        q = 0
        for i, op in enumerate(c.ops):
            t = op.split()
            if i >= len(h):
                break
            if t[0] == "seek" and h[i] == "ok":
                q = int(t[2])
            elif t[0] == "apply" and h[i].startswith("out "):
                data = unhx(t[1])
                if data:
                    want.append((c, i, q, data, payload(h[i])))
                q += len(data)
    refs = []
    for (c, i, q, data, out) in want:
        b0, b1 = q // c.bs, (q + len(data) - 1) // c.bs
        refs.append(Case("core", c.mode, c.bs, c.w, c.key, c.iv, ops=[f"setpos {b0}", f"ksblocks {b1 - b0 + 1}"]))
    r2 = ctx.run(refs, layers=())
    for (c, i, q, data, out), rc in zip(want, refs):
        hr = r2["H"][rc.cid]
        if hr is None or len(hr) < 2 or not hr[1].startswith("out "):
            continue
        ksb = payload(hr[1])
        off = q - (q // c.bs) * c.bs
        exp = xor(data, ksb[off:off + len(data)])
        if exp != out:
            ctx.violation("predicate", f"{c.mode} bs={c.bs} w={c.w}: bytes produced at offset {q} (op {i}, after seeking) are not bytes {q}.. of the keystream the core generates at that position",
                          [c, rc], {"H": res["H"][c.cid], "H_core": hr})


def exhaust_case(rng, mode):
    bs, w = pick_matrix(rng, mode)
    key = rb(rng, 16)
    iv, cls = stream_iv(rng, mode, bs, key)
    c = Case("stream", mode, bs, w, key, iv, cls_iv=cls)
    limb = limit_blocks(mode)
    lim = limb * bs
    wbits = counter_bits(mode)
    j = rng.randrange(0, 4)
    how = rng.choice(["fromcore", "seek", "seek-in", "seek-last", "seek-beyond"])
    if wbits == 128 and how in ("seek-last", "seek-beyond"):
        how = "fromcore"          # byte positions of 128-bit counters do not fit any seek type
    if how == "fromcore":
        c.ops.append(f"fromcore {limb - j}")
        q = (limb - j) * bs
    elif how == "seek":
        q = (limb - j) * bs
        if q > SN_MAX["u128"]:
            c.ops.append(f"fromcore {limb - j}")
        else:
            c.ops.append(f"seek {'u64' if q <= SN_MAX['u64'] and rng.random() < 0.5 else 'u128'} {q}")
    elif how == "seek-in":
        q = (limb - j) * bs - rng.randrange(0, bs)
        q = max(q, 0)
        if q > SN_MAX["u128"]:
            c.ops.append(f"fromcore {limb - j}")
            q = (limb - j) * bs
        else:
            c.ops.append(f"seek {'u64' if q <= SN_MAX['u64'] and rng.random() < 0.5 else 'u128'} {q}")
    elif how == "seek-last":
        # the never-to-be-produced block 2^w - 1 (finding F2 lives here)
        q = limb * bs + rng.randrange(0, bs)
        c.ops.append(f"seek u128 {q}")
    else:
        q = (limb + 1 + rng.randrange(0, 3)) * bs + rng.randrange(0, bs)
        c.ops.append(f"seek u128 {q}")
    c.meta["cls_place"] = how
    # hand out the first few keystream blocks first, so that a wrap-around back to them is a visible reuse
    c.ops.insert(0, f"apply {hx(rb(rng, rng.randrange(2, 5) * bs))}")
    remaining = max(0, lim - q)
    for _ in range(rng.randrange(1, 5)):
        r = rng.random()
        if r < 0.6:
            L = rng.choice([remaining, remaining + 1, max(0, remaining - 1), 1, 0, bs, rng.randrange(0, 5 * bs)])
            kind = "fits" if L <= remaining else "overflows"
            c.meta["cls_req_" + kind] = 1
            if rng.random() < 0.25:
                c.ops.append(f"applyb {hx(rb(rng, L))} {hx(rb_nz(rng, L))}")
            else:
                c.ops.append(f"apply {hx(rb(rng, L))}")
            if L <= remaining:
                remaining -= L
                q += L
        elif r < 0.8:
            c.ops.append("rem")
        else:
            c.ops.append("pos u128")
    c.ops.append("pos u128")
    c.ops.append("rem")
    return c


def sig_C11(c, i, hi, si):
    """signature of a failing history: the type family and the shape of the last seek before the failure."""
    wbits = counter_bits(c.mode)
    last = None
    if i is None:
        i = len(c.ops)
    for o in c.ops[: i + 1]:
        t = o.split()
        if t[0] == "seek":
            last = int(t[2])
        elif t[0] == "fromcore":
            last = None
    fam = "Ctr32*,Ctr64*" if c.mode in ("ctr32be", "ctr32le", "ctr64be", "ctr64le") else c.mode
    if last is not None and last // c.bs == 2**wbits - 1 and last % c.bs != 0:
        return f"{fam}/last-seek:block=2^w-1,byte!=0"
    return f"{fam}/other"


def run_C11(ctx):
    cases = []
    for mode in list(CTR_FLAVORS) + ["belt"]:
        for _ in range(ctx.n(110, 2000)):
            cases.append(exhaust_case(ctx.rng, mode))
    # cores: remaining_blocks exact
    for mode in list(CTR_FLAVORS) + ["belt"]:
        for _ in range(ctx.n(25, 300)):
            c = core_case(ctx.rng, mode, n_ops=3)
            limb = limit_blocks(mode)
            c.ops.insert(0, f"setpos {ctx.rng.choice([0, 1, limb - 40, limb - 2**20, ctx.rng.randrange(0, limb)])}")
            c.ops.append("rem")
            cases.append(c)
    res = ctx.run(cases)
    # outcome kinds (Ok iff the request fits), buffers and position after an error, remaining_blocks: absolute
    ctx.check_absolute(cases, res, sigfn=sig_C11, project=kinds_only)
    no_reuse(ctx, [c for c in cases if c.family == "stream"], res)
    far_reuse(ctx)
    # the same predicate over ordinary seek histories (backward seeks into blocks already produced, after requests of every size)
    hist = []
    for mode in list(CTR_FLAVORS) + ["belt"]:
        for _ in range(ctx.n(20, 300)):
            hist.append(seek_case(ctx.rng, mode))
        hist += seek_sweep_cases(ctx.rng, mode, SWEEP_N // 4)
    r2 = ctx.run(hist, layers=())
    ctx.no_panic(hist, r2)
    no_reuse(ctx, hist, r2, consistent=True)


def far_reuse(ctx):
    """no keystream block serves two positions — also not positions 2^32 or 2^64 blocks apart: a counter whose carry
    between its 32- or 64-bit halves is lost repeats exactly there.  Keystream is generated around the block positions at
    which the low 32 / 64 bits of the counter value roll over, and again one or more multiples of 2^32 / 2^64 away; all blocks
    obtained at distinct positions must be pairwise distinct (the block cipher is a permutation)."""
    rng = ctx.rng
    cases = []
    for mode in list(CTR_FLAVORS) + ["belt"]:
        wb = counter_bits(mode)
        hs = [h for h in (32, 64) if h < wb]
        if not hs:
            continue
        for _ in range(ctx.n(12, 150)):
            bs, w = pick_matrix(rng, mode, lambda x: x[0] >= 8)
            if bs < 4:
                continue
            key = rb(rng, 16)
            iv, cls = stream_iv(rng, mode, bs, key)
            if mode == "belt":
                first = int.from_bytes(toy_enc(key, iv), "little") + 1          # counter value of block position 0
            else:
                cs = wb // 8
                first = int.from_bytes(iv[-cs:], "big") if CTR_FLAVORS[mode][1] else int.from_bytes(iv[:cs], "little")
            h = rng.choice(hs)
            k = rng.choice([w, w + 1, 2 * w, 2 * w + 1, 3])
            limb = limit_blocks(mode)
            # block position at which the low h bits of the counter value become 0, minus a few blocks
            p0 = (-first) % (2 ** h)
            ps = []
            for m in sorted(set([0, 1, rng.randrange(0, 2 ** (wb - h))]))[:3]:
                p = p0 + m * 2 ** h - rng.randrange(0, k + 1)
                if 0 <= p and p + k < limb:
                    ps.append(p)
            if len(ps) < 2:
                continue
            c = Case("core", mode, bs, w, key, iv, cls_iv=cls, cls_far=f"h{h}", positions=ps, k=k)
            for p in ps:
                c.ops += [f"setpos {p}", ks_op(rng, k)]
            cases.append(c)
    # every entry point of a core that hands out keystream, mixed: consecutive positions must get pairwise distinct blocks
    mixed = []
    for mode in list(CTR_FLAVORS) + ["belt"]:
        for _ in range(ctx.n(10, 120)):
            bs, w = pick_matrix(rng, mode, lambda x: x[0] >= 8)
            if bs < 4:
                continue
            key = rb(rng, 16)
            iv, cls = stream_iv(rng, mode, bs, key)
            c = Case("core", mode, bs, w, key, iv, cls_iv=cls, cls_far="mixed", steps=[])
            pos = 0
            for _ in range(rng.randrange(2, 7)):
                r = rng.random()
                if r < 0.2:
                    c.ops.append("ksblock"); c.meta["steps"].append((pos, 1, None)); pos += 1
                elif r < 0.4:
                    x = rb(rng, bs)
                    c.ops.append(f"applyblock {hx(x)}" if rng.random() < 0.6 else f"applyblockb {hx(x)} {hx(rb_nz(rng, bs))}")
                    c.meta["steps"].append((pos, 1, x)); pos += 1
                elif r < 0.6:
                    k = nblocks_choice(rng, w, 2 * w + 1)
                    c.ops.append(ks_op(rng, k)); c.meta["steps"].append((pos, k, None)); pos += k
                else:
                    k = nblocks_choice(rng, w, 2 * w + 1)
                    x = rb(rng, k * bs)
                    c.ops.append(f"applyblocks {hx(x)}"); c.meta["steps"].append((pos, k, x)); pos += k
            mixed.append(c)
    if not cases and not mixed:
        return
    res = ctx.run(cases + mixed, layers=())
    ctx.no_panic(cases + mixed, res)
    for c in mixed:
        hh = res["H"][c.cid]
        if hh is None:
            continue
        seen, bad = {}, None
        for (pos, k, x), l in zip(c.meta["steps"], hh):
            if not l.startswith("out "):
                continue
            o = payload(l)
            ks = o if x is None else xor(o, x)
            for b in range(min(k, len(ks) // c.bs)):
                blk = ks[b * c.bs:(b + 1) * c.bs]
                for p2, k2 in seen.items():
                    if p2 != pos + b and k2 == blk:
                        bad = (p2, pos + b)
                seen[pos + b] = blk
        if bad:
            ctx.violation("predicate", f"{c.mode} bs={c.bs} w={c.w}: the keystream block of block position {bad[0]} is used again at block position {bad[1]}", [c], {"H": hh})
    for c in cases:
        hh = res["H"][c.cid]
        if hh is None:
            continue
        seen = {}
        bad = None
        for idx, p in enumerate(c.meta["positions"]):
            l = hh[2 * idx + 1] if 2 * idx + 1 < len(hh) else ""
            if not l.startswith("out "):
                continue
            ks = payload(l)
            for b in range(len(ks) // c.bs):
                blk = ks[b * c.bs:(b + 1) * c.bs]
                pos = p + b
                for p2, k2 in seen.items():
                    if p2 != pos and k2 == blk:
                        bad = (p2, pos)
                    if p2 == pos and k2 != blk:
                        bad = (p2, pos)
                seen[pos] = blk
        if bad:
            ctx.violation("predicate", f"{c.mode} bs={c.bs} w={c.w}: the keystream block of block position {bad[0]} is handed out again at block position {bad[1]}"
                          if bad[0] != bad[1] else f"{c.mode} bs={c.bs} w={c.w}: block position {bad[0]} gives two different keystream blocks", [c], {"H": hh})


def no_reuse(ctx, cases, res, consistent=False):
    """the property itself: within one instance's history, keystream handed out at two different block
    positions must differ (keystream = output xor input, positions tracked from the requested seeks)."""
    for c in cases:
        h = res["H"][c.cid]
        if h is None:
            continue
        bs, q = c.bs, 0
        seen = {}          # block index -> keystream block
        for i, op in enumerate(c.ops):
            t = op.split()
            if i >= len(h):
                break
            if t[0] == "seek" and h[i] == "ok":
                q = int(t[2])
            elif t[0] == "fromcore" and h[i] == "ok":
                q = int(t[1]) * bs
            elif t[0] in ("apply", "applyb") and h[i].startswith("out "):
                data, out = unhx(t[1]), payload(h[i])
                ks = xor(data, out)
                for b in range((q + bs - 1) // bs, (q + len(data)) // bs):
                    blk = ks[b * bs - q:(b + 1) * bs - q]
                    if consistent and b in seen and seen[b] != blk and bs >= 1:
                        ctx.violation("predicate", f"{c.mode} bs={bs}: block position {b} is served with two different keystream blocks within one history (one of them belongs to another position)",
                                      [c], {"H": h}, sig=sig_C11(c, i, None, None))
                        break
                    for b2, k2 in seen.items():
                        if b2 != b and k2 == blk and bs >= 4:
                            ctx.violation("predicate", f"{c.mode} bs={bs}: keystream block handed out at block position {b2} is used again at block position {b} without an error",
                                          [c], {"H": h}, sig=sig_C11(c, i, None, None))
                            break
                    else:
                        seen[b] = blk
                        continue
                    break
                q += len(data)


def run_C13(ctx):
    rng = ctx.rng
    cases = []
    # CTS: short inputs rejected, everything else accepted
    for mode in CTS_MODES:
        for (bs, w) in MATRIX:
            key, iv = rb(rng, 16), rb(rng, ivlen(mode, bs))
            c = Case("cts", mode, bs, w, key, iv, cls_kind="cts-short")
            ls = sorted(set([0, 1, bs // 2, bs - 1, bs, bs + 1, 2 * bs] + [rng.randrange(0, bs) for _ in range(2)]))
            for L in ls:
                op = rng.choice(["enc", "dec", "encb", "decb", "encio", "decio", "enciob", "deciob"])
                if op.endswith("b"):
                    c.ops.append(f"{op} {hx(rb(rng, L))} {hx(rb_nz(rng, L))}")
                else:
                    c.ops.append(f"{op} {hx(rb(rng, L))}")
            # unequal b2b lengths
            for _ in range(2):
                L, L2 = rng.randrange(0, 3 * bs + 1), rng.randrange(0, 3 * bs + 1)
                if L != L2:
                    c.ops.append(f"{rng.choice(['encb', 'decb'])} {hx(rb(rng, L))} {hx(rb_nz(rng, L2))}")
            c.ops.append(f"newslice 16 {ivlen(mode, bs)}")
            for _ in range(2):
                kl = rng.choice([0, 15, 16, 16, 16, 17, 32])
                il = rng.choice([0, 1, bs // 2, bs - 1, bs, bs + 1, 2 * bs]) if not mode.startswith("ecb") else 0
                c.ops.append(f"newslice {kl} {il}")
            cases.append(c)
    # cores: the consuming `try_apply_keystream_partial` at and next to the end of the keystream — Ok or Err, never a panic, and a
    # rejected call leaves the caller's buffer as it was (the harness reports `errmod` otherwise)
    partial_cases = []
    for mode in list(CTR_FLAVORS) + ["belt"]:
        for _ in range(ctx.n(10, 120)):
            bs, w = pick_matrix(rng, mode)
            key = rb(rng, 16)
            iv, cls = stream_iv(rng, mode, bs, key)
            limb = limit_blocks(mode)
            q = rng.randrange(0, 2 * w + 3)
            c = Case("core", mode, bs, w, key, iv, cls_kind="core-partial-limit")
            c.ops.append(f"setpos {limb - q}")
            nfull = rng.choice([q, q, max(q - 1, 0), q + 1, rng.randrange(0, 2 * w + 3)])
            L = nfull * bs + rng.choice([0, 1, bs - 1, rng.randrange(0, bs)])
            c.ops.append(f"partial {hx(rb(rng, L))}" if rng.random() < 0.5 else f"partialb {hx(rb(rng, L))} {hx(rb_nz(rng, L))}")
            c.ops.append("rem")
            partial_cases.append(c)
    cases += partial_cases
    # block modes: unequal b2b, padded decrypt of a non-multiple, slice constructors, zero-length messages
    for mode in BLOCK_MODES:
        for _ in range(ctx.n(12, 150)):
            bs, w = pick_matrix(rng, mode)
            mbs = mode_bs(mode, bs)
            key, iv = rb(rng, 16), rb(rng, ivlen(mode, bs))
            c = Case("block", mode, bs, w, key, iv, cls_kind="block-contract")
            c.ops.append("blocks -")
            c.ops.append("blocksb - -")
            for _ in range(2):
                a, b = rng.randrange(0, 4), rng.randrange(0, 4)
                c.ops.append(f"blocksb {hx(rb(rng, a * mbs))} {hx(rb_nz(rng, b * mbs))}")
            if mode.endswith("dec"):
                for L in [0, 1, mbs - 1, mbs + 1, 2 * mbs, 2 * mbs + 1, 3 * mbs]:
                    c.ops.append(f"paddec {hx(rb(rng, max(L, 0)))}")
            else:
                c.ops.append("padenc -")
            if mode.startswith("cfb"):
                c.ops.append("oneshot -")
                a, b = rng.randrange(0, 3 * bs), rng.randrange(0, 3 * bs)
                c.ops.append(f"oneshotb {hx(rb(rng, a))} {hx(rb_nz(rng, b))}")
            il0 = ivlen(mode, bs)
            c.ops.append(f"newslice 16 {il0}")
            for _ in range(3):
                c.ops.append(f"newslice {rng.choice([0, 1, 15, 16, 16, 16, 16, 17, 24, 32])} "
                             f"{rng.choice([0, 1, bs // 2, bs - 1, bs, bs + 1, 2 * bs - 1, 2 * bs, 2 * bs + 1, 3 * bs, il0])}")
            c.ops.append(f"block {hx(rb(rng, mbs))}")
            c.ops.append("ivstate")
            cases.append(c)
    # buffered CFB: every length incl. 0, valid exported states
    for mode in ["cfbbuf-enc", "cfbbuf-dec"]:
        for _ in range(ctx.n(40, 500)):
            c = buf_case(rng, mode)
            c.ops.insert(0, "data -")
            c.meta["cls_kind"] = "buf"
            cases.append(c)
    # stream ciphers: zero-length, unequal b2b, all counter positions
    for mode in STREAM_MODES:
        for _ in range(ctx.n(15, 200)):
            c = stream_case(rng, mode, seeks=True)
            c.ops.insert(0, "apply -")
            a, b = rng.randrange(0, 40), rng.randrange(0, 40)
            if a != b:
                c.ops.append(f"applyb {hx(rb(rng, a))} {hx(rb_nz(rng, b))}")
            c.meta["cls_kind"] = "stream"
            cases.append(c)
        if mode != "ofb":
            for _ in range(ctx.n(10, 150)):
                c = exhaust_case(rng, mode)
                # F2 territory belongs to C11; C13 only looks at contract errors and panics
                if c.meta.get("cls_place") in ("seek-last", "seek-beyond"):
                    continue
                c.meta["cls_kind"] = "stream-limit"
                cases.append(c)
    res = ctx.run(cases)
    # C13 speaks about outcomes (ok / err / panic) and about buffers after an error, not about the bytes produced;
    # near the keystream limit the ok/err decision belongs to C11: there C13 only demands "no panic"
    lim = [c for c in cases if c.meta.get("cls_kind") == "stream-limit"]
    ctx.check_absolute([c for c in cases if c.meta.get("cls_kind") != "stream-limit"], res, project=kinds_only)
    ctx.no_panic(lim, res)
