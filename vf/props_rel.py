"""Relational properties: only the residual of the relation, computed from the implementation's own
outputs, can alarm.  C01 C07 C08 C09 C12 C14 C15 C16 (C17 in props_c17.py)."""
from .common import *
from .gens import *
from .ctx import *
from .props_abs import buf_case, stream_case, core_case


def enc_ops_for_path(rng, path, mbs, w, data):
    """ops that feed `data` (a multiple of mbs unless path is oneshot/padded) through one API path."""
    n = len(data) // mbs if mbs else 0
    ops = []
    if path == "block":
        for i in range(n):
            ops.append(f"block {hx(data[i*mbs:(i+1)*mbs])}")
    elif path == "blockb":
        for i in range(n):
            ops.append(f"blockb {hx(data[i*mbs:(i+1)*mbs])} {hx(rb_nz(rng, mbs))}")
    elif path == "blocks":
        ops.append(f"blocks {hx(data)}")
    elif path == "blocksb":
        ops.append(f"blocksb {hx(data)} {hx(rb_nz(rng, len(data)))}")
    elif path == "mixed":
        i = 0
        for k in random_composition(rng, n, zero_p=0.1, bias=[1, w, w + 1]):
            seg = data[i*mbs:(i+k)*mbs]
            i += k
            r = rng.random()
            if k == 1 and r < 0.5:
                ops.append(f"block {hx(seg)}" if r < 0.25 else f"blockb {hx(seg)} {hx(rb_nz(rng, mbs))}")
            else:
                ops.append(blocks_op(rng, seg) if r < 0.75 else f"blocksb {hx(seg)} {hx(rb_nz(rng, len(seg)))}")
    elif path == "oneshot":
        ops.append(f"oneshot {hx(data)}")
    elif path == "oneshotb":
        ops.append(f"oneshotb {hx(data)} {hx(rb_nz(rng, len(data)))}")
    elif path == "padenc":
        ops.append(f"padenc {hx(data)}")
    elif path == "paddec":
        ops.append(f"paddec {hx(data)}")
    return ops


BLOCK_PATHS = ["block", "blockb", "blocks", "blocksb", "mixed"]


def run_C01(ctx):
    rng = ctx.rng
    p1, plan = [], []
    # block modes: enc path x dec path
    for fam in ["cbc", "pcbc", "ige", "cfb", "cfb8", "ofb"]:
        for _ in range(ctx.n(40, 700)):
            bs, w = pick_matrix(rng, fam + "-enc")
            mbs = mode_bs(fam + "-enc", bs)
            key, iv = rb(rng, 16), rb(rng, ivlen(fam + "-enc", bs))
            paths = list(BLOCK_PATHS) + ["padded"]
            if fam in ("cfb", "cfb8"):
                paths += ["oneshot", "oneshotb"]
            ep = rng.choice(paths)
            if ep == "padded":
                m = rb(rng, rng.choice([0, 1, mbs - 1, mbs, mbs + 1, rng.randrange(0, 5 * mbs + 1)]) if mbs > 1 else rng.randrange(0, 6))
                c = Case("block", fam + "-enc", bs, w, key, iv, ops=enc_ops_for_path(rng, "padenc", mbs, w, m))
                plan.append((c, m, "paddec"))
            elif ep.startswith("oneshot"):
                m = rb(rng, rng.choice([0, 1, bs - 1, bs, bs + 1, rng.randrange(0, 5 * bs + 1)]))
                c = Case("block", fam + "-enc", bs, w, key, iv, ops=enc_ops_for_path(rng, ep, mbs, w, m))
                plan.append((c, m, rng.choice(["oneshot", "oneshotb"] + (["buf"] if fam == "cfb" else []))))
            else:
                nb = nblocks_choice(rng, w, 3 * w + 2) if mbs > 1 else rng.randrange(0, 3 * bs + 3)
                m = rb(rng, nb * mbs)
                c = Case("block", fam + "-enc", bs, w, key, iv, ops=enc_ops_for_path(rng, ep, mbs, w, m))
                plan.append((c, m, rng.choice(BLOCK_PATHS)))
            c.meta["cls_encpath"] = ep
            p1.append(c)
    # buffered CFB, byte streams, CTS
    for _ in range(ctx.n(60, 800)):
        c = buf_case(rng, "cfbbuf-enc")
        c.ops = [o for o in c.ops if o.startswith("data")]
        m = b"".join(unhx(o.split()[1]) for o in c.ops)
        plan.append((c, m, rng.choice(["buf", "buf", "oneshot"])))
        p1.append(c)
    for mode in STREAM_MODES:
        for _ in range(ctx.n(20, 300)):
            c = stream_case(rng, mode, seeks=False)
            c.ops = [o for o in c.ops if o.startswith("apply")]
            m = b"".join(unhx(o.split()[1]) for o in c.ops)
            plan.append((c, m, "stream"))
            p1.append(c)
    for mode in CTS_MODES:
        for _ in range(ctx.n(30, 500)):
            bs, w = pick_matrix(rng, "cbc-enc")
            key, iv = rb(rng, 16), rb(rng, ivlen(mode, bs))
            L = rng.choice([bs, bs + 1, 2 * bs - 1, 2 * bs, 2 * bs + 1, (2 * w + 1) * bs + 1, (3 * w + 1) * bs + bs // 2,
                            rng.randrange(bs, (3 * w + 2) * bs + 1)])
            m = rb(rng, L)
            ops = [f"enc {hx(m)}"] if rng.random() < 0.5 else [f"encb {hx(m)} {hx(rb_nz(rng, L))}"]
            c = Case("cts", mode, bs, w, key, iv, ops=ops)
            plan.append((c, m, "cts"))
            p1.append(c)
    r1 = ctx.run(p1, layers=())
    ctx.no_panic(p1, r1)
    p2, back = [], []
    for (c, m, dp) in plan:
        h = r1["H"][c.cid]
        if h is None or any(not l.startswith("out ") for l in h):
            continue
        ct = outs(h)
        unpadded = not (c.ops and c.ops[0].startswith("padenc"))
        if unpadded and len(ct) != len(m):
            ctx.violation("predicate", f"unpadded encryption of {len(m)} bytes produced {len(ct)} bytes", [c], {"H": h})
            continue
        if c.family == "block":
            fam = c.mode[:-4]
            mbs = mode_bs(c.mode, c.bs)
            if dp == "buf":
                d = Case("buf", "cfbbuf-dec", c.bs, c.w, c.key, c.iv)
                i = 0
                for k in random_composition(rng, len(ct)):
                    d.ops.append(f"data {hx(ct[i:i+k])}")
                    i += k
                    if rng.random() < 0.15:
                        d.ops.append("restate")          # get_state / from_state at an offset the encrypting side never exported at
            else:
                d = Case("block", fam + "-dec", c.bs, c.w, c.key, c.iv, ops=enc_ops_for_path(rng, dp, mbs, c.w, ct))
        elif c.family == "buf":
            if dp == "oneshot":
                d = Case("block", "cfb-dec", c.bs, c.w, c.key, c.iv, ops=[f"oneshot {hx(ct)}"])
            else:
                d = Case("buf", "cfbbuf-dec", c.bs, c.w, c.key, c.iv)
                i = 0
                for k in random_composition(rng, len(ct), bias=[1, c.bs]):
                    d.ops.append(f"data {hx(ct[i:i+k])}")
                    i += k
                    if rng.random() < 0.15:
                        d.ops.append("restate")
        elif c.family == "stream":
            d = Case("stream", c.mode, c.bs, c.w, c.key, c.iv)
            i = 0
            for k in random_composition(rng, len(ct), bias=[1, c.bs]):
                d.ops.append(f"apply {hx(ct[i:i+k])}")
                i += k
        else:
            d = Case("cts", c.mode, c.bs, c.w, c.key, c.iv,
                     ops=[f"dec {hx(ct)}"] if rng.random() < 0.5 else [f"decb {hx(ct)} {hx(rb_nz(rng, len(ct)))}"])
        d.meta["cls_decpath"] = dp
        p2.append(d)
        back.append((c, d, m))
    r2 = ctx.run(p2, layers=())
    ctx.no_panic(p2, r2)
    for (c, d, m) in back:
        h = r2["H"][d.cid]
        if h is None:
            continue
        if any(not l.startswith("out ") and not (l == "ok" and i < len(d.ops) and d.ops[i] == "restate") for i, l in enumerate(h)):
            ctx.violation("predicate", f"decryption of the implementation's own ciphertext failed: {h}", [c, d], {"H": h})
            continue
        pt = outs(h)
        if pt != m:
            ctx.violation("predicate", f"dec(enc(m)) != m for |m|={len(m)} ({c.mode} via {c.meta.get('cls_encpath','-')} -> {d.mode} via {d.meta.get('cls_decpath')})",
                          [c, d], {"H_enc": r1["H"][c.cid], "H_dec": h, "m": hx(m)})


SWEEP_T = 512
SWEEP_T_THOROUGH = 1100


WIDTHS = {1: [1, 4], 2: [3, 5], 4: [1, 4, 8], 8: [1, 3], 16: [1, 2, 3, 8]}
# backends wider than the block size, and wider than anything a byte can index (one case in seven uses these)
WIDTHS_WIDE = {4: [1, 12, 260], 8: [3, 20], 16: [2, 16, 256]}


def width_table(rng, bs):
    return WIDTHS_WIDE if (bs in WIDTHS_WIDE and rng.randrange(7) == 0) else WIDTHS


def width_variants(bs, w, table=None):
    return [(bs, ww) for ww in (table or WIDTHS).get(bs, [w])]


def final_state_op(family):
    return {"block": "ivstate", "core": "ivstate"}.get(family)


def run_C07(ctx):
    rng = ctx.rng
    groups = []
    allc = []
    # block modes
    for mode in BLOCK_MODES:
        for _ in range(ctx.n(14, 200)):
            bs, w = pick_matrix(rng, mode, lambda x: x[0] in WIDTHS)
            mbs = mode_bs(mode, bs)
            key, iv = rb(rng, 16), rb(rng, ivlen(mode, bs))
            wt = width_table(rng, bs)
            wmax = max(ww for _, ww in width_variants(bs, w, wt))
            n = rng.choice([wmax + 1, 2 * wmax + 1, 2 * wmax - 1, rng.randrange(0, 3 * wmax + 2)]) if mbs > 1 else rng.randrange(0, 2 * bs + 3)
            data = rb(rng, n * mbs)
            g = []
            ref = Case("block", mode, bs, width_variants(bs, w, wt)[0][1], key, iv, ops=enc_ops_for_path(rng, "block", mbs, w, data) + ["ivstate"], role="ref")
            g.append(ref)
            for (_, ww) in width_variants(bs, w, wt):
                for path in (["blocks", "mixed", "mixed"] if ctx.thorough else ["blocks", "mixed"]):
                    g.append(Case("block", mode, bs, ww, key, iv, ops=enc_ops_for_path(rng, path, mbs, ww, data) + ["ivstate"], role=path))
            groups.append(g)
            allc += g
    # small-scope exhaustive: all compositions of n <= 6 (8 thorough) blocks for the modes with hand-written par bodies
    nmax = ctx.n(5, 8)
    for mode in ["cbc-dec", "cfb-dec"]:
        bs = 16
        key, iv = rb(rng, 16), rb(rng, 16)
        for n in range(0, nmax + 1):
            data = rb(rng, n * bs)
            g = [Case("block", mode, bs, 1, key, iv, ops=enc_ops_for_path(rng, "block", bs, 1, data) + ["ivstate"], role="ref")]
            for comp in compositions(n):
                ops, i = [], 0
                for k in comp:
                    ops.append(f"blocks {hx(data[i*bs:(i+k)*bs])}")
                    i += k
                for ww in ([2, 3] if not ctx.thorough else [2, 3, 8]):
                    g.append(Case("block", mode, bs, ww, key, iv, ops=ops + ["ivstate"], role="exh"))
                # the same composition with every piece through a caller-written `*_with_backend` closure
                i2, ops2 = 0, []
                for k in comp:
                    ops2.append(f"backend {rng.randrange(0, 5)} {hx(data[i2*bs:(i2+k)*bs])}")
                    i2 += k
                g.append(Case("block", mode, bs, rng.choice([2, 3]), key, iv, ops=ops2 + ["ivstate"], role="exh-backend"))
            groups.append(g)
            allc += g
    # keystream cores: applyblocks / ksblocks under any partition and width
    for mode in list(CTR_FLAVORS) + ["belt", "ofb"]:
        for _ in range(ctx.n(10, 150)):
            bs, w = pick_matrix(rng, mode, lambda x: x[0] in WIDTHS)
            key = rb(rng, 16)
            iv, _ = stream_iv(rng, mode, bs, key)
            wt = width_table(rng, bs)
            wmax = max(ww for _, ww in width_variants(bs, w, wt))
            n = rng.choice([wmax + 1, 2 * wmax + 1, rng.randrange(0, 3 * wmax + 2)])
            data = rb(rng, n * bs)
            g = [Case("core", mode, bs, width_variants(bs, w, wt)[0][1], key, iv,
                      ops=[f"applyblocks {hx(data[i*bs:(i+1)*bs])}" for i in range(n)] + ["ivstate"], role="ref")]
            for (_, ww) in width_variants(bs, w, wt):
                ops, i = [], 0
                for k in random_composition(rng, n, zero_p=0.1, bias=[1, ww, ww + 1]):
                    ops.append(coreapply_op(rng, data[i*bs:(i+k)*bs], bs))
                    i += k
                g.append(Case("core", mode, bs, ww, key, iv, ops=ops + ["ivstate"], role="parts"))
            groups.append(g)
            allc += g
    # cts one-shot calls with long messages: widths only
    for mode in CTS_MODES:
        for _ in range(ctx.n(10, 150)):
            bs = rng.choice(list(WIDTHS))
            wt = width_table(rng, bs)
            key, iv = rb(rng, 16), rb(rng, ivlen(mode, bs))
            wmax = max(wt[bs])
            L = rng.randrange(bs, (2 * wmax + 3) * bs + 1)
            data = rb(rng, L)
            op = rng.choice(["enc", "dec"])
            g = [Case("cts", mode, bs, ww, key, iv, ops=[f"{op} {hx(data)}"], role="w") for ww in wt[bs]]
            groups.append(g)
            allc += g
    res = ctx.run(allc, layers=())
    ctx.no_panic(allc, res)
    for g in groups:
        ref = g[0]
        hr = res["H"][ref.cid]
        if hr is None:
            continue
        ro = outs(hr)
        rs = [l for l in hr if l.startswith("state ")]
        for c in g[1:]:
            h = res["H"][c.cid]
            if h is None:
                continue
            if outs(h) != ro:
                ctx.violation("predicate", f"{c.mode} bs={c.bs}: output under w={c.w}, calls {[o.split()[0] + ':' + str(len(o.split()[1])//2) for o in c.ops if ' ' in o]} differs from one block at a time (w={ref.w})",
                              [ref, c], {"H_ref": hr, "H": h})
                break
            if [l for l in h if l.startswith("state ")] != rs:
                ctx.violation("predicate", f"{c.mode} bs={c.bs}: final chaining state under w={c.w} differs from one block at a time",
                              [ref, c], {"H_ref": hr, "H": h})
                break


def run_C08(ctx):
    rng = ctx.rng
    groups, allc = [], []

    def pieces_case(family, mode, bs, w, key, iv, data, comp, op):
        c = Case(family, mode, bs, w, key, iv, role="pieces")
        i = 0
        for k in comp:
            c.ops.append(f"{op} {hx(data[i:i+k])}")
            i += k
        return c
    # exhaustive compositions (with an empty piece inserted at a random place) for small block sizes
    small = [("buf", "cfbbuf-enc", "data"), ("buf", "cfbbuf-dec", "data"), ("stream", "ofb", "apply")]
    for (fam, mode, op) in small:
        for (bs, w) in [(1, 1), (2, 3), (3, 2)] + ([(4, 4)] if ctx.thorough else []):
            key, iv = rb(rng, 16), rb(rng, bs)
            L = {1: 5, 2: 8, 3: 9, 4: 11}[bs] if not ctx.thorough else {1: 6, 2: 8, 3: 11, 4: 13}[bs]
            data = rb(rng, L)
            g = [Case(fam, mode, bs, w, key, iv, ops=[f"{op} {hx(data)}"], role="whole")]
            for comp in compositions(L):
                comp = list(comp)
                comp.insert(rng.randrange(0, len(comp) + 1), 0)
                g.append(pieces_case(fam, mode, bs, w, key, iv, data, comp, op))
            groups.append(g)
            allc += g
    # ctr32 with bs=4: exhaustive too
    for mode in ["ctr32be", "ctr32le"]:
        key = rb(rng, 16)
        iv, _ = ctr_iv(rng, mode, 4)
        data = rb(rng, 10 if not ctx.thorough else 13)
        g = [Case("stream", mode, 4, 4, key, iv, ops=[f"apply {hx(data)}"], role="whole")]
        for comp in compositions(len(data)):
            g.append(pieces_case("stream", mode, 4, 4, key, iv, data, comp, "apply"))
        groups.append(g)
        allc += g
    # random compositions beyond
    for mode in STREAM_MODES + ["cfbbuf-enc", "cfbbuf-dec"]:
        fam = "buf" if mode.startswith("cfbbuf") else "stream"
        op = "data" if fam == "buf" else "apply"
        for _ in range(ctx.n(25, 400)):
            bs, w = pick_matrix(rng, mode if fam == "stream" else "cbc-enc")
            key = rb(rng, 16)
            iv = stream_iv(rng, mode, bs, key)[0] if fam == "stream" else rb(rng, bs)
            L = rng.choice([0, 1, bs, 2 * bs + 1, rng.randrange(0, (2 * w + 3) * bs + 1)])
            data = rb(rng, L)
            g = [Case(fam, mode, bs, w, key, iv, ops=[f"{op} {hx(data)}"], role="whole")]
            for _ in range(3):
                g.append(pieces_case(fam, mode, bs, w, key, iv, data, random_composition(rng, L, bias=[1, bs - 1, bs, bs + 1, w * bs]), op))
            if fam == "stream":
                c = Case(fam, mode, bs, w, key, iv, role="pieces-b2b")
                i = 0
                for k in random_composition(rng, L, bias=[1, bs]):
                    c.ops.append(f"applyb {hx(data[i:i+k])} {hx(rb_nz(rng, k))}")
                    i += k
                g.append(c)
            groups.append(g)
            allc += g
    # long pieces: a call that starts inside a block and still contains many whole blocks (batched fast paths), and a
    # long call after a block-aligned one
    for mode in STREAM_MODES + ["cfbbuf-enc", "cfbbuf-dec"]:
        fam = "buf" if mode.startswith("cfbbuf") else "stream"
        op = "data" if fam == "buf" else "apply"
        for _ in range(ctx.n(12, 150)):
            bs, w = pick_matrix(rng, mode if fam == "stream" else "cbc-enc")
            if bs > 64:
                continue
            key = rb(rng, 16)
            iv = stream_iv(rng, mode, bs, key)[0] if fam == "stream" else rb(rng, bs)
            nb = rng.randrange(9, 9 + 2 * max(w, 8) + 2)
            L = nb * bs + rng.randrange(0, bs)
            data = rb(rng, L)
            g = [Case(fam, mode, bs, w, key, iv, ops=[f"{op} {hx(data)}"], role="whole")]
            j = rng.choice([1, max(bs - 1, 0), bs + 1, rng.randrange(0, 2 * bs + 1)])
            for comp in ([j, L - j], [bs, L - bs], [j, 0, L - j - 1, 1] if L - j - 1 >= 0 else [L],
                         [rng.randrange(0, bs + 1), L // 2, L - L // 2 - 0]):
                comp = [k for k in comp]
                tot = sum(comp)
                if tot != L:
                    comp[-1] += L - tot
                if min(comp) < 0:
                    continue
                g.append(pieces_case(fam, mode, bs, w, key, iv, data, comp, op))
            groups.append(g)
            allc += g
    # pieces whose whole-block part is exactly 64 / 128 / 256 / 512 blocks (or one off), ending on a block boundary or not, followed by
    # more data: look-ahead buffers and batch loops with a fixed batch size show at their batch boundaries
    for mode in STREAM_MODES + ["cfbbuf-enc", "cfbbuf-dec"]:
        fam = "buf" if mode.startswith("cfbbuf") else "stream"
        op = "data" if fam == "buf" else "apply"
        for _ in range(ctx.n(10, 60)):
            bs, w = small_matrix(rng, mode if fam == "stream" else "cbc-enc", 16)
            key = rb(rng, 16)
            iv = stream_iv(rng, mode, bs, key)[0] if fam == "stream" else rb(rng, bs)
            nb = rng.choice([64, 128, 128, 256, 512]) * rng.choice([1, 1, 2]) + rng.choice([-1, 0, 0, 0, 0, 1])
            head = rng.choice([0, 0, rng.randrange(0, bs)])
            tail = rng.choice([0, 0, rng.randrange(0, bs)])
            after = rng.randrange(1, 2 * bs + 2)
            big = (bs - head) % bs + nb * bs + tail if head else nb * bs + tail
            L = head + big + after
            data = rb(rng, L)
            g = [Case(fam, mode, bs, w, key, iv, ops=[f"{op} {hx(data)}"], role="whole", cls_long=str(nb))]
            comp = [k for k in (head, big, after) if True]
            g.append(pieces_case(fam, mode, bs, w, key, iv, data, comp, op))
            g.append(pieces_case(fam, mode, bs, w, key, iv, data, [head + big, after], op))
            groups.append(g)
            allc += g
    # prefix preservation of the one-shot CFB / CFB-8 (CFB-8: the mode's blocks are bytes, so a backend wider than the
    # cipher's block size in bytes is a configuration of its own)
    pref = []
    for mode in ["cfb-enc", "cfb-dec", "cfb8-enc", "cfb8-dec"]:
        for _ in range(ctx.n(40, 500)):
            bs, w = pick_matrix(rng, mode, (lambda x: x[1] > x[0]) if mode.startswith("cfb8") else None)
            key, iv = rb(rng, 16), rb(rng, bs)
            L = rng.choice([0, 1, bs - 1, bs, bs + 1, w - 1, w, w + 1, rng.randrange(0, 4 * bs + 1), rng.randrange(0, 2 * w + 2)])
            L = max(L, 0)
            m = rb(rng, L)
            ext = rb(rng, rng.choice([1, bs - 1, bs, bs + 1, w, rng.randrange(1, 3 * bs + 2), rng.randrange(1, 2 * w + 2)]) or 1)
            c = Case("block", mode, bs, w, key, iv, ops=[f"oneshot {hx(m)}", f"oneshot {hx(m + ext)}",
                                                           f"oneshotb {hx(m + ext)} {hx(rb_nz(rng, L + len(ext)))}"], role="prefix")
            pref.append(c)
            allc.append(c)
    res = ctx.run(allc, layers=())
    ctx.exhaustive = False
    ctx.no_panic(allc, res)
    for g in groups:
        hr = res["H"][g[0].cid]
        if hr is None:
            continue
        ro = outs(hr)
        for c in g[1:]:
            h = res["H"][c.cid]
            if h is None:
                continue
            if any(not l.startswith("out ") for l in h) or outs(h) != ro:
                ctx.violation("predicate", f"{c.mode} bs={c.bs} w={c.w}: pieces {[len(o.split()[1])//2 if o.split()[1] != '-' else 0 for o in c.ops]} give different bytes than one call on the whole string",
                              [g[0], c], {"H_whole": hr, "H_pieces": h})
                break
    for c in pref:
        h = res["H"][c.cid]
        if h is None or len(h) < 3:
            continue
        a, b, b2 = payload(h[0]), payload(h[1]), payload(h[2])
        if b[: len(a)] != a or b2[: len(a)] != a:
            ctx.violation("predicate", f"{c.mode} bs={c.bs}: one-shot output of a message is not a prefix of the output of its extension", [c], {"H": h})


def run_C09(ctx):
    rng = ctx.rng
    groups, allc, abs_cases = [], [], []
    # (a) resume at every block boundary + (b) ivstate is the public chaining value (vs spec)
    for mode in BLOCK_MODES:
        for _ in range(ctx.n(10, 150)):
            bs, w = pick_matrix(rng, mode)
            mbs = mode_bs(mode, bs)
            key, iv = rb(rng, 16), rb(rng, ivlen(mode, bs))
            n = rng.randrange(1, 2 * w + 3) if mbs > 1 else rng.randrange(1, 2 * bs + 3)
            data = rb(rng, n * mbs)
            whole = Case("block", mode, bs, w, key, iv, ops=[f"blocks {hx(data)}", "ivstate"], role="whole")
            g = [whole]
            cuts = range(0, n + 1) if n <= 8 or ctx.thorough else sorted(set([0, 1, n - 1, n] + [rng.randrange(0, n + 1) for _ in range(3)]))
            for k in cuts:
                g.append(Case("block", mode, bs, w, key, iv,
                              ops=[(blocks_op(rng, data[:k*mbs]) if rng.random() < 0.6 else f"blocksb {hx(data[:k*mbs])} {hx(rb_nz(rng, k*mbs))}"),
                                   "ivstate", "reinit", f"blocks {hx(data[k*mbs:])}", "ivstate"], role="cut"))
            groups.append(g)
            allc += g
            abs_cases += g
    for mode in STREAM_MODES:
        for _ in range(ctx.n(10, 150)):
            bs, w = pick_matrix(rng, mode)
            key = rb(rng, 16)
            iv, cls = stream_iv(rng, mode, bs, key)
            n = rng.randrange(1, 2 * w + 3)
            data = rb(rng, n * bs)
            g = [Case("core", mode, bs, w, key, iv, ops=[f"applyblocks {hx(data)}", "ivstate"], role="whole", cls_iv=cls)]
            for k in range(0, n + 1):
                g.append(Case("core", mode, bs, w, key, iv,
                              ops=[(coreapply_op(rng, data[:k*bs], bs) if rng.random() < 0.6 else f"applyblocksb {hx(data[:k*bs])} {hx(rb_nz(rng, k*bs))}"),
                                   "ivstate", "reinit", f"applyblocks {hx(data[k*bs:])}", "ivstate"], role="cut"))
            groups.append(g)
            allc += g
            abs_cases += g
    # positioned first (no data yet), exported at once, resumed: must continue at that position
    for mode in [m for m in STREAM_MODES if m != "ofb"]:
        for _ in range(ctx.n(6, 60)):
            bs, w = pick_matrix(rng, mode)
            key = rb(rng, 16)
            iv, cls = stream_iv(rng, mode, bs, key)
            p = rng.choice([1, 2, w, rng.randrange(1, 2 ** 20)])
            n = rng.randrange(1, 2 * w + 3)
            g = [Case("core", mode, bs, w, key, iv, ops=[f"setpos {p}", f"ksblocks {n}", "ivstate"], role="whole", cls_iv=cls),
                 Case("core", mode, bs, w, key, iv, ops=[f"setpos {p}", "ivstate", "reinit", f"ksblocks {n}", "ivstate"], role="cut", cls_iv=cls)]
            groups.append(g)
            allc += g
            abs_cases += g
    # buffered CFB: resume at every byte position
    for mode in ["cfbbuf-enc", "cfbbuf-dec"]:
        for _ in range(ctx.n(12, 200)):
            bs, w = pick_matrix(rng, "cbc-enc", lambda x: x[0] <= 16)
            key, iv = rb(rng, 16), rb(rng, bs)
            L = rng.randrange(1, 3 * bs + 2)
            data = rb(rng, L)
            g = [Case("buf", mode, bs, w, key, iv, ops=[f"data {hx(data)}"], role="whole")]
            cuts = range(0, L + 1) if L <= 24 or ctx.thorough else sorted(set([0, 1, bs - 1, bs, bs + 1, L] + [rng.randrange(0, L + 1) for _ in range(6)]))
            for k in cuts:
                if k > L:
                    continue
                g.append(Case("buf", mode, bs, w, key, iv, ops=[f"data {hx(data[:k])}", "restate", f"data {hx(data[k:])}"], role="cut"))
            groups.append(g)
            allc += g
        # long streams: the uncut run is one call of many whole blocks (bulk paths, fixed-size batches), the cut runs resume
        # a few bytes or many blocks into it
        for _ in range(ctx.n(4, 40)):
            bs, w = small_matrix(rng, "cbc-enc", 16)
            key, iv = rb(rng, 16), rb(rng, bs)
            nb = rng.choice([17, 33, 65, 66, 100, 129, 130, 200, 257])
            L = nb * bs + rng.randrange(0, bs)
            data = rb(rng, L)
            g = [Case("buf", mode, bs, w, key, iv, ops=[f"data {hx(data)}"], role="whole", cls_long=str(nb))]
            for k in sorted(set([rng.randrange(0, bs + 1), (nb // 2) * bs + rng.randrange(0, bs), L - rng.randrange(0, bs + 1)])):
                g.append(Case("buf", mode, bs, w, key, iv, ops=[f"data {hx(data[:k])}", "restate", f"data {hx(data[k:])}"], role="cut"))
            groups.append(g)
            allc += g
    # sweep of the export moment: after every number of units t = 1..N processed in one call, export / import, continue —
    # against the uncut run (implementation against itself; one configuration per length, taking turns)
    sgroups, sall = [], []
    N = SWEEP_T_THOROUGH if ctx.thorough else (32 if light() else SWEEP_T)
    for mode in BLOCK_MODES:
        pool = [x for x in matrix_for(mode) if x[0] <= 8]
        cfgs = rng.sample(pool, min(4, len(pool)))
        for t in range(1, N + 1):
            bs, w = cfgs[t % len(cfgs)]
            mbs = mode_bs(mode, bs)
            key, iv = rb(rng, 16), rb(rng, ivlen(mode, bs))
            data = rb(rng, (t + 2) * mbs)
            g = [Case("block", mode, bs, w, key, iv, ops=[f"blocks {hx(data)}", "ivstate"], role="whole", cls_sweep=1),
                 Case("block", mode, bs, w, key, iv, ops=[f"blocks {hx(data[:t*mbs])}", "ivstate", "reinit", f"blocks {hx(data[t*mbs:])}", "ivstate"], role="cut", cls_sweep=1)]
            sgroups.append(g); sall += g
    for mode in ["cfbbuf-enc", "cfbbuf-dec"]:
        pool = [x for x in matrix_for("cbc-enc") if x[0] <= 8]
        cfgs = rng.sample(pool, min(4, len(pool)))
        for t in range(1, N + 1):
            bs, w = cfgs[t % len(cfgs)]
            key, iv = rb(rng, 16), rb(rng, bs)
            k = t * bs + (rng.randrange(0, bs) if t % 2 else 0)
            data = rb(rng, k + bs + 1)
            g = [Case("buf", mode, bs, w, key, iv, ops=[f"data {hx(data)}"], role="whole", cls_sweep=1),
                 Case("buf", mode, bs, w, key, iv, ops=[f"data {hx(data[:k])}", "restate", f"data {hx(data[k:])}"], role="cut", cls_sweep=1)]
            sgroups.append(g); sall += g
    for mode in STREAM_MODES:
        pool = [x for x in matrix_for(mode) if x[0] <= 16]
        cfgs = rng.sample(pool, min(3, len(pool)))
        for t in range(1, N // 2 + 1):
            bs, w = cfgs[t % len(cfgs)]
            key = rb(rng, 16)
            iv, cls = stream_iv(rng, mode, bs, key)
            data = rb(rng, (t + 2) * bs)
            g = [Case("core", mode, bs, w, key, iv, ops=[f"applyblocks {hx(data)}", "ivstate"], role="whole", cls_sweep=1),
                 Case("core", mode, bs, w, key, iv, ops=[f"applyblocks {hx(data[:t*bs])}", "ivstate", "reinit", f"applyblocks {hx(data[t*bs:])}", "ivstate"], role="cut", cls_sweep=1)]
            sgroups.append(g); sall += g
    sres = ctx.run(sall, layers=())
    ctx.no_panic(sall, sres)
    res = ctx.run(allc)
    ctx.no_panic(allc, res)
    for g in groups + sgroups:
        rr = sres if g[0].meta.get("cls_sweep") else res
        hr = rr["H"][g[0].cid]
        if hr is None:
            continue
        ro = outs(hr)
        fin = [l for l in hr if l.startswith("state ")][-1:] if g[0].family != "buf" else []
        for c in g[1:]:
            h = rr["H"][c.cid]
            if h is None:
                continue
            if outs(h) != ro or ([l for l in h if l.startswith("state ")][-1:] != fin and c.family != "buf"):
                ctx.violation("predicate", f"{c.mode} bs={c.bs}: exporting the state after {c.ops[0].split()[0]} of {len(c.ops[0].split()[-1]) // 2} bytes and importing it into a fresh instance does not continue the stream",
                              [g[0], c], {"H_whole": hr, "H_cut": h})
                break
    # (b) exported value = public chaining value: state lines against the definition
    for c in abs_cases:
        h, s = res["H"][c.cid], res["spec"][c.cid]
        if h is None or s is None:
            continue
        for i, l in enumerate(h):
            if l.startswith("state ") and i < len(s) and not obs_match_spec(l, s[i]):
                ctx.violation("predicate", f"{c.mode} bs={c.bs}: exported IV state {l!r} is not the public chaining value {s[i]!r}", [c], {"H": h, "spec": s})
                break
    # (c) encryptor and matching decryptor report equal states on corresponding data (two-phase)
    p1 = []
    for fam in ["cbc", "pcbc", "ige", "cfb", "cfb8", "ofb"]:
        for _ in range(ctx.n(15, 200)):
            bs, w = pick_matrix(rng, fam + "-enc")
            mbs = mode_bs(fam + "-enc", bs)
            key, iv = rb(rng, 16), rb(rng, ivlen(fam + "-enc", bs))
            n = rng.randrange(0, 2 * w + 3) if mbs > 1 else rng.randrange(0, 2 * bs + 3)
            p1.append(Case("block", fam + "-enc", bs, w, key, iv, ops=[f"blocks {hx(rb(rng, n * mbs))}", "ivstate"]))
    r1 = ctx.run(p1, layers=())
    p2, pairs = [], []
    for c in p1:
        h = r1["H"][c.cid]
        if h is None or not h[0].startswith("out "):
            continue
        d = Case("block", c.mode[:-4] + "-dec", c.bs, c.w, c.key, c.iv, ops=[f"blocks {h[0][4:]}", "ivstate"])
        p2.append(d)
        pairs.append((c, d))
    r2 = ctx.run(p2, layers=())
    for c, d in pairs:
        he, hd = r1["H"][c.cid], r2["H"][d.cid]
        if hd is None:
            continue
        if he[1] != hd[1]:
            ctx.violation("predicate", f"{c.mode}/{d.mode} bs={c.bs}: encryptor state {he[1]!r} != decryptor state {hd[1]!r} after corresponding data", [c, d], {"H_enc": he, "H_dec": hd})


def run_C12(ctx):
    rng = ctx.rng
    cases = []
    # in one case: instance 0 in place, its clone (made before) buffer-to-buffer into a dirty buffer
    for mode in BLOCK_MODES:
        for _ in range(ctx.n(30, 400)):
            bs, w = pick_matrix(rng, mode)
            mbs = mode_bs(mode, bs)
            key, iv = rb(rng, 16), rb(rng, ivlen(mode, bs))
            c = Case("block", mode, bs, w, key, iv, pairs=[])
            pre = rng.randrange(0, 3)
            if pre:
                c.ops.append(f"blocks {hx(rb(rng, pre * mbs))}")
            c.ops.append("clone")
            for _ in range(rng.randrange(1, 4)):
                kind = rng.choice(["block", "blocks", "blocks"] + (["oneshot"] if mode.startswith("cfb") else []))
                if kind == "block":
                    x = rb(rng, mbs)
                    a, b = f"block {hx(x)}", f"blockb {hx(x)} {hx(rb_nz(rng, mbs))}"
                elif kind == "blocks":
                    x = rb(rng, nblocks_choice(rng, w, 2 * w + 2) * mbs)
                    a, b = f"blocks {hx(x)}", f"blocksb {hx(x)} {hx(rb_nz(rng, len(x)))}"
                    # the in-place and the buffer-to-buffer entry points of the backend itself, reached through a caller-written
                    # closure (`*_with_backend`): `*_block_inplace`, `*_par_blocks_inplace`, `*_tail_blocks_inplace` against
                    # `*_par_blocks(InOut)` / `*_tail_blocks(InOutBuf)` into a dirty buffer
                    if rng.random() < 0.35:
                        a = f"backend {rng.choice([0, 1, 2, 4, 5, 6])} {hx(x)}"
                    if rng.random() < 0.25:
                        b = f"backend 3 {hx(x)}"
                else:
                    x = rb(rng, rng.randrange(0, 3 * bs + 2))
                    a, b = f"oneshot {hx(x)}", f"oneshotb {hx(x)} {hx(rb_nz(rng, len(x)))}"
                # ... and the `*_inout` entry points themselves (a mode type may override them), in place against two buffers
                a, b = reroute(rng, [a], 0.25)[0], reroute(rng, [b], 0.25)[0]
                i = len(c.ops)
                c.ops += ["use 0", a, "ivstate", "use 1", b, "ivstate"]
                c.meta["pairs"].append((i + 1, i + 4))
                c.meta["pairs"].append((i + 2, i + 5))
            cases.append(c)
    for mode in STREAM_MODES:
        for _ in range(ctx.n(20, 300)):
            bs, w = pick_matrix(rng, mode)
            key = rb(rng, 16)
            iv, _ = stream_iv(rng, mode, bs, key)
            for fam in ("stream", "core"):
                if mode == "belt" and fam in ("stream", "core"):
                    pass
                c = Case(fam, mode, bs, w, key, iv, pairs=[])
                # BeltCtrCore is not Clone: run the two forms in two instances created alike instead
                seq_a, seq_b = [], []
                for _ in range(rng.randrange(1, 4)):
                    if fam == "stream":
                        x = rb(rng, rng.choice([0, 1, bs, bs + 1, rng.randrange(0, (w + 2) * bs + 1)]))
                        seq_a.append(f"apply {hx(x)}")
                        seq_b.append(f"applyb {hx(x)} {hx(rb_nz(rng, len(x)))}")
                    else:
                        x = rb(rng, nblocks_choice(rng, w, 2 * w + 2) * bs)
                        seq_a.append(f"applyblocks {hx(x)}")
                        seq_b.append(f"applyblocksb {hx(x)} {hx(rb_nz(rng, len(x)))}")
                if fam == "core" and rng.random() < 0.35:
                    # the consuming one-shot `try_apply_keystream_partial`, in place against two buffers
                    x = rb(rng, rng.choice([0, 1, bs - 1, bs, bs + 1, rng.randrange(0, (w + 2) * bs + 1)]))
                    seq_a.append(f"partial {hx(x)}")
                    seq_b.append(f"partialb {hx(x)} {hx(rb_nz(rng, len(x)))}")
                st = "corestate" if fam == "stream" else "ivstate"
                ca = Case(fam, mode, bs, w, key, iv, ops=seq_a + [st], role="inplace")
                cb = Case(fam, mode, bs, w, key, iv, ops=seq_b + [st], role="b2b")
                ca.meta["partner"] = cb
                cases += [ca, cb]
    for mode in CTS_MODES:
        for _ in range(ctx.n(30, 400)):
            bs, w = pick_matrix(rng, "cbc-enc")
            key, iv = rb(rng, 16), rb(rng, ivlen(mode, bs))
            c = Case("cts", mode, bs, w, key, iv, pairs=[])
            for _ in range(3):
                L = rng.choice([bs, bs + 1, 2 * bs - 1, 2 * bs, 2 * bs + 1, rng.randrange(bs, (2 * w + 2) * bs + 1)])
                x = rb(rng, L)
                op = rng.choice(["enc", "dec"])
                i = len(c.ops)
                c.ops += [f"{op} {hx(x)}", f"{op}b {hx(x)} {hx(rb_nz(rng, L))}"]
                c.meta["pairs"].append((i, i + 1))
            cases.append(c)
    res = ctx.run(cases, layers=())
    ctx.no_panic(cases, res)
    for c in cases:
        h = res["H"][c.cid]
        if h is None:
            continue
        def nz(l):
            return "err" if l.startswith("err") else l
        for (i, j) in c.meta.get("pairs", []):
            if i < len(h) and j < len(h) and nz(h[i]) != nz(h[j]):
                ctx.violation("predicate", f"{c.mode} bs={c.bs} w={c.w}: in-place {c.ops[i].split()[0]} gives {h[i][:70]!r}, buffer-to-buffer {c.ops[j].split()[0]} gives {h[j][:70]!r}", [c], {"H": h})
                break
        p = c.meta.get("partner")
        if p is not None:
            hp = res["H"][p.cid]
            if hp is not None and [nz(l) for l in h] != [nz(l) for l in hp]:
                ctx.violation("predicate", f"{c.mode} bs={c.bs} w={c.w}: in-place and buffer-to-buffer runs differ", [c, p], {"H_inplace": h, "H_b2b": hp})


def run_C14(ctx):
    rng = ctx.rng
    groups, allc = [], []   # group: list of (case, extractor) whose extracted bytes must all be equal
    def whole(h):
        return outs(h) if h is not None and all(l.startswith(("out ", "ok", "state ")) for l in h) else None
    # CFB: buffered = block-level (+ one-shot for the partial tail) = one-shot
    for d in ["enc", "dec"]:
        for _ in range(ctx.n(50, 600)):
            bs, w = pick_matrix(rng, "cbc-enc")
            key, iv = rb(rng, 16), rb(rng, bs)
            L = rng.choice([0, 1, bs, 2 * bs, 2 * bs + 1, rng.randrange(0, (2 * w + 2) * bs + 2)])
            m = rb(rng, L)
            g = [Case("block", f"cfb-{d}", bs, w, key, iv, ops=[f"oneshot {hx(m)}"], role="oneshot")]
            cb = Case("buf", f"cfbbuf-{d}", bs, w, key, iv, role="buf")
            i = 0
            for k in random_composition(rng, L, bias=[1, bs, bs + 1]):
                cb.ops.append(f"data {hx(m[i:i+k])}")
                i += k
            if not cb.ops:
                cb.ops.append("data -")
            g.append(cb)
            if L % bs == 0:
                g.append(Case("block", f"cfb-{d}", bs, w, key, iv, ops=enc_ops_for_path(rng, "mixed", bs, w, m) or ["blocks -"], role="blocks"))
            groups.append(g)
            allc += g
    # OFB: block encryptor = block decryptor = keystream core = byte-level stream cipher
    for _ in range(ctx.n(50, 600)):
        bs, w = pick_matrix(rng, "cbc-enc")
        key, iv = rb(rng, 16), rb(rng, bs)
        n = rng.randrange(0, 2 * w + 3)
        m = rb(rng, n * bs)
        g = [Case("block", "ofb-enc", bs, w, key, iv, ops=enc_ops_for_path(rng, "mixed", bs, w, m) or ["blocks -"]),
             Case("block", "ofb-dec", bs, w, key, iv, ops=enc_ops_for_path(rng, "mixed", bs, w, m) or ["blocks -"]),
             Case("core", "ofb", bs, w, key, iv, ops=[f"applyblocks {hx(m)}"]),
             Case("stream", "ofb", bs, w, key, iv, ops=[f"apply {hx(m)}"])]
        groups.append(g)
        allc += g
    # CTR / BelT: core block-wise = byte-level cipher
    for mode in list(CTR_FLAVORS) + ["belt"]:
        for _ in range(ctx.n(15, 200)):
            bs, w = pick_matrix(rng, mode)
            key = rb(rng, 16)
            iv, _ = stream_iv(rng, mode, bs, key)
            n = rng.randrange(0, 2 * w + 3)
            m = rb(rng, n * bs)
            cs = Case("stream", mode, bs, w, key, iv)
            i = 0
            for k in random_composition(rng, len(m), bias=[1, bs, w * bs]):
                cs.ops.append(f"apply {hx(m[i:i+k])}")
                i += k
            if not cs.ops:
                cs.ops.append("apply -")
            g = [Case("core", mode, bs, w, key, iv, ops=[f"applyblocks {hx(m)}"]), cs]
            groups.append(g)
            allc += g
    # construction from key bytes = construction from an already keyed cipher
    for mode in BLOCK_MODES:
        for _ in range(ctx.n(8, 100)):
            bs, w = pick_matrix(rng, mode)
            mbs = mode_bs(mode, bs)
            key, iv = rb(rng, 16), rb(rng, ivlen(mode, bs))
            m = rb(rng, rng.randrange(1, 2 * w + 2) * mbs)
            c = Case("block", mode, bs, w, key, iv, ops=["viainner", f"blocks {hx(m)}", "ivstate", "use 1", f"blocks {hx(m)}", "ivstate"], pairs=[(1, 4), (2, 5)])
            allc.append(c)
    # CTS on a whole number of blocks vs the real cbc crate / raw block encryption
    aligned = []
    for mode in CTS_MODES:
        for _ in range(ctx.n(40, 500)):
            bs, w = pick_matrix(rng, "cbc-enc")
            key, iv = rb(rng, 16), rb(rng, bs)
            k = rng.choice([1, 1, 2, 3, w, w + 1, 2 * w + 1, rng.randrange(1, 2 * w + 3)])
            m = rb(rng, k * bs)
            d = rng.choice(["enc", "dec"])
            cc = Case("cts", mode, bs, w, key, iv if mode.startswith("cbc") else b"", ops=[f"{d} {hx(m)}"])
            if mode.startswith("cbc"):
                ref = Case("block", f"cbc-{d}", bs, w, key, iv, ops=[f"blocks {hx(m)}"])
            else:
                ref = Case("toy", "toy", bs, w, key, b"", ops=[f"{'E' if d == 'enc' else 'D'} {hx(m[i*bs:(i+1)*bs])}" for i in range(k)])
            aligned.append((cc, ref, mode, d, k))
            allc += [cc, ref]
    res = ctx.run(allc, layers=())
    ctx.no_panic(allc, res)
    for g in groups:
        vals = [(c, whole(res["H"][c.cid])) for c in g]
        base = vals[0]
        for c, v in vals[1:]:
            if v is None or base[1] is None:
                continue
            if v != base[1]:
                ctx.violation("predicate", f"front-ends disagree: {base[0].family}/{base[0].mode} vs {c.family}/{c.mode} (bs={c.bs}, w={c.w}, {len(v)} bytes)",
                              [base[0], c], {"H_a": res["H"][base[0].cid], "H_b": res["H"][c.cid]})
                break
    for c in allc:
        h = res["H"][c.cid]
        for (i, j) in c.meta.get("pairs", []) if h else []:
            if h[i] != h[j]:
                ctx.violation("predicate", f"{c.mode} bs={c.bs}: new(key, iv) and inner_iv_init(KeyInit::new(key), iv) behave differently at op {c.ops[i].split()[0]}", [c], {"H": h})
                break
    for (cc, ref, mode, d, k) in aligned:
        h, hr = res["H"][cc.cid], res["H"][ref.cid]
        if h is None or hr is None or not h[0].startswith("out "):
            if h is not None and not h[0].startswith("out "):
                ctx.violation("predicate", f"{mode} {d} of {k} whole blocks failed: {h[0]!r}", [cc], {"H": h})
            continue
        got, exp = payload(h[0]), outs(hr)
        bs = cc.bs
        blocks = lambda x: [x[i*bs:(i+1)*bs] for i in range(k)]
        if mode.endswith("cs3") and k >= 2:
            if d == "enc":
                e = blocks(exp)
                e[-1], e[-2] = e[-2], e[-1]
                exp2 = b"".join(e)
            else:
                # decrypting the exchanged ciphertext: feed the reference with the last two blocks exchanged back
                exp2 = None
            if d == "enc":
                ok = got == exp2
            else:
                ok = True   # handled below with a dependent reference
        else:
            ok = got == exp
        if not ok:
            ctx.violation("predicate", f"{mode} {d} on {k} whole blocks (bs={bs}, w={cc.w}) differs from {'plain CBC' if mode.startswith('cbc') else 'raw block'} processing{' with the last two blocks exchanged' if mode.endswith('cs3') and k >= 2 else ''}",
                          [cc, ref], {"H_cts": h, "H_ref": hr}, sig=f"{mode}/aligned/k={'1' if k == 1 else '>1'}")
    # CS3 decrypt, k >= 2: reference on the un-exchanged ciphertext
    dep, deps = [], []
    for (cc, ref, mode, d, k) in aligned:
        if mode.endswith("cs3") and k >= 2 and d == "dec":
            bs = cc.bs
            m = payload(cc.ops[0])
            b = [m[i*bs:(i+1)*bs] for i in range(k)]
            b[-1], b[-2] = b[-2], b[-1]
            x = b"".join(b)
            if mode.startswith("cbc"):
                r2 = Case("block", "cbc-dec", bs, cc.w, cc.key, cc.iv, ops=[f"blocks {hx(x)}"])
            else:
                r2 = Case("toy", "toy", bs, cc.w, cc.key, b"", ops=[f"D {hx(bb)}" for bb in b])
            dep.append(r2)
            deps.append((cc, r2, mode, k))
    r2res = ctx.run(dep, layers=())
    for (cc, r2, mode, k) in deps:
        h, hr = res["H"][cc.cid], r2res["H"][r2.cid]
        if h is None or hr is None or not h[0].startswith("out "):
            continue
        if payload(h[0]) != outs(hr):
            ctx.violation("predicate", f"{mode} dec on {k} whole blocks differs from plain processing of the ciphertext with its last two blocks exchanged", [cc, r2], {"H_cts": h, "H_ref": hr}, sig=f"{mode}/aligned/k=>1")


def run_C15(ctx):
    rng = ctx.rng
    cases = []
    def blocks_of(x, bs):
        return [x[i:i+bs] for i in range(0, len(x), bs)]
    for mode in ["cbc-dec", "cfb-dec", "pcbc-dec", "ige-dec", "cfb8-dec", "ofb-dec"]:
        for _ in range(ctx.n(40, 500)):
            bs, w = pick_matrix(rng, mode, lambda x: x[0] >= 2)
            mbs = mode_bs(mode, bs)
            key, iv = rb(rng, 16), rb(rng, ivlen(mode, bs))
            n = rng.randrange(2, 2 * w + 4) if mbs > 1 else rng.randrange(bs + 2, 3 * bs + 4)
            ct = rb(rng, n * mbs)
            j = rng.randrange(0, n)
            delta = bytes([1 << rng.randrange(8)] + [0] * (mbs - 1)) if rng.random() < 0.5 else rb_nz(rng, mbs)
            if mbs > 1 and rng.random() < 0.5:
                dl = bytearray(mbs)
                dl[rng.randrange(mbs)] = 1 << rng.randrange(8)
                delta = bytes(dl)
            ct2 = ct[: j*mbs] + xor(ct[j*mbs:(j+1)*mbs], delta) + ct[(j+1)*mbs:]
            ext = rb(rng, rng.randrange(1, 3) * mbs)
            c = Case("block", mode, bs, w, key, iv,
                     ops=["clone", "clone", blocks_op(rng, ct, 0.25), "use 1", blocks_op(rng, ct2, 0.25), "use 2", f"blocks {hx(ct + ext)}"],
                     j=j, delta=delta, n=n)
            cases.append(c)
    # buffered CFB decryptor (its own bulk path): the same CFB propagation shape, over one long call or any cutting into calls
    bufpairs = []
    for _ in range(ctx.n(30, 400)):
        bs, w = pick_matrix(rng, "cbc-enc", lambda x: x[0] >= 2)
        key, iv = rb(rng, 16), rb(rng, bs)
        n = rng.choice([rng.randrange(2, 6), rng.randrange(8, 20), 16, 17, 24, 25])
        L = n * bs + rng.choice([0, rng.randrange(0, bs)])
        ct = rb(rng, L)
        j = rng.randrange(0, n)
        delta = rb_nz(rng, bs)
        if rng.random() < 0.5:
            dl = bytearray(bs)
            dl[rng.randrange(bs)] = 1 << rng.randrange(8)
            delta = bytes(dl)
        ct2 = ct[: j*bs] + xor(ct[j*bs:(j+1)*bs], delta) + ct[(j+1)*bs:]
        r = rng.random()
        if r < 0.4:
            parts = [L]
        elif r < 0.6:
            k0 = rng.randrange(0, bs)
            parts = [k0, L - k0]
        else:
            parts = random_composition(rng, L, zero_p=0.1, bias=[1, bs, 8 * bs, 9 * bs, 16 * bs])
        def pieces(x):
            out, o = [], 0
            for k in parts:
                out.append(f"data {hx(x[o:o+k])}")
                o += k
            return out
        ca = Case("buf", "cfbbuf-dec", bs, w, key, iv, ops=pieces(ct), role="buf-a", j=j, delta=delta, n=n)
        cb = Case("buf", "cfbbuf-dec", bs, w, key, iv, ops=pieces(ct2), role="buf-b")
        bufpairs.append((ca, cb))
        cases += [ca, cb]
    # enc direction causality
    for mode in ["cbc-enc", "cfb-enc", "pcbc-enc", "ige-enc", "cfb8-enc", "ofb-enc"]:
        for _ in range(ctx.n(10, 150)):
            bs, w = pick_matrix(rng, mode)
            mbs = mode_bs(mode, bs)
            key, iv = rb(rng, 16), rb(rng, ivlen(mode, bs))
            n = rng.randrange(1, 2 * w + 3)
            m = rb(rng, n * mbs)
            ext = rb(rng, rng.randrange(1, 3) * mbs)
            cases.append(Case("block", mode, bs, w, key, iv, ops=["clone", f"blocks {hx(m)}", "use 1", f"blocks {hx(m + ext)}"], causal=True, n=n))
    # stream ciphers: exact bit flips; keystream / state independent of the data
    for mode in STREAM_MODES:
        for _ in range(ctx.n(20, 300)):
            bs, w = pick_matrix(rng, mode)
            key = rb(rng, 16)
            iv, _ = stream_iv(rng, mode, bs, key)
            L = rng.randrange(1, (2 * w + 2) * bs + 1)
            ct = rb(rng, L)
            j = rng.randrange(0, L)
            d = rng.randrange(1, 256)
            ct2 = ct[:j] + bytes([ct[j] ^ d]) + ct[j+1:]
            tail = rb(rng, rng.randrange(1, bs + 2))
            ca = Case("stream", mode, bs, w, key, iv, ops=[f"apply {hx(ct)}", "corestate", f"apply {hx(tail)}"], role="a", j=j, d=d)
            cb = Case("stream", mode, bs, w, key, iv, ops=[f"apply {hx(ct2)}", "corestate", f"apply {hx(tail)}"], role="b")
            ca.meta["partner"] = cb
            cases += [ca, cb]
    res = ctx.run(cases, layers=())
    ctx.no_panic(cases, res)
    for (ca, cb) in bufpairs:
        ha, hb = res["H"][ca.cid], res["H"][cb.cid]
        if ha is None or hb is None:
            continue
        A, B = outs(ha), outs(hb)
        bs, j, delta, n = ca.bs, ca.meta["j"], ca.meta["delta"], ca.meta["n"]
        bad = None
        if A is None or B is None or len(A) != len(B):
            bad = "outputs missing or of different length"
        else:
            for i in range(0, (len(A) + bs - 1) // bs):
                da = xor(A[i*bs:(i+1)*bs], B[i*bs:(i+1)*bs])
                if i == j and da != delta:
                    bad = f"block {i} does not flip exactly the altered bits"
                elif i == j + 1 and len(da) == bs and da == bytes(bs):
                    bad = f"block {i} (after the altered one) is not garbled"
                elif i not in (j, j + 1) and da != bytes(len(da)):
                    bad = f"block {i} changed (no re-synchronisation)" if i > j else f"block {i} before the altered one changed"
                if bad:
                    break
        if bad:
            ctx.violation("predicate", f"buffered CFB decryptor bs={bs} w={ca.w} n={n} j={j}: {bad}", [ca, cb], {"H_a": ha, "H_b": hb})
    for c in cases:
        h = res["H"][c.cid]
        if h is None or c.family == "buf":
            continue
        if c.family == "stream":
            p = c.meta.get("partner")
            if p is None:
                continue
            hp = res["H"][p.cid]
            if hp is None:
                continue
            if not (h and hp and h[0].startswith("out ") and hp[0].startswith("out ")):
                ctx.violation("infrastructure", f"{c.mode} bs={c.bs} w={c.w}: no output from the implementation for this case: {h[:1]!r}", [c, p], {"H_a": h, "H_b": hp})
                continue
            a, b = payload(h[0]), payload(hp[0])
            j, d = c.meta["j"], c.meta["d"]
            if len(a) <= j or len(b) != len(a):
                ctx.violation("predicate", f"{c.mode} bs={c.bs}: output shorter than the input", [c, p], {"H_a": h, "H_b": hp})
                continue
            exp = a[:j] + bytes([a[j] ^ d]) + a[j+1:]
            if b != exp:
                ctx.violation("predicate", f"{c.mode} bs={c.bs}: flipping ciphertext byte {j} by {d:#x} changed the plaintext elsewhere", [c, p], {"H_a": h, "H_b": hp})
            elif h[1:] != hp[1:]:
                ctx.violation("predicate", f"{c.mode} bs={c.bs}: state / later keystream depends on the data processed", [c, p], {"H_a": h, "H_b": hp})
            continue
        mbs = mode_bs(c.mode, c.bs)
        if c.meta.get("causal"):
            a, b = payload(h[1]), payload(h[3])
            if b[: len(a)] != a:
                ctx.violation("predicate", f"{c.mode} bs={c.bs}: output blocks depend on input that comes after them", [c], {"H": h})
            continue
        P, P2, P3 = payload(h[2]), payload(h[4]), payload(h[6])
        j, delta, n = c.meta["j"], c.meta["delta"], c.meta["n"]
        if P3[: len(P)] != P:
            ctx.violation("predicate", f"{c.mode} bs={c.bs}: output blocks depend on input that comes after them", [c], {"H": h})
            continue
        A, B = blocks_of(P, mbs), blocks_of(P2, mbs)
        if len(A) != n or len(B) != n or any(not l.startswith("out ") for l in (h[2], h[4], h[6])):
            ctx.violation("predicate", f"{c.mode} bs={c.bs} w={c.w} n={n}: a decryption call did not return {n} blocks of output: {[l[:12] for l in (h[2], h[4], h[6])]}", [c], {"H": h})
            continue
        diff = [xor(x, y) for x, y in zip(A, B)]
        zero = bytes(mbs)
        fam = c.mode[:-4]
        bad = None
        if fam == "cbc":
            for i in range(n):
                if i == j and diff[i] == zero:
                    bad = f"block {i} (the altered one) is not garbled"
                elif i == j + 1 and diff[i] != delta:
                    bad = f"block {i} does not flip exactly the altered bits"
                elif i not in (j, j + 1) and diff[i] != zero:
                    bad = f"block {i} changed"
        elif fam == "cfb":
            for i in range(n):
                if i == j and diff[i] != delta:
                    bad = f"block {i} does not flip exactly the altered bits"
                elif i == j + 1 and diff[i] == zero:
                    bad = f"block {i} (after the altered one) is not garbled"
                elif i not in (j, j + 1) and diff[i] != zero:
                    bad = f"block {i} changed"
        elif fam == "cfb8":
            for i in range(n):
                if i == j and diff[i] != delta:
                    bad = f"byte {i} does not flip exactly the altered bits"
                elif (i < j or i > j + c.bs) and diff[i] != zero:
                    bad = f"byte {i} changed (outside the {c.bs}-byte window)"
        elif fam == "ofb":
            for i in range(n):
                if diff[i] != (delta if i == j else zero):
                    bad = f"block {i}: difference is not exactly the altered bits"
        elif fam == "pcbc":
            Delta = xor(diff[j], delta)
            for i in range(n):
                if i < j and diff[i] != zero:
                    bad = f"block {i} before the altered one changed"
                elif i == j and diff[i] == zero:
                    bad = f"block {i} (the altered one) is not garbled"
                elif i > j and diff[i] != Delta:
                    bad = f"block {i}: later blocks do not all change by the same difference D(c^d)^D(c)^d"
        elif fam == "ige":
            for i in range(n):
                if i < j and diff[i] != zero:
                    bad = f"block {i} before the altered one changed"
                elif i == j and diff[i] == zero:
                    bad = f"block {i} (the altered one) is not garbled"
                elif i > j + 1 and diff[i - 1] != zero and diff[i] == zero:
                    bad = f"block {i} is unchanged although block {i-1} changed"
        if bad:
            ctx.violation("predicate", f"{c.mode} bs={c.bs} w={c.w} n={n} j={j}: {bad}", [c], {"H": h})


def history_ops(rng, family, mode, bs, w, k):
    mbs = mode_bs(mode, bs)
    ops = []
    for _ in range(k):
        if family == "block":
            r = rng.random()
            if r < 0.4:
                ops.append(f"block {hx(rb(rng, mbs))}")
            elif r < 0.85:
                ops.append(blocks_op(rng, rb(rng, nblocks_choice(rng, w, 2 * w + 1) * mbs)))
            else:
                ops.append("ivstate")
        elif family == "buf":
            ops.append(f"data {hx(rb(rng, rng.choice([0, 1, bs - 1, bs, bs + 1, rng.randrange(0, 3 * bs)])))}")
        elif family == "stream":
            r = rng.random()
            if r < 0.7:
                ops.append(f"apply {hx(rb(rng, rng.choice([0, 1, bs - 1, bs, bs + 1, rng.randrange(0, (w + 2) * bs)])))}")
            elif r < 0.85 and mode != "ofb":
                ops.append(f"seek u64 {rng.randrange(0, 2**20)}")
            elif mode != "ofb":
                ops.append(rng.choice(["pos u64", "pos u128", "rem"]))
            else:
                ops.append("corestate")
        elif family == "core":
            r = rng.random()
            if r < 0.6:
                ops.append(coreapply_op(rng, rb(rng, nblocks_choice(rng, w, 2 * w + 1) * bs), bs))
            elif r < 0.8:
                ops.append("ksblock")
            elif mode != "ofb":
                ops.append(rng.choice(["getpos", "rem", "ivstate"]))
            else:
                ops.append("ivstate")
    return ops


def far_position_op(rng, family, mode):
    """place a keystream object far from the start: next to the end of the keystream, beyond 2^32 / 2^64 blocks,
    at a random block — so that state carried in the high bits of the block counter is observable afterwards"""
    limb = limit_blocks(mode)
    wb = counter_bits(mode)
    cands = [limb - 1, limb - 2, limb - 3, limb // 2, 2 ** (wb // 2) + 5, rng.randrange(0, limb)]
    if wb > 64:
        cands += [2 ** 64 + 7, 2 ** 64 - 1, 3 * 2 ** 64 + 5]
    if wb > 32:
        cands += [2 ** 32 + 3, 2 ** 32 - 1]
    return f"{'fromcore' if family == 'stream' else 'setpos'} {rng.choice(cands)}"


def run_C16(ctx):
    rng = ctx.rng
    groups, allc = [], []
    # BelT-CTR's core and wrapper are not `Clone` at the pinned commit: the harness probes for an impl (auto-ref method probing at a
    # concrete call site) and answers `noclone` when there is none; such cases are then skipped
    targets = [("block", m) for m in BLOCK_MODES] + [("buf", "cfbbuf-enc"), ("buf", "cfbbuf-dec")] + \
              [("stream", m) for m in STREAM_MODES] + [("core", m) for m in STREAM_MODES]
    for (fam, mode) in targets:
        for _ in range(ctx.n(14, 200)):
            mm = mode if fam in ("stream", "core") else ("cbc-enc" if fam == "buf" else mode)
            bs, w = pick_matrix(rng, mm)
            key = rb(rng, 16)
            iv = stream_iv(rng, mode, bs, key)[0] if fam in ("stream", "core") else rb(rng, ivlen(mode, bs))
            h1 = history_ops(rng, fam, mode, bs, w, rng.randrange(0, 4))
            if fam in ("stream", "core") and mode != "ofb" and rng.random() < 0.4:
                h1.append(far_position_op(rng, fam, mode))
            h2 = history_ops(rng, fam, mode, bs, w, rng.randrange(1, 5))
            h3 = history_ops(rng, fam, mode, bs, w, rng.randrange(1, 5))
            # interleave h2 (original, instance 0) and h3 (clone, instance 1)
            inter, tags = [], []
            a, b = list(h2), list(h3)
            cur = 0
            while a or b:
                pick = 0 if (a and (not b or rng.random() < 0.5)) else 1
                if pick != cur:
                    inter.append(f"use {pick}")
                    tags.append(None)
                    cur = pick
                inter.append((a if pick == 0 else b).pop(0))
                tags.append(pick)
            if rng.random() < 0.35:
                # `Clone::clone_from`: a second instance with a history of its own (so that any field `clone_from` forgets to
                # overwrite is stale) is overwritten with a copy of the original, then used as the clone
                hpre = history_ops(rng, fam, mode, bs, w, rng.randrange(0, 4))
                if rng.random() < 0.5:
                    # ... the overwritten instance was constructed separately, under another key and another IV: every field
                    # of the source (cipher, nonce / IV, counters, buffer, position) has to arrive
                    key2 = rb(rng, 16)
                    iv2 = stream_iv(rng, mode, bs, key2)[0] if fam in ("stream", "core") else rb_nz(rng, ivlen(mode, bs))
                    pre = [f"fresh {hx(key2)} {hx(iv2)}", "use 1"] + hpre + ["clonefrom 0", "use 0"]
                else:
                    pre = ["clone", "use 1"] + hpre + ["clonefrom 0", "use 0"]
                x = Case(fam, mode, bs, w, key, iv, ops=h1 + pre + inter, tags=[None] * (len(h1) + len(pre)) + tags, role="interleaved-clonefrom")
            else:
                x = Case(fam, mode, bs, w, key, iv, ops=h1 + ["clone"] + inter, tags=[None] * (len(h1) + 1) + tags, role="interleaved")
            y = Case(fam, mode, bs, w, key, iv, ops=h1 + h2, role="fresh-orig")
            z = Case(fam, mode, bs, w, key, iv, ops=h1 + h3, role="fresh-clone")
            # two separately constructed instances used in alternation (no clone involved)
            groups.append((x, y, z, len(h1)))
            allc += [x, y, z]
    # CTS objects are consumed by use; a clone must produce what the original would have
    for mode in CTS_MODES:
        for _ in range(ctx.n(8, 100)):
            bs, w = pick_matrix(rng, "cbc-enc")
            key, iv = rb(rng, 16), rb(rng, ivlen(mode, bs))
            m = rb(rng, rng.randrange(bs, 4 * bs))
            k2, v2 = rb(rng, 16), rb_nz(rng, ivlen(mode, bs))
            c2 = rb(rng, rng.randrange(bs, 4 * bs))
            x = Case("cts", mode, bs, w, key, iv, ops=[f"enc {hx(m)}", "clone", "use 1", f"enc {hx(m)}",
                                                       f"enccf {hx(k2)} {hx(v2)} {hx(m)}", f"dec {hx(c2)}", f"deccf {hx(k2)} {hx(v2)} {hx(c2)}"],
                     pairs=[(0, 3), (0, 4), (5, 6)])
            allc.append(x)
    # sweep of the cloning moment: clone after every number of units t = 1..N processed (in one call or two); the clone and the
    # original must both continue like a fresh instance
    N = SWEEP_T_THOROUGH if ctx.thorough else (32 if light() else SWEEP_T)
    for (fam, mode) in targets:
        base = mode if fam in ("stream", "core") else ("cbc-enc" if fam == "buf" else mode)
        pool = [q for q in matrix_for(base) if q[0] <= (16 if fam in ("stream", "core") else 8)]
        cfgs = rng.sample(pool, min(3, len(pool)))
        for t in range(1, (N if fam in ("block", "buf") else N // 2) + 1):
            bs, w = cfgs[t % len(cfgs)]
            mbs = mode_bs(mode, bs) if fam == "block" else bs
            key = rb(rng, 16)
            iv = stream_iv(rng, mode, bs, key)[0] if fam in ("stream", "core") else rb(rng, ivlen(mode, bs))
            op = {"block": "blocks", "buf": "data", "stream": "apply", "core": "applyblocks"}[fam]
            t1 = rng.randrange(0, t + 1) if t % 3 == 0 else t
            h1 = [f"{op} {hx(rb(rng, t1 * mbs))}"] + ([f"{op} {hx(rb(rng, (t - t1) * mbs))}"] if t1 != t else [])
            a, b = f"{op} {hx(rb(rng, 2 * mbs))}", f"{op} {hx(rb(rng, 2 * mbs))}"
            st = {"block": "ivstate", "buf": "getstate", "stream": "corestate", "core": "ivstate"}[fam]
            x = Case(fam, mode, bs, w, key, iv, ops=h1 + ["clone", a, st, "use 1", b, st],
                     tags=[None] * (len(h1) + 1) + [0, 0, None, 1, 1], role="interleaved", cls_sweep=1)
            y = Case(fam, mode, bs, w, key, iv, ops=h1 + [a, st], role="fresh-orig")
            z = Case(fam, mode, bs, w, key, iv, ops=h1 + [b, st], role="fresh-clone")
            groups.append((x, y, z, len(h1)))
            allc += [x, y, z]
    res = ctx.run(allc, layers=())
    notclone = set(c.cid for c in allc if res["H"][c.cid] and "noclone" in res["H"][c.cid])
    ctx.stats["not_cloneable_cases"] = len(notclone)
    ctx.no_panic([c for c in allc if c.cid not in notclone], res)
    for (x, y, z, n1) in groups:
        hx_, hy, hz = res["H"][x.cid], res["H"][y.cid], res["H"][z.cid]
        if hx_ is None or hy is None or hz is None or x.cid in notclone:
            continue
        tags = x.meta["tags"]
        got0 = [hx_[i] for i in range(len(hx_)) if i < len(tags) and tags[i] == 0]
        got1 = [hx_[i] for i in range(len(hx_)) if i < len(tags) and tags[i] == 1]
        if hx_[:n1] != hy[:n1] or got0 != hy[n1:]:
            ctx.violation("predicate", f"{x.family}/{x.mode} bs={x.bs}: the original, used interleaved with its clone, does not behave like a fresh instance replaying the same calls", [x, y], {"H_interleaved": hx_, "H_fresh": hy})
        elif got1 != hz[n1:]:
            ctx.violation("predicate", f"{x.family}/{x.mode} bs={x.bs}: the clone does not behave like a fresh instance replaying history-before-clone followed by its own calls", [x, z], {"H_interleaved": hx_, "H_fresh": hz})
    for c in allc:
        h = res["H"][c.cid]
        for (i, j) in c.meta.get("pairs", []) if h else []:
            if h[i] != h[j]:
                ctx.violation("predicate", f"{c.mode} bs={c.bs}: a clone of the mode object encrypts differently from the original", [c], {"H": h})
