#!/usr/bin/env python3
"""usage: run_all_seeded.py [-j N] [seed-dir ...]   (default: every directory under /verif/seeded)
Runs tools/run_seeded_wt.py for every seeded change, N at a time, each in its own scratch worktree /tmp/wt/pool<k>
(created from /repo's HEAD when missing, removed at the end).  /repo itself is never touched."""
import sys, os, subprocess, glob, json
from concurrent.futures import ThreadPoolExecutor
import queue
args = sys.argv[1:]
n = 6
if args[:1] == ["-j"]:
    n = int(args[1]); args = args[2:]
seeds = [os.path.abspath(a) for a in args] or sorted(d for d in glob.glob("/verif/seeded/*") if os.path.isfile(os.path.join(d, "patch.diff")))
pool = queue.Queue()
for k in range(n):
    wt = f"/tmp/wt/pool{k}"
    if not os.path.isdir(wt):
        subprocess.run(["git", "-C", "/repo", "worktree", "add", "-q", "--detach", wt, "HEAD"], check=True)
    pool.put(wt)

def work(d):
    wt = pool.get()
    try:
        props = []
        if os.environ.get("SEEDED_TARGET_ONLY") == "1":
            # defect-seeding changes: only the check of the property the change was written against (behaviour-preserving ones: all)
            try:
                tgt = json.load(open(os.path.join(d, "meta.json"))).get("breaks_property")
            except Exception:
                tgt = None
            props = [tgt] if tgt else []
        r = subprocess.run(["python3", "/verif/tools/run_seeded_wt.py", d, wt] + props, capture_output=True, text=True)
        last = (r.stdout.strip().splitlines() or ["?"])[-1]
        print(last if r.returncode == 0 else f"{os.path.basename(d)} FAILED rc={r.returncode}: {r.stderr[-300:]}", flush=True)
    finally:
        pool.put(wt)

with ThreadPoolExecutor(max_workers=n) as ex:
    list(ex.map(work, seeds))
for k in range(n):
    subprocess.run(["git", "-C", "/repo", "worktree", "remove", "--force", f"/tmp/wt/pool{k}"])
