#!/usr/bin/env python3
"""usage: run_seeded_wt.py <seeded-dir> <scratch-worktree> [props...]
Runs the quick checks against a seeded change WITHOUT touching /repo: the patch is applied in the scratch worktree (a git
worktree of /repo outside /repo and /verif), a scratch copy of the harness crate gets its path dependencies pointed at that
worktree, and ./check is run with VERIF_HARNESS_DIR / VERIF_REPO / VERIF_WORK_DIR / VERIF_REPLAYS_DIR / VERIF_EVIDENCE_DIR
set to scratch locations.  Several of these can run in parallel.  Result: <seeded-dir>/detected.json.  The scratch harness
copy (with its build output) is removed at the end; the worktree is restored to a clean state."""
import sys, subprocess, json, os, re, shutil
d = os.path.abspath(sys.argv[1]); wt = os.path.abspath(sys.argv[2])
props = sys.argv[3:] or [f"C{i:02d}" for i in range(1, 18)]
sid = os.path.basename(d)
scratch = f"/tmp/hx/{sid}"
shutil.rmtree(scratch, ignore_errors=True)
os.makedirs(scratch)
subprocess.run(["git", "-C", wt, "checkout", "-q", "--", "."], check=True)
subprocess.run(["git", "-C", wt, "clean", "-fdq", "-e", "target"], check=True)
subprocess.run(["git", "-C", wt, "apply", os.path.join(d, "patch.diff")], check=True)
h = os.path.join(scratch, "harness")
shutil.copytree("/verif/harness", h, ignore=shutil.ignore_patterns("target*"))
ct = open(os.path.join(h, "Cargo.toml")).read().replace('path = "/repo/', f'path = "{wt}/')
open(os.path.join(h, "Cargo.toml"), "w").write(ct)
env = dict(os.environ, VERIF_SKIP_PROOF="1", VERIF_HARNESS_DIR=h, VERIF_REPO=wt, VERIF_WORK_DIR=os.path.join(scratch, "work"),
           VERIF_REPLAYS_DIR=os.path.join(scratch, "replays"), VERIF_EVIDENCE_DIR=os.path.join(scratch, "evidence"))
res = {}
try:
    for p in props:
        r = subprocess.run(["./check", p], cwd="/verif", capture_output=True, text=True, env=env)
        lines = [l for l in r.stdout.splitlines() if l.startswith("VIOLATION")]
        first_detail = ""
        if lines:
            m = re.search(r"replay=(\S+)", lines[0])
            if m and os.path.exists(m.group(1)):
                first_detail = "".join(open(m.group(1)).readlines()[:3])[:600]
        res[p] = {"rc": r.returncode, "violations": len(lines), "first": lines[:1], "detail": first_detail,
                  "nfi": any("no-failing-input-found" in l for l in lines)}
        print(sid, p, "ALARM" if r.returncode else "quiet", lines[:1], flush=True)
finally:
    subprocess.run(["git", "-C", wt, "checkout", "-q", "--", "."], check=True)
    shutil.rmtree(scratch, ignore_errors=True)
# merge into what earlier runs recorded (a run may cover only some properties); `_run` says which /verif commit produced each entry
det = os.path.join(d, "detected.json")
old = json.load(open(det)) if os.path.exists(det) else {}
head = subprocess.run(["git", "-C", "/verif", "rev-parse", "--short", "HEAD"], capture_output=True, text=True).stdout.strip()
for p_, v in res.items():
    v["_run"] = head
    old[p_] = v
json.dump(old, open(det, "w"), indent=1)
print(sid, "alarmed:", [p for p, v in res.items() if v["rc"]])
