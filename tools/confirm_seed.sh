#!/bin/bash
# usage: confirm_seed.sh <out-dir with patch.diff, demo, demo_path.txt> <scratch worktree>
# Confirms: with the patch the whole existing suite passes and the demo fails; without it the demo passes.
set -u
OUT=$1; WT=$2
export CARGO_NET_OFFLINE=true CARGO_TARGET_DIR=$WT/target
cd $WT && git checkout -q -- . && git clean -fdq -e target
git apply --check $OUT/patch.diff || { echo "PATCH-DOES-NOT-APPLY"; exit 2; }
git apply $OUT/patch.diff
echo "== existing suite with the patch"
cargo test --workspace --offline 2>&1 | grep -E "^test result|FAILED|error(\[|:)" | sort | uniq -c | head -20
SUITE_RC=${PIPESTATUS[0]}
# install the demo
DEMO_DST=$(grep -oE '[a-z0-9-]+/tests/[A-Za-z0-9_]+\.rs' $OUT/demo_path.txt | head -1)
DEMO_SRC=$(ls $OUT/*.rs | head -1)
CRATE=$(echo $DEMO_DST | cut -d/ -f1)
TNAME=$(basename $DEMO_DST .rs)
FEAT=""; [ -f $OUT/demo_features.txt ] && FEAT="--features $(cat $OUT/demo_features.txt)"
mkdir -p $(dirname $DEMO_DST) && cp $DEMO_SRC $DEMO_DST
echo "== demo WITH the patch ($CRATE --test $TNAME)"
cargo test -p $CRATE --offline $FEAT --test $TNAME 2>&1 | grep -E "^test result|panicked|error(\[|:)" | head -5
WITH_RC=${PIPESTATUS[0]}
git apply -R $OUT/patch.diff
echo "== demo WITHOUT the patch"
cargo test -p $CRATE --offline $FEAT --test $TNAME 2>&1 | grep -E "^test result|panicked|error(\[|:)" | head -5
WITHOUT_RC=${PIPESTATUS[0]}
git checkout -q -- . && git clean -fdq -e target
echo "SUMMARY suite_rc=$SUITE_RC demo_with_rc=$WITH_RC demo_without_rc=$WITHOUT_RC demo=$DEMO_DST"
if [ $SUITE_RC -eq 0 ] && [ $WITH_RC -ne 0 ] && [ $WITHOUT_RC -eq 0 ]; then echo CONFIRMED; else echo NOT-CONFIRMED; fi
