#!/usr/bin/env python3
"""Source fingerprints of the files each property is anchored in (properties.jsonl → anchors.files).
`fingerprint.py write` records the fingerprints of /repo's current tree in /verif/source_fingerprints.json (done when the model
is brought up to date with the source); `changed(prop)` (used by ./check) lists the anchor files whose code differs from the
recorded state.  Comments and whitespace are ignored, so reformatting or re-commenting a file does not count as a change."""
import json, os, re, hashlib, sys
ROOT = os.path.dirname(os.path.dirname(os.path.abspath(__file__)))
REPO = os.environ.get("VERIF_REPO") or "/repo"      # VERIF_REPO: mutation tooling only (scratch worktree)
FP = os.path.join(ROOT, "source_fingerprints.json")


def normalise(src):
    src = re.sub(r"/\*.*?\*/", " ", src, flags=re.S)
    src = re.sub(r"//[^\n]*", " ", src)
    return re.sub(r"\s+", " ", src).strip()


def file_fp(rel):
    p = os.path.join(REPO, rel)
    if not os.path.exists(p):
        return "missing"
    return hashlib.sha256(normalise(open(p, encoding="utf-8", errors="replace").read()).encode()).hexdigest()[:20]


def anchors():
    out = {}
    for l in open(os.path.join(ROOT, "properties.jsonl")):
        p = json.loads(l)
        out[p["id"]] = sorted(set(p["anchors"]["files"]))
    return out


def head_fp(rel):
    import subprocess
    r = subprocess.run(["git", "-C", REPO, "show", f"HEAD:{rel}"], capture_output=True)
    if r.returncode != 0:
        return "missing"
    return hashlib.sha256(normalise(r.stdout.decode("utf-8", errors="replace")).encode()).hexdigest()[:20]


def all_src_files():
    import subprocess
    r = subprocess.run(["git", "-C", REPO, "ls-files", "*/src/*.rs", "*/src/**/*.rs"], capture_output=True, text=True)
    tracked = set(r.stdout.split())
    # plus files present in the working tree but not (yet) tracked
    for crate in os.listdir(REPO):
        d = os.path.join(REPO, crate, "src")
        if os.path.isdir(d):
            for dp, _, fs in os.walk(d):
                for f in fs:
                    if f.endswith(".rs"):
                        tracked.add(os.path.relpath(os.path.join(dp, f), REPO))
    return sorted(tracked)


def write():
    """fingerprints of /repo's committed HEAD (the tree the model was last validated against)"""
    files = all_src_files()
    json.dump({f: head_fp(f) for f in files}, open(FP, "w"), indent=1, sort_keys=True)
    print(f"recorded {len(files)} files in {FP}")


def changed(prop):
    """source files (code, not comments/whitespace) that differ from the recorded state and belong to a crate the
    property is anchored in"""
    if not os.path.exists(FP):
        return None
    rec = json.load(open(FP))
    crates = {f.split("/")[0] for f in anchors().get(prop, [])}
    cur = all_src_files()
    diff = [f for f in sorted(set(cur) | set(rec)) if rec.get(f, "missing") != file_fp(f)]
    return [f for f in diff if f.split("/")[0] in crates]


if __name__ == "__main__":
    if sys.argv[1:] == ["write"]:
        write()
    else:
        for p in sorted(anchors()):
            print(p, changed(p))
