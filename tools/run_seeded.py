#!/usr/bin/env python3
"""usage: run_seeded.py <seeded-dir> [props...]   — applies <dir>/patch.diff to /repo, runs the quick checks,
undoes the patch, prints which properties alarmed, and stores the result in <dir>/detected.json."""
import sys, subprocess, json, os, re
d = os.path.abspath(sys.argv[1])
props = sys.argv[2:] or [f"C{i:02d}" for i in range(1, 18)]
patch = os.path.join(d, "patch.diff")
st = subprocess.run(["git", "-C", "/repo", "status", "--porcelain"], capture_output=True, text=True).stdout.strip()
assert st == "", "/repo not clean: " + st
subprocess.run(["git", "-C", "/repo", "apply", patch], check=True)
res = {}
try:
    for p in props:
        r = subprocess.run(["./check", p], cwd="/verif", capture_output=True, text=True, env=dict(os.environ, VERIF_SKIP_PROOF="1", VERIF_EVIDENCE_DIR="/verif/work/evidence_seeded"))
        lines = [l for l in r.stdout.splitlines() if l.startswith("VIOLATION")]
        res[p] = {"rc": r.returncode, "violations": len(lines), "first": lines[:1],
                  "nfi": any("no-failing-input-found" in l for l in lines)}
        print(p, "ALARM" if r.returncode else "quiet", lines[:1])
finally:
    subprocess.run(["git", "-C", "/repo", "checkout", "--", "."], check=True)
json.dump(res, open(os.path.join(d, "detected.json"), "w"), indent=1)
print("alarmed:", [p for p, v in res.items() if v["rc"]])
