#!/bin/bash
# usage: tools/coverage.sh   — measures which lines of /repo's src the correspondence harness executes during the quick checks.
# Builds the harness twice with `-C instrument-coverage` (nightly toolchain; once with feature zeroize) into /tmp/cov (scratch,
# removed at the end), runs `./check all` with those binaries, merges the profiles and writes /verif/coverage/REPORT.md
# (per-file line coverage of /repo/*/src and the list of lines never executed).  Not part of any registered check.
set -eu
COV=/tmp/cov; BIN=/root/.rustup/toolchains/nightly-x86_64-unknown-linux-gnu/lib/rustlib/x86_64-unknown-linux-gnu/bin
mkdir -p $COV/prof; rm -f $COV/prof/*
cd /verif/harness
RUSTFLAGS="-C instrument-coverage" CARGO_NET_OFFLINE=true cargo +nightly build --offline --target-dir $COV/target 2>&1 | tail -1
RUSTFLAGS="-C instrument-coverage" CARGO_NET_OFFLINE=true cargo +nightly build --offline --features zeroize --target-dir $COV/target-z 2>&1 | tail -1
cd /verif
LLVM_PROFILE_FILE="$COV/prof/%p-%m.profraw" VERIF_HBIN=$COV/target/debug/bm-harness VERIF_HBIN_ZEROIZE=$COV/target-z/debug/bm-harness \
  VERIF_SKIP_PROOF=1 VERIF_EVIDENCE_DIR=$COV/ev VERIF_REPLAYS_DIR=$COV/replays VERIF_WORK_DIR=$COV/work ./check all | grep '^#' || true
$BIN/llvm-profdata merge -sparse $COV/prof/*.profraw -o $COV/all.profdata
mkdir -p /verif/coverage
SRCS=$(cd /repo && git ls-files '*/src/*.rs' '*/src/**/*.rs' | sed 's|^|/repo/|')
$BIN/llvm-cov report -instr-profile=$COV/all.profdata $COV/target/debug/bm-harness -object $COV/target-z/debug/bm-harness $SRCS > $COV/report.txt 2>/dev/null
$BIN/llvm-cov show -instr-profile=$COV/all.profdata $COV/target/debug/bm-harness -object $COV/target-z/debug/bm-harness $SRCS --show-instantiations=false > $COV/show.txt 2>/dev/null
python3 /verif/tools/coverage_report.py $COV/report.txt $COV/show.txt > /verif/coverage/REPORT.md
tail -5 /verif/coverage/REPORT.md
rm -rf $COV
