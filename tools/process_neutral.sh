#!/bin/bash
# usage: process_neutral.sh <Nk> <variant>  — a behaviour-preserving change from /tmp/seedout/<Nk>/<variant>/patch.diff:
# the existing suite must pass with it; it is imported as seeded/N-<next letter>; all quick checks are run against it and must be quiet.
set -u
P=$1; V=$2
OUT=/tmp/seedout/$P/$V; WT=${WTBASE:-/tmp/wt}/$P
cd $WT && git checkout -q -- . && git clean -fdq -e target
git apply --check $OUT/patch.diff || { echo "PATCH-DOES-NOT-APPLY $P/$V"; exit 2; }
git apply $OUT/patch.diff
CARGO_NET_OFFLINE=true CARGO_TARGET_DIR=$WT/target cargo test --workspace --offline > $OUT/suite.log 2>&1
RC=$?
git checkout -q -- . && git clean -fdq -e target
[ $RC -eq 0 ] || { echo "SUITE FAILS with $P/$V"; exit 1; }
ID=""
for L in h i j k l m n o p q r s t u v w x y z aa ab ac ad ae af ag ah ai aj ak al; do
  if mkdir /verif/seeded/N-$L 2>/dev/null; then ID=N-$L; break; fi
done
cp $OUT/patch.diff $OUT/notes.md /verif/seeded/$ID/
python3 - <<PY
import json
notes=open("$OUT/notes.md").read()
json.dump({"id":"$ID","breaks_property":None,"kind":"behaviour-preserving change (must be quiet on all checks)","source":"independent sub-agent given only the task of writing risky-looking but behaviour-preserving refactors and a scratch worktree",
 "summary":notes[:1500],"confirmed":"existing suite passes with the patch (scratch worktree)"}, open("/verif/seeded/$ID/meta.json","w"), indent=1)
PY
python3 /verif/tools/run_seeded_wt.py /verif/seeded/$ID $WT 2>&1 | tail -1
