#!/usr/bin/env python3
"""usage: import_seed.py <out-dir> <seed-id> <property> — copies a confirmed seeded change into /verif/seeded/<seed-id>/"""
import sys, os, shutil, json, glob
out, sid, prop = sys.argv[1:4]
dst = f"/verif/seeded/{sid}"
os.makedirs(dst, exist_ok=True)
for f in ["patch.diff", "demo_path.txt", "notes.md"]:
    if os.path.exists(os.path.join(out, f)):
        shutil.copy(os.path.join(out, f), dst)
for f in glob.glob(os.path.join(out, "*.rs")):
    shutil.copy(f, dst)
notes = open(os.path.join(out, "notes.md")).read() if os.path.exists(os.path.join(out, "notes.md")) else ""
meta = {"id": sid, "breaks_property": prop, "source": "independent sub-agent given only the property text and a scratch worktree",
        "needs_to_manifest": notes[:1500],
        "confirmed": "tools/confirm_seed.sh: existing suite passes with the patch; demonstration fails with it and passes without it (scratch worktree)"}
json.dump(meta, open(os.path.join(dst, "meta.json"), "w"), indent=1)
print("imported", dst)
