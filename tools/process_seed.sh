#!/bin/bash
# usage: process_seed.sh <prop> <variant a|b>   — confirm in the scratch worktree, import under the next free id S-<prop>-<letter>,
# run all quick checks against it in the scratch worktree (tools/run_seeded_wt.py; /repo is not touched)
set -u
P=$1; V=$2
OUT=/tmp/seedout/$P/$V; WT=${WTBASE:-/tmp/wt}/$P
/verif/tools/confirm_seed.sh $OUT $WT > $OUT/confirm.log 2>&1
tail -2 $OUT/confirm.log
grep -q '^CONFIRMED' $OUT/confirm.log || { echo "NOT CONFIRMED $P/$V"; exit 1; }
ID=""
for L in a b c d e f g h i j k l m n o p q r s t u v w x y z; do
  if mkdir /verif/seeded/S-$P-$L 2>/dev/null; then ID=S-$P-$L; break; fi
done
[ -n "$ID" ] || { echo "no free id"; exit 1; }
python3 /verif/tools/import_seed.py $OUT $ID $P
cp $OUT/confirm.log /verif/seeded/$ID/confirm.log
python3 /verif/tools/run_seeded_wt.py /verif/seeded/$ID $WT 2>&1 | tail -1
