#!/bin/bash
# usage: process_seed.sh <prop> <variant a|b> <new-seed-id>   — confirm in the scratch worktree, import, run all quick checks against it
# (run_seeded.py applies the patch to /repo and undoes it; a lock keeps two runs from overlapping)
set -u
P=$1; V=$2; ID=$3
OUT=/tmp/seedout/$P/$V; WT=${WTBASE:-/tmp/wt}/$P
/verif/tools/confirm_seed.sh $OUT $WT > $OUT/confirm.log 2>&1
tail -2 $OUT/confirm.log
grep -q '^CONFIRMED' $OUT/confirm.log || { echo "NOT CONFIRMED $ID"; exit 1; }
python3 /verif/tools/import_seed.py $OUT $ID $P
( flock 9; cd /verif && python3 tools/run_seeded.py seeded/$ID 2>&1 | tail -1 ) 9>/tmp/run_seeded.lock
