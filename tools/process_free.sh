#!/bin/bash
# usage: process_free.sh <Fk>  — a change whose target property the sub-agent chose itself (/tmp/seedout/<Fk>/a/property_id.txt)
set -u
F=$1
OUT=/tmp/seedout/$F/a; WT=${WTBASE:-/tmp/wt}/$F
P=$(tr -d ' \n\r' < $OUT/property_id.txt)
case "$P" in C0[1-9]|C1[0-7]) ;; *) echo "bad property id '$P'"; exit 2;; esac
/verif/tools/confirm_seed.sh $OUT $WT > $OUT/confirm.log 2>&1
tail -2 $OUT/confirm.log
grep -q '^CONFIRMED' $OUT/confirm.log || { echo "NOT CONFIRMED $F"; exit 1; }
ID=""
for L in a b c d e f g h i j k l m n o p q r s t u v w x y z; do
  if mkdir /verif/seeded/S-$P-$L 2>/dev/null; then ID=S-$P-$L; break; fi
done
python3 /verif/tools/import_seed.py $OUT $ID $P
cp $OUT/confirm.log /verif/seeded/$ID/confirm.log
python3 /verif/tools/run_seeded_wt.py /verif/seeded/$ID $WT 2>&1 | tail -1
