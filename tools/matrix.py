#!/usr/bin/env python3
"""Writes seeded/MATRIX.md: which quick checks alarm on which seeded change (from seeded/*/detected.json, produced by
tools/run_seeded.py).  S-* = a change that breaks the named property (must alarm on it); N-* = behaviour-preserving (must stay quiet)."""
import json, os, glob
root = "/verif/seeded"
props = [f"C{i:02d}" for i in range(1, 18)]
rows = []
for d in sorted(glob.glob(os.path.join(root, "*"))):
    if not os.path.isdir(d):
        continue
    sid = os.path.basename(d)
    meta = json.load(open(os.path.join(d, "meta.json"))) if os.path.exists(os.path.join(d, "meta.json")) else {}
    det = os.path.join(d, "detected.json")
    if not os.path.exists(det):
        rows.append((sid, meta, None))
        continue
    rows.append((sid, meta, json.load(open(det))))
with open(os.path.join(root, "MATRIX.md"), "w") as fh:
    fh.write("# Seeded changes × quick checks\n\n`X` = the check printed a VIOLATION line with a concrete failing input; `n` = VIOLATION … no-failing-input-found; `.` = quiet.\n"
             "Target column: the property the change was written to break (`-` for behaviour-preserving changes, which must be quiet everywhere).\n\n")
    fh.write("| seed | target | " + " | ".join(p[1:] for p in props) + " | caught |\n|---|---|" + "---|" * (len(props) + 1) + "\n")
    miss = []
    for sid, meta, det in rows:
        tgt = meta.get("breaks_property") or "-"
        if det is None:
            fh.write(f"| {sid} | {tgt} | " + " | ".join("?" for _ in props) + " | not run |\n")
            continue
        cells = []
        for p in props:
            v = det.get(p)
            cells.append("?" if v is None else ("n" if v.get("nfi") else ("X" if v["rc"] else ".")))
        any_alarm = any(c in "Xn" for c in cells)
        if tgt == "-":
            verdict = "quiet (ok)" if not any_alarm else "FALSE ALARM"
        else:
            on_target = det.get(tgt, {}).get("rc", 0)
            verdict = "yes (on target)" if on_target else ("yes (other property only)" if any_alarm else "MISSED")
        if verdict in ("MISSED", "FALSE ALARM"):
            miss.append(sid)
        fh.write(f"| {sid} | {tgt} | " + " | ".join(cells) + f" | {verdict} |\n")
    fh.write(f"\n{len(rows)} changes; problems: {miss or 'none'}\n")
print(open(os.path.join(root, "MATRIX.md")).read()[-600:])
