//! Correspondence harness: executes an operation file (line protocol, see DESIGN.md §4.2) on the real
//! public types of /repo (path dependencies, so the current working tree is what gets compiled) and
//! prints exactly one observation line per input line.

mod logged;
mod objs;
mod toy;
#[cfg(feature = "zeroize")]
mod dropscan;

use objs::*;
use std::io::{BufRead, Write};
use std::panic::{AssertUnwindSafe, catch_unwind};
use toy::Toy;

macro_rules! dispatch {
    ($bs:expr, $w:expr, $C:ident => $body:expr ; $( ($b:literal, $wl:literal, $BS:ident, $W:ident) ),* ) => {
        match ($bs, $w) {
            $( ($b, $wl) => { type $C = Toy<cipher::consts::$BS, cipher::consts::$W>; Some($body) } )*
            _ => None,
        }
    };
}
// real ciphers (thorough tier): the pseudo-width `w >= 101` of the header names the cipher
macro_rules! real16 {
    ($w:expr, $C:ident => $body:expr) => {
        match $w {
            101 => { type $C = logged::Logged<aes::Aes128>; Some($body) }
            102 => { type $C = logged::Logged<aes::Aes256>; Some($body) }
            103 => { type $C = logged::Logged<belt_block::BeltBlock>; Some($body) }
            104 => { type $C = logged::Logged<kuznyechik::Kuznyechik>; Some($body) }
            _ => None,
        }
    };
}
macro_rules! real8 {
    ($w:expr, $C:ident => $body:expr) => {
        match $w {
            105 => { type $C = logged::Logged<magma::Magma>; Some($body) }
            _ => None,
        }
    };
}

macro_rules! matrix_all_toy {
    ($bs:expr, $w:expr, $C:ident => $body:expr) => {
        dispatch!($bs, $w, $C => $body ;
            (1,1,U1,U1), (1,4,U1,U4), (2,3,U2,U3), (2,5,U2,U5), (3,2,U3,U2), (4,1,U4,U1), (4,4,U4,U4), (4,8,U4,U8), (4,12,U4,U12), (4,260,U4,U260), (5,5,U5,U5), (7,2,U7,U2),
            (8,1,U8,U1), (8,3,U8,U3), (8,20,U8,U20), (12,4,U12,U4), (16,1,U16,U1), (16,2,U16,U2), (16,3,U16,U3),
            (16,8,U16,U8), (16,16,U16,U16), (16,256,U16,U256), (24,2,U24,U2), (32,4,U32,U4), (48,3,U48,U3), (64,2,U64,U2), (255,2,U255,U2))
    };
}
macro_rules! matrix_div4_toy {
    ($bs:expr, $w:expr, $C:ident => $body:expr) => {
        dispatch!($bs, $w, $C => $body ;
            (4,1,U4,U1), (4,4,U4,U4), (4,8,U4,U8), (4,12,U4,U12), (4,260,U4,U260), (8,1,U8,U1), (8,3,U8,U3), (8,20,U8,U20), (12,4,U12,U4), (16,1,U16,U1), (16,2,U16,U2),
            (16,3,U16,U3), (16,8,U16,U8), (16,16,U16,U16), (16,256,U16,U256), (24,2,U24,U2), (32,4,U32,U4), (48,3,U48,U3), (64,2,U64,U2))
    };
}
macro_rules! matrix_div8_toy {
    ($bs:expr, $w:expr, $C:ident => $body:expr) => {
        dispatch!($bs, $w, $C => $body ;
            (8,1,U8,U1), (8,3,U8,U3), (8,20,U8,U20), (16,1,U16,U1), (16,2,U16,U2),
            (16,3,U16,U3), (16,8,U16,U8), (16,16,U16,U16), (16,256,U16,U256), (24,2,U24,U2), (32,4,U32,U4), (48,3,U48,U3), (64,2,U64,U2))
    };
}
macro_rules! matrix_div16_toy {
    ($bs:expr, $w:expr, $C:ident => $body:expr) => {
        dispatch!($bs, $w, $C => $body ;
            (16,1,U16,U1), (16,2,U16,U2), (16,3,U16,U3), (16,8,U16,U8), (16,16,U16,U16), (16,256,U16,U256), (32,4,U32,U4), (48,3,U48,U3), (64,2,U64,U2))
    };
}
macro_rules! matrix_16_toy {
    ($bs:expr, $w:expr, $C:ident => $body:expr) => {
        dispatch!($bs, $w, $C => $body ;
            (16,1,U16,U1), (16,2,U16,U2), (16,3,U16,U3), (16,8,U16,U8), (16,16,U16,U16), (16,256,U16,U256))
    };
}

macro_rules! matrix_all {
    ($bs:expr, $w:expr, $C:ident => $body:expr) => {
        if $bs == 16 && ($w >= 101 && $w <= 109) { real16!($w, $C => $body) } else if $bs == 8 && ($w >= 101 && $w <= 109) { real8!($w, $C => $body) } else { matrix_all_toy!($bs, $w, $C => $body) }
    };
}
macro_rules! matrix_div4 {
    ($bs:expr, $w:expr, $C:ident => $body:expr) => {
        if $bs == 16 && ($w >= 101 && $w <= 109) { real16!($w, $C => $body) } else if $bs == 8 && ($w >= 101 && $w <= 109) { real8!($w, $C => $body) } else { matrix_div4_toy!($bs, $w, $C => $body) }
    };
}
macro_rules! matrix_div8 {
    ($bs:expr, $w:expr, $C:ident => $body:expr) => {
        if $bs == 16 && ($w >= 101 && $w <= 109) { real16!($w, $C => $body) } else if $bs == 8 && ($w >= 101 && $w <= 109) { real8!($w, $C => $body) } else { matrix_div8_toy!($bs, $w, $C => $body) }
    };
}
macro_rules! matrix_div16 {
    ($bs:expr, $w:expr, $C:ident => $body:expr) => {
        if $bs == 16 && ($w >= 101 && $w <= 109) { real16!($w, $C => $body) } else { matrix_div16_toy!($bs, $w, $C => $body) }
    };
}
macro_rules! matrix_16 {
    ($bs:expr, $w:expr, $C:ident => $body:expr) => {
        if $bs == 16 && ($w >= 101 && $w <= 109) { real16!($w, $C => $body) } else { matrix_16_toy!($bs, $w, $C => $body) }
    };
}
fn make(family: &str, mode: &str, bs: usize, w: usize, key: &[u8], iv: &[u8]) -> Option<Box<dyn Obj>> {
    use ctr::flavors as fl;
    match (family, mode) {
        ("block", "cbc-enc") => matrix_all!(bs, w, C => BlockObj::<cbc::Encryptor<C>>::new(key, iv)),
        ("block", "cbc-dec") => matrix_all!(bs, w, C => BlockObj::<cbc::Decryptor<C>>::new(key, iv)),
        ("block", "pcbc-enc") => matrix_all!(bs, w, C => BlockObj::<pcbc::Encryptor<C>>::new(key, iv)),
        ("block", "pcbc-dec") => matrix_all!(bs, w, C => BlockObj::<pcbc::Decryptor<C>>::new(key, iv)),
        ("block", "ige-enc") => matrix_all!(bs, w, C => BlockObj::<ige::Encryptor<C>>::new(key, iv)),
        ("block", "ige-dec") => matrix_all!(bs, w, C => BlockObj::<ige::Decryptor<C>>::new(key, iv)),
        ("block", "cfb-enc") => matrix_all!(bs, w, C => BlockObj::<cfb_mode::Encryptor<C>>::new(key, iv)),
        ("block", "cfb-dec") => matrix_all!(bs, w, C => BlockObj::<cfb_mode::Decryptor<C>>::new(key, iv)),
        ("block", "cfb8-enc") => matrix_all!(bs, w, C => BlockObj::<cfb8::Encryptor<C>>::new(key, iv)),
        ("block", "cfb8-dec") => matrix_all!(bs, w, C => BlockObj::<cfb8::Decryptor<C>>::new(key, iv)),
        ("block", "ofb-enc") => matrix_all!(bs, w, C => BlockObj::<OfbEnc<C>>::new(key, iv)),
        ("block", "ofb-dec") => matrix_all!(bs, w, C => BlockObj::<OfbDec<C>>::new(key, iv)),
        ("buf", "cfbbuf-enc") => matrix_all!(bs, w, C => BufObj::<C, true>::new(key, iv)),
        ("buf", "cfbbuf-dec") => matrix_all!(bs, w, C => BufObj::<C, false>::new(key, iv)),
        ("stream", "ctr32be") => matrix_div4!(bs, w, C => StreamObj::<ctr::CtrCore<C, fl::Ctr32BE>>::new_alias(key, iv, alias_ks!(ctr::Ctr32BE<C>))),
        ("stream", "ctr32le") => matrix_div4!(bs, w, C => StreamObj::<ctr::CtrCore<C, fl::Ctr32LE>>::new_alias(key, iv, alias_ks!(ctr::Ctr32LE<C>))),
        ("stream", "ctr64be") => matrix_div8!(bs, w, C => StreamObj::<ctr::CtrCore<C, fl::Ctr64BE>>::new_alias(key, iv, alias_ks!(ctr::Ctr64BE<C>))),
        ("stream", "ctr64le") => matrix_div8!(bs, w, C => StreamObj::<ctr::CtrCore<C, fl::Ctr64LE>>::new_alias(key, iv, alias_ks!(ctr::Ctr64LE<C>))),
        ("stream", "ctr128be") => matrix_div16!(bs, w, C => StreamObj::<ctr::CtrCore<C, fl::Ctr128BE>>::new_alias(key, iv, alias_ks!(ctr::Ctr128BE<C>))),
        ("stream", "ctr128le") => matrix_div16!(bs, w, C => StreamObj::<ctr::CtrCore<C, fl::Ctr128LE>>::new_alias(key, iv, alias_ks!(ctr::Ctr128LE<C>))),
        ("stream", "ofb") => matrix_all!(bs, w, C => StreamObj::<ofb::OfbCore<C>>::new_alias(key, iv, alias_ks!(ofb::Ofb<C>))),
        ("stream", "belt") => matrix_16!(bs, w, C => StreamObj::<belt_ctr::BeltCtrCore<C>>::new_alias_probe(key, iv, alias_ks!(belt_ctr::BeltCtr<C>), maybe_clone_fn!(belt_ctr::BeltCtr<C>))),
        ("core", "ctr32be") => matrix_div4!(bs, w, C => CoreObj::<ctr::CtrCore<C, fl::Ctr32BE>>::new(key, iv)),
        ("core", "ctr32le") => matrix_div4!(bs, w, C => CoreObj::<ctr::CtrCore<C, fl::Ctr32LE>>::new(key, iv)),
        ("core", "ctr64be") => matrix_div8!(bs, w, C => CoreObj::<ctr::CtrCore<C, fl::Ctr64BE>>::new(key, iv)),
        ("core", "ctr64le") => matrix_div8!(bs, w, C => CoreObj::<ctr::CtrCore<C, fl::Ctr64LE>>::new(key, iv)),
        ("core", "ctr128be") => matrix_div16!(bs, w, C => CoreObj::<ctr::CtrCore<C, fl::Ctr128BE>>::new(key, iv)),
        ("core", "ctr128le") => matrix_div16!(bs, w, C => CoreObj::<ctr::CtrCore<C, fl::Ctr128LE>>::new(key, iv)),
        ("core", "ofb") => matrix_all!(bs, w, C => CoreObj::<ofb::OfbCore<C>>::new(key, iv)),
        ("core", "belt") => matrix_16!(bs, w, C => CoreObj::<belt_ctr::BeltCtrCore<C>>::new_probe(key, iv, maybe_clone_fn!(belt_ctr::BeltCtrCore<C>))),
        ("cts", "cbccs1") => matrix_all!(bs, w, C => CtsObj::<cts::CbcCs1<C>>::new_dbg(key, iv, |k: &[u8], v: &[u8]| { let m = <cts::CbcCs1<C> as cipher::KeyIvInit>::new(k.try_into().unwrap(), v.try_into().unwrap()); maybe_debug!(m) })),
        ("cts", "cbccs2") => matrix_all!(bs, w, C => CtsObj::<cts::CbcCs2<C>>::new_dbg(key, iv, |k: &[u8], v: &[u8]| { let m = <cts::CbcCs2<C> as cipher::KeyIvInit>::new(k.try_into().unwrap(), v.try_into().unwrap()); maybe_debug!(m) })),
        ("cts", "cbccs3") => matrix_all!(bs, w, C => CtsObj::<cts::CbcCs3<C>>::new_dbg(key, iv, |k: &[u8], v: &[u8]| { let m = <cts::CbcCs3<C> as cipher::KeyIvInit>::new(k.try_into().unwrap(), v.try_into().unwrap()); maybe_debug!(m) })),
        ("cts", "ecbcs1") => matrix_all!(bs, w, C => CtsObj::<cts::EcbCs1<C>>::new_dbg(key, iv, |k: &[u8], _v: &[u8]| { let m = <cts::EcbCs1<C> as cipher::KeyInit>::new(k.try_into().unwrap()); maybe_debug!(m) })),
        ("cts", "ecbcs2") => matrix_all!(bs, w, C => CtsObj::<cts::EcbCs2<C>>::new_dbg(key, iv, |k: &[u8], _v: &[u8]| { let m = <cts::EcbCs2<C> as cipher::KeyInit>::new(k.try_into().unwrap()); maybe_debug!(m) })),
        ("cts", "ecbcs3") => matrix_all!(bs, w, C => CtsObj::<cts::EcbCs3<C>>::new_dbg(key, iv, |k: &[u8], _v: &[u8]| { let m = <cts::EcbCs3<C> as cipher::KeyInit>::new(k.try_into().unwrap()); maybe_debug!(m) })),
        ("toy", _) => matrix_all!(bs, w, C => RawObj::<C>::new(key)),
        _ => None,
    }
}

fn kv<'a>(toks: &[&'a str], k: &str) -> Option<&'a str> {
    for t in toks {
        if let Some((a, b)) = t.split_once('=') {
            if a == k {
                return Some(b);
            }
        }
    }
    None
}

struct Case {
    pool: Vec<Box<dyn Obj>>,
    cur: usize,
    // what `fresh <key> <iv>` needs to construct another object of the same type
    family: String,
    mode: String,
    bs: usize,
    w: usize,
}

fn main() {
    // quiet panics: they are reported as an observation
    std::panic::set_hook(Box::new(|_| {}));
    let args: Vec<String> = std::env::args().collect();
    #[cfg(feature = "zeroize")]
    if args.get(1).map(|s| s.as_str()) == Some("dropscan") {
        dropscan::run(&args[2..]);
        return;
    }
    let interactive = args.iter().any(|a| a == "--interactive");
    let stdin = std::io::stdin();
    let stdout = std::io::stdout();
    let mut out = std::io::BufWriter::new(stdout.lock());
    let mut case: Option<Case> = None;
    let mut in_bad_case = false;
    for l in stdin.lock().lines() {
        let l = l.unwrap();
        let toks: Vec<&str> = l.split_whitespace().collect();
        if toks.is_empty() || toks[0].starts_with('#') {
            continue;
        }
        let obs: String = if toks[0] == "case" {
            let id = toks.get(1).copied().unwrap_or("?");
            let made = (|| {
                let family = *toks.get(2)?;
                let mode = *toks.get(3)?;
                let bs: usize = kv(&toks, "bs")?.parse().ok()?;
                let w: usize = kv(&toks, "w")?.parse().ok()?;
                let key = unhex(kv(&toks, "key")?)?;
                let iv = unhex(kv(&toks, "iv")?)?;
                toy::reset_calls();
                logged::reset_log();
                let o = catch_unwind(AssertUnwindSafe(|| make(family, mode, bs, w, &key, &iv))).ok()??;
                Some((o, family.to_string(), mode.to_string(), bs, w))
            })();
            match made {
                Some((o, family, mode, bs, w)) => {
                    case = Some(Case { pool: vec![o], cur: 0, family, mode, bs, w });
                    in_bad_case = false;
                    format!("case {}", id)
                }
                None => {
                    case = None;
                    in_bad_case = true;
                    format!("case {} bad-op", id)
                }
            }
        } else if toks[0] == "end" {
            case = None;
            in_bad_case = false;
            "end".into()
        } else if in_bad_case || case.is_none() {
            "bad-op".into()
        } else {
            let c = case.as_mut().unwrap();
            match toks.as_slice() {
                ["clone"] => {
                    match c.pool[c.cur].boxed_clone() {
                        Some(o) => {
                            c.pool.push(o);
                            "ok".into()
                        }
                        None => "noclone".into(),
                    }
                }
                ["use", i] => match i.parse::<usize>() {
                    Ok(k) if k < c.pool.len() => {
                        c.cur = k;
                        "ok".into()
                    }
                    _ => "bad-op".into(),
                },
                ["clonefrom", i] => match i.parse::<usize>() {
                    Ok(k) if k < c.pool.len() => {
                        let cur = c.cur;
                        if k == cur {
                            "ok".into()
                        } else {
                            // two distinct pool slots: borrow them disjointly
                            let (lo, hi) = c.pool.split_at_mut(cur.max(k));
                            let (dst, src): (&mut Box<dyn Obj>, &Box<dyn Obj>) =
                                if cur < k { (&mut lo[cur], &hi[0]) } else { (&mut hi[0], &lo[k]) };
                            let r = catch_unwind(AssertUnwindSafe(|| dst.clone_from_dyn(src.as_any())));
                            match r {
                                Ok(true) => "ok".into(),
                                Ok(false) => "noclone".into(),
                                Err(_) => "panic".into(),
                            }
                        }
                    }
                    _ => "bad-op".into(),
                },
                // a separately constructed object of the same type under another key and IV joins the pool
                ["fresh", k, v] => match (unhex(k), unhex(v)) {
                    (Some(key), Some(iv)) => {
                        let (f, m, bs, w) = (c.family.clone(), c.mode.clone(), c.bs, c.w);
                        match catch_unwind(AssertUnwindSafe(|| make(&f, &m, bs, w, &key, &iv))) {
                            Ok(Some(o)) => {
                                c.pool.push(o);
                                "ok".into()
                            }
                            Ok(None) => "bad-op".into(),
                            Err(_) => "panic".into(),
                        }
                    }
                    _ => "bad-op".into(),
                },
                ["dcalls"] => format!("dcalls {}", toy::D_CALLS.load(std::sync::atomic::Ordering::Relaxed)),
                ["table"] => logged::table_line(),
                _ => {
                    let cur = c.cur;
                    let r = catch_unwind(AssertUnwindSafe(|| c.pool[cur].step(&toks)));
                    match r {
                        Ok(Step::Line(s)) => s,
                        Ok(Step::Push(o, s)) => {
                            c.pool.push(o);
                            s
                        }
                        Err(_) => "panic".into(),
                    }
                }
            }
        };
        writeln!(out, "{}", obs).unwrap();
        if interactive {
            out.flush().unwrap();
        }
    }
    out.flush().unwrap();
}
