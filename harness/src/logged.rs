//! `Logged<C>`: a *real* block cipher (aes, belt-block, kuznyechik, magma — /repo's own dev-dependencies) driven
//! through its real backend with its real `ParBlocksSize`; every block that goes through the backend is logged as
//! (direction, input, output).  The log of a case is handed to the Lean driver as a finite table which *is* the
//! model's block cipher for that case (thorough tier; DESIGN §4.1).
//! The 16-byte key of the line protocol is repeated to the cipher's key size.

use cipher::{
    AlgorithmName, Block, BlockCipherDecBackend, BlockCipherDecClosure, BlockCipherDecrypt,
    BlockCipherEncBackend, BlockCipherEncClosure, BlockCipherEncrypt, BlockSizeUser, InOut, Key,
    KeyInit, KeySizeUser, ParBlocks, ParBlocksSizeUser,
    consts::U16,
    typenum::Unsigned,
};
use core::fmt;
use std::sync::Mutex;

pub static LOG: Mutex<Vec<(bool, Vec<u8>, Vec<u8>)>> = Mutex::new(Vec::new());

pub fn reset_log() {
    LOG.lock().unwrap().clear();
}

pub fn table_line() -> String {
    let log = LOG.lock().unwrap();
    let mut s = String::from("table ");
    if log.is_empty() {
        s.push('-');
    }
    let mut seen = std::collections::HashSet::new();
    let mut first = true;
    for (enc, i, o) in log.iter() {
        if !seen.insert((*enc, i.clone())) {
            continue;
        }
        if !first {
            s.push(',');
        }
        first = false;
        s.push(if *enc { 'E' } else { 'D' });
        s.push(':');
        s.push_str(&crate::objs::hex(i));
        s.push(':');
        s.push_str(&crate::objs::hex(o));
    }
    s
}

fn log(enc: bool, i: &[u8], o: &[u8]) {
    LOG.lock().unwrap().push((enc, i.to_vec(), o.to_vec()));
}

#[derive(Clone)]
pub struct Logged<C>(C);

impl<C> KeySizeUser for Logged<C> {
    type KeySize = U16;
}

impl<C: KeyInit> KeyInit for Logged<C> {
    fn new(key: &Key<Self>) -> Self {
        let n = <C::KeySize as Unsigned>::USIZE;
        let mut k = Key::<C>::default();
        for i in 0..n {
            k[i] = key[i % 16];
        }
        Logged(C::new(&k))
    }
}

impl<C: BlockSizeUser> BlockSizeUser for Logged<C> {
    type BlockSize = C::BlockSize;
}

impl<C: AlgorithmName> AlgorithmName for Logged<C> {
    fn write_alg_name(f: &mut fmt::Formatter<'_>) -> fmt::Result {
        C::write_alg_name(f)
    }
}

impl<C> fmt::Debug for Logged<C> {
    fn fmt(&self, f: &mut fmt::Formatter<'_>) -> fmt::Result {
        f.write_str("Logged { .. }")
    }
}

struct EncWrap<F>(F);
impl<F: BlockSizeUser> BlockSizeUser for EncWrap<F> {
    type BlockSize = F::BlockSize;
}
impl<F: BlockCipherEncClosure> BlockCipherEncClosure for EncWrap<F> {
    fn call<B: BlockCipherEncBackend<BlockSize = Self::BlockSize>>(self, backend: &B) {
        self.0.call(&LogEnc(backend))
    }
}
struct LogEnc<'a, B>(&'a B);
impl<B: BlockSizeUser> BlockSizeUser for LogEnc<'_, B> {
    type BlockSize = B::BlockSize;
}
impl<B: ParBlocksSizeUser> ParBlocksSizeUser for LogEnc<'_, B> {
    type ParBlocksSize = B::ParBlocksSize;
}
impl<B: BlockCipherEncBackend> BlockCipherEncBackend for LogEnc<'_, B> {
    fn encrypt_block(&self, mut block: InOut<'_, '_, Block<Self>>) {
        let i = block.clone_in();
        self.0.encrypt_block(block.reborrow());
        log(true, &i, block.get_out());
    }
    fn encrypt_par_blocks(&self, mut blocks: InOut<'_, '_, ParBlocks<Self>>) {
        let ins = blocks.clone_in();
        self.0.encrypt_par_blocks(blocks.reborrow());
        let outs = blocks.get_out();
        for (i, o) in ins.iter().zip(outs.iter()) {
            log(true, i, o);
        }
    }
}

struct DecWrap<F>(F);
impl<F: BlockSizeUser> BlockSizeUser for DecWrap<F> {
    type BlockSize = F::BlockSize;
}
impl<F: BlockCipherDecClosure> BlockCipherDecClosure for DecWrap<F> {
    fn call<B: BlockCipherDecBackend<BlockSize = Self::BlockSize>>(self, backend: &B) {
        self.0.call(&LogDec(backend))
    }
}
struct LogDec<'a, B>(&'a B);
impl<B: BlockSizeUser> BlockSizeUser for LogDec<'_, B> {
    type BlockSize = B::BlockSize;
}
impl<B: ParBlocksSizeUser> ParBlocksSizeUser for LogDec<'_, B> {
    type ParBlocksSize = B::ParBlocksSize;
}
impl<B: BlockCipherDecBackend> BlockCipherDecBackend for LogDec<'_, B> {
    fn decrypt_block(&self, mut block: InOut<'_, '_, Block<Self>>) {
        let i = block.clone_in();
        self.0.decrypt_block(block.reborrow());
        log(false, &i, block.get_out());
    }
    fn decrypt_par_blocks(&self, mut blocks: InOut<'_, '_, ParBlocks<Self>>) {
        let ins = blocks.clone_in();
        self.0.decrypt_par_blocks(blocks.reborrow());
        let outs = blocks.get_out();
        for (i, o) in ins.iter().zip(outs.iter()) {
            log(false, i, o);
        }
    }
}

impl<C: BlockCipherEncrypt> BlockCipherEncrypt for Logged<C> {
    fn encrypt_with_backend(&self, f: impl BlockCipherEncClosure<BlockSize = Self::BlockSize>) {
        self.0.encrypt_with_backend(EncWrap(f))
    }
}
impl<C: BlockCipherDecrypt> BlockCipherDecrypt for Logged<C> {
    fn decrypt_with_backend(&self, f: impl BlockCipherDecClosure<BlockSize = Self::BlockSize>) {
        self.0.decrypt_with_backend(DecWrap(f))
    }
}
