//! C17, zeroize build only: construct a mode object inside a `MaybeUninit` slot, use it, record its
//! chaining secrets (exported IV state, initial IV, next keystream block), run `drop_in_place`, then read
//! the slot's bytes (volatile) and look for any 8-byte window of a secret.
//! Output: `scan <type> clean` | `scan <type> residue <which secret>`.

use crate::toy::{Toy, toy_enc};
use cipher::{
    BlockModeDecrypt, BlockModeEncrypt, IvState, KeyIvInit, StreamCipher, StreamCipherCoreWrapper,
    StreamCipherCore, consts::*,
};
use core::mem::MaybeUninit;

struct Rng(u64);
impl Rng {
    fn next(&mut self) -> u64 {
        self.0 = self.0.wrapping_add(0x9E3779B97F4A7C15);
        let mut z = self.0;
        z = (z ^ (z >> 30)).wrapping_mul(0xBF58476D1CE4E5B9);
        z = (z ^ (z >> 27)).wrapping_mul(0x94D049BB133111EB);
        z ^ (z >> 31)
    }
    /// bytes without zero bytes and without 8-byte repeats (so that a zeroed slot cannot match)
    fn bytes(&mut self, n: usize) -> Vec<u8> {
        (0..n).map(|_| (self.next() % 255 + 1) as u8).collect()
    }
    fn below(&mut self, n: usize) -> usize {
        (self.next() % n as u64) as usize
    }
}

fn find_window(hay: &[u8], secret: &[u8]) -> bool {
    if secret.len() < 8 {
        return false;
    }
    for w in secret.windows(8) {
        // only windows without a zero byte count: a wiped slot is mostly zeros, and a window such as
        // `c7 00 00 00 00 00 00 00` (last counter byte + zero nonce) is matched by any unrelated non-zero byte that
        // happens to precede a wiped field (seen once in ~100 far-position scans: the cipher key's last byte)
        if w.iter().any(|&b| b == 0) {
            continue;
        }
        if hay.windows(8).any(|h| h == w) {
            return true;
        }
    }
    false
}

/// Move `obj` into a slot, let `use_it` drive it and return the secrets to look for, drop it in place,
/// scan the slot.
fn scan<T>(name: &str, obj: T, use_it: impl FnOnce(&mut T) -> Vec<(&'static str, Vec<u8>)>) {
    let mut slot = MaybeUninit::<T>::new(obj);
    let p = slot.as_mut_ptr();
    let secrets = unsafe { use_it(&mut *p) };
    let n = core::mem::size_of::<T>();
    // sanity: before the drop at least one secret must be visible, otherwise the scan proves nothing
    let before: Vec<u8> = (0..n).map(|i| unsafe { core::ptr::read_volatile((p as *const u8).add(i)) }).collect();
    let visible_before = secrets.iter().any(|(_, s)| find_window(&before, s));
    unsafe { core::ptr::drop_in_place(p) };
    let after: Vec<u8> = (0..n).map(|i| unsafe { core::ptr::read_volatile((p as *const u8).add(i)) }).collect();
    let mut res = vec![];
    for (what, s) in &secrets {
        if find_window(&after, s) {
            res.push(*what);
        }
    }
    if !visible_before {
        println!("scan {} blind (no secret visible before drop)", name);
    } else if res.is_empty() {
        println!("scan {} clean", name);
    } else {
        println!("scan {} residue {}", name, res.join(","));
    }
}

macro_rules! block_enc {
    ($rng:expr, $name:expr, $ty:ty, $bs:expr, $ivl:expr, $call:ident, $cfb:expr) => {{
        let key = $rng.bytes(16);
        let iv = $rng.bytes($ivl);
        // mostly 0..2 blocks; now and then many (whatever an object keeps only after a batch, a window wrap, …)
        let nblk = if $rng.below(4) == 0 { $rng.below(70) } else { $rng.below(3) };
        let data = $rng.bytes(nblk * $bs);
        let nmore = $rng.below(3);
        let more = $rng.bytes(nmore * $bs);
        let obj = <$ty as KeyIvInit>::new(key.as_slice().try_into().unwrap(), iv.as_slice().try_into().unwrap());
        let k: [u8; 16] = key.as_slice().try_into().unwrap();
        scan($name, obj, |o| {
            let mut d = data.clone();
            for b in d.chunks_exact_mut($bs) {
                o.$call(b.try_into().unwrap());
            }
            let st = o.iv_state().to_vec();
            let mut secrets = vec![("exported-state", st.clone())];
            if nblk == 0 {
                secrets.push(("iv", iv.clone()));
            }
            if $cfb {
                let mut ks = st.clone();
                toy_enc(&k, &mut ks);
                secrets.push(("next-keystream-block", ks));
            }
            // … and once more after further blocks: the earlier state must not survive either
            let mut d2 = more.clone();
            for b in d2.chunks_exact_mut($bs) {
                o.$call(b.try_into().unwrap());
                secrets.push(("exported-state", o.iv_state().to_vec()));
            }
            secrets
        });
    }};
}

macro_rules! stream_obj {
    ($rng:expr, $name:expr, $core:ty, $bs:expr, $encst:expr) => {{
        let key = $rng.bytes(16);
        let iv = $rng.bytes($bs);
        let n = $rng.below(3 * $bs);
        let obj = <StreamCipherCoreWrapper<$core> as KeyIvInit>::new(key.as_slice().try_into().unwrap(), iv.as_slice().try_into().unwrap());
        scan($name, obj, |o| {
            let mut d = vec![0u8; n];
            o.apply_keystream(&mut d);
            // the current keystream block (its unused part is what the wrapper buffers)
            let mut probe = <$core as KeyIvInit>::new(key.as_slice().try_into().unwrap(), iv.as_slice().try_into().unwrap());
            let mut ks = vec![];
            for _ in 0..(n / $bs + 1) {
                let mut b = cipher::Block::<$core>::default();
                probe.write_keystream_block(&mut b);
                ks = b.to_vec();
            }
            let st = o.get_core().iv_state().to_vec();
            let mut secrets = vec![("exported-state", st.clone())];
            if $encst {
                let k: [u8; 16] = key.as_slice().try_into().unwrap();
                let mut e = st.clone();
                toy_enc(&k, &mut e);
                secrets.push(("counter-s", e));
            }
            if n % $bs != 0 {
                secrets.push(("buffered-keystream-block", ks[1..].to_vec()));
            }
            if n == 0 {
                secrets.push(("iv", iv.clone()));
            }
            secrets
        });
    }};
}

macro_rules! core_obj {
    ($rng:expr, $name:expr, $core:ty, $bs:expr, $encst:expr) => {{
        let key = $rng.bytes(16);
        let iv = $rng.bytes($bs);
        let n = $rng.below(3);
        let obj = <$core as KeyIvInit>::new(key.as_slice().try_into().unwrap(), iv.as_slice().try_into().unwrap());
        scan($name, obj, |o| {
            for _ in 0..n {
                let mut b = cipher::Block::<$core>::default();
                o.write_keystream_block(&mut b);
            }
            let st = o.iv_state().to_vec();
            let mut secrets = vec![("exported-state", st.clone())];
            if $encst {
                let k: [u8; 16] = key.as_slice().try_into().unwrap();
                let mut e = st.clone();
                toy_enc(&k, &mut e);
                secrets.push(("counter-s", e));
            }
            if n == 0 {
                secrets.push(("iv", iv.clone()));
            }
            secrets
        });
    }};
}

/// CTR cores at a far block position: the in-memory block counter (64/128-bit flavours: 8 or 16 bytes, all non-zero)
/// is chaining state of its own — "IV, nonce, counter and feedback state" (C17) — whatever the IV's counter field is.
macro_rules! ctr_pos_obj {
    ($rng:expr, $name:expr, $core:ty, $bs:expr, $ctr:ty) => {{
        use cipher::StreamCipherSeekCore;
        let key = $rng.bytes(16);
        let mut iv = $rng.bytes($bs);
        if $rng.below(2) == 0 {
            // the usual layout: counter field zero (both ends, whichever the flavour uses)
            let cs = core::mem::size_of::<$ctr>();
            for b in iv[..cs].iter_mut() { *b = 0; }
            for b in iv[$bs - cs..].iter_mut() { *b = 0; }
        }
        let pb: Vec<u8> = $rng.bytes(core::mem::size_of::<$ctr>()).iter().map(|b| 1 + b % 254).collect();
        let p = <$ctr>::from_le_bytes(pb.as_slice().try_into().unwrap());
        let obj = <$core as KeyIvInit>::new(key.as_slice().try_into().unwrap(), iv.as_slice().try_into().unwrap());
        scan($name, obj, |o| {
            o.set_block_pos(p);
            let mut b = cipher::Block::<$core>::default();
            o.write_keystream_block(&mut b);
            let now: $ctr = o.get_block_pos();
            vec![("exported-state", o.iv_state().to_vec()), ("block-counter", now.to_ne_bytes().to_vec())]
        });
    }};
}

macro_rules! buf_obj {
    ($rng:expr, $name:expr, $ty:ty, $bs:expr, $call:ident) => {{
        let key = $rng.bytes(16);
        let iv = $rng.bytes($bs);
        let n = if $rng.below(4) == 0 { $rng.below(70 * $bs) } else { $rng.below(3 * $bs) };
        let obj = <$ty as KeyIvInit>::new(key.as_slice().try_into().unwrap(), iv.as_slice().try_into().unwrap());
        let steps = $rng.below(3);
        let lens: Vec<usize> = (0..steps)
            .map(|_| match $rng.below(4) { 0 => $bs * $rng.below(3), 1 => 1 + $rng.below(8), _ => $rng.below(3 * $bs) })
            .collect();
        scan($name, obj, |o| {
            // a history: data, export, more data, export, …; every state the object ever exported is a secret it must not
            // keep a copy of after the drop (a cache filled by `get_state`, a look-ahead block, …)
            let mut secrets = vec![];
            let mut d = vec![0x33u8; n];
            o.$call(&mut d);
            let (st, _pos) = o.get_state();
            secrets.push(("exported-state", st.to_vec()));
            for l in lens {
                let mut d = vec![0x33u8; l];
                o.$call(&mut d);
                let (st, _pos) = o.get_state();
                secrets.push(("exported-state", st.to_vec()));
            }
            secrets
        });
    }};
}

pub fn run(args: &[String]) {
    let seed: u64 = args.get(0).and_then(|s| s.parse().ok()).unwrap_or(1);
    let rounds: usize = args.get(1).and_then(|s| s.parse().ok()).unwrap_or(10);
    let mut rng = Rng(seed);
    type C16 = Toy<U16, U2>;
    type C8 = Toy<U8, U3>;
    type C32 = Toy<U32, U4>;
    for _ in 0..rounds {
        block_enc!(rng, "cbc::Encryptor", cbc::Encryptor<C16>, 16, 16, encrypt_block, false);
        block_enc!(rng, "cbc::Decryptor", cbc::Decryptor<C16>, 16, 16, decrypt_block, false);
        block_enc!(rng, "cbc::Encryptor/8", cbc::Encryptor<C8>, 8, 8, encrypt_block, false);
        block_enc!(rng, "pcbc::Encryptor", pcbc::Encryptor<C16>, 16, 16, encrypt_block, false);
        block_enc!(rng, "pcbc::Decryptor", pcbc::Decryptor<C32>, 32, 32, decrypt_block, false);
        block_enc!(rng, "ige::Encryptor", ige::Encryptor<C16>, 16, 32, encrypt_block, false);
        block_enc!(rng, "ige::Decryptor", ige::Decryptor<C8>, 8, 16, decrypt_block, false);
        block_enc!(rng, "cfb_mode::Encryptor", cfb_mode::Encryptor<C16>, 16, 16, encrypt_block, true);
        block_enc!(rng, "cfb_mode::Decryptor", cfb_mode::Decryptor<C32>, 32, 32, decrypt_block, true);
        block_enc!(rng, "cfb8::Encryptor", cfb8::Encryptor<C16>, 1, 16, encrypt_block, false);
        block_enc!(rng, "cfb8::Decryptor", cfb8::Decryptor<C8>, 1, 8, decrypt_block, false);
        buf_obj!(rng, "cfb_mode::BufEncryptor", cfb_mode::BufEncryptor<C16>, 16, encrypt);
        buf_obj!(rng, "cfb_mode::BufDecryptor", cfb_mode::BufDecryptor<C8>, 8, decrypt);
        core_obj!(rng, "ofb::OfbCore", ofb::OfbCore<C16>, 16, false);
        stream_obj!(rng, "ofb::Ofb", ofb::OfbCore<C32>, 32, false);
        core_obj!(rng, "ctr::CtrCore<Ctr32BE>", ctr::CtrCore<C16, ctr::flavors::Ctr32BE>, 16, false);
        core_obj!(rng, "ctr::CtrCore<Ctr64LE>", ctr::CtrCore<C32, ctr::flavors::Ctr64LE>, 32, false);
        core_obj!(rng, "ctr::CtrCore<Ctr128BE>", ctr::CtrCore<C32, ctr::flavors::Ctr128BE>, 32, false);
        stream_obj!(rng, "ctr::Ctr32LE", ctr::CtrCore<C16, ctr::flavors::Ctr32LE>, 16, false);
        stream_obj!(rng, "ctr::Ctr64BE", ctr::CtrCore<C16, ctr::flavors::Ctr64BE>, 16, false);
        stream_obj!(rng, "ctr::Ctr128LE", ctr::CtrCore<C32, ctr::flavors::Ctr128LE>, 32, false);
        ctr_pos_obj!(rng, "ctr::CtrCore<Ctr64LE>@far", ctr::CtrCore<C16, ctr::flavors::Ctr64LE>, 16, u64);
        ctr_pos_obj!(rng, "ctr::CtrCore<Ctr64BE>@far", ctr::CtrCore<C32, ctr::flavors::Ctr64BE>, 32, u64);
        ctr_pos_obj!(rng, "ctr::CtrCore<Ctr128LE>@far", ctr::CtrCore<C16, ctr::flavors::Ctr128LE>, 16, u128);
        ctr_pos_obj!(rng, "ctr::CtrCore<Ctr128BE>@far", ctr::CtrCore<C32, ctr::flavors::Ctr128BE>, 32, u128);
        core_obj!(rng, "belt_ctr::BeltCtrCore", belt_ctr::BeltCtrCore<C16>, 16, true);
        stream_obj!(rng, "belt_ctr::BeltCtr", belt_ctr::BeltCtrCore<C16>, 16, true);
    }
}
