//! Harness-owned block cipher `Toy<BS, W>`: a keyed byte permutation with any block size `BS`
//! (1..=255) and any parallel width `W`.  The identical function is defined in Lean
//! (`BlockModes/Toy.lean`) where it is proved to be a permutation.
//!
//! Three rounds r = 0,1,2 of { x[i] <- (x[i] + key[(i+r) % 16] + r) * 5 + 17 ; forward running
//! sum ; backward running sum }.  `encrypt_par_blocks` processes the chunk in reverse index order.

use cipher::{
    AlgorithmName, Block, BlockCipherDecBackend, BlockCipherDecClosure, BlockCipherDecrypt,
    BlockCipherEncBackend, BlockCipherEncClosure, BlockCipherEncrypt, BlockSizeUser, InOut, Key,
    KeyInit, KeySizeUser, ParBlocks, ParBlocksSizeUser,
    array::ArraySize,
    consts::U16,
    crypto_common::BlockSizes,
};
use core::fmt;
use core::marker::PhantomData;
use std::sync::atomic::{AtomicU64, Ordering};

pub static E_CALLS: AtomicU64 = AtomicU64::new(0);
pub static D_CALLS: AtomicU64 = AtomicU64::new(0);
pub static PAR_CALLS: AtomicU64 = AtomicU64::new(0);

pub fn reset_calls() {
    E_CALLS.store(0, Ordering::Relaxed);
    D_CALLS.store(0, Ordering::Relaxed);
    PAR_CALLS.store(0, Ordering::Relaxed);
}

pub fn toy_enc(key: &[u8; 16], x: &mut [u8]) {
    let n = x.len();
    for r in 0..3usize {
        for i in 0..n {
            x[i] = x[i]
                .wrapping_add(key[(i + r) % 16])
                .wrapping_add(r as u8)
                .wrapping_mul(5)
                .wrapping_add(17);
        }
        let mut acc = 0u8;
        for i in 0..n {
            x[i] = x[i].wrapping_add(acc);
            acc = x[i];
        }
        let mut acc = 0u8;
        for i in (0..n).rev() {
            x[i] = x[i].wrapping_add(acc);
            acc = x[i];
        }
    }
}

pub fn toy_dec(key: &[u8; 16], x: &mut [u8]) {
    let n = x.len();
    for r in (0..3usize).rev() {
        // undo backward running sum
        let mut prev = 0u8;
        for i in (0..n).rev() {
            let y = x[i];
            x[i] = y.wrapping_sub(prev);
            prev = y;
        }
        // undo forward running sum
        let mut prev = 0u8;
        for i in 0..n {
            let y = x[i];
            x[i] = y.wrapping_sub(prev);
            prev = y;
        }
        for i in 0..n {
            x[i] = x[i]
                .wrapping_sub(17)
                .wrapping_mul(205)
                .wrapping_sub(r as u8)
                .wrapping_sub(key[(i + r) % 16]);
        }
    }
}

pub struct Toy<BS, W> {
    key: [u8; 16],
    _p: PhantomData<(BS, W)>,
}

impl<BS, W> Clone for Toy<BS, W> {
    fn clone(&self) -> Self {
        Self { key: self.key, _p: PhantomData }
    }
}

impl<BS, W> KeySizeUser for Toy<BS, W> {
    type KeySize = U16;
}

impl<BS, W> KeyInit for Toy<BS, W> {
    fn new(key: &Key<Self>) -> Self {
        let mut k = [0u8; 16];
        k.copy_from_slice(key);
        Self { key: k, _p: PhantomData }
    }
}

impl<BS: BlockSizes, W> BlockSizeUser for Toy<BS, W> {
    type BlockSize = BS;
}

impl<BS, W> AlgorithmName for Toy<BS, W> {
    fn write_alg_name(f: &mut fmt::Formatter<'_>) -> fmt::Result {
        f.write_str("Toy")
    }
}

impl<BS, W> fmt::Debug for Toy<BS, W> {
    fn fmt(&self, f: &mut fmt::Formatter<'_>) -> fmt::Result {
        // deliberately NOT opaque (like a plain `#[derive(Debug)]`): a mode whose Debug forwards to the cipher's
        // Debug instead of its algorithm name becomes key-dependent
        write!(f, "Toy {{ key: {:?} }}", self.key)
    }
}

pub struct ToyBackend<'a, BS, W> {
    key: &'a [u8; 16],
    _p: PhantomData<(BS, W)>,
}

impl<BS: BlockSizes, W> BlockSizeUser for ToyBackend<'_, BS, W> {
    type BlockSize = BS;
}

impl<BS: BlockSizes, W: ArraySize> ParBlocksSizeUser for ToyBackend<'_, BS, W> {
    type ParBlocksSize = W;
}

impl<BS: BlockSizes, W: ArraySize> BlockCipherEncBackend for ToyBackend<'_, BS, W> {
    #[inline]
    fn encrypt_block(&self, mut block: InOut<'_, '_, Block<Self>>) {
        E_CALLS.fetch_add(1, Ordering::Relaxed);
        let mut t = block.clone_in();
        toy_enc(self.key, &mut t);
        *block.get_out() = t;
    }

    #[inline]
    fn encrypt_par_blocks(&self, mut blocks: InOut<'_, '_, ParBlocks<Self>>) {
        PAR_CALLS.fetch_add(1, Ordering::Relaxed);
        // reverse index order on purpose: a mode whose parallel body depends on evaluation order is exposed
        for i in (0..W::USIZE).rev() {
            self.encrypt_block(blocks.get(i));
        }
    }
}

impl<BS: BlockSizes, W: ArraySize> BlockCipherDecBackend for ToyBackend<'_, BS, W> {
    #[inline]
    fn decrypt_block(&self, mut block: InOut<'_, '_, Block<Self>>) {
        D_CALLS.fetch_add(1, Ordering::Relaxed);
        let mut t = block.clone_in();
        toy_dec(self.key, &mut t);
        *block.get_out() = t;
    }

    #[inline]
    fn decrypt_par_blocks(&self, mut blocks: InOut<'_, '_, ParBlocks<Self>>) {
        PAR_CALLS.fetch_add(1, Ordering::Relaxed);
        for i in (0..W::USIZE).rev() {
            self.decrypt_block(blocks.get(i));
        }
    }
}

impl<BS: BlockSizes, W: ArraySize> BlockCipherEncrypt for Toy<BS, W> {
    fn encrypt_with_backend(&self, f: impl BlockCipherEncClosure<BlockSize = BS>) {
        f.call(&ToyBackend::<BS, W> { key: &self.key, _p: PhantomData })
    }
}

impl<BS: BlockSizes, W: ArraySize> BlockCipherDecrypt for Toy<BS, W> {
    fn decrypt_with_backend(&self, f: impl BlockCipherDecClosure<BlockSize = BS>) {
        f.call(&ToyBackend::<BS, W> { key: &self.key, _p: PhantomData })
    }
}
