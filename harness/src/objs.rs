//! Adapters from the line protocol to the real public types of /repo.
//! Every adapter method calls the public API of the crate under test and nothing else.

use cipher::{
    AlgorithmName, AsyncStreamCipher, Block, BlockCipherDecrypt, BlockCipherEncrypt,
    BlockModeDecrypt, BlockModeEncrypt, BlockSizeUser, InnerIvInit, IvState, KeyInit, KeyIvInit,
    StreamCipher, StreamCipherCore, StreamCipherCoreWrapper, StreamCipherSeek,
    StreamCipherSeekCore,
    array::{Array, ArraySize},
    block_padding::Pkcs7,
    typenum::Unsigned,
};
use core::fmt::Debug;

pub fn hex(b: &[u8]) -> String {
    if b.is_empty() {
        return "-".into();
    }
    let mut s = String::with_capacity(b.len() * 2);
    for x in b {
        s.push(char::from_digit((x >> 4) as u32, 16).unwrap());
        s.push(char::from_digit((x & 15) as u32, 16).unwrap());
    }
    s
}

pub fn unhex(s: &str) -> Option<Vec<u8>> {
    if s == "-" {
        return Some(vec![]);
    }
    let b = s.as_bytes();
    if b.len() % 2 != 0 {
        return None;
    }
    let mut v = Vec::with_capacity(b.len() / 2);
    for i in (0..b.len()).step_by(2) {
        let h = (b[i] as char).to_digit(16)?;
        let l = (b[i + 1] as char).to_digit(16)?;
        v.push((h * 16 + l) as u8);
    }
    Some(v)
}

/// Where the two sides of a buffer-to-buffer call live.  A caller's input and output are often two halves of one
/// allocation (`split_at_mut`), i.e. *adjacent*: the end of one is the start of the other.  Which of the three layouts
/// is used is a function of the call's data, so every stream of cases exercises all of them and a case replays exactly:
/// two separate allocations, input directly in front of the output, output directly in front of the input.
pub fn with_b2b<R>(b: &[u8], o: &mut [u8], f: impl FnOnce(&[u8], &mut [u8]) -> R) -> R {
    let layout = (b.len() + o.len() + b.first().copied().unwrap_or(0) as usize + b.last().copied().unwrap_or(0) as usize) % 3;
    match layout {
        0 => f(b, o),
        1 => {
            let mut arena = Vec::with_capacity(b.len() + o.len());
            arena.extend_from_slice(b);
            arena.extend_from_slice(o);
            let (i, out) = arena.split_at_mut(b.len());
            let r = f(i, out);
            o.copy_from_slice(out);
            r
        }
        _ => {
            let mut arena = Vec::with_capacity(b.len() + o.len());
            arena.extend_from_slice(o);
            arena.extend_from_slice(b);
            let (out, i) = arena.split_at_mut(o.len());
            let r = f(i, out);
            o.copy_from_slice(out);
            r
        }
    }
}

pub enum Step {
    Line(String),
    Push(Box<dyn Obj>, String),
}

pub trait Obj {
    fn step(&mut self, toks: &[&str]) -> Step;
    fn boxed_clone(&self) -> Option<Box<dyn Obj>>;
    fn as_any(&self) -> &dyn core::any::Any;
    /// `Clone::clone_from`: overwrite this object with a copy of `other` (same concrete type); `false` = not available
    fn clone_from_dyn(&mut self, _other: &dyn core::any::Any) -> bool {
        false
    }
}

fn bad() -> Step {
    Step::Line("bad-op".into())
}
fn line(s: String) -> Step {
    Step::Line(s)
}

fn blocks_mut<N: ArraySize>(buf: &mut [u8]) -> &mut [Array<u8, N>] {
    let (b, t) = Array::<u8, N>::slice_as_chunks_mut(buf);
    assert!(t.is_empty());
    b
}
fn blocks_ref<N: ArraySize>(buf: &[u8]) -> &[Array<u8, N>] {
    let (b, t) = Array::<u8, N>::slice_as_chunks(buf);
    assert!(t.is_empty());
    b
}

// ------------------------------------------------------------------------------------------------
// caller-written closures for `encrypt_with_backend` / `decrypt_with_backend`: every public backend entry point
// (`*_block`, `*_par_blocks`, `*_tail_blocks` and their `_inplace` forms) is reachable by users of the traits,
// not only through the `cipher` crate's own `BlockCtx` / `BlocksCtx`.
//   variant 0: chunks of ParBlocksSize through `*_par_blocks_inplace`, the rest block by block through `*_block_inplace`
//   variant 1: chunks through `*_par_blocks(InOut)`, the rest (< ParBlocksSize) through `*_tail_blocks_inplace`
//   variant 2: first block through `*_block_inplace`, then as variant 0 but the rest through `*_tail_blocks(InOutBuf)`
//   variant 3: buffer-to-buffer: chunks through `*_par_blocks(InOut from (in, out))`, rest through `*_tail_blocks(InOutBuf)`,
//              output buffer pre-filled with 0xA5; the result is copied back

use cipher::{BlockModeDecBackend, BlockModeDecClosure, BlockModeEncBackend, BlockModeEncClosure, InOutBuf, ParBlocks};

pub struct DirectEnc<'a, BS: ArraySize> {
    pub variant: u8,
    pub buf: &'a mut [Array<u8, BS>],
}
impl<BS: cipher::crypto_common::BlockSizes> BlockSizeUser for DirectEnc<'_, BS> {
    type BlockSize = BS;
}
pub struct DirectDec<'a, BS: ArraySize> {
    pub variant: u8,
    pub buf: &'a mut [Array<u8, BS>],
}
impl<BS: cipher::crypto_common::BlockSizes> BlockSizeUser for DirectDec<'_, BS> {
    type BlockSize = BS;
}

macro_rules! direct_body {
    ($self:ident, $backend:ident, $B:ident, $block:ident, $block_inplace:ident, $par_inplace:ident, $par:ident, $tail_inplace:ident, $tail:ident) => {{
        let w = <$B::ParBlocksSize as Unsigned>::USIZE;
        let variant = $self.variant;
        let mut buf: &mut [Array<u8, Self::BlockSize>] = $self.buf;
        if variant == 3 {
            let inp: Vec<Array<u8, Self::BlockSize>> = buf.to_vec();
            let mut out: Vec<Array<u8, Self::BlockSize>> = buf.iter().map(|_| { let mut a = Array::<u8, Self::BlockSize>::default(); a.iter_mut().for_each(|x| *x = 0xa5); a }).collect();
            {
                let io = InOutBuf::new(&inp[..], &mut out[..]).unwrap();
                let (chunks, tail) = io.into_chunks::<$B::ParBlocksSize>();
                for c in chunks {
                    $backend.$par(c);
                }
                $backend.$tail(tail);
            }
            buf.clone_from_slice(&out);
            return;
        }
        if variant == 6 {
            // one session mixing the two forms of the single-block entry point: block 0 buffer-to-buffer (into a dirty block, copied
            // back), block 1 in place, block 2 buffer-to-buffer, …
            for (i, b) in buf.iter_mut().enumerate() {
                if i % 2 == 0 {
                    let inp = b.clone();
                    let mut out = Array::<u8, Self::BlockSize>::default();
                    out.iter_mut().for_each(|x| *x = 0xa5);
                    $backend.$block((&inp, &mut out).into());
                    *b = out;
                } else {
                    $backend.$block_inplace(b);
                }
            }
            return;
        }
        if variant == 4 {
            // alternate: a parallel batch, a single block, a parallel batch, ...
            loop {
                if w > 0 && buf.len() >= w {
                    let (c, rest) = buf.split_at_mut(w);
                    let pb: &mut ParBlocks<$B> = c.try_into().unwrap();
                    $backend.$par_inplace(pb);
                    buf = rest;
                }
                if buf.is_empty() {
                    break;
                }
                let (c, rest) = buf.split_at_mut(1);
                $backend.$block_inplace(&mut c[0]);
                buf = rest;
                if buf.is_empty() {
                    break;
                }
            }
            return;
        }
        if variant == 5 {
            // a tail call in the middle: `*_tail_blocks_inplace` on up to w-1 blocks first, then the rest as variant 2
            let k = core::cmp::min(w.saturating_sub(1), buf.len());
            let (t, rest) = buf.split_at_mut(k);
            $backend.$tail_inplace(t);
            buf = rest;
        }
        if (variant == 2 || variant == 5) && !buf.is_empty() {
            let (first, rest) = buf.split_at_mut(1);
            $backend.$block_inplace(&mut first[0]);
            buf = rest;
        }
        let n_full = if w == 0 { 0 } else { buf.len() / w * w };
        let (full, rest) = buf.split_at_mut(n_full);
        for c in full.chunks_exact_mut(w) {
            let pb: &mut ParBlocks<$B> = c.try_into().unwrap();
            match variant {
                1 => $backend.$par(pb.into()),
                _ => $backend.$par_inplace(pb),
            }
        }
        match variant {
            0 => {
                for b in rest.iter_mut() {
                    $backend.$block_inplace(b);
                }
            }
            1 => $backend.$tail_inplace(rest),
            _ => $backend.$tail(rest.into()),
        }
    }};
}

impl<BS: cipher::crypto_common::BlockSizes> BlockModeEncClosure for DirectEnc<'_, BS> {
    fn call<B: BlockModeEncBackend<BlockSize = BS>>(self, backend: &mut B) {
        direct_body!(self, backend, B, encrypt_block, encrypt_block_inplace, encrypt_par_blocks_inplace, encrypt_par_blocks, encrypt_tail_blocks_inplace, encrypt_tail_blocks)
    }
}
impl<BS: cipher::crypto_common::BlockSizes> BlockModeDecClosure for DirectDec<'_, BS> {
    fn call<B: BlockModeDecBackend<BlockSize = BS>>(self, backend: &mut B) {
        direct_body!(self, backend, B, decrypt_block, decrypt_block_inplace, decrypt_par_blocks_inplace, decrypt_par_blocks, decrypt_tail_blocks_inplace, decrypt_tail_blocks)
    }
}

pub struct DirectKs<'a, BS: ArraySize> {
    pub variant: u8,
    pub buf: &'a mut [Array<u8, BS>],
}
impl<BS: cipher::crypto_common::BlockSizes> BlockSizeUser for DirectKs<'_, BS> {
    type BlockSize = BS;
}
impl<BS: cipher::crypto_common::BlockSizes> cipher::StreamCipherClosure for DirectKs<'_, BS> {
    fn call<B: cipher::StreamCipherBackend<BlockSize = BS>>(self, backend: &mut B) {
        let w = <B::ParBlocksSize as Unsigned>::USIZE;
        if self.variant == 0 || w == 0 {
            for b in self.buf.iter_mut() {
                backend.gen_ks_block(b);
            }
            return;
        }
        if self.variant == 2 {
            // alternate: a parallel batch, a single block, a parallel batch, ... (whatever is left: block by block)
            let mut buf: &mut [Array<u8, BS>] = self.buf;
            loop {
                if buf.len() >= w {
                    let (c, rest) = buf.split_at_mut(w);
                    let pb: &mut ParBlocks<B> = c.try_into().unwrap();
                    backend.gen_par_ks_blocks(pb);
                    buf = rest;
                }
                if buf.is_empty() {
                    break;
                }
                let (c, rest) = buf.split_at_mut(1);
                backend.gen_ks_block(&mut c[0]);
                buf = rest;
                if buf.is_empty() {
                    break;
                }
            }
            return;
        }
        let mut buf: &mut [Array<u8, BS>] = self.buf;
        if self.variant == 3 {
            // a tail call in the middle: `gen_tail_blocks` on up to w-1 blocks first, then a single block, then the usual
            // batches and the final tail — nothing says the tail entry point ends the closure
            let k = core::cmp::min(w.saturating_sub(1), buf.len());
            let (t, rest) = buf.split_at_mut(k);
            backend.gen_tail_blocks(t);
            buf = rest;
            if !buf.is_empty() {
                let (c, rest) = buf.split_at_mut(1);
                backend.gen_ks_block(&mut c[0]);
                buf = rest;
            }
        }
        let n_full = buf.len() / w * w;
        let (full, rest) = buf.split_at_mut(n_full);
        for c in full.chunks_exact_mut(w) {
            let pb: &mut ParBlocks<B> = c.try_into().unwrap();
            backend.gen_par_ks_blocks(pb);
        }
        backend.gen_tail_blocks(rest);
    }
}

// ------------------------------------------------------------------------------------------------
// block-level mode objects

pub trait ModeOps: Sized + Clone + 'static {
    const MBS: usize;
    fn new_key_iv(key: &[u8], iv: &[u8]) -> Self;
    fn new_slices(key: &[u8], iv: &[u8]) -> bool;
    fn via_inner(key: &[u8], iv: &[u8]) -> Self;
    fn block(&mut self, buf: &mut [u8]);
    fn block_b2b(&mut self, inp: &[u8], out: &mut [u8]);
    fn blocks(&mut self, buf: &mut [u8]);
    fn blocks_b2b(&mut self, inp: &[u8], out: &mut [u8]) -> bool;
    /// drive the mode's backend directly with a caller-written closure (`*_with_backend`), see `DirectEnc`
    fn backend(&mut self, variant: u8, buf: &mut [u8]);
    fn padded(self, msg: &[u8]) -> Option<Vec<u8>>;
    fn oneshot(self, buf: &mut [u8]) -> bool;
    fn oneshot_b2b(self, inp: &[u8], out: &mut [u8]) -> Option<bool>;
    fn iv_state(&self) -> Vec<u8>;
    fn reinit(&self, key: &[u8]) -> Self;
    fn debug(&self) -> String;
    fn algname() -> String;
}

/// both forms of the `Debug` text: `{:?}` and the alternate `{:#?}` (white space collapsed to keep it on one line)
pub fn dbg2<T: core::fmt::Debug + ?Sized>(x: &T) -> String {
    let alt = format!("{:#?}", x);
    let alt: Vec<&str> = alt.split_whitespace().collect();
    format!("{:?} ## {}", x, alt.join(" "))
}

struct AlgNameOf<T>(core::marker::PhantomData<T>);
impl<T: AlgorithmName> core::fmt::Display for AlgNameOf<T> {
    fn fmt(&self, f: &mut core::fmt::Formatter<'_>) -> core::fmt::Result {
        T::write_alg_name(f)
    }
}
pub fn alg_name<T: AlgorithmName>() -> String {
    format!("{}", AlgNameOf::<T>(core::marker::PhantomData))
}

macro_rules! impl_mode_ops {
    // $dir: enc | dec ; $async: yes | no
    ($ty:ident :: $name:ident, $dir:tt, $async:tt $(, where $($extra:tt)*)?) => {
        impl<C> ModeOps for $ty::$name<C>
        where
            C: BlockCipherEncrypt + BlockCipherDecrypt + KeyInit + Clone + AlgorithmName + Debug + 'static,
            $($($extra)*)?
        {
            const MBS: usize = <<Self as BlockSizeUser>::BlockSize as Unsigned>::USIZE;
            fn new_key_iv(key: &[u8], iv: &[u8]) -> Self {
                <Self as KeyIvInit>::new(key.try_into().unwrap(), iv.try_into().unwrap())
            }
            fn new_slices(key: &[u8], iv: &[u8]) -> bool {
                <Self as KeyIvInit>::new_from_slices(key, iv).is_ok()
            }
            fn via_inner(key: &[u8], iv: &[u8]) -> Self {
                let c = <C as KeyInit>::new(key.try_into().unwrap());
                <Self as InnerIvInit>::inner_iv_init(c, iv.try_into().unwrap())
            }
            fn block(&mut self, buf: &mut [u8]) {
                let b: &mut Block<Self> = buf.try_into().unwrap();
                impl_mode_ops!(@call $dir, self, block, b);
            }
            fn block_b2b(&mut self, inp: &[u8], out: &mut [u8]) {
                let i: &Block<Self> = inp.try_into().unwrap();
                let o: &mut Block<Self> = out.try_into().unwrap();
                impl_mode_ops!(@call $dir, self, block_b2b, i, o);
            }
            fn blocks(&mut self, buf: &mut [u8]) {
                let b = blocks_mut::<<Self as BlockSizeUser>::BlockSize>(buf);
                impl_mode_ops!(@call $dir, self, blocks, b);
            }
            fn blocks_b2b(&mut self, inp: &[u8], out: &mut [u8]) -> bool {
                let i = blocks_ref::<<Self as BlockSizeUser>::BlockSize>(inp);
                let o = blocks_mut::<<Self as BlockSizeUser>::BlockSize>(out);
                impl_mode_ops!(@callr $dir, self, blocks_b2b, i, o).is_ok()
            }
            fn backend(&mut self, variant: u8, buf: &mut [u8]) {
                let b = blocks_mut::<<Self as BlockSizeUser>::BlockSize>(buf);
                impl_mode_ops!(@backend $dir, self, variant, b);
            }
            fn padded(self, msg: &[u8]) -> Option<Vec<u8>> {
                impl_mode_ops!(@padded $dir, self, msg)
            }
            fn oneshot(self, buf: &mut [u8]) -> bool {
                impl_mode_ops!(@oneshot $dir, $async, self, buf)
            }
            fn oneshot_b2b(self, inp: &[u8], out: &mut [u8]) -> Option<bool> {
                impl_mode_ops!(@oneshotb $dir, $async, self, inp, out)
            }
            fn iv_state(&self) -> Vec<u8> {
                <Self as IvState>::iv_state(self).to_vec()
            }
            fn reinit(&self, key: &[u8]) -> Self {
                let c = <C as KeyInit>::new(key.try_into().unwrap());
                let st = <Self as IvState>::iv_state(self);
                <Self as InnerIvInit>::inner_iv_init(c, &st)
            }
            fn debug(&self) -> String {
                dbg2(self)
            }
            fn algname() -> String {
                alg_name::<Self>()
            }
        }
    };
    // every call has a second public route to the same backend — the `*_inout` entry points (ops `blockio`, `blockiob`,
    // `blocksio`, `blocksiob`, `oneshotio`, `oneshotiob`), chosen by the flag `via_inout()`; a mode type may override any of them
    (@call enc, $s:ident, block, $b:expr) => { if via_inout() { BlockModeEncrypt::encrypt_block_inout($s, $b.into()) } else { BlockModeEncrypt::encrypt_block($s, $b) } };
    (@call dec, $s:ident, block, $b:expr) => { if via_inout() { BlockModeDecrypt::decrypt_block_inout($s, $b.into()) } else { BlockModeDecrypt::decrypt_block($s, $b) } };
    (@call enc, $s:ident, block_b2b, $i:expr, $o:expr) => { if via_inout() { BlockModeEncrypt::encrypt_block_inout($s, ($i, $o).into()) } else { BlockModeEncrypt::encrypt_block_b2b($s, $i, $o) } };
    (@call dec, $s:ident, block_b2b, $i:expr, $o:expr) => { if via_inout() { BlockModeDecrypt::decrypt_block_inout($s, ($i, $o).into()) } else { BlockModeDecrypt::decrypt_block_b2b($s, $i, $o) } };
    (@call enc, $s:ident, blocks, $b:expr) => { if via_inout() { BlockModeEncrypt::encrypt_blocks_inout($s, $b.into()) } else { BlockModeEncrypt::encrypt_blocks($s, $b) } };
    (@call dec, $s:ident, blocks, $b:expr) => { if via_inout() { BlockModeDecrypt::decrypt_blocks_inout($s, $b.into()) } else { BlockModeDecrypt::decrypt_blocks($s, $b) } };
    (@callr enc, $s:ident, blocks_b2b, $i:expr, $o:expr) => {
        if via_inout() { match cipher::inout::InOutBuf::new($i, $o) { Ok(b) => { BlockModeEncrypt::encrypt_blocks_inout($s, b); Ok(()) } Err(_) => Err(()) } }
        else { BlockModeEncrypt::encrypt_blocks_b2b($s, $i, $o).map_err(|_| ()) }
    };
    (@callr dec, $s:ident, blocks_b2b, $i:expr, $o:expr) => {
        if via_inout() { match cipher::inout::InOutBuf::new($i, $o) { Ok(b) => { BlockModeDecrypt::decrypt_blocks_inout($s, b); Ok(()) } Err(_) => Err(()) } }
        else { BlockModeDecrypt::decrypt_blocks_b2b($s, $i, $o).map_err(|_| ()) }
    };
    (@backend enc, $s:ident, $v:ident, $b:ident) => { BlockModeEncrypt::encrypt_with_backend($s, DirectEnc { variant: $v, buf: $b }) };
    (@backend dec, $s:ident, $v:ident, $b:ident) => { BlockModeDecrypt::decrypt_with_backend($s, DirectDec { variant: $v, buf: $b }) };
    // padded: `*_padded_vec` (route 0), `*_padded` on a slice in place (route 1; ops `padencs`, `paddecs`), `*_padded_b2b` into a
    // dirty buffer (route 2; ops `padencb`, `paddecb`)
    (@padded enc, $s:ident, $m:ident) => {{
        let bs = <Self as ModeOps>::MBS;
        match pad_route() {
            1 => {
                let mut buf = $m.to_vec();
                buf.resize(bs * ($m.len() / bs + 1), 0xa5);
                BlockModeEncrypt::encrypt_padded::<Pkcs7>($s, &mut buf, $m.len()).ok().map(|o| o.to_vec())
            }
            2 => {
                let mut out = vec![0xa5u8; bs * ($m.len() / bs + 1)];
                with_b2b($m, &mut out, |i, o| BlockModeEncrypt::encrypt_padded_b2b::<Pkcs7>($s, i, o).ok().map(|o| o.to_vec()))
            }
            _ => Some(BlockModeEncrypt::encrypt_padded_vec::<Pkcs7>($s, $m)),
        }
    }};
    (@padded dec, $s:ident, $m:ident) => {{
        match pad_route() {
            1 => {
                let mut buf = $m.to_vec();
                BlockModeDecrypt::decrypt_padded::<Pkcs7>($s, &mut buf).ok().map(|o| o.to_vec())
            }
            2 => {
                let mut out = vec![0xa5u8; $m.len()];
                with_b2b($m, &mut out, |i, o| BlockModeDecrypt::decrypt_padded_b2b::<Pkcs7>($s, i, o).ok().map(|o| o.to_vec()))
            }
            _ => BlockModeDecrypt::decrypt_padded_vec::<Pkcs7>($s, $m).ok(),
        }
    }};
    (@oneshot enc, yes, $s:ident, $b:ident) => {{ if via_inout() { AsyncStreamCipher::encrypt_inout($s, $b.into()) } else { AsyncStreamCipher::encrypt($s, $b) }; true }};
    (@oneshot dec, yes, $s:ident, $b:ident) => {{ if via_inout() { AsyncStreamCipher::decrypt_inout($s, $b.into()) } else { AsyncStreamCipher::decrypt($s, $b) }; true }};
    (@oneshot $d:tt, no, $s:ident, $b:ident) => {{ let _ = ($s, $b); false }};
    (@oneshotb enc, yes, $s:ident, $i:ident, $o:ident) => {
        if via_inout() { Some(match cipher::inout::InOutBuf::new($i, $o) { Ok(b) => { AsyncStreamCipher::encrypt_inout($s, b); true } Err(_) => false }) }
        else { Some(AsyncStreamCipher::encrypt_b2b($s, $i, $o).is_ok()) }
    };
    (@oneshotb dec, yes, $s:ident, $i:ident, $o:ident) => {
        if via_inout() { Some(match cipher::inout::InOutBuf::new($i, $o) { Ok(b) => { AsyncStreamCipher::decrypt_inout($s, b); true } Err(_) => false }) }
        else { Some(AsyncStreamCipher::decrypt_b2b($s, $i, $o).is_ok()) }
    };
    (@oneshotb $d:tt, no, $s:ident, $i:ident, $o:ident) => {{ let _ = ($s, $i, $o); None }};
}

use cipher::typenum::Sum;
impl_mode_ops!(cbc::Encryptor, enc, no);
impl_mode_ops!(cbc::Decryptor, dec, no);
impl_mode_ops!(pcbc::Encryptor, enc, no);
impl_mode_ops!(pcbc::Decryptor, dec, no);
impl_mode_ops!(ige::Encryptor, enc, no, where C::BlockSize: core::ops::Add, Sum<C::BlockSize, C::BlockSize>: ArraySize);
impl_mode_ops!(ige::Decryptor, dec, no, where C::BlockSize: core::ops::Add, Sum<C::BlockSize, C::BlockSize>: ArraySize);
impl_mode_ops!(cfb_mode::Encryptor, enc, yes);
impl_mode_ops!(cfb_mode::Decryptor, dec, yes);
impl_mode_ops!(cfb8::Encryptor, enc, yes);
impl_mode_ops!(cfb8::Decryptor, dec, yes);

/// `OfbCore` used through its `BlockModeEncrypt` / `BlockModeDecrypt` impls.
#[derive(Clone)]
pub struct OfbEnc<C: BlockCipherEncrypt>(pub ofb::OfbCore<C>);
#[derive(Clone)]
pub struct OfbDec<C: BlockCipherEncrypt>(pub ofb::OfbCore<C>);

macro_rules! impl_ofb_block {
    ($name:ident, $dir:tt) => {
        impl<C> ModeOps for $name<C>
        where
            C: BlockCipherEncrypt + BlockCipherDecrypt + KeyInit + Clone + AlgorithmName + Debug + 'static,
        {
            const MBS: usize = <C::BlockSize as Unsigned>::USIZE;
            fn new_key_iv(key: &[u8], iv: &[u8]) -> Self {
                $name(<ofb::OfbCore<C> as KeyIvInit>::new(key.try_into().unwrap(), iv.try_into().unwrap()))
            }
            fn new_slices(key: &[u8], iv: &[u8]) -> bool {
                <ofb::OfbCore<C> as KeyIvInit>::new_from_slices(key, iv).is_ok()
            }
            fn via_inner(key: &[u8], iv: &[u8]) -> Self {
                let c = <C as KeyInit>::new(key.try_into().unwrap());
                $name(<ofb::OfbCore<C> as InnerIvInit>::inner_iv_init(c, iv.try_into().unwrap()))
            }
            fn block(&mut self, buf: &mut [u8]) {
                let b: &mut Block<C> = buf.try_into().unwrap();
                let s = &mut self.0;
                impl_mode_ops!(@call $dir, s, block, b);
            }
            fn block_b2b(&mut self, inp: &[u8], out: &mut [u8]) {
                let i: &Block<C> = inp.try_into().unwrap();
                let o: &mut Block<C> = out.try_into().unwrap();
                let s = &mut self.0;
                impl_mode_ops!(@call $dir, s, block_b2b, i, o);
            }
            fn blocks(&mut self, buf: &mut [u8]) {
                let b = blocks_mut::<C::BlockSize>(buf);
                let s = &mut self.0;
                impl_mode_ops!(@call $dir, s, blocks, b);
            }
            fn blocks_b2b(&mut self, inp: &[u8], out: &mut [u8]) -> bool {
                let i = blocks_ref::<C::BlockSize>(inp);
                let o = blocks_mut::<C::BlockSize>(out);
                let s = &mut self.0;
                impl_mode_ops!(@callr $dir, s, blocks_b2b, i, o).is_ok()
            }
            fn backend(&mut self, variant: u8, buf: &mut [u8]) {
                let b = blocks_mut::<C::BlockSize>(buf);
                let s = &mut self.0;
                impl_mode_ops!(@backend $dir, s, variant, b);
            }
            fn padded(self, msg: &[u8]) -> Option<Vec<u8>> {
                let s = self.0;
                impl_mode_ops!(@padded $dir, s, msg)
            }
            fn oneshot(self, _buf: &mut [u8]) -> bool {
                false
            }
            fn oneshot_b2b(self, _inp: &[u8], _out: &mut [u8]) -> Option<bool> {
                None
            }
            fn iv_state(&self) -> Vec<u8> {
                self.0.iv_state().to_vec()
            }
            fn reinit(&self, key: &[u8]) -> Self {
                let c = <C as KeyInit>::new(key.try_into().unwrap());
                let st = self.0.iv_state();
                $name(<ofb::OfbCore<C> as InnerIvInit>::inner_iv_init(c, &st))
            }
            fn debug(&self) -> String {
                dbg2(&self.0)
            }
            fn algname() -> String {
                alg_name::<ofb::OfbCore<C>>()
            }
        }
    };
}
impl_ofb_block!(OfbEnc, enc);
impl_ofb_block!(OfbDec, dec);

pub struct BlockObj<M: ModeOps> {
    m: M,
    key: Vec<u8>,
    iv: Vec<u8>,
}

impl<M: ModeOps> BlockObj<M> {
    pub fn new(key: &[u8], iv: &[u8]) -> Box<dyn Obj> {
        Box::new(Self { m: M::new_key_iv(key, iv), key: key.to_vec(), iv: iv.to_vec() })
    }
}

impl<M: ModeOps> Obj for BlockObj<M> {
    fn boxed_clone(&self) -> Option<Box<dyn Obj>> {
        Some(Box::new(Self { m: self.m.clone(), key: self.key.clone(), iv: self.iv.clone() }))
    }
    fn as_any(&self) -> &dyn core::any::Any {
        self
    }
    fn clone_from_dyn(&mut self, other: &dyn core::any::Any) -> bool {
        match other.downcast_ref::<Self>() {
            Some(o) => {
                self.m.clone_from(&o.m);
                true
            }
            None => false,
        }
    }
    fn step(&mut self, toks: &[&str]) -> Step {
        // the same calls through the `*_inout` entry points / the other padded entry points
        let renamed: Option<(Vec<&str>, bool, u8)> = match toks {
            ["blockio", x] => Some((vec!["block", x], true, 0)),
            ["blockiob", x, g] => Some((vec!["blockb", x, g], true, 0)),
            ["blocksio", x] => Some((vec!["blocks", x], true, 0)),
            ["blocksiob", x, g] => Some((vec!["blocksb", x, g], true, 0)),
            ["oneshotio", x] => Some((vec!["oneshot", x], true, 0)),
            ["oneshotiob", x, g] => Some((vec!["oneshotb", x, g], true, 0)),
            ["padencs", x] => Some((vec!["padenc", x], false, 1)),
            ["padencb", x] => Some((vec!["padenc", x], false, 2)),
            ["paddecs", x] => Some((vec!["paddec", x], false, 1)),
            ["paddecb", x] => Some((vec!["paddec", x], false, 2)),
            _ => None,
        };
        if let Some((t2, io, pr)) = renamed {
            struct Reset;
            impl Drop for Reset {
                fn drop(&mut self) {
                    CTS_VIA_INOUT.store(false, std::sync::atomic::Ordering::Relaxed);
                    PAD_ROUTE.store(0, std::sync::atomic::Ordering::Relaxed);
                }
            }
            let _reset = Reset;
            CTS_VIA_INOUT.store(io, std::sync::atomic::Ordering::Relaxed);
            PAD_ROUTE.store(pr, std::sync::atomic::Ordering::Relaxed);
            return self.step(&t2);
        }
        match toks {
            ["block", x] => {
                let Some(mut b) = unhex(x) else { return bad() };
                if b.len() != M::MBS {
                    return bad();
                }
                self.m.block(&mut b);
                line(format!("out {}", hex(&b)))
            }
            ["blockb", x, g] => {
                let (Some(b), Some(mut o)) = (unhex(x), unhex(g)) else { return bad() };
                if b.len() != M::MBS || o.len() != M::MBS {
                    return bad();
                }
                with_b2b(&b, &mut o, |b, o| self.m.block_b2b(b, o));
                line(format!("out {}", hex(&o)))
            }
            ["blocks", x] => {
                let Some(mut b) = unhex(x) else { return bad() };
                if b.len() % M::MBS != 0 {
                    return bad();
                }
                self.m.blocks(&mut b);
                line(format!("out {}", hex(&b)))
            }
            ["backend", v, x] => {
                let (Ok(v), Some(mut b)) = (v.parse::<u8>(), unhex(x)) else { return bad() };
                if b.len() % M::MBS != 0 || v > 6 {
                    return bad();
                }
                self.m.backend(v, &mut b);
                line(format!("out {}", hex(&b)))
            }
            ["blocksb", x, g] => {
                let (Some(b), Some(mut o)) = (unhex(x), unhex(g)) else { return bad() };
                if b.len() % M::MBS != 0 || o.len() % M::MBS != 0 {
                    return bad();
                }
                if with_b2b(&b, &mut o, |b, o| self.m.blocks_b2b(b, o)) {
                    line(format!("out {}", hex(&o)))
                } else {
                    line(format!("err {}", hex(&o)))
                }
            }
            ["padenc", x] | ["paddec", x] => {
                let Some(b) = unhex(x) else { return bad() };
                match self.m.clone().padded(&b) {
                    Some(o) => line(format!("out {}", hex(&o))),
                    None => line("err".into()),
                }
            }
            ["oneshot", x] => {
                let Some(mut b) = unhex(x) else { return bad() };
                if self.m.clone().oneshot(&mut b) { line(format!("out {}", hex(&b))) } else { bad() }
            }
            ["oneshotb", x, g] => {
                let (Some(b), Some(mut o)) = (unhex(x), unhex(g)) else { return bad() };
                let m2 = self.m.clone();
                match with_b2b(&b, &mut o, |b, o| m2.oneshot_b2b(b, o)) {
                    Some(true) => line(format!("out {}", hex(&o))),
                    Some(false) => line(format!("err {}", hex(&o))),
                    None => bad(),
                }
            }
            ["ivstate"] => line(format!("state {}", hex(&self.m.iv_state()))),
            ["reinit"] => {
                self.m = self.m.reinit(&self.key);
                line("ok".into())
            }
            ["viainner"] => {
                let o = Box::new(Self { m: M::via_inner(&self.key, &self.iv), key: self.key.clone(), iv: self.iv.clone() });
                Step::Push(o, "ok".into())
            }
            ["newslice", kl, il] => {
                let (Ok(k), Ok(i)) = (kl.parse::<usize>(), il.parse::<usize>()) else { return bad() };
                let key = vec![0x5au8; k];
                let iv = vec![0xa5u8; i];
                line(if M::new_slices(&key, &iv) { "ok".into() } else { "err".into() })
            }
            ["debug"] => line(format!("text {}", self.m.debug())),
            ["algname"] => line(format!("text {}", M::algname())),
            _ => bad(),
        }
    }
}

// ------------------------------------------------------------------------------------------------
// buffered CFB

pub struct BufObj<C: BlockCipherEncrypt, const ENC: bool> {
    e: Option<cfb_mode::BufEncryptor<C>>,
    d: Option<cfb_mode::BufDecryptor<C>>,
    key: Vec<u8>,
}

impl<C, const ENC: bool> BufObj<C, ENC>
where
    C: BlockCipherEncrypt + KeyInit + Clone + AlgorithmName + Debug + 'static,
{
    pub fn new(key: &[u8], iv: &[u8]) -> Box<dyn Obj> {
        let (e, d) = if ENC {
            (Some(<cfb_mode::BufEncryptor<C> as KeyIvInit>::new(key.try_into().unwrap(), iv.try_into().unwrap())), None)
        } else {
            (None, Some(<cfb_mode::BufDecryptor<C> as KeyIvInit>::new(key.try_into().unwrap(), iv.try_into().unwrap())))
        };
        Box::new(Self { e, d, key: key.to_vec() })
    }
}

impl<C, const ENC: bool> Obj for BufObj<C, ENC>
where
    C: BlockCipherEncrypt + KeyInit + Clone + AlgorithmName + Debug + 'static,
{
    fn boxed_clone(&self) -> Option<Box<dyn Obj>> {
        Some(Box::new(Self { e: self.e.clone(), d: self.d.clone(), key: self.key.clone() }))
    }
    fn as_any(&self) -> &dyn core::any::Any {
        self
    }
    fn clone_from_dyn(&mut self, other: &dyn core::any::Any) -> bool {
        match other.downcast_ref::<Self>() {
            Some(o) => {
                // field by field: `Option<T>::clone_from` forwards to `T::clone_from` when both are `Some`
                self.e.clone_from(&o.e);
                self.d.clone_from(&o.d);
                true
            }
            None => false,
        }
    }
    fn step(&mut self, toks: &[&str]) -> Step {
        match toks {
            ["data", x] => {
                let Some(mut b) = unhex(x) else { return bad() };
                if ENC { self.e.as_mut().unwrap().encrypt(&mut b) } else { self.d.as_mut().unwrap().decrypt(&mut b) }
                line(format!("out {}", hex(&b)))
            }
            ["getstate"] => {
                let (iv, pos) = if ENC {
                    let (iv, pos) = self.e.as_ref().unwrap().get_state();
                    (iv.to_vec(), pos)
                } else {
                    let (iv, pos) = self.d.as_ref().unwrap().get_state();
                    (iv.to_vec(), pos)
                };
                line(format!("bufstate {} {}", hex(&iv), pos))
            }
            ["restate"] => {
                let c = <C as KeyInit>::new(self.key.as_slice().try_into().unwrap());
                if ENC {
                    let (iv, pos) = self.e.as_ref().unwrap().get_state();
                    let (iv, pos) = (iv.clone(), pos);
                    self.e = Some(cfb_mode::BufEncryptor::from_state(c, &iv, pos));
                } else {
                    let (iv, pos) = self.d.as_ref().unwrap().get_state();
                    let (iv, pos) = (iv.clone(), pos);
                    self.d = Some(cfb_mode::BufDecryptor::from_state(c, &iv, pos));
                }
                line("ok".into())
            }
            ["debug"] => {
                if ENC { line(format!("text {}", dbg2(self.e.as_ref().unwrap()))) } else { line(format!("text {}", dbg2(self.d.as_ref().unwrap()))) }
            }
            ["algname"] => {
                if ENC { line(format!("text {}", alg_name::<cfb_mode::BufEncryptor<C>>())) } else { line(format!("text {}", alg_name::<cfb_mode::BufDecryptor<C>>())) }
            }
            _ => bad(),
        }
    }
}

// ------------------------------------------------------------------------------------------------
// byte-level stream ciphers (StreamCipherCoreWrapper<core>) and the cores themselves

pub trait CoreKind: StreamCipherCore + KeyIvInit + IvState + Debug + AlgorithmName + 'static {
    const SEEKABLE: bool;
    /// `Clone::clone` where the type implements it (`BeltCtrCore` does not)
    fn maybe_clone(&self) -> Option<Self>;
    fn maybe_clone_wrapper(w: &StreamCipherCoreWrapper<Self>) -> Option<StreamCipherCoreWrapper<Self>>;
    /// `Clone::clone_from` where the type implements `Clone`
    fn maybe_clone_from(&mut self, _other: &Self) -> bool {
        false
    }
    fn maybe_clone_from_wrapper(_w: &mut StreamCipherCoreWrapper<Self>, _other: &StreamCipherCoreWrapper<Self>) -> bool {
        false
    }
    fn set_pos(&mut self, p: u128) -> bool;
    fn get_pos(&self) -> u128;
}

/// seeking through the wrapper; implemented only for seekable cores
pub trait StreamCipherSeekMaybe {
    fn do_seek(&mut self, t: &str, p: u128) -> Option<bool>;
    fn do_pos(&self, t: &str) -> Option<Result<u128, ()>>;
}

fn seek_any<S: StreamCipherSeek>(s: &mut S, t: &str, p: u128) -> Option<bool> {
    Some(match t {
        "i32" => s.try_seek::<i32>(i32::try_from(p).ok()?).is_ok(),
        "u32" => s.try_seek::<u32>(u32::try_from(p).ok()?).is_ok(),
        "u64" => s.try_seek::<u64>(u64::try_from(p).ok()?).is_ok(),
        "u128" => s.try_seek::<u128>(p).is_ok(),
        "usize" => s.try_seek::<usize>(usize::try_from(p).ok()?).is_ok(),
        _ => return None,
    })
}

fn pos_any<S: StreamCipherSeek>(s: &S, t: &str) -> Option<Result<u128, ()>> {
    Some(match t {
        "i32" => s.try_current_pos::<i32>().map(|v| v as u128).map_err(|_| ()),
        "u32" => s.try_current_pos::<u32>().map(|v| v as u128).map_err(|_| ()),
        "u64" => s.try_current_pos::<u64>().map(|v| v as u128).map_err(|_| ()),
        "u128" => s.try_current_pos::<u128>().map_err(|_| ()),
        "usize" => s.try_current_pos::<usize>().map(|v| v as u128).map_err(|_| ()),
        _ => return None,
    })
}

macro_rules! impl_seekable_core {
    ([$($cl:tt)*] $($gen:tt)*) => {
        impl $($gen)* {
            const SEEKABLE: bool = true;
            $($cl)*
            fn set_pos(&mut self, p: u128) -> bool {
                match <Self as StreamCipherSeekCore>::Counter::try_from(p) {
                    Ok(v) => { self.set_block_pos(v); true }
                    Err(_) => false,
                }
            }
            fn get_pos(&self) -> u128 {
                match self.get_block_pos().try_into() { Ok(v) => v, Err(_) => unreachable!() }
            }
        }
    };
}

impl_seekable_core!([fn maybe_clone(&self) -> Option<Self> { Some(self.clone()) }
    fn maybe_clone_wrapper(w: &StreamCipherCoreWrapper<Self>) -> Option<StreamCipherCoreWrapper<Self>> { Some(w.clone()) }
    fn maybe_clone_from(&mut self, other: &Self) -> bool { self.clone_from(other); true }
    fn maybe_clone_from_wrapper(w: &mut StreamCipherCoreWrapper<Self>, other: &StreamCipherCoreWrapper<Self>) -> bool { w.clone_from(other); true }]
    <C, F> CoreKind for ctr::CtrCore<C, F>
    where C: BlockCipherEncrypt + KeyInit + Clone + AlgorithmName + Debug + 'static, F: ctr::CtrFlavor<C::BlockSize> + 'static);
impl_seekable_core!([fn maybe_clone(&self) -> Option<Self> { None }
    fn maybe_clone_wrapper(_w: &StreamCipherCoreWrapper<Self>) -> Option<StreamCipherCoreWrapper<Self>> { None }]
    <C> CoreKind for belt_ctr::BeltCtrCore<C>
    where C: BlockCipherEncrypt + BlockCipherDecrypt + BlockSizeUser<BlockSize = cipher::consts::U16> + KeyInit + Clone + AlgorithmName + Debug + 'static);

impl<C> CoreKind for ofb::OfbCore<C>
where
    C: BlockCipherEncrypt + KeyInit + Clone + AlgorithmName + Debug + 'static,
{
    const SEEKABLE: bool = false;
    fn maybe_clone(&self) -> Option<Self> {
        Some(self.clone())
    }
    fn maybe_clone_wrapper(w: &StreamCipherCoreWrapper<Self>) -> Option<StreamCipherCoreWrapper<Self>> {
        Some(w.clone())
    }
    fn maybe_clone_from(&mut self, other: &Self) -> bool {
        self.clone_from(other);
        true
    }
    fn maybe_clone_from_wrapper(w: &mut StreamCipherCoreWrapper<Self>, other: &StreamCipherCoreWrapper<Self>) -> bool {
        w.clone_from(other);
        true
    }
    fn set_pos(&mut self, _p: u128) -> bool {
        false
    }
    fn get_pos(&self) -> u128 {
        0
    }
}

impl<C, F> StreamCipherSeekMaybe for StreamCipherCoreWrapper<ctr::CtrCore<C, F>>
where
    C: BlockCipherEncrypt,
    F: ctr::CtrFlavor<C::BlockSize>,
{
    fn do_seek(&mut self, t: &str, p: u128) -> Option<bool> {
        seek_any(self, t, p)
    }
    fn do_pos(&self, t: &str) -> Option<Result<u128, ()>> {
        pos_any(self, t)
    }
}
impl<C> StreamCipherSeekMaybe for StreamCipherCoreWrapper<belt_ctr::BeltCtrCore<C>>
where
    C: BlockCipherEncrypt + BlockSizeUser<BlockSize = cipher::consts::U16>,
{
    fn do_seek(&mut self, t: &str, p: u128) -> Option<bool> {
        seek_any(self, t, p)
    }
    fn do_pos(&self, t: &str) -> Option<Result<u128, ()>> {
        pos_any(self, t)
    }
}
impl<C: BlockCipherEncrypt> StreamCipherSeekMaybe for StreamCipherCoreWrapper<ofb::OfbCore<C>> {
    fn do_seek(&mut self, _t: &str, _p: u128) -> Option<bool> {
        None
    }
    fn do_pos(&self, _t: &str) -> Option<Result<u128, ()>> {
        None
    }
}

pub struct StreamObj<T: CoreKind>
where
    StreamCipherCoreWrapper<T>: StreamCipherSeekMaybe,
{
    w: StreamCipherCoreWrapper<T>,
    key: Vec<u8>,
    iv: Vec<u8>,
    /// the first `n` keystream bytes of a fresh object constructed through the crate's *public alias* for this type
    /// (`ctr::Ctr32BE<C>`, …, `ofb::Ofb<C>`, `belt_ctr::BeltCtr<C>`) — what users name; op `aliasks n`
    alias_ks: Option<AliasKs>,
    probe: Option<fn(&StreamCipherCoreWrapper<T>) -> Option<StreamCipherCoreWrapper<T>>>,
}

pub type AliasKs = fn(&[u8], &[u8], usize) -> Vec<u8>;

/// keystream through a public alias type `$A` (used at a call site where the cipher type is concrete)
#[macro_export]
macro_rules! alias_ks {
    ($A:ty) => {
        |k: &[u8], v: &[u8], n: usize| -> Vec<u8> {
            use cipher::{KeyIvInit, StreamCipher};
            let mut c = <$A as KeyIvInit>::new(k.try_into().unwrap(), v.try_into().unwrap());
            let mut b = vec![0u8; n];
            c.apply_keystream(&mut b);
            b
        }
    };
}

impl<T: CoreKind> StreamObj<T>
where
    StreamCipherCoreWrapper<T>: StreamCipherSeekMaybe + Debug,
{
    pub fn new_alias(key: &[u8], iv: &[u8], alias_ks: AliasKs) -> Box<dyn Obj> {
        let w = <StreamCipherCoreWrapper<T> as KeyIvInit>::new(key.try_into().unwrap(), iv.try_into().unwrap());
        Box::new(Self { w, key: key.to_vec(), iv: iv.to_vec(), alias_ks: Some(alias_ks), probe: None })
    }
    pub fn new_alias_probe(key: &[u8], iv: &[u8], alias_ks: AliasKs, probe: fn(&StreamCipherCoreWrapper<T>) -> Option<StreamCipherCoreWrapper<T>>) -> Box<dyn Obj> {
        let w = <StreamCipherCoreWrapper<T> as KeyIvInit>::new(key.try_into().unwrap(), iv.try_into().unwrap());
        Box::new(Self { w, key: key.to_vec(), iv: iv.to_vec(), alias_ks: Some(alias_ks), probe: Some(probe) })
    }
}

impl<T: CoreKind> Obj for StreamObj<T>
where
    StreamCipherCoreWrapper<T>: StreamCipherSeekMaybe + Debug,
{
    fn boxed_clone(&self) -> Option<Box<dyn Obj>> {
        let w = T::maybe_clone_wrapper(&self.w).or_else(|| self.probe.and_then(|f| f(&self.w)))?;
        Some(Box::new(Self { w, key: self.key.clone(), iv: self.iv.clone(), alias_ks: self.alias_ks, probe: self.probe }))
    }
    fn as_any(&self) -> &dyn core::any::Any {
        self
    }
    fn clone_from_dyn(&mut self, other: &dyn core::any::Any) -> bool {
        match other.downcast_ref::<Self>() {
            Some(o) => T::maybe_clone_from_wrapper(&mut self.w, &o.w),
            None => false,
        }
    }
    fn step(&mut self, toks: &[&str]) -> Step {
        match toks {
            ["apply", x] => {
                let Some(mut b) = unhex(x) else { return bad() };
                match self.w.try_apply_keystream(&mut b) {
                    Ok(()) => line(format!("out {}", hex(&b))),
                    Err(_) => line(format!("err {}", hex(&b))),
                }
            }
            ["applyb", x, g] => {
                let (Some(b), Some(mut o)) = (unhex(x), unhex(g)) else { return bad() };
                match with_b2b(&b, &mut o, |b, o| self.w.apply_keystream_b2b(b, o)) {
                    Ok(()) => line(format!("out {}", hex(&o))),
                    Err(_) => line(format!("err {}", hex(&o))),
                }
            }
            ["seek", t, n] => {
                let Ok(p) = n.parse::<u128>() else { return bad() };
                match self.w.do_seek(t, p) {
                    Some(true) => line("ok".into()),
                    Some(false) => line("err".into()),
                    None => bad(),
                }
            }
            ["pos", t] => match self.w.do_pos(t) {
                Some(Ok(v)) => line(format!("pos {}", v)),
                Some(Err(())) => line("err".into()),
                None => bad(),
            },
            ["rem"] => match self.w.get_core().remaining_blocks() {
                Some(v) => line(format!("rem {}", v)),
                None => line("rem none".into()),
            },
            ["aliasks", n] => {
                let Ok(k) = n.parse::<usize>() else { return bad() };
                match self.alias_ks {
                    Some(f) => line(format!("out {}", hex(&f(&self.key, &self.iv, k)))),
                    None => bad(),
                }
            }
            ["corestate"] => line(format!("state {}", hex(&self.w.get_core().iv_state()))),
            ["fromcore", n] => {
                let Ok(p) = n.parse::<u128>() else { return bad() };
                if !T::SEEKABLE {
                    return bad();
                }
                let mut core = <T as KeyIvInit>::new(self.key.as_slice().try_into().unwrap(), self.iv.as_slice().try_into().unwrap());
                if !core.set_pos(p) {
                    return bad();
                }
                self.w = StreamCipherCoreWrapper::from_core(core);
                line("ok".into())
            }
            ["debug"] => line(format!("text {}", dbg2(&self.w))),
            ["algname"] => line(format!("text {}", alg_name::<T>())),
            _ => bad(),
        }
    }
}

pub struct CoreObj<T: CoreKind> {
    c: T,
    key: Vec<u8>,
    /// `Clone::clone` found by probing at a concrete call site, for core types `CoreKind::maybe_clone` knows as not cloneable
    probe: Option<fn(&T) -> Option<T>>,
}

impl<T: CoreKind> CoreObj<T> {
    pub fn new(key: &[u8], iv: &[u8]) -> Box<dyn Obj> {
        let c = <T as KeyIvInit>::new(key.try_into().unwrap(), iv.try_into().unwrap());
        Box::new(Self { c, key: key.to_vec(), probe: None })
    }
    pub fn new_probe(key: &[u8], iv: &[u8], probe: fn(&T) -> Option<T>) -> Box<dyn Obj> {
        let c = <T as KeyIvInit>::new(key.try_into().unwrap(), iv.try_into().unwrap());
        Box::new(Self { c, key: key.to_vec(), probe: Some(probe) })
    }
}

impl<T: CoreKind> Obj for CoreObj<T> {
    fn boxed_clone(&self) -> Option<Box<dyn Obj>> {
        let c = self.c.maybe_clone().or_else(|| self.probe.and_then(|f| f(&self.c)))?;
        Some(Box::new(Self { c, key: self.key.clone(), probe: self.probe }))
    }
    fn as_any(&self) -> &dyn core::any::Any {
        self
    }
    fn clone_from_dyn(&mut self, other: &dyn core::any::Any) -> bool {
        match other.downcast_ref::<Self>() {
            Some(o) => self.c.maybe_clone_from(&o.c),
            None => false,
        }
    }
    fn step(&mut self, toks: &[&str]) -> Step {
        let bs = <T::BlockSize as Unsigned>::USIZE;
        match toks {
            ["ksblock"] => {
                // the destination holds garbage: `write_*` must overwrite, not combine
                let mut b = Block::<T>::default();
                b.iter_mut().for_each(|x| *x = 0xa5);
                self.c.write_keystream_block(&mut b);
                line(format!("out {}", hex(&b)))
            }
            ["ksblocks", n] => {
                let Ok(k) = n.parse::<usize>() else { return bad() };
                let mut v = vec![0xa5u8; k * bs];
                self.c.write_keystream_blocks(blocks_mut::<T::BlockSize>(&mut v));
                line(format!("out {}", hex(&v)))
            }
            ["applyblocks", x] => {
                let Some(mut b) = unhex(x) else { return bad() };
                if b.len() % bs != 0 {
                    return bad();
                }
                self.c.apply_keystream_blocks(blocks_mut::<T::BlockSize>(&mut b));
                line(format!("out {}", hex(&b)))
            }
            ["applyblock", x] => {
                // the single-block entry point `apply_keystream_block_inout`, in place
                let Some(mut b) = unhex(x) else { return bad() };
                if b.len() != bs {
                    return bad();
                }
                let blk: &mut Block<T> = b.as_mut_slice().try_into().unwrap();
                self.c.apply_keystream_block_inout(blk.into());
                line(format!("out {}", hex(&b)))
            }
            ["applyblockb", x, g] => {
                let (Some(b), Some(mut o)) = (unhex(x), unhex(g)) else { return bad() };
                if b.len() != bs || o.len() != bs {
                    return bad();
                }
                let i: &Block<T> = b.as_slice().try_into().unwrap();
                let ob: &mut Block<T> = o.as_mut_slice().try_into().unwrap();
                self.c.apply_keystream_block_inout((i, ob).into());
                line(format!("out {}", hex(&o)))
            }
            ["ksdirect", v, n] => {
                // caller-written closure for `process_with_backend`: variant 0 = every block through `gen_ks_block`,
                // variant 1 = chunks of ParBlocksSize through `gen_par_ks_blocks`, the rest through `gen_tail_blocks`
                let (Ok(v), Ok(k)) = (v.parse::<u8>(), n.parse::<usize>()) else { return bad() };
                let mut buf = vec![0x5au8; k * bs];
                self.c.process_with_backend(DirectKs { variant: v, buf: blocks_mut::<T::BlockSize>(&mut buf) });
                line(format!("out {}", hex(&buf)))
            }
            ["applyblocksb", x, g] => {
                let (Some(b), Some(mut o)) = (unhex(x), unhex(g)) else { return bad() };
                if b.len() % bs != 0 || b.len() != o.len() {
                    return bad();
                }
                let io = cipher::inout::InOutBuf::new(blocks_ref::<T::BlockSize>(&b), blocks_mut::<T::BlockSize>(&mut o)).unwrap();
                self.c.apply_keystream_blocks_inout(io);
                line(format!("out {}", hex(&o)))
            }
            ["partial", x] => {
                // `StreamCipherCore::try_apply_keystream_partial` consumes the core: the object continues as a fresh core
                // created from the state exported *before* the call (like `reinit`)
                let Some(mut b) = unhex(x) else { return bad() };
                let st = self.c.iv_state();
                let fresh = <T as KeyIvInit>::new(self.key.as_slice().try_into().unwrap(), &st);
                let old = core::mem::replace(&mut self.c, fresh);
                let orig = b.clone();
                match old.try_apply_keystream_partial(b.as_mut_slice().into()) {
                    Ok(()) => line(format!("out {}", hex(&b))),
                    Err(_) => line(if b == orig { "err".into() } else { format!("errmod {}", hex(&b)) }),
                }
            }
            ["partialb", x, g] => {
                let (Some(b), Some(mut o)) = (unhex(x), unhex(g)) else { return bad() };
                if b.len() != o.len() {
                    return bad();
                }
                let st = self.c.iv_state();
                let fresh = <T as KeyIvInit>::new(self.key.as_slice().try_into().unwrap(), &st);
                let old = core::mem::replace(&mut self.c, fresh);
                let orig = o.clone();
                match with_b2b(&b, &mut o, |b, o| old.try_apply_keystream_partial(cipher::inout::InOutBuf::new(b, o).unwrap())) {
                    Ok(()) => line(format!("out {}", hex(&o))),
                    Err(_) => line(if o == orig { "err".into() } else { format!("errmod {}", hex(&o)) }),
                }
            }
            ["setpos", n] => {
                let Ok(p) = n.parse::<u128>() else { return bad() };
                if !T::SEEKABLE || !self.c.set_pos(p) {
                    return bad();
                }
                line("ok".into())
            }
            ["getpos"] => {
                if !T::SEEKABLE {
                    return bad();
                }
                line(format!("pos {}", self.c.get_pos()))
            }
            ["rem"] => match self.c.remaining_blocks() {
                Some(v) => line(format!("rem {}", v)),
                None => line("rem none".into()),
            },
            ["ivstate"] => line(format!("state {}", hex(&self.c.iv_state()))),
            ["reinit"] => {
                let st = self.c.iv_state();
                self.c = <T as KeyIvInit>::new(self.key.as_slice().try_into().unwrap(), &st);
                line("ok".into())
            }
            ["debug"] => line(format!("text {}", dbg2(&self.c))),
            ["algname"] => line(format!("text {}", alg_name::<T>())),
            _ => bad(),
        }
    }
}

// ------------------------------------------------------------------------------------------------
// ciphertext stealing (one-shot, consuming)

/// when set, the CTS adapters call the public `encrypt_inout` / `decrypt_inout` entry points directly instead of the
/// `encrypt` / `decrypt` / `*_b2b` wrappers (ops `encio`, `decio`, `enciob`, `deciob`)
pub static CTS_VIA_INOUT: std::sync::atomic::AtomicBool = std::sync::atomic::AtomicBool::new(false);
pub static PAD_ROUTE: std::sync::atomic::AtomicU8 = std::sync::atomic::AtomicU8::new(0);
fn pad_route() -> u8 {
    PAD_ROUTE.load(std::sync::atomic::Ordering::Relaxed)
}
fn via_inout() -> bool {
    CTS_VIA_INOUT.load(std::sync::atomic::Ordering::Relaxed)
}

pub trait CtsKind: 'static {
    const HAS_IV: bool;
    fn enc(key: &[u8], iv: &[u8], buf: &mut [u8]) -> bool;
    fn dec(key: &[u8], iv: &[u8], buf: &mut [u8]) -> bool;
    fn enc_b2b(key: &[u8], iv: &[u8], inp: &[u8], out: &mut [u8]) -> bool;
    fn dec_b2b(key: &[u8], iv: &[u8], inp: &[u8], out: &mut [u8]) -> bool;
    fn new_slices(key: &[u8], iv: &[u8]) -> bool;
    /// clone before use: exercises `Clone`
    fn enc_via_clone(key: &[u8], iv: &[u8], buf: &mut [u8]) -> bool;
    /// an object constructed under (key2, iv2) is overwritten with `Clone::clone_from` from one under (key, iv), then used
    fn via_clone_from(key: &[u8], iv: &[u8], key2: &[u8], iv2: &[u8], buf: &mut [u8], dec: bool) -> bool;
}

macro_rules! impl_cts_cbc {
    ($name:ident) => {
        impl<C> CtsKind for cts::$name<C>
        where
            C: BlockCipherEncrypt + BlockCipherDecrypt + KeyInit + Clone + 'static,
        {
            const HAS_IV: bool = true;
            fn enc(key: &[u8], iv: &[u8], buf: &mut [u8]) -> bool {
                let m = <Self as KeyIvInit>::new(key.try_into().unwrap(), iv.try_into().unwrap());
                if via_inout() { cts::Encrypt::encrypt_inout(m, buf.into()).is_ok() } else { cts::Encrypt::encrypt(m, buf).is_ok() }
            }
            fn dec(key: &[u8], iv: &[u8], buf: &mut [u8]) -> bool {
                let m = <Self as KeyIvInit>::new(key.try_into().unwrap(), iv.try_into().unwrap());
                if via_inout() { cts::Decrypt::decrypt_inout(m, buf.into()).is_ok() } else { cts::Decrypt::decrypt(m, buf).is_ok() }
            }
            fn enc_b2b(key: &[u8], iv: &[u8], inp: &[u8], out: &mut [u8]) -> bool {
                let m = <Self as KeyIvInit>::new(key.try_into().unwrap(), iv.try_into().unwrap());
                if via_inout() { match cipher::inout::InOutBuf::new(inp, out) { Ok(b) => cts::Encrypt::encrypt_inout(m, b).is_ok(), Err(_) => false } } else { cts::Encrypt::encrypt_b2b(m, inp, out).is_ok() }
            }
            fn dec_b2b(key: &[u8], iv: &[u8], inp: &[u8], out: &mut [u8]) -> bool {
                let m = <Self as KeyIvInit>::new(key.try_into().unwrap(), iv.try_into().unwrap());
                if via_inout() { match cipher::inout::InOutBuf::new(inp, out) { Ok(b) => cts::Decrypt::decrypt_inout(m, b).is_ok(), Err(_) => false } } else { cts::Decrypt::decrypt_b2b(m, inp, out).is_ok() }
            }
            fn new_slices(key: &[u8], iv: &[u8]) -> bool {
                <Self as KeyIvInit>::new_from_slices(key, iv).is_ok()
            }
            fn enc_via_clone(key: &[u8], iv: &[u8], buf: &mut [u8]) -> bool {
                let m = <Self as KeyIvInit>::new(key.try_into().unwrap(), iv.try_into().unwrap());
                let m2 = m.clone();
                drop(m);
                cts::Encrypt::encrypt(m2, buf).is_ok()
            }
            fn via_clone_from(key: &[u8], iv: &[u8], key2: &[u8], iv2: &[u8], buf: &mut [u8], dec: bool) -> bool {
                let src = <Self as KeyIvInit>::new(key.try_into().unwrap(), iv.try_into().unwrap());
                let mut dst = <Self as KeyIvInit>::new(key2.try_into().unwrap(), iv2.try_into().unwrap());
                dst.clone_from(&src);
                drop(src);
                if dec { cts::Decrypt::decrypt(dst, buf).is_ok() } else { cts::Encrypt::encrypt(dst, buf).is_ok() }
            }
        }
    };
}
macro_rules! impl_cts_ecb {
    ($name:ident) => {
        impl<C> CtsKind for cts::$name<C>
        where
            C: BlockCipherEncrypt + BlockCipherDecrypt + KeyInit + Clone + 'static,
        {
            const HAS_IV: bool = false;
            fn enc(key: &[u8], _iv: &[u8], buf: &mut [u8]) -> bool {
                let m = <Self as KeyInit>::new(key.try_into().unwrap());
                if via_inout() { cts::Encrypt::encrypt_inout(m, buf.into()).is_ok() } else { cts::Encrypt::encrypt(m, buf).is_ok() }
            }
            fn dec(key: &[u8], _iv: &[u8], buf: &mut [u8]) -> bool {
                let m = <Self as KeyInit>::new(key.try_into().unwrap());
                if via_inout() { cts::Decrypt::decrypt_inout(m, buf.into()).is_ok() } else { cts::Decrypt::decrypt(m, buf).is_ok() }
            }
            fn enc_b2b(key: &[u8], _iv: &[u8], inp: &[u8], out: &mut [u8]) -> bool {
                let m = <Self as KeyInit>::new(key.try_into().unwrap());
                if via_inout() { match cipher::inout::InOutBuf::new(inp, out) { Ok(b) => cts::Encrypt::encrypt_inout(m, b).is_ok(), Err(_) => false } } else { cts::Encrypt::encrypt_b2b(m, inp, out).is_ok() }
            }
            fn dec_b2b(key: &[u8], _iv: &[u8], inp: &[u8], out: &mut [u8]) -> bool {
                let m = <Self as KeyInit>::new(key.try_into().unwrap());
                if via_inout() { match cipher::inout::InOutBuf::new(inp, out) { Ok(b) => cts::Decrypt::decrypt_inout(m, b).is_ok(), Err(_) => false } } else { cts::Decrypt::decrypt_b2b(m, inp, out).is_ok() }
            }
            fn new_slices(key: &[u8], _iv: &[u8]) -> bool {
                <Self as KeyInit>::new_from_slice(key).is_ok()
            }
            fn enc_via_clone(key: &[u8], _iv: &[u8], buf: &mut [u8]) -> bool {
                let m = <Self as KeyInit>::new(key.try_into().unwrap());
                let m2 = m.clone();
                drop(m);
                cts::Encrypt::encrypt(m2, buf).is_ok()
            }
            fn via_clone_from(key: &[u8], _iv: &[u8], key2: &[u8], _iv2: &[u8], buf: &mut [u8], dec: bool) -> bool {
                let src = <Self as KeyInit>::new(key.try_into().unwrap());
                let mut dst = <Self as KeyInit>::new(key2.try_into().unwrap());
                dst.clone_from(&src);
                drop(src);
                if dec { cts::Decrypt::decrypt(dst, buf).is_ok() } else { cts::Encrypt::encrypt(dst, buf).is_ok() }
            }
        }
    };
}
impl_cts_cbc!(CbcCs1);
impl_cts_cbc!(CbcCs2);
impl_cts_cbc!(CbcCs3);
impl_cts_ecb!(EcbCs1);
impl_cts_ecb!(EcbCs2);
impl_cts_ecb!(EcbCs3);

// `Debug` text of a type that may or may not implement `Debug` (the `cts` types do not, at the pinned commit): resolved by
// method probing at a call site where the type is concrete — `Wrap<T>: ViaDebug` needs `T: Debug` and is found first
// (by value on `&Wrap<T>`), otherwise the auto-ref'd fallback answers.
#[allow(dead_code)]
pub struct DbgWrap<'a, T>(pub &'a T);
#[allow(dead_code)]
pub trait ViaDebug {
    fn dbg_text(&self) -> String;
}
impl<T: core::fmt::Debug> ViaDebug for DbgWrap<'_, T> {
    fn dbg_text(&self) -> String {
        dbg2(self.0)
    }
}
pub trait ViaNoDebug {
    fn dbg_text(&self) -> String;
}
impl<T> ViaNoDebug for &DbgWrap<'_, T> {
    fn dbg_text(&self) -> String {
        "<no Debug impl>".into()
    }
}
#[macro_export]
macro_rules! maybe_debug {
    ($e:expr) => {{
        #[allow(unused_imports)]
        use $crate::objs::{ViaDebug, ViaNoDebug};
        (&$crate::objs::DbgWrap(&$e)).dbg_text()
    }};
}

pub type DbgFn = fn(&[u8], &[u8]) -> String;

// `Clone::clone` of a type that may or may not implement `Clone` (`BeltCtrCore` and `BeltCtr` do not, at the pinned commit),
// resolved the same way at a call site where the type is concrete
pub struct CloneWrap<'a, T>(pub &'a T);
pub trait ViaClone<T> {
    fn try_clone(&self) -> Option<T>;
}
impl<T: Clone> ViaClone<T> for CloneWrap<'_, T> {
    fn try_clone(&self) -> Option<T> {
        Some(self.0.clone())
    }
}
pub trait ViaNoClone<T> {
    fn try_clone(&self) -> Option<T>;
}
impl<T> ViaNoClone<T> for &CloneWrap<'_, T> {
    fn try_clone(&self) -> Option<T> {
        None
    }
}
#[macro_export]
macro_rules! maybe_clone_fn {
    ($T:ty) => {
        |x: &$T| -> Option<$T> {
            #[allow(unused_imports)]
            use $crate::objs::{ViaClone, ViaNoClone};
            (&$crate::objs::CloneWrap(x)).try_clone()
        }
    };
}

pub struct CtsObj<K: CtsKind> {
    key: Vec<u8>,
    iv: Vec<u8>,
    use_clone: bool,
    dbg: Option<DbgFn>,
    _p: core::marker::PhantomData<K>,
}

impl<K: CtsKind> CtsObj<K> {
    /// `dbg` constructs the mode object from (key, iv) and formats it with `{:?}` if the type implements `Debug`
    pub fn new_dbg(key: &[u8], iv: &[u8], dbg: DbgFn) -> Box<dyn Obj> {
        Box::new(Self { key: key.to_vec(), iv: iv.to_vec(), use_clone: false, dbg: Some(dbg), _p: core::marker::PhantomData })
    }
}

impl<K: CtsKind> Obj for CtsObj<K> {
    fn boxed_clone(&self) -> Option<Box<dyn Obj>> {
        // the next `enc` goes through a real `Clone::clone` of the mode object
        Some(Box::new(Self { key: self.key.clone(), iv: self.iv.clone(), use_clone: true, dbg: self.dbg, _p: core::marker::PhantomData }))
    }
    fn as_any(&self) -> &dyn core::any::Any {
        self
    }
    fn step(&mut self, toks: &[&str]) -> Step {
        let res = |ok: bool, buf: &[u8]| {
            if ok { line(format!("out {}", hex(buf))) } else { line(format!("err {}", hex(buf))) }
        };
        // `encio` etc.: the same call through the `*_inout` entry point
        let (toks2, io): (Vec<&str>, bool) = match toks {
            ["encio", x] => (vec!["enc", x], true),
            ["decio", x] => (vec!["dec", x], true),
            ["enciob", x, g] => (vec!["encb", x, g], true),
            ["deciob", x, g] => (vec!["decb", x, g], true),
            t => (t.to_vec(), false),
        };
        struct Reset;
        impl Drop for Reset {
            fn drop(&mut self) {
                CTS_VIA_INOUT.store(false, std::sync::atomic::Ordering::Relaxed);
            }
        }
        let _reset = Reset;
        CTS_VIA_INOUT.store(io, std::sync::atomic::Ordering::Relaxed);
        match toks2.as_slice() {
            ["enc", x] => {
                let Some(mut b) = unhex(x) else { return bad() };
                let ok = if self.use_clone { K::enc_via_clone(&self.key, &self.iv, &mut b) } else { K::enc(&self.key, &self.iv, &mut b) };
                res(ok, &b)
            }
            ["dec", x] => {
                let Some(mut b) = unhex(x) else { return bad() };
                let ok = K::dec(&self.key, &self.iv, &mut b);
                res(ok, &b)
            }
            ["encb", x, g] => {
                let (Some(b), Some(mut o)) = (unhex(x), unhex(g)) else { return bad() };
                let ok = with_b2b(&b, &mut o, |b, o| K::enc_b2b(&self.key, &self.iv, b, o));
                res(ok, &o)
            }
            ["decb", x, g] => {
                let (Some(b), Some(mut o)) = (unhex(x), unhex(g)) else { return bad() };
                let ok = with_b2b(&b, &mut o, |b, o| K::dec_b2b(&self.key, &self.iv, b, o));
                res(ok, &o)
            }
            ["newslice", kl, il] => {
                let (Ok(k), Ok(i)) = (kl.parse::<usize>(), il.parse::<usize>()) else { return bad() };
                line(if K::new_slices(&vec![0x5au8; k], &vec![0xa5u8; i]) { "ok".into() } else { "err".into() })
            }
            ["enccf", k2, v2, x] | ["deccf", k2, v2, x] => {
                let (Some(k2), Some(v2), Some(mut b)) = (unhex(k2), unhex(v2), unhex(x)) else { return bad() };
                let ok = K::via_clone_from(&self.key, &self.iv, &k2, &v2, &mut b, toks2[0] == "deccf");
                res(ok, &b)
            }
            ["debug"] => match self.dbg {
                Some(f) => line(format!("text {}", f(&self.key, &self.iv))),
                None => bad(),
            },
            _ => bad(),
        }
    }
}

// ------------------------------------------------------------------------------------------------
// the toy cipher itself

/// raw block encryption / decryption with the case's cipher (the toy cipher or a logged real cipher)
pub struct RawObj<C> {
    c: C,
}

impl<C: BlockCipherEncrypt + BlockCipherDecrypt + KeyInit + Clone + 'static> RawObj<C> {
    pub fn new(key: &[u8]) -> Box<dyn Obj> {
        Box::new(Self { c: <C as KeyInit>::new(key.try_into().unwrap()) })
    }
}

impl<C: BlockCipherEncrypt + BlockCipherDecrypt + KeyInit + Clone + 'static> Obj for RawObj<C> {
    fn boxed_clone(&self) -> Option<Box<dyn Obj>> {
        Some(Box::new(Self { c: self.c.clone() }))
    }
    fn as_any(&self) -> &dyn core::any::Any {
        self
    }
    fn step(&mut self, toks: &[&str]) -> Step {
        let bs = <C::BlockSize as Unsigned>::USIZE;
        match toks {
            ["E", x] => {
                let Some(mut b) = unhex(x) else { return bad() };
                if b.len() != bs {
                    return bad();
                }
                self.c.encrypt_block((&mut b[..]).try_into().unwrap());
                line(format!("out {}", hex(&b)))
            }
            ["D", x] => {
                let Some(mut b) = unhex(x) else { return bad() };
                if b.len() != bs {
                    return bad();
                }
                self.c.decrypt_block((&mut b[..]).try_into().unwrap());
                line(format!("out {}", hex(&b)))
            }
            _ => bad(),
        }
    }
}
