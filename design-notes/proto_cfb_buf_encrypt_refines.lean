abbrev Bytes := List UInt8
def xorB (a b : Bytes) : Bytes := List.zipWith (· ^^^ ·) a b
@[simp] theorem xorB_length (a b : Bytes) : (xorB a b).length = min a.length b.length := by simp [xorB]
@[simp] theorem xorB_nil_left (b : Bytes) : xorB [] b = [] := by simp [xorB]
@[simp] theorem xorB_nil_right (a : Bytes) : xorB a [] = [] := by simp [xorB]
theorem xorB_append (a b c d : Bytes) (h : a.length = c.length) :
    xorB (a ++ b) (c ++ d) = xorB a c ++ xorB b d := by
  simp [xorB, List.zipWith_append h]
theorem xorB_cons (x : UInt8) (xs : Bytes) (y : UInt8) (ys : Bytes) :
    xorB (x :: xs) (y :: ys) = (x ^^^ y) :: xorB xs ys := by simp [xorB]

theorem xorB_take_right : ∀ (a b : Bytes), xorB a (b.take a.length) = xorB a b := by
  intro a; induction a with
  | nil => intro b; simp
  | cons x xs ih =>
    intro b
    cases b with
    | nil => simp
    | cons y ys => simp [xorB_cons, ih]

/-! ## Reference semantics: full-block CFB encryption one byte at a time.
  State: `ks` = E(previous ciphertext block) (length bs), `cur` = ciphertext bytes of the current block so far. -/
structure RS where
  ks : Bytes
  cur : Bytes

def RS.stepByte (E : Bytes → Bytes) (bs : Nat) (s : RS) (p : UInt8) : RS × UInt8 :=
  let c := p ^^^ s.ks.getD s.cur.length 0
  let cur' := s.cur ++ [c]
  if cur'.length = bs then ({ ks := E cur', cur := [] }, c) else ({ s with cur := cur' }, c)

def RS.run (E : Bytes → Bytes) (bs : Nat) : RS → Bytes → RS × Bytes
  | s, [] => (s, [])
  | s, p :: ps =>
    let (s1, c) := s.stepByte E bs p
    let (s2, cs) := RS.run E bs s1 ps
    (s2, c :: cs)

/-- chunk independence is immediate for the reference semantics -/
theorem RS.run_append (E) (bs : Nat) : ∀ (a b : Bytes) (s : RS),
    RS.run E bs s (a ++ b) =
      ((RS.run E bs (RS.run E bs s a).1 b).1, (RS.run E bs s a).2 ++ (RS.run E bs (RS.run E bs s a).1 b).2) := by
  intro a; induction a with
  | nil => intro b s; simp [RS.run]
  | cons p ps ih => intro b s; simp [RS.run, ih]

/-- running over fewer bytes than remain in the block: no block boundary is crossed -/
theorem RS.run_partial (E) (bs : Nat) : ∀ (data : Bytes) (s : RS),
    s.cur.length + data.length < bs → s.ks.length = bs →
    RS.run E bs s data =
      ({ s with cur := s.cur ++ xorB data (s.ks.drop s.cur.length) }, xorB data (s.ks.drop s.cur.length)) := by
  intro data; induction data with
  | nil => intro s _ _; simp [RS.run]
  | cons p ps ih =>
    intro s h hk
    simp only [List.length_cons] at h
    have hlt : s.cur.length < s.ks.length := by omega
    have hd : s.ks.drop s.cur.length = s.ks[s.cur.length] :: s.ks.drop (s.cur.length + 1) := by
      rw [List.drop_eq_getElem_cons hlt]
    have hg : s.ks.getD s.cur.length 0 = s.ks[s.cur.length] := by
      simp [List.getD, List.getElem?_eq_getElem hlt]
    have hne : ¬ (s.cur ++ [p ^^^ s.ks[s.cur.length]]).length = bs := by simp; omega
    simp only [RS.run, RS.stepByte, hg, hne, if_false]
    have := ih { s with cur := s.cur ++ [p ^^^ s.ks[s.cur.length]] } (by simp; omega) hk
    simp only [List.length_append, List.length_cons, List.length_nil] at this
    rw [this, hd, xorB_cons]
    simp

/-- running over exactly the bytes that remain in the block: the block completes and ks := E(ciphertext block) -/
theorem RS.run_complete (E) (bs : Nat) (data : Bytes) (s : RS)
    (h : s.cur.length + data.length = bs) (hd : 0 < data.length) (hk : s.ks.length = bs) :
    RS.run E bs s data =
      ({ ks := E (s.cur ++ xorB data (s.ks.drop s.cur.length)), cur := [] }, xorB data (s.ks.drop s.cur.length)) := by
  -- split off the last byte
  obtain ⟨init, last, rfl⟩ : ∃ init last, data = init ++ [last] := by
    cases hdl : data.reverse with
    | nil => simp at hdl; subst hdl; simp at hd
    | cons l r => exact ⟨r.reverse, l, by have := congrArg List.reverse hdl; simpa using this⟩
  simp only [List.length_append, List.length_cons, List.length_nil] at h
  rw [RS.run_append, RS.run_partial E bs init s (by omega) hk]
  simp only [RS.run, RS.stepByte]
  have hil : (xorB init (s.ks.drop s.cur.length)).length = init.length := by simp; omega
  have hidx : (s.cur ++ xorB init (s.ks.drop s.cur.length)).length = s.cur.length + init.length := by simp [hil]
  have hlt : s.cur.length + init.length < s.ks.length := by omega
  have hfin : (s.cur ++ xorB init (s.ks.drop s.cur.length) ++ [last ^^^ s.ks.getD (s.cur.length + init.length) 0]).length = bs := by
    simp [hil]; omega
  rw [hidx]
  simp only [hfin, if_true]
  -- the xor of init ++ [last] against the keystream tail
  have hsplit : s.ks.drop s.cur.length
      = (s.ks.drop s.cur.length).take init.length ++ (s.ks[s.cur.length + init.length] :: s.ks.drop (s.cur.length + init.length + 1)) := by
    rw [← List.drop_eq_getElem_cons hlt, ← List.drop_drop, List.take_append_drop]
  have hg : s.ks.getD (s.cur.length + init.length) 0 = s.ks[s.cur.length + init.length] := by
    simp [List.getD, List.getElem?_eq_getElem hlt]
  have hx : xorB (init ++ [last]) (s.ks.drop s.cur.length)
      = xorB init (s.ks.drop s.cur.length) ++ [last ^^^ s.ks[s.cur.length + init.length]] := by
    conv => lhs; rw [hsplit]
    rw [xorB_append _ _ _ _ (by simp; omega), xorB_cons]
    simp only [xorB_nil_left]
    congr 1
    exact xorB_take_right init _
  rw [hx, hg]
  simp

/-- a full block from an empty `cur` -/
theorem RS.run_block (E) (bs : Nat) (hbs : 0 < bs) (blk ks : Bytes) (hb : blk.length = bs) (hk : ks.length = bs) :
    RS.run E bs { ks := ks, cur := [] } blk = ({ ks := E (xorB blk ks), cur := [] }, xorB blk ks) := by
  have := RS.run_complete E bs blk { ks := ks, cur := [] } (by simpa using hb) (by omega) hk
  simpa using this

/-! ## Mirror of `BufEncryptor` (cfb-mode/src/encrypt/buf.rs) -/
structure Buf where
  iv : Bytes
  pos : Nat

def chunks (bs : Nat) (m : Bytes) : List Bytes :=
  if h : 0 < bs ∧ bs ≤ m.length then m.take bs :: chunks bs (m.drop bs) else []
termination_by m.length
decreasing_by simp; omega

/-- `for chunk in &mut chunks { xor_set1(chunk, iv); cipher.encrypt_block(&mut iv) }` -/
def Buf.loop (E : Bytes → Bytes) : Bytes → List Bytes → Bytes × Bytes
  | iv, [] => (iv, [])
  | iv, c :: cs => let t := xorB c iv; let r := Buf.loop E (E t) cs; (r.1, t ++ r.2)

def Buf.encrypt (E : Bytes → Bytes) (bs : Nat) (s : Buf) (data : Bytes) : Buf × Bytes :=
  let n := data.length
  if n < bs - s.pos then
    let t := xorB data ((s.iv.drop s.pos).take n)                -- xor_set1(data, &mut iv[pos..pos+n])
    ({ iv := s.iv.take s.pos ++ (t ++ s.iv.drop (s.pos + n)), pos := s.pos + n }, t)
  else
    let left := data.take (bs - s.pos)                           -- split_at_mut(bs - pos)
    let right := data.drop (bs - s.pos)
    let tl := xorB left (s.iv.drop s.pos)                        -- xor_set1(left, &mut iv[pos..])
    let iv1 := E (s.iv.take s.pos ++ tl)                         -- cipher.encrypt_block(&mut iv)
    let r := Buf.loop E iv1 (chunks bs right)                    -- chunks_exact_mut(bs)
    let rem := right.drop (right.length / bs * bs)               -- into_remainder()
    let tr := xorB rem r.1                                       -- xor_set1(rem, iv)
    ({ iv := tr ++ r.1.drop rem.length, pos := rem.length }, tl ++ (r.2 ++ tr))

/-- abstraction relation: `iv = cur ++ ks.drop pos`, `pos = |cur| < bs` -/
structure Buf.Rel (bs : Nat) (s : Buf) (a : RS) : Prop where
  ks_len : a.ks.length = bs
  pos_eq : s.pos = a.cur.length
  pos_lt : s.pos < bs
  iv_eq : s.iv = a.cur ++ a.ks.drop a.cur.length

structure LenPres (bs : Nat) (E : Bytes → Bytes) : Prop where
  len : ∀ x, x.length = bs → (E x).length = bs

theorem Buf.loop_spec (E) (bs : Nat) (hbs : 0 < bs) (hE : LenPres bs E) :
    ∀ (n : Nat) (m ks : Bytes), m.length = n → ks.length = bs →
    ∃ ks', ks'.length = bs ∧
      Buf.loop E ks (chunks bs m) = (ks', (RS.run E bs { ks := ks, cur := [] } (m.take (n / bs * bs))).2) ∧
      (RS.run E bs { ks := ks, cur := [] } (m.take (n / bs * bs))).1 = { ks := ks', cur := [] } := by
  intro n
  induction n using Nat.strongRecOn with
  | _ n ih =>
    intro m ks hm hk
    rw [chunks]
    split
    · rename_i h
      have hdiv : n / bs = (n - bs) / bs + 1 := by
        have : n = (n - bs) + bs := by omega
        conv => lhs; rw [this]
        rw [Nat.add_div_right _ hbs]
      have hlen : (m.drop bs).length = n - bs := by simp [hm]
      have hb : (m.take bs).length = bs := by simp; omega
      have hE1 : (E (xorB (m.take bs) ks)).length = bs := hE.len _ (by simp [hb, hk])
      obtain ⟨ks', hk', h1, h2⟩ := ih (n - bs) (by omega) (m.drop bs) (E (xorB (m.take bs) ks)) hlen hE1
      refine ⟨ks', hk', ?_, ?_⟩
      · simp only [Buf.loop, h1]
        rw [hdiv, Nat.add_mul, Nat.one_mul, Nat.add_comm _ bs, List.take_add, RS.run_append,
          RS.run_block E bs hbs _ _ hb hk]
      · rw [hdiv, Nat.add_mul, Nat.one_mul, Nat.add_comm _ bs, List.take_add, RS.run_append,
          RS.run_block E bs hbs _ _ hb hk]
        exact h2
    · rename_i h
      have : n / bs = 0 := by apply Nat.div_eq_of_lt; omega
      refine ⟨ks, hk, ?_, ?_⟩ <;> simp [this, Buf.loop, RS.run]

theorem Buf.encrypt_refines (E) (bs : Nat) (hbs : 0 < bs) (hE : LenPres bs E)
    (s : Buf) (a : RS) (data : Bytes) (hR : Buf.Rel bs s a) :
    (Buf.encrypt E bs s data).2 = (RS.run E bs a data).2 ∧
    Buf.Rel bs (Buf.encrypt E bs s data).1 (RS.run E bs a data).1 := by
  obtain ⟨hk, hp, hlt, hiv⟩ := hR
  have hdrop : s.iv.drop s.pos = a.ks.drop a.cur.length := by
    rw [hiv, hp, List.drop_left]
  have htake : s.iv.take s.pos = a.cur := by
    rw [hiv, hp, List.take_left]
  unfold Buf.encrypt
  simp only
  split
  · -- stays inside the current block
    rename_i hn
    have hpart := RS.run_partial E bs data a (by omega) hk
    rw [hpart]
    have hx : xorB data ((s.iv.drop s.pos).take data.length) = xorB data (a.ks.drop a.cur.length) := by
      rw [hdrop]; exact xorB_take_right data _
    refine ⟨hx, ⟨hk, ?_, ?_, ?_⟩⟩
    · simp [hp]; omega
    · simp only; omega
    · simp only
      rw [hx, htake]
      have hxl : (xorB data (a.ks.drop a.cur.length)).length = data.length := by simp; omega
      rw [List.append_assoc]
      congr 2
      rw [List.length_append, hxl, hiv, hp]
      rw [List.drop_append]  -- drop (|cur| + n) (cur ++ rest) = drop n rest
      · simp [List.drop_drop]
  · rename_i hn
    -- data = left ++ right, left finishes the current block
    have hll : (data.take (bs - s.pos)).length = bs - s.pos := by simp; omega
    have hcomp := RS.run_complete E bs (data.take (bs - s.pos)) a (by rw [hll, ← hp]; omega) (by rw [hll]; omega) hk
    have hdata : data = data.take (bs - s.pos) ++ data.drop (bs - s.pos) := by simp
    generalize hR : data.drop (bs - s.pos) = right at *
    have hE1 : (E (a.cur ++ xorB (data.take (bs - s.pos)) (a.ks.drop a.cur.length))).length = bs := by
      apply hE.len; simp [hll, hk]; omega
    obtain ⟨ks', hk', hl1, hl2⟩ := Buf.loop_spec E bs hbs hE right.length right _ rfl hE1
    have hrsplit : right = right.take (right.length / bs * bs) ++ right.drop (right.length / bs * bs) := by simp
    have hdm := Nat.div_add_mod right.length bs
    have hml := Nat.mod_lt right.length hbs
    have hreml : (right.drop (right.length / bs * bs)).length = right.length % bs := by
      simp; rw [Nat.mul_comm]; omega
    have hpartial := RS.run_partial E bs (right.drop (right.length / bs * bs)) { ks := ks', cur := [] }
      (by simp only [List.length_nil]; rw [hreml]; omega) hk'
    -- assemble the reference run over data
    have hrun : RS.run E bs a data =
        ({ ks := ks', cur := xorB (right.drop (right.length / bs * bs)) ks' },
         xorB (data.take (bs - s.pos)) (a.ks.drop a.cur.length) ++
           ((RS.run E bs { ks := E (a.cur ++ xorB (data.take (bs - s.pos)) (a.ks.drop a.cur.length)), cur := [] }
              (right.take (right.length / bs * bs))).2 ++ xorB (right.drop (right.length / bs * bs)) ks')) := by
      conv => lhs; rw [hdata, RS.run_append, hcomp]
      simp only
      conv => lhs; rw [hrsplit, RS.run_append, hl2, hpartial]
      simp
    rw [hrun, hdrop, htake, hl1]
    refine ⟨rfl, ⟨hk', ?_, ?_, ?_⟩⟩
    · simp [hreml]; omega
    · simp only; rw [hreml]; exact hml
    · simp

#print axioms Buf.encrypt_refines
