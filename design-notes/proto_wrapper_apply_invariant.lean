abbrev Bytes := List UInt8
def xorB (a b : Bytes) : Bytes := List.zipWith (· ^^^ ·) a b

/-- keystream as a byte function -/
def ksBytes (kb : Nat → UInt8) (q n : Nat) : Bytes := (List.range n).map fun i => kb (q + i)
def ksBlock (bs : Nat) (kb : Nat → UInt8) (i : Nat) : Bytes := ksBytes kb (i * bs) bs

@[simp] theorem ksBytes_length (kb q n) : (ksBytes kb q n).length = n := by simp [ksBytes]

theorem ksBytes_add (kb : Nat → UInt8) (q a b : Nat) :
    ksBytes kb q (a + b) = ksBytes kb q a ++ ksBytes kb (q + a) b := by
  simp only [ksBytes, List.range_add, List.map_append, List.map_map]
  congr 1
  apply List.map_congr_left
  intro i _
  simp [Nat.add_assoc]

theorem ksBytes_drop (kb : Nat → UInt8) (q n p : Nat) (h : p ≤ n) :
    (ksBytes kb q n).drop p = ksBytes kb (q + p) (n - p) := by
  have : n = p + (n - p) := by omega
  conv => lhs; rw [this, ksBytes_add]
  simp

theorem ksBytes_take (kb : Nat → UInt8) (q n m : Nat) (h : m ≤ n) :
    (ksBytes kb q n).take m = ksBytes kb q m := by
  have : n = m + (n - m) := by omega
  conv => lhs; rw [this, ksBytes_add]
  simp

theorem xorB_append (a b c d : Bytes) (h : a.length = c.length) :
    xorB (a ++ b) (c ++ d) = xorB a c ++ xorB b d := by
  simp [xorB, List.zipWith_append h]

@[simp] theorem xorB_nil_left (b : Bytes) : xorB [] b = [] := by simp [xorB]

structure W where
  blk : Nat
  pos : Nat
  buf : Bytes

/-- mirror of StreamCipherCoreWrapper::try_apply_keystream_inout (after check_remaining),
    over an abstract core whose block `i` is `ksBlock bs kb i` -/
def W.apply (bs : Nat) (kb : Nat → UInt8) (s : W) (data : Bytes) : W × Bytes :=
  let rem := bs - s.pos
  if rem ≠ 0 ∧ data.length ≤ rem then
    ({ s with pos := s.pos + data.length }, xorB data ((s.buf.drop s.pos).take data.length))
  else
    let left := data.take rem
    let right := data.drop rem
    let outL := xorB left (s.buf.drop s.pos)
    let nb := right.length / bs
    let body := right.take (nb * bs)
    let tail := right.drop (nb * bs)
    let outB := xorB body (ksBytes kb (s.blk * bs) (nb * bs))
    let blk' := s.blk + nb
    if tail.length = 0 then
      ({ blk := blk', pos := bs, buf := s.buf }, outL ++ outB)
    else
      let buf' := ksBlock bs kb blk'
      ({ blk := blk' + 1, pos := tail.length, buf := buf'.set 0 (UInt8.ofNat tail.length) },
        outL ++ outB ++ xorB tail (buf'.take tail.length))

/-- abstract byte position -/
def W.q (bs : Nat) (s : W) : Nat := s.blk * bs - (bs - s.pos)

structure WInv (bs : Nat) (kb : Nat → UInt8) (s : W) : Prop where
  pos_pos : 1 ≤ s.pos
  pos_le : s.pos ≤ bs
  blk_pos : s.pos < bs → 1 ≤ s.blk
  buf_ok : s.pos < bs → s.buf.drop s.pos = ksBytes kb (s.blk * bs - (bs - s.pos)) (bs - s.pos)

theorem drop_set_zero (l : Bytes) (v : UInt8) (p : Nat) (h : 1 ≤ p) : (l.set 0 v).drop p = l.drop p := by
  cases l with
  | nil => simp
  | cons x xs =>
    cases p with
    | zero => omega
    | succ p => simp

theorem W.apply_spec (bs : Nat) (hbs : 0 < bs) (kb : Nat → UInt8) (s : W) (data : Bytes)
    (hI : WInv bs kb s) :
    (W.apply bs kb s data).2 = xorB data (ksBytes kb (s.q bs) data.length) ∧
    WInv bs kb (W.apply bs kb s data).1 ∧
    (W.apply bs kb s data).1.q bs = s.q bs + data.length := by
  obtain ⟨h1, h2, h3, h4⟩ := hI
  unfold W.apply
  simp only
  split
  · -- served from the buffer
    rename_i hc
    obtain ⟨hrem, hlen⟩ := hc
    have hlt : s.pos < bs := by omega
    have hb := h4 hlt
    have hk := h3 hlt
    have hge : s.blk * bs ≥ bs := by
      calc s.blk * bs ≥ 1 * bs := Nat.mul_le_mul_right bs hk
        _ = bs := by simp
    refine ⟨?_, ⟨by simp; omega, by simp; omega, fun _ => hk, ?_⟩, ?_⟩
    · simp only [W.q]
      rw [hb, ksBytes_take _ _ _ _ hlen]
    · intro hlt'
      simp only at hlt' ⊢
      have : s.buf.drop (s.pos + data.length) = (s.buf.drop s.pos).drop data.length := by
        rw [List.drop_drop]
      rw [this, hb, ksBytes_drop _ _ _ _ hlen]
      congr 1 <;> omega
    · simp only [W.q]
      have : s.blk * bs ≥ bs := by
        calc s.blk * bs ≥ 1 * bs := Nat.mul_le_mul_right bs hk
          _ = bs := by simp
      omega
  · rename_i hc
    -- general facts
    have hrem_case : bs - s.pos = 0 ∨ (bs - s.pos ≠ 0 ∧ bs - s.pos < data.length) := by omega
    have hq : s.q bs + (bs - s.pos) = s.blk * bs := by
      simp only [W.q]
      rcases Nat.lt_or_ge s.pos bs with hlt | hge
      · have hk := h3 hlt
        have : s.blk * bs ≥ bs := by
          calc s.blk * bs ≥ 1 * bs := Nat.mul_le_mul_right bs hk
            _ = bs := by simp
        omega
      · omega
    have hleft : xorB (data.take (bs - s.pos)) (s.buf.drop s.pos)
        = xorB (data.take (bs - s.pos)) (ksBytes kb (s.q bs) (data.take (bs - s.pos)).length) := by
      rcases hrem_case with h0 | ⟨hne, hlt⟩
      · simp [h0]
      · have hlt' : s.pos < bs := by omega
        rw [h4 hlt']
        simp only [W.q]
        congr 2
        simp; omega
    have hll : (data.take (bs - s.pos)).length = bs - s.pos ∨ data.length < bs - s.pos := by
      simp; omega
    have hll' : (data.take (bs - s.pos)).length = bs - s.pos := by
      rcases hrem_case with h0 | ⟨_, hlt⟩
      · simp [h0]
      · simp; omega
    -- decomposition of data
    generalize hR : data.drop (bs - s.pos) = right at *
    have hdata : data = data.take (bs - s.pos) ++ right := by rw [← hR]; simp
    have hdl : data.length = (bs - s.pos) + right.length := by
      have := congrArg List.length hdata
      simp only [List.length_append] at this
      omega
    have hdm := Nat.div_add_mod right.length bs
    have hmodlt := Nat.mod_lt right.length hbs
    generalize hnb : right.length / bs = nb at *
    have hnbs : nb * bs ≤ right.length := by rw [Nat.mul_comm]; omega
    have hright : right = right.take (nb * bs) ++ right.drop (nb * bs) := by simp
    have hbl : (right.take (nb * bs)).length = nb * bs := by simp; omega
    have htl : (right.drop (nb * bs)).length = right.length - nb * bs := by simp
    split
    · rename_i ht
      have hfull : right.length = nb * bs := by omega
      refine ⟨?_, ⟨by simp; omega, by simp, by simp, by simp⟩, ?_⟩
      · simp only
        conv => rhs; rw [hdl, ksBytes_add]; lhs; rw [hdata]
        rw [xorB_append _ _ _ _ (by simp [hll'])]
        rw [hleft, hll', hq]
        congr 1
        have : right.take (nb * bs) = right := by rw [← hfull]; simp
        rw [this, hfull]
      · simp only [W.q]
        rw [Nat.sub_self, Nat.sub_zero, Nat.add_mul]
        omega
    · rename_i ht
      have htpos : 0 < (right.drop (nb * bs)).length := by omega
      have htlt : (right.drop (nb * bs)).length < bs := by
        rw [htl, Nat.mul_comm]; omega
      refine ⟨?_, ⟨by simp only; omega, by simp only; omega, fun _ => by simp, ?_⟩, ?_⟩
      · simp only
        have hd3 : data.length = (bs - s.pos) + (nb * bs + (right.drop (nb * bs)).length) := by
          rw [htl]; omega
        conv => rhs; rw [hd3, ksBytes_add, ksBytes_add]; lhs; rw [hdata, hright]
        rw [xorB_append _ _ _ _ (by simp [hll']), xorB_append _ _ _ _ (by simp [hbl])]
        rw [hleft, hll', hq, List.append_assoc]
        congr 2
        simp only [ksBlock]
        rw [ksBytes_take _ _ _ _ (Nat.le_of_lt htlt)]
        congr 1
        rw [Nat.add_mul]
      · intro _
        simp only
        rw [drop_set_zero _ _ _ htpos]
        simp only [ksBlock]
        rw [ksBytes_drop _ _ _ _ (Nat.le_of_lt htlt)]
        congr 1
        have : (s.blk + nb + 1) * bs = (s.blk + nb) * bs + bs := by
          rw [Nat.add_mul (s.blk + nb) 1 bs]; simp
        omega
      · simp only [W.q]
        have : (s.blk + nb + 1) * bs = s.blk * bs + nb * bs + bs := by
          rw [Nat.add_mul (s.blk + nb) 1 bs, Nat.add_mul]; simp
        rw [this, htl] at *
        omega

#print axioms W.apply_spec
